import SJ.Proofs.MachineApTop
/-!
# The lexical scan on JSON texts: a token-free syntax tree has no hit

`scan_of_tokenFree : JsonText bs t → tokenFree t = true → hasTokenFirstKey bs = false` — by mutual induction on the
derivation: over a value the scan returns to "outside strings, last non-blank byte not `{`" with its `hit` flag unchanged;
the only place where the flag can be set is the closing quote of a first key, and there the decoded key is compared with
the token (`parseItems_flat`), which `tokenFree` excludes.
-/
namespace SJ.Proofs.MachineAp
open SJ SJ.Gen SJ.Model.Machine SJ.Proofs.Sound
open SJ.Spec.Grammar (CST StrItem StrWF strBytes Ws IsNumber NumParts Derives Elems Members JsonText)
open SJ.Spec.Denote (decodeItems)
open SJ.Spec.PrivateToken (LexSt LMode lexStep lexRun hasTokenFirstKey bodyIsToken parseItems tokenFree tokenFreeList
  tokenFreeMembers firstKeyIsToken isTokenKey)

/-- over `bs` the scan ends outside strings, not after a `{`, and sets no hit -/
def Quiet (l : LexSt) (bs : Bytes) : Prop := (lexRun l bs).mode = .out false ∧ (lexRun l bs).hit = l.hit

theorem Quiet.append {l : LexSt} {xs ys : Bytes} (h1 : Quiet l xs) (h2 : Quiet (lexRun l xs) ys) : Quiet l (xs ++ ys) := by
  unfold Quiet at *
  rw [lexRun_append]
  exact ⟨h2.1, h2.2.trans h1.2⟩

theorem quiet_nil (l : LexSt) (hl : l.mode = .out false) : Quiet l [] := ⟨hl, rfl⟩

theorem quiet_ws (l : LexSt) (w : Bytes) (hl : l.mode = .out false) (hw : Ws w) : Quiet l w := by
  unfold Quiet; rw [lexRun_ws w l false hl hw]; exact ⟨hl, rfl⟩

/-- a byte that is neither `"`, `{` nor whitespace, outside strings -/
theorem lex_plain' (l : LexSt) (br : Bool) (b : UInt8) (hl : l.mode = .out br) (h1 : (b == 0x22) = false)
    (h2 : (b == 0x7b) = false) (h3 : Spec.Grammar.isWs b = false) :
    (lexStep l b).mode = .out false ∧ (lexStep l b).hit = l.hit := by
  unfold lexStep
  rw [hl]
  simp [h1, h2, h3]

theorem quiet_one (l : LexSt) (br : Bool) (b : UInt8) (hl : l.mode = .out br) (h1 : (b == 0x22) = false)
    (h2 : (b == 0x7b) = false) (h3 : Spec.Grammar.isWs b = false) : Quiet l [b] :=
  lex_plain' l br b hl h1 h2 h3

theorem quiet_plain : ∀ (bs : Bytes) (l : LexSt), l.mode = .out false →
    (∀ x ∈ bs, (x == 0x22) = false ∧ (x == 0x7b) = false) → Quiet l bs
  | [], l, hl, _ => quiet_nil l hl
  | b :: bs, l, hl, h => by
    have hb := h b (List.mem_cons_self ..)
    have h1 := lex_plain l b hl hb.1 hb.2
    have := quiet_plain bs (lexStep l b) h1.1 fun x hx => h x (List.mem_cons_of_mem _ hx)
    exact ⟨by rw [lexRun_cons]; exact this.1, by rw [lexRun_cons]; exact this.2.trans h1.2⟩

/-! ## numbers -/

theorem fromStrLoop_plain : ∀ (bs : Bytes) (n : NumSt) (i : Nat), Model.MachineAp.fromStrLoop n i bs = .ok () →
    ∀ x ∈ bs, (x == 0x22) = false ∧ (x == 0x7b) = false
  | [], _, _, _ => by simp
  | b :: bs, n, i, h => by
    unfold Model.MachineAp.fromStrLoop at h
    cases hs : stepNum Model.MachineAp.numEnv { mode := .num n, stack := [] } n b with
    | next s' =>
      rw [hs] at h
      obtain ⟨n', rfl⟩ := stepNum_next_shape _ _ n b s' hs
      simp only at h
      intro x hx
      rcases List.mem_cons.mp hx with rfl | hx
      · exact stepNum_next_byte _ _ n x _ hs
      · exact fromStrLoop_plain bs n' (i + 1) h x hx
    | again s' => rw [hs] at h; simp at h
    | err c a => rw [hs] at h; simp only at h; split at h <;> simp at h

theorem number_plain (p : NumParts) (hwf : p.WF = true) : ∀ x ∈ p.bytes, (x == 0x22) = false ∧ (x == 0x7b) = false := by
  have h := fromStr_complete p.bytes ⟨p, hwf, rfl⟩
  unfold Model.MachineAp.fromStr at h
  cases hb : p.bytes with
  | nil => simp
  | cons b bs =>
    rw [hb] at h
    simp only at h
    split at h
    · rename_i hd
      obtain ⟨n, hs, _, _⟩ := start_numInv b hd
      rw [hs] at h
      simp only at h
      intro x hx
      rcases List.mem_cons.mp hx with rfl | hx
      · rcases Bool.or_eq_true _ _ ▸ hd with h1 | h1
        · have : x = 0x2d := by simpa using h1
          subst this; decide
        · exact digit_not_quote x h1
      · exact fromStrLoop_plain bs n 1 h x hx
    · simp at h

/-! ## strings -/

/-- a whole string literal opened outside strings: the scan closes it; a hit is set only if it is a first key
    (`br`) that decodes to the token -/
theorem lex_string (l : LexSt) (br : Bool) (items : List StrItem) (hl : l.mode = .out br) (hwf : StrWF items = true) :
    (lexRun l (strBytes items)).mode = .out false ∧
    (lexRun l (strBytes items)).hit = (l.hit || (br && isTokenKey items)) := by
  have h1 : strBytes items = 0x22 :: (items.flatMap StrItem.bytes ++ [0x22]) := by simp [strBytes]
  rw [h1, lexRun_cons, lex_quote l br hl, lexRun_append]
  obtain ⟨hm, hh⟩ := lex_items items { l with mode := .str br [] false } br [] hwf rfl
  have : lexRun (lexRun { l with mode := .str br [] false } (items.flatMap StrItem.bytes)) [0x22] =
      { mode := .out false, hit := (lexRun { l with mode := .str br [] false } (items.flatMap StrItem.bytes)).hit ||
        (br && bodyIsToken ((items.flatMap StrItem.bytes).reverse ++ []).reverse) } := by
    show lexStep _ 0x22 = _
    unfold lexStep
    rw [hm]
    rfl
  rw [this, hh]
  refine ⟨rfl, ?_⟩
  simp only [List.append_nil, List.reverse_reverse]
  unfold bodyIsToken isTokenKey
  rw [parseItems_flat items hwf]

theorem quiet_string (l : LexSt) (items : List StrItem) (hl : l.mode = .out false) (hwf : StrWF items = true) :
    Quiet l (strBytes items) := by
  obtain ⟨h1, h2⟩ := lex_string l false items hl hwf
  exact ⟨h1, by rw [h2]; simp⟩

/-! ## the induction over derivations -/

def LV (vb : Bytes) (t : CST) : Prop := tokenFree t = true → ∀ l : LexSt, l.mode = .out false → Quiet l vb
def LE (b : Bytes) (xs : List CST) : Prop := tokenFreeList xs = true → ∀ l : LexSt, l.mode = .out false → Quiet l b
def LM (b : Bytes) (ms : List (List StrItem × CST)) : Prop :=
  tokenFreeMembers ms = true → ∀ (first : Bool) (l : LexSt), l.mode = .out first →
    (first = true → firstKeyIsToken ms = false) → Quiet l b

theorem colon_quiet (l : LexSt) (hl : l.mode = .out false) : Quiet l [0x3a] :=
  quiet_one l false 0x3a hl (by decide) (by decide) (by decide)

theorem comma_quiet (l : LexSt) (hl : l.mode = .out false) : Quiet l [0x2c] :=
  quiet_one l false 0x2c hl (by decide) (by decide) (by decide)

/-- a member `"key" ws : ws value`, the key opened in scan state `out first` -/
theorem member_quiet (k : List StrItem) (hk : StrWF k = true) (w₁ w₂ vb : Bytes) (t : CST) (h₁ : Ws w₁) (h₂ : Ws w₂)
    (ihv : LV vb t) (htf : tokenFree t = true) (first : Bool) (l : LexSt) (hl : l.mode = .out first)
    (hfirst : first = true → isTokenKey k = false) :
    Quiet l (strBytes k ++ w₁ ++ [0x3a] ++ w₂ ++ vb) := by
  obtain ⟨hm, hh⟩ := lex_string l first k hl hk
  have hkq : Quiet l (strBytes k) := by
    refine ⟨hm, ?_⟩
    rw [hh]
    cases first with
    | false => simp
    | true => simp [hfirst rfl]
  have q1 := hkq.append (quiet_ws _ w₁ hkq.1 h₁)
  have q2 := q1.append (colon_quiet _ q1.1)
  have q3 := q2.append (quiet_ws _ w₂ q2.1 h₂)
  exact q3.append (ihv htf _ q3.1)

theorem scan_derives {vb : Bytes} {t : CST} (h : Derives vb t) : LV vb t := by
  refine Derives.rec (motive_1 := fun vb t _ => LV vb t)
    (motive_2 := fun b xs _ => LE b xs) (motive_3 := fun b ms _ => LM b ms)
    ?_ ?_ ?_ ?_ ?_ ?_ ?_ ?_ ?_ ?_ ?_ ?_ ?_ h
  · intro _ l hl; exact quiet_plain _ l hl (by decide)
  · intro _ l hl; exact quiet_plain _ l hl (by decide)
  · intro _ l hl; exact quiet_plain _ l hl (by decide)
  · intro p hp _ l hl; exact quiet_plain _ l hl (number_plain p hp)
  · intro items hwf _ l hl; exact quiet_string l items hl hwf
  · -- empty array
    intro w hw _ l hl
    have q1 : Quiet l [0x5b] := quiet_one l false 0x5b hl (by decide) (by decide) (by decide)
    have q2 := q1.append (quiet_ws _ w q1.1 hw)
    exact q2.append (quiet_one _ false 0x5d q2.1 (by decide) (by decide) (by decide))
  · -- array
    intro w₁ body w₂ xs h₁ h₂ _ _ ih htf l hl
    have htf' : tokenFreeList xs = true := by simpa [tokenFree] using htf
    have q1 : Quiet l [0x5b] := quiet_one l false 0x5b hl (by decide) (by decide) (by decide)
    have q2 := q1.append (quiet_ws _ w₁ q1.1 h₁)
    have q3 := q2.append (ih htf' _ q2.1)
    have q4 := q3.append (quiet_ws _ w₂ q3.1 h₂)
    exact q4.append (quiet_one _ false 0x5d q4.1 (by decide) (by decide) (by decide))
  · -- empty object
    intro w hw _ l hl
    obtain ⟨b1, b2⟩ := lex_brace l false hl
    have hopen : lexRun l ([0x7b] ++ w) = lexStep l 0x7b := by
      rw [List.singleton_append, lexRun_cons]; exact lexRun_ws w _ true b1 hw
    have hclose := lex_plain' (lexStep l 0x7b) true 0x7d b1 (by decide) (by decide) (by decide)
    have : lexRun l ([0x7b] ++ w ++ [0x7d]) = lexStep (lexStep l 0x7b) 0x7d := by
      rw [lexRun_append, hopen]; rfl
    unfold Quiet
    rw [this]
    exact ⟨hclose.1, hclose.2.trans b2⟩
  · -- object
    intro w₁ body w₂ ms h₁ h₂ _ _ ih htf l hl
    simp only [tokenFree, Bool.and_eq_true, Bool.not_eq_true'] at htf
    obtain ⟨b1, b2⟩ := lex_brace l false hl
    have hopen : lexRun l ([0x7b] ++ w₁) = lexStep l 0x7b := by
      rw [List.singleton_append, lexRun_cons]; exact lexRun_ws w₁ _ true b1 h₁
    have qb := ih htf.2 true (lexStep l 0x7b) b1 (fun _ => htf.1)
    have q4 := qb.append (quiet_ws _ w₂ qb.1 h₂)
    have q5 := q4.append (quiet_one _ false 0x7d q4.1 (by decide) (by decide) (by decide))
    have : lexRun l ([0x7b] ++ w₁ ++ body ++ w₂ ++ [0x7d]) = lexRun (lexStep l 0x7b) (body ++ w₂ ++ [0x7d]) := by
      rw [show [0x7b] ++ w₁ ++ body ++ w₂ ++ [0x7d] = ([0x7b] ++ w₁) ++ (body ++ w₂ ++ [0x7d]) by simp,
        lexRun_append, hopen]
    unfold Quiet
    rw [this]
    exact ⟨q5.1, q5.2.trans b2⟩
  · -- one element
    intro bs t _ ih htf l hl
    exact ih (by simpa [tokenFreeList] using htf) l hl
  · -- element, comma, elements
    intro bs w₁ w₂ rest t ts _ h₁ h₂ _ ihv ihr htf l hl
    simp only [tokenFreeList, Bool.and_eq_true] at htf
    have q1 := ihv htf.1 l hl
    have q2 := q1.append (quiet_ws _ w₁ q1.1 h₁)
    have q3 := q2.append (comma_quiet _ q2.1)
    have q4 := q3.append (quiet_ws _ w₂ q3.1 h₂)
    exact q4.append (ihr htf.2 _ q4.1)
  · -- one member
    intro k hk w₁ w₂ vb t h₁ h₂ _ ihv htf first l hl hfirst
    simp only [tokenFreeMembers, Bool.and_eq_true] at htf
    exact member_quiet k hk w₁ w₂ vb t h₁ h₂ ihv htf.1 first l hl (fun hf => by simpa [firstKeyIsToken] using hfirst hf)
  · -- member, comma, members
    intro k hk w₁ w₂ vb w₃ w₄ rest t ms h₁ h₂ _ h₃ h₄ _ ihv ihr htf first l hl hfirst
    simp only [tokenFreeMembers, Bool.and_eq_true] at htf
    have q1 := member_quiet k hk w₁ w₂ vb t h₁ h₂ ihv htf.1 first l hl
      (fun hf => by simpa [firstKeyIsToken] using hfirst hf)
    have q2 := q1.append (quiet_ws _ w₃ q1.1 h₃)
    have q3 := q2.append (comma_quiet _ q2.1)
    have q4 := q3.append (quiet_ws _ w₄ q3.1 h₄)
    have q5 := q4.append (ihr htf.2 false _ q4.1 (fun hf => by cases hf))
    simpa [List.append_assoc] using q5

/-- **a JSON text whose syntax tree has no token first key has no hit in the lexical scan** -/
theorem scan_of_tokenFree (bs : Bytes) (t : CST) (h : JsonText bs t) (htf : tokenFree t = true) :
    hasTokenFirstKey bs = false := by
  obtain ⟨w₁, v, w₂, rfl, hw₁, hw₂, hd⟩ := h
  have q1 : Quiet {} w₁ := quiet_ws {} w₁ rfl hw₁
  have q2 := q1.append (scan_derives hd htf _ q1.1)
  have q3 := q2.append (quiet_ws _ w₂ q2.1 hw₂)
  exact q3.2

end SJ.Proofs.MachineAp
