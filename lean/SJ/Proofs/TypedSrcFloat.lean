import SJ.Proofs.TypedSimNoor
import SJ.Proofs.TypedSrc
/-!
# Slice / reader on schemas without a 128-bit integer target (C09, typed clause, sharpened)

`SR2` is `SR` (`SJ/Proofs/TypedSrc.lean`) with `NumberOutOfRange` removed from the codes that may be reported one byte
later by the reader; `sim2_slice_reader` is the instance of `Sim2` (`SJ/Proofs/TypedSimNoor.lean`), `sr2_deTyped` the
relation of the two runs on every schema with `Schema.no128`.
-/
namespace SJ.Proofs.Typed
open SJ SJ.Gen SJ.Model SJ.Model.Typed
open SJ.Model.Machine (St Src Tgt)

/-- slice result, reader result; `NumberOutOfRange` is not among the shifted parser errors -/
inductive SR2 {α : Type} : Res α → Res α → Prop
  | same (r : Res α) : SR2 r r
  | errP (c : Code) (i : Nat) (h : PeekCode2 c) : SR2 (.err c i) (.err c (i + 1))
  | dataP (i : Nat) : SR2 (.data i) (.data (i + 1))

theorem SR2.sr {α : Type} {a b : Res α} (h : SR2 a b) : SR a b := by
  cases h with
  | same => exact .same _
  | errP c i h => exact .errP c i h.peekCode
  | dataP i => exact .dataP i

theorem sim2_slice_reader (cfg : Machine.Cfg) (flt : Bool) : Sim2 (eSlice cfg flt) (eReader cfg flt) (fun _ => True) SR2 where
  cfg := rfl
  vcut := fun _ _ _ _ _ => trivial
  ok := fun _ _ _ _ => .same _
  err := fun _ _ => .same _
  data := fun _ => .same _
  raw := fun _ _ => .same _
  fuel := .same _
  handle := by
    intro α β r1 r2 k1 k2 h1 h2 hr hk hh
    cases hr with
    | same =>
      cases r1 with
      | ok a r p => exact hk a r p rfl rfl trivial
      | raw r p => exact hh r p rfl rfl
      | err c i => exact .same _
      | data i => exact .same _
      | io => exact .same _
      | fuel => exact .same _
    | errP c i h => exact .errP c i h
    | dataP i => exact .dataP i
  eof := fun _ _ => .same _
  flt := by
    intro α x1 x2 h
    cases flt
    · exact h
    · exact .same _
  dataIdx := by
    intro α r p pk
    rw [errorIdx_slice, errorIdx_reader]
    split
    · exact .dataP p
    · exact .same _
  errIdx := by
    intro α c r p pk hc
    rw [errorIdx_slice, errorIdx_reader]
    split
    · exact .errP c p hc
    · exact .same _
  mach := by
    intro tgt t s r p _ _
    unfold machine
    show SR2 (match runPfx ⟨cfg, .slice, tgt⟩ flt t s p r with | .ok v e => _ | .err c i => _ | .io => _)
      (match runPfx ⟨cfg, .reader, tgt⟩ flt t s p r with | .ok v e => _ | .err c i => _ | .io => _)
    rw [runPfx_src]
    exact .same _

/-- slice and reader runs of `deTyped` on a schema without `i128` / `u128` -/
theorem sr2_deTyped (cfg : Machine.Cfg) (flt : Bool) (f t : Nat) (s : Schema) (h128 : s.no128 = true) (rest : Bytes) (pos : Nat) :
    SR2 (deTyped (eSlice cfg flt) f t s rest pos) (deTyped (eReader cfg flt) f t s rest pos) :=
  sim2_deTyped (sim2_slice_reader cfg flt) f t s h128 rest pos trivial

end SJ.Proofs.Typed
