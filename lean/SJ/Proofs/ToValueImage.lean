import SJ.Proofs.ToValueNum
import SJ.Proofs.ToValueKeys
import SJ.Proofs.MkObj
import SJ.Proofs.SerEscape
/-!
# C15 core: `value::Serializer` (model `toValue`) against the data-model image

`toValue_agree` (mutual induction over programs): for a program `p` within scope (`inScope`), without
`Some(_)` keys, whose `f64`s read back from their printed text (`floatsRT`, on the widened program), the
run of `toValue` and the image of the f32-widened program are related by `Agree`:

* the image is undefined with error `e` (a bad key) ⇒ `toValue` fails with `e`, or — if a 128-bit
  integer out of range is serialised and `arbitrary_precision` is off — possibly with `NumberOutOfRange`;
* the image is `d` ⇒ `toValue` fails with `NumberOutOfRange` if such an integer is present, and
  otherwise succeeds with the `Value` that `d` denotes (`valueOfImage`).

`canon_cstOf`: `Spec.Canon.canon` of the syntax tree printed for `d` is `valueOfImage d`.
-/
namespace SJ.Proofs.ToValueImage
open SJ SJ.Spec.Grammar SJ.Spec.Denote SJ.Spec.Program SJ.Spec.Image SJ.Spec.ValueOf
open SJ.Model.ToValue SJ.Proofs.CanonM SJ.Proofs.ToValueNum SJ.Proofs.ToValueKeys
open SJ.Model.Machine (mkObj)

/-! ## `canon ∘ cstOf = valueOfImage` -/

mutual
theorem canon_cstOf (cfg : Spec.Canon.Cfg) : ∀ d : DV, Spec.Canon.canon cfg (cstOf d) = valueOfImage cfg d
  | .null => rfl
  | .bool true => rfl
  | .bool false => rfl
  | .num _ => rfl
  | .str s => by simp [cstOf, Spec.Canon.canon, valueOfImage, SerEscape.decode_strItems]
  | .arr xs => by simp [cstOf, Spec.Canon.canon, valueOfImage, canonList_cstOf cfg xs]
  | .obj ms => by simp [cstOf, Spec.Canon.canon, valueOfImage, canonMembers_cstOf cfg ms]
theorem canonList_cstOf (cfg : Spec.Canon.Cfg) : ∀ xs : List DV,
    Spec.Canon.canonList cfg (cstOfList xs) = valueOfImages cfg xs
  | [] => rfl
  | x :: xs => by
    simp only [cstOfList, Spec.Canon.canonList, valueOfImages, canon_cstOf cfg x, canonList_cstOf cfg xs]
    cases valueOfImage cfg x <;> cases valueOfImages cfg xs <;> rfl
theorem canonMembers_cstOf (cfg : Spec.Canon.Cfg) : ∀ ms : List (Bytes × DV),
    Spec.Canon.canonMembers cfg (cstOfMembers ms) = valueOfMembers cfg ms
  | [] => rfl
  | (k, x) :: ms => by
    simp only [cstOfMembers, Spec.Canon.canonMembers, valueOfMembers, SerEscape.decode_strItems, canon_cstOf cfg x,
      canonMembers_cstOf cfg ms]
    cases valueOfImage cfg x <;> cases valueOfMembers cfg ms <;> rfl
end

/-! ## the relation -/

/-- `blk`: a 128-bit integer out of range is serialised somewhere and `arbitrary_precision` is off;
    `rt`: the float proviso (only the *value* of the result depends on it, not success) -/
def Agree {α β : Type} (blk : Bool) (rt : Prop) (vo : β → Option α) (tv : Except SerErr α) (img : Except SerErr β) : Prop :=
  match img with
  | .error e => tv = .error e ∨ (blk = true ∧ tv = .error .numberOutOfRange)
  | .ok d => if blk = true then tv = .error .numberOutOfRange else ∃ v, tv = .ok v ∧ (rt → vo d = some v)

theorem Agree.ok {α β : Type} {rt : Prop} {vo : β → Option α} {v : α} {d : β} (h : rt → vo d = some v) :
    Agree false rt vo (.ok v) (.ok d) := by
  simp only [Agree, Bool.false_eq_true, if_false]; exact ⟨v, rfl, h⟩

theorem Agree.mono {α β : Type} {blk : Bool} {rt rt' : Prop} (hrt : rt' → rt) {vo : β → Option α}
    {tv : Except SerErr α} {img : Except SerErr β} (h : Agree blk rt vo tv img) : Agree blk rt' vo tv img := by
  cases img with
  | error e => exact h
  | ok d =>
    simp only [Agree] at h ⊢
    split at h
    · rename_i hb; rw [if_pos hb]; exact h
    · rename_i hb; rw [if_neg hb]
      obtain ⟨v, hv, hd⟩ := h
      exact ⟨v, hv, fun r => hd (hrt r)⟩

theorem Agree.map {α β α' β' : Type} {blk : Bool} {rt : Prop} {vo : β → Option α} {vo' : β' → Option α'} {f : β → β'} {g : α → α'}
    (hfg : ∀ d v, vo d = some v → vo' (f d) = some (g v)) {tv : Except SerErr α} {img : Except SerErr β}
    (h : Agree blk rt vo tv img) : Agree blk rt vo' (tv.map g) (img.map f) := by
  cases img with
  | error e =>
    simp only [Agree, Except.map] at h ⊢
    rcases h with h | ⟨hb, h⟩
    · left; rw [h]
    · right; exact ⟨hb, by rw [h]⟩
  | ok d =>
    simp only [Agree, Except.map] at h ⊢
    split at h
    · rename_i hb; rw [if_pos hb, h]
    · rename_i hb
      rw [if_neg hb]
      obtain ⟨v, hv, hd⟩ := h
      exact ⟨g v, by rw [hv], fun r => hfg d v (hd r)⟩

/-- sequencing: the element, then the rest (`tri!` on each) -/
def consE {α α' : Type} (mk : α → α') (a : Except SerErr α) (r : Except SerErr (List α')) : Except SerErr (List α') :=
  match a with
  | .error e => .error e
  | .ok v =>
    match r with
    | .error e => .error e
    | .ok vs => .ok (mk v :: vs)

theorem Agree.cons {α β α' β' : Type} {vo : β → Option α} {voL : List β' → Option (List α')} {mk : α → α'} {mk' : β → β'}
    (hvoL : ∀ d ds v vs, vo d = some v → voL ds = some vs → voL (mk' d :: ds) = some (mk v :: vs))
    {b1 b2 : Bool} {rt1 rt2 : Prop} {tv : Except SerErr α} {img : Except SerErr β} {tvs : Except SerErr (List α')}
    {imgs : Except SerErr (List β')} (h1 : Agree b1 rt1 vo tv img) (h2 : Agree b2 rt2 voL tvs imgs) :
    Agree (b1 || b2) (rt1 ∧ rt2) voL (consE mk tv tvs) (consE mk' img imgs) := by
  cases img with
  | error e =>
    simp only [Agree, consE] at h1 ⊢
    rcases h1 with h | ⟨hb, h⟩
    · left; rw [h]
    · right; exact ⟨by simp [hb], by rw [h]⟩
  | ok d =>
    simp only [Agree] at h1
    by_cases hb1 : b1 = true
    · rw [if_pos hb1] at h1
      subst h1
      cases imgs with
      | error e => simp only [Agree, consE]; right; exact ⟨by simp [hb1], trivial⟩
      | ok ds => simp only [Agree, consE, hb1, Bool.true_or, if_true]
    · rw [if_neg hb1] at h1
      obtain ⟨v, hv, hd⟩ := h1
      subst hv
      have hb1' : b1 = false := by simpa using hb1
      subst hb1'
      cases imgs with
      | error e =>
        simp only [Agree, consE, Bool.false_or] at h2 ⊢
        rcases h2 with h | ⟨hb, h⟩
        · left; rw [h]
        · right; exact ⟨hb, by rw [h]⟩
      | ok ds =>
        simp only [Agree, consE, Bool.false_or] at h2 ⊢
        split at h2
        · rename_i hb; rw [if_pos hb, h2]
        · rename_i hb
          rw [if_neg hb]
          obtain ⟨vs, hvs, hds⟩ := h2
          subst hvs
          exact ⟨_, rfl, fun r => hvoL d ds v vs (hd r.1) (hds r.2)⟩

/-! ## unfolding the list functions into `consE` -/

section unfold
variable (cfg : Model.Machine.Cfg) (ext : Ext)

theorem toValues_cons (x : SVal) (xs : List SVal) :
    toValues cfg ext (x :: xs) = consE id (toValue cfg ext x) (toValues cfg ext xs) := by
  rw [toValues]; unfold consE
  cases toValue cfg ext x with
    | error e => rfl
    | ok a => cases toValues cfg ext xs <;> rfl

theorem imageList_cons (x : SVal) (xs : List SVal) :
    imageList ext (x :: xs) = consE id (image ext x) (imageList ext xs) := by
  rw [imageList]; unfold consE
  cases image ext x with
    | error e => rfl
    | ok a => cases imageList ext xs <;> rfl

theorem toEntries_cons (k v : SVal) (es : List (SVal × SVal)) :
    toEntries cfg ext ((k, v) :: es) =
      match keyVal ext k with
      | .error e => .error e
      | .ok kt => consE (fun x => (kt, x)) (toValue cfg ext v) (toEntries cfg ext es) := by
  rw [toEntries]
  cases keyVal ext k with
  | error e => rfl
  | ok kt =>
    simp only []; unfold consE
    cases toValue cfg ext v with
    | error e => rfl
    | ok a => cases toEntries cfg ext es <;> rfl

theorem imageEntries_cons (k v : SVal) (es : List (SVal × SVal)) :
    imageEntries ext ((k, v) :: es) =
      match keyText ext k with
      | .error e => .error e
      | .ok kt => consE (fun x => (kt, x)) (image ext v) (imageEntries ext es) := by
  rw [imageEntries]
  cases keyText ext k with
  | error e => rfl
  | ok kt =>
    simp only []; unfold consE
    cases image ext v with
    | error e => rfl
    | ok a => cases imageEntries ext es <;> rfl

theorem toFields_cons (n : Bytes) (v : SVal) (fs : List (Bytes × SVal)) :
    toFields cfg ext ((n, v) :: fs) = consE (fun x => (n, x)) (toValue cfg ext v) (toFields cfg ext fs) := by
  rw [toFields]; unfold consE
  cases toValue cfg ext v with
    | error e => rfl
    | ok a => cases toFields cfg ext fs <;> rfl

theorem imageFields_cons (n : Bytes) (v : SVal) (fs : List (Bytes × SVal)) :
    imageFields ext ((n, v) :: fs) = consE (fun x => (n, x)) (image ext v) (imageFields ext fs) := by
  rw [imageFields]; unfold consE
  cases image ext v with
    | error e => rfl
    | ok a => cases imageFields ext fs <;> rfl

end unfold

/-! ## scalars -/

theorem f32to64_eq (b : UInt32) : f32to64 b = widen32 b := rfl

theorem inRange_bounds (w : IntW) (n : Int) (hr : w.inRange n = true) :
    (w.signed = true → -(2 ^ (w.bits - 1) : Int) ≤ n ∧ n < 2 ^ (w.bits - 1)) ∧
    (w.signed = false → 0 ≤ n ∧ n < 2 ^ w.bits) := by
  unfold IntW.inRange at hr
  constructor
  · intro hs; rw [if_pos hs] at hr
    exact ⟨of_decide_eq_true (Bool.and_eq_true_iff.1 hr).1, of_decide_eq_true (Bool.and_eq_true_iff.1 hr).2⟩
  · intro hs; rw [if_neg (by simp [hs])] at hr
    exact ⟨of_decide_eq_true (Bool.and_eq_true_iff.1 hr).1, of_decide_eq_true (Bool.and_eq_true_iff.1 hr).2⟩

theorem outOf64_true (n : Int) (h : outOf64 n = true) : fitsU64 n = false ∧ fitsI64 n = false := by
  simp only [outOf64, Bool.or_eq_true, decide_eq_true_eq] at h
  simp only [fitsU64, fitsI64, Bool.and_eq_false_iff, decide_eq_false_iff_not]
  omega

theorem outOf64_false (n : Int) (h : outOf64 n = false) : -(2 ^ 63) ≤ n ∧ n < 2 ^ 64 := by
  simp only [outOf64, Bool.or_eq_false_iff, decide_eq_false_iff_not] at h
  omega

theorem fitsU64_iff (n : Int) : fitsU64 n = true ↔ 0 ≤ n ∧ n < 2 ^ 64 := by
  simp [fitsU64]

theorem fitsI64_iff (n : Int) : fitsI64 n = true ↔ -(2 ^ 63) ≤ n ∧ n < 2 ^ 63 := by
  simp [fitsI64]

section scalars
variable (cfg : Model.Machine.Cfg) (ext : Ext) (hext : ExtOK ext)
include hext

omit hext in
theorem voi_numOf_ap (hap : cfg.ap = true) (t : Bytes) :
    valueOfImage (specCfg cfg) (Spec.Image.numOf t) = some (.num (.lit t)) := by
  simp only [Spec.Image.numOf, valueOfImage]
  rw [numOf_ap (specCfg cfg) hap]; rfl

theorem voi_itoa_pos (hap : cfg.ap = false) (n : Int) (h0 : 0 ≤ n) (h1 : n < 2 ^ 64) :
    valueOfImage (specCfg cfg) (Spec.Image.numOf (ext.itoa n)) = some (.num (.pos n.toNat)) := by
  simp only [Spec.Image.numOf, valueOfImage, hext.itoa_decimal]
  rw [numOf_decimal_pos (specCfg cfg) hap n h0 h1]; rfl

theorem voi_itoa_neg (hap : cfg.ap = false) (n : Int) (h0 : n < 0) (h1 : -(2 ^ 63) ≤ n) :
    valueOfImage (specCfg cfg) (Spec.Image.numOf (ext.itoa n)) = some (.num (.neg n)) := by
  simp only [Spec.Image.numOf, valueOfImage, hext.itoa_decimal]
  rw [numOf_decimal_neg (specCfg cfg) hap n h0 h1]; rfl

/-- an integer that fits `u64` or `i64` -/
theorem voi_itoa_signed (hap : cfg.ap = false) (n : Int) (h0 : -(2 ^ 63) ≤ n) (h1 : n < 2 ^ 64) :
    valueOfImage (specCfg cfg) (Spec.Image.numOf (ext.itoa n)) = some (.num (numOfSigned cfg ext n)) := by
  unfold numOfSigned
  rw [if_neg (by simp [hap])]
  by_cases hn : n < 0
  · rw [if_pos hn]; exact voi_itoa_neg cfg ext hext hap n hn h0
  · rw [if_neg hn]; exact voi_itoa_pos cfg ext hext hap n (by omega) h1

theorem voi_itoa_unsigned (hap : cfg.ap = false) (n : Int) (h0 : 0 ≤ n) (h1 : n < 2 ^ 64) :
    valueOfImage (specCfg cfg) (Spec.Image.numOf (ext.itoa n)) = some (.num (numOfUnsigned cfg ext n)) := by
  unfold numOfUnsigned
  rw [if_neg (by simp [hap])]
  exact voi_itoa_pos cfg ext hext hap n h0 h1

theorem int_agree (w : IntW) (n : Int) (hr : w.inRange n = true) :
    Agree (!cfg.ap && has128OutOfRange (.int w n)) True (valueOfImage (specCfg cfg)) (intValue cfg ext w n)
      (.ok (Spec.Image.numOf (ext.itoa n))) := by
  by_cases hap : cfg.ap = true
  · -- arbitrary_precision: the text is kept
    have : intValue cfg ext w n = .ok (.num (.lit (ext.itoa n))) := by
      cases w <;> simp [intValue, numOfSigned, numOfUnsigned, hap]
    rw [this]
    simp only [hap, Bool.not_true, Bool.false_and]
    exact Agree.ok (fun _ => voi_numOf_ap cfg hap _)
  · have hap : cfg.ap = false := by simpa using hap
    simp only [hap, Bool.not_false, Bool.true_and]
    have hb := inRange_bounds w n hr
    cases w
    case i128 =>
      simp only [has128OutOfRange, beq_self_eq_true, Bool.true_or, Bool.true_and, intValue, hap, Bool.false_eq_true, if_false]
      by_cases ho : outOf64 n = true
      · simp [Agree, ho, (outOf64_true n ho).1, (outOf64_true n ho).2]
      · have ho : outOf64 n = false := by simpa using ho
        have hbd := outOf64_false n ho
        rw [ho]
        by_cases hu : fitsU64 n = true
        · rw [if_pos hu]
          exact Agree.ok (fun _ => voi_itoa_unsigned cfg ext hext hap n ((fitsU64_iff n).1 hu).1 ((fitsU64_iff n).1 hu).2)
        · rw [if_neg hu]
          have hi : fitsI64 n = true := by
            rw [fitsU64_iff] at hu; rw [fitsI64_iff]; omega
          rw [if_pos hi]
          exact Agree.ok (fun _ => voi_itoa_signed cfg ext hext hap n hbd.1 hbd.2)
    case u128 =>
      have hb := hb.2 rfl
      simp only [has128OutOfRange, beq_self_eq_true, Bool.or_true, Bool.true_and, intValue, hap, Bool.false_eq_true, if_false]
      by_cases ho : outOf64 n = true
      · simp [Agree, ho, (outOf64_true n ho).1]
      · have ho : outOf64 n = false := by simpa using ho
        have hbd := outOf64_false n ho
        rw [ho]
        have hu : fitsU64 n = true := by rw [fitsU64_iff]; omega
        rw [if_pos hu]
        exact Agree.ok (fun _ => voi_itoa_unsigned cfg ext hext hap n hb.1 hbd.2)
    case i8 | i16 | i32 | i64 =>
      have hb := hb.1 rfl
      simp [IntW.bits] at hb
      simp only [has128OutOfRange, intValue]
      exact Agree.ok (fun _ => voi_itoa_signed cfg ext hext hap n (by omega) (by omega))
    case u8 | u16 | u32 | u64 =>
      have hb := hb.2 rfl
      simp [IntW.bits] at hb
      simp only [has128OutOfRange, intValue]
      exact Agree.ok (fun _ => voi_itoa_unsigned cfg ext hext hap n (by omega) (by omega))

theorem bytes_voi : ∀ bs : Bytes,
    valueOfImages (specCfg cfg) (bs.map fun b => Spec.Image.numOf (ext.itoa b.toNat)) =
      some (bs.map fun b => JV.num (numOfUnsigned cfg ext b.toNat))
  | [] => rfl
  | b :: bs => by
    simp only [List.map_cons, valueOfImages, bytes_voi bs]
    have : valueOfImage (specCfg cfg) (Spec.Image.numOf (ext.itoa (b.toNat : Int))) =
        some (.num (numOfUnsigned cfg ext b.toNat)) := by
      by_cases hap : cfg.ap = true
      · rw [voi_numOf_ap cfg hap]; simp [numOfUnsigned, hap]
      · have hap : cfg.ap = false := by simpa using hap
        have := b.toNat_lt
        exact voi_itoa_unsigned cfg ext hext hap _ (by omega) (by omega)
    rw [this]

end scalars

/-! ## the main induction -/

theorem blocked_or (ap a b : Bool) : (!ap && (a || b)) = ((!ap && a) || (!ap && b)) := by
  cases ap <;> cases a <;> cases b <;> rfl

theorem voi_tagged (cfg : Model.Machine.Cfg) (n : Bytes) (d : DV) (x : JV)
    (h : valueOfImage (specCfg cfg) d = some x) :
    valueOfImage (specCfg cfg) (Spec.Image.tagged n d) = some (Model.ToValue.tagged cfg n x) := by
  simp only [Spec.Image.tagged, valueOfImage, valueOfMembers, h, Option.map, Model.ToValue.tagged,
    MkObj.mkObj_eq_objectOf]

theorem voi_obj (cfg : Model.Machine.Cfg) (ms : List (Bytes × DV)) (vs : List (Bytes × JV))
    (h : valueOfMembers (specCfg cfg) ms = some vs) :
    valueOfImage (specCfg cfg) (.obj ms) = some (mkObj cfg vs) := by
  simp only [valueOfImage, h, Option.map, MkObj.mkObj_eq_objectOf]

theorem voi_arr (cfg : Spec.Canon.Cfg) (ds : List DV) (vs : List JV) (h : valueOfImages cfg ds = some vs) :
    valueOfImage cfg (.arr ds) = some (.arr vs) := by
  simp only [valueOfImage, h, Option.map]

theorem voi_cons (cfg : Spec.Canon.Cfg) (d : DV) (ds : List DV) (v : JV) (vs : List JV)
    (h1 : valueOfImage cfg d = some v) (h2 : valueOfImages cfg ds = some vs) :
    valueOfImages cfg (id d :: ds) = some (id v :: vs) := by
  simp only [id, valueOfImages, h1, h2]

theorem vom_cons (cfg : Spec.Canon.Cfg) (k : Bytes) (d : DV) (ds : List (Bytes × DV)) (v : JV) (vs : List (Bytes × JV))
    (h1 : valueOfImage cfg d = some v) (h2 : valueOfMembers cfg ds = some vs) :
    valueOfMembers cfg ((fun x => (k, x)) d :: ds) = some ((fun x => (k, x)) v :: vs) := by
  simp only [valueOfMembers, h1, h2]

section main
variable (cfg : Model.Machine.Cfg) (ext : Ext) (hext : ExtOK ext)
include hext
set_option linter.unusedSectionVars false

omit hext in
theorem f64_agree (b : UInt64) :
    Agree false (f64RT (specCfg cfg) ext b = true) (valueOfImage (specCfg cfg))
      (Except.ok (f64Value cfg ext b) : Except SerErr JV)
      (.ok (if finite64 b then Spec.Image.numOf (ext.ryu64 b) else .null)) := by
  apply Agree.ok
  intro hrt
  unfold f64Value
  by_cases hf : finite64 b = true
  · simp only [hf, if_true]
    by_cases hap : cfg.ap = true
    · rw [voi_numOf_ap cfg hap]; simp [hap]
    · have hap : cfg.ap = false := by simpa using hap
      have hap' : (specCfg cfg).ap = false := hap
      simp only [f64RT, hap', hf, Bool.not_true, Bool.false_or, beq_iff_eq] at hrt
      simp only [Spec.Image.numOf, valueOfImage, hrt, hap, Option.map]
      rfl
  · simp only [hf]; rfl

/-- the relation for constants: no 128-bit integer, image defined -/
theorem const_agree {rt : Prop} {v : JV} {d : DV} (h : valueOfImage (specCfg cfg) d = some v) :
    Agree (!cfg.ap && false) rt (valueOfImage (specCfg cfg)) (.ok v) (.ok d) := by
  rw [Bool.and_false]; exact Agree.ok (fun _ => h)

mutual
theorem toValue_agree : ∀ p : SVal, inScope p = true →
    Agree (!cfg.ap && has128OutOfRange p) (floatsRT (specCfg cfg) ext (widenF32 cfg.ap p) = true)
      (valueOfImage (specCfg cfg)) (toValue cfg ext p) (image ext (widenF32 cfg.ap p))
  | .bool b => fun _ => by
    simp only [has128OutOfRange, toValue, widenF32, image]; exact const_agree cfg ext hext rfl
  | .int w n => fun hs => by
    simp only [toValue, widenF32, image]
    exact (int_agree cfg ext hext w n (by simpa [inScope] using hs)).mono (fun _ => trivial)
  | .f32 b => fun _ => by
    simp only [has128OutOfRange, Bool.and_false, toValue]
    by_cases hw : (!cfg.ap && finite32 b) = true
    · simp only [widenF32, hw, if_true, image, floatsRT]
      have hfin : finite32 b = true := by simp at hw; exact hw.2
      have hap : cfg.ap = false := by simp at hw; exact hw.1
      have h := f64_agree cfg ext (widen32 b)
      have e : f64Value cfg ext (widen32 b) = f32Value cfg ext b := by
        simp [f64Value, f32Value, hfin, finite64_widen32 b hfin, f32to64_eq, hap]
      rw [e] at h; exact h
    · have hw' : (!cfg.ap && finite32 b) = false := by simpa using hw
      simp only [widenF32, hw', Bool.false_eq_true, if_false, image]
      apply Agree.ok
      intro _
      unfold f32Value
      by_cases hfin : finite32 b = true
      · have hap : cfg.ap = true := by simp [hfin] at hw'; exact hw'
        simp only [hfin, if_true, hap]
        exact voi_numOf_ap cfg hap _
      · simp only [hfin]; rfl
  | .f64 b => fun _ => by
    simp only [has128OutOfRange, Bool.and_false, toValue, widenF32, image, floatsRT]
    exact f64_agree cfg ext b
  | .char cp => fun _ => by
    simp only [has128OutOfRange, toValue, widenF32, image]; exact const_agree cfg ext hext rfl
  | .str s => fun _ => by
    simp only [has128OutOfRange, toValue, widenF32, image]; exact const_agree cfg ext hext rfl
  | .bytes bs => fun _ => by
    simp only [has128OutOfRange, toValue, widenF32, image]
    exact const_agree cfg ext hext (voi_arr _ _ _ (bytes_voi cfg ext hext bs))
  | .none => fun _ => by
    simp only [has128OutOfRange, toValue, widenF32, image]; exact const_agree cfg ext hext rfl
  | .some p => fun hs => by
    simp only [has128OutOfRange, toValue, widenF32, image, floatsRT]
    exact toValue_agree p (by simpa [inScope] using hs)
  | .unit => fun _ => by
    simp only [has128OutOfRange, toValue, widenF32, image]; exact const_agree cfg ext hext rfl
  | .unitStruct => fun _ => by
    simp only [has128OutOfRange, toValue, widenF32, image]; exact const_agree cfg ext hext rfl
  | .unitVariant v => fun _ => by
    simp only [has128OutOfRange, toValue, widenF32, image]; exact const_agree cfg ext hext rfl
  | .newtypeStruct p => fun hs => by
    simp only [has128OutOfRange, toValue, widenF32, image, floatsRT]
    exact toValue_agree p (by simpa [inScope] using hs)
  | .newtypeVariant v p => fun hs => by
    simp only [has128OutOfRange, toValue, widenF32, image, floatsRT]
    exact Agree.map (fun d x h => voi_tagged cfg v d x h)
      (toValue_agree p (by simpa [inScope] using hs))
  | .seq _ xs => fun hs => by
    simp only [has128OutOfRange, toValue, widenF32, image, floatsRT]
    exact Agree.map (fun ds vs h => voi_arr _ ds vs h)
      (toValues_agree xs (by simpa [inScope] using hs))
  | .tuple xs => fun hs => by
    simp only [has128OutOfRange, toValue, widenF32, image, floatsRT]
    exact Agree.map (fun ds vs h => voi_arr _ ds vs h)
      (toValues_agree xs (by simpa [inScope] using hs))
  | .tupleStruct xs => fun hs => by
    simp only [has128OutOfRange, toValue, widenF32, image, floatsRT]
    exact Agree.map (fun ds vs h => voi_arr _ ds vs h)
      (toValues_agree xs (by simpa [inScope] using hs))
  | .tupleVariant v xs => fun hs => by
    simp only [has128OutOfRange, toValue, widenF32, image, floatsRT]
    exact Agree.map (fun ds vs h => voi_tagged cfg v (.arr ds) (.arr vs) (voi_arr _ ds vs h))
      (toValues_agree xs (by simpa [inScope] using hs))
  | .map _ es => fun hs => by
    simp only [has128OutOfRange, toValue, widenF32, image, floatsRT]
    exact Agree.map (fun ms vs h => voi_obj cfg ms vs h)
      (toEntries_agree es (by simpa [inScope] using hs))
  | .struct_ fs => fun hs => by
    simp only [has128OutOfRange, toValue, widenF32, image, floatsRT]
    exact Agree.map (fun ms vs h => voi_obj cfg ms vs h)
      (toFields_agree fs (by simpa [inScope] using hs))
  | .structVariant v fs => fun hs => by
    simp only [has128OutOfRange, toValue, widenF32, image, floatsRT]
    exact Agree.map (fun ms vs h => voi_tagged cfg v (.obj ms) (mkObj cfg vs) (voi_obj cfg ms vs h))
      (toFields_agree fs (by simpa [inScope] using hs))
  | .collectStr s => fun _ => by
    simp only [has128OutOfRange, toValue, widenF32, image]; exact const_agree cfg ext hext rfl
  | .numberLit s => fun hs => by simp [inScope] at hs

theorem toValues_agree : ∀ xs : List SVal, inScopeList xs = true →
    Agree (!cfg.ap && has128List xs) (floatsRTList (specCfg cfg) ext (widenList cfg.ap xs) = true)
      (valueOfImages (specCfg cfg)) (toValues cfg ext xs) (imageList ext (widenList cfg.ap xs))
  | [] => fun _ => by
    simp only [has128List, Bool.and_false, toValues, widenList, imageList]; exact Agree.ok (fun _ => rfl)
  | x :: xs => fun hs => by
    simp only [inScopeList, Bool.and_eq_true] at hs
    rw [has128List, blocked_or, toValues_cons, widenList, imageList_cons]
    exact (Agree.cons (fun d ds v vs h1 h2 => voi_cons _ d ds v vs h1 h2)
      (toValue_agree x hs.1) (toValues_agree xs hs.2)).mono
      (by simp only [floatsRTList, Bool.and_eq_true]; exact id)

theorem toEntries_agree : ∀ es : List (SVal × SVal), inScopeEntries es = true →
    Agree (!cfg.ap && has128Entries es) (floatsRTEntries (specCfg cfg) ext (widenEntries cfg.ap es) = true)
      (valueOfMembers (specCfg cfg)) (toEntries cfg ext es) (imageEntries ext (widenEntries cfg.ap es))
  | [] => fun _ => by
    simp only [has128Entries, Bool.and_false, toEntries, widenEntries, imageEntries]; exact Agree.ok (fun _ => rfl)
  | (k, v) :: es => fun hs => by
    simp only [inScopeEntries, Bool.and_eq_true] at hs
    rw [has128Entries, blocked_or, toEntries_cons, widenEntries, imageEntries_cons,
      keyVal_eq_keyText ext k]
    cases keyText ext k with
    | error e => left; rfl
    | ok kt =>
      exact (Agree.cons (fun d ds v vs h1 h2 => vom_cons _ kt d ds v vs h1 h2)
        (toValue_agree v hs.1) (toEntries_agree es hs.2)).mono
        (by simp only [floatsRTEntries, Bool.and_eq_true]; exact id)

theorem toFields_agree : ∀ fs : List (Bytes × SVal), inScopeFields fs = true →
    Agree (!cfg.ap && has128Fields fs) (floatsRTFields (specCfg cfg) ext (widenFields cfg.ap fs) = true)
      (valueOfMembers (specCfg cfg)) (toFields cfg ext fs) (imageFields ext (widenFields cfg.ap fs))
  | [] => fun _ => by
    simp only [has128Fields, Bool.and_false, toFields, widenFields, imageFields]; exact Agree.ok (fun _ => rfl)
  | (n, v) :: fs => fun hs => by
    simp only [inScopeFields, Bool.and_eq_true] at hs
    rw [has128Fields, blocked_or, toFields_cons, widenFields, imageFields_cons]
    exact (Agree.cons (fun d ds v vs h1 h2 => vom_cons _ n d ds v vs h1 h2)
      (toValue_agree v hs.1) (toFields_agree fs hs.2)).mono
      (by simp only [floatsRTFields, Bool.and_eq_true]; exact id)
end

end main

/-! ## widening does not change definedness of the image (map keys are not touched) -/

/-- both fail with the same error, or both succeed -/
def SameErr {α β : Type} (a : Except SerErr α) (b : Except SerErr β) : Prop :=
  match a, b with
  | .error e, .error e' => e = e'
  | .ok _, .ok _ => True
  | _, _ => False

theorem SameErr.map {α β α' β' : Type} {a : Except SerErr α} {b : Except SerErr β} (f : α → α') (g : β → β')
    (h : SameErr a b) : SameErr (a.map f) (b.map g) := by
  cases a <;> cases b <;> simp_all [SameErr, Except.map]

theorem SameErr.cons {α β α' β' : Type} {mk : α → α'} {mk' : β → β'} {a : Except SerErr α} {b : Except SerErr β}
    {as : Except SerErr (List α')} {bs : Except SerErr (List β')} (h1 : SameErr a b) (h2 : SameErr as bs) :
    SameErr (consE mk a as) (consE mk' b bs) := by
  cases a <;> cases b <;> cases as <;> cases bs <;> simp_all [SameErr, consE]

section widen
variable (ext : Ext) (ap : Bool)

mutual
theorem image_widen : ∀ p : SVal, SameErr (image ext (widenF32 ap p)) (image ext p)
  | .bool _ | .int _ _ | .f64 _ | .char _ | .str _ | .bytes _ | .none | .unit | .unitStruct | .unitVariant _
  | .collectStr _ | .numberLit _ => by simp [widenF32, image, SameErr]
  | .f32 b => by
    by_cases hw : (!ap && finite32 b) = true <;> simp [widenF32, hw, image, SameErr]
  | .some p => by simpa only [widenF32, image] using image_widen p
  | .newtypeStruct p => by simpa only [widenF32, image] using image_widen p
  | .newtypeVariant v p => by simpa only [widenF32, image] using (image_widen p).map _ _
  | .seq _ xs => by simpa only [widenF32, image] using (imageList_widen xs).map _ _
  | .tuple xs => by simpa only [widenF32, image] using (imageList_widen xs).map _ _
  | .tupleStruct xs => by simpa only [widenF32, image] using (imageList_widen xs).map _ _
  | .tupleVariant v xs => by simpa only [widenF32, image] using (imageList_widen xs).map _ _
  | .map _ es => by simpa only [widenF32, image] using (imageEntries_widen es).map _ _
  | .struct_ fs => by simpa only [widenF32, image] using (imageFields_widen fs).map _ _
  | .structVariant v fs => by simpa only [widenF32, image] using (imageFields_widen fs).map _ _
theorem imageList_widen : ∀ xs : List SVal, SameErr (imageList ext (widenList ap xs)) (imageList ext xs)
  | [] => by simp [widenList, imageList, SameErr]
  | x :: xs => by
    rw [widenList, imageList_cons, imageList_cons]
    exact SameErr.cons (image_widen x) (imageList_widen xs)
theorem imageEntries_widen : ∀ es : List (SVal × SVal),
    SameErr (imageEntries ext (widenEntries ap es)) (imageEntries ext es)
  | [] => by simp [widenEntries, imageEntries, SameErr]
  | (k, v) :: es => by
    rw [widenEntries, imageEntries_cons, imageEntries_cons]
    cases keyText ext k with
    | error e => simp [SameErr]
    | ok kt => exact SameErr.cons (image_widen v) (imageEntries_widen es)
theorem imageFields_widen : ∀ fs : List (Bytes × SVal),
    SameErr (imageFields ext (widenFields ap fs)) (imageFields ext fs)
  | [] => by simp [widenFields, imageFields, SameErr]
  | (n, v) :: fs => by
    rw [widenFields, imageFields_cons, imageFields_cons]
    exact SameErr.cons (image_widen v) (imageFields_widen fs)
end

end widen

/-- well-formedness (length hints) is not affected by widening -/
theorem widen_length (ap : Bool) : ∀ xs : List SVal, (widenList ap xs).length = xs.length
  | [] => rfl
  | _ :: xs => by simp [widenList, widen_length ap xs]
theorem widenEntries_length (ap : Bool) : ∀ xs : List (SVal × SVal), (widenEntries ap xs).length = xs.length
  | [] => rfl
  | (_, _) :: xs => by simp [widenEntries, widenEntries_length ap xs]

mutual
theorem wf_widen (ap : Bool) : ∀ p : SVal, (widenF32 ap p).wf = p.wf
  | .bool _ | .int _ _ | .f64 _ | .char _ | .str _ | .bytes _ | .none | .unit | .unitStruct | .unitVariant _
  | .collectStr _ | .numberLit _ => by simp [widenF32]
  | .f32 b => by by_cases hw : (!ap && finite32 b) = true <;> simp [widenF32, hw, SVal.wf]
  | .some p => by simpa only [widenF32, SVal.wf] using wf_widen ap p
  | .newtypeStruct p => by simpa only [widenF32, SVal.wf] using wf_widen ap p
  | .newtypeVariant _ p => by simpa only [widenF32, SVal.wf] using wf_widen ap p
  | .seq h xs => by simp only [widenF32, SVal.wf, widen_length, wfList_widen ap xs]
  | .tuple xs => by simp only [widenF32, SVal.wf, wfList_widen ap xs]
  | .tupleStruct xs => by simp only [widenF32, SVal.wf, wfList_widen ap xs]
  | .tupleVariant _ xs => by simp only [widenF32, SVal.wf, wfList_widen ap xs]
  | .map h es => by simp only [widenF32, SVal.wf, widenEntries_length, wfEntries_widen ap es]
  | .struct_ fs => by simp only [widenF32, SVal.wf, wfFields_widen ap fs]
  | .structVariant _ fs => by simp only [widenF32, SVal.wf, wfFields_widen ap fs]
theorem wfList_widen (ap : Bool) : ∀ xs : List SVal, wfList (widenList ap xs) = wfList xs
  | [] => rfl
  | x :: xs => by simp only [widenList, wfList, wf_widen ap x, wfList_widen ap xs]
theorem wfEntries_widen (ap : Bool) : ∀ es : List (SVal × SVal), wfEntries (widenEntries ap es) = wfEntries es
  | [] => rfl
  | (k, v) :: es => by simp only [widenEntries, wfEntries, wf_widen ap v, wfEntries_widen ap es]
theorem wfFields_widen (ap : Bool) : ∀ fs : List (Bytes × SVal), wfFields (widenFields ap fs) = wfFields fs
  | [] => rfl
  | (n, v) :: fs => by simp only [widenFields, wfFields, wf_widen ap v, wfFields_widen ap fs]
end


end SJ.Proofs.ToValueImage
