import SJ.Model.Typed
import SJ.Proofs.ReadMach
import SJ.Proofs.ReadEscape
import SJ.Proofs.ReadIo
import SJ.Proofs.ReadSlice
import SJ.Proofs.ReadTop
/-!
# The raw variant `parse_str_raw` (`validate = false`) of both readers against `Model.Typed.runRaw`

`Model.Typed` (the typed text deserializer) has its own byte-step automaton for `deserialize_bytes`:
`stepRaw` / `runRaw` (escapes decoded, control characters and non-UTF-8 bytes passed through, lone surrogates in
WTF-8, a `\` after a lone leading surrogate starting an ordinary escape). Here the two readers' `parse_str_raw`
— the same loops as for `parse_str` with `validate = false`, the generic `parse_escape` / `parse_unicode_escape`
with their `validate = false` branches (the only place where the `loop` of `parse_unicode_escape` iterates, and
where a byte is left in `IoRead`'s peek slot across the return) — are proved to do what `runRaw` does.
-/
namespace SJ.Proofs.ReadRaw
open SJ SJ.Gen SJ.Model.Typed
open SJ.Model.Machine (hex4)

section big
variable (env : Env) (hf : env.flt = false)
include hf

theorem runRaw_nil (st : RawSt) (pos : Nat) : runRaw env st [] pos = .err .EofWhileParsingString pos := by
  simp [runRaw, atEof, hf]

omit hf in
theorem runRaw_quote (st : RawSt) (h : st.esc = .none) (r : Bytes) (pos : Nat) :
    runRaw env st (0x22 :: r) pos = .ok st.out.reverse r (pos + 1) := by
  obtain ⟨out, esc⟩ := st; simp only at h; subst h
  simp [runRaw, stepRaw]

omit hf in
theorem runRaw_backslash (st : RawSt) (h : st.esc = .none) (r : Bytes) (pos : Nat) :
    runRaw env st (0x5c :: r) pos = runRaw env { st with esc := .bs } r (pos + 1) := by
  obtain ⟨out, esc⟩ := st; simp only at h; subst h
  simp [runRaw, stepRaw]

omit hf in
theorem runRaw_plain (st : RawSt) (h : st.esc = .none) (b : UInt8) (r : Bytes) (pos : Nat) (hq : b ≠ 0x22) (hb : b ≠ 0x5c) :
    runRaw env st (b :: r) pos = runRaw env { st with out := b :: st.out } r (pos + 1) := by
  obtain ⟨out, esc⟩ := st; simp only at h; subst h
  simp [runRaw, stepRaw, hq, hb]

omit hf in
theorem runRaw_run (st : RawSt) (h : st.esc = .none) (ys r : Bytes) (pos : Nat) (hys : ∀ b ∈ ys, b ≠ 0x22 ∧ b ≠ 0x5c) :
    runRaw env st (ys ++ r) pos = runRaw env { st with out := ys.reverse ++ st.out } r (pos + ys.length) := by
  induction ys generalizing st pos with
  | nil => simp
  | cons y ys ih =>
    have hy := hys y (by simp)
    rw [List.cons_append, runRaw_plain env st h y _ pos hy.1 hy.2]
    rw [ih _ (by simpa using h) _ (fun b hb => hys b (by simp [hb]))]
    simp only [List.reverse_cons, List.append_assoc, List.singleton_append, List.length_cons]
    congr 1; omega

omit hf in
theorem runRaw_simple (st : RawSt) (h : st.esc = .bs) (b : UInt8) (r : Bytes) (pos : Nat)
    (hs : Spec.Grammar.isSimpleEscape b = true) :
    runRaw env st (b :: r) pos = runRaw env { out := Spec.Denote.simpleEscape b :: st.out, esc := .none } r (pos + 1) := by
  obtain ⟨out, esc⟩ := st; simp only at h; subst h
  have hu : b ≠ 0x75 := by rintro rfl; simp [Spec.Grammar.isSimpleEscape] at hs
  simp [runRaw, stepRaw, hu, hs]

omit hf in
theorem runRaw_u (st : RawSt) (h : st.esc = .bs) (r : Bytes) (pos : Nat) :
    runRaw env st (0x75 :: r) pos = runRaw env { st with esc := .hex [] none } r (pos + 1) := by
  obtain ⟨out, esc⟩ := st; simp only at h; subst h
  simp [runRaw, stepRaw]

omit hf in
theorem runRaw_badEscape (st : RawSt) (h : st.esc = .bs) (b : UInt8) (r : Bytes) (pos : Nat)
    (hs : Spec.Grammar.isSimpleEscape b = false) (hu : b ≠ 0x75) :
    runRaw env st (b :: r) pos = .err .InvalidEscape (pos + 1) := by
  obtain ⟨out, esc⟩ := st; simp only at h; subst h
  simp [runRaw, stepRaw, hu, hs]

theorem runRaw_hex_short (st : RawSt) (lead : Option Nat) (h : st.esc = .hex [] lead) (xs : Bytes) (pos : Nat)
    (hl : xs.length < 4) : runRaw env st xs pos = .err .EofWhileParsingString (pos + xs.length) := by
  obtain ⟨out, esc⟩ := st; simp only at h; subst h
  match xs, hl with
  | [], _ => simp [runRaw, atEof, hf]
  | [a], _ => simp [runRaw, stepRaw, atEof, hf]
  | [a, b], _ => simp [runRaw, stepRaw, atEof, hf]
  | [a, b, c], _ => simp [runRaw, stepRaw, atEof, hf]

omit hf in
theorem runRaw_hex4 (st : RawSt) (lead : Option Nat) (h : st.esc = .hex [] lead) (a b c d : UInt8) (xs : Bytes) (pos : Nat) :
    runRaw env st (a :: b :: c :: d :: xs) pos = runRaw env { st with esc := .hex [a, b, c] lead } (d :: xs) (pos + 3) := by
  obtain ⟨out, esc⟩ := st; simp only at h; subst h
  simp [runRaw, stepRaw]

omit hf in
theorem runRaw_hex_bad (st : RawSt) (lead : Option Nat) (a b c d : UInt8) (h : st.esc = .hex [a, b, c] lead)
    (xs : Bytes) (pos : Nat) (hn : hex4 [a, b, c, d] = none) :
    runRaw env st (d :: xs) pos = .err .InvalidEscape (pos + 1) := by
  obtain ⟨out, esc⟩ := st; simp only at h; subst h
  simp [runRaw, stepRaw, hn]

omit hf in
/-- first group, not a leading surrogate (a trailing one included): pushed -/
theorem runRaw_hex_scalar (st : RawSt) (a b c d : UInt8) (h : st.esc = .hex [a, b, c] none) (xs : Bytes) (pos : Nat)
    (n : Nat) (hn : hex4 [a, b, c, d] = some n) (h1 : n < 0xD800 ∨ 0xDBFF < n) :
    runRaw env st (d :: xs) pos = runRaw env { out := pushWtf8 n st.out, esc := .none } xs (pos + 1) := by
  obtain ⟨out, esc⟩ := st; simp only at h; subst h
  simp [runRaw, stepRaw, hn, h1]

omit hf in
theorem runRaw_hex_lead (st : RawSt) (a b c d : UInt8) (h : st.esc = .hex [a, b, c] none) (xs : Bytes) (pos : Nat)
    (n : Nat) (hn : hex4 [a, b, c, d] = some n) (h1 : 0xD800 ≤ n) (h2 : n ≤ 0xDBFF) :
    runRaw env st (d :: xs) pos = runRaw env { st with esc := .lead1 n } xs (pos + 1) := by
  obtain ⟨out, esc⟩ := st; simp only at h; subst h
  have h3 : ¬ (n < 0xD800 ∨ 0xDBFF < n) := by omega
  simp [runRaw, stepRaw, hn, h3]

omit hf in
theorem runRaw_lead1 (st : RawSt) (n1 : Nat) (h : st.esc = .lead1 n1) (xs : Bytes) (pos : Nat) :
    runRaw env st (0x5c :: xs) pos = runRaw env { st with esc := .lead2 n1 } xs (pos + 1) := by
  obtain ⟨out, esc⟩ := st; simp only at h; subst h
  simp [runRaw, stepRaw]

omit hf in
/-- a lone leading surrogate followed by a byte that is not `\`: it is pushed and the byte is read again -/
theorem runRaw_lead1_other (st : RawSt) (n1 : Nat) (h : st.esc = .lead1 n1) (b : UInt8) (xs : Bytes) (pos : Nat)
    (hb : b ≠ 0x5c) :
    runRaw env st (b :: xs) pos = runRaw env { out := pushWtf8 n1 st.out, esc := .none } (b :: xs) pos := by
  obtain ⟨out, esc⟩ := st; simp only at h; subst h
  simp only [runRaw, stepRaw, beq_iff_eq, hb, if_false]
  by_cases hq : b = 0x22
  · subst hq; simp
  · simp [hq]

omit hf in
theorem runRaw_lead2 (st : RawSt) (n1 : Nat) (h : st.esc = .lead2 n1) (xs : Bytes) (pos : Nat) :
    runRaw env st (0x75 :: xs) pos = runRaw env { st with esc := .hex [] (some n1) } xs (pos + 1) := by
  obtain ⟨out, esc⟩ := st; simp only at h; subst h
  simp [runRaw, stepRaw]

omit hf in
/-- `\` after a lone leading surrogate starts an ordinary escape -/
theorem runRaw_lead2_other (st : RawSt) (n1 : Nat) (h : st.esc = .lead2 n1) (b : UInt8) (xs : Bytes) (pos : Nat)
    (hb : b ≠ 0x75) :
    runRaw env st (b :: xs) pos = runRaw env { out := pushWtf8 n1 st.out, esc := .bs } (b :: xs) pos := by
  obtain ⟨out, esc⟩ := st; simp only at h; subst h
  simp only [runRaw, stepRaw, beq_iff_eq, hb, if_false]
  cases hs : Spec.Grammar.isSimpleEscape b <;> simp

omit hf in
/-- second group no trailing surrogate: the first is pushed alone and the second is treated like a first group -/
theorem runRaw_hex2_scalar (st : RawSt) (n1 : Nat) (a b c d : UInt8) (h : st.esc = .hex [a, b, c] (some n1))
    (xs : Bytes) (pos : Nat) (n : Nat) (hn : hex4 [a, b, c, d] = some n) (h1 : n < 0xD800 ∨ 0xDFFF < n) :
    runRaw env st (d :: xs) pos = runRaw env { out := pushWtf8 n (pushWtf8 n1 st.out), esc := .none } xs (pos + 1) := by
  obtain ⟨out, esc⟩ := st; simp only at h; subst h
  have h2 : n < 0xDC00 ∨ 0xDFFF < n := by omega
  have h3 : n < 0xD800 ∨ 0xDBFF < n := by omega
  simp [runRaw, stepRaw, hn, h2, h3]

omit hf in
theorem runRaw_hex2_lead (st : RawSt) (n1 : Nat) (a b c d : UInt8) (h : st.esc = .hex [a, b, c] (some n1))
    (xs : Bytes) (pos : Nat) (n : Nat) (hn : hex4 [a, b, c, d] = some n) (h1 : 0xD800 ≤ n) (h2 : n ≤ 0xDBFF) :
    runRaw env st (d :: xs) pos = runRaw env { out := pushWtf8 n1 st.out, esc := .lead1 n } xs (pos + 1) := by
  obtain ⟨out, esc⟩ := st; simp only at h; subst h
  have h3 : n < 0xDC00 ∨ 0xDFFF < n := by omega
  have h4 : ¬ (n < 0xD800 ∨ 0xDBFF < n) := by omega
  simp [runRaw, stepRaw, hn, h3, h4]

omit hf in
theorem runRaw_hex2_pair (st : RawSt) (n1 : Nat) (a b c d : UInt8) (h : st.esc = .hex [a, b, c] (some n1))
    (xs : Bytes) (pos : Nat) (n : Nat) (hn : hex4 [a, b, c, d] = some n) (h1 : 0xDC00 ≤ n) (h2 : n ≤ 0xDFFF) :
    runRaw env st (d :: xs) pos =
      runRaw env { out := pushWtf8 (0x10000 + (n1 - 0xD800) * 0x400 + (n - 0xDC00)) st.out, esc := .none } xs (pos + 1) := by
  obtain ⟨out, esc⟩ := st; simp only at h; subst h
  have h3 : ¬ (n < 0xDC00 ∨ 0xDFFF < n) := by omega
  simp [runRaw, stepRaw, hn, h3]

end big
/-! ## the escape functions with `validate = false` against `Model.Typed.stepRaw` -/

section escapes
open SJ.Model.ReadEscape SJ.Proofs.ReadEscape SJ.Proofs.ReadMach
variable {ρ : Type} {ops : ReadOps ρ} {A : ρ → Bytes → Nat → Bool → Prop} {pos : ρ → Nat} (L : Lawful ops A pos)
variable (env : Env) (hf : env.flt = false)
include L hf

/-- as `Agrees`, for the raw decoder; the reader may be left with a byte in its peek slot (`p'`) -/
def AgreesR (res : Res Bytes ρ) (st : RawSt) (k : Nat) (xs : Bytes) : Prop :=
  (∃ sc r' xs' k' p', res = .ok sc r' ∧ A r' xs' k' p' ∧ xs'.length ≤ xs.length ∧ sc ≠ [] ∧
      runRaw env st xs k = runRaw env { out := sc.reverse, esc := .none } xs' k') ∨
  (∃ c r' xs' j, res = .err c r' ∧ A r' xs' j false ∧ runRaw env st xs k = .err c j)

omit L hf in
theorem AgreesR.mono {res : Res Bytes ρ} {st st' : RawSt} {k k' : Nat} {xs xs' : Bytes}
    (h : AgreesR (A := A) env res st' k' xs') (hrun : runRaw env st xs k = runRaw env st' xs' k')
    (hlen : xs'.length ≤ xs.length) : AgreesR (A := A) env res st k xs := by
  rcases h with ⟨sc, r', ys, j, p', h1, h2, h3, h4, h5⟩ | ⟨c, r', ys, j, h1, h2, h3⟩
  · exact .inl ⟨sc, r', ys, j, p', h1, h2, by omega, h4, by rw [hrun, h5]⟩
  · exact .inr ⟨c, r', ys, j, h1, h2, by rw [hrun, h3]⟩

omit L hf in
theorem pushT (n : Nat) (out : Bytes) (h : n < 0x110000) :
    (pushWtf8Codepoint n out.reverse).reverse = pushWtf8 n out := by
  rw [push_reverse n out h]; rfl

omit L hf in
theorem pushT' (n : Nat) (out : Bytes) (h : n < 0x110000) :
    (pushWtf8 n out).reverse = pushWtf8Codepoint n out.reverse := by
  rw [← pushT n out h, List.reverse_reverse]

/-- the `loop` of `parse_unicode_escape` with `validate = false`, entered with a leading surrogate -/
theorem uniLoop_raw : ∀ (fuel : Nat) (r : ρ) (xs : Bytes) (k : Nat) (st : RawSt) (n : Nat), A r xs k false →
    st.esc = .lead1 n → 0xD800 ≤ n → n ≤ 0xDBFF → xs.length < fuel →
    AgreesR (A := A) env (uniLoop ops false fuel n r st.out.reverse) st k xs := by
  intro fuel
  induction fuel with
  | zero => intro r xs k st n _ _ _ _ h; omega
  | succ fuel ih =>
    intro r xs k st n hA hst hn1 hn2 hfuel
    have hlead : (decide (n < Gen.uniLeadLo) || decide (n > Gen.uniLeadHi)) = false := by
      simp [uni_consts]; omega
    have hn : n < 0x110000 := by omega
    unfold AgreesR
    simp only [uniLoop, hlead, Bool.false_eq_true, if_false]
    match xs, hA, hfuel with
    | [], hA, _ =>
      obtain ⟨r', h1, hA1⟩ := peekOrEof_nil L hA
      refine .inr ⟨.EofWhileParsingString, r', _, _, by simp only [h1], hA1, ?_⟩
      rw [runRaw_nil env hf]
    | e :: zs, hA, hfuel =>
      obtain ⟨r1, p1, h1, hA1p, hA1⟩ := peekOrEof_cons L hA
      simp only [h1, uni_consts.2.2.1]
      by_cases he : e = 0x5c
      · subst he
        simp only [bne_self_eq_false, Bool.false_eq_true, if_false]
        rw [runRaw_lead1 env st n hst]
        match zs, hA1, hfuel with
        | [], hA1, _ =>
          obtain ⟨r', h2, hA2⟩ := peekOrEof_nil L hA1
          refine .inr ⟨.EofWhileParsingString, r', _, _, by simp only [h2], hA2, ?_⟩
          rw [runRaw_nil env hf]
        | f :: ws, hA1, hfuel =>
          obtain ⟨r3, p3, h3, hA3p, hA3⟩ := peekOrEof_cons L hA1
          simp only [h3, uni_consts.2.2.2.1]
          by_cases hfu : f = 0x75
          · subst hfu
            simp only [bne_self_eq_false, Bool.false_eq_true, if_false]
            rw [runRaw_lead2 env _ n rfl]
            by_cases hl : ws.length < 4
            · obtain ⟨r', h4, hA4⟩ := L.hex_eof hA3 hl
              refine .inr ⟨.EofWhileParsingString, r', _, _, by simp only [h4], hA4, ?_⟩
              rw [runRaw_hex_short env hf _ (some n) rfl ws _ hl]
            · obtain ⟨a, b, c, d, ys, rfl⟩ := four_of_len ws hl
              obtain ⟨r5, hA5, h5⟩ := L.hex_ok hA3
              rw [runRaw_hex4 env _ (some n) rfl]
              cases hd : Model.Hex.decodeFourHex a b c d with
              | none =>
                rw [hd] at h5
                refine .inr ⟨.InvalidEscape, r5, _, _, by simp only [h5], hA5, ?_⟩
                rw [runRaw_hex_bad env _ (some n) a b c d rfl _ _ (by rw [hex4_eq, hd])]
              | some n2 =>
                rw [hd] at h5
                have hh : hex4 [a, b, c, d] = some n2 := by rw [hex4_eq, hd]
                have hlt2 : n2 < 0x10000 := (Proofs.Utf8.hex4_ascii _ _ hh).2
                simp only [h5, uni_consts]
                by_cases ht : n2 < 0xDC00 ∨ 0xDFFF < n2
                · have : (decide (n2 < 0xDC00) || decide (n2 > 0xDFFF)) = true := by simpa using ht
                  simp only [this, ↓reduceIte]
                  by_cases hl2 : 0xD800 ≤ n2 ∧ n2 ≤ 0xDBFF
                  · -- `continue` with the second group as the new leading surrogate
                    have hstep := runRaw_hex2_lead env { st with esc := .hex [a, b, c] (some n) } n a b c d rfl ys
                      (k + 1 + 1 + 3) n2 hh hl2.1 hl2.2
                    have := ih r5 ys (k + 1 + 1 + 4) { out := pushWtf8 n st.out, esc := .lead1 n2 } n2 hA5 rfl hl2.1 hl2.2
                      (by simp at hfuel; omega)
                    rw [show (List.reverse ({ out := pushWtf8 n st.out, esc := RawEsc.lead1 n2 } : RawSt).out) =
                      pushWtf8Codepoint n st.out.reverse from pushT' n st.out hn] at this
                    rcases this with ⟨sc, r', xs', k', p', e1, hA', hl', hne', hrun'⟩ | ⟨c', r', xs', j, e1, hA', hrun'⟩
                    · exact .inl ⟨sc, r', xs', k', p', e1, hA', by simp; omega, hne', by rw [hstep]; exact hrun'⟩
                    · exact .inr ⟨c', r', xs', j, e1, hA', by rw [hstep]; exact hrun'⟩
                  · have hsc : (decide (n2 < Gen.uniLeadLo) || decide (n2 > Gen.uniLeadHi)) = true := by
                      simp [uni_consts]; omega
                    obtain ⟨f', rfl⟩ : ∃ f', fuel = f' + 1 := ⟨fuel - 1, by simp at hfuel; omega⟩
                    simp only [uniLoop, hsc, if_true]
                    refine .inl ⟨_, r5, ys, _, false, rfl, hA5, by simp; omega, push_ne_nil _ _ (by omega), ?_⟩
                    rw [runRaw_hex2_scalar env { st with esc := .hex [a, b, c] (some n) } n a b c d rfl ys _ n2 hh (by omega)]
                    rw [← pushT n st.out hn, ← pushT n2 _ (by omega)]
                    simp
                · have : (decide (n2 < 0xDC00) || decide (n2 > 0xDFFF)) = false := by simpa using ht
                  simp only [this, Bool.false_eq_true, ↓reduceIte]
                  have hp := pair_eq n n2 (by omega) (by omega)
                  have hlt : 0x10000 + (n - 0xD800) * 0x400 + (n2 - 0xDC00) < 0x110000 := by omega
                  refine .inl ⟨_, r5, ys, _, false, rfl, hA5, by simp; omega, ?_, ?_⟩
                  · rw [hp]; exact push_ne_nil _ _ hlt
                  · rw [runRaw_hex2_pair env _ n a b c d rfl _ _ n2 hh (by omega) (by omega), hp, pushT _ _ hlt]
          · have : (f != 0x75) = true := by simpa using hfu
            simp only [this, ↓reduceIte]
            -- the byte after `\` is not `u`: the surrogate is pushed and `parse_escape` reads that byte
            rw [runRaw_lead2_other env { st with esc := .lead2 n } n rfl f ws _ hfu]
            unfold parseEscapeWith
            obtain ⟨r4, h4, hA4⟩ := nextOrEof_cons L hA3p
            simp only [h4]
            have hspec := arms_spec f
            cases hfind : Gen.parseEscapeArms.find? (·.1 == f) with
            | some xy =>
              obtain ⟨x, y⟩ := xy
              rw [hfind] at hspec
              have hs : Spec.Grammar.isSimpleEscape f = true := by
                cases h : Spec.Grammar.isSimpleEscape f <;> simp_all
              simp only [hs, if_true, Option.map_some, Option.some.injEq] at hspec
              subst hspec
              refine .inl ⟨_, r4, ws, _, false, rfl, hA4, by simp; omega, by simp, ?_⟩
              rw [runRaw_simple env { out := pushWtf8 n st.out, esc := .bs } rfl f ws _ hs, ← pushT n st.out hn]
              simp
            | none =>
              rw [hfind] at hspec
              have hs : Spec.Grammar.isSimpleEscape f = false := by
                cases h : Spec.Grammar.isSimpleEscape f <;> simp_all
              have hne : (f == 0x75) = false := by simpa using hfu
              simp only [uni_consts.1, hne, Bool.false_eq_true, ↓reduceIte]
              refine .inr ⟨_, r4, _, _, rfl, hA4, ?_⟩
              rw [runRaw_badEscape env { out := pushWtf8 n st.out, esc := .bs } rfl f ws _ hs hfu]
      · have : (e != 0x5c) = true := by simpa using he
        simp only [this, ↓reduceIte]
        -- not a backslash: the surrogate is pushed; the byte stays in the peek slot
        refine .inl ⟨_, r1, e :: zs, k, p1, rfl, hA1p, ?_, push_ne_nil _ _ hn, ?_⟩
        · exact Nat.le_refl _
        · rw [runRaw_lead1_other env st n hst e zs k he, pushT n st.out hn]

/-- **`parse_escape(read, validate = false, scratch)`** from right after the backslash -/
theorem parseEscape_raw (fuel : Nat) {r : ρ} {xs : Bytes} {k : Nat} (hA : A r xs k false) (hfuel : xs.length < fuel)
    (st : RawSt) (hst : st.esc = .bs) :
    AgreesR (A := A) env (parseEscape ops false fuel r st.out.reverse) st k xs := by
  unfold parseEscape parseEscapeWith
  match xs, hA, hfuel with
  | [], hA, _ =>
    obtain ⟨r', h1, hA1⟩ := nextOrEof_nil L hA
    refine .inr ⟨.EofWhileParsingString, r', _, _, by simp only [h1], hA1, ?_⟩
    rw [runRaw_nil env hf]
  | ch :: ys, hA, hfuel =>
    obtain ⟨r1, h1, hA1⟩ := nextOrEof_cons L hA
    simp only [h1]
    have hspec := arms_spec ch
    cases hfind : Gen.parseEscapeArms.find? (·.1 == ch) with
    | some xy =>
      obtain ⟨x, y⟩ := xy
      rw [hfind] at hspec
      have hs : Spec.Grammar.isSimpleEscape ch = true := by
        cases h : Spec.Grammar.isSimpleEscape ch <;> simp_all
      simp only [hs, if_true, Option.map_some, Option.some.injEq] at hspec
      subst hspec
      refine .inl ⟨_, r1, ys, k + 1, false, rfl, hA1, by simp, by simp, ?_⟩
      rw [runRaw_simple env st hst ch ys k hs]
      simp
    | none =>
      rw [hfind] at hspec
      have hs : Spec.Grammar.isSimpleEscape ch = false := by
        cases h : Spec.Grammar.isSimpleEscape ch <;> simp_all
      simp only [uni_consts.1]
      by_cases hu : ch = 0x75
      · subst hu
        simp only [beq_self_eq_true, if_true]
        unfold parseUnicodeEscape parseUnicodeEscapeWith
        have hrun0 := runRaw_u env st hst ys k
        by_cases hl : ys.length < 4
        · obtain ⟨r', h4, hA4⟩ := L.hex_eof hA1 hl
          refine .inr ⟨.EofWhileParsingString, r', _, _, by simp only [h4], hA4, ?_⟩
          rw [hrun0, runRaw_hex_short env hf _ none rfl ys _ hl]
        · obtain ⟨a, b, c, d, zs, rfl⟩ := four_of_len ys hl
          obtain ⟨r5, hA5, h5⟩ := L.hex_ok hA1
          have hrun1 := runRaw_hex4 env { st with esc := .hex [] none } none rfl a b c d zs (k + 1)
          cases hd : Model.Hex.decodeFourHex a b c d with
          | none =>
            rw [hd] at h5
            refine .inr ⟨.InvalidEscape, r5, _, _, by simp only [h5], hA5, ?_⟩
            rw [hrun0, hrun1, runRaw_hex_bad env _ none a b c d rfl _ _ (by rw [hex4_eq, hd])]
          | some n =>
            rw [hd] at h5
            have hh : hex4 [a, b, c, d] = some n := by rw [hex4_eq, hd]
            have hlt : n < 0x10000 := (Proofs.Utf8.hex4_ascii _ _ hh).2
            simp only [h5, Bool.false_and, Bool.false_eq_true, ↓reduceIte]
            by_cases hle : 0xD800 ≤ n ∧ n ≤ 0xDBFF
            · have hstep := runRaw_hex_lead env { st with esc := .hex [a, b, c] none } a b c d rfl zs (k + 1 + 3) n hh hle.1 hle.2
              have := uniLoop_raw L env hf fuel r5 zs (k + 1 + 4) { st with esc := .lead1 n } n hA5 rfl hle.1 hle.2
                (by simp at hfuel; omega)
              rcases this with ⟨sc, r', xs', k', p', e1, hA', hl', hne', hrun'⟩ | ⟨c', r', xs', j, e1, hA', hrun'⟩
              · exact .inl ⟨sc, r', xs', k', p', e1, hA', by simp; omega, hne', by rw [hrun0, hrun1, hstep]; exact hrun'⟩
              · exact .inr ⟨c', r', xs', j, e1, hA', by rw [hrun0, hrun1, hstep]; exact hrun'⟩
            · have hsc : (decide (n < Gen.uniLeadLo) || decide (n > Gen.uniLeadHi)) = true := by
                simp [uni_consts]; omega
              obtain ⟨f', rfl⟩ : ∃ f', fuel = f' + 1 := ⟨fuel - 1, by simp at hfuel; omega⟩
              simp only [uniLoop, hsc, if_true]
              refine .inl ⟨_, r5, zs, _, false, rfl, hA5, by simp; omega, push_ne_nil _ _ (by omega), ?_⟩
              rw [hrun0, hrun1, runRaw_hex_scalar env _ a b c d rfl _ _ n hh (by omega), pushT _ _ (by omega)]
      · have : (ch == 0x75) = false := by simpa using hu
        simp only [this, Bool.false_eq_true, ↓reduceIte]
        refine .inr ⟨_, r1, _, _, rfl, hA1, ?_⟩
        rw [runRaw_badEscape env st hst ch ys k hs hu]

end escapes
/-! ## the two raw loops -/

section loops
open SJ.Model.ReadEscape SJ.Proofs.ReadEscape SJ.Proofs.ReadMach SJ.Model.LineCol
open SJ.Model.ReadSlice (Reference SliceRead)
open SJ.Model.ReadIo (IoRead)
variable (env : Env) (hf : env.flt = false)
include hf

/-- `IoRead::parse_str_bytes(scratch, validate = false, result)` against `Model.Typed.runRaw` -/
def IoOK (bs : Bytes) (result : IoRead → Bytes → Res Bytes IoRead) (res : Res Bytes IoRead) : Model.Typed.Res Bytes → Prop
  | .ok bytes rest j => ∃ r', ReadIo.A bs r' rest j false ∧ res = result r' bytes
  | .err c j => ∃ r' xs', res = .err c r' ∧ ReadIo.A bs r' xs' j false
  | _ => False

theorem io_parseStrLoop_raw (bs : Bytes) (result : IoRead → Bytes → Res Bytes IoRead) :
    ∀ (fuel : Nat) (r : IoRead) (xs : Bytes) (k : Nat) (p : Bool) (st : RawSt), ReadIo.A bs r xs k p → st.esc = .none →
      xs.length < fuel →
      IoOK bs result (Model.ReadIo.parseStrLoop false result fuel r st.out.reverse) (runRaw env st xs k) := by
  intro fuel
  induction fuel with
  | zero => intro r xs k p st _ _ h; omega
  | succ fuel ih =>
    intro r xs k p st hA hst hlen
    unfold Model.ReadIo.parseStrLoop
    match xs, hA, hlen with
    | [], hA, _ =>
      obtain ⟨r1, e1, h1⟩ := ReadIo.nextOrEof_nil' hA
      simp only [e1, runRaw_nil env hf, IoOK]
      exact ⟨r1, _, rfl, h1⟩
    | ch :: ys, hA, hlen =>
      obtain ⟨r1, e1, h1⟩ := ReadIo.nextOrEof_cons' hA
      simp only [e1, ReadIo.isEscape_true]
      simp only [List.length_cons] at hlen
      by_cases hq : ch = 0x22
      · subst hq
        simp only [beq_self_eq_true, Bool.true_or, Bool.not_true, Bool.false_eq_true, if_false, if_true]
        rw [runRaw_quote env st hst]
        exact ⟨r1, h1, rfl⟩
      · by_cases hb : ch = 0x5c
        · subst hb
          have : ((0x5c : UInt8) == 0x22) = false := by decide
          simp only [this, beq_self_eq_true, Bool.true_or, Bool.or_true, Bool.not_true, Bool.false_eq_true, if_false, if_true]
          rw [runRaw_backslash env st hst]
          have hag := parseEscape_raw (ReadIo.lawful bs) env hf fuel h1 (by omega) { st with esc := .bs } rfl
          rcases hag with ⟨sc, r', xs', k', p', e2, hA', hl', _, hrun⟩ | ⟨c, r', xs', j', e2, hA', hrun⟩
          · simp only at e2
            simp only [e2, hrun]
            have := ih r' xs' k' p' { out := sc.reverse, esc := .none } hA' rfl (by omega)
            simpa using this
          · simp only at e2
            simp only [e2, hrun, IoOK]
            exact ⟨r', _, rfl, hA'⟩
        · have hq' : (ch == 0x22) = false := by simpa using hq
          have hb' : (ch == 0x5c) = false := by simpa using hb
          simp only [hq', hb', Bool.false_or, Bool.false_eq_true, if_false]
          rw [runRaw_plain env st hst ch ys k hq hb]
          have := ih r1 ys (k + 1) false { st with out := ch :: st.out } h1 hst (by omega)
          by_cases hc : ch < 0x20
          · simp only [hc, decide_true, Bool.not_true, Bool.false_eq_true, if_false]
            simpa using this
          · simp only [hc, decide_false, Bool.not_false, if_true]
            simpa using this

/-- `SliceRead::parse_str_bytes(scratch, validate = false, result)` against `Model.Typed.runRaw` -/
def SliceOK (bs : Bytes) (result : SliceRead → Bytes → Res Bytes SliceRead) (res : Res Reference SliceRead) :
    Model.Typed.Res Bytes → Prop
  | .ok bytes rest j => ∃ r', ReadSlice.A bs r' rest j false ∧ ∃ esc : Bool, res = ReadSlice.wrap esc (result r' bytes)
  | .err c j => ∃ r' xs', res = .err c r' ∧ ReadSlice.A bs r' xs' j false
  | _ => False

omit hf in
theorem stops_false (b : UInt8) : Spec.Str.stopsScan b false = (b == 0x22 || b == 0x5c) := by
  simp [Spec.Str.stopsScan]

theorem slice_parseStrLoop_raw (bs : Bytes) (result : SliceRead → Bytes → Res Bytes SliceRead) :
    ∀ (fuel k : Nat) (scratch : Bytes) (start : Nat) (st : RawSt), k ≤ bs.length → start ≤ k → st.esc = .none →
      scratch ++ Model.ReadSlice.sub bs start k = st.out.reverse → bs.length - k < fuel →
      SliceOK bs result (Model.ReadSlice.parseStrLoop false result fuel ⟨bs, k⟩ scratch start) (runRaw env st (bs.drop k) k) := by
  intro fuel
  induction fuel with
  | zero => intro k scratch start st _ _ _ _ h; omega
  | succ fuel ih =>
    intro k scratch start st hk hs hst hinv hfuel
    obtain ⟨ys, he, hle, hdrop, hys, hstop⟩ := ReadSlice.scan_split bs k hk false
    have hrun := runRaw_run env st hst ys (bs.drop (k + ys.length)) k (fun b hb => by
      have := hys b hb; rw [stops_false] at this
      simp only [Bool.or_eq_false_iff, beq_eq_false_iff_ne] at this
      exact this)
    rw [hdrop, hrun]
    have hsub : scratch ++ Model.ReadSlice.sub bs start (k + ys.length) = (ys.reverse ++ st.out).reverse := by
      rw [ReadSlice.sub_append bs start k _ hs (by omega), ← List.append_assoc, hinv, ReadSlice.sub_eq bs k ys _ hdrop]; simp
    unfold Model.ReadSlice.parseStrLoop
    simp only [Model.ReadSlice.skipToEscape, he]
    have hke : k ≤ k + ys.length := Nat.le_add_right _ _
    generalize k + ys.length = e at *
    by_cases hlt : e < bs.length
    · obtain ⟨ch, rest, hd, hch⟩ := hstop hlt
      obtain ⟨_, _, hrest, hget⟩ := Proofs.LineCol.take_succ_getElem bs e ch rest hd
      have hgd : bs.getD e 0 = ch := by rw [List.getD_eq_getElem?_getD, hget]; rfl
      have hne : (e == bs.length) = false := by simp; omega
      simp only [hne, Bool.false_eq_true, if_false, hgd]
      rw [hd]
      rw [stops_false] at hch
      by_cases hq : ch = 0x22
      · subst hq
        simp only [beq_self_eq_true, if_true]
        rw [runRaw_quote env { st with out := ys.reverse ++ st.out } hst]
        refine ⟨⟨bs, e + 1⟩, ⟨rfl, rfl, hlt, hrest.symm, rfl⟩, !scratch.isEmpty, ?_⟩
        cases hsc : scratch.isEmpty with
        | true =>
          have hnil : scratch = [] := by simpa using hsc
          simp only [if_true, Bool.not_true]
          rw [hnil, List.nil_append] at hsub
          rw [hsub]
          cases result ⟨bs, e + 1⟩ (ys.reverse ++ st.out).reverse <;> rfl
        | false =>
          simp only [Bool.false_eq_true, if_false, Bool.not_false]
          rw [hsub]
          cases result ⟨bs, e + 1⟩ (ys.reverse ++ st.out).reverse <;> rfl
      · have hq' : (ch == 0x22) = false := by simpa using hq
        have hb : ch = 0x5c := by simpa [hq'] using hch
        subst hb
        simp only [hq', Bool.false_eq_true, if_false, beq_self_eq_true, if_true]
        rw [runRaw_backslash env { st with out := ys.reverse ++ st.out } hst]
        have hA1 : ReadSlice.A bs ⟨bs, e + 1⟩ rest (e + 1) false := ⟨rfl, rfl, hlt, hrest.symm, rfl⟩
        have h1 : rest.length = bs.length - (e + 1) := by rw [← hrest]; simp
        have hag := parseEscape_raw (ReadSlice.lawful bs) env hf fuel hA1 (by omega)
          { out := ys.reverse ++ st.out, esc := .bs } rfl
        rw [hsub]
        rcases hag with ⟨sc, r', xs', k', p', e2, hA', hl', hne', hrun'⟩ | ⟨c, r', xs', j', e2, hA', hrun'⟩
        · simp only at e2
          simp only [e2, hrun']
          have hr' := hA'.eq; subst hr'
          obtain ⟨_, _, hk', hx', _⟩ := hA'
          subst hx'
          have h2 : (bs.drop k').length = bs.length - k' := by simp
          rw [h1, h2] at hl'
          have := ih k' sc k' { out := sc.reverse, esc := .none } hk' (Nat.le_refl _) rfl
            (by simp [Model.ReadSlice.sub]) (by omega)
          simpa using this
        · simp only at e2
          simp only [e2, hrun', SliceOK]
          exact ⟨r', _, rfl, hA'⟩
    · have hee : e = bs.length := by omega
      subst hee
      simp only [beq_self_eq_true, if_true, List.drop_length, runRaw_nil env hf]
      exact ⟨⟨bs, bs.length⟩, _, rfl, ReadSlice.A.mk' bs bs.length (Nat.le_refl _)⟩

end loops

/-! ## entry points -/

section top
open SJ.Model.ReadEscape SJ.Proofs.ReadEscape SJ.Proofs.ReadMach SJ.Model.LineCol SJ.Proofs.ReadTop
open SJ.Model.ReadSlice (Reference SliceRead)
open SJ.Model.ReadIo (IoRead)

/-- what `Model.Typed.parseStrRaw` (= `runRaw` from the empty state) answers, as an observation -/
def rawObs : Model.Typed.Res Bytes → Obs
  | .ok bytes _ j => .ok bytes j
  | .err c j => .err c j
  | _ => .fuel

theorem slice_raw_refines (env : Env) (hf : env.flt = false) (bs : Bytes) (i : Nat) (hi : i ≤ bs.length) :
    sliceObs (Model.ReadSlice.parseStrRaw ⟨bs, i⟩) = rawObs (Model.Typed.parseStrRaw env (bs.drop i) i) := by
  have h := slice_parseStrLoop_raw env hf bs Model.ReadSlice.noCheck (Model.ReadSlice.fuelFor ⟨bs, i⟩) i [] i {} hi
    (Nat.le_refl _) rfl (by simp [Model.ReadSlice.sub]) (by simp [Model.ReadSlice.fuelFor])
  unfold Model.ReadSlice.parseStrRaw Model.ReadSlice.parseStrBytes Model.Typed.parseStrRaw
  cases hr : runRaw env {} (bs.drop i) i with
  | ok bytes rest j =>
    rw [hr] at h
    obtain ⟨r', hA, esc, hres⟩ := h
    have hr' := hA.eq; subst hr'
    rw [hres]; cases esc <;> rfl
  | err c j =>
    rw [hr] at h
    obtain ⟨r', xs', hres, hA⟩ := h
    have hr' := hA.eq; subst hr'
    rw [hres]; rfl
  | data j => rw [hr] at h; exact h.elim
  | raw a b => rw [hr] at h; exact h.elim
  | io => rw [hr] at h; exact h.elim
  | fuel => rw [hr] at h; exact h.elim

theorem io_raw_refines (env : Env) (hf : env.flt = false) (bs : Bytes) (i : Nat) (hi : i ≤ bs.length) :
    ioObs (Model.ReadIo.parseStrRaw (IoPos.at bs i false)) = rawObs (Model.Typed.parseStrRaw env (bs.drop i) i) ∧
    (∀ ref r', Model.ReadIo.parseStrRaw (IoPos.at bs i false) = .ok ref r' → ∃ j, j ≤ bs.length ∧ r' = IoPos.at bs j false) ∧
    (∀ c r', Model.ReadIo.parseStrRaw (IoPos.at bs i false) = .err c r' → ∃ j, j ≤ bs.length ∧ r' = IoPos.at bs j false) := by
  have hA := io_at bs i hi
  have h := io_parseStrLoop_raw env hf bs Model.ReadSlice.noCheck (Model.ReadIo.fuelFor (IoPos.at bs i false)) _ _ i false {}
    hA rfl (by simp [Model.ReadIo.fuelFor, Model.ReadIo.IoPos.pending, IoPos.at])
  unfold Model.ReadIo.parseStrRaw Model.ReadIo.parseStrBytes Model.Typed.parseStrRaw
  cases hr : runRaw env {} (bs.drop i) i with
  | ok bytes rest j =>
    rw [hr] at h
    obtain ⟨r', hA', hres⟩ := h
    obtain ⟨rfl, hj, rfl⟩ := io_eq_at hA'
    simp only [List.reverse_nil] at hres
    rw [hres]
    refine ⟨by simp [Model.ReadSlice.noCheck, ioObs, rawObs, at_byteOffset bs j hj, Reference.bytes], fun ref r' h' => ?_, fun c r' h' => by simp [Model.ReadSlice.noCheck] at h'⟩
    simp only [Model.ReadSlice.noCheck, Model.ReadEscape.Res.ok.injEq] at h'
    exact ⟨j, hj, h'.2.symm⟩
  | err c j =>
    rw [hr] at h
    obtain ⟨r', xs', hres, hA'⟩ := h
    obtain ⟨rfl, hj, _⟩ := io_eq_at hA'
    simp only [List.reverse_nil] at hres
    rw [hres]
    refine ⟨by simp [ioObs, rawObs, at_byteOffset bs j hj], fun ref r' h' => by simp at h', fun c' r' h' => ?_⟩
    simp only [Model.ReadEscape.Res.err.injEq] at h'
    exact ⟨j, hj, h'.2.symm⟩
  | data j => rw [hr] at h; exact h.elim
  | raw a b => rw [hr] at h; exact h.elim
  | io => rw [hr] at h; exact h.elim
  | fuel => rw [hr] at h; exact h.elim

end top

end SJ.Proofs.ReadRaw
