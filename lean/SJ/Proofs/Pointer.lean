import SJ.Spec.Pointer
import SJ.Model.ValueOps
/-! Helper lemmas for C18 (pointer = RFC 6901 evaluator). -/
namespace SJ.Proofs.Pointer
open SJ SJ.Model.ValueOps

theorem replace2_cons_ne (a b c x : UInt8) (r : Bytes) (h : x ≠ a) :
    replace2 a b c (x :: r) = x :: replace2 a b c r := by
  cases r with
  | nil => simp [replace2]
  | cons y r => simp [replace2, h]

theorem replace2_head_ne (a b c y z : UInt8) (r : Bytes) (hy : y ≠ z) (hc : c ≠ z) :
    ∃ h t, replace2 a b c (y :: r) = h :: t ∧ h ≠ z := by
  cases r with
  | nil => exact ⟨y, [], by simp [replace2], hy⟩
  | cons w r =>
    by_cases hm : y = a ∧ w = b
    · exact ⟨c, replace2 a b c r, by simp [replace2, hm], hc⟩
    · exact ⟨y, replace2 a b c (w :: r), by simp [replace2, hm], hy⟩

theorem replaceAux_pair (a b c : UInt8) (fuel : Nat) (s : Bytes) (h : s.length ≤ fuel) :
    replaceAux [a, b] [c] fuel s = replace2 a b c s := by
  induction fuel generalizing s with
  | zero => cases s with
    | nil => simp [replaceAux, replace2]
    | cons _ _ => simp at h
  | succ fuel ih =>
    match s with
    | [] => simp [replaceAux, replace2]
    | [x] =>
      simp only [replaceAux, replace2]
      have : ¬ (([a, b] : Bytes) ≠ [] ∧ ([a, b] : Bytes).isPrefixOf [x] = true) := by
        simp [List.isPrefixOf]
      rw [if_neg this]
      cases fuel <;> simp [replaceAux]
    | x :: y :: r =>
      simp only [replaceAux, replace2]
      by_cases hm : x = a ∧ y = b
      · obtain ⟨hx, hy⟩ := hm; subst hx hy
        simp [List.isPrefixOf]
        exact ih r (by simp at h; omega)
      · have : ¬ (([a, b] : Bytes) ≠ [] ∧ ([a, b] : Bytes).isPrefixOf (x :: y :: r) = true) := by
          simp [List.isPrefixOf]; intro h1 h2; exact hm ⟨h1.symm, h2.symm⟩
        rw [if_neg this, if_neg hm]
        rw [ih (y :: r) (by simp at h ⊢; omega)]

theorem replace_pair (a b c : UInt8) (s : Bytes) : replace [a, b] [c] s = replace2 a b c s :=
  replaceAux_pair a b c s.length s (Nat.le_refl _)

theorem unescapeTok_unfold (t : Bytes) :
    unescapeTok t = replace2 0x7e 0x30 0x7e (replace2 0x7e 0x31 0x2f t) := by
  simp [unescapeTok, applyChain, Gen.ptrReplace, replace_pair]

theorem unescapeTokMut_eq (t : Bytes) : unescapeTokMut t = unescapeTok t := by
  simp [unescapeTok, unescapeTokMut, Gen.ptrReplace, Gen.ptrMutReplace]

theorem unescapeTok_eq (t : Bytes) : unescapeTok t = Spec.Pointer.unescape t := by
  rw [unescapeTok_unfold]
  fun_induction Spec.Pointer.unescape t with
  | case1 => simp [replace2]
  | case2 x => simp [replace2]
  | case3 x y r h ih =>
    obtain ⟨hx, hy⟩ := h
    subst hx hy
    have h1 : replace2 0x7e 0x31 0x2f (Spec.Pointer.tilde :: 0x30 :: r)
        = 0x7e :: 0x30 :: replace2 0x7e 0x31 0x2f r := by
      rw [show Spec.Pointer.tilde = (0x7e : UInt8) from rfl]
      simp only [replace2]
      rw [if_neg (by decide), replace2_cons_ne _ _ _ _ _ (by decide)]
    rw [h1]; simp only [replace2]; simp [ih]; rfl
  | case4 x y r h1 h ih =>
    obtain ⟨hx, hy⟩ := h
    subst hx hy
    rw [show Spec.Pointer.tilde = (0x7e : UInt8) from rfl]
    simp only [replace2]
    simp only [and_self, if_true]
    rw [replace2_cons_ne _ _ _ _ _ (by decide), ih]; rfl
  | case5 x y r h0 h1 ih =>
    by_cases hx : x = 0x7e
    · subst hx
      have hy0 : y ≠ 0x30 := fun e => h0 ⟨rfl, e⟩
      have hy1 : y ≠ 0x31 := fun e => h1 ⟨rfl, e⟩
      have e1 : replace2 0x7e 0x31 0x2f (0x7e :: y :: r) = 0x7e :: replace2 0x7e 0x31 0x2f (y :: r) := by
        simp [replace2, hy1]
      rw [e1]
      obtain ⟨hd, tl, e2, hne⟩ := replace2_head_ne 0x7e 0x31 0x2f y 0x30 r hy0 (by decide)
      rw [e2] at ih ⊢
      simp only [replace2]
      rw [if_neg (by simp [hne]), ih]
    · rw [replace2_cons_ne _ _ _ _ _ hx, replace2_cons_ne _ _ _ _ _ hx, ih]

theorem splitOn_ne_nil (sep : UInt8) (r : Bytes) : splitOn sep r ≠ [] := by
  fun_induction splitOn sep r <;> simp_all

theorem splitOn_eq (sep : UInt8) (r : Bytes) :
    splitOn sep r = r.takeWhile (· != sep) ::
      (match r.dropWhile (· != sep) with
       | [] => []
       | _ :: rest => splitOn sep rest) := by
  induction r with
  | nil => simp [splitOn]
  | cons c r ih =>
    by_cases hc : c = sep
    · subst hc; simp [splitOn]
    · rw [splitOn]; simp only [hc, if_false]
      rw [ih]; simp [hc]

theorem dropWhile_head (sep : UInt8) (r : Bytes) (x : UInt8) (rest : Bytes)
    (h : r.dropWhile (· != sep) = x :: rest) : x = sep := by
  induction r with
  | nil => simp at h
  | cons c r ih =>
    by_cases hc : c = sep
    · simp [hc] at h; exact h.1.symm
    · simp only [List.dropWhile_cons, bne_iff_ne, ne_eq, hc, not_false_eq_true, if_true] at h
      exact ih h

theorem dropWhile_len (sep : UInt8) (r : Bytes) : (r.dropWhile (· != sep)).length ≤ r.length := by
  induction r with
  | nil => simp
  | cons c r ih =>
    by_cases hc : c = sep
    · simp [hc]
    · simp only [List.dropWhile_cons, bne_iff_ne, ne_eq, hc, not_false_eq_true, if_true, List.length_cons]
      omega

theorem tokensAux_eq (fuel : Nat) (r : Bytes) (h : r.length + 1 < fuel) :
    Spec.Pointer.tokensAux fuel (Spec.Pointer.slash :: r) = some (splitOn Spec.Pointer.slash r) := by
  induction fuel generalizing r with
  | zero => omega
  | succ fuel ih =>
    rw [Spec.Pointer.tokensAux]
    simp only [if_true]
    rw [splitOn_eq]
    cases hd : List.dropWhile (· != Spec.Pointer.slash) r with
    | nil =>
      cases fuel with
      | zero => omega
      | succ f => simp [Spec.Pointer.tokensAux]
    | cons x rest =>
      have hx := dropWhile_head _ _ _ _ hd
      subst hx
      have hl := dropWhile_len Spec.Pointer.slash r
      rw [hd] at hl
      rw [ih rest (by simp at hl; omega)]
      simp

theorem mapGet_eq (k : Bytes) (m : List (Bytes × JV)) : mapGet k m = Spec.Pointer.lookup k m := by
  induction m with
  | nil => rfl
  | cons kv m ih => obtain ⟨k', v⟩ := kv; simp [mapGet, Spec.Pointer.lookup, ih]

theorem digit_lt (d : UInt8) (_h : Spec.Pointer.isDigit d = true) : d.toNat - 0x30 < 2 ^ 64 := by
  have := d.toNat_lt
  omega

theorem parseIndex_eq (t : Bytes) : parseIndex t = Spec.Pointer.arrayIndex t := by
  have hd : isDigit = Spec.Pointer.isDigit := rfl
  match t with
  | [] => simp [parseIndex, Gen.parseIndexGuard, parseUsize, Spec.Pointer.arrayIndex]
  | [d] =>
    simp only [parseIndex, Gen.parseIndexGuard, Spec.Pointer.arrayIndex, List.head?_cons, List.length_cons, List.length_nil]
    by_cases hp : d = 0x2b
    · subst hp; decide
    · by_cases hdig : Spec.Pointer.isDigit d = true
      · have := digit_lt d hdig
        simp [hp, parseUsize, hd, hdig, this]
      · simp [hp, parseUsize, hd, hdig]
  | d :: e :: ds =>
    simp only [parseIndex, Gen.parseIndexGuard, Spec.Pointer.arrayIndex, List.head?_cons, List.length_cons]
    by_cases hp : d = 0x2b
    · subst hp; simp [Spec.Pointer.isDigit]
    · by_cases hz : d = 0x30
      · subst hz; simp
      · simp [hp, hz, parseUsize, hd, Spec.Pointer.decVal]

end SJ.Proofs.Pointer
