import SJ.Proofs.MapIndex
/-! Helper lemmas for C17: `==` of the two stores is equality of the denoted dictionaries
    (whatever the comparison `eqv` of values is). -/
namespace SJ.Proofs.MapEq
open SJ SJ.Proofs.MapOrder
open SJ.Spec.AMap (ltB Asc lookup AMap DictRel)
open SJ.Proofs.MapBTree (absm Sorted sorted_cons lookup_lt_head)
open SJ.Proofs.MapIndex (NodupKeys)

variable {V : Type}

theorem dictRel_eq_iff (d₁ d₂ : AMap V) : DictRel Eq d₁ d₂ ↔ d₁ = d₂ := by
  constructor
  · intro h; funext k
    have := h k
    cases h₁ : d₁ k <;> cases h₂ : d₂ k <;> simp [h₁, h₂] at this ⊢
    exact this
  · rintro rfl k; cases d₁ k <;> simp

/-! ### BTreeMap -/

theorem btree_beq_iff (eqv : V → V → Bool) {m₁ m₂ : List (Bytes × V)} (s₁ : Sorted m₁) (s₂ : Sorted m₂) :
    Model.MapBTree.beq eqv m₁ m₂ = true ↔ DictRel (fun a b => eqv a b = true) (absm m₁) (absm m₂) := by
  induction m₁ generalizing m₂ with
  | nil =>
    cases m₂ with
    | nil => simp [Model.MapBTree.beq, DictRel, absm, lookup]
    | cons kv r =>
      obtain ⟨k', v'⟩ := kv
      simp only [Model.MapBTree.beq, Bool.false_eq_true, false_iff]
      intro h; have := h k'; simp [absm, lookup] at this
  | cons kv r ih =>
    obtain ⟨k, v⟩ := kv
    cases m₂ with
    | nil =>
      simp only [Model.MapBTree.beq, Bool.false_eq_true, false_iff]
      intro h; have := h k; simp [absm, lookup] at this
    | cons kv' r' =>
      obtain ⟨k', v'⟩ := kv'
      have s₁' := sorted_cons.mp s₁
      have s₂' := sorted_cons.mp s₂
      simp only [Model.MapBTree.beq, Bool.and_eq_true, beq_iff_eq]
      constructor
      · rintro ⟨⟨rfl, hv⟩, hr⟩
        have hr' := (ih s₁'.2 s₂'.2).mp hr
        intro x
        simp only [absm, lookup]
        by_cases e : k = x
        · simp [e, hv]
        · simp only [if_neg e]; exact hr' x
      · intro h
        have hk : k = k' := by
          cases h₁ : ltB k k' with
          | true =>
            have := h k
            simp only [absm] at this
            rw [lookup_lt_head s₂ h₁] at this
            simp [lookup] at this
          | false =>
            cases h₂ : ltB k' k with
            | true =>
              have := h k'
              simp only [absm] at this
              rw [lookup_lt_head s₁ h₂] at this
              simp [lookup] at this
            | false => exact ltB_total h₁ h₂
        subst hk
        have hv : eqv v v' = true := by
          have := h k; simpa [absm, lookup] using this
        refine ⟨⟨rfl, hv⟩, (ih s₁'.2 s₂'.2).mpr ?_⟩
        intro x
        by_cases e : k = x
        · subst e
          have n₁ : lookup k r = none :=
            lookup_none_of_not_mem (fun hm => by have := s₁'.1 k hm; rw [ltB_irrefl] at this; cases this)
          have n₂ : lookup k r' = none :=
            lookup_none_of_not_mem (fun hm => by have := s₂'.1 k hm; rw [ltB_irrefl] at this; cases this)
          simp [absm, n₁, n₂]
        · have := h x
          simpa [absm, lookup, e] using this

/-! ### IndexMap -/

/-- pigeonhole: a duplicate-free list inside a list that is not longer covers it -/
theorem subset_of_nodup_of_length_le {l₁ l₂ : List Bytes} (nd : l₁.Nodup) (hs : l₁ ⊆ l₂)
    (hl : l₂.length ≤ l₁.length) : l₂ ⊆ l₁ := by
  induction l₁ generalizing l₂ with
  | nil =>
    have : l₂ = [] := List.eq_nil_of_length_eq_zero (Nat.le_zero.mp hl)
    subst this; exact List.Subset.refl _
  | cons a t ih =>
    have nd' := List.nodup_cons.mp nd
    have ha : a ∈ l₂ := hs (List.mem_cons_self ..)
    have hlen : (l₂.erase a).length = l₂.length - 1 := List.length_erase_of_mem ha
    have hsub : t ⊆ l₂.erase a := by
      intro x hx
      have hne : x ≠ a := fun e => nd'.1 (e ▸ hx)
      exact (List.mem_erase_of_ne hne).mpr (hs (List.mem_cons_of_mem _ hx))
    have hl' : (l₂.erase a).length ≤ t.length := by
      simp only [List.length_cons] at hl; omega
    have := ih nd'.2 hsub hl'
    intro x hx
    by_cases e : x = a
    · subst e; exact List.mem_cons_self ..
    · exact List.mem_cons_of_mem _ (this ((List.mem_erase_of_ne e).mpr hx))

theorem index_beq_iff (eqv : V → V → Bool) {m₁ m₂ : List (Bytes × V)} (n₁ : NodupKeys m₁) (n₂ : NodupKeys m₂) :
    Model.MapIndex.beq eqv m₁ m₂ = true ↔ DictRel (fun a b => eqv a b = true) (absm m₁) (absm m₂) := by
  simp only [Model.MapIndex.beq, Bool.and_eq_true, beq_iff_eq, List.all_eq_true, Model.MapIndex.get]
  constructor
  · rintro ⟨hlen, hall⟩
    have hsub : keys m₁ ⊆ keys m₂ := by
      intro x hx
      obtain ⟨⟨k, v⟩, hm, rfl⟩ := List.mem_map.mp hx
      have := hall (k, v) hm
      cases hl : lookup k m₂ with
      | none => simp [hl] at this
      | some w => exact MapIndex.mem_keys_of_lookup hl
    have hsup : keys m₂ ⊆ keys m₁ :=
      subset_of_nodup_of_length_le n₁ hsub (by simp [keys, hlen])
    intro x
    simp only [absm]
    cases h₁ : lookup x m₁ with
    | none =>
      have : lookup x m₂ = none :=
        lookup_none_of_not_mem (fun hm => (lookup_eq_none_iff.mp h₁) (hsup hm))
      simp [this]
    | some a =>
      have hm := (lookup_eq_some_iff n₁).mp h₁
      have := hall (x, a) hm
      cases hl : lookup x m₂ with
      | none => simp [hl] at this
      | some w => simpa [hl] using this
  · intro h
    have hmem : ∀ x, x ∈ keys m₁ ↔ x ∈ keys m₂ := by
      intro x
      have := h x
      simp only [absm] at this
      rw [← lookup_isSome_iff, ← lookup_isSome_iff]
      cases h₁ : lookup x m₁ <;> cases h₂ : lookup x m₂ <;> simp [h₁, h₂] at this ⊢
    refine ⟨?_, ?_⟩
    · have := ((List.perm_ext_iff_of_nodup n₁ n₂).mpr hmem).length_eq
      simpa [keys] using this
    · rintro ⟨k, v⟩ hm
      have h₁ := (lookup_eq_some_iff n₁).mpr hm
      have := h k
      simp only [absm, h₁] at this
      cases h₂ : lookup k m₂ with
      | none => simp [h₂] at this
      | some w => simpa [h₂] using this

end SJ.Proofs.MapEq
