import SJ.Proofs.EarliestMain
/-!
# The scanner of skipped content simulates every other run of the machine (C11, grammar level)

`Sim s t`: the states `s` (any environment) and `t` (target `ignored`) have the same *shape* — the
same mode with the same lexical sub-state (number phase and digits, position inside an escape,
letters of a literal still to come), and stacks of the same kinds of frames. Payloads (values,
keys, decoded text, a pending leading surrogate) are not compared.

`step_sim`: a successful step of any machine is matched by a successful step of the scanner, and a
failing step whose code is not a *side-condition* code (`sideCode`: number range, depth, UTF-8,
surrogate pairing) by a failing step. Hence

* whatever a `Value` parse consumes, the scanner consumes (`feeds_sim`) — so the grammar-level
  completions of `EarliestMain` (which need no side condition for the scanner) apply to it;
* a grammar error of a `Value` parse is an error of the scanner at the same byte.
-/
namespace SJ.Proofs.EarliestSim
open SJ SJ.Gen SJ.Model.Machine SJ.Proofs.Machine SJ.Proofs.Complete SJ.Proofs.Earliest

/-- the error codes that report a violated *side condition* of C01 rather than a violation of the
    RFC 8259 grammar: numeric range, nesting depth, UTF-8 validity, surrogate pairing -/
def sideCode (c : Code) : Bool :=
  c == .NumberOutOfRange || c == .RecursionLimitExceeded || c == .InvalidUnicodeCodePoint ||
  c == .LoneLeadingSurrogateInHexEscape || c == .UnexpectedEndOfHexEscape

def FrameSim : Frame → Frame → Prop
  | .arr _, .arr _ => True
  | .obj _ _, .obj _ _ => True
  | _, _ => False

def StackSim : List Frame → List Frame → Prop
  | [], [] => True
  | f :: fs, g :: gs => FrameSim f g ∧ StackSim fs gs
  | _, _ => False

/-- position inside an escape: the scanner does not pair surrogates, so after `\uD800` it is between
    items (`none`) where the other machine waits for `\` (`lead1`), and so on -/
def EscSim : EscSt → EscSt → Prop
  | .none, .none => True
  | .bs, .bs => True
  | .hex a _, .hex a' _ => a = a'
  | .lead1 _, .none => True
  | .lead2 _, .bs => True
  | _, _ => False

def ModeSim : Mode → Mode → Prop
  | .val c, .val c' => c = c'
  | .lit r _, .lit r' _ => r = r'
  | .num n, .num n' => n = n'
  | .str st, .str st' => EscSim st.esc st'.esc ∧ st.isKey = st'.isKey
  | .afterElem, .afterElem => True
  | .objFirst, .objFirst => True
  | .objNextKey, .objNextKey => True
  | .afterKey, .afterKey => True
  | .afterMember, .afterMember => True
  | .done _, .done _ => True
  | _, _ => False

structure Sim (s t : St) : Prop where
  mode : ModeSim s.mode t.mode
  stack : StackSim s.stack t.stack

theorem sim_init : Sim init init := ⟨rfl, trivial⟩

theorem complete_sim {fs gs : List Frame} (h : StackSim fs gs) (v w : JV) :
    Sim (complete fs v) (complete gs w) := by
  cases fs with
  | nil => cases gs with
    | nil => exact ⟨trivial, trivial⟩
    | cons g gs => exact h.elim
  | cons f fs => cases gs with
    | nil => exact h.elim
    | cons g gs =>
      obtain ⟨hf, hs⟩ := h
      cases f <;> cases g <;> first | exact hf.elim | exact ⟨trivial, ⟨trivial, hs⟩⟩

/-- what a step of the simulated machine demands of the scanner's step -/
def StepSim : Step → Step → Prop
  | .next s, .next t => Sim s t
  | .again s, .again t => Sim s t
  | .err c _, r => sideCode c = true ∨ ∃ c' a', r = .err c' a'
  | _, _ => False

theorem closeArr_sim (env envI : Env) (s t : St) (h : StackSim s.stack t.stack) :
    StepSim (closeArr env s) (closeArr envI t) := by
  obtain ⟨m, fs⟩ := s; obtain ⟨m', gs⟩ := t
  simp only at h
  unfold closeArr
  cases fs with
  | nil => cases gs with
    | nil => exact Or.inr ⟨_, _, rfl⟩
    | cons g gs => exact h.elim
  | cons f fs => cases gs with
    | nil => exact h.elim
    | cons g gs =>
      obtain ⟨hf, hs⟩ := h
      cases f <;> cases g <;> first | exact hf.elim | exact Or.inr ⟨_, _, rfl⟩ | exact complete_sim hs _ _

theorem closeObj_sim (env envI : Env) (s t : St) (h : StackSim s.stack t.stack) :
    StepSim (closeObj env s) (closeObj envI t) := by
  obtain ⟨m, fs⟩ := s; obtain ⟨m', gs⟩ := t
  simp only at h
  unfold closeObj
  cases fs with
  | nil => cases gs with
    | nil => exact Or.inr ⟨_, _, rfl⟩
    | cons g gs => exact h.elim
  | cons f fs => cases gs with
    | nil => exact h.elim
    | cons g gs =>
      obtain ⟨hf, hs⟩ := h
      cases f <;> cases g <;> first | exact hf.elim | exact Or.inr ⟨_, _, rfl⟩ | exact complete_sim hs _ _

theorem depth_ignored (envI : Env) (hI : envI.tgt = .ignored) (t : St) : depthExceeded envI t = false := by
  simp [depthExceeded, hI]

theorem startValue_sim (env envI : Env) (hI : envI.tgt = .ignored) (s t : St) (b : UInt8)
    (h : StackSim s.stack t.stack) : StepSim (startValue env s b) (startValue envI t b) := by
  unfold startValue
  rw [depth_ignored envI hI t]
  repeat' split
  all_goals first
    | exact Or.inr ⟨_, _, rfl⟩
    | exact Or.inl rfl
    | exact ⟨rfl, h⟩
    | exact ⟨trivial, ⟨trivial, h⟩⟩
    | exact ⟨⟨trivial, rfl⟩, h⟩
    | exact ⟨rfl, ⟨trivial, h⟩⟩
    | contradiction

/-- the `finish` of `stepNum`: the number ends on a byte that cannot continue it -/
def numFinish (env : Env) (s : St) (n : NumSt) : Step :=
  match endNumber env s n with
  | .ok s' => .again s'
  | .error (c, a) => .err c a

theorem numFinish_sim (env envI : Env) (hI : envI.tgt = .ignored) (s t : St) (n : NumSt)
    (h : StackSim s.stack t.stack) : StepSim (numFinish env s n) (numFinish envI t n) := by
  have hi : numFinish envI t n = .again (complete t.stack .null) := by
    simp [numFinish, endNumber, hI]
  rw [hi]
  unfold numFinish
  cases he : endNumber env s n with
  | ok s' =>
    obtain ⟨v, rfl⟩ := endNumber_ok env s n s' he
    exact complete_sim h _ _
  | error e =>
    obtain ⟨c, a⟩ := e
    obtain ⟨rfl, _⟩ := endNumber_err env s n c a he
    exact Or.inl rfl

theorem stepNum_sim (env envI : Env) (hI : envI.tgt = .ignored) (s t : St) (n : NumSt) (b : UInt8)
    (h : StackSim s.stack t.stack) : StepSim (stepNum env s n b) (stepNum envI t n b) := by
  have hf := numFinish_sim env envI hI s t n h
  unfold numFinish at hf
  cases hp : n.phase <;> simp only [stepNum, hp, hI]
  all_goals
    repeat' split
    all_goals first
      | exact Or.inr ⟨_, _, rfl⟩
      | exact Or.inl rfl
      | exact ⟨rfl, h⟩
      | exact hf
      | (simp only [*] at hf; exact hf)
      | (rename_i hh; simp at hh)

theorem endStr_sim (env envI : Env) (hI : envI.tgt = .ignored) (s t : St) (st st' : StrSt)
    (hk : st.isKey = st'.isKey) (h : StackSim s.stack t.stack) :
    StepSim (endStr env s st) (endStr envI t st') := by
  obtain ⟨m, fs⟩ := s; obtain ⟨m', gs⟩ := t
  simp only at h
  unfold endStr
  simp only [hI, ← hk, reduceCtorEq, decide_false, Bool.false_and, Bool.false_eq_true, if_false]
  split
  · exact Or.inl rfl
  split
  · cases fs with
    | nil => exact Or.inr ⟨_, _, by cases gs <;> first | rfl | exact h.elim⟩
    | cons f fs => cases gs with
      | nil => exact h.elim
      | cons g gs =>
        obtain ⟨hf, hs⟩ := h
        cases f <;> cases g <;> first | exact hf.elim | exact Or.inr ⟨_, _, rfl⟩ | exact ⟨trivial, ⟨trivial, hs⟩⟩
  · exact complete_sim h _ _

theorem stepStr_sim (env envI : Env) (hI : envI.tgt = .ignored) (s t : St) (st st' : StrSt) (b : UInt8)
    (he : EscSim st.esc st'.esc) (hk : st.isKey = st'.isKey) (h : StackSim s.stack t.stack) :
    StepSim (stepStr env s st b) (stepStr envI t st' b) := by
  have hend := endStr_sim env envI hI s t st st' hk h
  obtain ⟨o, e, k, x⟩ := st; obtain ⟨o', e', k', x'⟩ := st'
  simp only at he hk; subst hk
  cases e <;> cases e' <;> try exact he.elim
  · -- between items
    simp only [stepStr]
    repeat' split
    all_goals first
      | exact hend
      | exact Or.inr ⟨_, _, rfl⟩
      | exact ⟨⟨trivial, rfl⟩, h⟩
  · -- after `\`
    simp only [stepStr]
    repeat' split
    all_goals first
      | exact Or.inr ⟨_, _, rfl⟩
      | exact ⟨⟨trivial, rfl⟩, h⟩
      | exact ⟨⟨rfl, rfl⟩, h⟩
  · -- inside a `\u` group: the same digits
    rename_i acc lead acc' lead'
    have : acc = acc' := he
    subst this
    simp only [stepStr, hI, ↓reduceIte]
    repeat' split
    all_goals first
      | exact Or.inr ⟨_, _, rfl⟩
      | exact Or.inl rfl
      | exact ⟨⟨trivial, rfl⟩, h⟩
      | exact ⟨⟨rfl, rfl⟩, h⟩
  · -- a leading surrogate was read: the scanner is between items
    simp only [stepStr]
    split
    · rename_i hb
      simp only [beq_iff_eq] at hb; subst hb
      exact ⟨⟨trivial, rfl⟩, h⟩
    · exact Or.inl rfl
  · -- … and `\`: the scanner is after `\`
    simp only [stepStr]
    split
    · exact ⟨⟨rfl, rfl⟩, h⟩
    · exact Or.inl rfl

theorem step1_sim (env envI : Env) (hI : envI.tgt = .ignored) (s t : St) (b : UInt8) (h : Sim s t) :
    StepSim (step1 env s b) (step1 envI t b) := by
  obtain ⟨hm, hs⟩ := h
  have hca := closeArr_sim env envI s t hs
  have hco := closeObj_sim env envI s t hs
  have hsv := startValue_sim env envI hI s t b hs
  obtain ⟨m, fs⟩ := s; obtain ⟨m', gs⟩ := t
  simp only at hm hs
  cases m <;> cases m' <;> try exact hm.elim
  · -- val
    rename_i c c'
    have : c = c' := hm
    subst this
    simp only [step1, hI]
    repeat' split
    all_goals first
      | exact hca
      | exact hsv
      | exact Or.inr ⟨_, _, rfl⟩
      | exact ⟨rfl, hs⟩
  · -- lit
    rename_i r v r' v'
    have : r = r' := hm
    subst this
    simp only [step1]
    repeat' split
    all_goals first
      | exact Or.inr ⟨_, _, rfl⟩
      | exact complete_sim hs _ _
      | exact ⟨rfl, hs⟩
  · -- num
    rename_i n n'
    have : n = n' := hm
    subst this
    exact stepNum_sim env envI hI _ _ n b hs
  · -- str
    rename_i st st'
    exact stepStr_sim env envI hI _ _ st st' b hm.1 hm.2 hs
  all_goals
    simp only [step1, hI]
    repeat' split
    all_goals first
      | exact hca
      | exact hco
      | exact Or.inr ⟨_, _, rfl⟩
      | exact ⟨rfl, hs⟩
      | exact ⟨trivial, hs⟩
      | exact ⟨⟨trivial, rfl⟩, hs⟩

/-- **simulation of one step.** A successful step is matched by a successful step of the scanner of
    skipped content (related states); a step failing with a grammar code is matched by a failing step -/
theorem step_sim (env envI : Env) (hI : envI.tgt = .ignored) (s t : St) (b : UInt8) (h : Sim s t) :
    (∀ s', step env s b = .ok s' → ∃ t', step envI t b = .ok t' ∧ Sim s' t') ∧
    (∀ c a, step env s b = .error (c, a) → sideCode c = false → ∃ c' a', step envI t b = .error (c', a')) := by
  have h1 := step1_sim env envI hI s t b h
  unfold step
  cases hV : step1 env s b with
  | next s1 =>
    rw [hV] at h1
    cases hT : step1 envI t b with
    | next t1 => rw [hT] at h1; exact ⟨fun s' hs => ⟨t1, rfl, (by cases hs; exact h1)⟩, fun c a hs => (by cases hs)⟩
    | again t1 => rw [hT] at h1; exact h1.elim
    | err c a => rw [hT] at h1; exact h1.elim
  | err c a =>
    rw [hV] at h1
    refine ⟨fun s' hs => (by cases hs), fun c' a' hs hside => ?_⟩
    simp only [Except.error.injEq, Prod.mk.injEq] at hs
    obtain ⟨rfl, rfl⟩ := hs
    rcases h1 with h1 | ⟨c2, a2, h2⟩
    · rw [hside] at h1; cases h1
    · rw [h2]; exact ⟨c2, a2, rfl⟩
  | again s1 =>
    rw [hV] at h1
    cases hT : step1 envI t b with
    | next t1 => rw [hT] at h1; exact h1.elim
    | err c a => rw [hT] at h1; exact h1.elim
    | again t1 =>
      rw [hT] at h1
      have h2 := step1_sim env envI hI s1 t1 b h1
      simp only
      cases hV2 : step1 env s1 b with
      | next s2 =>
        rw [hV2] at h2
        cases hT2 : step1 envI t1 b with
        | next t2 => rw [hT2] at h2; exact ⟨fun s' hs => ⟨t2, rfl, (by cases hs; exact h2)⟩, fun c a hs => (by cases hs)⟩
        | again t2 => rw [hT2] at h2; exact h2.elim
        | err c a => rw [hT2] at h2; exact h2.elim
      | err c a =>
        rw [hV2] at h2
        refine ⟨fun s' hs => (by cases hs), fun c' a' hs hside => ?_⟩
        simp only [Except.error.injEq, Prod.mk.injEq] at hs
        obtain ⟨rfl, rfl⟩ := hs
        rcases h2 with h2 | ⟨c2, a2, h2⟩
        · rw [hside] at h2; cases h2
        · rw [h2]; exact ⟨c2, a2, rfl⟩
      | again s2 =>
        rw [hV2] at h2
        refine ⟨fun s' hs => (by cases hs), fun c' a' _ _ => ?_⟩
        cases hT2 : step1 envI t1 b with
        | next t2 => rw [hT2] at h2; exact h2.elim
        | err c a => exact ⟨c, a, rfl⟩
        | again t2 => exact ⟨_, _, rfl⟩

/-- whatever a machine consumes, the scanner of skipped content consumes -/
theorem feeds_sim (env envI : Env) (hI : envI.tgt = .ignored) (s t s' : St) (xs : Bytes) (h : Sim s t)
    (hf : Feeds env s xs s') : ∃ t', Feeds envI t xs t' ∧ Sim s' t' := by
  induction xs generalizing s t with
  | nil =>
    simp only [Feeds, feedS, Except.ok.injEq] at hf; subst hf
    exact ⟨t, Feeds.nil _ _, h⟩
  | cons b bs ih =>
    unfold Feeds at hf
    simp only [feedS] at hf
    cases hst : step env s b with
    | ok s1 =>
      rw [hst] at hf
      obtain ⟨t1, ht1, hsim⟩ := (step_sim env envI hI s t b h).1 s1 hst
      obtain ⟨t', hft, hs'⟩ := ih s1 t1 hsim hf
      exact ⟨t', Feeds.cons ht1 hft, hs'⟩
    | error e => rw [hst] at hf; cases hf

/-- the environment of the scanner of skipped content, same configuration and source -/
def ign (env : Env) : Env := { env with tgt := .ignored }

theorem ign_tgt (env : Env) : (ign env).tgt = .ignored := rfl

theorem hexPending_sim {s t : St} (h : Sim s t) : hexPending s = hexPending t := by
  obtain ⟨m, fs⟩ := s; obtain ⟨m', gs⟩ := t
  obtain ⟨hm, -⟩ := h
  simp only at hm
  cases m <;> cases m' <;> first | exact hm.elim | rfl | skip
  rename_i st st'
  obtain ⟨he, -⟩ := hm
  obtain ⟨o, e, k, x⟩ := st; obtain ⟨o', e', k', x'⟩ := st'
  simp only at he
  cases e <;> cases e' <;> first | exact he.elim | rfl | skip
  simp only [hexPending]
  exact congrArg List.length he

end SJ.Proofs.EarliestSim
