import SJ.Proofs.FloatError
/-!
# Zero significands and far underflow in `f64_from_parts`
-/
namespace SJ.Proofs.FloatDefault
open SJ SJ.Spec.Ieee SJ.Spec.Decimal SJ.Model.FloatDefault SJ.Proofs.Ieee

theorem roundMag_eq_zero (F : Fmt) (a b : Nat) (hb : 0 < b) (h : 2 * a ≤ b) : roundMag F a b = 0 := by
  have hq : a / b = 0 := Nat.div_eq_of_lt (by omega)
  rw [roundMag_eq]
  have hk : kOf F a b = 0 := by unfold kOf; rw [hq]; simp
  rw [hk]
  simp only [Nat.zero_mul, Nat.pow_zero, Nat.mul_one, Nat.zero_add]
  unfold rne
  simp only [hq, Nat.mod_eq_of_lt (show a < b by omega)]
  split
  · rfl
  · rw [if_neg (by omega)]; simp

theorem roundNE64_of_tiny (neg : Bool) (num den : Nat) (hden : 0 < den) (h : 2 * (num * 2 ^ 1074) ≤ den) :
    roundNE64 neg num den = some (F64.zero neg) := by
  rw [roundNE64_eq']
  have : rmag64 num den = 0 := roundMag_eq_zero b64 _ _ hden h
  rw [this, if_pos (by decide)]
  cases neg <;> rfl

theorem roundOrInf_of_tiny (neg : Bool) (num den : Nat) (hden : 0 < den) (h : 2 * (num * 2 ^ 1074) ≤ den) :
    F64.roundOrInf neg num den = F64.zero neg := by
  unfold F64.roundOrInf; rw [roundNE64_of_tiny neg num den hden h]; rfl

theorem zero_facts : F64.isFinite 0 = true ∧ F64.sign 0 = false ∧ F64.mag 0 = 0 ∧ F64.isZero 0 = true := by
  decide

theorem loop_some_arm (n : Nat) (f : UInt64) (e : Int) (hidx : wrappingAbsUsize e < 309) :
    loop (n + 1) f e =
      if e ≥ 0 then
        (if F64.isInf (F64.mul f (litPow10 (wrappingAbsUsize e))) then .outOfRange
         else .done (F64.mul f (litPow10 (wrappingAbsUsize e))))
      else .done (F64.div f (litPow10 (wrappingAbsUsize e))) := by
  rw [loop, pow10_eq, if_pos hidx]

/-- zero divided or multiplied by a table entry is zero -/
theorem div_zero_pow (k : Nat) (hk : k < 309) : F64.div 0 (litPow10 k) = 0 := by
  obtain ⟨hp, hps, hpz, hpm⟩ := litPow10_facts k hk
  rw [F64.div_finite 0 _ zero_facts.1 hp hpz, zero_facts.2.1, hps, zero_facts.2.2.1]
  have hB : 0 < F64.mag (litPow10 k) := by have := two_pow_pos' 1074; omega
  rw [roundOrInf_of_tiny _ 0 _ hB (by simp)]
  rfl

theorem mul_zero_pow (k : Nat) (hk : k < 309) : F64.mul 0 (litPow10 k) = 0 := by
  obtain ⟨hp, hps, _, _⟩ := litPow10_facts k hk
  rw [F64.mul_finite 0 _ zero_facts.1 hp, zero_facts.2.1, hps, zero_facts.2.2.1, Nat.zero_mul]
  rw [roundOrInf_of_tiny _ 0 _ (Nat.mul_pos (two_pow_pos' _) (two_pow_pos' _)) (by simp)]
  rfl

/-- a zero accumulator stays zero, whatever the exponent -/
theorem loop_zero (n : Nat) (e : Int) : loop (n + 1) 0 e = .done 0 := by
  by_cases hidx : wrappingAbsUsize e < 309
  · rw [loop_some_arm n 0 e hidx]
    by_cases he : e ≥ 0
    · rw [if_pos he, mul_zero_pow _ hidx]; rfl
    · rw [if_neg he, div_zero_pow _ hidx]
  · rw [loop_none_arm n 0 e hidx, if_pos zero_facts.2.2.2]

/-- **zero significand:** `±0` for every exponent (`0e400`, `-0.000e-999`, …) -/
theorem f64FromParts_zero (positive : Bool) (e : Int) :
    f64FromParts positive 0 e = some (F64.zero (!positive)) := by
  obtain ⟨n, hn⟩ : ∃ n, fuelFor e = n + 1 := ⟨e.natAbs + 1, rfl⟩
  unfold f64FromParts
  rw [hn, ofU64_zero, loop_zero]
  cases positive <;> rfl


/-! ## Far underflow: two `/= 1e308` rounds flush any `u64` significand to zero -/

/-- a finite, non-negative pattern with zero magnitude bits is `+0` -/
theorem eq_zero_of_isZero (f : UInt64) (hs : F64.sign f = false) (hz : F64.isZero f = true) : f = 0 := by
  have h0 := (F64.isZero_iff f).1 hz
  unfold F64.absBits at h0
  unfold F64.sign at hs
  have := f.toNat_lt
  apply UInt64.toNat_inj.1
  have hs' : f.toNat / 2 ^ 63 ≠ 1 := by
    intro h; rw [h] at hs; cases hs
  show f.toNat = 0
  omega

/-- the quotient by `1e308`, in magnitudes: finite, non-negative, and at most twice the exact value -/
theorem div_big_bound (f : UInt64) (hf : F64.isFinite f = true) (hs : F64.sign f = false) :
    F64.isFinite (F64.div f (litPow10 308)) = true ∧ F64.sign (F64.div f (litPow10 308)) = false ∧
    F64.mag (F64.div f (litPow10 308)) * F64.mag (litPow10 308) ≤ 2 * (F64.mag f * 2 ^ 1074) := by
  obtain ⟨hp, hps, hpz, hpm⟩ := litPow10_facts 308 (by decide)
  obtain ⟨h1, h2⟩ := div_pow_finite f _ hf hs hp hps hpz hpm
  refine ⟨h1, h2, ?_⟩
  have hB : 0 < F64.mag (litPow10 308) := by have := two_pow_pos' 1074; omega
  rw [F64.div_finite f _ hf hp hpz, hs, hps]
  rcases roundOrInf_cases (false != false) (F64.mag f) (F64.mag (litPow10 308)) hB with
    ⟨_, hr, _, _⟩ | ⟨hov, hinf⟩
  · obtain ⟨hu, hrr⟩ := roundNE64_some _ _ _ _ hr
    rw [hrr, bits64_mag _ _ hu]
    exact roundMag_le_twice b64 _ _ hB
  · -- impossible (already excluded in `div_pow_finite`), but harmless: use finiteness
    rw [F64.div_finite f _ hf hp hpz, hs, hps, hinf] at h1
    rw [F64.inf_not_finite] at h1; cases h1

theorem tiny_num : 8 * (2 ^ 64 * 2 ^ 1074) * 2 ^ 1074 * 2 ^ 1074
    ≤ F64.mag (litPow10 308) * F64.mag (litPow10 308) := by decide +kernel

/-- **far underflow:** for `exponent < -616` every `u64` significand gives `±0` -/
theorem f64FromParts_far_underflow (positive : Bool) (s : Nat) (e : Int) (hs : s < 2 ^ 64)
    (he : e < -616) : f64FromParts positive s e = some (F64.zero (!positive)) := by
  rcases Nat.eq_zero_or_pos s with h0 | hs1
  · subst h0; exact f64FromParts_zero positive e
  obtain ⟨n, hn⟩ : ∃ n, fuelFor e = n + 1 + 1 + 1 := ⟨e.natAbs - 1, by unfold fuelFor; omega⟩
  have hbig : Gen.fromPartsBigExp = 308 := rfl
  have hstep : (Gen.fromPartsStep : Int) = 308 := rfl
  have hidx : ∀ x : Int, x < -308 → ¬ wrappingAbsUsize x < 309 := by
    intro x hx; unfold wrappingAbsUsize i32Min; split <;> omega
  obtain ⟨_, hf0, hs0⟩ := F64.ofU64_finite s hs
  obtain ⟨hf1, hs1', hb1⟩ := div_big_bound _ hf0 hs0
  obtain ⟨hf2, hs2, hb2⟩ := div_big_bound _ hf1 hs1'
  -- the second quotient is zero
  have hA0 : F64.mag (F64.ofU64 s) ≤ 2 * (2 ^ 64 * 2 ^ 1074) := by
    have := (ofU64_bounds s hs1 hs).1
    have h2 : (2 ^ 53 + 1) * (s * 2 ^ 1074) ≤ 2 ^ 53 * (2 * (2 ^ 64 * 2 ^ 1074)) := by
      have : s * 2 ^ 1074 ≤ 2 ^ 64 * 2 ^ 1074 := Nat.mul_le_mul_right _ (by omega)
      calc (2 ^ 53 + 1) * (s * 2 ^ 1074) ≤ (2 ^ 53 + 1) * (2 ^ 64 * 2 ^ 1074) := Nat.mul_le_mul_left _ this
        _ ≤ (2 * 2 ^ 53) * (2 ^ 64 * 2 ^ 1074) := Nat.mul_le_mul_right _ (by decide)
        _ = 2 ^ 53 * (2 * (2 ^ 64 * 2 ^ 1074)) := by ring
    exact Nat.le_of_mul_le_mul_left (Nat.le_trans this h2) (by decide)
  have hz2 : F64.div (F64.div (F64.ofU64 s) (litPow10 308)) (litPow10 308) = 0 := by
    obtain ⟨hp, hps, hpz, hpm⟩ := litPow10_facts 308 (by decide)
    have hB : 0 < F64.mag (litPow10 308) := by have := two_pow_pos' 1074; omega
    rw [F64.div_finite _ _ hf1 hp hpz, hs1', hps]
    have htiny := tiny_num
    have : 2 * (F64.mag (F64.div (F64.ofU64 s) (litPow10 308)) * 2 ^ 1074) ≤ F64.mag (litPow10 308) := by
      generalize F64.mag (F64.div (F64.ofU64 s) (litPow10 308)) = M1 at hb1 ⊢
      generalize F64.mag (F64.ofU64 s) = A0 at hb1 hA0
      generalize F64.mag (litPow10 308) = B at hb1 hB htiny ⊢
      generalize 2 ^ 64 * 2 ^ 1074 = K at hA0 htiny
      generalize 2 ^ 1074 = c at hb1 htiny ⊢
      have h1 : (2 * (M1 * c)) * B ≤ B * B := by
        calc (2 * (M1 * c)) * B = 2 * c * (M1 * B) := by ring
          _ ≤ 2 * c * (2 * (A0 * c)) := Nat.mul_le_mul_left _ hb1
          _ = 4 * c * c * A0 := by ring
          _ ≤ 4 * c * c * (2 * K) := Nat.mul_le_mul_left _ hA0
          _ = 8 * K * c * c := by ring
          _ ≤ B * B := htiny
      exact Nat.le_of_mul_le_mul_right h1 hB
    rw [roundOrInf_of_tiny _ _ _ hB this]; rfl
  unfold f64FromParts
  rw [hn, loop_none_arm _ _ e (hidx e (by omega)), ofU64_not_zero s hs1 hs]
  simp only [Bool.false_eq_true, if_false]
  rw [if_neg (by omega), hbig, hstep, loop_none_arm _ _ _ (hidx _ (by omega))]
  by_cases hz1 : F64.isZero (F64.div (F64.ofU64 s) (litPow10 308)) = true
  · rw [if_pos hz1, eq_zero_of_isZero _ hs1' hz1]
    cases positive <;> rfl
  · rw [if_neg hz1, if_neg (by omega), hbig, hz2, loop_zero]
    cases positive <;> rfl


/-! ## Near underflow: one `/= 1e308` round, then a table division -/

theorem near_num : 10 * 2 ^ 53 * (2 ^ 53 + 1) ^ 2 + 4 * 2 ^ 105 * (2 ^ 53 + 1) ≤ 20 * 2 ^ 53 * (2 ^ 53 - 1) ^ 2 := by
  decide

/-- if `s·c/(t8·tj) ≤ 1/4` then the twice-rounded quotient `M/(Bj/c)` is at most `1/2` -/
theorem near_chain (M A B8 Bj s c t8 tj : Nat) (hB8 : 0 < B8)
    (hU : 2 ^ 53 * (M * B8) ≤ (2 ^ 53 + 1) * (A * c) + 2 ^ 52 * B8)
    (hA : 2 ^ 53 * A ≤ (2 ^ 53 + 1) * (s * c))
    (hB8u : 2 ^ 53 * B8 ≤ (2 ^ 53 + 1) * (t8 * c)) (hB8l : (2 ^ 53 - 1) * (t8 * c) ≤ 2 ^ 53 * B8)
    (hBjl : (2 ^ 53 - 1) * (tj * c) ≤ 2 ^ 53 * Bj)
    (hx : 4 * (s * c) ≤ t8 * tj) (hj : 10 * t8 ≤ t8 * tj) : 2 * (M * c) ≤ Bj := by
  have hK : 0 < 20 * 2 ^ 159 * B8 := Nat.mul_pos (by decide) hB8
  apply Nat.le_of_mul_le_mul_left _ hK
  have s2 : 40 * 2 ^ 106 * (2 ^ 53 + 1) * (c * c) * A ≤ 10 * 2 ^ 53 * (2 ^ 53 + 1) ^ 2 * (c * c) * (t8 * tj) := by
    calc 40 * 2 ^ 106 * (2 ^ 53 + 1) * (c * c) * A
        = 40 * 2 ^ 53 * (2 ^ 53 + 1) * (c * c) * (2 ^ 53 * A) := by ring
      _ ≤ 40 * 2 ^ 53 * (2 ^ 53 + 1) * (c * c) * ((2 ^ 53 + 1) * (s * c)) := Nat.mul_le_mul_left _ hA
      _ = 10 * 2 ^ 53 * (2 ^ 53 + 1) ^ 2 * (c * c) * (4 * (s * c)) := by ring
      _ ≤ 10 * 2 ^ 53 * (2 ^ 53 + 1) ^ 2 * (c * c) * (t8 * tj) := Nat.mul_le_mul_left _ hx
  have s3 : 40 * 2 ^ 158 * c * B8 ≤ 4 * 2 ^ 105 * (2 ^ 53 + 1) * (c * c) * (t8 * tj) := by
    calc 40 * 2 ^ 158 * c * B8 = 40 * 2 ^ 105 * c * (2 ^ 53 * B8) := by ring
      _ ≤ 40 * 2 ^ 105 * c * ((2 ^ 53 + 1) * (t8 * c)) := Nat.mul_le_mul_left _ hB8u
      _ = 4 * 2 ^ 105 * (2 ^ 53 + 1) * (c * c) * (10 * t8) := by ring
      _ ≤ 4 * 2 ^ 105 * (2 ^ 53 + 1) * (c * c) * (t8 * tj) := Nat.mul_le_mul_left _ hj
  have s4 : 20 * 2 ^ 53 * (2 ^ 53 - 1) ^ 2 * (c * c) * (t8 * tj) ≤ 20 * 2 ^ 159 * B8 * Bj := by
    calc 20 * 2 ^ 53 * (2 ^ 53 - 1) ^ 2 * (c * c) * (t8 * tj)
        = 20 * 2 ^ 53 * (((2 ^ 53 - 1) * (t8 * c)) * ((2 ^ 53 - 1) * (tj * c))) := by ring
      _ ≤ 20 * 2 ^ 53 * ((2 ^ 53 * B8) * (2 ^ 53 * Bj)) :=
          Nat.mul_le_mul_left _ (Nat.mul_le_mul hB8l hBjl)
      _ = 20 * 2 ^ 159 * B8 * Bj := by ring
  calc 20 * 2 ^ 159 * B8 * (2 * (M * c)) = 40 * 2 ^ 106 * c * (2 ^ 53 * (M * B8)) := by ring
    _ ≤ 40 * 2 ^ 106 * c * ((2 ^ 53 + 1) * (A * c) + 2 ^ 52 * B8) := Nat.mul_le_mul_left _ hU
    _ = 40 * 2 ^ 106 * (2 ^ 53 + 1) * (c * c) * A + 40 * 2 ^ 158 * c * B8 := by ring
    _ ≤ 10 * 2 ^ 53 * (2 ^ 53 + 1) ^ 2 * (c * c) * (t8 * tj)
          + 4 * 2 ^ 105 * (2 ^ 53 + 1) * (c * c) * (t8 * tj) := Nat.add_le_add s2 s3
    _ = (10 * 2 ^ 53 * (2 ^ 53 + 1) ^ 2 + 4 * 2 ^ 105 * (2 ^ 53 + 1)) * ((c * c) * (t8 * tj)) := by ring
    _ ≤ (20 * 2 ^ 53 * (2 ^ 53 - 1) ^ 2) * ((c * c) * (t8 * tj)) := Nat.mul_le_mul_right _ near_num
    _ = 20 * 2 ^ 53 * (2 ^ 53 - 1) ^ 2 * (c * c) * (t8 * tj) := by ring
    _ ≤ 20 * 2 ^ 159 * B8 * Bj := s4


/-- **near underflow:** `-616 ≤ exponent ≤ -309` and an exact value of at most `2^-1076` (a quarter of
    the least subnormal) give `±0` -/
theorem f64FromParts_near_underflow (positive : Bool) (s : Nat) (e : Int) (hs1 : 1 ≤ s) (hs : s < 2 ^ 64)
    (he1 : -616 ≤ e) (he2 : e ≤ -309) (hx : s * 2 ^ 1076 ≤ 10 ^ e.natAbs) :
    f64FromParts positive s e = some (F64.zero (!positive)) := by
  obtain ⟨n, hn⟩ : ∃ n, fuelFor e = n + 1 + 1 := ⟨e.natAbs, rfl⟩
  have hbig : Gen.fromPartsBigExp = 308 := rfl
  have hstep : (Gen.fromPartsStep : Int) = 308 := rfl
  have hidx : ¬ wrappingAbsUsize e < 309 := by
    unfold wrappingAbsUsize i32Min; split <;> omega
  obtain ⟨j, hj⟩ : ∃ j : Nat, e + 308 = -(j : Int) ∧ 1 ≤ j ∧ j ≤ 308 := ⟨(e + 308).natAbs, by omega⟩
  have hidx' : wrappingAbsUsize (e + 308) = j := by
    rw [wrappingAbsUsize_small _ (by omega) (by omega)]; omega
  have hejn : e.natAbs = 308 + j := by omega
  obtain ⟨_, hf0, hs0⟩ := F64.ofU64_finite s hs
  obtain ⟨hp8, hps8, hpz8, hpm8⟩ := litPow10_facts 308 (by decide)
  obtain ⟨hpj, hpsj, hpzj, hpmj⟩ := litPow10_facts j (by omega)
  obtain ⟨hf1, hs1'⟩ := div_pow_finite _ _ hf0 hs0 hp8 hps8 hpz8 hpm8
  have hB8 : 0 < F64.mag (litPow10 308) := by have := two_pow_pos' 1074; omega
  have hBj : 0 < F64.mag (litPow10 j) := by have := two_pow_pos' 1074; omega
  -- magnitude of the first quotient
  have hU : 2 ^ 53 * (F64.mag (F64.div (F64.ofU64 s) (litPow10 308)) * F64.mag (litPow10 308)) ≤
      (2 ^ 53 + 1) * (F64.mag (F64.ofU64 s) * 2 ^ 1074) + 2 ^ 52 * F64.mag (litPow10 308) := by
    have hdf := F64.div_finite _ _ hf0 hp8 hpz8
    rw [hs0, hps8] at hdf
    rcases roundOrInf_cases (false != false) (F64.mag (F64.ofU64 s)) (F64.mag (litPow10 308)) hB8 with
      ⟨_, hr, _, _⟩ | ⟨_, hinf⟩
    · obtain ⟨hu, hrr⟩ := roundNE64_some _ _ _ _ hr
      rw [hdf, hrr, bits64_mag _ _ hu]
      have := roundMag_upper b64 (F64.mag (F64.ofU64 s) * 2 ^ 1074) (F64.mag (litPow10 308)) hB8
      rw [b64_mbits] at this
      exact this
    · rw [hdf, hinf, F64.inf_not_finite] at hf1; cases hf1
  -- the second quotient is zero
  have hz : F64.div (F64.div (F64.ofU64 s) (litPow10 308)) (litPow10 j) = 0 := by
    rw [F64.div_finite _ _ hf1 hpj hpzj, hs1', hpsj]
    have hA := (ofU64_bounds s hs1 hs).1
    obtain ⟨hB8u, hB8l⟩ := litPow10_rel 308 (by decide)
    obtain ⟨_, hBjl⟩ := litPow10_rel j (by omega)
    have h10 : 10 ^ e.natAbs = 10 ^ 308 * 10 ^ j := by rw [hejn, Nat.pow_add]
    have hx' : 4 * (s * 2 ^ 1074) ≤ 10 ^ 308 * 10 ^ j := by
      rw [← h10]
      calc 4 * (s * 2 ^ 1074) = s * 2 ^ 1076 := by
            have : (2:Nat) ^ 1076 = 4 * 2 ^ 1074 := by
              rw [show (1076 : Nat) = 2 + 1074 from rfl, Nat.pow_add]
            rw [this]; ring
        _ ≤ 10 ^ e.natAbs := hx
    have hj10 : 10 * 10 ^ 308 ≤ 10 ^ 308 * 10 ^ j := by
      have : 10 ^ 1 ≤ 10 ^ j := Nat.pow_le_pow_right (by decide) hj.2.1
      calc 10 * 10 ^ 308 = 10 ^ 308 * 10 ^ 1 := by ring
        _ ≤ 10 ^ 308 * 10 ^ j := Nat.mul_le_mul_left _ this
    have hc := near_chain _ _ _ _ s (2 ^ 1074) (10 ^ 308) (10 ^ j) hB8 hU hA hB8u hB8l hBjl hx' hj10
    rw [roundOrInf_of_tiny _ _ _ hBj hc]; rfl
  unfold f64FromParts
  rw [hn, loop_none_arm _ _ e hidx, ofU64_not_zero s hs1 hs]
  simp only [Bool.false_eq_true, if_false]
  rw [if_neg (by omega), hbig, hstep, loop_some_arm _ _ _ (by rw [hidx']; omega), if_neg (by omega), hidx', hz]
  cases positive <;> rfl

/-- **Underflow, all exponents:** an exact value `s·10^e ≤ 2^-1076` (a quarter of the least subnormal)
    is deserialised to `±0` -/
theorem f64FromParts_underflow (positive : Bool) (s : Nat) (e : Int) (hs : s < 2 ^ 64) (he : e < 0)
    (hx : s * 2 ^ 1076 ≤ 10 ^ e.natAbs) : f64FromParts positive s e = some (F64.zero (!positive)) := by
  rcases Nat.eq_zero_or_pos s with h0 | hs1
  · subst h0; exact f64FromParts_zero positive e
  rcases Int.lt_or_le e (-616) with h1 | h1
  · exact f64FromParts_far_underflow positive s e hs h1
  rcases Int.lt_or_le (-309) e with h2 | h2
  · -- |e| ≤ 308: s·2^1076 ≥ 2^1076 > 10^308 ≥ 10^|e|, contradiction
    exfalso
    have h3 : 10 ^ e.natAbs ≤ 10 ^ 308 := Nat.pow_le_pow_right (by decide) (by omega)
    have h4 : (10:Nat) ^ 308 < 2 ^ 1076 := by decide +kernel
    have h5 : 1 * 2 ^ 1076 ≤ s * 2 ^ 1076 := Nat.mul_le_mul_right _ hs1
    omega
  · exact f64FromParts_near_underflow positive s e hs1 hs h1 h2 hx

end SJ.Proofs.FloatDefault
