import SJ.Model.ReadEscape
import SJ.Proofs.ReadMach
import SJ.Proofs.Bytes256
import SJ.Proofs.Utf8Machine
/-!
# The generic free functions of `read.rs` against the byte-step machine

`Lawful ops A pos` is what the free functions may assume of a reader: `A r xs k p` reads "reader state `r` will
still deliver the bytes `xs` (a byte waiting in the peek slot included), has CONSUMED `k` bytes, and `p` says
whether a byte is waiting in the peek slot"; `pos r` is the index `read.position()` counts (a waiting byte
included: `k + 1` then). The laws are the behaviour of `next` / `peek` / `discard` / `decode_hex_escape` in those
terms; `Proofs/ReadSlice.lean` and `Proofs/ReadIo.lean` prove them of the two readers (two different proofs:
an index into a slice; three counters, a peek slot and a byte iterator).

`parseEscape_validate`, `ignoreEscape_spec`: from a lawful reader standing right after a backslash,
`parse_escape(read, true, scratch)` / `ignore_escape(read)` do exactly what the machine's `stepStr` does from
`esc = .bs` until it is back outside the escape — same bytes consumed, same scratch space, or the same error
code at the same index.
-/
namespace SJ.Proofs.ReadEscape
open SJ SJ.Gen SJ.Model.Machine SJ.Model.ReadEscape SJ.Proofs.ReadMach

/-! ## `push_wtf8_codepoint` is the specification's UTF-8 encoder (generalised to surrogates) -/

theorem and_mask (x k : Nat) : x &&& (2 ^ k - 1) = x % 2 ^ k := Nat.and_two_pow_sub_one_eq_mod x k

theorem or_const (x c k : Nat) (hx : x < 2 ^ k) (hc : c % 2 ^ k = 0) (hs : c + x < 256) :
    UInt8.ofNat x ||| UInt8.ofNat c = UInt8.ofNat (c + x) := by
  apply UInt8.toNat_inj.mp
  have hx' : x < 256 := by omega
  have hc' : c < 256 := by omega
  simp only [UInt8.toNat_or, UInt8.toNat_ofNat', Nat.mod_eq_of_lt hx', Nat.mod_eq_of_lt hc', Nat.mod_eq_of_lt hs]
  rw [Nat.or_comm]
  exact SJ.Proofs.Hex.nat_or_eq_add c x k hc hx

theorem pushWtf8_eq (n : Nat) (sc : Bytes) (h : n < 0x110000) :
    pushWtf8Codepoint n sc = sc ++ Spec.Denote.utf8 n := by
  unfold pushWtf8Codepoint Spec.Denote.utf8
  have e6 : n >>> 6 = n / 64 := Nat.shiftRight_eq_div_pow n 6
  have e12 : n >>> 12 = n / 4096 := Nat.shiftRight_eq_div_pow n 12
  have e18 : n >>> 18 = n / 262144 := Nat.shiftRight_eq_div_pow n 18
  have m6 : ∀ x, x &&& 0b00111111 = x % 64 := fun x => and_mask x 6
  have m5 : ∀ x, x &&& 0b00011111 = x % 32 := fun x => and_mask x 5
  have m4 : ∀ x, x &&& 0b00001111 = x % 16 := fun x => and_mask x 4
  have m3 : ∀ x, x &&& 0b00000111 = x % 8 := fun x => and_mask x 3
  have last : UInt8.ofNat (n &&& 0b00111111) ||| 0b10000000 = UInt8.ofNat (0x80 + n % 64) := by
    rw [m6]; exact or_const (n % 64) 0x80 6 (Nat.mod_lt _ (by decide)) (by decide) (by omega)
  by_cases h1 : n < 0x80
  · simp [h1]
  · simp only [h1, if_false, last]
    by_cases h2 : n ≤ 0x7FF
    · have h2' : n < 0x800 := by omega
      simp only [h2, h2', if_true, e6, m5]
      have : n / 64 % 32 = n / 64 := Nat.mod_eq_of_lt (by omega)
      rw [this, show (0b11000000 : UInt8) = UInt8.ofNat 0xC0 from rfl, or_const (n / 64) 0xC0 5 (by omega) (by decide) (by omega)]
    · have h2' : ¬ n < 0x800 := by omega
      simp only [h2, h2', if_false]
      by_cases h3 : n ≤ 0xFFFF
      · have h3' : n < 0x10000 := by omega
        simp only [h3, h3', if_true, e6, e12, m4, m6]
        have : n / 4096 % 16 = n / 4096 := Nat.mod_eq_of_lt (by omega)
        rw [this, show (0b11100000 : UInt8) = UInt8.ofNat 0xE0 from rfl, or_const (n / 4096) 0xE0 4 (by omega) (by decide) (by omega),
          show (0b10000000 : UInt8) = UInt8.ofNat 0x80 from rfl, or_const (n / 64 % 64) 0x80 6 (Nat.mod_lt _ (by decide)) (by decide) (by omega)]
      · have h3' : ¬ n < 0x10000 := by omega
        have h4 : n ≤ 0x10FFFF := by omega
        simp only [h3, h3', h4, if_false, if_true, e6, e12, e18, m3, m6]
        have : n / 262144 % 8 = n / 262144 := Nat.mod_eq_of_lt (by omega)
        rw [this, show (0b11110000 : UInt8) = UInt8.ofNat 0xF0 from rfl, or_const (n / 262144) 0xF0 3 (by omega) (by decide) (by omega),
          show (0b10000000 : UInt8) = UInt8.ofNat 0x80 from rfl, or_const (n / 4096 % 64) 0x80 6 (Nat.mod_lt _ (by decide)) (by decide) (by omega),
          or_const (n / 64 % 64) 0x80 6 (Nat.mod_lt _ (by decide)) (by decide) (by omega)]

/-- every encoding is non-empty -/
theorem utf8_ne_nil (n : Nat) : Spec.Denote.utf8 n ≠ [] := by
  unfold Spec.Denote.utf8; repeat' split
  all_goals simp

/-- the pair-combining expression of `parse_unicode_escape` is the arithmetic one -/
theorem pair_eq (n1 n2 : Nat) (h2 : 0xDC00 ≤ n2) (h2' : n2 ≤ 0xDFFF) :
    (((n1 - Gen.uniPairSubLead) <<< Gen.uniPairShift) ||| (n2 - Gen.uniPairSubTrail)) + Gen.uniPairBase =
      0x10000 + (n1 - 0xD800) * 0x400 + (n2 - 0xDC00) := by
  show (((n1 - 0xD800) <<< 10) ||| (n2 - 0xDC00)) + 0x10000 = _
  rw [Nat.shiftLeft_eq, SJ.Proofs.Hex.nat_or_eq_add _ _ 10 (by simp [Nat.mul_mod_left]) (by omega)]
  omega

/-! ## the extracted escape letters are the grammar's -/

theorem arms_spec (ch : UInt8) :
    (Gen.parseEscapeArms.find? (·.1 == ch)).map (·.2) =
      if Spec.Grammar.isSimpleEscape ch then some (Spec.Denote.simpleEscape ch) else none := by
  have : ∀ n : Nat, n < 256 → (Gen.parseEscapeArms.find? (·.1 == UInt8.ofNat n)).map (·.2) =
      if Spec.Grammar.isSimpleEscape (UInt8.ofNat n) then some (Spec.Denote.simpleEscape (UInt8.ofNat n)) else none := by
    decide +kernel
  simpa using this ch.toNat ch.toNat_lt

theorem ignoreLetters_spec (ch : UInt8) : Gen.ignoreEscapeLetters.contains ch = Spec.Grammar.isSimpleEscape ch := by
  have : ∀ n : Nat, n < 256 →
      Gen.ignoreEscapeLetters.contains (UInt8.ofNat n) = Spec.Grammar.isSimpleEscape (UInt8.ofNat n) := by
    decide +kernel
  simpa using this ch.toNat ch.toNat_lt

theorem uni_consts : Gen.parseEscapeUni = 0x75 ∧ Gen.ignoreEscapeUni = 0x75 ∧ Gen.uniExpectBackslash = 0x5c ∧
    Gen.uniExpectU = 0x75 ∧ Gen.uniFirstTrailLo = 0xDC00 ∧ Gen.uniFirstTrailHi = 0xDFFF ∧ Gen.uniLeadLo = 0xD800 ∧
    Gen.uniLeadHi = 0xDBFF ∧ Gen.uniTrailLo = 0xDC00 ∧ Gen.uniTrailHi = 0xDFFF :=
  ⟨rfl, rfl, rfl, rfl, rfl, rfl, rfl, rfl, rfl, rfl⟩

/-! ## what the free functions assume of a reader -/

structure Lawful {ρ : Type} (ops : ReadOps ρ) (A : ρ → Bytes → Nat → Bool → Prop) (pos : ρ → Nat) : Prop where
  /-- `position()` counts the consumed bytes and a byte waiting in the peek slot -/
  pos_eq : ∀ {r xs k p}, A r xs k p → pos r = k + (if p then 1 else 0)
  next_nil : ∀ {r k p}, A r [] k p → ∃ r', ops.next r = (none, r') ∧ A r' [] k false
  next_cons : ∀ {r b xs k p}, A r (b :: xs) k p → ∃ r', ops.next r = (some b, r') ∧ A r' xs (k + 1) false
  peek_nil : ∀ {r k}, A r [] k false → ∃ r', ops.peek r = (none, r') ∧ A r' [] k false
  /-- `peek()` leaves the byte to be delivered; `discard()` after it consumes it -/
  peek_cons : ∀ {r b xs k}, A r (b :: xs) k false →
    ∃ r' p', ops.peek r = (some b, r') ∧ A r' (b :: xs) k p' ∧ A (ops.discard r') xs (k + 1) false
  /-- fewer than four bytes left: `EofWhileParsingString` with everything consumed -/
  hex_eof : ∀ {r xs k}, A r xs k false → xs.length < 4 →
    ∃ r', ops.decodeHexEscape r = .err .EofWhileParsingString r' ∧ A r' [] (k + xs.length) false
  /-- four bytes left: they are consumed, then looked at -/
  hex_ok : ∀ {r a b c d xs k}, A r (a :: b :: c :: d :: xs) k false →
    ∃ r', A r' xs (k + 4) false ∧
      ops.decodeHexEscape r = (match Model.Hex.decodeFourHex a b c d with
        | some n => .ok n r'
        | none => .err .InvalidEscape r')

section generic
variable {ρ : Type} {ops : ReadOps ρ} {A : ρ → Bytes → Nat → Bool → Prop} {pos : ρ → Nat} (L : Lawful ops A pos)
include L

theorem pos_clean {r : ρ} {xs : Bytes} {k : Nat} (h : A r xs k false) : pos r = k := by
  simpa using L.pos_eq h

theorem nextOrEof_nil {r : ρ} {k : Nat} {p : Bool} (h : A r [] k p) :
    ∃ r', nextOrEof ops.next r = .err .EofWhileParsingString r' ∧ A r' [] k false := by
  obtain ⟨r', h1, h2⟩ := L.next_nil h
  exact ⟨r', by simp [nextOrEof, h1], h2⟩

theorem nextOrEof_cons {r : ρ} {b : UInt8} {xs : Bytes} {k : Nat} {p : Bool} (h : A r (b :: xs) k p) :
    ∃ r', nextOrEof ops.next r = .ok b r' ∧ A r' xs (k + 1) false := by
  obtain ⟨r', h1, h2⟩ := L.next_cons h
  exact ⟨r', by simp [nextOrEof, h1], h2⟩

theorem peekOrEof_nil {r : ρ} {k : Nat} (h : A r [] k false) :
    ∃ r', peekOrEof ops.peek r = .err .EofWhileParsingString r' ∧ A r' [] k false := by
  obtain ⟨r', h1, h2⟩ := L.peek_nil h
  exact ⟨r', by simp [peekOrEof, h1], h2⟩

theorem peekOrEof_cons {r : ρ} {b : UInt8} {xs : Bytes} {k : Nat} (h : A r (b :: xs) k false) :
    ∃ r' p', peekOrEof ops.peek r = .ok b r' ∧ A r' (b :: xs) k p' ∧ A (ops.discard r') xs (k + 1) false := by
  obtain ⟨r', p', h1, h2, h3⟩ := L.peek_cons h
  exact ⟨r', p', by simp [peekOrEof, h1], h2, h3⟩

end generic

/-! ## the escape functions against the machine -/

section escapes
variable {ρ : Type} {ops : ReadOps ρ} {A : ρ → Bytes → Nat → Bool → Prop} {pos : ρ → Nat} (L : Lawful ops A pos)
variable (env : Env) (stk : List Frame)
include L

/-- what one escape-level function of the reader does, against the machine: it succeeds with scratch space
    `sc` leaving the reader at `(xs', k')`, and the machine gets from `(st, k, xs)` to the state with that
    scratch space outside the escape; or it fails and so does the machine, same code, same index -/
def Agrees (res : Res Bytes ρ) (st : StrSt) (k : Nat) (xs : Bytes) : Prop :=
  (∃ sc r' xs' k', res = .ok sc r' ∧ A r' xs' k' false ∧ xs'.length < xs.length ∧ sc ≠ [] ∧
      strRun env stk st k xs = strRun env stk { st with out := sc.reverse, esc := .none } k' xs') ∨
  (∃ c r' xs' j, res = .err c r' ∧ A r' xs' j false ∧ strRun env stk st k xs = .err c j)

omit L in
theorem four_of_len (ws : Bytes) (h : ¬ ws.length < 4) : ∃ a b c d ys, ws = a :: b :: c :: d :: ys := by
  match ws, h with
  | a :: b :: c :: d :: ys, _ => exact ⟨a, b, c, d, ys, rfl⟩
  | [], h => simp at h
  | [_], h => simp at h
  | [_, _], h => simp at h
  | [_, _, _], h => simp at h

omit L in
theorem push_ne_nil (n : Nat) (sc : Bytes) (h : n < 0x110000) : pushWtf8Codepoint n sc ≠ [] := by
  rw [pushWtf8_eq n sc h]; simp [utf8_ne_nil]

omit L in
theorem push_reverse (n : Nat) (out : Bytes) (h : n < 0x110000) :
    (pushWtf8Codepoint n out.reverse).reverse = (Spec.Denote.utf8 n).reverse ++ out := by
  rw [pushWtf8_eq n _ h]; simp

theorem uniLoop_lead_validate (henv : env.tgt = .value) (fuel : Nat) {r : ρ} {xs : Bytes} {k : Nat}
    (hA : A r xs k false) (st : StrSt) (n : Nat) (hst : st.esc = .lead1 n) (hn1 : 0xD800 ≤ n) (hn2 : n ≤ 0xDBFF) :
    Agrees (A := A) env stk (uniLoop ops true (fuel + 1) n r st.out.reverse) st k xs := by
  have hlead : (decide (n < Gen.uniLeadLo) || decide (n > Gen.uniLeadHi)) = false := by
    simp [uni_consts]; omega
  unfold Agrees
  simp only [uniLoop, hlead, Bool.false_eq_true, if_false]
  match xs, hA with
  | [], hA =>
    obtain ⟨r', h1, hA1⟩ := peekOrEof_nil L hA
    refine .inr ⟨.EofWhileParsingString, r', _, _, by simp only [h1], hA1, ?_⟩
    rw [strRun_nil]
  | e :: zs, hA =>
    obtain ⟨r1, p1, h1, _, hA1⟩ := peekOrEof_cons L hA
    simp only [h1, uni_consts.2.2.1]
    by_cases he : e = 0x5c
    · subst he
      simp only [bne_self_eq_false, Bool.false_eq_true, if_false]
      rw [strRun_lead1 env stk st n hst]
      match zs, hA1 with
      | [], hA1 =>
        obtain ⟨r', h2, hA2⟩ := peekOrEof_nil L hA1
        refine .inr ⟨.EofWhileParsingString, r', _, _, by simp only [h2], hA2, ?_⟩
        rw [strRun_nil]
      | f :: ws, hA1 =>
        obtain ⟨r3, p3, h3, _, hA3⟩ := peekOrEof_cons L hA1
        simp only [h3, uni_consts.2.2.2.1]
        by_cases hf : f = 0x75
        · subst hf
          simp only [bne_self_eq_false, Bool.false_eq_true, if_false]
          rw [strRun_lead2 env stk _ n rfl]
          by_cases hl : ws.length < 4
          · obtain ⟨r', h4, hA4⟩ := L.hex_eof hA3 hl
            refine .inr ⟨.EofWhileParsingString, r', _, _, by simp only [h4], hA4, ?_⟩
            rw [strRun_hex_short env stk _ (some n) rfl _ ws hl]
          · obtain ⟨a, b, c, d, ys, rfl⟩ := four_of_len ws hl
            · 
              obtain ⟨r5, hA5, h5⟩ := L.hex_ok hA3
              rw [strRun_hex4 env stk _ (some n) rfl]
              cases hd : Model.Hex.decodeFourHex a b c d with
              | none =>
                rw [hd] at h5
                refine .inr ⟨.InvalidEscape, r5, _, _, by simp only [h5], hA5, ?_⟩
                rw [strRun_hex_bad env stk _ (some n) a b c d rfl _ _ (by rw [hex4_eq, hd])]
              | some n2 =>
                rw [hd] at h5
                simp only [h5, uni_consts]
                by_cases ht : n2 < 0xDC00 ∨ 0xDFFF < n2
                · have : (decide (n2 < 0xDC00) || decide (n2 > 0xDFFF)) = true := by simpa using ht
                  simp only [this, ↓reduceIte]
                  refine .inr ⟨_, r5, _, _, rfl, hA5, ?_⟩
                  rw [strRun_hex2_bad env stk henv _ n a b c d rfl _ _ n2 (by rw [hex4_eq, hd]) ht]
                · have : (decide (n2 < 0xDC00) || decide (n2 > 0xDFFF)) = false := by simpa using ht
                  simp only [this, Bool.false_eq_true, ↓reduceIte]
                  have hp := pair_eq n n2 (by omega) (by omega)
                  have hlt : 0x10000 + (n - 0xD800) * 0x400 + (n2 - 0xDC00) < 0x110000 := by omega
                  refine .inl ⟨_, r5, ys, _, rfl, hA5, by simp; omega, ?_, ?_⟩
                  · rw [hp]; exact push_ne_nil _ _ hlt
                  · rw [strRun_hex2_pair env stk henv _ n a b c d rfl _ _ n2 (by rw [hex4_eq, hd]) (by omega) (by omega)]
                    rw [hp, push_reverse _ _ hlt]
        · have : (f != 0x75) = true := by simpa using hf
          simp only [this, ↓reduceIte]
          refine .inr ⟨_, _, _, _, rfl, hA3, ?_⟩
          rw [strRun_lead2_bad env stk _ n rfl _ f ws hf]
    · have : (e != 0x5c) = true := by simpa using he
      simp only [this, ↓reduceIte]
      refine .inr ⟨_, _, _, _, rfl, hA1, ?_⟩
      rw [strRun_lead1_bad env stk st n hst k e zs he]

omit L in
/-- transport along machine steps taken before the function is entered -/
theorem Agrees.mono {res : Res Bytes ρ} {st st' : StrSt} {k k' : Nat} {xs xs' : Bytes}
    (h : Agrees (A := A) env stk res st' k' xs') (hrun : strRun env stk st k xs = strRun env stk st' k' xs')
    (hlen : xs'.length ≤ xs.length) (hk : st'.isKey = st.isKey) (he : st'.escaped = st.escaped) :
    Agrees (A := A) env stk res st k xs := by
  rcases h with ⟨sc, r', ys, j, h1, h2, h3, h4, h5⟩ | ⟨c, r', ys, j, h1, h2, h3⟩
  · refine .inl ⟨sc, r', ys, j, h1, h2, by omega, h4, ?_⟩
    rw [hrun, h5]
    obtain ⟨o, e, ik, es⟩ := st; obtain ⟨o', e', ik', es'⟩ := st'
    simp only at hk he; subst hk; subst he; rfl
  · exact .inr ⟨c, r', ys, j, h1, h2, by rw [hrun, h3]⟩

/-- **`parse_escape(read, validate = true, scratch)`** from right after the backslash -/
theorem parseEscape_validate (henv : env.tgt = .value) (fuel : Nat) {r : ρ} {xs : Bytes} {k : Nat}
    (hA : A r xs k false) (st : StrSt) (hst : st.esc = .bs) :
    Agrees (A := A) env stk (parseEscape ops true (fuel + 1) r st.out.reverse) st k xs := by
  unfold parseEscape parseEscapeWith
  match xs, hA with
  | [], hA =>
    obtain ⟨r', h1, hA1⟩ := nextOrEof_nil L hA
    refine .inr ⟨.EofWhileParsingString, r', _, _, by simp only [h1], hA1, ?_⟩
    rw [strRun_nil]
  | ch :: ys, hA =>
    obtain ⟨r1, h1, hA1⟩ := nextOrEof_cons L hA
    simp only [h1]
    have hspec := arms_spec ch
    cases hfind : Gen.parseEscapeArms.find? (·.1 == ch) with
    | some xy =>
      obtain ⟨x, y⟩ := xy
      rw [hfind] at hspec
      have hs : Spec.Grammar.isSimpleEscape ch = true := by
        cases h : Spec.Grammar.isSimpleEscape ch <;> simp_all
      simp only [hs, if_true, Option.map_some, Option.some.injEq] at hspec
      subst hspec
      refine .inl ⟨_, r1, ys, k + 1, rfl, hA1, by simp, by simp, ?_⟩
      rw [strRun_simple env stk st hst k ch ys hs]
      simp
    | none =>
      rw [hfind] at hspec
      have hs : Spec.Grammar.isSimpleEscape ch = false := by
        cases h : Spec.Grammar.isSimpleEscape ch <;> simp_all
      simp only [uni_consts.1]
      by_cases hu : ch = 0x75
      · subst hu
        simp only [beq_self_eq_true, if_true]
        unfold parseUnicodeEscape parseUnicodeEscapeWith
        have hrun0 := strRun_u env stk st hst k ys
        by_cases hl : ys.length < 4
        · obtain ⟨r', h4, hA4⟩ := L.hex_eof hA1 hl
          refine .inr ⟨.EofWhileParsingString, r', _, _, by simp only [h4], hA4, ?_⟩
          rw [hrun0, strRun_hex_short env stk _ none rfl _ ys hl]
        · obtain ⟨a, b, c, d, zs, rfl⟩ := four_of_len ys hl
          obtain ⟨r5, hA5, h5⟩ := L.hex_ok hA1
          have hrun1 := strRun_hex4 env stk { st with esc := .hex [] none } none rfl (k + 1) a b c d zs
          cases hd : Model.Hex.decodeFourHex a b c d with
          | none =>
            rw [hd] at h5
            refine .inr ⟨.InvalidEscape, r5, _, _, by simp only [h5], hA5, ?_⟩
            rw [hrun0, hrun1, strRun_hex_bad env stk _ none a b c d rfl _ _ (by rw [hex4_eq, hd])]
          | some n =>
            rw [hd] at h5
            have hh : hex4 [a, b, c, d] = some n := by rw [hex4_eq, hd]
            simp only [h5, uni_consts, Bool.true_and]
            by_cases ht : 0xDC00 ≤ n ∧ n ≤ 0xDFFF
            · have : (decide (n ≥ 0xDC00) && decide (n ≤ 0xDFFF)) = true := by simpa using ht
              simp only [this, ↓reduceIte]
              refine .inr ⟨_, r5, _, _, rfl, hA5, ?_⟩
              rw [hrun0, hrun1, strRun_hex_trail env stk henv _ a b c d rfl _ _ n hh ht.1 ht.2]
            · have : (decide (n ≥ 0xDC00) && decide (n ≤ 0xDFFF)) = false := by simpa using ht
              simp only [this, Bool.false_eq_true, ↓reduceIte]
              by_cases hle : 0xD800 ≤ n ∧ n ≤ 0xDBFF
              · have hstep := strRun_hex_lead env stk henv { st with esc := .hex [a, b, c] none } a b c d rfl (k + 1 + 3) zs n hh hle.1 hle.2
                have := uniLoop_lead_validate L env stk henv fuel hA5 { st with esc := .lead1 n } n rfl hle.1 hle.2
                refine Agrees.mono env stk this ?_ (by simp; omega) rfl rfl
                rw [hrun0, hrun1, hstep]
              · have hlt : n < 0x10000 := (Proofs.Utf8.hex4_ascii _ _ hh).2
                have hsc : (decide (n < Gen.uniLeadLo) || decide (n > Gen.uniLeadHi)) = true := by
                  simp [uni_consts]; omega
                simp only [uniLoop, hsc, if_true]
                refine .inl ⟨_, r5, zs, _, rfl, hA5, by simp; omega, push_ne_nil _ _ (by omega), ?_⟩
                rw [hrun0, hrun1, strRun_hex_scalar env stk henv _ a b c d rfl _ _ n hh (by omega), push_reverse _ _ (by omega)]
      · have : (ch == 0x75) = false := by simpa using hu
        simp only [this, Bool.false_eq_true, ↓reduceIte]
        refine .inr ⟨_, r1, _, _, rfl, hA1, ?_⟩
        rw [strRun_badEscape env stk st hst k ch ys hs hu]

/-- `ignore_escape` against the machine on skipped content (the machine's `out` is irrelevant there) -/
def AgreesI (res : Res Unit ρ) (st : StrSt) (k : Nat) (xs : Bytes) : Prop :=
  (∃ r' xs' k' st', res = .ok () r' ∧ A r' xs' k' false ∧ xs'.length < xs.length ∧ st'.esc = .none ∧
      strRun env stk st k xs = strRun env stk st' k' xs') ∨
  (∃ c r' xs' j, res = .err c r' ∧ A r' xs' j false ∧ strRun env stk st k xs = .err c j)

/-- **`ignore_escape(read)`** from right after the backslash -/
theorem ignoreEscape_spec (henv : env.tgt = .ignored) {r : ρ} {xs : Bytes} {k : Nat}
    (hA : A r xs k false) (st : StrSt) (hst : st.esc = .bs) :
    AgreesI (A := A) env stk (ignoreEscape ops r) st k xs := by
  unfold AgreesI ignoreEscape
  match xs, hA with
  | [], hA =>
    obtain ⟨r', h1, hA1⟩ := nextOrEof_nil L hA
    refine .inr ⟨.EofWhileParsingString, r', _, _, by simp only [h1], hA1, ?_⟩
    rw [strRun_nil]
  | ch :: ys, hA =>
    obtain ⟨r1, h1, hA1⟩ := nextOrEof_cons L hA
    simp only [h1, ignoreLetters_spec, uni_consts.2.1]
    cases hs : Spec.Grammar.isSimpleEscape ch with
    | true =>
      simp only [if_true]
      exact .inl ⟨r1, ys, k + 1, _, rfl, hA1, by simp, rfl, strRun_simple env stk st hst k ch ys hs⟩
    | false =>
      simp only [Bool.false_eq_true, if_false]
      by_cases hu : ch = 0x75
      · subst hu
        simp only [beq_self_eq_true, if_true]
        have hrun0 := strRun_u env stk st hst k ys
        by_cases hl : ys.length < 4
        · obtain ⟨r', h4, hA4⟩ := L.hex_eof hA1 hl
          refine .inr ⟨.EofWhileParsingString, r', _, _, by simp only [h4], hA4, ?_⟩
          rw [hrun0, strRun_hex_short env stk _ none rfl _ ys hl]
        · obtain ⟨a, b, c, d, zs, rfl⟩ := four_of_len ys hl
          obtain ⟨r5, hA5, h5⟩ := L.hex_ok hA1
          have hrun1 := strRun_hex4 env stk { st with esc := .hex [] none } none rfl (k + 1) a b c d zs
          cases hd : Model.Hex.decodeFourHex a b c d with
          | none =>
            rw [hd] at h5
            refine .inr ⟨.InvalidEscape, r5, _, _, by simp only [h5], hA5, ?_⟩
            rw [hrun0, hrun1, strRun_hex_bad env stk _ none a b c d rfl _ _ (by rw [hex4_eq, hd])]
          | some n =>
            rw [hd] at h5
            have hh : hex4 [a, b, c, d] = some n := by rw [hex4_eq, hd]
            simp only [h5]
            refine .inl ⟨r5, zs, _, { st with esc := .none }, rfl, hA5, by simp; omega, rfl, ?_⟩
            rw [hrun0, hrun1, strRun_hex_ignored env stk henv _ none a b c d rfl _ _ n hh]
      · have : (ch == 0x75) = false := by simpa using hu
        simp only [this, Bool.false_eq_true, ↓reduceIte]
        refine .inr ⟨_, r1, _, _, rfl, hA1, ?_⟩
        rw [strRun_badEscape env stk st hst k ch ys hs hu]

end escapes

end SJ.Proofs.ReadEscape
