import SJ.Proofs.LexRound
/-!
# C07 moderate path, part 1: `ExtendedFloat::mul` is the rounded 128-bit product

`mul` (`float.rs`) assembles the high 64 bits of the 128-bit product of the two mantissas from four 32×32
partial products, after adding `1 << 63` ("round up"): `mant = ⌊(a·b + 2^63) / 2^64⌋`, so the returned mantissa is
within half a unit of `a·b / 2^64`; the `u64` arithmetic never wraps.
-/
namespace SJ.Proofs.LexModerateMul
open SJ SJ.Gen SJ.Model.Lexical SJ.Proofs.LexRound

/-- the arithmetic identity behind the partial-product scheme -/
theorem partial_products (ah al bh bl : Nat) (hal : al < 2 ^ 32) (hbl : bl < 2 ^ 32) :
    ah * bh + ah * bl / 2 ^ 32 + al * bh / 2 ^ 32 +
        (ah * bl % 2 ^ 32 + al * bh % 2 ^ 32 + al * bl / 2 ^ 32 + 2 ^ 31) / 2 ^ 32 =
      ((ah * 2 ^ 32 + al) * (bh * 2 ^ 32 + bl) + 2 ^ 63) / 2 ^ 64 := by
  have e : (ah * 2 ^ 32 + al) * (bh * 2 ^ 32 + bl) =
      ah * bh * 2 ^ 64 + (ah * bl + al * bh) * 2 ^ 32 + al * bl := by ring
  rw [e]
  have hz : al * bl < 2 ^ 64 := by
    calc al * bl < 2 ^ 32 * 2 ^ 32 := Nat.mul_lt_mul'' hal hbl
      _ = 2 ^ 64 := by norm_num
  generalize ah * bh = W
  generalize ah * bl = X
  generalize al * bh = Y
  generalize al * bl = Z at hz ⊢
  omega

theorem mul_eq (a b : ExtFloat) (ha : a.mant < 2 ^ 64) (hb : b.mant < 2 ^ 64) :
    mul a b = { mant := (a.mant * b.mant + 2 ^ 63) / 2 ^ 64, exp := a.exp + b.exp + 64 } := by
  have hc := SJ.Proofs.LexTables.misc_consts
  have hlo : u64Lomask = 2 ^ 32 - 1 := by rw [hc.2.1]; norm_num
  have hhalf : u64Half = 32 := hc.2.2.2.1
  have hfull : u64Full = 64 := hc.2.2.1
  unfold mul
  simp only [hlo, hhalf, hfull, Nat.and_two_pow_sub_one_eq_mod, Nat.shiftRight_eq_div_pow, Nat.one_shiftLeft]
  have hA := Nat.div_add_mod a.mant (2 ^ 32)
  have hB := Nat.div_add_mod b.mant (2 ^ 32)
  have hal := Nat.mod_lt a.mant (show 0 < 2 ^ 32 by norm_num)
  have hbl := Nat.mod_lt b.mant (show 0 < 2 ^ 32 by norm_num)
  have key := partial_products (a.mant / 2 ^ 32) (a.mant % 2 ^ 32) (b.mant / 2 ^ 32) (b.mant % 2 ^ 32) hal hbl
  have eA : a.mant / 2 ^ 32 * 2 ^ 32 + a.mant % 2 ^ 32 = a.mant := by rw [Nat.mul_comm]; exact hA
  have eB : b.mant / 2 ^ 32 * 2 ^ 32 + b.mant % 2 ^ 32 = b.mant := by rw [Nat.mul_comm]; exact hB
  rw [eA, eB] at key
  have hlt : (a.mant * b.mant + 2 ^ 63) / 2 ^ 64 < 2 ^ 64 := by
    rw [Nat.div_lt_iff_lt_mul (by norm_num)]
    have : a.mant * b.mant ≤ (2 ^ 64 - 1) * (2 ^ 64 - 1) := Nat.mul_le_mul (by omega) (by omega)
    have e : (2 ^ 64 - 1) * (2 ^ 64 - 1) + 2 ^ 63 < 2 ^ 64 * 2 ^ 64 := by norm_num
    omega
  congr 1
  · show u64 _ = _
    have e31 : (32 : Nat) - 1 = 31 := rfl
    rw [e31, key]
    exact u64_of_lt hlt

/-- `2·|mant·2^64 − a·b| ≤ 2^64` and the result stays below `2^64` -/
theorem mul_bounds (x y : Nat) (hx : x < 2 ^ 64) (hy : y < 2 ^ 64) :
    2 * ((x * y + 2 ^ 63) / 2 ^ 64 * 2 ^ 64) ≤ 2 * (x * y) + 2 ^ 64 ∧
    2 * (x * y) < 2 * ((x * y + 2 ^ 63) / 2 ^ 64 * 2 ^ 64) + 2 ^ 64 ∧
    (x * y + 2 ^ 63) / 2 ^ 64 < 2 ^ 64 := by
  have h := Nat.div_add_mod (x * y + 2 ^ 63) (2 ^ 64)
  have hr := Nat.mod_lt (x * y + 2 ^ 63) (show 0 < 2 ^ 64 by norm_num)
  have hlt : (x * y + 2 ^ 63) / 2 ^ 64 < 2 ^ 64 := by
    rw [Nat.div_lt_iff_lt_mul (by norm_num)]
    have : x * y ≤ (2 ^ 64 - 1) * (2 ^ 64 - 1) := Nat.mul_le_mul (by omega) (by omega)
    have e : (2 ^ 64 - 1) * (2 ^ 64 - 1) + 2 ^ 63 < 2 ^ 64 * 2 ^ 64 := by norm_num
    omega
  generalize x * y = p at *
  refine ⟨by omega, by omega, hlt⟩

/-- the product of two mantissas with their top bits set keeps (almost) its top bit -/
theorem mul_lower (x y n : Nat) (hx : 2 ^ n ≤ x) (hy : 2 ^ 63 ≤ y) (hn : 1 ≤ n) :
    2 ^ (n - 1) ≤ (x * y + 2 ^ 63) / 2 ^ 64 := by
  rw [Nat.le_div_iff_mul_le (Nat.two_pow_pos 64)]
  have h1 : 2 ^ n * 2 ^ 63 ≤ x * y := Nat.mul_le_mul hx hy
  obtain ⟨k, rfl⟩ : ∃ k, n = k + 1 := ⟨n - 1, by omega⟩
  rw [Nat.add_sub_cancel]
  rw [Nat.pow_succ] at h1
  generalize 2 ^ k = a at h1 ⊢
  generalize x * y = p at h1 ⊢
  have e1 : a * 2 * 2 ^ 63 = a * 2 ^ 64 := by rw [Nat.mul_assoc]; rfl
  rw [e1] at h1
  exact Nat.le_trans h1 (Nat.le_add_right _ _)

end SJ.Proofs.LexModerateMul
