import SJ.Proofs.NumberAp
import SJ.Proofs.PartialEq
import SJ.Model.PartialEqAp
import SJ.Spec.PrimEqAp
/-!
# `Value == primitive` under `arbitrary_precision`: helper lemmas for `c18_partial_eq_ap`
-/
set_option linter.unusedSimpArgs false
namespace SJ.Proofs.NumberApEq
open SJ SJ.Spec.Decimal SJ.Spec.NumberAcc SJ.Spec.PrimEq SJ.Spec.PrimEqAp SJ.Model.PartialEq SJ.Model.NumberAp
open SJ.Spec.Grammar (NumParts IsNumber)
open SJ.Proofs.NumLinkParser (litOf parse_bytes)
open SJ.Proofs.PartialEq (wrapI64_id wrapU64_id)

theorem inRange_iff (w : IntTy) (x : Int) : w.inRange x = true ↔ w.lo ≤ x ∧ x ≤ w.hi := by
  unfold IntTy.inRange
  simp only [Bool.and_eq_true, decide_eq_true_eq]

/-- an accessor answering `Some(x)` = the literal is an integer literal worth `x` (sign allowed per signedness) -/
theorem accInt_holds (w : IntTy) (x : Int) (hx : w.inRange x = true) (l : NumLit) :
    (match accInt w l with | some a => decide (a = x) | none => false) = holdsIntLit w.signed x l := by
  unfold accInt holdsIntLit
  cases hil : isIntLit l with
  | false => rfl
  | true =>
    simp only [Bool.not_true, Bool.false_eq_true, if_false, Bool.true_and]
    cases hn : l.neg <;> cases hs : w.signed <;>
      simp only [Bool.not_true, Bool.not_false, Bool.and_true, Bool.and_false, Bool.false_and, Bool.true_and,
        Bool.false_eq_true, if_false, if_true, Bool.or_false, Bool.or_true, Bool.false_or, Bool.true_or]
    all_goals first
      | rfl
      | (by_cases hr : w.inRange (intVal l) = true
         · simp only [hr, if_true]
           by_cases he : intVal l = x <;> simp [he]
         · simp only [hr, Bool.false_eq_true, if_false]
           have : ¬ intVal l = x := by intro he; rw [he] at hr; exact hr hx
           simp [this])

theorem wf_number {s : Bytes} (h : Spec.Number.isNumber s = true) : ∃ p : NumParts, p.WF = true ∧ p.bytes = s :=
  (SJ.Proofs.Number.isNumber_iff s).1 h

theorem i64_range (x : Int) (h1 : -9223372036854775808 ≤ x) (h2 : x ≤ 9223372036854775807) : IntTy.inRange .i64 x = true := by
  rw [inRange_iff]; exact ⟨by simpa [IntTy.lo, IntTy.signed, IntTy.bits] using h1, by simpa [IntTy.hi, IntTy.signed, IntTy.bits] using h2⟩

theorem u64_range (x : Int) (h1 : 0 ≤ x) (h2 : x ≤ 18446744073709551615) : IntTy.inRange .u64 x = true := by
  rw [inRange_iff]; exact ⟨by simpa [IntTy.lo, IntTy.signed, IntTy.bits] using h1, by simpa [IntTy.hi, IntTy.signed, IntTy.bits] using h2⟩

/-- `eq_i64` with string-backed numbers -/
theorem eqFn_i64 (x : Int) (h1 : -9223372036854775808 ≤ x) (h2 : x ≤ 9223372036854775807) (v : JV)
    (hv : Spec.PrimEqAp.wfValue v = true) :
    Model.PartialEqAp.eqFn .eq_i64 (.int x) v = Spec.PrimEqAp.holdsInt true x v := by
  simp only [Model.PartialEqAp.eqFn, Gen.eqFnParam, Gen.eqFnAccessor, castTo, wrapI64_id x h1 h2]
  cases v with
  | num n =>
    cases n with
    | lit s =>
      obtain ⟨p, hwf, rfl⟩ := wf_number hv
      have ha : asI64 p.bytes = accInt .i64 (litOf p) := SJ.Proofs.NumberAp.parseInt_bytes .i64 p hwf
      have := accInt_holds .i64 x (i64_range x h1 h2) (litOf p)
      simp only [IntTy.signed] at this
      simp only [Model.PartialEqAp.accessor, textOf, Model.FromValue.litOf, Option.bind_some, ha,
        Spec.PrimEqAp.holdsInt, litOfValue, parse_bytes p hwf]
      rw [← this]
      cases accInt .i64 (litOf p) <;> rfl
    | pos k => simp [Spec.PrimEqAp.wfValue] at hv
    | neg k => simp [Spec.PrimEqAp.wfValue] at hv
    | float b => simp [Spec.PrimEqAp.wfValue] at hv
  | null => rfl
  | bool _ => rfl
  | str _ => rfl
  | arr _ => rfl
  | obj _ => rfl

/-- `eq_u64` with string-backed numbers -/
theorem eqFn_u64 (x : Int) (h1 : 0 ≤ x) (h2 : x ≤ 18446744073709551615) (v : JV)
    (hv : Spec.PrimEqAp.wfValue v = true) :
    Model.PartialEqAp.eqFn .eq_u64 (.int x) v = Spec.PrimEqAp.holdsInt false x v := by
  simp only [Model.PartialEqAp.eqFn, Gen.eqFnParam, Gen.eqFnAccessor, castTo, wrapU64_id x h1 h2]
  cases v with
  | num n =>
    cases n with
    | lit s =>
      obtain ⟨p, hwf, rfl⟩ := wf_number hv
      have ha : asU64 p.bytes = accInt .u64 (litOf p) := SJ.Proofs.NumberAp.parseInt_bytes .u64 p hwf
      have := accInt_holds .u64 x (u64_range x h1 h2) (litOf p)
      simp only [IntTy.signed] at this
      simp only [Model.PartialEqAp.accessor, textOf, Model.FromValue.litOf, Option.bind_some, ha,
        Spec.PrimEqAp.holdsInt, litOfValue, parse_bytes p hwf]
      rw [← this]
      cases accInt .u64 (litOf p) <;> rfl
    | pos k => simp [Spec.PrimEqAp.wfValue] at hv
    | neg k => simp [Spec.PrimEqAp.wfValue] at hv
    | float b => simp [Spec.PrimEqAp.wfValue] at hv
  | null => rfl
  | bool _ => rfl
  | str _ => rfl
  | arr _ => rfl
  | obj _ => rfl

/-! ### floats. Kernel note: nothing here may make the kernel compare two terms one of which is a `match` on
`nearestF64 …` (its weak-head normal form unfolds `roundNE64` on an open term): the accessor's `Option` is
abstracted by `core64` while it is still `asF64 p.bytes`, and only then rewritten. -/

theorem core64 (o : Option UInt64) (b : UInt64) :
    (match o.map Casted.f64 with
     | some a => castedEq a (Casted.f64 b)
     | none => false) = eqOpt64 o b := by
  cases o <;> rfl

theorem core32 (o : Option UInt32) (b : UInt32) :
    (match o.map Casted.f32 with
     | some a => castedEq a (Casted.f32 b)
     | none => false) = eqOpt32 o b := by
  cases o <;> rfl

theorem hacc64 (s : Bytes) : Model.PartialEqAp.accessor .as_f64 (.num (.lit s)) = (asF64 s).map .f64 := rfl
theorem hacc32 (s : Bytes) : Model.PartialEqAp.accessor .as_f32 (.num (.lit s)) = (asF32 s).map .f32 := rfl

theorem holdsF64_lit (b : UInt64) (v : JV) (l : NumLit) (h : litOfValue v = some l) :
    Spec.PrimEqAp.holdsF64 b v = eqOpt64 (nearestF64 l) b := by
  unfold Spec.PrimEqAp.holdsF64; rw [h]

theorem holdsF32_lit (b : UInt32) (v : JV) (l : NumLit) (h : litOfValue v = some l) :
    Spec.PrimEqAp.holdsF32 b v = eqOpt32 (nearestF32 l) b := by
  unfold Spec.PrimEqAp.holdsF32; rw [h]

theorem eqFn_f64_unfold (b : UInt64) (v : JV) :
    Model.PartialEqAp.eqFn .eq_f64 (.f64 b) v =
      (match Model.PartialEqAp.accessor .as_f64 v with
       | some a => castedEq a (Casted.f64 b)
       | none => false) := rfl

theorem eqFn_f32_unfold (b : UInt32) (v : JV) :
    Model.PartialEqAp.eqFn .eq_f32 (.f32 b) v =
      (match Model.PartialEqAp.accessor .as_f32 v with
       | some a => castedEq a (Casted.f32 b)
       | none => false) := rfl

/-- `eq_f64` with string-backed numbers -/
theorem eqFn_f64 (b : UInt64) (v : JV) (hv : Spec.PrimEqAp.wfValue v = true) :
    Model.PartialEqAp.eqFn .eq_f64 (.f64 b) v = Spec.PrimEqAp.holdsF64 b v := by
  cases v with
  | num n =>
    cases n with
    | lit s =>
      obtain ⟨p, hwf, rfl⟩ := wf_number hv
      rw [holdsF64_lit b (.num (.lit p.bytes)) (litOf p) (parse_bytes p hwf), eqFn_f64_unfold, hacc64, core64,
        SJ.Proofs.NumberAp.asF64_bytes p hwf]
    | pos k => simp [Spec.PrimEqAp.wfValue] at hv
    | neg k => simp [Spec.PrimEqAp.wfValue] at hv
    | float b => simp [Spec.PrimEqAp.wfValue] at hv
  | null => rfl
  | bool _ => rfl
  | str _ => rfl
  | arr _ => rfl
  | obj _ => rfl

/-- `eq_f32` with string-backed numbers -/
theorem eqFn_f32 (b : UInt32) (v : JV) (hv : Spec.PrimEqAp.wfValue v = true) :
    Model.PartialEqAp.eqFn .eq_f32 (.f32 b) v = Spec.PrimEqAp.holdsF32 b v := by
  cases v with
  | num n =>
    cases n with
    | lit s =>
      obtain ⟨p, hwf, rfl⟩ := wf_number hv
      rw [holdsF32_lit b (.num (.lit p.bytes)) (litOf p) (parse_bytes p hwf), eqFn_f32_unfold, hacc32, core32,
        SJ.Proofs.NumberAp.asF32_bytes p hwf]
    | pos k => simp [Spec.PrimEqAp.wfValue] at hv
    | neg k => simp [Spec.PrimEqAp.wfValue] at hv
    | float b => simp [Spec.PrimEqAp.wfValue] at hv
  | null => rfl
  | bool _ => rfl
  | str _ => rfl
  | arr _ => rfl
  | obj _ => rfl

end SJ.Proofs.NumberApEq
