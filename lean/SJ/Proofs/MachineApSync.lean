import SJ.Proofs.MachineApLex
import SJ.Proofs.MachineApNum
/-!
# The lexical scan stays in step with the machine (`sync_next`, `sync_again`), and the conservativity theorem
-/
namespace SJ.Proofs.MachineAp
open SJ SJ.Gen SJ.Model.Machine SJ.Proofs.Sound
open SJ.Spec.Grammar (StrItem StrWF isHex isSimpleEscape isUnescaped)
open SJ.Spec.Denote (decodeItems)
open SJ.Spec.PrivateToken (LexSt LMode lexStep lexRun hasTokenFirstKey bodyIsToken parseItems)
open SJ.Model.MachineAp (triggered liftStep ofMachine)

/-! ## byte facts -/

theorem ne_of_beq_lit {b c d : UInt8} (h : (b == c) = true) (hcd : (c == d) = false) : (b == d) = false := by
  have : b = c := by simpa using h
  subst this; exact hcd

theorem digit_not_quote (b : UInt8) (h : isDigit b = true) : (b == 0x22) = false ∧ (b == 0x7b) = false :=
  ⟨SJ.Proofs.Complete.digit_ne b _ h (by decide), SJ.Proofs.Complete.digit_ne b _ h (by decide)⟩

/-! ## `startValue` -/

theorem sync_startValue (env : Env) (l : LexSt) (s : St) (b : UInt8) (s' : St) (hl : l.mode = .out false)
    (h : startValue env s b = .next s') : Sync env (lexStep l b) s' := by
  obtain ⟨mode, fs⟩ := s
  unfold startValue at h
  simp only at h
  split at h
  · rename_i hb
    simp only [Step.next.injEq] at h; subst h
    exact ⟨(lex_plain l b hl (ne_of_beq_lit hb (by decide)) (ne_of_beq_lit hb (by decide))).1, by decide⟩
  split at h
  · rename_i hb
    simp only [Step.next.injEq] at h; subst h
    exact ⟨(lex_plain l b hl (ne_of_beq_lit hb (by decide)) (ne_of_beq_lit hb (by decide))).1, by decide⟩
  split at h
  · rename_i hb
    simp only [Step.next.injEq] at h; subst h
    exact ⟨(lex_plain l b hl (ne_of_beq_lit hb (by decide)) (ne_of_beq_lit hb (by decide))).1, by decide⟩
  split at h
  · rename_i hb
    simp only [Step.next.injEq] at h; subst h
    exact (lex_plain l b hl (ne_of_beq_lit hb (by decide)) (ne_of_beq_lit hb (by decide))).1
  split at h
  · rename_i hb
    simp only [Step.next.injEq] at h; subst h
    exact (lex_plain l b hl (ne_of_beq_lit hb (by decide)) (ne_of_beq_lit hb (by decide))).1
  split at h
  · rename_i hb
    simp only [Step.next.injEq] at h; subst h
    exact (lex_plain l b hl (digit_not_quote b hb).1 (digit_not_quote b hb).2).1
  split at h
  · rename_i hb
    simp only [Step.next.injEq] at h; subst h
    have hb' : b = 0x22 := by simpa using hb
    subst hb'
    rw [lex_quote l false hl]
    exact ⟨[], [], [], rfl, rfl, StrInv.init env false, fun hk => by simp at hk⟩
  split at h
  · rename_i hb
    split at h
    · cases h
    · simp only [Step.next.injEq] at h; subst h
      exact (lex_plain l b hl (ne_of_beq_lit hb (by decide)) (ne_of_beq_lit hb (by decide))).1
  split at h
  · rename_i hb
    split at h
    · cases h
    · simp only [Step.next.injEq] at h; subst h
      have hb' : b = 0x7b := by simpa using hb
      subst hb'
      exact ⟨(lex_brace l false hl).1, rfl⟩
  · cases h

theorem sync_closeArr (env : Env) (l : LexSt) (s : St) (s' : St) (hl : l.mode = .out false)
    (h : closeArr env s = .next s') : Sync env l s' := by
  unfold closeArr at h
  split at h
  · simp only [Step.next.injEq] at h; subst h; exact sync_complete env l _ _ hl
  · cases h

theorem sync_closeObj (env : Env) (l : LexSt) (s : St) (s' : St) (hl : l.mode = .out false)
    (h : closeObj env s = .next s') : Sync env l s' := by
  unfold closeObj at h
  split at h
  · simp only [Step.next.injEq] at h; subst h; exact sync_complete env l _ _ hl
  · cases h

/-! ## strings -/

theorem escInv_nil {e : EscSt} (h : EscInv e []) : e = .none := by
  cases h with
  | none => rfl

theorem sync_str (env : Env) (henv : env.tgt = .value) (l : LexSt) (fs : List Frame) (st : StrSt) (b : UInt8) (s' : St)
    (hs : Sync env l ⟨.str st, fs⟩) (h : stepStr env ⟨.str st, fs⟩ st b = .next s') :
    Sync env (lexStep l b) s' ∨ Doomed s' := by
  obtain ⟨raw, items, tail, hl, hraw, hinv, hkey⟩ := hs
  simp only at hl hkey
  rcases stepStr_next env _ st b s' items tail hinv h with
    ⟨st', items', tail', rfl, hk', hinv', hflat⟩ | ⟨hb, htail, hend⟩
  · -- the step stays inside the string
    obtain ⟨e1, e2, e3, e4⟩ := stepStr_esc env _ st st' b h
    have hraw' : (b :: raw).reverse = items'.flatMap StrItem.bytes ++ tail' := by
      rw [List.reverse_cons, hraw, hflat]
    cases hp : escPending st.esc with
    | true =>
      left
      refine ⟨b :: raw, items', tail', ?_, hraw', hinv', fun hk => hkey (hk' ▸ hk)⟩
      simp only [hk']
      unfold lexStep
      rw [hl, hp, e1 hp]
      rfl
    | false =>
      by_cases h5c : b = 0x5c
      · rcases e2 hp h5c with hq | hd
        · left
          refine ⟨b :: raw, items', tail', ?_, hraw', hinv', fun hk => hkey (hk' ▸ hk)⟩
          simp only [hk']
          unfold lexStep
          rw [hl, hp, hq, h5c]
          rfl
        · exact .inr ⟨st', rfl, hd⟩
      · by_cases h22 : b = 0x22
        · exact .inr ⟨st', rfl, e3 hp h22⟩
        · rcases e4 hp h5c h22 with hq | hd
          · left
            refine ⟨b :: raw, items', tail', ?_, hraw', hinv', fun hk => hkey (hk' ▸ hk)⟩
            simp only [hk']
            have h1 : (b == 0x5c) = false := by simpa using h5c
            have h2 : (b == 0x22) = false := by simpa using h22
            unfold lexStep
            rw [hl, hp, hq]
            simp [h1, h2]
          · exact .inr ⟨st', rfl, hd⟩
  · -- the closing quote
    left
    subst hb htail
    have hnone : st.esc = .none := escInv_nil hinv.esc
    have hlex : lexStep l 0x22 =
        { mode := .out false, hit := l.hit || ((st.isKey && topEmpty fs) && bodyIsToken raw.reverse) } := by
      unfold lexStep
      rw [hl, hnone]
      rfl
    have hbody : bodyIsToken raw.reverse = (decodeItems items == some SJ.Spec.PrivateToken.token) := by
      rw [hraw, List.append_nil]
      unfold bodyIsToken
      rw [parseItems_flat items hinv.sv.wf]
    obtain ⟨_, hsem⟩ := endStr_sem env _ st s' items hinv.sv hend
    rcases hsem with ⟨hk, _, ms, k0, fs', hst, rfl⟩ | ⟨_, v, rfl, _⟩
    · simp only at hst
      subst hst
      refine ⟨by rw [hlex], ms, _, fs', rfl, fun hms htok => ?_⟩
      subst hms
      rw [hlex]
      have hdec : decodeItems items = some st.out.reverse := (hinv.sv.val henv).1
      simp only [hk, topEmpty, Bool.and_self, Bool.true_and, hbody, hdec, htok]
      simp [SJ.Spec.PrivateToken.token, Model.MachineAp.token]
    · exact sync_complete env _ _ _ (by rw [hlex])

/-! ## one step -/

/-- a successful step keeps the scan in step with the machine, or dooms the machine -/
theorem sync_next (env : Env) (henv : env.tgt = .value) (l : LexSt) (s : St) (b : UInt8) (s' : St)
    (hs : Sync env l s) (h : step1 env s b = .next s') : Sync env (lexStep l b) s' ∨ Doomed s' := by
  obtain ⟨mode, fs⟩ := s
  cases mode with
  | val ctx =>
    have hl : l.mode = .out false := hs
    left
    simp only [step1] at h
    split at h
    · rename_i hw
      simp only [Step.next.injEq] at h; subst h
      rw [lex_ws l b false hl hw]; exact hl
    split at h
    · rename_i hb
      simp only [Bool.and_eq_true, decide_eq_true_eq] at hb
      have := lex_plain l b hl (ne_of_beq_lit hb.1 (by decide)) (ne_of_beq_lit hb.1 (by decide))
      exact sync_closeArr env _ _ s' this.1 h
    split at h
    · cases h
    · exact sync_startValue env l _ b s' hl h
  | lit rest v =>
    obtain ⟨hl, hrest⟩ := hs
    left
    simp only [step1] at h
    split at h
    · cases h
    · rename_i e es
      split at h
      · rename_i hb
        have hb' : b = e := by simpa using hb
        subst hb'
        have hbq := hrest b (List.mem_cons_self ..)
        have hlx := lex_plain l b hl hbq.1 hbq.2
        split at h
        · simp only [Step.next.injEq] at h; subst h
          exact sync_complete env _ _ _ hlx.1
        · simp only [Step.next.injEq] at h; subst h
          exact ⟨hlx.1, fun x hx => hrest x (List.mem_cons_of_mem _ hx)⟩
      · cases h
  | num n =>
    have hl : l.mode = .out false := hs
    left
    simp only [step1] at h
    obtain ⟨n', rfl⟩ := stepNum_next_shape env _ n b s' h
    have hb := stepNum_next_byte env _ n b _ h
    exact (lex_plain l b hl hb.1 hb.2).1
  | str st =>
    simp only [step1] at h
    exact sync_str env henv l fs st b s' hs h
  | afterElem =>
    have hl : l.mode = .out false := hs
    left
    simp only [step1] at h
    split at h
    · rename_i hw
      simp only [Step.next.injEq] at h; subst h
      rw [lex_ws l b false hl hw]; exact hl
    split at h
    · rename_i hb
      simp only [Step.next.injEq] at h; subst h
      exact (lex_plain l b hl (ne_of_beq_lit hb (by decide)) (ne_of_beq_lit hb (by decide))).1
    split at h
    · rename_i hb
      exact sync_closeArr env _ _ s' (lex_plain l b hl (ne_of_beq_lit hb (by decide)) (ne_of_beq_lit hb (by decide))).1 h
    · cases h
  | objFirst =>
    obtain ⟨hl, htop⟩ := hs
    left
    simp only [step1] at h
    split at h
    · rename_i hw
      simp only [Step.next.injEq] at h; subst h
      rw [lex_ws l b true hl hw]; exact ⟨hl, htop⟩
    split at h
    · rename_i hb
      have hb' : b = 0x7d := by simpa using hb
      subst hb'
      have : (lexStep l 0x7d).mode = .out false := by unfold lexStep; rw [hl]; rfl
      exact sync_closeObj env _ _ s' this h
    split at h
    · rename_i hb
      have hb' : b = 0x22 := by simpa using hb
      subst hb'
      simp only [Step.next.injEq] at h; subst h
      rw [lex_quote l true hl]
      simp only at htop
      refine ⟨[], [], [], by simp [htop, escPending], rfl, StrInv.init env true, fun _ => ?_⟩
      simp only
      cases fs with
      | nil => simp [topEmpty] at htop
      | cons f r =>
        cases f with
        | arr es => simp [topEmpty] at htop
        | obj ms k => exact ⟨ms, k, r, rfl⟩
    · cases h
  | objNextKey =>
    obtain ⟨hl, htop⟩ := hs
    left
    simp only [step1] at h
    split at h
    · rename_i hw
      simp only [Step.next.injEq] at h; subst h
      rw [lex_ws l b false hl hw]; exact ⟨hl, htop⟩
    split at h
    · rename_i hb
      have hb' : b = 0x22 := by simpa using hb
      subst hb'
      simp only [Step.next.injEq] at h; subst h
      rw [lex_quote l false hl]
      simp only at htop
      refine ⟨[], [], [], by simp [topNonEmpty_not_empty htop, escPending], rfl, StrInv.init env true, fun _ => ?_⟩
      obtain ⟨m, ms, k, r, hfs⟩ := htop
      exact ⟨m :: ms, k, r, hfs⟩
    split at h
    · cases h
    · cases h
  | afterKey =>
    obtain ⟨hl, ms, k, r, hfs, hhit⟩ := hs
    left
    simp only [step1] at h
    split at h
    · rename_i hw
      simp only [Step.next.injEq] at h; subst h
      rw [lex_ws l b false hl hw]; exact ⟨hl, ms, k, r, hfs, hhit⟩
    split at h
    · rename_i hb
      simp only [Step.next.injEq] at h; subst h
      exact (lex_plain l b hl (ne_of_beq_lit hb (by decide)) (ne_of_beq_lit hb (by decide))).1
    · cases h
  | afterMember =>
    obtain ⟨hl, htop⟩ := hs
    left
    simp only [step1] at h
    split at h
    · rename_i hw
      simp only [Step.next.injEq] at h; subst h
      rw [lex_ws l b false hl hw]; exact ⟨hl, htop⟩
    split at h
    · rename_i hb
      simp only [Step.next.injEq] at h; subst h
      exact ⟨(lex_plain l b hl (ne_of_beq_lit hb (by decide)) (ne_of_beq_lit hb (by decide))).1, htop⟩
    split at h
    · rename_i hb
      exact sync_closeObj env _ _ s' (lex_plain l b hl (ne_of_beq_lit hb (by decide)) (ne_of_beq_lit hb (by decide))).1 h
    · cases h
  | done v =>
    have hl : l.mode = .out false := hs
    left
    simp only [step1] at h
    split at h
    · rename_i hw
      simp only [Step.next.injEq] at h; subst h
      rw [lex_ws l b false hl hw]; exact hl
    · cases h

/-- a number that ends on the byte being looked at: the byte is not consumed, the scan does not move -/
theorem sync_again (env : Env) (l : LexSt) (s : St) (b : UInt8) (s' : St)
    (hs : Sync env l s) (h : step1 env s b = .again s') : Sync env l s' := by
  obtain ⟨v, rfl⟩ := step1_again_shape env s b s' h
  obtain ⟨mode, fs⟩ := s
  cases mode with
  | num n => exact sync_complete env l _ _ hs
  | str st => simp only [step1] at h; exact absurd h (stepStr_not_again env _ st b _)
  | _ =>
    exfalso
    simp only [step1] at h
    repeat' split at h
    all_goals first
      | (cases h; done)
      | exact SJ.Proofs.Complete.closeArr_not_again env _ _ h
      | exact SJ.Proofs.Complete.closeObj_not_again env _ _ h
      | exact startValue_not_again env _ _ _ h

/-- `step` (with its re-dispatch after a number) -/
theorem sync_step (env : Env) (henv : env.tgt = .value) (l : LexSt) (s : St) (b : UInt8) (s' : St)
    (hs : Sync env l s ∨ Doomed s) (h : step env s b = .ok s') : Sync env (lexStep l b) s' ∨ Doomed s' := by
  unfold step at h
  cases h1 : step1 env s b with
  | next s1 =>
    rw [h1] at h
    simp only [Except.ok.injEq] at h; subst h
    rcases hs with hs | hd
    · exact sync_next env henv l s b s1 hs h1
    · exact .inr (doomed_step1 env s b s1 hd h1)
  | err c a => rw [h1] at h; cases h
  | again s1 =>
    rw [h1] at h
    simp only at h
    rcases hs with hs | ⟨st, hm, _⟩
    · have hs1 := sync_again env l s b s1 hs h1
      cases h2 : step1 env s1 b with
      | next s2 =>
        rw [h2] at h
        simp only [Except.ok.injEq] at h; subst h
        exact sync_next env henv l s1 b s2 hs1 h2
      | err c a => rw [h2] at h; cases h
      | again s2 => rw [h2] at h; cases h
    · exfalso
      obtain ⟨mode, fs⟩ := s
      simp only at hm
      subst hm
      simp only [step1] at h1
      exact stepStr_not_again env _ st b s1 h1

/-! ## no hit, no trigger -/

theorem not_triggered (env : Env) (l : LexSt) (s : St) (b : UInt8) (hs : Sync env l s ∨ Doomed s)
    (hhit : l.hit = false) : triggered env s b = none := by
  cases ht : triggered env s b with
  | none => rfl
  | some fs =>
    exfalso
    obtain ⟨_, _, _, hm, hst⟩ := triggered_some ht
    obtain ⟨mode, stack⟩ := s
    simp only at hm hst
    subst hm hst
    rcases hs with hs | ⟨st, hm', _⟩
    · obtain ⟨_, ms, k, r, hfs, hh⟩ := hs
      simp only [List.cons.injEq, Frame.obj.injEq] at hfs
      obtain ⟨⟨rfl, rfl⟩, rfl⟩ := hfs
      rw [hh rfl rfl] at hhit
      cases hhit
    · cases hm'

theorem trigFree_of_scan (env : Env) (henv : env.tgt = .value) : ∀ (bs : Bytes) (l : LexSt) (s : St),
    (Sync env l s ∨ Doomed s) → (lexRun l bs).hit = false → TrigFree env s bs
  | [], _, _, _, _ => trivial
  | b :: bs, l, s, hs, hhit => by
    have hl : l.hit = false := by
      cases hx : l.hit with
      | false => rfl
      | true => rw [lexRun_hit_mono (b :: bs) l hx] at hhit; cases hhit
    refine ⟨not_triggered env l s b hs hl, fun s' hstep => ?_⟩
    exact trigFree_of_scan env henv bs (lexStep l b) s' (sync_step env henv l s b s' hs hstep) (by rwa [lexRun_cons] at hhit)

theorem sync_init (env : Env) : Sync env {} init := rfl

/-- **`MachineAp` is the machine on every input in which no first key decodes to the token.** -/
theorem conservative (env : Env) (bs : Bytes) (h : hasTokenFirstKey bs = false) :
    Model.MachineAp.parseTop env bs = ofMachine (parseTop env bs) := by
  unfold Model.MachineAp.parseTop Model.MachineAp.init parseTop
  apply run_base_eq
  by_cases hc : env.cfg.ap = true ∧ env.tgt = .value
  · exact trigFree_of_scan env hc.2 bs {} init (.inl (sync_init env)) h
  · exact trigFree_of_not_ap env hc bs init

end SJ.Proofs.MachineAp
