import SJ.Spec.Ieee
import SJ.Spec.Ieee32
import SJ.Proofs.Ieee
import SJ.Proofs.Ieee64
import Mathlib.Tactic.Ring
import Mathlib.Tactic.Linarith
/-!
# `Spec.Ieee`'s bit-pattern operations in terms of the format-generic `roundBits` / `magOfBits`

C07's proofs are stated against the format-generic `roundMag`/`roundBits` of `Spec.Ieee`. This file collects
the small facts that connect them to the `UInt64`/`UInt32` wrappers (`roundNE64`, `F64.neg`, `F64.mag`, …) on
positive finite patterns. (Before the merge with C08 this file proved an `ilog2q`-based placeholder `roundNE64`
equal to `roundBits b64`; with C08's `Spec.Ieee` that statement is the definition.)
-/
namespace SJ.Proofs.LexBridge
open SJ.Spec.Ieee SJ.Proofs.Ieee

theorem pow_pos' (n : Nat) : 0 < 2 ^ n := Nat.pos_of_ne_zero (by simp)

/-- `roundNE64` is `roundBits b64` wrapped in `UInt64` (definition) -/
theorem roundNE64_bridge (neg : Bool) (n d : Nat) :
    roundNE64 neg n d = (roundBits b64 neg n d).map UInt64.ofNat := rfl

theorem roundNE32_bridge (neg : Bool) (n d : Nat) :
    roundNE32 neg n d = (roundBits b32 neg n d).map UInt32.ofNat := rfl

theorem infBits64 : b64.infBits = 0x7ff0000000000000 := by decide
theorem infBits32 : b32.infBits = 0x7f800000 := by decide

/-- a positive finite pattern as `UInt64`: its fields -/
theorem pos64 (a : Nat) (ha : a < b64.infBits) :
    (UInt64.ofNat a).toNat = a ∧ F64.sign (UInt64.ofNat a) = false ∧ F64.absBits (UInt64.ofNat a) = a ∧
    F64.mag (UInt64.ofNat a) = magOfBits b64 a ∧ F64.isNaN (UInt64.ofNat a) = false ∧
    F64.isInf (UInt64.ofNat a) = false := by
  have hinf := infBits64
  have h1 : (UInt64.ofNat a).toNat = a := by rw [UInt64.toNat_ofNat']; exact Nat.mod_eq_of_lt (by omega)
  have h2 : F64.absBits (UInt64.ofNat a) = a := by unfold F64.absBits; rw [h1]; exact Nat.mod_eq_of_lt (by omega)
  have hE : a / 2 ^ 52 % 2 ^ 11 ≠ 2047 := by
    have : a / 2 ^ 52 < 2047 := by rw [Nat.div_lt_iff_lt_mul (by norm_num)]; omega
    omega
  refine ⟨h1, ?_, h2, ?_, ?_, ?_⟩
  · unfold F64.sign; rw [h1, Nat.div_eq_of_lt (by omega)]; rfl
  · unfold F64.mag; rw [h2]
  · unfold F64.isNaN F64.expField; rw [h1]
    have : (a / 2 ^ 52 % 2 ^ 11 == 2047) = false := by simpa using hE
    rw [this]; rfl
  · unfold F64.isInf F64.expField; rw [h1]
    have : (a / 2 ^ 52 % 2 ^ 11 == 2047) = false := by simpa using hE
    rw [this]; rfl

theorem pos32 (a : Nat) (ha : a < b32.infBits) :
    (UInt32.ofNat a).toNat = a ∧ F32.sign (UInt32.ofNat a) = false ∧ F32.absBits (UInt32.ofNat a) = a ∧
    F32.mag (UInt32.ofNat a) = magOfBits b32 a ∧ F32.isInf (UInt32.ofNat a) = false := by
  have hinf := infBits32
  have h1 : (UInt32.ofNat a).toNat = a := by rw [UInt32.toNat_ofNat']; exact Nat.mod_eq_of_lt (by omega)
  have h2 : F32.absBits (UInt32.ofNat a) = a := by unfold F32.absBits; rw [h1]; exact Nat.mod_eq_of_lt (by omega)
  have hE : a / 2 ^ 23 % 2 ^ 8 ≠ 255 := by
    have : a / 2 ^ 23 < 255 := by rw [Nat.div_lt_iff_lt_mul (by norm_num)]; omega
    omega
  refine ⟨h1, ?_, h2, ?_, ?_⟩
  · unfold F32.sign; rw [h1, Nat.div_eq_of_lt (by omega)]; rfl
  · unfold F32.mag; rw [h2]
  · unfold F32.isInf F32.expField; rw [h1]
    have : (a / 2 ^ 23 % 2 ^ 8 == 255) = false := by simpa using hE
    rw [this]; rfl

end SJ.Proofs.LexBridge
