import SJ.Spec.Ieee
import SJ.Proofs.LexIeee
import Mathlib.Tactic.Ring
import Mathlib.Tactic.Linarith
/-!
# Bridge: the placeholder `Spec.Ieee.roundNE64` is `Spec.Ieee32.roundBits b64`

`Spec/Ieee.lean` of this branch is a placeholder (`ilog2q`-based); C07's proofs are stated against the
format-generic `Spec.Ieee32.roundMag` (verbatim the generic core of the C08 branch). This file proves that
the two agree on every input with a positive denominator, and relates `F64.toRat` to `magOfBits`.
After the merge with C08 the first statement becomes `rfl`-like and this file shrinks accordingly.
-/
namespace SJ.Proofs.LexBridge
open SJ.Spec.Ieee32 SJ.Proofs.LexIeee

theorem pow_pos' (n : Nat) : 0 < 2 ^ n := Nat.pos_of_ne_zero (by simp)

/-- `2^e ≤ n/d` on naturals -/
def Pow2Le (e : Int) (n d : Nat) : Prop :=
  if e ≥ 0 then d * 2 ^ e.toNat ≤ n else d ≤ n * 2 ^ (-e).toNat

theorem pow2le_mono (e1 e2 : Int) (n d : Nat) (h : e1 ≤ e2) (h2 : Pow2Le e2 n d) : Pow2Le e1 n d := by
  unfold Pow2Le at *
  by_cases c2 : e2 ≥ 0
  · rw [if_pos c2] at h2
    by_cases c1 : e1 ≥ 0
    · rw [if_pos c1]
      have : 2 ^ e1.toNat ≤ 2 ^ e2.toNat := Nat.pow_le_pow_right (by decide) (by omega)
      calc d * 2 ^ e1.toNat ≤ d * 2 ^ e2.toNat := Nat.mul_le_mul_left _ this
        _ ≤ n := h2
    · rw [if_neg c1]
      have h1 : d * 1 ≤ d * 2 ^ e2.toNat := Nat.mul_le_mul_left _ (pow_pos' _)
      have h3 : n * 1 ≤ n * 2 ^ (-e1).toNat := Nat.mul_le_mul_left _ (pow_pos' _)
      omega
  · rw [if_neg c2] at h2
    have c1 : ¬ e1 ≥ 0 := by omega
    rw [if_neg c1]
    have : 2 ^ (-e2).toNat ≤ 2 ^ (-e1).toNat := Nat.pow_le_pow_right (by decide) (by omega)
    calc d ≤ n * 2 ^ (-e2).toNat := h2
      _ ≤ n * 2 ^ (-e1).toNat := Nat.mul_le_mul_left _ this

/-- the placeholder's `ilog2q` is the floor of `log2 (n/d)` -/
theorem ilog2q_spec (n d : Nat) (hn : 0 < n) (hd : 0 < d) :
    Pow2Le (SJ.Spec.Ieee.ilog2q n d) n d ∧ ¬ Pow2Le (SJ.Spec.Ieee.ilog2q n d + 1) n d := by
  have hn0 : n ≠ 0 := by omega
  have hd0 : d ≠ 0 := by omega
  have n1 := Nat.log2_self_le hn0
  have n2 := @Nat.lt_log2_self n
  have d1 := Nat.log2_self_le hd0
  have d2 := @Nat.lt_log2_self d
  -- 2^(e0-1) < n/d < 2^(e0+1) with e0 = log2 n - log2 d
  generalize hln : n.log2 = ln at *
  generalize hld : d.log2 = ld at *
  have hlow : Pow2Le ((ln : Int) - ld - 1) n d := by
    unfold Pow2Le
    by_cases c : (ln : Int) - ld - 1 ≥ 0
    · rw [if_pos c]
      obtain ⟨t, ht⟩ : ∃ t : Nat, ((ln : Int) - ld - 1).toNat = t ∧ ld + 1 + t = ln := ⟨_, rfl, by omega⟩
      rw [ht.1]
      calc d * 2 ^ t ≤ 2 ^ (ld + 1) * 2 ^ t := Nat.mul_le_mul_right _ (Nat.le_of_lt d2)
        _ = 2 ^ ln := by rw [← Nat.pow_add, ht.2]
        _ ≤ n := n1
    · rw [if_neg c]
      obtain ⟨t, ht⟩ : ∃ t : Nat, (-((ln : Int) - ld - 1)).toNat = t ∧ ln + t = ld + 1 := ⟨_, rfl, by omega⟩
      rw [ht.1]
      calc d ≤ 2 ^ (ld + 1) := Nat.le_of_lt d2
        _ = 2 ^ ln * 2 ^ t := by rw [← Nat.pow_add, ht.2]
        _ ≤ n * 2 ^ t := Nat.mul_le_mul_right _ n1
  have hhigh : ¬ Pow2Le ((ln : Int) - ld + 1) n d := by
    unfold Pow2Le
    by_cases c : (ln : Int) - ld + 1 ≥ 0
    · rw [if_pos c]
      obtain ⟨t, ht⟩ : ∃ t : Nat, ((ln : Int) - ld + 1).toNat = t ∧ ld + t = ln + 1 := ⟨_, rfl, by omega⟩
      rw [ht.1]
      have : n < d * 2 ^ t := by
        calc n < 2 ^ (ln + 1) := n2
          _ = 2 ^ ld * 2 ^ t := by rw [← Nat.pow_add, ht.2]
          _ ≤ d * 2 ^ t := Nat.mul_le_mul_right _ d1
      omega
    · rw [if_neg c]
      obtain ⟨t, ht⟩ : ∃ t : Nat, (-((ln : Int) - ld + 1)).toNat = t ∧ ln + 1 + t = ld := ⟨_, rfl, by omega⟩
      rw [ht.1]
      have : n * 2 ^ t < d := by
        calc n * 2 ^ t < 2 ^ (ln + 1) * 2 ^ t := Nat.mul_lt_mul_of_pos_right n2 (pow_pos' _)
          _ = 2 ^ ld := by rw [← Nat.pow_add, ht.2]
          _ ≤ d := d1
      omega
  unfold SJ.Spec.Ieee.ilog2q
  simp only [hln, hld]
  have hge : ∀ e : Int, (if e ≥ 0 then decide (n ≥ d * 2 ^ e.toNat) else decide (n * 2 ^ (-e).toNat ≥ d)) = true ↔ Pow2Le e n d := by
    intro e; unfold Pow2Le
    by_cases c : e ≥ 0 <;> simp [c]
  by_cases hg : (if (ln : Int) - ld ≥ 0 then decide (n ≥ d * 2 ^ ((ln : Int) - ld).toNat) else decide (n * 2 ^ (-((ln : Int) - ld)).toNat ≥ d)) = true
  · rw [if_pos hg]
    exact ⟨(hge _).1 hg, hhigh⟩
  · rw [if_neg hg]
    refine ⟨hlow, ?_⟩
    have e : (ln : Int) - ld - 1 + 1 = (ln : Int) - ld := by omega
    rw [e]
    intro hp
    exact hg ((hge _).2 hp)

theorem rne_same (a b : Nat) : SJ.Spec.Ieee.rne a b = rne a b := by
  unfold SJ.Spec.Ieee.rne rne
  simp only [gt_iff_lt, beq_iff_eq]

theorem sign_or (neg : Bool) (r : Nat) (hr : r < 2 ^ 63) :
    SJ.Spec.Ieee.signBit neg ||| UInt64.ofNat r = UInt64.ofNat (if neg then b64.signBit + r else r) := by
  apply UInt64.toNat_inj.1
  rw [UInt64.toNat_or]
  cases neg
  · simp [SJ.Spec.Ieee.signBit]
  · simp only [SJ.Spec.Ieee.signBit, if_true]
    have h1 : (0x8000000000000000 : UInt64).toNat = 2 ^ 63 := by decide
    have h2 : (UInt64.ofNat r).toNat = r := by
      rw [UInt64.toNat_ofNat']; exact Nat.mod_eq_of_lt (by omega)
    have h3 : b64.signBit = 2 ^ 63 := by decide
    rw [h1, h2, h3, UInt64.toNat_ofNat', Nat.mod_eq_of_lt (by omega)]
    have := Nat.two_pow_add_eq_or_of_lt hr 1
    simp only [Nat.mul_one] at this
    exact this.symm

/-- bounds on `n·2^1074 / d` from the binary order of magnitude of `n/d` -/
theorem scaled_bounds (e : Int) (n d : Nat) (hd : 0 < d) (h1 : Pow2Le e n d) (h2 : ¬ Pow2Le (e + 1) n d) :
    (0 ≤ e + 1074 → 2 ^ (e + 1074).toNat ≤ n * 2 ^ 1074 / d) ∧
    (0 ≤ e + 1075 → n * 2 ^ 1074 / d < 2 ^ (e + 1075).toNat) ∧
    (e + 1075 ≤ 0 → n * 2 ^ 1074 / d = 0) := by
  unfold Pow2Le at h1 h2
  refine ⟨fun he => ?_, fun he => ?_, fun he => ?_⟩
  · rw [Nat.le_div_iff_mul_le hd]
    by_cases c : e ≥ 0
    · rw [if_pos c] at h1
      have : (e + 1074).toNat = e.toNat + 1074 := by omega
      rw [this, Nat.pow_add]
      calc 2 ^ e.toNat * 2 ^ 1074 * d = d * 2 ^ e.toNat * 2 ^ 1074 := by ring
        _ ≤ n * 2 ^ 1074 := Nat.mul_le_mul_right _ h1
    · rw [if_neg c] at h1
      have : (e + 1074).toNat + (-e).toNat = 1074 := by omega
      calc 2 ^ (e + 1074).toNat * d ≤ 2 ^ (e + 1074).toNat * (n * 2 ^ (-e).toNat) := Nat.mul_le_mul_left _ h1
        _ = n * 2 ^ ((e + 1074).toNat + (-e).toNat) := by rw [Nat.pow_add]; ring
        _ = n * 2 ^ 1074 := by rw [this]
  · rw [Nat.div_lt_iff_lt_mul hd]
    by_cases c : e + 1 ≥ 0
    · rw [if_pos c] at h2
      have : (e + 1075).toNat = (e + 1).toNat + 1074 := by omega
      rw [this, Nat.pow_add]
      have h3 : n < d * 2 ^ (e + 1).toNat := by omega
      calc n * 2 ^ 1074 < d * 2 ^ (e + 1).toNat * 2 ^ 1074 := Nat.mul_lt_mul_of_pos_right h3 (pow_pos' _)
        _ = 2 ^ (e + 1).toNat * 2 ^ 1074 * d := by ring
    · rw [if_neg c] at h2
      have h3 : n * 2 ^ (-(e + 1)).toNat < d := by omega
      have : (e + 1075).toNat + (-(e + 1)).toNat = 1074 := by omega
      calc n * 2 ^ 1074 = n * 2 ^ (-(e + 1)).toNat * 2 ^ (e + 1075).toNat := by
            rw [← this, Nat.pow_add]; ring
        _ < d * 2 ^ (e + 1075).toNat := Nat.mul_lt_mul_of_pos_right h3 (pow_pos' _)
        _ = 2 ^ (e + 1075).toNat * d := by ring
  · have c : ¬ (e + 1 ≥ 0) := by omega
    rw [if_neg c] at h2
    have h3 : n * 2 ^ (-(e + 1)).toNat < d := by omega
    apply Nat.div_eq_of_lt
    have : 2 ^ 1074 ≤ 2 ^ (-(e + 1)).toNat := Nat.pow_le_pow_right (by decide) (by omega)
    calc n * 2 ^ 1074 ≤ n * 2 ^ (-(e + 1)).toNat := Nat.mul_le_mul_left _ this
      _ < d := h3

theorem log2_eq_of {x n : Nat} (h1 : 2 ^ n ≤ x) (h2 : x < 2 ^ (n + 1)) : x.log2 = n := by
  have hx : x ≠ 0 := by have := pow_pos' n; omega
  exact (Nat.log2_eq_iff hx).2 ⟨h1, h2⟩

/-- **bridge.** The placeholder `roundNE64` agrees with the format-generic `roundBits b64` -/
theorem roundNE64_bridge (neg : Bool) (n d : Nat) (hd : 0 < d) :
    SJ.Spec.Ieee.roundNE64 neg n d = (roundBits b64 neg n d).map UInt64.ofNat := by
  have hq : b64.qexp = 1074 := by decide
  have hmb : b64.mbits = 52 := rfl
  have hinf : b64.infBits = 2047 * 2 ^ 52 := by decide
  unfold SJ.Spec.Ieee.roundNE64 roundBits
  rw [hq]
  by_cases hn0 : n = 0
  · subst hn0
    have hd0 : (d == 0) = false := by simp; omega
    have : roundMag b64 (0 * 2 ^ 1074) d = 0 := by
      rw [roundMag_eq]; unfold kOf rne; simp
    simp only [beq_self_eq_true, Bool.true_or, if_true, this]
    rw [if_pos (by rw [hinf]; exact Nat.mul_pos (by decide) (pow_pos' _))]
    simp only [Option.map_some]
    refine congrArg some ?_
    rw [← sign_or neg 0 (by norm_num)]
    cases neg <;> decide
  · have hnpos : 0 < n := Nat.pos_of_ne_zero hn0
    have hnb : (n == 0) = false := by simpa using hn0
    have hdb : (d == 0) = false := by simp; omega
    simp only [hnb, hdb, Bool.or_self, Bool.false_eq_true, if_false]
    obtain ⟨hp1, hp2⟩ := ilog2q_spec n d hnpos hd
    generalize SJ.Spec.Ieee.ilog2q n d = e at *
    obtain ⟨sb1, sb2, sb3⟩ := scaled_bounds e n d hd hp1 hp2
    -- the clamped exponent and the spacing exponent
    obtain ⟨e', he'⟩ : ∃ e' : Int, e' = if e < -1022 then -1022 else e := ⟨_, rfl⟩
    rw [← he']
    obtain ⟨k, hk⟩ : ∃ k : Nat, (k : Int) = e' + 1022 := ⟨(e' + 1022).toNat, by rw [he']; split <;> omega⟩
    have hkof : kOf b64 (n * 2 ^ 1074) d = k := by
      unfold kOf
      rw [hmb]
      by_cases c1 : e + 1075 ≤ 0
      · rw [sb3 c1]
        have : e' = -1022 := by rw [he']; rw [if_pos (by omega)]
        simp [Nat.log2]; omega
      · have hlog : (n * 2 ^ 1074 / d).log2 = (e + 1074).toNat ∨ (e + 1074 < 0 ∧ n * 2 ^ 1074 / d < 1) := by
          by_cases c2 : 0 ≤ e + 1074
          · left
            apply log2_eq_of (sb1 c2)
            have := sb2 (by omega)
            have e2 : (e + 1075).toNat = (e + 1074).toNat + 1 := by omega
            rwa [e2] at this
          · right
            refine ⟨by omega, ?_⟩
            have := sb2 (by omega)
            have e2 : (e + 1075).toNat = 0 := by omega
            rwa [e2] at this
        rcases hlog with hl | ⟨hl1, hl2⟩
        · rw [hl]
          rw [he'] at hk
          split at hk <;> omega
        · have : n * 2 ^ 1074 / d = 0 := by omega
          rw [this]
          rw [he'] at hk
          simp [Nat.log2]
          split at hk <;> omega
    -- the significand
    have hsig : (if e' - 52 ≥ 0 then SJ.Spec.Ieee.rne n (d * 2 ^ (e' - 52).toNat)
        else SJ.Spec.Ieee.rne (n * 2 ^ (-(e' - 52)).toNat) d) = rne (n * 2 ^ 1074) (d * 2 ^ k) := by
      by_cases c : e' - 52 ≥ 0
      · rw [if_pos c, rne_same]
        apply rne_congr _ _ _ _ (Nat.mul_pos hd (pow_pos' _)) (Nat.mul_pos hd (pow_pos' _))
        have : k = (e' - 52).toNat + 1074 := by omega
        rw [this, Nat.pow_add]; ring
      · rw [if_neg c, rne_same]
        apply rne_congr _ _ _ _ hd (Nat.mul_pos hd (pow_pos' _))
        have : (-(e' - 52)).toNat + k = 1074 := by omega
        calc n * 2 ^ (-(e' - 52)).toNat * (d * 2 ^ k) = n * 2 ^ ((-(e' - 52)).toNat + k) * d := by
              rw [Nat.pow_add]; ring
          _ = n * 2 ^ 1074 * d := by rw [this]
    rw [hsig, roundMag_eq, hkof, hmb]
    obtain ⟨hm1, hm2⟩ := sig_bounds b64 (n * 2 ^ 1074) d hd
    rw [hkof, hmb] at hm1 hm2
    generalize rne (n * 2 ^ 1074) (d * 2 ^ k) = m at *
    rw [hinf]
    have hP : (2 : Nat) ^ 53 = 2 * 2 ^ 52 := by norm_num
    by_cases hc : m = 2 ^ 53
    · -- carry into the next binade
      have hb : (m == 2 ^ 53) = true := by simpa using hc
      simp only [hb, if_true]
      by_cases hov : e' + 1 > 1023
      · rw [if_pos hov, if_neg (by rw [hc, hP]; have : 2045 ≤ k := by omega
                                   have := Nat.mul_le_mul_right (2 ^ 52) this; omega)]
        rfl
      · rw [if_neg hov, if_neg (by norm_num)]
        have hlt : k * 2 ^ 52 + m < 2047 * 2 ^ 52 := by
          rw [hc, hP]; have : k + 2 ≤ 2046 := by omega
          have := Nat.mul_le_mul_right (2 ^ 52) this; omega
        rw [if_pos hlt]
        simp only [Option.map_some]
        refine congrArg some ?_
        have e1 : ((e' + 1 + 1023).toNat * 2 ^ 52 + (2 ^ 52 - 2 ^ 52)) = k * 2 ^ 52 + m := by
          have : (e' + 1 + 1023).toNat = k + 2 := by omega
          rw [this, hc, hP]; ring
        rw [e1]
        exact sign_or neg _ (by omega)
    · have hb : (m == 2 ^ 53) = false := by simpa using hc
      simp only [hb, Bool.false_eq_true, if_false]
      by_cases hsub : m < 2 ^ 52
      · -- subnormal: k = 0
        have hk0 : k = 0 := by
          by_contra hk0
          have := hm2 (by omega)
          omega
        have : ¬ (e' > 1023) := by omega
        rw [if_neg this, if_pos hsub, hk0, Nat.zero_mul, Nat.zero_add, if_pos (by omega)]
        simp only [Option.map_some]
        refine congrArg some ?_
        exact sign_or neg _ (by omega)
      · have hm3 : m < 2 ^ 53 := by omega
        by_cases hov : e' > 1023
        · rw [if_pos hov, if_neg (by have : 2046 ≤ k := by omega
                                     have := Nat.mul_le_mul_right (2 ^ 52) this; omega)]
          rfl
        · rw [if_neg hov, if_neg hsub]
          have hlt : k * 2 ^ 52 + m < 2047 * 2 ^ 52 := by
            have : k + 1 ≤ 2046 := by omega
            have := Nat.mul_le_mul_right (2 ^ 52) this; omega
          rw [if_pos hlt]
          simp only [Option.map_some]
          refine congrArg some ?_
          have e1 : ((e' + 1023).toNat * 2 ^ 52 + (m - 2 ^ 52)) = k * 2 ^ 52 + m := by
            have : (e' + 1023).toNat = k + 1 := by omega
            rw [this, Nat.succ_mul]; omega
          rw [e1]
          exact sign_or neg _ (by omega)

end SJ.Proofs.LexBridge
