import SJ.Proofs.TypedWithin
import SJ.Proofs.TypedFault
/-!
# `Eof`-classified errors of the typed model are positioned at the end of the input

`Wie N r` = `Win N r` (`Proofs/TypedWithin.lean`) and: a parser error of `r` whose code is `Eof`-classified has index
exactly `N`, the length of the whole input. The typed analogue of `c11_eof_at_end` / `runPrefix_eof_at_end`; the proof
follows `TypedWithin.lean` function by function (every `Eof…` code of the transcription is raised by `atEof`, i.e. where
the unread input is empty, or by the byte-step machine's `finish`).
-/
namespace SJ.Proofs.Typed
open SJ SJ.Gen SJ.Model SJ.Model.Typed
open SJ.Model.Machine (St Mode Frame Step step1 errIdx endNumber finishMode init)
open SJ.Model.Stream (skipWs)

/-- `Eof`-classified parser errors sit at `N` -/
def Eoe (N : Nat) {α : Type} (r : Res α) : Prop := ∀ c i, r = .err c i → classify c = .eof → i = N

def Wie (N : Nat) {α : Type} (r : Res α) : Prop := Win N r ∧ Eoe N r

section basics
variable {N : Nat} {α : Type}

theorem wie_ok {a : α} {r : Bytes} {p : Nat} (h : p + r.length = N) : Wie N (.ok a r p : Res α) :=
  ⟨win_ok h, fun _ _ e => by cases e⟩
theorem wie_err {c : Code} {i : Nat} (h : i ≤ N) (hc : classify c ≠ .eof) : Wie N (.err c i : Res α) :=
  ⟨win_err h, fun _ _ e he => by cases e; exact absurd he hc⟩
theorem wie_errN {c : Code} : Wie N (.err c N : Res α) :=
  ⟨win_err (Nat.le_refl _), fun _ _ e _ => by cases e; rfl⟩
theorem wie_data {i : Nat} (h : i ≤ N) : Wie N (.data i : Res α) := ⟨win_data h, fun _ _ e => by cases e⟩
theorem wie_raw {r : Bytes} {p : Nat} (h : p + r.length = N) : Wie N (.raw r p : Res α) := ⟨win_raw h, fun _ _ e => by cases e⟩
theorem wie_io : Wie N (.io : Res α) := ⟨win_io, fun _ _ e => by cases e⟩
theorem wie_fuel : Wie N (.fuel : Res α) := ⟨win_fuel, fun _ _ e => by cases e⟩

/-- an error passed on unchanged -/
theorem Wie.of_err {β : Type} {r : Res α} {c : Code} {i : Nat} (h : Wie N r) (hx : r = .err c i) : Wie N (.err c i : Res β) :=
  ⟨win_err (h.1.1 c i hx), fun _ _ e he => by cases e; exact h.2 c i hx he⟩

theorem Wie.bind {β : Type} {r : Res α} {k : α → Bytes → Nat → Res β} (h1 : Wie N r)
    (h2 : ∀ a r1 p1, p1 + r1.length = N → Wie N (k a r1 p1)) : Wie N (r.bind k) := by
  cases r with
  | ok a r1 p1 => exact h2 a r1 p1 (h1.1.2.2.2 a r1 p1 rfl)
  | err c i => exact h1.of_err rfl
  | data i => exact wie_data (h1.1.2.1 i rfl)
  | raw r1 p1 => exact wie_raw (h1.1.2.2.1 r1 p1 rfl)
  | io => exact wie_io
  | fuel => exact wie_fuel

theorem Wie.map {β : Type} {r : Res α} (f : α → β) (h : Wie N r) : Wie N (r.map f) :=
  Wie.bind h fun _ _ _ hp => wie_ok hp

theorem wie_atEof {env : Env} {c : Code} {p : Nat} (h : p = N) : Wie N (atEof env c p : Res α) := by
  unfold atEof; split
  · exact wie_io
  · subst h; exact wie_errN

theorem wie_fixPos {env : Env} {pk : Bool} {x : Res α} (h : Wie N x) : Wie N (fixPos env pk x) := by
  unfold fixPos; split
  · exact wie_data (errorIdx_le pk (h.1.2.2.1 _ _ rfl))
  · exact h

theorem wie_ofVisit (v : FromValue.R) {r : Bytes} {p : Nat} (h : p + r.length = N) : Wie N (ofVisit v r p) := by
  unfold ofVisit; split
  · exact wie_ok h
  · exact wie_raw h

theorem wie_withPeek {env : Env} {c : Code} {rest : Bytes} {pos : Nat} {k : UInt8 → Bytes → Nat → Res α}
    (h : pos + rest.length = N) (hk : ∀ b r p, p + (b :: r).length = N → Wie N (k b r p)) : Wie N (withPeek env c rest pos k) := by
  have hs := skipWs_pos rest pos
  unfold withPeek
  generalize skipWs rest pos = x at hs
  obtain ⟨l, p⟩ := x
  cases l with
  | nil => simp at hs; exact wie_atEof (by omega)
  | cons b r => exact hk b r p (by simp only at hs; omega)

end basics

/-! ## the machine -/

theorem runPfx_eof_end (menv : Machine.Env) (flt : Bool) (t : Nat) (bs : Bytes) : ∀ (s : St) (i : Nat) (c : Code) (idx : Nat),
    runPfx menv flt t s i bs = .err c idx → classify c = .eof → idx = i + bs.length := by
  induction bs with
  | nil =>
    intro s i c idx h hc
    unfold runPfx at h
    repeat' split at h
    all_goals first
      | (cases h; done)
      | (cases h; simp)
  | cons b bs ih =>
    intro s i c idx h hc
    unfold runPfx at h
    repeat' split at h
    all_goals first
      | (cases h; done)
      | (have := ih _ _ _ _ h hc; simp only [List.length_cons]; omega)
      | (rename_i c' a' hs; cases h
         have := (SJ.Proofs.Machine.step1_err menv _ b _ _ hs).2; rw [hc] at this; cases this)
      | (cases h; cases hc)

theorem wie_machine {N : Nat} (menv : Machine.Env) (flt : Bool) (t : Nat) (s : St) (rest : Bytes) (pos : Nat)
    (h : pos + rest.length = N) : Wie N (machine menv flt t s rest pos) := by
  unfold machine
  split
  · rename_i v e he
    have h1 := runPfx_ge _ _ _ _ _ _ _ _ he
    have h2 := runPfx_le _ _ _ _ _ _ _ _ he
    exact wie_ok (by simp only [List.length_drop]; omega)
  · rename_i c i he
    refine ⟨win_err (by have := runPfx_err_le _ _ _ _ _ _ _ _ he; omega), fun _ _ e hc => ?_⟩
    cases e
    have := runPfx_eof_end _ _ _ _ _ _ _ _ he hc
    omega
  · exact wie_io

variable {env : Env} {N : Nat}

theorem wie_parseIdent (id rest : Bytes) (pos : Nat) (h : pos + rest.length = N) : Wie N (parseIdent env id rest pos) := by
  induction id generalizing rest pos with
  | nil => simp only [parseIdent]; exact wie_ok h
  | cons e es ih =>
    cases rest with
    | nil => simp only [parseIdent]; exact wie_atEof (by first | omega | (simp at *; omega))
    | cons b r =>
      simp only [List.length_cons] at h
      simp only [parseIdent]
      split
      · exact ih r (pos + 1) (by omega)
      · exact wie_err (by omega) (by decide)

theorem wie_peekInvalidType {α : Type} (b : UInt8) (r : Bytes) (pos : Nat) (h : pos + (b :: r).length = N) :
    Wie N (peekInvalidType env (b :: r) pos : Res α) := by
  rw [peekInvalidType_cons]
  split
  · exact wie_data (errorIdx_le _ h)
  · exact (wie_machine _ _ _ _ _ _ h).bind fun _ _ _ hp => wie_data (errorIdx_le _ hp)

theorem wie_ident_ok (id : Bytes) (v : TVal) (r : Bytes) (p : Nat) (h : p + r.length = N) :
    Wie N ((parseIdent env id r p).bind fun _ r' p' => (.ok v r' p' : TOut)) :=
  (wie_parseIdent id r p h).bind fun _ _ _ hp => wie_ok hp

theorem wie_deBool (rest : Bytes) (pos : Nat) (h : pos + rest.length = N) : Wie N (deBool env rest pos) := by
  unfold deBool
  refine wie_withPeek h fun b r p hb => ?_
  simp only [List.length_cons] at hb
  repeat' split
  all_goals first
    | exact wie_ident_ok _ _ _ _ (by omega)
    | exact wie_peekInvalidType _ _ _ (by simp only [List.length_cons]; omega)

theorem wie_deUnit (rest : Bytes) (pos : Nat) (h : pos + rest.length = N) : Wie N (deUnit env rest pos) := by
  unfold deUnit
  refine wie_withPeek h fun b r p hb => ?_
  simp only [List.length_cons] at hb
  repeat' split
  all_goals first
    | exact wie_ident_ok _ _ _ _ (by omega)
    | exact wie_peekInvalidType _ _ _ (by simp only [List.length_cons]; omega)

/-! ## numbers -/

theorem wie_scanExpDigits (neg : Bool) (int : Bytes) (frac : Option Bytes) (en : Bool) (rest : Bytes) (pos : Nat)
    (h : pos + rest.length = N) : Wie N (scanExpDigits env neg int frac en rest pos) := by
  cases rest with
  | nil => simp only [scanExpDigits]; exact wie_atEof (by first | omega | (simp at *; omega))
  | cons d r2 =>
    simp only [List.length_cons] at h
    have hl := digitsOf_length r2
    simp only [scanExpDigits]
    split
    · exact wie_err (by omega) (by decide)
    · split
      · rename_i k hk
        have := expOverflowIdx_lt _ _ _ _ hk
        repeat' split
        all_goals first
          | exact wie_err (by omega) (by decide)
          | exact wie_io
          | exact wie_ok (by omega)
      · repeat' split
        all_goals first
          | exact wie_io
          | exact wie_ok (by omega)

theorem wie_scanExp (neg : Bool) (int : Bytes) (frac : Option Bytes) (rest : Bytes) (pos : Nat) (h : pos + rest.length = N) :
    Wie N (scanExp env neg int frac rest pos) := by
  cases rest with
  | nil => simp only [scanExp]; exact wie_atEof (by first | omega | (simp at *; omega))
  | cons c r =>
    simp only [scanExp]
    repeat' split
    all_goals first
      | exact wie_scanExpDigits _ _ _ _ _ _ (by simp only [List.length_cons] at h; omega)
      | exact wie_scanExpDigits _ _ _ _ _ _ h

theorem wie_scanAfterInt (neg : Bool) (int : Bytes) (rest : Bytes) (pos : Nat) (h : pos + rest.length = N) :
    Wie N (scanAfterInt env neg int rest pos) := by
  cases rest with
  | nil =>
    simp only [scanAfterInt]
    split
    · exact wie_io
    · exact wie_ok h
  | cons c r =>
    simp only [List.length_cons] at h
    have hl := digitsOf_length r
    simp only [scanAfterInt]
    split
    · split
      · rename_i h2
        rw [h2] at hl; simp only [List.length_nil] at hl
        repeat' split
        all_goals first
          | exact wie_atEof (by first | omega | (simp at *; omega))
          | exact wie_io
          | exact wie_ok (by simp only [List.length_nil]; omega)
      · rename_i c2 r3 h2
        rw [h2] at hl; simp only [List.length_cons] at hl
        repeat' split
        all_goals first
          | exact wie_err (by omega) (by decide)
          | exact wie_scanExp _ _ _ _ _ (by omega)
          | exact wie_ok (by simp only [List.length_cons]; omega)
    · split
      · exact wie_scanExp _ _ _ _ _ (by omega)
      · exact wie_ok (by simp only [List.length_cons]; omega)

theorem wie_scanInteger (neg : Bool) (rest : Bytes) (pos : Nat) (h : pos + rest.length = N) :
    Wie N (scanInteger env neg rest pos) := by
  cases rest with
  | nil => simp only [scanInteger]; exact wie_atEof (by first | omega | (simp at *; omega))
  | cons c r =>
    simp only [List.length_cons] at h
    have hl := digitsOf_length r
    simp only [scanInteger]
    split
    · split
      · exact wie_scanAfterInt _ _ _ _ (by simp only [List.length_nil] at *; omega)
      · simp only [List.length_cons] at h
        split
        · exact wie_err (by omega) (by decide)
        · exact wie_scanAfterInt _ _ _ _ (by simp only [List.length_cons]; omega)
    · split
      · exact wie_scanAfterInt _ _ _ _ (by omega)
      · exact wie_err (by omega) (by decide)

theorem wie_scanNumber (rest : Bytes) (pos : Nat) (h : pos + rest.length = N) : Wie N (scanNumber env rest pos) := by
  cases rest with
  | nil => simp only [scanNumber]; exact wie_atEof (by first | omega | (simp at *; omega))
  | cons b r =>
    simp only [scanNumber]
    split
    · exact wie_scanInteger _ _ _ (by simp only [List.length_cons] at h; omega)
    · exact wie_scanInteger _ _ _ h

theorem wie_deNumber (ty : NumTy) (rest : Bytes) (pos : Nat) (h : pos + rest.length = N) : Wie N (deNumber env ty rest pos) := by
  unfold deNumber
  refine wie_withPeek h fun b r p hb => ?_
  split
  · refine (wie_scanNumber _ _ hb).bind fun parts r1 p1 hp => ?_
    repeat' split
    all_goals first
      | exact wie_ok hp
      | exact wie_err (peekErrorIdx_le hp) (by decide)
      | exact wie_fixPos (wie_ofVisit _ hp)
  · exact wie_peekInvalidType _ _ _ hb

theorem wie_scanDigits (acc rest : Bytes) (pos : Nat) (h : pos + rest.length = N) : Wie N (scanDigits env acc rest pos) := by
  induction rest generalizing acc pos with
  | nil =>
    simp only [scanDigits]
    split
    · exact wie_io
    · exact wie_ok h
  | cons c r ih =>
    simp only [scanDigits]
    split
    · exact ih _ _ (by simp only [List.length_cons] at h; omega)
    · exact wie_ok h

theorem wie_scanInteger128 (rest : Bytes) (pos : Nat) (h : pos + rest.length = N) : Wie N (scanInteger128 env rest pos) := by
  cases rest with
  | nil => simp only [scanInteger128]; exact wie_atEof (by first | omega | (simp at *; omega))
  | cons c r =>
    simp only [List.length_cons] at h
    simp only [scanInteger128]
    split
    · split
      · split
        · exact wie_io
        · exact wie_ok (by simp only [List.length_nil]; omega)
      · simp only [List.length_cons] at h
        split
        · exact wie_err (by omega) (by decide)
        · exact wie_ok (by simp only [List.length_cons]; omega)
    · split
      · exact wie_scanDigits _ _ _ (by omega)
      · exact wie_err (by omega) (by decide)

theorem wie_deInt128 (w : IntTy) (rest : Bytes) (pos : Nat) (h : pos + rest.length = N) : Wie N (deInt128 env w rest pos) := by
  unfold deInt128
  refine wie_withPeek h fun b r p hb => ?_
  simp only [List.length_cons] at hb
  simp only
  repeat' split
  all_goals first
    | exact wie_err (by omega) (by decide)
    | (refine (wie_scanInteger128 _ _ (by first | (simp only [List.length_cons]; omega) | omega)).bind fun ds r1 p1 hp => ?_
       split
       · exact wie_ok hp
       · exact wie_err (errorIdx_le _ hp) (by decide))

theorem wie_deInt (w : IntTy) (rest : Bytes) (pos : Nat) (h : pos + rest.length = N) : Wie N (deInt env w rest pos) := by
  unfold deInt; split
  · exact wie_deInt128 _ _ _ h
  · exact wie_deNumber _ _ _ h

/-! ## strings -/

theorem wie_parseStr (rest : Bytes) (pos : Nat) (h : pos + rest.length = N) : Wie N (parseStr env rest pos) := by
  unfold parseStr
  refine (wie_machine _ _ _ _ _ _ h).bind fun v r1 p1 hp => ?_
  split <;> exact wie_ok hp

theorem wie_deStr (visit : Bytes → FromValue.R) (rest : Bytes) (pos : Nat) (h : pos + rest.length = N) :
    Wie N (deStr env visit rest pos) := by
  unfold deStr
  refine wie_withPeek h fun b r p hb => ?_
  split
  · exact (wie_parseStr _ _ (by simp only [List.length_cons] at hb; omega)).bind fun s r1 p1 hp => wie_fixPos (wie_ofVisit _ hp)
  · exact wie_peekInvalidType _ _ _ hb

theorem wie_runRaw (st : RawSt) (rest : Bytes) (pos : Nat) (h : pos + rest.length = N) : Wie N (runRaw env st rest pos) := by
  induction rest generalizing st pos with
  | nil => simp only [runRaw]; exact wie_atEof (by first | omega | (simp at *; omega))
  | cons b r ih =>
    simp only [List.length_cons] at h
    simp only [runRaw]
    split
    · exact wie_ok (by omega)
    · exact wie_err (by omega) (by first | decide | (rw [stepRaw_err _ _ _ ‹_›]; decide))
    · exact ih _ _ (by omega)
    · split
      · exact wie_ok (by omega)
      · exact wie_err (by omega) (by first | decide | (rw [stepRaw_err _ _ _ ‹_›]; decide))
      · exact ih _ _ (by omega)
      · exact wie_err (by omega) (by first | decide | (rw [stepRaw_err _ _ _ ‹_›]; decide))

/-! ## sequences -/

theorem wie_hasNextElement (first : Bool) (rest : Bytes) (pos : Nat) (h : pos + rest.length = N) :
    Wie N (hasNextElement env first rest pos) := by
  unfold hasNextElement
  refine wie_withPeek h fun b r p hb => ?_
  repeat' split
  all_goals first
    | exact wie_ok hb
    | exact wie_err (by simp only [List.length_cons] at hb; omega) (by decide)
    | (refine wie_withPeek (by simp only [List.length_cons] at hb; omega) fun c r' q hc => ?_
       split
       · exact wie_err (by simp only [List.length_cons] at hc; omega) (by decide)
       · exact wie_ok hc)

theorem wie_nextElement (de : Bytes → Nat → TOut) (hde : ∀ r p, p + r.length = N → Wie N (de r p)) (first : Bool) (rest : Bytes)
    (pos : Nat) (h : pos + rest.length = N) : Wie N (nextElement env de first rest pos) := by
  unfold nextElement
  refine (wie_hasNextElement _ _ _ h).bind fun more r p hp => ?_
  split
  · exact (hde r p hp).map _
  · exact wie_ok hp

theorem wie_seqLoop (de : Bytes → Nat → TOut) (hde : ∀ r p, p + r.length = N → Wie N (de r p)) (n : Nat) (first : Bool)
    (acc : List TVal) (rest : Bytes) (pos : Nat) (h : pos + rest.length = N) : Wie N (seqLoop env de n first acc rest pos) := by
  induction n generalizing first acc rest pos with
  | zero => simp only [seqLoop]; exact wie_fuel
  | succ n ih =>
    simp only [seqLoop]
    refine (wie_nextElement de hde _ _ _ h).bind fun o r p hp => ?_
    split
    · exact wie_ok hp
    · exact ih _ _ _ _ hp

theorem wie_tupleLoop (de : Schema → Bytes → Nat → TOut) (ss : List Schema)
    (hde : ∀ s ∈ ss, ∀ r p, p + r.length = N → Wie N (de s r p)) (first : Bool) (acc : List TVal) (rest : Bytes) (pos : Nat)
    (h : pos + rest.length = N) : Wie N (tupleLoop env de ss first acc rest pos) := by
  induction ss generalizing first acc rest pos with
  | nil => simp only [tupleLoop]; exact wie_ok h
  | cons s ss ih =>
    simp only [tupleLoop]
    refine (wie_nextElement (de s) (hde s (by simp)) _ _ _ h).bind fun o r p hp => ?_
    split
    · exact wie_raw hp
    · exact ih (fun s' hs' => hde s' (by simp [hs'])) _ _ _ _ hp

theorem wie_endSeq (rest : Bytes) (pos : Nat) (h : pos + rest.length = N) :
    Wie N (endSeq env rest pos).res ∧ (endSeq env rest pos).pos + (endSeq env rest pos).rest.length = N := by
  have hs := skipWs_pos rest pos
  unfold endSeq
  generalize skipWs rest pos = x at hs
  obtain ⟨l, p⟩ := x
  cases l with
  | nil => simp at hs; exact ⟨wie_atEof (by first | omega | (simp at *; omega)), by simp; omega⟩
  | cons b r =>
    simp only [List.length_cons] at hs
    dsimp only
    split
    · exact ⟨wie_ok (by omega), by dsimp only; omega⟩
    · split
      · have hs2 := skipWs_pos r (p + 1)
        generalize skipWs r (p + 1) = y at hs2
        obtain ⟨l2, q⟩ := y
        cases l2 with
        | nil => simp at hs2; exact ⟨wie_err (by omega) (by first | decide | (split <;> decide)), by simp; omega⟩
        | cons c r' =>
          simp only [List.length_cons] at hs2
          exact ⟨wie_err (by omega) (by first | decide | (split <;> decide)), by simp only [List.length_cons]; omega⟩
      · exact ⟨wie_err (by omega) (by first | decide | (split <;> decide)), by simp only [List.length_cons]; omega⟩

theorem wie_endMap (rest : Bytes) (pos : Nat) (h : pos + rest.length = N) :
    Wie N (endMap env rest pos).res ∧ (endMap env rest pos).pos + (endMap env rest pos).rest.length = N := by
  have hs := skipWs_pos rest pos
  unfold endMap
  generalize skipWs rest pos = x at hs
  obtain ⟨l, p⟩ := x
  cases l with
  | nil => simp at hs; exact ⟨wie_atEof (by first | omega | (simp at *; omega)), by simp; omega⟩
  | cons b r =>
    simp only [List.length_cons] at hs
    dsimp only
    split
    · exact ⟨wie_ok (by omega), by dsimp only; omega⟩
    · exact ⟨wie_err (by omega) (by first | decide | (split <;> decide)), by simp only [List.length_cons]; omega⟩

theorem wie_closeWith {α : Type} (endFn : Bytes → Nat → EndState)
    (hend : ∀ r p, p + r.length = N → Wie N (endFn r p).res ∧ (endFn r p).pos + (endFn r p).rest.length = N) {ret : Res α}
    (h : Wie N ret) : Wie N (closeWith env endFn ret) := by
  unfold closeWith
  split
  · exact (hend _ _ (h.1.2.2.2 _ _ _ rfl)).1.bind fun _ _ _ hp => wie_ok hp
  · exact wie_data (errorIdx_le _ (hend _ _ (h.1.2.2.1 _ _ rfl)).2)
  · exact h

theorem wie_deSeq (t : Nat) (visit : Bytes → Nat → TOut) (hv : ∀ r p, p + r.length = N → Wie N (visit r p)) (rest : Bytes) (pos : Nat)
    (h : pos + rest.length = N) : Wie N (deSeq env t visit rest pos) := by
  unfold deSeq
  refine wie_withPeek h fun b r p hb => ?_
  split
  · simp only [List.length_cons] at hb
    split
    · exact wie_err (by omega) (by decide)
    · exact wie_closeWith _ wie_endSeq (hv _ _ (by omega))
  · exact wie_peekInvalidType _ _ _ hb

theorem wie_deBytes (t : Nat) (rest : Bytes) (pos : Nat) (h : pos + rest.length = N) : Wie N (deBytes env t rest pos) := by
  unfold deBytes
  refine wie_withPeek h fun b r p hb => ?_
  split
  · exact (wie_runRaw _ _ _ (by simp only [List.length_cons] at hb; omega)).map _
  · split
    · exact wie_deSeq t _ (fun r p hp => (wie_seqLoop _ (wie_deNumber _) _ _ _ _ _ hp).map _) _ _ hb
    · exact wie_peekInvalidType _ _ _ hb

/-! ## maps -/

theorem wie_hasNextKey (first : Bool) (rest : Bytes) (pos : Nat) (h : pos + rest.length = N) :
    Wie N (hasNextKey env first rest pos) := by
  unfold hasNextKey
  refine wie_withPeek h fun b r p hb => ?_
  repeat' split
  all_goals first
    | exact wie_ok hb
    | exact wie_err (by simp only [List.length_cons] at hb; omega) (by decide)
    | (refine wie_withPeek (by simp only [List.length_cons] at hb; omega) fun c r' q hc => ?_
       repeat' split
       all_goals first
         | exact wie_err (by simp only [List.length_cons] at hc; omega) (by decide)
         | exact wie_ok hc)

theorem wie_parseObjectColon (rest : Bytes) (pos : Nat) (h : pos + rest.length = N) : Wie N (parseObjectColon env rest pos) := by
  unfold parseObjectColon
  refine wie_withPeek h fun b r p hb => ?_
  simp only [List.length_cons] at hb
  split
  · exact wie_ok (by omega)
  · exact wie_err (by omega) (by decide)

theorem wie_keyStr (visit : Bytes → FromValue.R) (rest : Bytes) (pos : Nat) (hne : rest ≠ []) (h : pos + rest.length = N) :
    Wie N (keyStr env visit rest pos) := by
  unfold keyStr
  have := drop1 hne
  exact (wie_parseStr _ _ (by omega)).bind fun s r p hp => wie_ofVisit _ hp

theorem wie_keyInt (w : IntTy) (rest : Bytes) (pos : Nat) (hne : rest ≠ []) (h : pos + rest.length = N) :
    Wie N (keyInt env w rest pos) := by
  have hd := drop1 hne
  unfold keyInt
  generalize rest.drop 1 = l at hd
  cases l with
  | nil => exact wie_atEof (by first | omega | (simp at *; omega))
  | cons b r =>
    dsimp only
    split
    · exact wie_err (errorIdx_le _ (by omega)) (by decide)
    · refine (wie_deInt _ _ _ (by omega)).bind fun v r' p' hp => ?_
      cases r' with
      | nil => exact wie_atEof (by first | omega | (simp at *; omega))
      | cons c r'' =>
        simp only [List.length_cons] at hp
        dsimp only
        split
        · exact wie_ok (by omega)
        · exact wie_err (by omega) (by decide)

theorem wie_keyBool (rest : Bytes) (pos : Nat) (hne : rest ≠ []) (h : pos + rest.length = N) : Wie N (keyBool env rest pos) := by
  have hd := drop1 hne
  unfold keyBool
  generalize rest.drop 1 = l at hd
  cases l with
  | nil => exact wie_atEof (by first | omega | (simp at *; omega))
  | cons b r =>
    simp only [List.length_cons] at hd
    dsimp only
    repeat' split
    all_goals first
      | exact wie_ident_ok _ _ _ _ (by omega)
      | exact (wie_parseStr _ _ (by simp only [List.length_cons]; omega)).bind fun _ _ _ hp => wie_data (errorIdx_le _ hp)

theorem wie_deVariantId (names : List Bytes) (rest : Bytes) (pos : Nat) (h : pos + rest.length = N) :
    Wie N (deVariantId env names rest pos) := wie_deStr _ _ _ h

theorem wie_deKey (k : KeyKind) (rest : Bytes) (pos : Nat) (hne : rest ≠ []) (h : pos + rest.length = N) :
    Wie N (deKey env k rest pos) := by
  unfold deKey
  split
  · exact wie_keyStr _ _ _ hne h
  · exact wie_keyInt _ _ _ hne h
  · exact wie_keyBool _ _ hne h
  · exact wie_keyStr _ _ _ hne h
  · unfold keyUnitEnum
    refine (wie_deVariantId _ _ _ h).bind fun v r p hp => ?_
    split
    · exact wie_ok hp
    · exact wie_raw hp

theorem wie_mapLoop (k : KeyKind) (de : Bytes → Nat → TOut) (hde : ∀ r p, p + r.length = N → Wie N (de r p)) (n : Nat)
    (first : Bool) (acc : List (TVal × TVal)) (rest : Bytes) (pos : Nat) (h : pos + rest.length = N) :
    Wie N (mapLoop env k de n first acc rest pos) := by
  induction n generalizing first acc rest pos with
  | zero => simp only [mapLoop]; exact wie_fuel
  | succ n ih =>
    simp only [mapLoop]
    have hk := wie_hasNextKey (env := env) first rest pos h
    cases hx : hasNextKey env first rest pos with
    | ok more r p =>
      have hp := hk.1.2.2.2 _ _ _ hx
      simp only [Res.bind]
      split
      · exact wie_ok hp
      · rename_i hm
        have hmt : more = true := by simpa using hm
        subst hmt
        have hne := hasNextKey_true _ _ _ _ _ _ hx
        refine (wie_deKey k r p hne hp).bind fun kv r1 p1 h1 => ?_
        refine (wie_parseObjectColon r1 p1 h1).bind fun _ r2 p2 h2 => ?_
        exact (hde r2 p2 h2).bind fun v r3 p3 h3 => ih _ _ _ _ h3
    | err c i => exact hk.of_err hx
    | data i => exact wie_data (hk.1.2.1 _ hx)
    | raw r p => exact wie_raw (hk.1.2.2.1 _ _ hx)
    | io => exact wie_io
    | fuel => exact wie_fuel

theorem wie_deMap (t : Nat) (visit : Bytes → Nat → TOut) (hv : ∀ r p, p + r.length = N → Wie N (visit r p)) (rest : Bytes) (pos : Nat)
    (h : pos + rest.length = N) : Wie N (deMap env t visit rest pos) := by
  unfold deMap
  refine wie_withPeek h fun b r p hb => ?_
  split
  · simp only [List.length_cons] at hb
    split
    · exact wie_err (by omega) (by decide)
    · exact wie_closeWith _ wie_endMap (hv _ _ (by omega))
  · exact wie_peekInvalidType _ _ _ hb

/-! ## structs, enums -/

theorem wie_ignoreValue (rest : Bytes) (pos : Nat) (h : pos + rest.length = N) : Wie N (ignoreValue env rest pos) := by
  unfold ignoreValue
  exact (wie_machine _ _ _ _ _ _ h).map _

theorem wie_structLoop (de : Schema → Bytes → Nat → TOut) (fs : List (Bytes × Schema))
    (hde : ∀ f ∈ fs, ∀ r p, p + r.length = N → Wie N (de f.2 r p)) (deny : Bool) (n : Nat) (first : Bool)
    (slots : List (Option TVal)) (rest : Bytes) (pos : Nat) (h : pos + rest.length = N) :
    Wie N (structLoop env de fs deny n first slots rest pos) := by
  induction n generalizing first slots rest pos with
  | zero => simp only [structLoop]; exact wie_fuel
  | succ n ih =>
    simp only [structLoop]
    have hk := wie_hasNextKey (env := env) first rest pos h
    cases hx : hasNextKey env first rest pos with
    | ok more r p =>
      have hp := hk.1.2.2.2 _ _ _ hx
      simp only [Res.bind]
      split
      · exact wie_ok hp
      · rename_i hm
        have hmt : more = true := by simpa using hm
        subst hmt
        have hd := drop1 (hasNextKey_true _ _ _ _ _ _ hx)
        refine (wie_parseStr _ _ (by omega)).bind fun name r1 p1 h1 => ?_
        split
        · split
          · exact wie_raw h1
          · refine (wie_parseObjectColon r1 p1 h1).bind fun _ r2 p2 h2 => ?_
            split
            · rename_i nm s hs
              exact (hde _ (mem_of_getElem? hs) r2 p2 h2).bind fun v r3 p3 h3 => ih _ _ _ _ h3
            · exact wie_raw h2
        · split
          · exact wie_raw h1
          · refine (wie_parseObjectColon r1 p1 h1).bind fun _ r2 p2 h2 => ?_
            exact (wie_ignoreValue r2 p2 h2).bind fun _ r3 p3 h3 => ih _ _ _ _ h3
    | err c i => exact hk.of_err hx
    | data i => exact wie_data (hk.1.2.1 _ hx)
    | raw r p => exact wie_raw (hk.1.2.2.1 _ _ hx)
    | io => exact wie_io
    | fuel => exact wie_fuel

theorem wie_deStruct (t : Nat) (de : Nat → Schema → Bytes → Nat → TOut) (fs : List (Bytes × Schema))
    (hde : ∀ f ∈ fs, ∀ d r p, p + r.length = N → Wie N (de d f.2 r p)) (deny : Bool) (rest : Bytes) (pos : Nat)
    (h : pos + rest.length = N) : Wie N (deStruct env t de fs deny rest pos) := by
  unfold deStruct
  refine wie_withPeek h fun b r p hb => ?_
  split
  · simp only [List.length_cons] at hb
    split
    · exact wie_err (by omega) (by decide)
    · refine wie_closeWith _ wie_endSeq ((wie_tupleLoop _ _ ?_ _ _ _ _ (by omega)).map _)
      intro s hs
      obtain ⟨f, hf', rfl⟩ := List.mem_map.mp hs
      exact hde f hf' _
  · split
    · simp only [List.length_cons] at hb
      split
      · exact wie_err (by omega) (by decide)
      · refine wie_closeWith _ wie_endMap ?_
        unfold structVisitMap
        refine (wie_structLoop _ fs (fun f hf' => hde f hf' _) deny _ _ _ _ _ (by omega)).bind fun slots r p hp => ?_
        split
        · exact wie_ok hp
        · exact wie_raw hp
    · exact wie_peekInvalidType _ _ _ hb

theorem wie_dePayload (t : Nat) (de : Nat → Schema → Bytes → Nat → TOut) (sh : VariantShape)
    (hde : ∀ s ∈ shapeSchemas sh, ∀ d r p, p + r.length = N → Wie N (de d s r p)) (rest : Bytes) (pos : Nat)
    (h : pos + rest.length = N) : Wie N (dePayload env t de sh rest pos) := by
  unfold dePayload
  split
  · exact wie_deUnit _ _ h
  · exact hde _ (by simp [shapeSchemas]) _ _ _ h
  · exact wie_deSeq t _ (fun r p hp => (wie_tupleLoop _ _ (fun s hs => hde s (by simpa [shapeSchemas] using hs) _) _ _ _ _ hp).map _) _ _ h
  · refine wie_deStruct t de _ (fun f hf' d => hde f.2 ?_ d) false _ _ h
    simp only [shapeSchemas, List.mem_map]
    exact ⟨f, hf', rfl⟩

theorem wie_deEnum (t : Nat) (de : Nat → Schema → Bytes → Nat → TOut) (vs : List (Bytes × VariantShape))
    (hde : ∀ v ∈ vs, ∀ s ∈ shapeSchemas v.2, ∀ d r p, p + r.length = N → Wie N (de d s r p)) (rest : Bytes) (pos : Nat)
    (h : pos + rest.length = N) : Wie N (deEnum env t de vs rest pos) := by
  unfold deEnum
  refine wie_withPeek h fun b r p hb => ?_
  split
  · simp only [List.length_cons] at hb
    split
    · exact wie_err (by omega) (by decide)
    · refine (wie_deVariantId _ _ _ (by omega)).bind fun iv r1 p1 h1 => ?_
      refine (wie_parseObjectColon r1 p1 h1).bind fun _ r2 p2 h2 => ?_
      split
      · exact wie_raw h2
      · rename_i nm sh hs
        refine (wie_dePayload (t + 1) de sh (hde _ (mem_of_getElem? hs)) r2 p2 h2).bind fun payload r3 p3 h3 => ?_
        refine wie_withPeek h3 fun c r4 q hc => ?_
        split
        · exact wie_ok (by simp only [List.length_cons] at hc; omega)
        · exact wie_err (errorIdx_le _ hc) (by decide)
  · split
    · refine (wie_deVariantId _ _ _ hb).bind fun iv r1 p1 h1 => ?_
      dsimp only
      split
      · exact wie_ok h1
      · exact wie_raw h1
    · exact wie_err (by simp only [List.length_cons] at hb; omega) (by decide)

/-- every `Eof`-classified error of a `deTyped` result is positioned at the end of the input -/
theorem wie_deTyped : ∀ (f t : Nat) (s : Schema) (rest : Bytes) (pos : Nat), pos + rest.length = N →
    Wie N (deTyped env f t s rest pos) := by
  intro f
  induction f with
  | zero => intro t s rest pos _; unfold deTyped; exact wie_fuel
  | succ f ih =>
    intro t s rest pos h
    cases s with
    | bool => rw [deTyped_bool]; exact wie_deBool _ _ h
    | int w => rw [deTyped_int]; exact wie_deInt _ _ _ h
    | f64 => rw [deTyped_f64]; exact wie_deNumber _ _ _ h
    | f32 => rw [deTyped_f32]; exact wie_deNumber _ _ _ h
    | char => rw [deTyped_char]; exact wie_deStr _ _ _ h
    | string => rw [deTyped_string]; exact wie_deStr _ _ _ h
    | bytes => rw [deTyped_bytes]; exact wie_deBytes _ _ _ h
    | option s' =>
      rw [deTyped_option]
      dsimp only
      have hs := skipWs_pos rest pos
      generalize skipWs rest pos = x at hs
      obtain ⟨l, p⟩ := x
      cases l with
      | nil =>
        dsimp only
        split
        · exact wie_io
        · exact (ih _ _ _ _ (by simp at hs ⊢; omega)).map _
      | cons b r =>
        simp only [List.length_cons] at hs
        dsimp only
        split
        · exact wie_ident_ok _ _ _ _ (by omega)
        · exact (ih _ _ _ _ (by simp only [List.length_cons]; omega)).map _
    | unit => rw [deTyped_unit]; exact wie_deUnit _ _ h
    | unitStruct => rw [deTyped_unitStruct]; exact wie_deUnit _ _ h
    | newtype s' => rw [deTyped_newtype]; exact ih _ _ _ _ h
    | seq s' =>
      rw [deTyped_seq]
      exact wie_deSeq t _ (fun r p hp => (wie_seqLoop _ (ih _ _) _ _ _ _ _ hp).map _) _ _ h
    | tuple ss =>
      rw [deTyped_tuple]
      exact wie_deSeq t _ (fun r p hp => (wie_tupleLoop _ _ (fun s' _ => ih _ s') _ _ _ _ hp).map _) _ _ h
    | map k s' =>
      rw [deTyped_map]
      exact wie_deMap t _ (fun r p hp => (wie_mapLoop _ _ (ih _ _) _ _ _ _ _ hp).map _) _ _ h
    | struct_ fs deny =>
      rw [deTyped_struct]
      exact wie_deStruct t _ _ (fun fl _ d => ih d fl.2) _ _ _ h
    | enum_ vs =>
      rw [deTyped_enum]
      exact wie_deEnum t _ _ (fun v _ s' _ d => ih d s') _ _ h
    | ignored => rw [deTyped_ignored]; exact (wie_ignoreValue _ _ h).map _
    | any =>
      rw [deTyped_any]
      exact (wie_machine _ _ _ _ _ _ h).map _

/-- … of a whole document -/
theorem eoe_deTypedTop (env : Env) (s : Schema) (bs : Bytes) (c : Code) (i : Nat)
    (h : deTypedTop env s bs = .err c i) (hc : classify c = .eof) : i = bs.length := by
  have hw := wie_deTyped (env := env) (N := bs.length) (Schema.size s + 1) 0 s bs 0 (by omega)
  unfold deTypedTop at h
  cases hx : deTyped env (Schema.size s + 1) 0 s bs 0 with
  | ok v rest pos =>
    rw [hx] at h
    dsimp only at h
    split at h
    · split at h <;> cases h
    · cases h; cases hc
  | err c' i' => rw [hx] at h; cases h; exact hw.2 _ _ hx hc
  | data i' => rw [hx] at h; cases h
  | raw r p => rw [hx] at h; cases h
  | io => rw [hx] at h; cases h
  | fuel => rw [hx] at h; cases h

end SJ.Proofs.Typed
