import SJ.Proofs.LexModerateMul
import SJ.Proofs.LexModerateRound
import Mathlib.Tactic.Ring
import Mathlib.Tactic.Linarith
import Mathlib.Tactic.Positivity
import Mathlib.Tactic.FieldSimp
import Mathlib.Algebra.Order.Field.Power
import Mathlib.Data.Rat.Cast.Order
/-!
# C07 moderate path, part 3: the error bookkeeping of `multiply_exponent_extended`

`Tracks fp V lo hi`: the extended float `fp` approximates the exact rational `V` — the *true mantissa*
`t = V / 2^fp.exp` satisfies `lo ≤ t − fp.mant ≤ hi` (units of the last place of `fp.mant`).
`normalize` scales the bounds by `2^shift`; a multiplication by a cached power (exact: `θ = 0`; truncated:
`θ = 1`) turns `[lo, hi]` into `[lo − ½, hi + θ + ½]` (`mul` rounds to nearest). The cached powers are read
off `c07_cached_power_accuracy` (`small_powers_exact`, `large_powers_truncated`).
-/
namespace SJ.Proofs.LexModerateErr
open SJ SJ.Gen SJ.Model.Lexical SJ.Proofs.LexRound SJ.Proofs.LexModerateMul SJ.Proofs.LexTables

/-! ## rational arithmetic -/

theorem zpow_split (b : ℚ) (_hb : b ≠ 0) (z : Int) : b ^ z = b ^ z.toNat / b ^ (-z).toNat := by
  rcases Int.le_total 0 z with h | h
  · have h1 : (-z).toNat = 0 := by omega
    obtain ⟨n, rfl⟩ : ∃ n : Nat, z = n := ⟨z.toNat, by omega⟩
    rw [h1, pow_zero, div_one, zpow_natCast, Int.toNat_natCast]
  · have h1 : z.toNat = 0 := by omega
    obtain ⟨n, hn⟩ : ∃ n : Nat, -z = n := ⟨(-z).toNat, by omega⟩
    have hz : z = -(n : Int) := by omega
    rw [h1, pow_zero, hn, Int.toNat_natCast, hz, zpow_neg, zpow_natCast, one_div]

/-- one multiplication by a cached power: the true mantissa `t·tp / 2^64` against the rounded product `m'` -/
theorem mul_err (m mp m' t tp lo hi θ : ℚ)
    (hm0 : 0 ≤ m) (hm : m ≤ 2 ^ 64) (hmp : mp ≤ tp) (htp : tp ≤ mp + θ) (htp64 : tp ≤ 2 ^ 64) (htp0 : 0 ≤ tp)
    (hr1 : 2 * (m' * 2 ^ 64) ≤ 2 * (m * mp) + 2 ^ 64) (hr2 : 2 * (m * mp) ≤ 2 * (m' * 2 ^ 64) + 2 ^ 64)
    (hlo : lo ≤ t - m) (hhi : t - m ≤ hi) (hlo0 : lo ≤ 0) (hhi0 : 0 ≤ hi) :
    lo - 1 / 2 ≤ t * tp / 2 ^ 64 - m' ∧ t * tp / 2 ^ 64 - m' ≤ hi + θ + 1 / 2 := by
  have h64 : (0 : ℚ) < 2 ^ 64 := by positivity
  have e : t * tp / 2 ^ 64 - m' = ((t - m) * tp + m * (tp - mp) + (m * mp - m' * 2 ^ 64)) / 2 ^ 64 := by
    field_simp; ring
  rw [e]
  have a1 : lo * 2 ^ 64 ≤ (t - m) * tp := by nlinarith
  have a2 : (t - m) * tp ≤ hi * 2 ^ 64 := by nlinarith
  have b1 : 0 ≤ m * (tp - mp) := by nlinarith
  have b2 : m * (tp - mp) ≤ θ * 2 ^ 64 := by nlinarith
  constructor
  · rw [le_div_iff₀ h64]; nlinarith
  · rw [div_le_iff₀ h64]; nlinarith

/-! ## the cached powers as rationals -/

theorem getSmall_q (i : Nat) (hi : i < 10) :
    ((getSmall i).mant : ℚ) * 2 ^ (getSmall i).exp = 10 ^ i ∧ 2 ^ 63 ≤ (getSmall i).mant ∧
      (getSmall i).mant < 2 ^ 64 ∧ base10SmallIntPowers.getD i 0 = 10 ^ i := by
  obtain ⟨hex, h1, h2, h3⟩ := small_powers_exact i (List.mem_range.2 hi)
  refine ⟨?_, h1, h2, h3⟩
  unfold getSmall
  simp only []
  generalize base10SmallMantissa.getD i 0 = m at *
  generalize base10SmallExponent.getD i 0 = e at *
  unfold Exactly at hex
  have hk1 : (-(i : Int)).toNat = 0 := by omega
  have hk2 : ((i : Int)).toNat = i := by omega
  rw [hk1, hk2, Nat.pow_zero, Nat.mul_one] at hex
  have hq : (m : ℚ) * 2 ^ e.toNat = 10 ^ i * 2 ^ (-e).toNat := by exact_mod_cast hex
  rw [zpow_split 2 (by norm_num) e]
  have hp : (0 : ℚ) < 2 ^ (-e).toNat := by positivity
  rw [← mul_div_assoc, div_eq_iff (ne_of_gt hp)]
  exact hq

theorem getLarge_q (l : Nat) (hl : l < 66) :
    ∃ tp : ℚ, tp * 2 ^ (getLarge l).exp = 10 ^ (-350 + 10 * (l : Int)) ∧ ((getLarge l).mant : ℚ) ≤ tp ∧
      tp < (getLarge l).mant + 1 ∧ 2 ^ 63 ≤ (getLarge l).mant ∧ (getLarge l).mant < 2 ^ 64 := by
  obtain ⟨hbr, h1, h2⟩ := large_powers_truncated l (List.mem_range.2 hl)
  unfold getLarge
  simp only []
  generalize base10LargeMantissa.getD l 0 = m at *
  generalize base10LargeExponent.getD l 0 = e at *
  generalize (-350 + 10 * (l : Int)) = k at *
  unfold Brackets at hbr
  obtain ⟨hb1, hb2⟩ := hbr
  have q1 : (m : ℚ) * 2 ^ e.toNat * 10 ^ (-k).toNat ≤ 10 ^ k.toNat * 2 ^ (-e).toNat := by exact_mod_cast hb1
  have q2 : (10 : ℚ) ^ k.toNat * 2 ^ (-e).toNat < ((m : ℚ) + 1) * 2 ^ e.toNat * 10 ^ (-k).toNat := by exact_mod_cast hb2
  have p1 : (0 : ℚ) < 2 ^ e.toNat := by positivity
  have p2 : (0 : ℚ) < 2 ^ (-e).toNat := by positivity
  have p3 : (0 : ℚ) < 10 ^ k.toNat := by positivity
  have p4 : (0 : ℚ) < 10 ^ (-k).toNat := by positivity
  refine ⟨10 ^ k / 2 ^ e, ?_, ?_, ?_, h1, h2⟩
  · have : (2 : ℚ) ^ e ≠ 0 := by positivity
    field_simp
  · rw [zpow_split 10 (by norm_num) k, zpow_split 2 (by norm_num) e, div_div_div_eq, le_div_iff₀ (by positivity)]
    linarith
  · rw [zpow_split 10 (by norm_num) k, zpow_split 2 (by norm_num) e, div_div_div_eq, div_lt_iff₀ (by positivity)]
    linarith

/-! ## tracking the exact value -/

/-- `fp` approximates `V`: the true mantissa `t = V / 2^exp` has `lo ≤ t − mant ≤ hi` -/
def Tracks (fp : ExtFloat) (V lo hi : ℚ) : Prop :=
  ∃ t : ℚ, V = t * 2 ^ fp.exp ∧ lo ≤ t - fp.mant ∧ t - fp.mant ≤ hi

theorem two_zpow_ne (z : Int) : (2 : ℚ) ^ z ≠ 0 := by positivity

/-- `normalize` scales mantissa, true mantissa and bounds alike -/
theorem tracks_normalize (fp : ExtFloat) (V lo hi : ℚ) (h0 : 0 < fp.mant) (h64 : fp.mant < 2 ^ 64)
    (ht : Tracks fp V lo hi) :
    ∃ s : Nat, (normalize fp).2 = s ∧ (normalize fp).1.mant = fp.mant * 2 ^ s ∧ 2 ^ 63 ≤ fp.mant * 2 ^ s ∧
      fp.mant * 2 ^ s < 2 ^ 64 ∧ Tracks (normalize fp).1 V (lo * 2 ^ s) (hi * 2 ^ s) := by
  obtain ⟨s, _, hn, hM1, hM2⟩ := normalize_spec fp h0 h64
  refine ⟨s, by rw [hn], by rw [hn], hM1, hM2, ?_⟩
  rw [hn]
  obtain ⟨t, hV, h1, h2⟩ := ht
  refine ⟨t * 2 ^ s, ?_, ?_, ?_⟩
  · simp only []
    rw [hV, zpow_sub₀ (by norm_num : (2 : ℚ) ≠ 0), zpow_natCast]
    have : (2 : ℚ) ^ s ≠ 0 := by positivity
    field_simp
  · simp only []
    push_cast
    have : (0 : ℚ) ≤ 2 ^ s := by positivity
    nlinarith
  · simp only []
    push_cast
    have : (0 : ℚ) ≤ 2 ^ s := by positivity
    nlinarith

/-- a multiplication by a cached power `p` that approximates `P` (`p.mant ≤ tp ≤ p.mant + θ`, `P = tp · 2^p.exp`) -/
theorem tracks_mul (a p : ExtFloat) (V P lo hi θ tp : ℚ) (ha : a.mant < 2 ^ 64) (hp : p.mant < 2 ^ 64)
    (hP : P = tp * 2 ^ p.exp) (htp1 : (p.mant : ℚ) ≤ tp) (htp2 : tp ≤ p.mant + θ) (htp64 : tp ≤ 2 ^ 64)
    (hlo0 : lo ≤ 0) (hhi0 : 0 ≤ hi) (ht : Tracks a V lo hi) :
    Tracks (mul a p) (V * P) (lo - 1 / 2) (hi + θ + 1 / 2) := by
  obtain ⟨t, hV, h1, h2⟩ := ht
  rw [mul_eq a p ha hp]
  obtain ⟨b1, b2, _⟩ := mul_bounds a.mant p.mant ha hp
  generalize hm' : (a.mant * p.mant + 2 ^ 63) / 2 ^ 64 = m' at *
  have q1 : 2 * ((m' : ℚ) * 2 ^ 64) ≤ 2 * ((a.mant : ℚ) * p.mant) + 2 ^ 64 := by exact_mod_cast b1
  have q2 : 2 * ((a.mant : ℚ) * p.mant) ≤ 2 * ((m' : ℚ) * 2 ^ 64) + 2 ^ 64 := by
    have : 2 * (a.mant * p.mant) ≤ 2 * (m' * 2 ^ 64) + 2 ^ 64 := by omega
    exact_mod_cast this
  have ha' : (a.mant : ℚ) ≤ 2 ^ 64 := by
    have : a.mant ≤ 2 ^ 64 := by omega
    exact_mod_cast this
  have hp0 : (0 : ℚ) ≤ p.mant := by positivity
  obtain ⟨e1, e2⟩ := mul_err a.mant p.mant m' t tp lo hi θ (by positivity) ha' htp1 htp2 htp64 (by linarith)
    q1 q2 h1 h2 hlo0 hhi0
  refine ⟨t * tp / 2 ^ 64, ?_, e1, e2⟩
  simp only []
  rw [hV, hP]
  have e64 : ((64 : Nat) : Int) = 64 := rfl
  rw [show a.exp + p.exp + (64 : Int) = a.exp + p.exp + ((64 : Nat) : Int) from rfl,
    zpow_add₀ (by norm_num : (2 : ℚ) ≠ 0), zpow_add₀ (by norm_num : (2 : ℚ) ≠ 0), zpow_natCast]
  field_simp

/-- an exact extended float -/
theorem tracks_exact (m : Nat) (x : Int) (V : ℚ) (hV : V = m * 2 ^ x) : Tracks { mant := m, exp := x } V 0 0 :=
  ⟨m, hV, by simp, by simp⟩

theorem tracks_mono {fp : ExtFloat} {V lo hi lo' hi' : ℚ} (h : Tracks fp V lo hi) (h1 : lo' ≤ lo) (h2 : hi ≤ hi') :
    Tracks fp V lo' hi' := by
  obtain ⟨t, hV, a, b⟩ := h
  exact ⟨t, hV, by linarith, by linarith⟩

end SJ.Proofs.LexModerateErr
