import SJ.Props.C08Parser
import SJ.Proofs.LexTopRoundtrip
import SJ.Proofs.RoundTrip
import SJ.Spec.WF
import SJ.Proofs.FloatLiteral53
/-!
# C04, default build: the float hypothesis for doubles that print as short literals

`Props/C04.lean` carries the hypothesis `FloatsRoundTrip cfg ext v` (for every `Float(b)` in `v`: the text `ryu` prints for
`b`, converted by the configured algorithm, is `Float(b)` again). Under `float_roundtrip` it is discharged from `RyuShortest`
(`Proofs/LexTopParser.floatRT_fr`). Here it is discharged for the DEFAULT conversion (`Model.Num.convertDefault`, the model of
`de.rs` `parse_integer` / `parse_decimal` / `parse_exponent` / `f64_from_parts`) on exactly the class C04's statement names —
"f64 values that print as short literals" — in the reading C08 proves exact (`c08_exact_short`) and the harness generates
(`harness/src/c04.rs` `prints_short`): the digits of the printed text, integer and fraction part together, leading zeros
dropped, are at most 15 (`sigVal < 10^15`) and the net decimal exponent — written exponent minus the number of fraction digits —
lies within ±22.

The argument: `RyuShortest.f64_nearest` says the exact value of the printed text rounds (nearest, ties to even) to `b`;
`c08_exact_short` says the default conversion of a short literal *is* that rounding; `RyuShortest.f64_text` (a fraction or an
exponent is written) puts the literal on the float path, so the number stored is `Float(b)` and not an integer.
-/
namespace SJ.Proofs.C04Short
open SJ SJ.Spec.Ieee SJ.Spec.Decimal SJ.Spec.WF
open SJ.Spec.Grammar (NumParts IsNumber)
open SJ.Spec.Canon (partsOf numOf)
open SJ.Spec.Number (splitNumber)
open SJ.Spec.Program (Ext ExtOK finite64)
open SJ.Proofs.NumLinkParser (litOf)
open SJ.Proofs.LexTopRoundtrip (RyuText RyuShortest)

/-- C08's exact window, on a literal as `Spec.Decimal` reads it: at most 15 digits after dropping leading zeros, net decimal
    exponent within ±22 -/
def shortLit (l : NumLit) : Bool :=
  decide (l.sigVal < 10 ^ 15) && decide (-22 ≤ l.netExp) && decide (l.netExp ≤ 22)

/-- a number text is a short literal (`harness/src/c04.rs` `prints_short` evaluates the same on the text the crate prints) -/
def shortText (bs : Bytes) : Bool := shortLit (litOf (splitNumber bs))

/-- the wider window the exactness argument really uses: the digits as written, read as one integer, are below `2^53` (so the
    significand converts to `f64` exactly), net decimal exponent within ±22 -/
def exactLit (l : NumLit) : Bool :=
  decide (l.sigVal < 2 ^ 53) && decide (-22 ≤ l.netExp) && decide (l.netExp ≤ 22)

def exactText (bs : Bytes) : Bool := exactLit (litOf (splitNumber bs))

mutual
/-- every `Float` in the value is finite (a `Value` holds no other: `Number::from_f64`; part of `WFValue` too) and the text
    `ext.ryu64` prints for it satisfies `P` -/
def floatsIn (P : Bytes → Bool) (ext : Ext) : JV → Bool
  | .num (.float b) => finite64 b && P (ext.ryu64 b)
  | .arr xs => floatsInL P ext xs
  | .obj kvs => floatsInM P ext kvs
  | _ => true
def floatsInL (P : Bytes → Bool) (ext : Ext) : List JV → Bool
  | [] => true
  | x :: xs => floatsIn P ext x && floatsInL P ext xs
def floatsInM (P : Bytes → Bool) (ext : Ext) : List (Bytes × JV) → Bool
  | [] => true
  | (_, x) :: kvs => floatsIn P ext x && floatsInM P ext kvs
end

/-- every `Float` in the value is finite and prints as a short literal -/
def shortFloats (ext : Ext) (v : JV) : Bool := floatsIn shortText ext v
/-- every `Float` in the value is finite and prints inside the wider window -/
def exactFloats (ext : Ext) (v : JV) : Bool := floatsIn exactText ext v

theorem shortLit_iff (l : NumLit) : shortLit l = true ↔ l.sigVal < 10 ^ 15 ∧ -22 ≤ l.netExp ∧ l.netExp ≤ 22 := by
  unfold shortLit
  simp only [Bool.and_eq_true, decide_eq_true_eq, and_assoc]

/-- a text of `ryu`'s shape (a fraction or an exponent is written) is on the float path of the default conversion -/
theorem floatPath_of_written (p : NumParts) (hwf : p.WF = true) (hfe : p.frac ≠ [] ∨ p.exp ≠ []) :
    NumLink.FloatPath (Model.FloatDefault.partsOfLiteral (litOf p)) := by
  apply Classical.byContradiction
  intro hn
  obtain ⟨hf, he, _, _⟩ := NumLinkParser.frac_exp_empty p hwf hn
  rcases hfe with h | h
  · exact h hf
  · exact h he

theorem exactLit_iff (l : NumLit) : exactLit l = true ↔ l.sigVal < 2 ^ 53 ∧ -22 ≤ l.netExp ∧ l.netExp ≤ 22 := by
  unfold exactLit
  simp only [Bool.and_eq_true, decide_eq_true_eq, and_assoc]

/-- 15 digits are below `2^53`: a short text lies in the wider window -/
theorem exactText_of_short (bs : Bytes) (h : shortText bs = true) : exactText bs = true := by
  unfold shortText at h; unfold exactText
  obtain ⟨hD, h1, h2⟩ := (shortLit_iff _).1 h
  exact (exactLit_iff _).2 ⟨by have : (10 : Nat) ^ 15 < 2 ^ 53 := by decide
                               omega, h1, h2⟩

/-- the common part: a number text with a fraction or an exponent, at most 24 bytes long, on which the default conversion is
    the nearest-even rounding of the exact value, and whose exact value rounds to `b`, is stored as `Float(b)` -/
theorem numOf_at_of_exact (cfg : Spec.Canon.Cfg) (hfr : cfg.fr = false) (hap : cfg.ap = false) (bs : Bytes) (b : UInt64)
    (hn : IsNumber bs) (ht : RyuText bs)
    (hexact : (splitNumber bs).WF = true → (litOf (splitNumber bs)).fracDigits.length < 2 ^ 30 →
      Model.FloatDefault.floatOfLiteral (litOf (splitNumber bs)) =
        roundNE64 (litOf (splitNumber bs)).neg (litOf (splitNumber bs)).exact.1 (litOf (splitNumber bs)).exact.2)
    (hnear : roundNE64 (litOf (splitNumber bs)).neg (litOf (splitNumber bs)).exact.1 (litOf (splitNumber bs)).exact.2 = some b) :
    numOf cfg (splitNumber bs) = some (.float b) := by
  obtain ⟨hwf, hbytes⟩ := SJ.Proofs.Number.splitNumber_of_isNumber bs hn
  obtain ⟨hlen24, hfe, _⟩ := ht
  generalize splitNumber bs = p at *
  have hlen : (litOf p).fracDigits.length < 2 ^ 30 := by
    rw [NumLinkParser.litOf_frac, List.length_drop]
    have := congrArg List.length hbytes
    unfold NumParts.bytes at this
    simp only [List.length_append] at this
    omega
  have hex := hexact hwf hlen
  rw [hnear] at hex
  obtain ⟨hp1, hp2⟩ := floatPath_of_written p hwf hfe
  rw [NumLinkParser.numOf_eq_numOfLit cfg hfr hap p hwf]
  exact NumLink.numOfLit_of_float (litOf p) b hex hp1 hp2

/-- **the default conversion on one short text**: a number text with a fraction or an exponent, at most 24 bytes long, inside
    C08's exact window, whose exact value rounds to `b`: `Spec.Canon.numOf` (= `Model.Num.convertDefault` of the scanned parts)
    is `Float(b)` — by `c08_exact_short` -/
theorem numOf_short_at (cfg : Spec.Canon.Cfg) (hfr : cfg.fr = false) (hap : cfg.ap = false) (bs : Bytes) (b : UInt64)
    (hn : IsNumber bs) (ht : RyuText bs) (hs : shortText bs = true)
    (hnear : roundNE64 (litOf (splitNumber bs)).neg (litOf (splitNumber bs)).exact.1 (litOf (splitNumber bs)).exact.2 = some b) :
    numOf cfg (splitNumber bs) = some (.float b) := by
  unfold shortText at hs
  obtain ⟨hD, h1, h2⟩ := (shortLit_iff _).1 hs
  exact numOf_at_of_exact cfg hfr hap bs b hn ht
    (fun hwf hlen => SJ.Props.C08.c08_exact_short _ (NumLinkParser.litOf_wf _ hwf) hD h1 h2 hlen) hnear

/-- the same on the wider window (`floatOfLiteral_exact53`: C08's argument with the bound it really uses) -/
theorem numOf_exact_at (cfg : Spec.Canon.Cfg) (hfr : cfg.fr = false) (hap : cfg.ap = false) (bs : Bytes) (b : UInt64)
    (hn : IsNumber bs) (ht : RyuText bs) (hs : exactText bs = true)
    (hnear : roundNE64 (litOf (splitNumber bs)).neg (litOf (splitNumber bs)).exact.1 (litOf (splitNumber bs)).exact.2 = some b) :
    numOf cfg (splitNumber bs) = some (.float b) := by
  unfold exactText at hs
  obtain ⟨hD, h1, h2⟩ := (exactLit_iff _).1 hs
  exact numOf_at_of_exact cfg hfr hap bs b hn ht
    (fun hwf hlen => SJ.Proofs.FloatDefault.floatOfLiteral_exact53 _ (NumLinkParser.litOf_wf _ hwf) hD h1 h2 hlen) hnear

/-- C04's float hypothesis for one double, default conversion, from `RyuShortest` and the shortness of the printed text -/
theorem floatRT_short (cfg : Spec.Canon.Cfg) (hfr : cfg.fr = false) (hap : cfg.ap = false) (ext : Ext) (hext : ExtOK ext)
    (hr : RyuShortest ext) (b : UInt64) (hb : finite64 b = true) (hs : shortText (ext.ryu64 b) = true) :
    floatRT cfg ext b = true := by
  unfold floatRT
  rw [numOf_short_at cfg hfr hap _ b (hext.ryu64_number b hb) (hr.f64_text b hb) hs (hr.f64_nearest b hb)]
  simp

theorem floatRT_exact (cfg : Spec.Canon.Cfg) (hfr : cfg.fr = false) (hap : cfg.ap = false) (ext : Ext) (hext : ExtOK ext)
    (hr : RyuShortest ext) (b : UInt64) (hb : finite64 b = true) (hs : exactText (ext.ryu64 b) = true) :
    floatRT cfg ext b = true := by
  unfold floatRT
  rw [numOf_exact_at cfg hfr hap _ b (hext.ryu64_number b hb) (hr.f64_text b hb) hs (hr.f64_nearest b hb)]
  simp

mutual
/-- if the printer/parser pair returns every finite double whose text satisfies `P`, it returns the floats of a value all of
    whose floats are of that kind -/
theorem floatsRT_of_in (c : Spec.Canon.Cfg) (ext : Ext) (P : Bytes → Bool)
    (hP : ∀ b, finite64 b = true → P (ext.ryu64 b) = true → floatRT c ext b = true) :
    ∀ v : JV, floatsIn P ext v = true → floatsRT c ext v = true
  | .null, _ => rfl
  | .bool _, _ => rfl
  | .num (.pos _), _ => rfl
  | .num (.neg _), _ => rfl
  | .num (.float b), hs => by
    simp only [floatsIn, Bool.and_eq_true] at hs
    simp only [floatsRT]; exact hP b hs.1 hs.2
  | .num (.lit _), _ => rfl
  | .str _, _ => rfl
  | .arr xs, hs => by
    simp only [floatsIn] at hs
    simp only [floatsRT]; exact floatsRTs_of_in c ext P hP xs hs
  | .obj kvs, hs => by
    simp only [floatsIn] at hs
    simp only [floatsRT]; exact floatsRTm_of_in c ext P hP kvs hs
theorem floatsRTs_of_in (c : Spec.Canon.Cfg) (ext : Ext) (P : Bytes → Bool)
    (hP : ∀ b, finite64 b = true → P (ext.ryu64 b) = true → floatRT c ext b = true) :
    ∀ xs : List JV, floatsInL P ext xs = true → floatsRTs c ext xs = true
  | [], _ => rfl
  | x :: xs, hs => by
    simp only [floatsInL, Bool.and_eq_true] at hs
    simp [floatsRTs, floatsRT_of_in c ext P hP x hs.1, floatsRTs_of_in c ext P hP xs hs.2]
theorem floatsRTm_of_in (c : Spec.Canon.Cfg) (ext : Ext) (P : Bytes → Bool)
    (hP : ∀ b, finite64 b = true → P (ext.ryu64 b) = true → floatRT c ext b = true) :
    ∀ kvs : List (Bytes × JV), floatsInM P ext kvs = true → floatsRTm c ext kvs = true
  | [], _ => rfl
  | (_, x) :: kvs, hs => by
    simp only [floatsInM, Bool.and_eq_true] at hs
    simp [floatsRTm, floatsRT_of_in c ext P hP x hs.1, floatsRTm_of_in c ext P hP kvs hs.2]
end

/-- the floats of a value all of which print as short literals are returned by the default printer/parser pair -/
theorem floatsRT_of_short (c : Spec.Canon.Cfg) (hfr : c.fr = false) (hap : c.ap = false) (ext : Ext) (hext : ExtOK ext)
    (hr : RyuShortest ext) (v : JV) (hs : shortFloats ext v = true) : floatsRT c ext v = true :=
  floatsRT_of_in c ext shortText (fun b hb h => floatRT_short c hfr hap ext hext hr b hb h) v hs

/-- the same on the wider window -/
theorem floatsRT_of_exact (c : Spec.Canon.Cfg) (hfr : c.fr = false) (hap : c.ap = false) (ext : Ext) (hext : ExtOK ext)
    (hr : RyuShortest ext) (v : JV) (hs : exactFloats ext v = true) : floatsRT c ext v = true :=
  floatsRT_of_in c ext exactText (fun b hb h => floatRT_exact c hfr hap ext hext hr b hb h) v hs

mutual
/-- the class is monotone in the predicate on the printed text -/
theorem floatsIn_mono (ext : Ext) (P Q : Bytes → Bool) (hPQ : ∀ bs, P bs = true → Q bs = true) :
    ∀ v : JV, floatsIn P ext v = true → floatsIn Q ext v = true
  | .null, _ => rfl
  | .bool _, _ => rfl
  | .num (.pos _), _ => rfl
  | .num (.neg _), _ => rfl
  | .num (.float b), hs => by
    simp only [floatsIn, Bool.and_eq_true] at hs ⊢
    exact ⟨hs.1, hPQ _ hs.2⟩
  | .num (.lit _), _ => rfl
  | .str _, _ => rfl
  | .arr xs, hs => by
    simp only [floatsIn] at hs ⊢; exact floatsInL_mono ext P Q hPQ xs hs
  | .obj kvs, hs => by
    simp only [floatsIn] at hs ⊢; exact floatsInM_mono ext P Q hPQ kvs hs
theorem floatsInL_mono (ext : Ext) (P Q : Bytes → Bool) (hPQ : ∀ bs, P bs = true → Q bs = true) :
    ∀ xs : List JV, floatsInL P ext xs = true → floatsInL Q ext xs = true
  | [], _ => rfl
  | x :: xs, hs => by
    simp only [floatsInL, Bool.and_eq_true] at hs ⊢
    exact ⟨floatsIn_mono ext P Q hPQ x hs.1, floatsInL_mono ext P Q hPQ xs hs.2⟩
theorem floatsInM_mono (ext : Ext) (P Q : Bytes → Bool) (hPQ : ∀ bs, P bs = true → Q bs = true) :
    ∀ kvs : List (Bytes × JV), floatsInM P ext kvs = true → floatsInM Q ext kvs = true
  | [], _ => rfl
  | (_, x) :: kvs, hs => by
    simp only [floatsInM, Bool.and_eq_true] at hs ⊢
    exact ⟨floatsIn_mono ext P Q hPQ x hs.1, floatsInM_mono ext P Q hPQ kvs hs.2⟩
end

end SJ.Proofs.C04Short
