import SJ.Proofs.StreamTyped
import SJ.Proofs.TypedSrc
import SJ.Proofs.TypedWithin
/-!
# Streams of typed items across the three sources (C09)

Slice / reader: `SR` on the two `deTyped` results (`sr_deTyped`) pushed through `afterDe` — the two stream STATES are
always equal (an error leaves the state `failAt` in both runs), the two items are equal or differ by the reader's `+ 1`
at the sites `c09_typed_slice_reader` names. `&str` / slice: `SU` (`sim_str_slice`) — equal calls as long as the unread
input is valid UTF-8, which every successful item hands on.
-/
namespace SJ.Proofs.StreamTyped
open SJ SJ.Gen SJ.Model SJ.Model.Typed SJ.Model.StreamTyped SJ.Proofs.Typed SJ.Props.Typed
open SJ.Model.Stream (SS skipWs isSelfDelineated isStreamDelim start)
open SJ.Spec.Utf8 (validUtf8)

/-- the slice's item against the reader's: identical, or the reader's index is the slice's plus one — at a parser error
    with a `PeekCode`, or at a positioned visitor error — and then the slice's index is that of a byte of the input -/
inductive ItemSR (N : Nat) : TItem → TItem → Prop
  | same (x : TItem) : ItemSR N x x
  | errP (c : Code) (i : Nat) (h : PeekCode c) (hi : i < N) : ItemSR N (.err c i) (.err c (i + 1))
  | dataP (i : Nat) (hi : i < N) : ItemSR N (.data (some i)) (.data (some (i + 1)))

theorem afterDe_sr (N : Nat) (flt : Bool) (b : UInt8) (r : Bytes) (p : Nat) (x y : TOut) (h : SR x y) (hw : Win N y) :
    (afterDe flt b r p x).2 = (afterDe flt b r p y).2 ∧ ItemSR N (afterDe flt b r p x).1 (afterDe flt b r p y).1 := by
  cases h with
  | same => exact ⟨rfl, .same _⟩
  | errP c i hc => exact ⟨rfl, .errP c i hc (by have := hw.1 c (i + 1) rfl; omega)⟩
  | dataP i => exact ⟨rfl, .dataP i (by have := hw.2.1 (i + 1) rfl; omega)⟩

/-- **one call, slice against reader**: the same state afterwards, items related by `ItemSR` -/
theorem nextT_sr (cfg : Machine.Cfg) (flt : Bool) (s : Schema) (N : Nat) (st : SS) (hl : Live N st) :
    (nextT (eSlice cfg flt) s st).2 = (nextT (eReader cfg flt) s st).2 ∧
    ItemSR N (nextT (eSlice cfg flt) s st).1 (nextT (eReader cfg flt) s st).1 := by
  cases hf : st.failed with
  | true => rw [nextT_failed _ s st hf, nextT_failed _ s st hf]; exact ⟨rfl, .same _⟩
  | false =>
    obtain ⟨_, h2⟩ := hl hf
    cases hsk : skipWs st.rest st.pos with
    | mk r p =>
      have hs := skipWs_eq hsk
      cases r with
      | nil => rw [nextT_ws _ s st hf p hsk, nextT_ws _ s st hf p hsk]; exact ⟨rfl, .same _⟩
      | cons b r =>
        rw [nextT_item _ s st hf b r p hsk, nextT_item _ s st hf b r p hsk]
        exact afterDe_sr N flt b r p _ _ (sr_deTyped cfg flt _ 0 s (b :: r) p) (win_deTyped _ 0 s (b :: r) p (by omega))

/-- two histories, call by call: items related by `ItemSR`, the SAME `byte_offset()` after each call -/
inductive HistSR (N : Nat) : List (TItem × Nat) → List (TItem × Nat) → Prop
  | nil : HistSR N [] []
  | cons {x y : TItem} {o : Nat} {h1 h2 : List (TItem × Nat)} (hi : ItemSR N x y) (ht : HistSR N h1 h2) :
      HistSR N ((x, o) :: h1) ((y, o) :: h2)

theorem historyT_sr (cfg : Machine.Cfg) (flt : Bool) (s : Schema) (N : Nat) : ∀ (k : Nat) (st : SS), Live N st →
    HistSR N (historyT (eSlice cfg flt) s k st) (historyT (eReader cfg flt) s k st)
  | 0, _, _ => .nil
  | k + 1, st, hl => by
    obtain ⟨h1, h2⟩ := nextT_sr cfg flt s N st hl
    have ih := historyT_sr cfg flt s N k _ (nextT_facts (eSlice cfg flt) s N st hl).live
    simp only [historyT]
    rw [h1] at ih ⊢
    exact .cons h2 ih

/-! ## `&str` / slice -/

/-- the unread input after a call stays valid UTF-8 when the item's own rest is -/
theorem afterDe_valid (flt : Bool) (b : UInt8) (r : Bytes) (p : Nat) (x : TOut)
    (hok : ∀ v rest' e, x = .ok v rest' e → validUtf8 rest' = true) :
    (afterDe flt b r p x).2.failed = true ∨ validUtf8 (afterDe flt b r p x).2.rest = true := by
  cases x with
  | ok v rest' e =>
    have hr := hok v rest' e rfl
    cases hsd : isSelfDelineated b with
    | true => rw [afterDe_ok_sd _ _ _ _ _ _ _ hsd]; exact .inr hr
    | false =>
      cases rest' with
      | nil => rw [afterDe_ok_nil _ _ _ _ _ _ hsd]; split <;> first | exact .inl rfl | exact .inr hr
      | cons d tl => rw [afterDe_ok_cons _ _ _ _ _ _ _ _ hsd]; split <;> exact .inr hr
  | _ => exact .inl rfl

/-- **one call, `&str` against slice**, the unread input being valid UTF-8 (or the stream having failed): the same
    call, and the unread input is valid UTF-8 again -/
theorem nextT_su (cfg : Machine.Cfg) (flt : Bool) (s : Schema) (st : SS) (hv : st.failed = true ∨ validUtf8 st.rest = true) :
    nextT (eStr cfg flt) s st = nextT (eSlice cfg flt) s st ∧
    ((nextT (eSlice cfg flt) s st).2.failed = true ∨ validUtf8 (nextT (eSlice cfg flt) s st).2.rest = true) := by
  cases hf : st.failed with
  | true => rw [nextT_failed _ s st hf, nextT_failed _ s st hf]; exact ⟨rfl, .inl hf⟩
  | false =>
    have hv : validUtf8 st.rest = true := by
      rcases hv with h | h
      · rw [hf] at h; cases h
      · exact h
    have hsv := sim_skipWs (sim_str_slice cfg flt) st.rest st.pos hv
    cases hsk : skipWs st.rest st.pos with
    | mk r p =>
      rw [hsk] at hsv
      simp only at hsv
      cases r with
      | nil =>
        rw [nextT_ws _ s st hf p hsk, nextT_ws _ s st hf p hsk]
        refine ⟨rfl, ?_⟩
        show (if flt = true then _ else _ : TItem × SS).2.failed = true ∨ validUtf8 (if flt = true then _ else _ : TItem × SS).2.rest = true
        cases flt
        · exact .inr (by simp only [Bool.false_eq_true, if_false]; decide)
        · exact .inl rfl
      | cons b r =>
        rw [nextT_item _ s st hf b r p hsk, nextT_item _ s st hf b r p hsk]
        obtain ⟨he, hok⟩ := sim_deTyped (sim_str_slice cfg flt) (Schema.size s + 1) 0 s (b :: r) p hsv
        unfold deItem
        rw [he] at hok ⊢
        exact ⟨rfl, afterDe_valid _ b r p _ hok⟩

theorem historyT_su (cfg : Machine.Cfg) (flt : Bool) (s : Schema) : ∀ (k : Nat) (st : SS),
    (st.failed = true ∨ validUtf8 st.rest = true) →
    historyT (eStr cfg flt) s k st = historyT (eSlice cfg flt) s k st
  | 0, _, _ => rfl
  | k + 1, st, hv => by
    obtain ⟨h1, h2⟩ := nextT_su cfg flt s st hv
    simp only [historyT, h1]
    rw [historyT_su cfg flt s k _ h2]

end SJ.Proofs.StreamTyped
