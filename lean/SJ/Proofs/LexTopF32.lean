import SJ.Proofs.LexTopRoundtrip
/-!
# C07 top level, part 7: serde's `as f32` on the widened result gives the `f32` back

Under `float_roundtrip`, `deserialize_f32` makes lexical parse straight to `f32` and hands `f as f64` to the visitor,
whose `visit_f64` casts back (`as f32`). `toF32_toF64`: for a finite binary32 pattern `b`,
`F64.toF32 (F32.toF64 b) = b` — the widening is exact (every binary32 value is a binary64 value) and rounding a
representable value returns it. Hence the `f32` clause of `c07_roundtrip` bit for bit.
-/
namespace SJ.Proofs.LexTopF32
open SJ SJ.Gen SJ.Model.Lexical SJ.Model.Num SJ.Spec.Ieee
open SJ.Proofs.Ieee SJ.Proofs.LexRound SJ.Proofs.LexBh

theorem bits32_self (b : UInt32) : bits32 (F32.sign b) (F32.absBits b) = b := by
  apply UInt32.toNat_inj.1
  have hlt := b.toNat_lt
  unfold bits32 F32.sign F32.absBits
  rw [b32_signBit, UInt32.toNat_ofNat']
  by_cases h : b.toNat / 2 ^ 31 = 1
  · have : (b.toNat / 2 ^ 31 == 1) = true := by simpa using h
    rw [this]; simp only [if_true]; omega
  · have : (b.toNat / 2 ^ 31 == 1) = false := by simpa using h
    rw [this]; simp only [Bool.false_eq_true, if_false]; omega

theorem F32.finite_not_inf (b : UInt32) (h : F32.isFinite b = true) : F32.isInf b = false := by
  unfold F32.isFinite at h; unfold F32.isInf
  have : (F32.expField b == 255) = false := by simpa using h
  rw [this]; rfl

theorem pow_chain (a b c d : Nat) (h : a + b ≤ c + d) : 2 ^ a * 2 ^ b ≤ 2 ^ c * 2 ^ d := by
  rw [← Nat.pow_add, ← Nat.pow_add]; exact Nat.pow_le_pow_right (by decide) h

/-- a representable magnitude is returned by `roundMag` (any positive scaling of the fraction) -/
theorem roundMag_repr {c : FC} {F : Fmt} (h : FCok c F) (u : Nat) (hu : u < F.infBits) (d : Nat) (hd : 0 < d) :
    roundMag F (magOfBits F u * d) d = u := by
  obtain ⟨m, k, _, _, hmag, _, hm2, _⟩ := decode h u hu
  have hcongr : roundMag F (magOfBits F u * d) d = roundMag F (magOfBits F u) 1 :=
    roundMag_congr F _ _ _ _ hd Nat.one_pos (by ring)
  rw [hcongr]
  apply magOfBits_inj F
  have hk : kOf F (magOfBits F u) 1 ≤ k := by
    unfold kOf
    rw [Nat.div_one, hmag]
    rcases Nat.eq_zero_or_pos (m * 2 ^ k) with h0 | hpos
    · rw [h0]; simp [Nat.log2]
    · have : (m * 2 ^ k).log2 < F.mbits + 1 + k := by
        rw [Nat.log2_lt (by omega)]
        calc m * 2 ^ k < 2 ^ (F.mbits + 1) * 2 ^ k := Nat.mul_lt_mul_of_pos_right hm2 (pow_pos' _)
          _ = 2 ^ (F.mbits + 1 + k) := by rw [← Nat.pow_add]
      omega
  have := roundMag_exact F (magOfBits F u) 1 (m * 2 ^ (k - kOf F (magOfBits F u) 1)) Nat.one_pos (by
    generalize kOf F (magOfBits F u) 1 = k' at hk ⊢
    have : 2 ^ k = 2 ^ (k - k') * 2 ^ k' := by rw [← Nat.pow_add]; congr 1; omega
    rw [hmag, Nat.one_mul, Nat.mul_assoc, ← this])
  simpa using this

/-- **`(x as f64) as f32 = x`** for every finite `x : f32` -/
theorem toF32_toF64 (b : UInt32) (hb : F32.isFinite b = true) : F64.toF32 (F32.toF64 b) = b := by
  have hu : F32.absBits b < b32.infBits := (F32.isFinite_iff b).1 hb
  obtain ⟨m, k, _, _, hmag, hk, hm2, _⟩ := decode fcok32 (F32.absBits b) hu
  have hM : F32.mag b = m * 2 ^ k := hmag
  have hk253 : k ≤ 253 := by
    have : F32.absBits b / 2 ^ b32.mbits < 255 := by
      rw [Nat.div_lt_iff_lt_mul (pow_pos' _)]; exact hu
    omega
  have hm24 : m < 2 ^ 24 := hm2
  have hden : 0 < 2 ^ 149 := pow_pos' 149
  unfold F32.toF64
  rw [F32.finite_not_inf b hb]
  simp only [Bool.false_eq_true, if_false]
  -- the widening is finite and exact
  have hMlt : F32.mag b < 2 ^ 24 * 2 ^ 253 := by
    rw [hM]
    calc m * 2 ^ k < 2 ^ 24 * 2 ^ k := Nat.mul_lt_mul_of_pos_right hm24 (pow_pos' _)
      _ ≤ 2 ^ 24 * 2 ^ 253 := Nat.mul_le_mul_left _ (Nat.pow_le_pow_right (by decide) hk253)
  have hno : ¬ Overflows64 (F32.mag b) (2 ^ 149) := by
    apply not_overflows64_of_lt
    exact Nat.lt_of_lt_of_le hMlt (pow_chain 24 253 1023 149 (by decide))
  rcases roundOrInf_cases (F32.sign b) (F32.mag b) (2 ^ 149) hden with ⟨_, hr, hfin, hsign⟩ | ⟨hov, _⟩
  swap
  · exact absurd hov hno
  generalize F64.roundOrInf (F32.sign b) (F32.mag b) (2 ^ 149) = r at *
  have hkof : kOf b64 (F32.mag b * 2 ^ 1074) (2 ^ 149) ≤ k + 925 := by
    unfold kOf
    rw [b64_mbits]
    have e : F32.mag b * 2 ^ 1074 / 2 ^ 149 = m * 2 ^ (k + 925) := by
      rw [hM]
      have : m * 2 ^ k * 2 ^ 1074 = m * 2 ^ (k + 925) * 2 ^ 149 := by
        rw [Nat.mul_assoc, Nat.mul_assoc, ← Nat.pow_add, ← Nat.pow_add]
      rw [this, Nat.mul_div_cancel _ hden]
    rw [e]
    rcases Nat.eq_zero_or_pos (m * 2 ^ (k + 925)) with h0 | hpos
    · rw [h0]; simp [Nat.log2]
    · have : (m * 2 ^ (k + 925)).log2 < 24 + (k + 925) := by
        rw [Nat.log2_lt (by omega)]
        calc m * 2 ^ (k + 925) < 2 ^ 24 * 2 ^ (k + 925) := Nat.mul_lt_mul_of_pos_right hm24 (pow_pos' _)
          _ = 2 ^ (24 + (k + 925)) := by rw [← Nat.pow_add]
      omega
  have hexact := roundNE64_exact (F32.sign b) (F32.mag b) (2 ^ 149) r
    (m * 2 ^ (k + 925 - kOf b64 (F32.mag b * 2 ^ 1074) (2 ^ 149))) hden hr (by
      generalize kOf b64 (F32.mag b * 2 ^ 1074) (2 ^ 149) = k' at hkof ⊢
      rw [hM]
      have : m * 2 ^ k * 2 ^ 1074 = m * 2 ^ (k + 925 - k' + (149 + k')) := by
        rw [Nat.mul_assoc, ← Nat.pow_add]; congr 2; omega
      rw [this, Nat.pow_add, Nat.pow_add]; ring)
  -- back to binary32
  unfold F64.toF32
  rw [F64.finite_not_nan _ hfin, F64.finite_not_inf _ hfin, hsign]
  simp only [Bool.false_eq_true, if_false]
  unfold F32.roundOrInf
  rw [roundNE32_congr (F32.sign b) (F64.mag r) (2 ^ 1074) (F32.mag b) (2 ^ 149) (pow_pos' _) hden hexact,
    Ieee.roundNE32_eq]
  have hrm : roundMag b32 (F32.mag b * 2 ^ 149) (2 ^ 149) = F32.absBits b := roundMag_repr fcok32 _ hu _ hden
  rw [hrm, if_pos hu, bits32_self]
  rfl

/-- `f32::is_finite` of the serializer model and of the IEEE specification are the same test -/
theorem finite32_eq_isFinite (b : UInt32) : Spec.Program.finite32 b = F32.isFinite b := by
  have h : ((b >>> 23) &&& 0xff).toNat = F32.expField b := by
    rw [UInt32.toNat_and, UInt32.toNat_shiftRight]
    show b.toNat >>> 23 &&& 2 ^ 8 - 1 = b.toNat / 2 ^ 23 % 2 ^ 8
    rw [Nat.and_two_pow_sub_one_eq_mod, Nat.shiftRight_eq_div_pow]
  unfold Spec.Program.finite32 F32.isFinite
  rw [← h, Bool.eq_iff_iff, bne_iff_ne, bne_iff_ne, ne_eq, ne_eq, ← UInt32.toNat_inj]
  rfl

/-- **print → parse → `as f32`, binary32**: the value the `f32` visitor ends with is the float printed -/
theorem roundtrip32_cast (ext : Spec.Program.Ext) (hext : Spec.Program.ExtOK ext)
    (hr : SJ.Proofs.LexTopRoundtrip.RyuShortest ext) (b : UInt32) (hb : Spec.Program.finite32 b = true) :
    ∃ w, deFloatRoundtrip true (Spec.Canon.partsOf (Spec.Number.splitNumber (ext.ryu32 b))) = .f64 w ∧ F64.toF32 w = b :=
  ⟨F32.toF64 b, SJ.Proofs.LexTopRoundtrip.roundtrip32 ext hext hr b hb,
    toF32_toF64 b (by rw [← finite32_eq_isFinite]; exact hb)⟩

end SJ.Proofs.LexTopF32
