import SJ.Proofs.FloatLiteral
import SJ.Proofs.FloatZero
/-!
# Digit collection with dropped digits

`parse_integer` keeps integer digits while `significand·10 + digit ≤ u64::MAX`; `parse_long_integer`
(default build) drops the rest, counting them into the exponent. `parse_decimal` then *tries again* on
the fraction digits (it may append one more digit: `18446744073709551616.5` ends as
`18446744073709551615·10^0`), and `parse_decimal_overflow` drops what is left.

Result (`collect_spec`): the significand `s` and the number `g` of decimal places it was shifted by
satisfy `s·10^g ≤ D ≤ s·10^g·(1 + 10^-18)`, `D` = the literal's digits read as one integer — the parsed
value never exceeds the exact one and misses it by less than `10^-18` relative.
-/
namespace SJ.Proofs.FloatDefault
open SJ SJ.Spec.Ieee SJ.Spec.Decimal SJ.Model.FloatDefault SJ.Proofs.Ieee

theorem ten_pow_pos (n : Nat) : 0 < 10 ^ n := Nat.pos_of_ne_zero (by simp)

/-- a digit string appended to `sig` lands in `[sig·10^n, (sig+1)·10^n)` -/
theorem digitsFrom_bounds (ds : Bytes) : ∀ sig, ds.all isDigit = true →
    sig * 10 ^ ds.length ≤ digitsFrom sig ds ∧ digitsFrom sig ds + 1 ≤ (sig + 1) * 10 ^ ds.length := by
  induction ds with
  | nil => intro sig _; simp [digitsFrom]
  | cons c cs ih =>
    intro sig hd
    simp only [List.all_cons, Bool.and_eq_true] at hd
    have hc := digitVal_le c hd.1
    obtain ⟨h1, h2⟩ := ih (sig * 10 + digitVal c) hd.2
    rw [digitsFrom_cons, List.length_cons, Nat.pow_succ]
    generalize 10 ^ cs.length = P at h1 h2 ⊢
    generalize digitsFrom (sig * 10 + digitVal c) cs = D at h1 h2 ⊢
    constructor
    · calc sig * (P * 10) = (sig * 10) * P := by ring
        _ ≤ (sig * 10 + digitVal c) * P := Nat.mul_le_mul_right _ (by omega)
        _ ≤ D := h1
    · calc D + 1 ≤ (sig * 10 + digitVal c + 1) * P := h2
        _ ≤ ((sig + 1) * 10) * P := Nat.mul_le_mul_right _ (by omega)
        _ = (sig + 1) * (P * 10) := by ring

/-- `intLoop` keeps a prefix and stops at the first digit that would overflow `u64` -/
theorem intLoop_spec (ds : Bytes) : ∀ sig, ds.all isDigit = true →
    ∃ pre rest, ds = pre ++ rest ∧ intLoop sig ds = (digitsFrom sig pre, rest) ∧
      (rest = [] ∨ ∃ d r', rest = d :: r' ∧ u64Max < digitsFrom sig pre * 10 + digitVal d) := by
  induction ds with
  | nil => intro sig _; exact ⟨[], [], rfl, rfl, .inl rfl⟩
  | cons c cs ih =>
    intro sig hd
    simp only [List.all_cons, Bool.and_eq_true] at hd
    by_cases h : sig * 10 + digitVal c > u64Max
    · refine ⟨[], c :: cs, rfl, ?_, .inr ⟨c, cs, rfl, h⟩⟩
      unfold intLoop
      simp only
      rw [overflow_eq _ _ _ (digitVal_le c hd.1)]
      simp [h, digitsFrom]
    · obtain ⟨pre, rest, h1, h2, h3⟩ := ih (sig * 10 + digitVal c) hd.2
      refine ⟨c :: pre, rest, by rw [h1]; rfl, ?_, ?_⟩
      · unfold intLoop
        simp only
        rw [overflow_eq _ _ _ (digitVal_le c hd.1)]
        simp only [h, decide_false, Bool.false_eq_true, if_false]
        rw [h2, digitsFrom_cons]
      · rw [digitsFrom_cons]; exact h3

/-- `fracLoop` likewise, counting the kept digits into the exponent -/
theorem fracLoop_spec (ds : Bytes) : ∀ sig ea, ds.all isDigit = true →
    ∃ pre rest, ds = pre ++ rest ∧ fracLoop sig ea ds = (digitsFrom sig pre, ea - (pre.length : Int)) ∧
      (rest = [] ∨ ∃ d r', rest = d :: r' ∧ u64Max < digitsFrom sig pre * 10 + digitVal d) := by
  induction ds with
  | nil => intro sig ea _; exact ⟨[], [], rfl, by simp [fracLoop, digitsFrom], .inl rfl⟩
  | cons c cs ih =>
    intro sig ea hd
    simp only [List.all_cons, Bool.and_eq_true] at hd
    by_cases h : sig * 10 + digitVal c > u64Max
    · refine ⟨[], c :: cs, rfl, ?_, .inr ⟨c, cs, rfl, h⟩⟩
      unfold fracLoop
      simp only
      rw [overflow_eq _ _ _ (digitVal_le c hd.1)]
      simp [h, digitsFrom]
    · obtain ⟨pre, rest, h1, h2, h3⟩ := ih (sig * 10 + digitVal c) (ea - 1) hd.2
      refine ⟨c :: pre, rest, by rw [h1]; rfl, ?_, ?_⟩
      · unfold fracLoop
        simp only
        rw [overflow_eq _ _ _ (digitVal_le c hd.1)]
        simp only [h, decide_false, Bool.false_eq_true, if_false]
        rw [h2, digitsFrom_cons]
        simp only [List.length_cons, Nat.cast_add, Nat.cast_one]
        congr 1; omega
      · rw [digitsFrom_cons]; exact h3

/-- exponent digits beyond `i32::MAX` end in `parse_exponent_overflow` -/
theorem expLoop_ovf (ds : Bytes) : ∀ e, ds.all isDigit = true → e ≤ i32Max → i32Max < digitsFrom e ds →
    expLoop e ds = none := by
  induction ds with
  | nil => intro e _ h1 h2; simp [digitsFrom] at h2; omega
  | cons c cs ih =>
    intro e hd he h
    simp only [List.all_cons, Bool.and_eq_true] at hd
    rw [digitsFrom_cons] at h
    unfold expLoop
    simp only
    rw [overflow_eq _ _ _ (digitVal_le c hd.1)]
    by_cases ho : e * 10 + digitVal c > i32Max
    · simp [ho]
    · simp only [ho, decide_false, Bool.false_eq_true, if_false]
      exact ih _ hd.2 (by omega) h

theorem all_append {xs ys : Bytes} (h : (xs ++ ys).all isDigit = true) :
    xs.all isDigit = true ∧ ys.all isDigit = true := by
  simpa [List.all_append] using h

/-! ## The fraction digits on top of a (possibly truncated) integer part -/

theorem dropped_arith (s0 S P : Nat) (hbig : 10 ^ 18 ≤ s0) (hhi : S + 1 ≤ (s0 + 1) * P) :
    10 ^ 18 * (S - s0 * P) ≤ s0 * P := by
  have e : (s0 + 1) * P = s0 * P + P := by ring
  have h3 : S - s0 * P ≤ P := by omega
  calc 10 ^ 18 * (S - s0 * P) ≤ 10 ^ 18 * P := Nat.mul_le_mul_left _ h3
    _ ≤ s0 * P := Nat.mul_le_mul_right _ hbig

theorem dropped_arith2 (s0 f dv S R : Nat) (hbig : 10 ^ 18 ≤ s0) (hf : f ≤ dv)
    (hmid : (s0 * 10 + dv) * R ≤ S) (hhi : S + 1 ≤ (s0 + 1) * (10 * R)) :
    (s0 * 10 + f) * R ≤ S ∧ 10 ^ 18 * (S - (s0 * 10 + f) * R) ≤ (s0 * 10 + f) * R := by
  have h1 : (s0 * 10 + f) * R ≤ (s0 * 10 + dv) * R := Nat.mul_le_mul_right _ (by omega)
  refine ⟨Nat.le_trans h1 hmid, ?_⟩
  have e : (s0 + 1) * (10 * R) = s0 * 10 * R + 10 * R := by ring
  have e2 : (s0 * 10 + f) * R = s0 * 10 * R + f * R := by ring
  have h3 : S - (s0 * 10 + f) * R ≤ 10 * R := by omega
  calc 10 ^ 18 * (S - (s0 * 10 + f) * R) ≤ 10 ^ 18 * (10 * R) := Nat.mul_le_mul_left _ h3
    _ ≤ s0 * (10 * R) := Nat.mul_le_mul_right _ hbig
    _ = s0 * 10 * R := by ring
    _ ≤ (s0 * 10 + f) * R := Nat.mul_le_mul_right _ (by omega)

/-- `s0` and `k` come out of the integer digits (`NI` is their value, `k` digits were dropped);
    then `fracLoop s0 0 fd` yields `(s1, ea)` with `s1·10^g ≤ S ≤ s1·10^g·(1 + 10^-18)` for
    `S = NI` followed by `fd`, and the exponent handed on is `k + ea = g − |fd|`. -/
theorem frac_spec (s0 k NI : Nat) (fd : Bytes) (hfd : fd.all isDigit = true) (hs0 : s0 ≤ u64Max)
    (hlo : s0 * 10 ^ k ≤ NI) (hhi : NI + 1 ≤ (s0 + 1) * 10 ^ k)
    (hk : k = 0 ∨ ∃ dv, u64Max < s0 * 10 + dv ∧ dv ≤ 9 ∧ 1 ≤ k ∧ (s0 * 10 + dv) * 10 ^ (k - 1) ≤ NI) :
    ∃ g : Nat, (k : Int) + (fracLoop s0 0 fd).2 = (g : Int) - (fd.length : Int) ∧
      (fracLoop s0 0 fd).1 ≤ u64Max ∧
      (fracLoop s0 0 fd).1 * 10 ^ g ≤ digitsFrom NI fd ∧
      10 ^ 18 * (digitsFrom NI fd - (fracLoop s0 0 fd).1 * 10 ^ g) ≤ (fracLoop s0 0 fd).1 * 10 ^ g := by
  have hle := fracLoop_le fd s0 0 hfd hs0
  obtain ⟨pre, rest, hsplit, hfl, hrest⟩ := fracLoop_spec fd s0 0 hfd
  rw [hfl] at hle ⊢
  simp only at hle ⊢
  subst hsplit
  obtain ⟨hpre, hrst⟩ := all_append hfd
  obtain ⟨hS1, hS2⟩ := digitsFrom_bounds (pre ++ rest) NI hfd
  obtain ⟨hp1, hp2⟩ := digitsFrom_bounds pre s0 hpre
  rw [List.length_append] at hS1 hS2 ⊢
  have hu : u64Max = 18446744073709551615 := rfl
  rcases hk with hk0 | ⟨dv, hov, hdv, hk1, hmid⟩
  · -- no integer digit was dropped
    subst hk0
    have hNI : NI = s0 := by simp at hlo hhi; omega
    subst hNI
    refine ⟨rest.length, by push_cast; omega, hle, ?_, ?_⟩
    · rw [digitsFrom_append]
      exact (digitsFrom_bounds rest _ hrst).1
    · rw [digitsFrom_append]
      obtain ⟨h1, h2⟩ := digitsFrom_bounds rest (digitsFrom NI pre) hrst
      rcases hrest with hnil | ⟨d, r', hr, hov⟩
      · subst hnil
        simp [digitsFrom]
      · have hd9 : digitVal d ≤ 9 := by
          rw [hr] at hrst
          simp only [List.all_cons, Bool.and_eq_true] at hrst
          exact digitVal_le d hrst.1
        have hbig : 10 ^ 18 ≤ digitsFrom NI pre := by omega
        generalize digitsFrom NI pre = s1 at *
        generalize 10 ^ rest.length = P at *
        generalize digitsFrom s1 rest = S at *
        have e : (s1 + 1) * P = s1 * P + P := by ring
        have h3 : S - s1 * P ≤ P := by omega
        calc 10 ^ 18 * (S - s1 * P) ≤ 10 ^ 18 * P := Nat.mul_le_mul_left _ h3
          _ ≤ s1 * P := Nat.mul_le_mul_right _ hbig
  · -- integer digits were dropped: `s0 ≥ 10^18`, at most one fraction digit can still be appended
    have hs0big : 10 ^ 18 ≤ s0 := by omega
    have hplen : pre.length ≤ 1 := by
      rcases Nat.lt_or_ge pre.length 2 with h | h
      · omega
      · exfalso
        have : 10 ^ 2 ≤ 10 ^ pre.length := Nat.pow_le_pow_right (by decide) h
        have : s0 * 10 ^ 2 ≤ s0 * 10 ^ pre.length := Nat.mul_le_mul_left _ this
        omega
    obtain ⟨k', hk'⟩ : ∃ k', k = k' + 1 := ⟨k - 1, by omega⟩
    subst hk'
    simp only [Nat.add_sub_cancel] at hmid
    have hShi : digitsFrom NI (pre ++ rest) + 1 ≤ (s0 + 1) * 10 ^ (k' + 1) * 10 ^ (pre.length + rest.length) :=
      Nat.le_trans hS2 (Nat.mul_le_mul_right _ hhi)
    have hSlo : s0 * 10 ^ (k' + 1) * 10 ^ (pre.length + rest.length) ≤ digitsFrom NI (pre ++ rest) :=
      Nat.le_trans (Nat.mul_le_mul_right _ hlo) hS1
    have hSmid : (s0 * 10 + dv) * 10 ^ k' * 10 ^ (pre.length + rest.length) ≤ digitsFrom NI (pre ++ rest) :=
      Nat.le_trans (Nat.mul_le_mul_right _ hmid) hS1
    generalize digitsFrom NI (pre ++ rest) = S at hSlo hShi hSmid ⊢
    match pre, hpre, hp1, hp2, hle, hplen with
    | [], _, _, _, hle, _ =>
      simp only [List.length_nil, Nat.zero_add] at hSlo hShi ⊢
      have hs1 : digitsFrom s0 [] = s0 := rfl
      rw [hs1] at hle ⊢
      have hP : 10 ^ (k' + 1 + rest.length) = 10 ^ (k' + 1) * 10 ^ rest.length := Nat.pow_add _ _ _
      refine ⟨k' + 1 + rest.length, by push_cast; omega, hle, ?_, ?_⟩
      · rw [hP, ← Nat.mul_assoc]; exact hSlo
      · rw [hP]
        rw [Nat.mul_assoc] at hShi
        exact dropped_arith s0 S _ hs0big hShi
    | [f], hpre, _, _, hle, _ =>
      simp only [List.length_cons, List.length_nil, Nat.zero_add] at hShi hSmid ⊢
      have hs1 : digitsFrom s0 [f] = s0 * 10 + digitVal f := rfl
      rw [hs1] at hle ⊢
      have hP : 10 ^ (k' + 1 + rest.length) = 10 ^ k' * 10 ^ (1 + rest.length) := by
        rw [← Nat.pow_add]; congr 1; omega
      have hP2 : 10 ^ (k' + 1) * 10 ^ (1 + rest.length) = 10 * (10 ^ k' * 10 ^ (1 + rest.length)) := by
        rw [Nat.pow_succ]; ring
      rw [Nat.mul_assoc, hP2] at hShi
      rw [Nat.mul_assoc] at hSmid
      obtain ⟨h1, h2⟩ := dropped_arith2 s0 (digitVal f) dv S _ hs0big (by omega) hSmid hShi
      refine ⟨k' + 1 + rest.length, by push_cast; omega, hle, ?_, ?_⟩
      · rw [hP]; exact h1
      · rw [hP]; exact h2
    | _ :: _ :: _, _, _, _, _, hplen => simp at hplen

/-! ## Saturation of the exponent is harmless -/

/-- `saturating_add`/`saturating_sub` on the `i32` exponent never changes the result: beyond `i32` the
    true exponent and the saturated one are both `≥ 309` (rejected, or `±0` for a zero significand) or both
    `< -616` (`±0`) -/
theorem f64FromParts_sat (positive : Bool) (s : Nat) (x : Int) (hs : s < 2 ^ 64) :
    f64FromParts positive s (satI32 x) = f64FromParts positive s x := by
  unfold satI32 i32Max i32Min
  split
  · rw [f64FromParts_big positive s _ hs (by omega), f64FromParts_big positive s x hs (by omega)]
  · split
    · rw [f64FromParts_far_underflow positive s _ hs (by omega),
        f64FromParts_far_underflow positive s x hs (by omega)]
    · rfl

/-! ## The exponent part -/

theorem parseExponent_spec (l : NumLit) (hed : l.expDigits.all isDigit = true) (hne : l.expDigits ≠ [])
    (positive : Bool) (s : Nat) (E : Int) :
    (l.expVal ≤ i32Max ∧ parseExponent l positive s E =
        .parts positive s (satI32 (E + (if l.expNeg then -(l.expVal : Int) else (l.expVal : Int))))) ∨
    (i32Max < l.expVal ∧ parseExponent l positive s E = .expOverflow positive (s == 0) (!l.expNeg)) := by
  unfold parseExponent
  match hex : l.expDigits with
  | [] => exact absurd hex hne
  | c' :: cs' =>
    rw [hex] at hed
    simp only [List.all_cons, Bool.and_eq_true] at hed
    have hv : l.expVal = digitsFrom (digitVal c') cs' := by
      unfold NumLit.expVal; rw [digitsVal_eq, hex, digitsFrom_cons]; simp
    have hc9 := digitVal_le c' hed.1
    simp only
    rcases Nat.lt_or_ge i32Max l.expVal with h | h
    · right
      refine ⟨h, ?_⟩
      rw [expLoop_ovf cs' _ hed.2 (by unfold i32Max; omega) (by rw [← hv]; exact h)]
    · left
      refine ⟨h, ?_⟩
      rw [expLoop_noovf cs' _ hed.2 (by rw [← hv]; exact h), ← hv]
      simp only
      cases l.expNeg
      · simp
      · simp [Int.sub_eq_add_neg]

/-! ## The whole digit collection -/

/-- **What a grammatical literal is handed on as.** `D = l.sigVal` is the literal's digit string read as
    an integer, the exact value is `D·10^netExp`. There are a significand `s ≤ u64::MAX` and a shift `g`
    (number of decimal places dropped) with `s·10^g ≤ D ≤ s·10^g·(1 + 10^-18)`, and the result is
    * integer path (`g = 0`, `s = D`, no fraction, no exponent): `s as f64` with the sign, or
    * `f64_from_parts(positive, s, netExp + g)` (the `i32` saturation of the exponent is immaterial), or
    * `parse_exponent_overflow(positive, s == 0, positive_exp)` when the exponent digits exceed `i32`. -/
theorem collect_spec (l : NumLit) (hwf : l.WF = true) :
    ∃ s g : Nat, s ≤ u64Max ∧ s * 10 ^ g ≤ l.sigVal ∧ 10 ^ 18 * (l.sigVal - s * 10 ^ g) ≤ s * 10 ^ g ∧
      ((l.fracDigits = [] ∧ l.expDigits = [] ∧ l.netExp = 0 ∧ g = 0 ∧ s = l.sigVal ∧
          floatOfLiteral l = some (if l.neg then F64.neg (F64.ofU64 s) else F64.ofU64 s)) ∨
       floatOfLiteral l = f64FromParts (!l.neg) s (l.netExp + g) ∨
       (i32Max < l.expVal ∧ floatOfLiteral l = parseExponentOverflow (!l.neg) (s == 0) (!l.expNeg))) := by
  obtain ⟨hid, hfd, hed⟩ := wf_parts l hwf
  obtain ⟨c, cs, hint, hlead⟩ := wf_int l hwf
  have hu : u64Max < 2 ^ 64 := by decide
  rw [hint] at hid
  simp only [List.all_cons, Bool.and_eq_true] at hid
  have hc9 := digitVal_le c hid.1
  obtain ⟨pre, rest, hsplit, hil, hrest⟩ := intLoop_spec cs (digitVal c) hid.2
  have hs0le := intLoop_le cs (digitVal c) hid.2 (by unfold u64Max; omega)
  rw [hil] at hs0le
  simp only at hs0le
  subst hsplit
  obtain ⟨hpre, hrst⟩ := all_append hid.2
  -- the integer part
  have hNI : digitsFrom 0 l.intDigits = digitsFrom (digitsFrom (digitVal c) pre) rest := by
    rw [hint, digitsFrom_cons, digitsFrom_append]; simp
  obtain ⟨hb1, hb2⟩ := digitsFrom_bounds rest (digitsFrom (digitVal c) pre) hrst
  have hD : l.sigVal = digitsFrom (digitsFrom (digitsFrom (digitVal c) pre) rest) l.fracDigits := by
    unfold NumLit.sigVal NumLit.digits
    rw [digitsVal_eq, digitsFrom_append, hNI]
  have hk : rest.length = 0 ∨ ∃ dv, u64Max < digitsFrom (digitVal c) pre * 10 + dv ∧ dv ≤ 9 ∧
      1 ≤ rest.length ∧
      (digitsFrom (digitVal c) pre * 10 + dv) * 10 ^ (rest.length - 1) ≤
        digitsFrom (digitsFrom (digitVal c) pre) rest := by
    rcases hrest with hnil | ⟨d, r', hr, hov⟩
    · left; rw [hnil]; rfl
    · right
      rw [hr] at hrst ⊢
      simp only [List.all_cons, Bool.and_eq_true] at hrst
      refine ⟨digitVal d, hov, digitVal_le d hrst.1, by simp, ?_⟩
      rw [digitsFrom_cons]
      simpa using (digitsFrom_bounds r' _ hrst.2).1
  obtain ⟨g, hE, hs1le, hlo, hhi⟩ := frac_spec (digitsFrom (digitVal c) pre) rest.length
    (digitsFrom (digitsFrom (digitVal c) pre) rest) l.fracDigits hfd hs0le hb1 hb2 hk
  rw [← hD] at hlo hhi
  generalize hs0 : digitsFrom (digitVal c) pre = s0 at *
  refine ⟨(fracLoop s0 0 l.fracDigits).1, g, hs1le, hlo, hhi, ?_⟩
  -- the exponent handed on
  have hnet : ∀ E : Int, E = (g : Int) - (l.fracDigits.length : Int) →
      E + (if l.expNeg then -(l.expVal : Int) else (l.expVal : Int)) = l.netExp + g := by
    intro E hE; unfold NumLit.netExp; omega
  unfold floatOfLiteral partsOfLiteral
  rw [hint]
  simp only [hlead, Bool.false_eq_true, if_false, hil, longIntegerExponent]
  by_cases hfe : l.fracDigits.isEmpty = true
  · -- no fraction
    have hfnil : l.fracDigits = [] := by simpa using hfe
    have hfl : fracLoop s0 0 l.fracDigits = (s0, 0) := by rw [hfnil]; rfl
    rw [hfl] at hE hs1le hlo hhi ⊢
    simp only at hE hs1le hlo hhi ⊢
    rw [hfnil] at hE
    simp only [List.length_nil, Nat.cast_zero, Int.sub_zero, Int.add_zero] at hE
    simp only [hfe, Bool.not_true, Bool.false_eq_true, if_false]
    by_cases hee : l.expDigits.isEmpty = true
    · have henil : l.expDigits = [] := by simpa using hee
      simp only [hee, Bool.not_true, Bool.false_eq_true, if_false]
      have hnet0 : l.netExp = 0 := by
        unfold NumLit.netExp NumLit.expVal
        have hen : l.expNeg = false := by
          unfold NumLit.WF at hwf
          simp only [Bool.and_eq_true, Bool.or_eq_true, Bool.not_eq_true'] at hwf
          rcases hwf.2 with h | h
          · rw [henil] at h; simp at h
          · exact h
        rw [henil, hfnil, hen]; simp [digitsVal]
      by_cases hre : rest.isEmpty = true
      · -- the integer path
        have hrnil : rest = [] := by simpa using hre
        left
        have hg0 : g = 0 := by rw [hrnil] at hE; simpa using hE.symm
        subst hg0
        have hsD : s0 = l.sigVal := by
          rw [hD, hfnil, hrnil]; rfl
        refine ⟨hfnil, henil, hnet0, rfl, hsD, ?_⟩
        simp only [hre, Bool.not_true, Bool.false_eq_true, if_false]
        cases hneg : l.neg
        · simp [Parts.toF64]
        · simp only [Bool.not_true, Bool.false_eq_true, if_false, if_true]
          split
          · simp [Parts.toF64]
          · simp [Parts.toF64]
      · right; left
        simp only [hre, Bool.not_false, if_true, Parts.toF64]
        congr 1
        rw [hnet0]; omega
    · simp only [hee, Bool.not_false, if_true]
      have hne : l.expDigits ≠ [] := by
        intro h; rw [h] at hee; simp at hee
      rcases parseExponent_spec l hed hne (!l.neg) s0 rest.length with ⟨_, hp⟩ | ⟨hov, hp⟩
      · right; left
        rw [hp]
        simp only [Parts.toF64]
        rw [f64FromParts_sat _ _ _ (by omega), hnet _ (by rw [hfnil]; simpa using hE)]
      · right; right
        rw [hp]
        exact ⟨hov, rfl⟩
  · -- with a fraction
    simp only [hfe, Bool.not_false, if_true]
    unfold parseDecimal
    generalize fracLoop s0 0 l.fracDigits = p at hE hs1le hlo hhi ⊢
    obtain ⟨s1, ea⟩ := p
    simp only at hE hs1le hlo hhi ⊢
    by_cases hee : l.expDigits.isEmpty = true
    · have henil : l.expDigits = [] := by simpa using hee
      simp only [hee, if_true, Parts.toF64]
      right; left
      congr 1
      have hen : l.expNeg = false := by
        unfold NumLit.WF at hwf
        simp only [Bool.and_eq_true, Bool.or_eq_true, Bool.not_eq_true'] at hwf
        rcases hwf.2 with h | h
        · rw [henil] at h; simp at h
        · exact h
      unfold NumLit.netExp NumLit.expVal
      rw [henil, hen]
      simp only [digitsVal, List.foldl_nil, Bool.false_eq_true, if_false, Nat.cast_zero]
      omega
    · simp only [hee, Bool.false_eq_true, if_false]
      have hne : l.expDigits ≠ [] := by
        intro h; rw [h] at hee; simp at hee
      rcases parseExponent_spec l hed hne (!l.neg) s1 (rest.length + ea) with ⟨_, hp⟩ | ⟨hov, hp⟩
      · right; left
        rw [hp]
        simp only [Parts.toF64]
        rw [f64FromParts_sat _ _ _ (by omega), hnet _ hE]
      · right; right
        rw [hp]
        exact ⟨hov, rfl⟩

end SJ.Proofs.FloatDefault
