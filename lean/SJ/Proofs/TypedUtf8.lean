import SJ.Proofs.TypedUtf8Mach
import SJ.Proofs.TypedFuel
import SJ.Proofs.TypedSim
/-!
# Every string, char and map key of a typed result is valid UTF-8 (C14, typed targets)

`TVal.utf8OK`: every `str` inside the value (string targets, string keys, also inside a nested `Value`: its strings
and object keys) is valid UTF-8 and every `char` (char targets and char keys) is a Unicode scalar value — the
invariants of Rust's `String` / `&str` / `char`. Variant and field NAMES do not occur in a `TVal` (a variant is its index
into the schema's `&'static str` list); `bytes` targets are byte buffers, not strings.

`okp_deTyped`: on a byte source every value `deTyped` returns satisfies it, by the structure of the transcription: every
string reaches a visitor through `parse_str` (`parseStr`: the machine's string sub-states, whose closing quote runs the
`as_str` check — `TypedUtf8Mach.runPfx_valid`), `CharVisitor::visit_str` decodes a valid string
(`utf8Chars_scalar`), a nested `Value` is the machine's (`runPfx_valid` on the padding frames). For `&str` input the
statement follows from the slice's by `c09_typed_str_slice` (`Props/TypedUtf8.lean`).
-/
namespace SJ.Proofs.TypedUtf8
open SJ SJ.Spec.Utf8 SJ.Model.FromValue

/-- a Unicode scalar value: at most U+10FFFF and not a surrogate — what a Rust `char` holds -/
def isScalar (c : Nat) : Bool := c < 0xD800 || (0xDFFF < c && c < 0x110000)

theorem isScalar_iff (c : Nat) : isScalar c = true ↔ (c < 0xD800 ∨ (0xDFFF < c ∧ c < 0x110000)) := by
  simp [isScalar]

/-- the code points `utf8Chars` reads off a valid UTF-8 string are scalar values (no surrogate, nothing above
    U+10FFFF: Table 3-7 excludes `ED A0..BF` and `F4 90..`) -/
theorem utf8Chars_scalar (s : Bytes) (h : validUtf8 s = true) : ∀ c ∈ utf8Chars s, isScalar c = true := by
  fun_induction validUtf8 s
  all_goals (try (simp at h; done))
  · simp [utf8Chars]
  all_goals
    intro c hc
    rename_i ih
    simp only [Bool.and_eq_true, Bool.or_eq_true, decide_eq_true_eq, beq_iff_eq, cont,
      UInt8.le_iff_toNat_le, UInt8.lt_iff_toNat_lt, ← UInt8.toNat_inj, UInt8.toNat_ofNat, Nat.reduceMod, Nat.reducePow] at *
    unfold utf8Chars at hc
    simp only at hc
    repeat' split at hc
    all_goals first
      | omega
      | (simp only [List.mem_cons] at hc
         rcases hc with rfl | hc
         · rw [isScalar_iff]; omega
         · first | exact ih h c hc | exact ih h.2 c hc)

end SJ.Proofs.TypedUtf8

namespace SJ
open SJ.Proofs.TypedUtf8 in
mutual
/-- every string / key inside the typed value is valid UTF-8 and every char a Unicode scalar value -/
def TVal.utf8OK : TVal → Bool
  | .str s => Spec.Utf8.validUtf8 s
  | .char c => isScalar c
  | .some v => TVal.utf8OK v
  | .seq xs => TVal.utf8OKList xs
  | .struct_ xs => TVal.utf8OKList xs
  | .map kvs => TVal.utf8OKPairs kvs
  | .variant _ p => TVal.utf8OK p
  | .any v => JV.stringsValid v
  | _ => true
def TVal.utf8OKList : List TVal → Bool
  | [] => true
  | x :: xs => TVal.utf8OK x && TVal.utf8OKList xs
def TVal.utf8OKPairs : List (TVal × TVal) → Bool
  | [] => true
  | (k, x) :: kvs => TVal.utf8OK k && TVal.utf8OK x && TVal.utf8OKPairs kvs
end
end SJ

namespace SJ.Proofs.TypedUtf8
open SJ SJ.Gen SJ.Model SJ.Model.Typed SJ.Proofs.Typed
open SJ.Model.Machine (St Mode Frame Step step1 errIdx endNumber finishMode init)
open SJ.Model.Stream (skipWs)
open SJ.Spec.Utf8 (validUtf8)
open SJ.Model.FromValue (visitCharStr visitInt numberInt numberF64 numberF32 finishFields missingField utf8Chars)

abbrev U (v : TVal) : Prop := v.utf8OK = true

theorem utf8OKList_iff : ∀ l : List TVal, TVal.utf8OKList l = true ↔ ∀ x ∈ l, U x
  | [] => by simp [TVal.utf8OKList]
  | x :: l => by
    simp only [TVal.utf8OKList, Bool.and_eq_true, utf8OKList_iff l, List.mem_cons, forall_eq_or_imp, U]

theorem utf8OKPairs_iff : ∀ l : List (TVal × TVal), TVal.utf8OKPairs l = true ↔ ∀ e ∈ l, U e.1 ∧ U e.2
  | [] => by simp [TVal.utf8OKPairs]
  | (k, x) :: l => by
    simp only [TVal.utf8OKPairs, Bool.and_eq_true, utf8OKPairs_iff l, List.mem_cons, forall_eq_or_imp, U, and_assoc]

/-- every value a successful result carries satisfies `P` -/
def Okp {α : Type} (P : α → Prop) (r : Res α) : Prop := ∀ a r' p', r = .ok a r' p' → P a

section basics
variable {α β : Type} {P : α → Prop} {Q : β → Prop}

theorem okp_ok {a : α} {r : Bytes} {p : Nat} (h : P a) : Okp P (.ok a r p) := by
  intro a' r' p' e; cases e; exact h
theorem okp_err {c : Code} {i : Nat} : Okp P (.err c i : Res α) := fun _ _ _ e => by cases e
theorem okp_data {i : Nat} : Okp P (.data i : Res α) := fun _ _ _ e => by cases e
theorem okp_raw {r : Bytes} {p : Nat} : Okp P (.raw r p : Res α) := fun _ _ _ e => by cases e
theorem okp_io : Okp P (.io : Res α) := fun _ _ _ e => by cases e
theorem okp_fuel : Okp P (.fuel : Res α) := fun _ _ _ e => by cases e
theorem okp_triv (r : Res α) : Okp (fun _ => True) r := fun _ _ _ _ => trivial

theorem Okp.bind {r : Res α} {k : α → Bytes → Nat → Res β} (h1 : Okp P r)
    (h2 : ∀ a r1 p1, P a → Okp Q (k a r1 p1)) : Okp Q (r.bind k) := by
  cases r with
  | ok a r1 p1 => exact h2 a r1 p1 (h1 a r1 p1 rfl)
  | err c i => exact okp_err
  | data i => exact okp_data
  | raw r1 p1 => exact okp_raw
  | io => exact okp_io
  | fuel => exact okp_fuel

theorem Okp.map {r : Res α} (f : α → β) (h : Okp P r) (hf : ∀ a, P a → Q (f a)) : Okp Q (r.map f) :=
  Okp.bind h fun a _ _ ha => okp_ok (hf a ha)

theorem okp_atEof {env : Env} {c : Code} {p : Nat} : Okp P (atEof env c p : Res α) := by
  unfold atEof; split
  · exact okp_io
  · exact okp_err

theorem okp_fixPos {env : Env} {pk : Bool} {x : Res α} (h : Okp P x) : Okp P (fixPos env pk x) := by
  unfold fixPos; split
  · exact okp_data
  · exact h

theorem okp_withPeek {env : Env} {c : Code} {rest : Bytes} {pos : Nat} {k : UInt8 → Bytes → Nat → Res α}
    (hk : ∀ b r p, Okp P (k b r p)) : Okp P (withPeek env c rest pos k) := by
  unfold withPeek
  split
  · exact okp_atEof
  · exact hk _ _ _

theorem okp_closeWith {env : Env} (endFn : Bytes → Nat → EndState) {ret : Res α} (h : Okp P ret) :
    Okp P (closeWith env endFn ret) := by
  unfold closeWith
  split
  · rename_i a rest pos
    exact (okp_triv _).bind fun _ _ _ _ => okp_ok (h a rest pos rfl)
  · exact okp_data
  · exact h

end basics

theorem okp_ofVisit {P : TVal → Prop} (v : FromValue.R) (r : Bytes) (p : Nat) (h : ∀ x, v = .ok x → P x) :
    Okp P (ofVisit v r p) := by
  unfold ofVisit; split
  · exact okp_ok (h _ rfl)
  · exact okp_raw

theorem okp_peekInvalidType {α : Type} {P : α → Prop} (env : Env) (b : UInt8) (r : Bytes) (pos : Nat) :
    Okp P (peekInvalidType env (b :: r) pos : Res α) := by
  rw [peekInvalidType_cons]
  split
  · exact okp_data
  · exact (okp_triv _).bind fun _ _ _ _ => okp_data

/-! ## the machine as a sub-parser (byte sources) -/

section
variable {env : Env} (hsrc : env.src ≠ .str)
include hsrc

theorem okp_machine_val (t : Nat) (s : St) (hs : SV s) (rest : Bytes) (pos : Nat) :
    Okp (fun v : JV => v.stringsValid = true) (machine (valEnv env) env.flt t s rest pos) := by
  unfold machine
  split
  · rename_i v e he
    exact okp_ok (runPfx_valid (valEnv env) rfl hsrc env.flt t rest s pos v e hs he)
  · exact okp_err
  · exact okp_io

theorem okp_parseStr (rest : Bytes) (pos : Nat) : Okp (fun s : Bytes => validUtf8 s = true) (parseStr env rest pos) := by
  unfold parseStr
  refine (okp_machine_val hsrc 0 _ sv_str rest pos).bind fun v r1 p1 hv => ?_
  split
  · exact okp_ok (by simpa [JV.stringsValid] using hv)
  · exact okp_ok (by decide)

theorem okp_deStr (visit : Bytes → FromValue.R) (hvis : ∀ s x, validUtf8 s = true → visit s = .ok x → U x)
    (rest : Bytes) (pos : Nat) : Okp U (deStr env visit rest pos) := by
  unfold deStr
  refine okp_withPeek fun b r p => ?_
  split
  · exact (okp_parseStr hsrc _ _).bind fun s r1 p1 hs => okp_fixPos (okp_ofVisit _ _ _ (fun x hx => hvis s x hs hx))
  · exact okp_peekInvalidType _ _ _ _

end

theorem visitCharStr_U (s : Bytes) (x : TVal) (hs : validUtf8 s = true) (h : visitCharStr s = .ok x) : U x := by
  unfold visitCharStr at h
  split at h
  · rename_i c hc
    cases h
    have := utf8Chars_scalar s hs c (by rw [hc]; simp)
    simpa [U, TVal.utf8OK] using this
  · cases h

theorem visitStr_U (s : Bytes) (x : TVal) (hs : validUtf8 s = true) (h : (Except.ok (TVal.str s) : FromValue.R) = .ok x) : U x := by
  cases h; simpa [U, TVal.utf8OK] using hs

/-! ## scalars without strings -/

theorem okp_ident_ok {env : Env} (id : Bytes) (v : TVal) (hv : U v) (r : Bytes) (p : Nat) :
    Okp U ((parseIdent env id r p).bind fun _ r' p' => (.ok v r' p' : TOut)) :=
  (okp_triv _).bind fun _ _ _ _ => okp_ok hv

theorem okp_deBool {env : Env} (rest : Bytes) (pos : Nat) : Okp U (deBool env rest pos) := by
  unfold deBool
  refine okp_withPeek fun b r p => ?_
  repeat' split
  all_goals first
    | exact okp_ident_ok _ _ rfl _ _
    | exact okp_peekInvalidType _ _ _ _

theorem okp_deUnit {env : Env} (rest : Bytes) (pos : Nat) : Okp U (deUnit env rest pos) := by
  unfold deUnit
  refine okp_withPeek fun b r p => ?_
  repeat' split
  all_goals first
    | exact okp_ident_ok _ _ rfl _ _
    | exact okp_peekInvalidType _ _ _ _

theorem visitInt_U (w : IntTy) (n : Int) (x : TVal) (h : visitInt w n = .ok x) : U x := by
  unfold visitInt at h
  split at h
  · cases h; rfl
  · cases h

theorem visitNumber_U (ty : NumTy) (n : Num) (x : TVal) (h : visitNumber ty n = .ok x) : U x := by
  unfold visitNumber at h
  cases ty with
  | int w =>
    simp only [numberInt] at h
    repeat' split at h
    all_goals first
      | (cases h; done)
      | exact visitInt_U _ _ _ h
      | (cases h; rfl)
  | f64 =>
    simp only [numberF64] at h
    repeat' split at h
    all_goals first
      | (cases h; done)
      | (cases h; simp [U, TVal.utf8OK])
  | f32 =>
    simp only [numberF32] at h
    repeat' split at h
    all_goals first
      | (cases h; done)
      | (cases h; simp [U, TVal.utf8OK])

theorem okp_deNumber {env : Env} (ty : NumTy) (rest : Bytes) (pos : Nat) : Okp U (deNumber env ty rest pos) := by
  unfold deNumber
  refine okp_withPeek fun b r p => ?_
  split
  · refine (okp_triv _).bind fun parts r1 p1 _ => ?_
    repeat' split
    all_goals first
      | exact okp_ok (by simp [U, TVal.utf8OK])
      | exact okp_err
      | exact okp_fixPos (okp_ofVisit _ _ _ (fun x hx => visitNumber_U _ _ x hx))
  · exact okp_peekInvalidType _ _ _ _

theorem okp_deInt128 {env : Env} (w : IntTy) (rest : Bytes) (pos : Nat) : Okp U (deInt128 env w rest pos) := by
  unfold deInt128
  refine okp_withPeek fun b r p => ?_
  simp only
  repeat' split
  all_goals first
    | exact okp_err
    | (refine (okp_triv _).bind fun ds r1 p1 _ => ?_
       split
       · exact okp_ok rfl
       · exact okp_err)

theorem okp_deInt {env : Env} (w : IntTy) (rest : Bytes) (pos : Nat) : Okp U (deInt env w rest pos) := by
  unfold deInt; split
  · exact okp_deInt128 _ _ _
  · exact okp_deNumber _ _ _

/-! ## sequences -/

theorem okp_nextElement {env : Env} (de : Bytes → Nat → TOut) (hde : ∀ r p, Okp U (de r p)) (first : Bool) (rest : Bytes)
    (pos : Nat) : Okp (fun o : Option TVal => ∀ v, o = some v → U v) (nextElement env de first rest pos) := by
  unfold nextElement
  refine (okp_triv _).bind fun more r p _ => ?_
  split
  · exact (hde r p).map _ (fun a ha v hv => by cases hv; exact ha)
  · exact okp_ok (fun v hv => by cases hv)

theorem okp_seqLoop {env : Env} (de : Bytes → Nat → TOut) (hde : ∀ r p, Okp U (de r p)) (n : Nat) (first : Bool)
    (acc : List TVal) (hacc : ∀ x ∈ acc, U x) (rest : Bytes) (pos : Nat) :
    Okp (fun l : List TVal => ∀ x ∈ l, U x) (seqLoop env de n first acc rest pos) := by
  induction n generalizing first acc rest pos with
  | zero => simp only [seqLoop]; exact okp_fuel
  | succ n ih =>
    simp only [seqLoop]
    refine (okp_nextElement de hde _ _ _).bind fun o r p ho => ?_
    split
    · exact okp_ok (fun x hx => hacc x (by simpa using hx))
    · rename_i v
      exact ih _ _ (fun x hx => by
        simp only [List.mem_cons] at hx
        rcases hx with rfl | hx
        · exact ho _ rfl
        · exact hacc x hx) _ _

theorem okp_tupleLoop {env : Env} (de : Schema → Bytes → Nat → TOut) (ss : List Schema)
    (hde : ∀ s ∈ ss, ∀ r p, Okp U (de s r p)) (first : Bool) (acc : List TVal) (hacc : ∀ x ∈ acc, U x) (rest : Bytes)
    (pos : Nat) : Okp (fun l : List TVal => ∀ x ∈ l, U x) (tupleLoop env de ss first acc rest pos) := by
  induction ss generalizing first acc rest pos with
  | nil => simp only [tupleLoop]; exact okp_ok (fun x hx => hacc x (by simpa using hx))
  | cons s ss ih =>
    simp only [tupleLoop]
    refine (okp_nextElement (de s) (hde s (by simp)) _ _ _).bind fun o r p ho => ?_
    split
    · exact okp_raw
    · rename_i v
      exact ih (fun s' hs' => hde s' (by simp [hs'])) _ _ (fun x hx => by
        simp only [List.mem_cons] at hx
        rcases hx with rfl | hx
        · exact ho _ rfl
        · exact hacc x hx) _ _

theorem U_seq (l : List TVal) (h : ∀ x ∈ l, U x) : U (.seq l) := by
  simp only [U, TVal.utf8OK]; exact (utf8OKList_iff l).mpr h
theorem U_struct (l : List TVal) (h : ∀ x ∈ l, U x) : U (.struct_ l) := by
  simp only [U, TVal.utf8OK]; exact (utf8OKList_iff l).mpr h
theorem U_map (l : List (TVal × TVal)) (h : ∀ e ∈ l, U e.1 ∧ U e.2) : U (.map l) := by
  simp only [U, TVal.utf8OK]; exact (utf8OKPairs_iff l).mpr h

theorem okp_deSeq {env : Env} (t : Nat) (visit : Bytes → Nat → TOut) (hv : ∀ r p, Okp U (visit r p)) (rest : Bytes) (pos : Nat) :
    Okp U (deSeq env t visit rest pos) := by
  unfold deSeq
  refine okp_withPeek fun b r p => ?_
  split
  · split
    · exact okp_err
    · exact okp_closeWith _ (hv _ _)
  · exact okp_peekInvalidType _ _ _ _

theorem okp_deBytes {env : Env} (t : Nat) (rest : Bytes) (pos : Nat) : Okp U (deBytes env t rest pos) := by
  unfold deBytes
  refine okp_withPeek fun b r p => ?_
  split
  · exact (okp_triv _).map _ (fun _ _ => rfl)
  · split
    · exact okp_deSeq t _ (fun r p => (okp_triv _).map _ (fun _ _ => rfl)) _ _
    · exact okp_peekInvalidType _ _ _ _

/-! ## maps -/

section
variable {env : Env} (hsrc : env.src ≠ .str)
include hsrc

theorem okp_keyStr (visit : Bytes → FromValue.R) (hvis : ∀ s x, validUtf8 s = true → visit s = .ok x → U x)
    (rest : Bytes) (pos : Nat) : Okp U (keyStr env visit rest pos) := by
  unfold keyStr
  exact (okp_parseStr hsrc _ _).bind fun s r p hs => okp_ofVisit _ _ _ (fun x hx => hvis s x hs hx)

theorem okp_deVariantId (names : List Bytes) (rest : Bytes) (pos : Nat) : Okp U (deVariantId env names rest pos) := by
  unfold deVariantId
  refine okp_deStr hsrc _ (fun s x _ hx => ?_) _ _
  unfold visitVariantId at hx
  split at hx
  · cases hx; rfl
  · cases hx

theorem okp_deKey (k : KeyKind) (rest : Bytes) (pos : Nat) : Okp U (deKey env k rest pos) := by
  unfold deKey
  split
  · exact okp_keyStr hsrc _ (fun s x hs hx => visitStr_U s x hs hx) _ _
  · unfold keyInt
    split
    · exact okp_atEof
    · split
      · exact okp_err
      · refine (okp_deInt _ _ _).bind fun v r' p' hv => ?_
        split
        · exact okp_atEof
        · split
          · exact okp_ok hv
          · exact okp_err
  · unfold keyBool
    split
    · exact okp_atEof
    · repeat' split
      all_goals first
        | exact okp_ident_ok _ _ rfl _ _
        | exact (okp_triv _).bind fun _ _ _ _ => okp_data
  · exact okp_keyStr hsrc _ visitCharStr_U _ _
  · unfold keyUnitEnum
    refine (okp_triv _).bind fun v r p _ => ?_
    split
    · exact okp_ok rfl
    · exact okp_raw

theorem okp_mapLoop (k : KeyKind) (de : Bytes → Nat → TOut) (hde : ∀ r p, Okp U (de r p)) (n : Nat)
    (first : Bool) (acc : List (TVal × TVal)) (hacc : ∀ e ∈ acc, U e.1 ∧ U e.2) (rest : Bytes) (pos : Nat) :
    Okp (fun l : List (TVal × TVal) => ∀ e ∈ l, U e.1 ∧ U e.2) (mapLoop env k de n first acc rest pos) := by
  induction n generalizing first acc rest pos with
  | zero => simp only [mapLoop]; exact okp_fuel
  | succ n ih =>
    simp only [mapLoop]
    refine (okp_triv _).bind fun more r p _ => ?_
    split
    · exact okp_ok (fun e he => hacc e (by simpa using he))
    · refine (okp_deKey hsrc k r p).bind fun kv r1 p1 hk => ?_
      refine (okp_triv _).bind fun _ r2 p2 _ => ?_
      refine (hde r2 p2).bind fun v r3 p3 hv => ?_
      exact ih _ _ (fun e he => by
        simp only [List.mem_cons] at he
        rcases he with rfl | he
        · exact ⟨hk, hv⟩
        · exact hacc e he) _ _

end

theorem okp_deMap {env : Env} (t : Nat) (visit : Bytes → Nat → TOut) (hv : ∀ r p, Okp U (visit r p)) (rest : Bytes) (pos : Nat) :
    Okp U (deMap env t visit rest pos) := by
  unfold deMap
  refine okp_withPeek fun b r p => ?_
  split
  · split
    · exact okp_err
    · exact okp_closeWith _ (hv _ _)
  · exact okp_peekInvalidType _ _ _ _

/-! ## structs, enums -/

theorem finishFields_U (fs : List (Bytes × Schema)) : ∀ (slots : List (Option TVal)) (vs : List TVal),
    (∀ o ∈ slots, ∀ v, o = some v → U v) → finishFields fs slots = .ok vs → ∀ x ∈ vs, U x := by
  induction fs with
  | nil => intro slots vs _ h; simp only [finishFields] at h; cases h; simp
  | cons f fs ih =>
    intro slots vs hs h
    obtain ⟨nm, s⟩ := f
    simp only [finishFields] at h
    split at h
    · cases h
    · rename_i t ht
      split at h
      · cases h
      · rename_i ts hts
        cases h
        have htU : U t := by
          split at ht
          · rename_i t' hd
            cases ht
            cases slots with
            | nil => simp at hd
            | cons o r => simp only [List.headD_cons] at hd; exact hs o (by simp) _ hd
          · unfold missingField at ht
            split at ht
            · cases ht; rfl
            · cases ht
        have htl : ∀ o ∈ slots.tail, ∀ v, o = some v → U v := fun o ho => hs o (List.mem_of_mem_tail ho)
        intro x hx
        simp only [List.mem_cons] at hx
        rcases hx with rfl | hx
        · exact htU
        · exact ih _ _ htl hts x hx

section
variable {env : Env} (hsrc : env.src ≠ .str)
include hsrc

omit hsrc in
theorem okp_structLoop (de : Schema → Bytes → Nat → TOut) (fs : List (Bytes × Schema))
    (hde : ∀ f ∈ fs, ∀ r p, Okp U (de f.2 r p)) (deny : Bool) (n : Nat) (first : Bool)
    (slots : List (Option TVal)) (hsl : ∀ o ∈ slots, ∀ v, o = some v → U v) (rest : Bytes) (pos : Nat) :
    Okp (fun sl : List (Option TVal) => ∀ o ∈ sl, ∀ v, o = some v → U v)
      (structLoop env de fs deny n first slots rest pos) := by
  induction n generalizing first slots rest pos with
  | zero => simp only [structLoop]; exact okp_fuel
  | succ n ih =>
    simp only [structLoop]
    refine (okp_triv _).bind fun more r p _ => ?_
    split
    · exact okp_ok hsl
    · refine (okp_triv _).bind fun name r1 p1 _ => ?_
      split
      · split
        · exact okp_raw
        · refine (okp_triv _).bind fun _ r2 p2 _ => ?_
          split
          · rename_i i _ _ nm s hs
            refine (hde _ (mem_of_getElem? hs) r2 p2).bind fun v r3 p3 hv => ?_
            refine ih _ _ (fun o ho w hw => ?_) _ _
            rcases List.mem_or_eq_of_mem_set ho with ho | rfl
            · exact hsl o ho w hw
            · cases hw; exact hv
          · exact okp_raw
      · split
        · exact okp_raw
        · refine (okp_triv _).bind fun _ r2 p2 _ => ?_
          exact (okp_triv _).bind fun _ r3 p3 _ => ih _ _ hsl _ _

omit hsrc in
theorem okp_deStruct (t : Nat) (de : Nat → Schema → Bytes → Nat → TOut) (fs : List (Bytes × Schema))
    (hde : ∀ f ∈ fs, ∀ d r p, Okp U (de d f.2 r p)) (deny : Bool) (rest : Bytes) (pos : Nat) :
    Okp U (deStruct env t de fs deny rest pos) := by
  unfold deStruct
  refine okp_withPeek fun b r p => ?_
  split
  · split
    · exact okp_err
    · refine okp_closeWith _ ((okp_tupleLoop _ _ ?_ _ _ (by simp) _ _).map _ (fun l hl => U_struct l hl))
      intro s hs
      obtain ⟨f, hf', rfl⟩ := List.mem_map.mp hs
      exact hde f hf' _
  · split
    · split
      · exact okp_err
      · refine okp_closeWith _ ?_
        unfold structVisitMap
        refine (okp_structLoop _ fs (fun f hf' => hde f hf' _) deny _ _ _ ?_ _ _).bind fun slots r p hsl => ?_
        · intro o ho v hv
          simp only [List.mem_map] at ho
          obtain ⟨_, _, rfl⟩ := ho
          cases hv
        · split
          · rename_i vs hvs
            exact okp_ok (U_struct vs (finishFields_U fs slots vs hsl hvs))
          · exact okp_raw
    · exact okp_peekInvalidType _ _ _ _

omit hsrc in
theorem okp_dePayload (t : Nat) (de : Nat → Schema → Bytes → Nat → TOut) (sh : VariantShape)
    (hde : ∀ s ∈ shapeSchemas sh, ∀ d r p, Okp U (de d s r p)) (rest : Bytes) (pos : Nat) :
    Okp U (dePayload env t de sh rest pos) := by
  unfold dePayload
  split
  · exact okp_deUnit _ _
  · exact hde _ (by simp [shapeSchemas]) _ _ _
  · exact okp_deSeq t _ (fun r p => (okp_tupleLoop _ _ (fun s hs => hde s (by simpa [shapeSchemas] using hs) _) _ _
      (by simp) _ _).map _ (fun l hl => U_seq l hl)) _ _
  · refine okp_deStruct t de _ (fun f hf' d => hde f.2 ?_ d) false _ _
    simp only [shapeSchemas, List.mem_map]
    exact ⟨f, hf', rfl⟩

omit hsrc in
theorem okp_deEnum (t : Nat) (de : Nat → Schema → Bytes → Nat → TOut) (vs : List (Bytes × VariantShape))
    (hde : ∀ v ∈ vs, ∀ s ∈ shapeSchemas v.2, ∀ d r p, Okp U (de d s r p)) (rest : Bytes) (pos : Nat) :
    Okp U (deEnum env t de vs rest pos) := by
  unfold deEnum
  refine okp_withPeek fun b r p => ?_
  split
  · split
    · exact okp_err
    · refine (okp_triv _).bind fun iv r1 p1 _ => ?_
      refine (okp_triv _).bind fun _ r2 p2 _ => ?_
      split
      · exact okp_raw
      · rename_i nm sh hs
        refine (okp_dePayload (t + 1) de sh (hde _ (mem_of_getElem? hs)) r2 p2).bind fun payload r3 p3 hp => ?_
        refine okp_withPeek fun c r4 q => ?_
        split
        · exact okp_ok (by simpa [U, TVal.utf8OK] using hp)
        · exact okp_err
  · split
    · refine (okp_triv _).bind fun iv r1 p1 _ => ?_
      dsimp only
      split
      · exact okp_ok rfl
      · exact okp_raw
    · exact okp_err

/-- **every value `deTyped` returns on a byte source satisfies `TVal.utf8OK`** -/
theorem okp_deTyped : ∀ (f t : Nat) (s : Schema) (rest : Bytes) (pos : Nat), Okp U (deTyped env f t s rest pos) := by
  intro f
  induction f with
  | zero => intro t s rest pos; unfold deTyped; exact okp_fuel
  | succ f ih =>
    intro t s rest pos
    cases s with
    | bool => rw [deTyped_bool]; exact okp_deBool _ _
    | int w => rw [deTyped_int]; exact okp_deInt _ _ _
    | f64 => rw [deTyped_f64]; exact okp_deNumber _ _ _
    | f32 => rw [deTyped_f32]; exact okp_deNumber _ _ _
    | char => rw [deTyped_char]; exact okp_deStr hsrc _ visitCharStr_U _ _
    | string => rw [deTyped_string]; exact okp_deStr hsrc _ (fun s x hs hx => visitStr_U s x hs hx) _ _
    | bytes => rw [deTyped_bytes]; exact okp_deBytes _ _ _
    | option s' =>
      rw [deTyped_option]
      dsimp only
      split
      · split
        · exact okp_io
        · exact (ih _ _ _ _).map _ (fun a ha => by simpa [U, TVal.utf8OK] using ha)
      · split
        · exact okp_ident_ok _ _ rfl _ _
        · exact (ih _ _ _ _).map _ (fun a ha => by simpa [U, TVal.utf8OK] using ha)
    | unit => rw [deTyped_unit]; exact okp_deUnit _ _
    | unitStruct => rw [deTyped_unitStruct]; exact okp_deUnit _ _
    | newtype s' => rw [deTyped_newtype]; exact ih _ _ _ _
    | seq s' =>
      rw [deTyped_seq]
      exact okp_deSeq t _ (fun r p => (okp_seqLoop _ (ih _ _) _ _ _ (by simp) _ _).map _ (fun l hl => U_seq l hl)) _ _
    | tuple ss =>
      rw [deTyped_tuple]
      exact okp_deSeq t _ (fun r p => (okp_tupleLoop _ _ (fun s' _ => ih _ s') _ _ (by simp) _ _).map _
        (fun l hl => U_seq l hl)) _ _
    | map k s' =>
      rw [deTyped_map]
      exact okp_deMap t _ (fun r p => (okp_mapLoop hsrc _ _ (ih _ _) _ _ _ (by simp) _ _).map _ (fun l hl => U_map l hl)) _ _
    | struct_ fs deny =>
      rw [deTyped_struct]
      exact okp_deStruct t _ _ (fun fl _ d => ih d fl.2) _ _ _
    | enum_ vs =>
      rw [deTyped_enum]
      exact okp_deEnum t _ _ (fun v _ s' _ d => ih d s') _ _
    | ignored => rw [deTyped_ignored]; exact (okp_triv _).map _ (fun _ _ => rfl)
    | any =>
      rw [deTyped_any]
      exact (okp_machine_val hsrc t _ (sv_pad t) _ _).map _ (fun v hv => by simpa [U, TVal.utf8OK] using hv)

/-- … of a whole document -/
theorem deTypedTop_utf8 (s : Schema) (bs : Bytes) (v : TVal) (h : deTypedTop env s bs = .ok v) : v.utf8OK = true := by
  have hw := okp_deTyped hsrc (Schema.size s + 1) 0 s bs 0
  unfold deTypedTop at h
  cases hx : deTyped env (Schema.size s + 1) 0 s bs 0 with
  | ok v' rest pos =>
    rw [hx] at h
    dsimp only at h
    split at h
    · split at h
      · cases h
      · cases h; exact hw _ _ _ hx
    · cases h
  | err c' i' => rw [hx] at h; cases h
  | data i' => rw [hx] at h; cases h
  | raw r p => rw [hx] at h; cases h
  | io => rw [hx] at h; cases h
  | fuel => rw [hx] at h; cases h

end

end SJ.Proofs.TypedUtf8
