import SJ.Model.Machine
/-! Generic lemmas about the byte-step machine: fold decomposition, index bookkeeping,
    the finite analysis of `finish`. -/
namespace SJ.Proofs.Machine
open SJ SJ.Gen SJ.Model.Machine

/-- state after a prefix, or the error that stopped the machine -/
def feed (env : Env) (s : St) (i : Nat) : Bytes → Except (Code × Nat) (St × Nat)
  | [] => .ok (s, i)
  | b :: bs => match step env s b with
    | .ok s' => feed env s' (i + 1) bs
    | .error (c, a) => .error (c, errIdx env a i)

theorem run_append (env : Env) (s : St) (i : Nat) (xs ys : Bytes) :
    run env s i (xs ++ ys) = match feed env s i xs with
      | .ok (s', j) => run env s' j ys
      | .error (c, j) => .err c j := by
  induction xs generalizing s i with
  | nil => simp [feed]
  | cons b bs ih =>
    simp only [List.cons_append, run, feed]
    cases h : step env s b with
    | ok s' => simpa using ih s' (i + 1)
    | error e => obtain ⟨c, a⟩ := e; rfl

theorem feed_idx (env : Env) (s : St) (i : Nat) (xs : Bytes) (s' : St) (j : Nat)
    (h : feed env s i xs = .ok (s', j)) : j = i + xs.length := by
  induction xs generalizing s i with
  | nil => simp [feed] at h; simp [h.2]
  | cons b bs ih =>
    simp only [feed] at h
    cases hs : step env s b with
    | ok s'' => rw [hs] at h; have := ih _ _ h; simp only [List.length_cons]; omega
    | error e => obtain ⟨c, a⟩ := e; rw [hs] at h; cases h

theorem errIdx_le (env : Env) (a : Adj) (i : Nat) : errIdx env a i ≤ i + 1 := by
  unfold errIdx; split <;> omega

theorem feed_err_idx (env : Env) (s : St) (i : Nat) (xs : Bytes) (c : Code) (j : Nat)
    (h : feed env s i xs = .error (c, j)) : i ≤ j ∧ j ≤ i + xs.length := by
  induction xs generalizing s i with
  | nil => simp [feed] at h
  | cons b bs ih =>
    simp only [feed] at h
    cases hs : step env s b with
    | ok s'' => rw [hs] at h; have := ih _ _ h; simp only [List.length_cons]; omega
    | error e =>
      obtain ⟨c', a⟩ := e; rw [hs] at h
      simp only [Except.error.injEq, Prod.mk.injEq] at h
      have h1 := errIdx_le env a i
      have h2 : i ≤ errIdx env a i := by unfold errIdx; split <;> omega
      simp only [List.length_cons]; omega

theorem feed_append (env : Env) (s : St) (i : Nat) (xs ys : Bytes) :
    feed env s i (xs ++ ys) = match feed env s i xs with
      | .ok (s', j) => feed env s' j ys
      | .error e => .error e := by
  induction xs generalizing s i with
  | nil => simp [feed]
  | cons b bs ih =>
    simp only [List.cons_append, feed]
    cases h : step env s b with
    | ok s' => simpa using ih s' (i + 1)
    | error e => obtain ⟨c, a⟩ := e; rfl

/-- the run over `xs` alone, in terms of `feed` and `finish` -/
theorem run_eq_feed_finish (env : Env) (s : St) (i : Nat) (xs : Bytes) :
    run env s i xs = match feed env s i xs with
      | .ok (s', j) => (match finish env s' with | .ok v => .ok v | .error c => .err c j)
      | .error (c, j) => .err c j := by
  induction xs generalizing s i with
  | nil => simp only [feed, run]; cases finish env s <;> rfl
  | cons b bs ih =>
    simp only [run, feed]
    cases h : step env s b with
    | ok s' => simpa using ih s' (i + 1)
    | error e => obtain ⟨c, a⟩ := e; rfl

/-! ### finite analysis of `finish` -/

theorem finishMode_complete (env : Env) (stack : List Frame) (v : JV) (c : Code)
    (h : finishMode env (complete stack v) = .error c) : classify c = .eof := by
  unfold complete at h
  split at h <;> simp [finishMode] at h <;> subst h <;> rfl

theorem numValue_err (env : Env) (n : NumSt) (c : Code) (h : numValue env n = .error c) :
    c = .NumberOutOfRange := by
  unfold numValue at h
  split at h
  · simp at h
  · split at h <;> simp at h <;> (try exact h.symm)
    all_goals (split at h <;> simp at h <;> exact h.symm)

theorem endNumber_err (env : Env) (s : St) (n : NumSt) (c : Code) (a : Adj)
    (h : endNumber env s n = .error (c, a)) : c = .NumberOutOfRange ∧ a = .incl := by
  unfold endNumber at h
  split at h
  · split at h
    · simp at h
    · rename_i c' hc
      simp only [Except.error.injEq, Prod.mk.injEq] at h
      exact ⟨h.1 ▸ numValue_err env n c' hc, h.2.symm⟩
  · simp at h

theorem endNumber_ok (env : Env) (s : St) (n : NumSt) (s' : St)
    (h : endNumber env s n = .ok s') : ∃ v, s' = complete s.stack v := by
  unfold endNumber at h
  split at h
  · split at h
    · rename_i v _; simp at h; exact ⟨v, h.symm⟩
    · simp at h
  · simp at h; exact ⟨.null, h.symm⟩

/-- **At end of input** the value parser returns a value, an `Eof`-classified error, or
    `NumberOutOfRange` (a complete literal whose value is not a finite f64). -/
theorem finish_eof_clean_value (env : Env) (henv : env.tgt = .value) (s : St) (c : Code)
    (h : finish env s = .error c) : classify c = .eof ∨ c = .NumberOutOfRange := by
  unfold finish at h
  split at h
  · rename_i n _
    split at h
    · simp at h; subst h; left; rfl
    · simp at h; subst h; left; rfl
    · simp at h; subst h; left; rfl
    · simp at h; subst h; left; rfl
    · split at h
      · rename_i s' hs'
        obtain ⟨v, hv⟩ := endNumber_ok env s n s' hs'
        subst hv
        left; exact finishMode_complete env _ _ _ h
      · rename_i c' a hc
        simp at h; subst h
        right; exact (endNumber_err env s n c' a hc).1
  · left
    unfold finishMode at h
    split at h <;> simp [henv] at h <;> subst h <;> rfl

/-- skipped content (`IgnoredAny`, unknown fields, raw capture): at end of input only success or an
    `Eof`-classified error — numbers are not converted, so no range error can arise. -/
theorem finish_eof_clean_ignored (env : Env) (henv : env.tgt = .ignored) (s : St) (c : Code)
    (h : finish env s = .error c) : classify c = .eof := by
  unfold finish at h
  split at h
  · rename_i n _
    split at h
    · simp at h; subst h; rfl
    · simp at h; subst h; rfl
    · simp at h; subst h; rfl
    · simp at h; subst h; rfl
    · split at h
      · rename_i s' hs'
        obtain ⟨v, hv⟩ := endNumber_ok env s n s' hs'
        subst hv
        exact finishMode_complete env _ _ _ h
      · rename_i c' a hc
        unfold endNumber at hc
        simp [henv] at hc
  · unfold finishMode at h
    split at h <;> simp [henv] at h <;> subst h <;> rfl

end SJ.Proofs.Machine

namespace SJ.Proofs.Machine
open SJ SJ.Gen SJ.Model.Machine

/-! ### every error raised by a step is a Syntax-classified code reported *including* the byte -/

theorem closeArr_err (env : Env) (s : St) (c : Code) (a : Adj) (h : closeArr env s = .err c a) :
    a = .incl ∧ classify c = .syntax := by
  unfold closeArr at h; split at h <;> simp at h; obtain ⟨rfl, rfl⟩ := h; exact ⟨rfl, rfl⟩

theorem closeObj_err (env : Env) (s : St) (c : Code) (a : Adj) (h : closeObj env s = .err c a) :
    a = .incl ∧ classify c = .syntax := by
  unfold closeObj at h; split at h <;> simp at h; obtain ⟨rfl, rfl⟩ := h; exact ⟨rfl, rfl⟩

theorem startValue_err (env : Env) (s : St) (b : UInt8) (c : Code) (a : Adj)
    (h : startValue env s b = .err c a) : a = .incl ∧ classify c = .syntax := by
  unfold startValue at h
  repeat' split at h
  all_goals (first | (simp at h; done) | (simp at h; obtain ⟨rfl, rfl⟩ := h; exact ⟨rfl, rfl⟩))

theorem stepNum_err (env : Env) (s : St) (n : NumSt) (b : UInt8) (c : Code) (a : Adj)
    (h : stepNum env s n b = .err c a) : a = .incl ∧ classify c = .syntax := by
  unfold stepNum at h
  simp only at h
  repeat' split at h
  all_goals (first
    | (simp at h; done)
    | (simp at h; obtain ⟨rfl, rfl⟩ := h; exact ⟨rfl, rfl⟩)
    | (rename_i c' a' hc; simp at h; obtain ⟨rfl, rfl⟩ := h
       have := endNumber_err env s n _ _ hc; exact ⟨this.2, this.1 ▸ rfl⟩))

theorem endStr_err (env : Env) (s : St) (st : StrSt) (c : Code) (a : Adj)
    (h : endStr env s st = .err c a) : a = .incl ∧ classify c = .syntax := by
  unfold endStr at h
  simp only at h
  repeat' split at h
  all_goals (first | (simp at h; done) | (simp at h; obtain ⟨rfl, rfl⟩ := h; exact ⟨rfl, rfl⟩))

theorem stepStr_err (env : Env) (s : St) (st : StrSt) (b : UInt8) (c : Code) (a : Adj)
    (h : stepStr env s st b = .err c a) : a = .incl ∧ classify c = .syntax := by
  unfold stepStr at h
  simp only at h
  repeat' split at h
  all_goals (first
    | (simp at h; done)
    | (simp at h; obtain ⟨rfl, rfl⟩ := h; exact ⟨rfl, rfl⟩)
    | exact endStr_err env s st c a h)

theorem step1_err (env : Env) (s : St) (b : UInt8) (c : Code) (a : Adj)
    (h : step1 env s b = .err c a) : a = .incl ∧ classify c = .syntax := by
  unfold step1 at h
  repeat' split at h
  all_goals (first
    | (simp at h; done)
    | (simp at h; obtain ⟨rfl, rfl⟩ := h; exact ⟨rfl, rfl⟩)
    | exact closeArr_err env s c a h
    | exact closeObj_err env s c a h
    | exact startValue_err env s b c a h
    | exact stepNum_err env s _ b c a h
    | exact stepStr_err env s _ b c a h
    | (split at h <;> simp at h <;> obtain ⟨rfl, rfl⟩ := h <;> exact ⟨rfl, rfl⟩))

theorem step_err (env : Env) (s : St) (b : UInt8) (c : Code) (a : Adj)
    (h : step env s b = .error (c, a)) : a = .incl ∧ classify c = .syntax := by
  unfold step at h
  split at h
  · simp at h
  · rename_i c' a' h1; simp at h; obtain ⟨rfl, rfl⟩ := h; exact step1_err env s b _ _ h1
  · rename_i s' h1
    split at h
    · simp at h
    · rename_i c' a' h2; simp at h; obtain ⟨rfl, rfl⟩ := h; exact step1_err env s' b _ _ h2
    · simp at h; obtain ⟨rfl, rfl⟩ := h; exact ⟨rfl, rfl⟩

end SJ.Proofs.Machine

namespace SJ.Proofs.Machine
open SJ SJ.Gen SJ.Model.Machine

/-! ### the one non-`Eof` failure of `finish`, exactly (C10) -/

/-- if ending the number fails, it is the conversion that fails -/
theorem endNumber_err_numValue (env : Env) (henv : env.tgt = .value) (s : St) (n : NumSt) (c : Code) (a : Adj)
    (h : endNumber env s n = .error (c, a)) : numValue env n = .error .NumberOutOfRange := by
  unfold endNumber at h
  rw [if_pos henv] at h
  cases hn : numValue env n with
  | ok v => rw [hn] at h; cases h
  | error c' => rw [numValue_err env n c' hn]

/-- **At end of input, exactly:** the value parser fails with an `Eof`-classified error, or with
    `NumberOutOfRange` — and the latter only in a number state whose literal is complete (phase `zero`,
    `int`, `frac` or `exp`) and whose conversion `numValue` fails. -/
theorem finish_err_value_exact (env : Env) (henv : env.tgt = .value) (s : St) (c : Code)
    (h : finish env s = .error c) :
    classify c = .eof ∨ (c = .NumberOutOfRange ∧ ∃ n, s.mode = .num n ∧
      (n.phase = .zero ∨ n.phase = .int ∨ n.phase = .frac ∨ n.phase = .exp) ∧
      numValue env n = .error .NumberOutOfRange) := by
  rcases finish_eof_clean_value env henv s c h with hc | hc
  · exact .inl hc
  · right
    refine ⟨hc, ?_⟩
    subst hc
    unfold finish at h
    split at h
    · rename_i n hmode
      refine ⟨n, hmode, ?_⟩
      cases hp : n.phase <;> simp only [hp] at h <;> try (cases h; done)
      all_goals
        (split at h
         · rename_i s' hs'
           obtain ⟨v, hv⟩ := endNumber_ok env s n s' hs'
           subst hv
           have := finishMode_complete env _ _ _ h
           cases this
         · rename_i c' a hc
           refine ⟨by simp, endNumber_err_numValue env henv s n c' a hc⟩)
    · exfalso
      unfold finishMode at h
      split at h <;> simp [henv] at h

/-- conversely, such a state does fail with `NumberOutOfRange` at end of input -/
theorem finish_number_out_of_range (env : Env) (henv : env.tgt = .value) (s : St) (n : NumSt)
    (hmode : s.mode = .num n)
    (hphase : n.phase = .zero ∨ n.phase = .int ∨ n.phase = .frac ∨ n.phase = .exp)
    (hnum : numValue env n = .error .NumberOutOfRange) : finish env s = .error .NumberOutOfRange := by
  unfold finish
  rw [hmode]
  have he : endNumber env s n = .error (.NumberOutOfRange, .incl) := by
    unfold endNumber; rw [if_pos henv, hnum]
  rcases hphase with hp | hp | hp | hp <;> simp only [hp, he]

end SJ.Proofs.Machine
