import SJ.Proofs.TypedPrettyWs
/-!
# The text leg on a LAYOUT of a value (compact or pretty): `Option`, `Vec`, tuples, byte buffers

`TL ext L d v` is `Spec.Image.layoutWith L.sep L.gap d (imageOfValue ext v)`: the text either formatter writes for the value
`v` at nesting depth `d` (`c03_value` / `c03_pretty_layout`), for a layout `L` whose separators are JSON whitespace — the
compact formatter (`L.sep d = []`, `L.gap = []`) and the pretty formatter with a whitespace indent. The lemmas are those of
`Proofs/TypedAgree.lean` with whitespace in front of every element, after every `:` and in front of the closing bracket.
-/
set_option linter.unusedSectionVars false
set_option linter.unusedVariables false

namespace SJ.Proofs.TypedPretty
open SJ SJ.Gen SJ.Model SJ.Model.Typed SJ.Model.Num SJ.Proofs.NumInt
open SJ.Model.Stream (skipWs)
open SJ.Spec.Image (render imageOfValue imageOfValues imageOfMembers layoutWith layoutElems layoutMembers quote)
open SJ.Proofs.Typed

/-- a layout: what is written before each element / member (and before the closing bracket) of a container whose contents are
    at depth `d`, and after the `:` of a member — JSON whitespace -/
structure Lay where
  sep : Nat → Bytes
  gap : Bytes
  hsep : ∀ d, WsB (sep d)
  hgap : WsB gap

/-- the compact layout -/
def Lay.compact : Lay := ⟨fun _ => [], [], fun _ => wsB_nil, wsB_nil⟩

variable (ext : Spec.Program.Ext) (L : Lay)

/-- the text of a value at depth `d` in the layout `L` -/
def TL (d : Nat) (v : JV) : Bytes := layoutWith L.sep L.gap d (imageOfValue ext v)

/-- the elements of an array whose contents are at depth `d`: `sep d` before each, `,` after each but the last -/
def LElems (d : Nat) : List JV → Bytes
  | [] => []
  | x :: xs => L.sep d ++ TL ext L d x ++ (if xs.isEmpty then [] else [0x2c]) ++ LElems d xs

/-- what follows an element -/
def LTail (d : Nat) : List JV → Bytes
  | [] => []
  | x :: xs => 0x2c :: LElems ext L d (x :: xs)

theorem layoutElems_values (d : Nat) : ∀ xs : List JV, layoutElems L.sep L.gap d (imageOfValues ext xs) = LElems ext L d xs
  | [] => by simp [imageOfValues, layoutElems, LElems]
  | x :: xs => by
    simp only [imageOfValues, layoutElems, LElems, TL]
    rw [layoutElems_values d xs]
    cases xs <;> simp [imageOfValues]

theorem TL_arr_nil (d : Nat) : TL ext L d (.arr []) = [0x5b, 0x5d] := by
  simp [TL, imageOfValue, imageOfValues, layoutWith]

theorem TL_arr_cons (d : Nat) (x : JV) (xs : List JV) :
    TL ext L d (.arr (x :: xs)) = 0x5b :: (LElems ext L (d + 1) (x :: xs) ++ (L.sep d ++ [0x5d])) := by
  simp only [TL, imageOfValue, layoutWith]
  rw [layoutElems_values]
  simp [imageOfValues]

theorem LElems_cons (d : Nat) (x : JV) (xs : List JV) :
    LElems ext L d (x :: xs) = L.sep d ++ (TL ext L d x ++ LTail ext L d xs) := by
  cases xs <;> simp [LElems, LTail]

/-- the text of a scalar does not depend on the layout -/
theorem TL_scalar (d : Nat) (v : JV) (ha : ∀ xs, v ≠ .arr xs) (ho : ∀ kvs, v ≠ .obj kvs) : TL ext L d v = T ext v := by
  cases v with
  | arr xs => exact absurd rfl (ha xs)
  | obj kvs => exact absurd rfl (ho kvs)
  | num n =>
    cases n with
    | float b => simp only [TL, T, render, imageOfValue]; split <;> simp [layoutWith, Spec.Image.numOf]
    | _ => simp [TL, T, render, imageOfValue, layoutWith, Spec.Image.numOf]
  | null | bool _ | str _ => simp [TL, T, render, imageOfValue, layoutWith]

theorem TL_obj_head (d : Nat) (kvs : List (Bytes × JV)) : ∃ tl, TL ext L d (.obj kvs) = 0x7b :: tl := by
  simp only [TL, imageOfValue, layoutWith]
  split <;> exact ⟨_, rfl⟩

variable (hext : Spec.Program.ExtOK ext)
include hext

/-- the first byte of a value's text tells its kind, in every layout -/
theorem TL_head (d : Nat) (v : JV) (hv : VOK v) : ∃ c tl, TL ext L d v = c :: tl ∧ HeadOf v c := by
  cases v with
  | arr xs =>
    cases xs with
    | nil => exact ⟨_, _, TL_arr_nil ext L d, rfl⟩
    | cons x xs => exact ⟨_, _, TL_arr_cons ext L d x xs, rfl⟩
  | obj kvs => obtain ⟨tl, h⟩ := TL_obj_head ext L d kvs; exact ⟨_, tl, h, rfl⟩
  | null =>
    rw [TL_scalar ext L d _ (fun _ h => by cases h) (fun _ h => by cases h)]; exact T_head ext hext _ hv
  | bool b =>
    rw [TL_scalar ext L d _ (fun _ h => by cases h) (fun _ h => by cases h)]; exact T_head ext hext _ hv
  | num n =>
    rw [TL_scalar ext L d _ (fun _ h => by cases h) (fun _ h => by cases h)]; exact T_head ext hext _ hv
  | str s =>
    rw [TL_scalar ext L d _ (fun _ h => by cases h) (fun _ h => by cases h)]; exact T_head ext hext _ hv

section
variable {env : Env} (hflt : env.flt = false) (cfg' : FromValue.Cfg) (hap : cfg'.ap = false) (ext' : FromValue.Ext)
include hflt hap

omit hext in
/-- `Option<T>`: `null` is `None`, anything else is `Some` of the inner target -/
theorem agree_option_L (d : Nat) (s : Schema) (f t : Nat) (v : JV) (hv : VOK v)
    (ih : v ≠ .null → Agree1 (deTyped env f t s) (FromValue.fromValue cfg' ext' s v) (TL ext L d v))
    (hT : ∃ c tl, TL ext L d v = c :: tl ∧ HeadOf v c) :
    Agree1 (deTyped env (f + 1) t (.option s)) (FromValue.fromValue cfg' ext' (.option s) v) (TL ext L d v) := by
  intro rest pos hs
  obtain ⟨c, tl, hT, hc⟩ := hT
  have hw := (headOf_facts hc).1
  have ht := headOf_tests hc
  rw [deTyped_option]
  cases v with
  | null =>
    have hnull : TL ext L d .null = [0x6e, 0x75, 0x6c, 0x6c] := rfl
    simp only [FromValue.fromValue, hnull, List.cons_append, List.nil_append]
    rw [skipWs_cons (by decide)]
    simp only [beq_self_eq_true, if_true]
    have := parseIdent_exact env Gen.identNull rest (pos + 1)
    show (parseIdent env Gen.identNull (Gen.identNull ++ rest) (pos + 1)).bind _ = _
    rw [this]
    simp [Res.bind, Gen.identNull]
  | bool _ | num _ | str _ | arr _ | obj _ =>
    have ih' := ih (by intro h; cases h) rest pos hs
    simp only [FromValue.fromValue]
    rw [hT] at ih' ⊢
    simp only [List.cons_append] at ih' ⊢
    cases hfv : FromValue.fromValue cfg' ext' s _ with
    | ok tv =>
      rw [hfv] at ih'
      simp only [Except.map] at ih' ⊢
      rw [skipWs_cons hw]
      simp only [ht.1, Bool.false_eq_true, if_false]
      rw [ih']
      simp [Res.map, Res.bind]
    | error e =>
      rw [hfv] at ih'
      simp only [Except.map] at ih' ⊢
      intro x r p
      rw [skipWs_cons hw]
      simp only [ht.1, Bool.false_eq_true, if_false]
      exact map_not_ok ih' x r p

omit hflt hap hext in
/-- what follows an element is an admissible follower: `,`, or the (whitespace and the) closing bracket -/
theorem sepOK_tail_L (d : Nat) (xs : List JV) {C : Bytes} (hC : WsB C) (rest : Bytes) :
    SepOK (LTail ext L d xs ++ (C ++ 0x5d :: rest)) := by
  cases xs with
  | nil =>
    cases C with
    | nil => exact .inr ⟨0x5d, rest, rfl, .inr (.inl rfl)⟩
    | cons w W => exact .inr ⟨w, _, rfl, .inr (.inr (.inr (.inr (hC w (by simp)))))⟩
  | cons x xs => exact .inr ⟨0x2c, _, rfl, .inl rfl⟩

/-- the elements still to be read: all of them (`first`), or a comma and the rest -/
def LX (d : Nat) (first : Bool) (xs : List JV) : Bytes := if first then LElems ext L d xs else LTail ext L d xs

omit hflt hap hext in
theorem LX_nil (d : Nat) (first : Bool) : LX ext L d first [] = [] := by cases first <;> rfl

omit hflt hap hext in
theorem LX_cons (d : Nat) (first : Bool) (x : JV) (xs : List JV) :
    LX ext L d first (x :: xs) = (if first then [] else [0x2c]) ++ (L.sep d ++ (TL ext L d x ++ LTail ext L d xs)) := by
  cases first
  · show LTail ext L d (x :: xs) = [0x2c] ++ _
    rw [LTail, LElems_cons]; rfl
  · show LElems ext L d (x :: xs) = [] ++ _
    rw [LElems_cons]; rfl

omit hap hext in
/-- `has_next_element` in front of an element -/
theorem hasNextElement_elem (d : Nat) (first : Bool) {c : UInt8} (hw : Machine.isWs c = false) (h5 : (c == 0x5d) = false)
    (tl : Bytes) (pos : Nat) :
    hasNextElement env first ((if first then [] else [0x2c]) ++ (L.sep d ++ c :: tl)) pos =
      .ok true (c :: tl) (pos + (if first then 0 else 1) + (L.sep d).length) := by
  cases first
  · simp only [Bool.false_eq_true, if_false, List.singleton_append]
    exact hasNextElement_comma_pad (L.hsep d) hw h5 tl pos
  · simp only [if_true, List.nil_append, Nat.add_zero]
    exact hasNextElement_first_pad (L.hsep d) hw h5 tl pos

omit hap in
/-- elements of an array read by the element parser `de`, against `seqAll fv`; `first`: no element has been read yet; `C`: the
    whitespace in front of the closing bracket -/
theorem seqLoop_text_L (d : Nat) (de : Bytes → Nat → TOut) (fv : JV → FromValue.R) {C : Bytes} (hC : WsB C) :
    ∀ (xs : List JV), (∀ x ∈ xs, Agree1 de (fv x) (TL ext L d x) ∧ ∃ c tl, TL ext L d x = c :: tl ∧ HeadOf x c) →
    ∀ (first : Bool) (acc : List TVal) (n : Nat) (rest : Bytes) (pos : Nat),
      (LX ext L d first xs ++ (C ++ 0x5d :: rest)).length < n →
      match FromValue.seqAll fv xs with
      | .ok (ys, _) => seqLoop env de n first acc (LX ext L d first xs ++ (C ++ 0x5d :: rest)) pos =
          .ok (acc.reverse ++ ys) (0x5d :: rest) (pos + (LX ext L d first xs).length + C.length)
      | .error _ => ∀ a r p, seqLoop env de n first acc (LX ext L d first xs ++ (C ++ 0x5d :: rest)) pos ≠ .ok a r p := by
  intro xs
  induction xs with
  | nil =>
    intro _ first acc n rest pos hn
    cases n with
    | zero => omega
    | succ n =>
      simp only [FromValue.seqAll, LX_nil, List.nil_append, List.length_nil, Nat.add_zero]
      unfold seqLoop nextElement
      rw [hasNextElement_close_pad first hC]
      simp [Res.bind]
  | cons x xs ih =>
    intro hx first acc n rest pos hn
    obtain ⟨hag, c, tl, hT, hc⟩ := hx x (by simp)
    have hw := (headOf_facts hc).1
    have h5 := (headOf_facts hc).2.1
    have ih' := ih (fun y hy => hx y (by simp [hy]))
    cases n with
    | zero => omega
    | succ n =>
      have htxt : LX ext L d first (x :: xs) ++ (C ++ 0x5d :: rest) =
          (if first then [] else [0x2c]) ++ (L.sep d ++ c :: (tl ++ (LTail ext L d xs ++ (C ++ 0x5d :: rest)))) := by
        rw [LX_cons, hT]; simp [List.append_assoc]
      have hlen : (LX ext L d first (x :: xs)).length =
          (if first then 0 else 1) + (L.sep d).length + (TL ext L d x).length + (LTail ext L d xs).length := by
        rw [LX_cons]; cases first <;> simp <;> omega
      have hel := hag (LTail ext L d xs ++ (C ++ 0x5d :: rest)) (pos + (if first then 0 else 1) + (L.sep d).length)
        (sepOK_tail_L ext L d xs hC rest)
      rw [hT] at hel
      simp only [List.cons_append] at hel
      rw [htxt]
      unfold seqLoop nextElement
      rw [hasNextElement_elem L hflt d first hw h5]
      simp only [Res.bind, if_true, FromValue.seqAll]
      cases hfx : fv x with
      | error e =>
        rw [hfx] at hel
        simp only at hel ⊢
        exact bind_not_ok (map_not_ok hel)
      | ok y =>
        rw [hfx] at hel
        simp only at hel ⊢
        rw [hel]
        simp only [Res.map, Res.bind]
        have hrec := ih' false (y :: acc) n rest (pos + (if first then 0 else 1) + (L.sep d).length + (c :: tl).length) (by
          rw [htxt] at hn
          simp only [LX, Bool.false_eq_true, if_false]
          simp only [List.length_append, List.length_cons] at hn ⊢
          omega)
        simp only [LX, Bool.false_eq_true, if_false] at hrec
        cases hall : FromValue.seqAll fv xs with
        | error e =>
          rw [hall] at hrec
          simp only at hrec ⊢
          exact hrec
        | ok p =>
          obtain ⟨ys, rem⟩ := p
          rw [hall] at hrec
          simp only at hrec ⊢
          rw [hrec, hlen, hT]
          simp only [List.reverse_cons, List.append_assoc, List.singleton_append]
          congr 1
          omega

omit hap in
/-- `deserialize_seq` on the text of an array in the layout, for a visitor that is a loop over the elements -/
theorem deSeq_arr_L (d t : Nat) (xs : List JV) (hd : DepthOK env t (.arr xs)) (visit : Nat → Bytes → Nat → TOut) (rest : Bytes) (pos : Nat) :
    ∃ C, WsB C ∧ TL ext L d (.arr xs) = 0x5b :: (LX ext L (d + 1) true xs ++ (C ++ [0x5d])) ∧
      deSeq env t (fun r p => visit (r.length + 1) r p) (TL ext L d (.arr xs) ++ rest) pos =
        closeWith env (endSeq env) (visit ((LX ext L (d + 1) true xs ++ (C ++ 0x5d :: rest)).length + 1)
          (LX ext L (d + 1) true xs ++ (C ++ 0x5d :: rest)) (pos + 1)) := by
  have key : ∃ C, WsB C ∧ TL ext L d (.arr xs) = 0x5b :: (LX ext L (d + 1) true xs ++ (C ++ [0x5d])) := by
    cases xs with
    | nil => exact ⟨[], wsB_nil, by rw [TL_arr_nil]; rfl⟩
    | cons x xs => exact ⟨L.sep d, L.hsep d, by rw [TL_arr_cons]; rfl⟩
  obtain ⟨C, hC, hT⟩ := key
  refine ⟨C, hC, hT, ?_⟩
  rw [hT]
  simp only [List.cons_append, List.append_assoc, List.nil_append]
  unfold deSeq
  rw [withPeek_cons env _ (by decide)]
  simp only [beq_self_eq_true, if_true, tooDeep_false t xs hd, Bool.false_eq_true, if_false]

/-- `Vec<T>` -/
theorem agree_seq_L (d : Nat) (s : Schema) (f t : Nat) (v : JV) (hv : VOK v) (hd : DepthOK env t v)
    (ih : ∀ xs, v = .arr xs → ∀ x ∈ xs, Agree1 (deTyped env f (t + 1) s) (FromValue.fromValue cfg' ext' s x) (TL ext L (d + 1) x)) :
    Agree1 (deTyped env (f + 1) t (.seq s)) (FromValue.fromValue cfg' ext' (.seq s) v) (TL ext L d v) := by
  intro rest pos hs
  obtain ⟨c, tl, hT, hc⟩ := TL_head ext L hext d v hv
  have hw := (headOf_facts hc).1
  have ht := headOf_tests hc
  rw [deTyped_seq]
  cases v with
  | arr xs =>
    obtain ⟨C, hC, hTa, hde⟩ := deSeq_arr_L ext L hext hflt d t xs hd
      (fun n r p => (seqLoop env (deTyped env f (t + 1) s) n true [] r p).map .seq) rest pos
    have hel : ∀ x ∈ xs, Agree1 (deTyped env f (t + 1) s) (FromValue.fromValue cfg' ext' s x) (TL ext L (d + 1) x) ∧
        ∃ c tl, TL ext L (d + 1) x = c :: tl ∧ HeadOf x c :=
      fun x hx => ⟨ih xs rfl x hx, TL_head ext L hext (d + 1) x (vok_elem xs x hx hv)⟩
    have hloop := seqLoop_text_L ext L hext hflt (d + 1) (deTyped env f (t + 1) s) (FromValue.fromValue cfg' ext' s) hC xs hel true []
      ((LX ext L (d + 1) true xs ++ (C ++ 0x5d :: rest)).length + 1) rest (pos + 1) (by omega)
    simp only [FromValue.fromValue]
    have hlenT : (TL ext L d (.arr xs)).length = 1 + (LX ext L (d + 1) true xs).length + C.length + 1 := by
      rw [hTa]; simp; omega
    cases hall : FromValue.seqAll (FromValue.fromValue cfg' ext' s) xs with
    | error e =>
      rw [hall] at hloop
      simp only at hloop
      simp only [FromValue.visitArray]
      intro x r p
      rw [hde]
      exact closeWith_not_ok _ (map_not_ok hloop) x r p
    | ok pr =>
      obtain ⟨ys, rem⟩ := pr
      rw [hall] at hloop
      simp only at hloop
      have hrem := seqAll_rem _ _ _ _ hall
      subst hrem
      simp only [FromValue.visitArray, List.isEmpty_nil, if_true]
      rw [hde, hloop, hlenT]
      simp only [Res.map, Res.bind, closeWith, endSeq_close, List.nil_append, List.reverse_nil]
      congr 1
      omega
  | null | bool _ | num _ | str _ | obj _ =>
    simp only [FromValue.fromValue, FromValue.fail]
    intro x r p
    rw [hT]
    simp only [List.cons_append]
    unfold deSeq
    rw [withPeek_cons env _ hw]
    simp only [ht.2.2.2.2.2.2.1, Bool.false_eq_true, if_false]
    exact peekInvalidType_not_ok _ _ _ _ _ _

omit hflt hap hext in
theorem endSeq_close_pad {C : Bytes} (hC : WsB C) (rest : Bytes) (pos : Nat) :
    (endSeq env (C ++ 0x5d :: rest) pos).res = .ok () rest (pos + C.length + 1) := by
  unfold endSeq
  rw [skipWs_pad hC, skipWs_cons (by decide)]
  simp

omit hflt hap hext in
/-- anything but `]` (behind whitespace) after the elements a tuple visitor has taken is an error of `end_seq` -/
theorem endSeq_not_close_pad {W : Bytes} (hW : WsB W) {c : UInt8} (hw : Machine.isWs c = false) (h5 : (c == 0x5d) = false)
    (tl : Bytes) (pos : Nat) : ∀ u r p, (endSeq env (W ++ c :: tl) pos).res ≠ .ok u r p := by
  intro u r p
  unfold endSeq
  rw [skipWs_pad hW, skipWs_cons hw]
  simp only [h5, Bool.false_eq_true, if_false]
  split
  · split <;> simp
  · simp

omit hflt hap hext in
/-- positionwise agreement of the element parsers of a fixed-length visitor with the elements of an array -/
def TupAgreeL (d : Nat) (de : Schema → Bytes → Nat → TOut) (fv : Schema → JV → FromValue.R) : List Schema → List JV → Prop
  | s :: ss, x :: xs => Agree1 (de s) (fv s x) (TL ext L d x) ∧ TupAgreeL d de fv ss xs
  | _, _ => True

/-- the unread elements a fixed-length visitor leaves behind -/
def LRem (d : Nat) (first : Bool) (ss : List Schema) (rem : List JV) : Bytes :=
  if first && ss.isEmpty then LElems ext L d rem else LTail ext L d rem

omit hap in
/-- a fixed-length tuple visitor on the elements of an array, against `tupleSeq`: the elements it leaves are left in the text -/
theorem tupleLoop_text_L (d f t : Nat) {C : Bytes} (hC : WsB C) : ∀ (ss : List Schema) (xs : List JV),
    TupAgreeL ext L d (deTyped env f t) (FromValue.fromValue cfg' ext') ss xs →
    (∀ x ∈ xs, ∃ c tl, TL ext L d x = c :: tl ∧ HeadOf x c) →
    ∀ (first : Bool) (acc : List TVal) (rest : Bytes) (pos : Nat),
      match FromValue.tupleSeq cfg' ext' ss xs with
      | .ok (ys, rem) =>
        tupleLoop env (deTyped env f t) ss first acc (LX ext L d first xs ++ (C ++ 0x5d :: rest)) pos =
          .ok (acc.reverse ++ ys) (LRem ext L d first ss rem ++ (C ++ 0x5d :: rest))
            (pos + (LX ext L d first xs).length - (LRem ext L d first ss rem).length)
      | .error _ => ∀ a r p,
        tupleLoop env (deTyped env f t) ss first acc (LX ext L d first xs ++ (C ++ 0x5d :: rest)) pos ≠ .ok a r p := by
  intro ss
  induction ss with
  | nil =>
    intro xs _ _ first acc rest pos
    simp only [FromValue.tupleSeq, tupleLoop, LRem, LX, List.isEmpty_nil, Bool.and_true, List.append_nil]
    congr 1
    omega
  | cons s ss ih =>
    intro xs hag hhd first acc rest pos
    cases xs with
    | nil =>
      simp only [FromValue.tupleSeq, FromValue.fail, LX_nil, List.nil_append]
      intro a r p
      unfold tupleLoop nextElement
      rw [hasNextElement_close_pad first hC]
      simp [Res.bind]
    | cons x xs =>
      obtain ⟨c, tl, hT, hc⟩ := hhd x (by simp)
      have hw := (headOf_facts hc).1
      have h5 := (headOf_facts hc).2.1
      have htxt : LX ext L d first (x :: xs) ++ (C ++ 0x5d :: rest) =
          (if first then [] else [0x2c]) ++ (L.sep d ++ c :: (tl ++ (LTail ext L d xs ++ (C ++ 0x5d :: rest)))) := by
        rw [LX_cons, hT]; simp [List.append_assoc]
      have hlen : (LX ext L d first (x :: xs)).length =
          (if first then 0 else 1) + (L.sep d).length + (TL ext L d x).length + (LTail ext L d xs).length := by
        rw [LX_cons]; cases first <;> simp <;> omega
      have hel := hag.1 (LTail ext L d xs ++ (C ++ 0x5d :: rest)) (pos + (if first then 0 else 1) + (L.sep d).length)
        (sepOK_tail_L ext L d xs hC rest)
      rw [hT] at hel
      simp only [List.cons_append] at hel
      rw [htxt]
      unfold tupleLoop nextElement
      rw [hasNextElement_elem L hflt d first hw h5]
      simp only [Res.bind, if_true, FromValue.tupleSeq]
      cases hfx : FromValue.fromValue cfg' ext' s x with
      | error e =>
        rw [hfx] at hel
        simp only at hel ⊢
        exact bind_not_ok (map_not_ok hel)
      | ok y =>
        rw [hfx] at hel
        simp only at hel ⊢
        rw [hel]
        simp only [Res.map, Res.bind]
        have hrec := ih xs hag.2 (fun x' hx' => hhd x' (by simp [hx']))
          false (y :: acc) rest (pos + (if first then 0 else 1) + (L.sep d).length + (c :: tl).length)
        simp only [LX, LRem, Bool.false_eq_true, if_false, Bool.false_and] at hrec
        cases hall : FromValue.tupleSeq cfg' ext' ss xs with
        | error e =>
          rw [hall] at hrec
          simp only at hrec ⊢
          exact hrec
        | ok pr =>
          obtain ⟨ys, rem⟩ := pr
          rw [hall] at hrec
          simp only at hrec ⊢
          rw [hrec, hlen, hT]
          simp only [LRem, List.isEmpty_cons, Bool.and_false, Bool.false_eq_true, if_false, List.reverse_cons, List.append_assoc,
            List.singleton_append]
          congr 1
          omega

/-- fixed-length tuples -/
theorem agree_tuple_L (d : Nat) (ss : List Schema) (f t : Nat) (v : JV) (hv : VOK v) (hd : DepthOK env t v)
    (ih : ∀ xs, v = .arr xs → TupAgreeL ext L (d + 1) (deTyped env f (t + 1)) (FromValue.fromValue cfg' ext') ss xs) :
    Agree1 (deTyped env (f + 1) t (.tuple ss)) (FromValue.fromValue cfg' ext' (.tuple ss) v) (TL ext L d v) := by
  intro rest pos hs
  obtain ⟨c, tl, hT, hc⟩ := TL_head ext L hext d v hv
  have hw := (headOf_facts hc).1
  have ht := headOf_tests hc
  rw [deTyped_tuple]
  cases v with
  | arr xs =>
    obtain ⟨C, hC, hTa, hde⟩ := deSeq_arr_L ext L hext hflt d t xs hd
      (fun _ r p => (tupleLoop env (deTyped env f (t + 1)) ss true [] r p).map .seq) rest pos
    have hhd : ∀ x ∈ xs, ∃ c tl, TL ext L (d + 1) x = c :: tl ∧ HeadOf x c :=
      fun x hx => TL_head ext L hext (d + 1) x (vok_elem xs x hx hv)
    have hloop := tupleLoop_text_L ext L hext hflt cfg' ext' (d + 1) f (t + 1) hC ss xs (ih xs rfl) hhd true [] rest (pos + 1)
    have hlenT : (TL ext L d (.arr xs)).length = 1 + (LX ext L (d + 1) true xs).length + C.length + 1 := by
      rw [hTa]; simp; omega
    simp only [FromValue.fromValue]
    cases hall : FromValue.tupleSeq cfg' ext' ss xs with
    | error e =>
      rw [hall] at hloop
      simp only at hloop
      simp only [FromValue.visitArray]
      intro x r p
      rw [hde]
      exact closeWith_not_ok _ (map_not_ok hloop) x r p
    | ok pr =>
      obtain ⟨ys, rem⟩ := pr
      rw [hall] at hloop
      simp only at hloop
      simp only [FromValue.visitArray]
      cases rem with
      | nil =>
        have hR : LRem ext L (d + 1) true ss ([] : List JV) = [] := by unfold LRem; split <;> rfl
        rw [hR] at hloop
        simp only [List.isEmpty_nil, if_true]
        rw [hde, hloop, hlenT]
        simp only [Res.map, Res.bind, closeWith, List.nil_append, endSeq_close_pad hC, List.reverse_nil, List.length_nil]
        congr 1
        omega
      | cons z zs =>
        simp only [List.isEmpty_cons, Bool.false_eq_true, if_false, FromValue.fail]
        intro x r p
        rw [hde, hloop]
        simp only [Res.map, Res.bind, closeWith]
        -- the text goes on with `,` or with the first unread element: `end_seq` rejects both
        have hne : ∀ q u r' p', (endSeq env (LRem ext L (d + 1) true ss (z :: zs) ++ (C ++ 0x5d :: rest)) q).res ≠ .ok u r' p' := by
          intro q
          unfold LRem
          split
          · obtain ⟨c', tl', hT', hc'⟩ := hhd z (tupleSeq_rem_mem _ _ _ _ _ _ hall z (by simp))
            rw [LElems_cons, hT']
            simp only [List.cons_append, List.append_assoc]
            exact endSeq_not_close_pad (L.hsep (d + 1)) (headOf_facts hc').1 (headOf_facts hc').2.1 _ _
          · show ∀ u r' p', (endSeq env (0x2c :: _) _).res ≠ _
            exact endSeq_not_close (by decide) (by decide) _ _
        cases hE : (endSeq env (LRem ext L (d + 1) true ss (z :: zs) ++ (C ++ 0x5d :: rest))
            (pos + 1 + (LX ext L (d + 1) true xs).length - (LRem ext L (d + 1) true ss (z :: zs)).length)).res with
        | ok u r' p' => exact absurd hE (hne _ u r' p')
        | _ => simp
  | null | bool _ | num _ | str _ | obj _ =>
    simp only [FromValue.fromValue, FromValue.fail]
    intro x r p
    rw [hT]
    simp only [List.cons_append]
    unfold deSeq
    rw [withPeek_cons env _ hw]
    simp only [ht.2.2.2.2.2.2.1, Bool.false_eq_true, if_false]
    exact peekInvalidType_not_ok _ _ _ _ _ _

/-- byte buffers: a string (raw: escapes decoded, no validation) or an array of `u8` -/
theorem agree_bytes_L (d t : Nat) (v : JV) (hv : VOK v) (hd : DepthOK env t v)
    (hfl : ∀ xs, v = .arr xs → ∀ x ∈ xs, ∀ b, x = .num (.float b) → ∀ rest pos, SepOK rest → ∀ y r p,
      deInt env .u8 (T ext x ++ rest) pos ≠ .ok y r p) :
    Agree1 (deBytes env t) (FromValue.fromValue cfg' ext' .bytes v) (TL ext L d v) := by
  cases v with
  | arr xs =>
    intro rest pos hs
    have hel : ∀ x ∈ xs, Agree1 (deNumber env (.int .u8)) (FromValue.deInt cfg' .u8 x) (TL ext L (d + 1) x) ∧
        ∃ c tl, TL ext L (d + 1) x = c :: tl ∧ HeadOf x c := by
      intro x hx
      have hvx := vok_elem xs x hx hv
      refine ⟨?_, TL_head ext L hext (d + 1) x hvx⟩
      have e : deInt env .u8 = deNumber env (.int .u8) := by funext r p; simp [deInt, is128, IntTy.bits]
      have := agree_int ext hext hflt cfg' hap ext' .u8 x hvx (hfl xs rfl x hx)
      rw [e] at this
      -- an element of a byte array is a scalar or is refused: its text does not depend on the layout when it matters
      intro rest' pos' hs'
      cases x with
      | arr ys =>
        simp only [FromValue.deInt, FromValue.fail]
        intro a r p
        obtain ⟨c, tl, hT, hc⟩ := TL_head ext L hext (d + 1) (.arr ys) hvx
        rw [hT]
        simp only [List.cons_append]
        unfold deNumber
        rw [withPeek_cons env _ (headOf_facts hc).1]
        simp only [(headOf_tests hc).2.2.2.1, Bool.false_eq_true, if_false]
        exact peekInvalidType_not_ok _ _ _ _ _ _
      | obj kvs =>
        simp only [FromValue.deInt, FromValue.fail]
        intro a r p
        obtain ⟨c, tl, hT, hc⟩ := TL_head ext L hext (d + 1) (.obj kvs) hvx
        rw [hT]
        simp only [List.cons_append]
        unfold deNumber
        rw [withPeek_cons env _ (headOf_facts hc).1]
        simp only [(headOf_tests hc).2.2.2.1, Bool.false_eq_true, if_false]
        exact peekInvalidType_not_ok _ _ _ _ _ _
      | null =>
        rw [TL_scalar ext L (d + 1) _ (fun _ h => by cases h) (fun _ h => by cases h)]
        simpa [FromValue.fromValue] using this rest' pos' hs'
      | bool b =>
        rw [TL_scalar ext L (d + 1) _ (fun _ h => by cases h) (fun _ h => by cases h)]
        simpa [FromValue.fromValue] using this rest' pos' hs'
      | num n =>
        rw [TL_scalar ext L (d + 1) _ (fun _ h => by cases h) (fun _ h => by cases h)]
        simpa [FromValue.fromValue] using this rest' pos' hs'
      | str s' =>
        rw [TL_scalar ext L (d + 1) _ (fun _ h => by cases h) (fun _ h => by cases h)]
        simpa [FromValue.fromValue] using this rest' pos' hs'
    obtain ⟨C, hC, hTa, hde⟩ := deSeq_arr_L ext L hext hflt d t xs hd
      (fun n r p => (seqLoop env (deNumber env (.int .u8)) n true [] r p).map fun ys => .bytes (FromValue.bytesOfInts ys)) rest pos
    have hloop := seqLoop_text_L ext L hext hflt (d + 1) (deNumber env (.int .u8)) (FromValue.deInt cfg' .u8) hC xs hel true []
      ((LX ext L (d + 1) true xs ++ (C ++ 0x5d :: rest)).length + 1) rest (pos + 1) (by omega)
    have hlenT : (TL ext L d (.arr xs)).length = 1 + (LX ext L (d + 1) true xs).length + C.length + 1 := by
      rw [hTa]; simp; omega
    have hdeB : deBytes env t (TL ext L d (.arr xs) ++ rest) pos =
        deSeq env t (fun r p => (seqLoop env (deNumber env (.int .u8)) (r.length + 1) true [] r p).map
          fun ys => .bytes (FromValue.bytesOfInts ys)) (TL ext L d (.arr xs) ++ rest) pos := by
      rw [hTa]
      simp only [List.cons_append]
      unfold deBytes
      rw [withPeek_cons env _ (by decide)]
      simp only [show ((0x5b : UInt8) == 0x22) = false by decide, Bool.false_eq_true, if_false, beq_self_eq_true, if_true]
    simp only [FromValue.fromValue]
    cases hall : FromValue.seqAll (FromValue.deInt cfg' .u8) xs with
    | error e =>
      rw [hall] at hloop
      simp only at hloop
      simp only [FromValue.visitArray]
      intro x r p
      rw [hdeB, hde]
      exact closeWith_not_ok _ (map_not_ok hloop) x r p
    | ok pr =>
      obtain ⟨ys, rem⟩ := pr
      rw [hall] at hloop
      simp only at hloop
      have hrem := seqAll_rem _ _ _ _ hall
      subst hrem
      simp only [FromValue.visitArray, List.isEmpty_nil, if_true]
      rw [hdeB, hde, hloop, hlenT]
      simp only [Res.map, Res.bind, closeWith, endSeq_close, List.nil_append, List.reverse_nil]
      congr 1
      omega
  | null =>
    rw [TL_scalar ext L d _ (fun _ h => by cases h) (fun _ h => by cases h)]
    exact agree_bytes ext hext hflt cfg' hap ext' t _ hv hd hfl
  | bool b =>
    rw [TL_scalar ext L d _ (fun _ h => by cases h) (fun _ h => by cases h)]
    exact agree_bytes ext hext hflt cfg' hap ext' t _ hv hd hfl
  | num n =>
    rw [TL_scalar ext L d _ (fun _ h => by cases h) (fun _ h => by cases h)]
    exact agree_bytes ext hext hflt cfg' hap ext' t _ hv hd hfl
  | str s' =>
    rw [TL_scalar ext L d _ (fun _ h => by cases h) (fun _ h => by cases h)]
    exact agree_bytes ext hext hflt cfg' hap ext' t _ hv hd hfl
  | obj kvs =>
    intro rest pos hs
    obtain ⟨c, tl, hT, hc⟩ := TL_head ext L hext d (.obj kvs) hv
    have ht := headOf_tests hc
    simp only [FromValue.fromValue, FromValue.fail]
    intro x r p
    rw [hT]
    simp only [List.cons_append]
    unfold deBytes
    rw [withPeek_cons env _ (headOf_facts hc).1]
    simp only [ht.2.2.2.2.2.2.2.2, ht.2.2.2.2.2.2.1, Bool.false_eq_true, if_false]
    exact peekInvalidType_not_ok _ _ _ _ _ _

end

end SJ.Proofs.TypedPretty
