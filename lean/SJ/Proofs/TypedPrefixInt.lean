import SJ.Proofs.TypedPrefix
import SJ.Proofs.NumInt
/-!
# The 8–64-bit integer targets under truncation: a digit-prefix of an in-range integer literal is an
# in-range integer literal (`IntPre`), so a number cut short by the end of the input still satisfies the
# visitor's range check (C10, typed targets).
-/
set_option linter.unusedSectionVars false
set_option linter.unusedVariables false

namespace SJ.Proofs.Typed
open SJ SJ.Gen SJ.Model SJ.Model.Typed SJ.Model.Num SJ.Proofs.NumInt
open SJ.Model.Stream (skipWs)

/-! ## what the scanner returns -/

theorem isDigit_iff (c : UInt8) : Machine.isDigit c = true ↔ ((0x30 : UInt8) ≤ c ∧ c ≤ 0x39) := by
  simp [Machine.isDigit]

theorem digitsOf_isDigits (r : Bytes) : IsDigits (digitsOf r).1 := by
  induction r with
  | nil => intro c hc; simp [digitsOf] at hc
  | cons x r ih =>
    simp only [digitsOf]
    split
    · rename_i hx
      intro c hc
      rcases List.mem_cons.mp hc with rfl | hc
      · exact (isDigit_iff _).1 hx
      · exact ih c hc
    · intro c hc; simp at hc

/-- the integer digits of a scanned literal: digits, at least one, and a leading `0` stands alone -/
def ScanOK (p : Parts) : Prop := IsDigits p.int ∧ p.int ≠ [] ∧ ∀ tl, p.int = 0x30 :: tl → tl = []

theorem scanInteger_ok {env : Env} (neg : Bool) (rest : Bytes) (pos : Nat) (parts : Parts) (r : Bytes) (p : Nat)
    (h : scanInteger env neg rest pos = .ok parts r p) : ScanOK parts := by
  unfold scanInteger at h
  split at h
  · exact absurd h (atEof_ne_ok _ _ _ _ _ _)
  · rename_i c r0
    by_cases h1 : (c == 0x30) = true
    · simp only [if_pos h1] at h
      have hc : c = 0x30 := by simpa using h1
      have key : parts.int = [c] := by
        split at h
        · exact (scanAfterInt_parts _ _ _ _ _ _ _ h).1
        · split at h
          · simp at h
          · exact (scanAfterInt_parts _ _ _ _ _ _ _ h).1
      rw [ScanOK, key, hc]
      refine ⟨?_, by simp, fun tl e => by cases e; rfl⟩
      intro x hx
      simp at hx
      subst hx
      decide
    · simp only [if_neg h1] at h
      split at h
      · rename_i hd
        have key := (scanAfterInt_parts _ _ _ _ _ _ _ h).1
        rw [ScanOK, key]
        refine ⟨?_, by simp, fun tl e => ?_⟩
        · intro x hx
          rcases List.mem_cons.mp hx with rfl | hx
          · exact (isDigit_iff _).1 hd
          · exact digitsOf_isDigits r0 x hx
        · cases e
          exact absurd (by simp) h1
      · simp at h

theorem scanNumber_ok {env : Env} (rest : Bytes) (pos : Nat) (parts : Parts) (r : Bytes) (p : Nat)
    (h : scanNumber env rest pos = .ok parts r p) : ScanOK parts := by
  unfold scanNumber at h
  split at h
  · exact absurd h (atEof_ne_ok _ _ _ _ _ _)
  · split at h <;> exact scanInteger_ok _ _ _ _ _ _ h

/-! ## conversions never yield an integer for a literal with a fraction or an exponent -/

theorem ofF_notInt (r : FRes) : NotInt (ofF r) := by
  cases r <;> constructor <;> intro _ h <;> simp [ofF] at h

theorem parseExponent_notInt (positive : Bool) (sig : Nat) (startExp : Int) (en : Bool) (ds : Bytes) :
    NotInt (parseExponent positive sig startExp en ds) := by
  unfold parseExponent
  repeat' split
  all_goals first
    | exact (exponentOverflow_float _ _ _).notInt
    | exact ofF_notInt _
    | (constructor <;> intro _ h <;> cases h)

theorem parseDecimal_notInt (positive : Bool) (sig : Nat) (expBefore : Int) (fds : Bytes) (exp : Option (Bool × Bytes)) :
    NotInt (parseDecimal positive sig expBefore fds exp) := by
  unfold parseDecimal
  dsimp only
  repeat' split
  all_goals first
    | exact parseExponent_notInt _ _ _ _ _
    | exact ofF_notInt _

theorem convertDefault_notInt (p : Parts) (h : p.frac ≠ none ∨ p.exp ≠ none) : NotInt (convertDefault p) := by
  unfold convertDefault
  dsimp only
  cases hf : p.frac with
  | none =>
    cases he : p.exp with
    | none => simp [hf, he] at h
    | some e =>
      obtain ⟨en, eds⟩ := e
      split <;> exact parseExponent_notInt _ _ _ _ _
  | some fds => split <;> exact parseDecimal_notInt _ _ _ _ _

theorem convertRoundtrip_notInt (p : Parts) (h : p.frac ≠ none ∨ p.exp ≠ none) : NotInt (convertRoundtrip p) := by
  have : intClass p = none := by
    unfold intClass
    split
    · rename_i hf he
      rcases h with h | h
      · exact absurd hf h
      · exact absurd he h
    · rfl
  exact (convertRoundtrip_of_intClass_none p this).notInt

/-- the conversion of a build -/
def conv (env : Env) (p : Parts) : NRes := if env.cfg.fr then convertRoundtrip p else convertDefault p

theorem conv_notInt (env : Env) (p : Parts) (h : p.frac ≠ none ∨ p.exp ≠ none) : NotInt (conv env p) := by
  unfold conv; split
  · exact convertRoundtrip_notInt p h
  · exact convertDefault_notInt p h

theorem conv_of_intClass_some (env : Env) (p : Parts) (hd : IsDigits p.int) (r : NRes) (h : intClass p = some r) :
    conv env p = r := by
  unfold conv; split
  · exact convertRoundtrip_of_intClass_some p r h
  · exact convertDefault_of_intClass_some p hd r h

theorem conv_of_intClass_none (env : Env) (p : Parts) (hf : p.frac = none) (he : p.exp = none) (hd : IsDigits p.int)
    (h : intClass p = none) : NotInt (conv env p) := by
  unfold conv; split
  · exact (convertRoundtrip_of_intClass_none p h).notInt
  · exact (convertDefault_of_intClass_none p hf he hd h).notInt

theorem parserNumber_eq (env : Env) (p : Parts) : parserNumber env p =
    (match conv env p with
     | .u64 k => some (.pos k) | .i64 k => some (.neg k) | .f64 b => some (.float b) | .outOfRange => none | .outOfFuel => none) := rfl

/-- what the integer visitor's success says about the literal -/
def IntFacts (w : IntTy) (p : Parts) : Prop :=
  p.frac = none ∧ p.exp = none ∧
  ((p.neg = false ∧ natOfDigits p.int < 2 ^ 64 ∧ w.inRange (natOfDigits p.int) = true) ∨
   (p.neg = true ∧ 0 < natOfDigits p.int ∧ natOfDigits p.int ≤ 2 ^ 63 ∧ w.inRange (-(natOfDigits p.int : Int)) = true))

theorem visitInt_ok {w : IntTy} {x : Int} {v : TVal} (h : FromValue.visitInt w x = .ok v) : w.inRange x = true := by
  unfold FromValue.visitInt at h
  split at h
  · assumption
  · simp [FromValue.fail] at h

theorem intFacts_of_visit (env : Env) (w : IntTy) (p : Parts) (hd : IsDigits p.int) (n : SJ.Num) (v : TVal)
    (hn : parserNumber env p = some n) (hv : visitNumber (.int w) n = .ok v) : IntFacts w p := by
  rw [parserNumber_eq] at hn
  -- the visitor accepts `U64`/`I64` only
  have hcases : (∃ u, n = .pos u ∧ conv env p = .u64 u ∧ w.inRange (u : Int) = true) ∨
      (∃ i, n = .neg i ∧ conv env p = .i64 i ∧ w.inRange i = true) := by
    cases hc : conv env p with
    | u64 k =>
      rw [hc] at hn; simp at hn; subst hn
      simp only [visitNumber, FromValue.numberInt, Bool.false_eq_true, if_false] at hv
      exact .inl ⟨k, rfl, rfl, visitInt_ok hv⟩
    | i64 k =>
      rw [hc] at hn; simp at hn; subst hn
      simp only [visitNumber, FromValue.numberInt, Bool.false_eq_true, if_false] at hv
      exact .inr ⟨k, rfl, rfl, visitInt_ok hv⟩
    | f64 b =>
      rw [hc] at hn; simp at hn; subst hn
      simp [visitNumber, FromValue.numberInt, FromValue.fail] at hv
    | outOfRange => rw [hc] at hn; simp at hn
    | outOfFuel => rw [hc] at hn; simp at hn
  have hfe : p.frac = none ∧ p.exp = none := by
    by_cases h : p.frac ≠ none ∨ p.exp ≠ none
    · have hni := conv_notInt env p h
      rcases hcases with ⟨u, _, hc, _⟩ | ⟨i, _, hc, _⟩
      · exact absurd hc (hni.1 u)
      · exact absurd hc (hni.2 i)
    · simp only [not_or] at h
      exact ⟨Classical.not_not.mp h.1, Classical.not_not.mp h.2⟩
  refine ⟨hfe.1, hfe.2, ?_⟩
  cases hic : intClass p with
  | none =>
    have hni := conv_of_intClass_none env p hfe.1 hfe.2 hd hic
    rcases hcases with ⟨u, _, hc, _⟩ | ⟨i, _, hc, _⟩
    · exact absurd hc (hni.1 u)
    · exact absurd hc (hni.2 i)
  | some r =>
    have hcr := conv_of_intClass_some env p hd r hic
    unfold intClass at hic
    rw [hfe.1, hfe.2] at hic
    simp only at hic
    split at hic
    · rename_i hneg
      split at hic
      · rename_i hlt
        cases hic
        rcases hcases with ⟨u, _, hc, hr⟩ | ⟨i, _, hc, _⟩
        · rw [hcr] at hc; cases hc
          exact .inl ⟨by simpa using hneg, hlt, hr⟩
        · rw [hcr] at hc; cases hc
      · cases hic
    · rename_i hneg
      split at hic
      · cases hic
      · rename_i h0
        split at hic
        · rename_i hle
          cases hic
          rcases hcases with ⟨u, _, hc, _⟩ | ⟨i, _, hc, hr⟩
          · rw [hcr] at hc; cases hc
          · rw [hcr] at hc; cases hc
            have h0' : natOfDigits p.int ≠ 0 := by simpa using h0
            exact .inr ⟨by simpa using hneg, by omega, hle, hr⟩
        · cases hic

/-! ## a digit-prefix of an in-range literal is in range -/

theorem lo_le_zero (w : IntTy) : w.lo ≤ 0 := by
  cases w <;> simp [IntTy.lo, IntTy.signed, IntTy.bits]

theorem zero_le_hi (w : IntTy) : 0 ≤ w.hi := by
  cases w <;> simp [IntTy.hi, IntTy.signed, IntTy.bits]

theorem inRange_between_pos (w : IntTy) (n' n : Nat) (h : n' ≤ n) (hr : w.inRange (n : Int) = true) : w.inRange (n' : Int) = true := by
  simp only [IntTy.inRange, Bool.and_eq_true, decide_eq_true_eq] at hr ⊢
  have := lo_le_zero w
  omega

theorem inRange_between_neg (w : IntTy) (n' n : Nat) (h : n' ≤ n) (hr : w.inRange (-(n : Int)) = true) :
    w.inRange (-(n' : Int)) = true := by
  simp only [IntTy.inRange, Bool.and_eq_true, decide_eq_true_eq] at hr ⊢
  have := zero_le_hi w
  omega

theorem dig_pos (c : UInt8) (hd : (0x30 : UInt8) ≤ c ∧ c ≤ 0x39) (h0 : c ≠ 0x30) : 0 < dig c := by
  have h1 := UInt8.le_iff_toNat_le.1 hd.1
  change 48 ≤ c.toNat at h1
  have h2 : c.toNat ≠ 48 := fun e => h0 (UInt8.toNat_inj.1 (by simpa using e))
  simp only [dig]
  omega

theorem natOfDigits_pos (ds : Bytes) (hd : IsDigits ds) (hne : ds ≠ []) (h0 : ∀ tl, ds ≠ 0x30 :: tl) : 0 < natOfDigits ds := by
  cases ds with
  | nil => exact absurd rfl hne
  | cons c r =>
    rw [natOfDigits_eq_val, val_cons]
    have hc : c ≠ 0x30 := fun e => h0 r (by rw [e])
    have := dig_pos c (hd c (by simp)) hc
    have := le_val (0 * 10 + dig c) r
    omega

/-- the parts of the prefix literal pass the conversion and the visitor -/
theorem cut_visit_ok (env : Env) (w : IntTy) (p p' : Parts) (hp : IntFacts w p) (hs : ScanOK p) (hs' : ScanOK p')
    (hneg : p'.neg = p.neg) (hf' : p'.frac = none) (he' : p'.exp = none) (tl : Bytes) (hint : p.int = p'.int ++ tl) :
    ∃ n' v', parserNumber env p' = some n' ∧ visitNumber (.int w) n' = .ok v' := by
  have hle : natOfDigits p'.int ≤ natOfDigits p.int := by
    rw [hint, natOfDigits_eq_val, natOfDigits_eq_val]; exact val_prefix_le _ _ _
  obtain ⟨_, _, hp⟩ := hp
  rcases hp with ⟨hn, hlt, hr⟩ | ⟨hn, hpos, hle63, hr⟩
  · -- non-negative
    have hic : intClass p' = some (.u64 (natOfDigits p'.int)) := by
      unfold intClass
      rw [hf', he']
      simp only
      rw [hneg, hn]
      simp only [Bool.not_false, if_true]
      rw [if_pos (by omega)]
    have hc := conv_of_intClass_some env p' hs'.1 _ hic
    refine ⟨.pos (natOfDigits p'.int), .int (natOfDigits p'.int), by rw [parserNumber_eq, hc], ?_⟩
    simp only [visitNumber, FromValue.numberInt, Bool.false_eq_true, if_false, FromValue.visitInt]
    rw [if_pos (inRange_between_pos w _ _ hle hr)]
  · -- negative: the prefix does not start with `0` (else the literal would be `0`)
    have h0 : ∀ t, p'.int ≠ 0x30 :: t := by
      intro t e
      have ht := hs'.2.2 t e
      subst ht
      rw [e] at hint
      have := hs.2.2 tl (by rw [hint]; rfl)
      subst this
      rw [hint] at hpos
      simp [natOfDigits, dig] at hpos
    have hpos' := natOfDigits_pos p'.int hs'.1 hs'.2.1 h0
    have hic : intClass p' = some (.i64 (-(natOfDigits p'.int : Int))) := by
      unfold intClass
      rw [hf', he']
      simp only
      rw [hneg, hn]
      simp only [Bool.not_true, Bool.false_eq_true, if_false]
      have hne : (natOfDigits p'.int == 0) = false := by simp; omega
      rw [hne]
      simp only [Bool.false_eq_true, if_false]
      rw [if_pos (by omega)]
    have hc := conv_of_intClass_some env p' hs'.1 _ hic
    refine ⟨.neg (-(natOfDigits p'.int : Int)), .int (-(natOfDigits p'.int : Int)), by rw [parserNumber_eq, hc], ?_⟩
    simp only [visitNumber, FromValue.numberInt, Bool.false_eq_true, if_false, FromValue.visitInt]
    rw [if_pos (inRange_between_neg w _ _ hle hr)]

/-! ## 128-bit targets: `scan_integer128` + `str::parse` -/

variable {A : Code → Prop} {b : Bytes} {N : Nat} {env : Env}

/-- the digits of a literal against the digits of a prefix of it -/
def DigCut (ds ds' : Bytes) : Prop := ∃ tl, ds = ds' ++ tl

theorem scanDigits_shape (acc : Bytes) (rest : Bytes) (pos : Nat) (ds r : Bytes) (p : Nat)
    (h : scanDigits env acc rest pos = .ok ds r p) : ∃ m, ds = acc.reverse ++ m ∧ IsDigits m := by
  induction rest generalizing acc pos with
  | nil =>
    unfold scanDigits at h
    split at h
    · simp at h
    · cases h; exact ⟨[], by simp, fun c hc => by simp at hc⟩
  | cons c r0 ih =>
    unfold scanDigits at h
    split at h
    · rename_i hd
      obtain ⟨m, hm, hdm⟩ := ih _ _ h
      refine ⟨c :: m, by rw [hm]; simp, fun x hx => ?_⟩
      rcases List.mem_cons.mp hx with rfl | hx
      · exact (isDigit_iff _).1 hd
      · exact hdm x hx
    · cases h; exact ⟨[], by simp, fun c hc => by simp at hc⟩

theorem preC_scanDigits (hflt : env.flt = false) (acc : Bytes) : PreCF DigCut A b N (scanDigits env acc) := by
  intro a
  induction a generalizing acc with
  | nil =>
    intro pos hN
    have : scanDigits env acc [] pos = .ok acc.reverse [] pos := by simp [scanDigits, hflt]
    rw [this]
    simp only [List.length_nil, Nat.add_zero] at hN
    rw [hN]
    refine PreC.of_end_ok _ _ fun x r p hx => ?_
    obtain ⟨m, hm, _⟩ := scanDigits_shape _ _ _ _ _ _ hx
    exact ⟨m, hm⟩
  | cons c r ih =>
    intro pos hN
    simp only [List.cons_append, scanDigits]
    simp only [List.length_cons] at hN
    by_cases hd : Machine.isDigit c = true
    · simp only [if_pos hd]
      exact ih (c :: acc) (pos + 1) (by omega)
    · simp only [if_neg hd]
      show PreC DigCut A b N (.ok _ ((c :: r) ++ b) _) (.ok _ (c :: r) _)
      exact .same (by simp only [List.length_cons]; omega)

theorem scanInteger128_ok (rest : Bytes) (pos : Nat) (ds r : Bytes) (p : Nat)
    (h : scanInteger128 env rest pos = .ok ds r p) : IsDigits ds ∧ ds ≠ [] := by
  unfold scanInteger128 at h
  split at h
  · exact absurd h (atEof_ne_ok _ _ _ _ _ _)
  · rename_i c r0
    by_cases h1 : (c == 0x30) = true
    · simp only [if_pos h1] at h
      have hc : c = 0x30 := by simpa using h1
      have key : ds = [c] := by
        repeat' split at h
        all_goals first
          | (simp at h; done)
          | (cases h; rfl)
      rw [key, hc]
      exact ⟨fun x hx => by simp at hx; subst hx; decide, by simp⟩
    · simp only [if_neg h1] at h
      split at h
      · rename_i hd
        obtain ⟨m, hm, hdm⟩ := scanDigits_shape _ _ _ _ _ _ h
        rw [hm]
        refine ⟨fun x hx => ?_, by simp⟩
        simp only [List.reverse_cons, List.reverse_nil, List.nil_append, List.singleton_append, List.mem_cons] at hx
        rcases hx with rfl | hx
        · exact (isDigit_iff _).1 hd
        · exact hdm x hx
      · simp at h

theorem preC_scanInteger128 (hflt : env.flt = false) (hAe : ∀ c, classify c = .eof → A c) :
    PreCF DigCut A b N (scanInteger128 env) := by
  intro a pos hN
  cases a with
  | nil =>
    have : scanInteger128 env [] pos = .err .EofWhileParsingValue pos := by simp [scanInteger128, atEof_eq hflt]
    rw [this]
    simp only [List.length_nil, Nat.add_zero] at hN
    rw [hN]
    exact PreC.of_end_err _ (hAe _ rfl)
  | cons c r =>
    simp only [List.cons_append, scanInteger128]
    simp only [List.length_cons] at hN
    by_cases h1 : (c == 0x30) = true
    · simp only [if_pos h1]
      cases r with
      | nil =>
        simp only [hflt, Bool.false_eq_true, ↓reduceIte]
        simp only [List.length_nil] at hN
        rw [show pos + 1 = N by omega]
        refine PreC.of_end_ok _ _ fun x r p hx => ?_
        simp only [List.nil_append] at hx
        repeat' split at hx
        all_goals first
          | (simp at hx; done)
          | (cases hx; exact ⟨[], by simp⟩)
      | cons d tl =>
        simp only [List.cons_append]
        split
        · exact .fail (by simp)
        · show PreC DigCut A b N (.ok _ ((d :: tl) ++ b) _) (.ok _ (d :: tl) _)
          exact .same (by simp only [List.length_cons] at hN ⊢; omega)
    · simp only [if_neg h1]
      split
      · exact preC_scanDigits hflt [c] r (pos + 1) (by omega)
      · exact .fail (by simp)

theorem all_isDigit_of (ds : Bytes) (h : IsDigits ds) : ds.all Spec.Grammar.isDigit = true := by
  rw [List.all_eq_true]
  intro x hx
  have := h x hx
  simp [Spec.Grammar.isDigit, this.1, this.2]

/-- `str::parse::<i128/u128>` on the scanned text: sign, then the range check of the digits' value -/
theorem parse128 (w : IntTy) (neg : Bool) (hs : neg = true → w.signed = true) (ds : Bytes) (hd : IsDigits ds) (hne : ds ≠ []) :
    FromValue.rustParseInt w (if neg then 0x2d :: ds else ds) =
      FromValue.rangeChecked w (if neg then -(natOfDigits ds : Int) else natOfDigits ds) := by
  have hall := all_isDigit_of ds hd
  have hemp : ds.isEmpty = false := by cases ds <;> simp_all
  cases neg with
  | true =>
    simp only [if_true, FromValue.rustParseInt, FromValue.signSplit, hs rfl]
    simp [FromValue.parseDigits, hall, hemp]
  | false =>
    cases ds with
    | nil => exact absurd rfl hne
    | cons c r =>
      have hc := hd c (by simp)
      have h1 : (c == 0x2b) = false := by
        have := UInt8.le_iff_toNat_le.1 hc.1
        change 48 ≤ c.toNat at this
        simp only [beq_eq_false_iff_ne, ne_eq]
        intro e; subst e; simp at this
      have h2 : (c == 0x2d) = false := by
        have := UInt8.le_iff_toNat_le.1 hc.1
        change 48 ≤ c.toNat at this
        simp only [beq_eq_false_iff_ne, ne_eq]
        intro e; subst e; simp at this
      simp only [Bool.false_eq_true, if_false, FromValue.rustParseInt, FromValue.signSplit, h1, h2, Bool.false_and]
      simp [FromValue.parseDigits, hall]

theorem rangeChecked_mono (w : IntTy) (neg : Bool) (n' n : Nat) (h : n' ≤ n) (x : Int)
    (hx : FromValue.rangeChecked w (if neg then -(n : Int) else n) = some x) :
    ∃ x', FromValue.rangeChecked w (if neg then -(n' : Int) else n') = some x' := by
  unfold FromValue.rangeChecked at hx ⊢
  cases neg with
  | true =>
    simp only [if_true] at hx ⊢
    split at hx
    · rename_i hr
      rw [if_pos (inRange_between_neg w n' n h hr)]
      exact ⟨_, rfl⟩
    · cases hx
  | false =>
    simp only [Bool.false_eq_true, if_false] at hx ⊢
    split at hx
    · rename_i hr
      rw [if_pos (inRange_between_pos w n' n h hr)]
      exact ⟨_, rfl⟩
    · cases hx

theorem pre_deInt128 (hflt : env.flt = false) (hAe : ∀ c, classify c = .eof → A c) (w : IntTy) : PreF A b N (deInt128 env w) := by
  unfold deInt128
  refine pre_withPeek hflt hAe rfl fun x r p hp => ?_
  simp only
  have fin : ∀ (neg : Bool), (neg = true → w.signed = true) → PreF A b N (fun rr pp => (scanInteger128 env rr pp).bind fun ds rest' pos' =>
      match FromValue.rustParseInt w (if neg then 0x2d :: ds else ds) with
      | some x => (.ok (.int x) rest' pos' : TOut)
      | none => .err .NumberOutOfRange (errorIdx env rest' pos' true)) := by
    intro neg hs a pos hN
    have hpre := preC_scanInteger128 (b := b) hflt hAe a pos hN
    dsimp only
    cases hF : scanInteger128 env (a ++ b) pos with
    | ok ds rf pf =>
      cases hG : scanInteger128 env a pos with
      | ok ds' rg pg =>
        rw [hF, hG] at hpre
        simp only [Res.bind]
        cases hpre with
        | same hp' =>
          split
          · exact .same hp'
          · exact .fail (by simp)
        | cut hc =>
          obtain ⟨tl, htl⟩ := hc
          have ho := scanInteger128_ok _ _ _ _ _ hF
          have ho' := scanInteger128_ok _ _ _ _ _ hG
          rw [parse128 w neg hs ds ho.1 ho.2, parse128 w neg hs ds' ho'.1 ho'.2]
          cases hx : FromValue.rangeChecked w (if neg then -(natOfDigits ds : Int) else natOfDigits ds) with
          | none => simp only; exact .fail (by simp)
          | some xv =>
            have hle : natOfDigits ds' ≤ natOfDigits ds := by
              rw [htl, natOfDigits_eq_val, natOfDigits_eq_val]; exact val_prefix_le _ _ _
            obtain ⟨x', hx'⟩ := rangeChecked_mono w neg _ _ hle xv hx
            rw [hx']
            exact .cut trivial
        | fail h => exact absurd rfl (h _ _ _)
      | err c i =>
        rw [hF, hG] at hpre
        cases hpre with
        | eof hc => exact Pre.of_atEnd _ (atEnd_err hc)
        | fail h => exact absurd rfl (h _ _ _)
      | data i => rw [hF, hG] at hpre; cases hpre with | fail h => exact absurd rfl (h _ _ _)
      | raw r' p' => rw [hF, hG] at hpre; cases hpre with | fail h => exact absurd rfl (h _ _ _)
      | io => rw [hF, hG] at hpre; cases hpre with | fail h => exact absurd rfl (h _ _ _)
      | fuel => rw [hF, hG] at hpre; cases hpre with | fail h => exact absurd rfl (h _ _ _)
    | _ => exact .fail (by simp [Res.bind])
  split
  · split
    · rename_i hsg
      exact fin true (fun _ => hsg) r (p + 1) (by omega)
    · exact .fail (by simp)
  · exact fin false (fun h => by cases h) (x :: r) p (by simp only [List.length_cons]; omega)

/-! ## `IntPre` -/

theorem pre_deNumber_int (hflt : env.flt = false) (hAe : ∀ c, classify c = .eof → A c) (w : IntTy) :
    PreF A b N (deNumber env (.int w)) := by
  unfold deNumber
  refine pre_withPeek hflt hAe rfl fun x r p hp => ?_
  split
  · -- the continuation after the scan
    have hfr : (env.cfg.fr && (NumTy.int w == NumTy.f32)) = false := by
      have : (NumTy.int w == NumTy.f32) = false := by
        show decide (NumTy.int w = NumTy.f32) = false
        simp
      rw [this]; simp
    simp only [hfr, Bool.false_eq_true, if_false]
    have hpre := preC_scanNumber (b := b) hflt hAe (x :: r) p (by simp only [List.length_cons]; omega)
    cases hF : scanNumber env ((x :: r) ++ b) p with
    | ok parts rf pf =>
      cases hG : scanNumber env (x :: r) p with
      | ok parts' rg pg =>
        rw [hF, hG] at hpre
        simp only [List.cons_append] at hF
        rw [hF]
        simp only [Res.bind]
        cases hpre with
        | same hp' =>
          split
          · exact pre_ofVisit_fix _ _ _ _ hp'
          · exact .fail (by simp)
        | cut hc =>
          -- the literal is cut short by the end of the prefix
          cases hn : parserNumber env parts with
          | none => simp only; exact .fail (by simp)
          | some n =>
            simp only
            cases hv : visitNumber (.int w) n with
            | error e => exact .fail (by simp [ofVisit, fixPos])
            | ok v =>
              have hs := scanNumber_ok _ _ _ _ _ (by rw [← List.cons_append] at hF; exact hF)
              have hs' := scanNumber_ok _ _ _ _ _ hG
              have hfacts := intFacts_of_visit env w parts hs.1 n v hn hv
              obtain ⟨hneg, hf', he', tl, hint⟩ := hc hfacts.1 hfacts.2.1
              obtain ⟨n', v', hn', hv'⟩ := cut_visit_ok env w parts parts' hfacts hs hs' hneg hf' he' tl hint
              rw [hn']
              simp only [hv']
              exact .cut trivial
        | fail h => exact absurd rfl (h _ _ _)
      | err c i =>
        rw [hF, hG] at hpre
        simp only [List.cons_append] at hF
        rw [hF]
        cases hpre with
        | eof hc => exact Pre.of_atEnd _ (atEnd_err hc)
        | fail h => exact absurd rfl (h _ _ _)
      | data i => rw [hF, hG] at hpre; cases hpre with | fail h => exact absurd rfl (h _ _ _)
      | raw r' p' => rw [hF, hG] at hpre; cases hpre with | fail h => exact absurd rfl (h _ _ _)
      | io => rw [hF, hG] at hpre; cases hpre with | fail h => exact absurd rfl (h _ _ _)
      | fuel => rw [hF, hG] at hpre; cases hpre with | fail h => exact absurd rfl (h _ _ _)
    | _ =>
      simp only [List.cons_append] at hF
      rw [hF]
      exact .fail (by simp [Res.bind])
  · exact pre_peekInvalidType

/-- the integer targets: `deserialize_i8 … deserialize_u128` -/
theorem intPre (hflt : env.flt = false) (hAe : ∀ c, classify c = .eof → A c) : IntPre A b N env := by
  intro w
  unfold deInt
  split
  · exact pre_deInt128 hflt hAe w
  · exact pre_deNumber_int hflt hAe w

end SJ.Proofs.Typed
