import SJ.Proofs.TypedPrefix
import SJ.Proofs.NumInt
/-!
# The 8–64-bit integer targets under truncation: a digit-prefix of an in-range integer literal is an
# in-range integer literal (`IntPre`), so a number cut short by the end of the input still satisfies the
# visitor's range check (C10, typed targets).
-/
set_option linter.unusedSectionVars false
set_option linter.unusedVariables false

namespace SJ.Proofs.Typed
open SJ SJ.Gen SJ.Model SJ.Model.Typed SJ.Model.Num SJ.Proofs.NumInt
open SJ.Model.Stream (skipWs)

/-! ## what the scanner returns -/

theorem isDigit_iff (c : UInt8) : Machine.isDigit c = true ↔ ((0x30 : UInt8) ≤ c ∧ c ≤ 0x39) := by
  simp [Machine.isDigit]

theorem digitsOf_isDigits (r : Bytes) : IsDigits (digitsOf r).1 := by
  induction r with
  | nil => intro c hc; simp [digitsOf] at hc
  | cons x r ih =>
    simp only [digitsOf]
    split
    · rename_i hx
      intro c hc
      rcases List.mem_cons.mp hc with rfl | hc
      · exact (isDigit_iff _).1 hx
      · exact ih c hc
    · intro c hc; simp at hc

/-- the integer digits of a scanned literal: digits, at least one, and a leading `0` stands alone -/
def ScanOK (p : Parts) : Prop := IsDigits p.int ∧ p.int ≠ [] ∧ ∀ tl, p.int = 0x30 :: tl → tl = []

theorem scanInteger_ok {env : Env} (neg : Bool) (rest : Bytes) (pos : Nat) (parts : Parts) (r : Bytes) (p : Nat)
    (h : scanInteger env neg rest pos = .ok parts r p) : ScanOK parts := by
  unfold scanInteger at h
  split at h
  · exact absurd h (atEof_ne_ok _ _ _ _ _ _)
  · rename_i c r0
    by_cases h1 : (c == 0x30) = true
    · simp only [if_pos h1] at h
      have hc : c = 0x30 := by simpa using h1
      have key : parts.int = [c] := by
        split at h
        · exact (scanAfterInt_parts _ _ _ _ _ _ _ h).1
        · split at h
          · simp at h
          · exact (scanAfterInt_parts _ _ _ _ _ _ _ h).1
      rw [ScanOK, key, hc]
      refine ⟨?_, by simp, fun tl e => by cases e; rfl⟩
      intro x hx
      simp at hx
      subst hx
      decide
    · simp only [if_neg h1] at h
      split at h
      · rename_i hd
        have key := (scanAfterInt_parts _ _ _ _ _ _ _ h).1
        rw [ScanOK, key]
        refine ⟨?_, by simp, fun tl e => ?_⟩
        · intro x hx
          rcases List.mem_cons.mp hx with rfl | hx
          · exact (isDigit_iff _).1 hd
          · exact digitsOf_isDigits r0 x hx
        · cases e
          exact absurd (by simp) h1
      · simp at h

theorem scanNumber_ok {env : Env} (rest : Bytes) (pos : Nat) (parts : Parts) (r : Bytes) (p : Nat)
    (h : scanNumber env rest pos = .ok parts r p) : ScanOK parts := by
  unfold scanNumber at h
  split at h
  · exact absurd h (atEof_ne_ok _ _ _ _ _ _)
  · split at h <;> exact scanInteger_ok _ _ _ _ _ _ h

/-! ## conversions never yield an integer for a literal with a fraction or an exponent -/

theorem ofF_notInt (r : FRes) : NotInt (ofF r) := by
  cases r <;> constructor <;> intro _ h <;> simp [ofF] at h

theorem parseExponent_notInt (positive : Bool) (sig : Nat) (startExp : Int) (en : Bool) (ds : Bytes) :
    NotInt (parseExponent positive sig startExp en ds) := by
  unfold parseExponent
  repeat' split
  all_goals first
    | exact (exponentOverflow_float _ _ _).notInt
    | exact ofF_notInt _
    | (constructor <;> intro _ h <;> cases h)

theorem parseDecimal_notInt (positive : Bool) (sig : Nat) (expBefore : Int) (fds : Bytes) (exp : Option (Bool × Bytes)) :
    NotInt (parseDecimal positive sig expBefore fds exp) := by
  unfold parseDecimal
  dsimp only
  repeat' split
  all_goals first
    | exact parseExponent_notInt _ _ _ _ _
    | exact ofF_notInt _

theorem convertDefault_notInt (p : Parts) (h : p.frac ≠ none ∨ p.exp ≠ none) : NotInt (convertDefault p) := by
  unfold convertDefault
  dsimp only
  cases hf : p.frac with
  | none =>
    cases he : p.exp with
    | none => simp [hf, he] at h
    | some e =>
      obtain ⟨en, eds⟩ := e
      split <;> exact parseExponent_notInt _ _ _ _ _
  | some fds => split <;> exact parseDecimal_notInt _ _ _ _ _

theorem convertRoundtrip_notInt (p : Parts) (h : p.frac ≠ none ∨ p.exp ≠ none) : NotInt (convertRoundtrip p) := by
  have : intClass p = none := by
    unfold intClass
    split
    · rename_i hf he
      rcases h with h | h
      · exact absurd hf h
      · exact absurd he h
    · rfl
  exact (convertRoundtrip_of_intClass_none p this).notInt

/-- the conversion of a build -/
def conv (env : Env) (p : Parts) : NRes := if env.cfg.fr then convertRoundtrip p else convertDefault p

theorem conv_notInt (env : Env) (p : Parts) (h : p.frac ≠ none ∨ p.exp ≠ none) : NotInt (conv env p) := by
  unfold conv; split
  · exact convertRoundtrip_notInt p h
  · exact convertDefault_notInt p h

theorem conv_of_intClass_some (env : Env) (p : Parts) (hd : IsDigits p.int) (r : NRes) (h : intClass p = some r) :
    conv env p = r := by
  unfold conv; split
  · exact convertRoundtrip_of_intClass_some p r h
  · exact convertDefault_of_intClass_some p hd r h

theorem conv_of_intClass_none (env : Env) (p : Parts) (hf : p.frac = none) (he : p.exp = none) (hd : IsDigits p.int)
    (h : intClass p = none) : NotInt (conv env p) := by
  unfold conv; split
  · exact (convertRoundtrip_of_intClass_none p h).notInt
  · exact (convertDefault_of_intClass_none p hf he hd h).notInt

theorem parserNumber_eq (env : Env) (p : Parts) : parserNumber env p =
    (match conv env p with
     | .u64 k => some (.pos k) | .i64 k => some (.neg k) | .f64 b => some (.float b) | .outOfRange => none | .outOfFuel => none) := rfl

/-- what the integer visitor's success says about the literal -/
def IntFacts (w : IntTy) (p : Parts) : Prop :=
  p.frac = none ∧ p.exp = none ∧
  ((p.neg = false ∧ natOfDigits p.int < 2 ^ 64 ∧ w.inRange (natOfDigits p.int) = true) ∨
   (p.neg = true ∧ 0 < natOfDigits p.int ∧ natOfDigits p.int ≤ 2 ^ 63 ∧ w.inRange (-(natOfDigits p.int : Int)) = true))

theorem visitInt_ok {w : IntTy} {x : Int} {v : TVal} (h : FromValue.visitInt w x = .ok v) : w.inRange x = true := by
  unfold FromValue.visitInt at h
  split at h
  · assumption
  · simp [FromValue.fail] at h

theorem intFacts_of_visit (env : Env) (w : IntTy) (p : Parts) (hd : IsDigits p.int) (n : SJ.Num) (v : TVal)
    (hn : parserNumber env p = some n) (hv : visitNumber (.int w) n = .ok v) : IntFacts w p := by
  rw [parserNumber_eq] at hn
  -- the visitor accepts `U64`/`I64` only
  have hcases : (∃ u, n = .pos u ∧ conv env p = .u64 u ∧ w.inRange (u : Int) = true) ∨
      (∃ i, n = .neg i ∧ conv env p = .i64 i ∧ w.inRange i = true) := by
    cases hc : conv env p with
    | u64 k =>
      rw [hc] at hn; simp at hn; subst hn
      simp only [visitNumber, FromValue.numberInt, Bool.false_eq_true, if_false] at hv
      exact .inl ⟨k, rfl, rfl, visitInt_ok hv⟩
    | i64 k =>
      rw [hc] at hn; simp at hn; subst hn
      simp only [visitNumber, FromValue.numberInt, Bool.false_eq_true, if_false] at hv
      exact .inr ⟨k, rfl, rfl, visitInt_ok hv⟩
    | f64 b =>
      rw [hc] at hn; simp at hn; subst hn
      simp [visitNumber, FromValue.numberInt, FromValue.fail] at hv
    | outOfRange => rw [hc] at hn; simp at hn
    | outOfFuel => rw [hc] at hn; simp at hn
  have hfe : p.frac = none ∧ p.exp = none := by
    by_cases h : p.frac ≠ none ∨ p.exp ≠ none
    · have hni := conv_notInt env p h
      rcases hcases with ⟨u, _, hc, _⟩ | ⟨i, _, hc, _⟩
      · exact absurd hc (hni.1 u)
      · exact absurd hc (hni.2 i)
    · simp only [not_or] at h
      exact ⟨Classical.not_not.mp h.1, Classical.not_not.mp h.2⟩
  refine ⟨hfe.1, hfe.2, ?_⟩
  cases hic : intClass p with
  | none =>
    have hni := conv_of_intClass_none env p hfe.1 hfe.2 hd hic
    rcases hcases with ⟨u, _, hc, _⟩ | ⟨i, _, hc, _⟩
    · exact absurd hc (hni.1 u)
    · exact absurd hc (hni.2 i)
  | some r =>
    have hcr := conv_of_intClass_some env p hd r hic
    unfold intClass at hic
    rw [hfe.1, hfe.2] at hic
    simp only at hic
    split at hic
    · rename_i hneg
      split at hic
      · rename_i hlt
        cases hic
        rcases hcases with ⟨u, _, hc, hr⟩ | ⟨i, _, hc, _⟩
        · rw [hcr] at hc; cases hc
          exact .inl ⟨by simpa using hneg, hlt, hr⟩
        · rw [hcr] at hc; cases hc
      · cases hic
    · rename_i hneg
      split at hic
      · cases hic
      · rename_i h0
        split at hic
        · rename_i hle
          cases hic
          rcases hcases with ⟨u, _, hc, _⟩ | ⟨i, _, hc, hr⟩
          · rw [hcr] at hc; cases hc
          · rw [hcr] at hc; cases hc
            have h0' : natOfDigits p.int ≠ 0 := by simpa using h0
            exact .inr ⟨by simpa using hneg, by omega, hle, hr⟩
        · cases hic

/-! ## a digit-prefix of an in-range literal is in range -/

theorem lo_le_zero (w : IntTy) : w.lo ≤ 0 := by
  cases w <;> simp [IntTy.lo, IntTy.signed, IntTy.bits]

theorem zero_le_hi (w : IntTy) : 0 ≤ w.hi := by
  cases w <;> simp [IntTy.hi, IntTy.signed, IntTy.bits]

theorem inRange_between_pos (w : IntTy) (n' n : Nat) (h : n' ≤ n) (hr : w.inRange (n : Int) = true) : w.inRange (n' : Int) = true := by
  simp only [IntTy.inRange, Bool.and_eq_true, decide_eq_true_eq] at hr ⊢
  have := lo_le_zero w
  omega

theorem inRange_between_neg (w : IntTy) (n' n : Nat) (h : n' ≤ n) (hr : w.inRange (-(n : Int)) = true) :
    w.inRange (-(n' : Int)) = true := by
  simp only [IntTy.inRange, Bool.and_eq_true, decide_eq_true_eq] at hr ⊢
  have := zero_le_hi w
  omega

theorem dig_pos (c : UInt8) (hd : (0x30 : UInt8) ≤ c ∧ c ≤ 0x39) (h0 : c ≠ 0x30) : 0 < dig c := by
  have h1 := UInt8.le_iff_toNat_le.1 hd.1
  change 48 ≤ c.toNat at h1
  have h2 : c.toNat ≠ 48 := fun e => h0 (UInt8.toNat_inj.1 (by simpa using e))
  simp only [dig]
  omega

theorem natOfDigits_pos (ds : Bytes) (hd : IsDigits ds) (hne : ds ≠ []) (h0 : ∀ tl, ds ≠ 0x30 :: tl) : 0 < natOfDigits ds := by
  cases ds with
  | nil => exact absurd rfl hne
  | cons c r =>
    rw [natOfDigits_eq_val, val_cons]
    have hc : c ≠ 0x30 := fun e => h0 r (by rw [e])
    have := dig_pos c (hd c (by simp)) hc
    have := le_val (0 * 10 + dig c) r
    omega

/-- the parts of the prefix literal pass the conversion and the visitor -/
theorem cut_visit_ok (env : Env) (w : IntTy) (p p' : Parts) (hp : IntFacts w p) (hs : ScanOK p) (hs' : ScanOK p')
    (hneg : p'.neg = p.neg) (hf' : p'.frac = none) (he' : p'.exp = none) (tl : Bytes) (hint : p.int = p'.int ++ tl) :
    ∃ n' v', parserNumber env p' = some n' ∧ visitNumber (.int w) n' = .ok v' := by
  have hle : natOfDigits p'.int ≤ natOfDigits p.int := by
    rw [hint, natOfDigits_eq_val, natOfDigits_eq_val]; exact val_prefix_le _ _ _
  obtain ⟨_, _, hp⟩ := hp
  rcases hp with ⟨hn, hlt, hr⟩ | ⟨hn, hpos, hle63, hr⟩
  · -- non-negative
    have hic : intClass p' = some (.u64 (natOfDigits p'.int)) := by
      unfold intClass
      rw [hf', he']
      simp only
      rw [hneg, hn]
      simp only [Bool.not_false, if_true]
      rw [if_pos (by omega)]
    have hc := conv_of_intClass_some env p' hs'.1 _ hic
    refine ⟨.pos (natOfDigits p'.int), .int (natOfDigits p'.int), by rw [parserNumber_eq, hc], ?_⟩
    simp only [visitNumber, FromValue.numberInt, Bool.false_eq_true, if_false, FromValue.visitInt]
    rw [if_pos (inRange_between_pos w _ _ hle hr)]
  · -- negative: the prefix does not start with `0` (else the literal would be `0`)
    have h0 : ∀ t, p'.int ≠ 0x30 :: t := by
      intro t e
      have ht := hs'.2.2 t e
      subst ht
      rw [e] at hint
      have := hs.2.2 tl (by rw [hint]; rfl)
      subst this
      rw [hint] at hpos
      simp [natOfDigits, dig] at hpos
    have hpos' := natOfDigits_pos p'.int hs'.1 hs'.2.1 h0
    have hic : intClass p' = some (.i64 (-(natOfDigits p'.int : Int))) := by
      unfold intClass
      rw [hf', he']
      simp only
      rw [hneg, hn]
      simp only [Bool.not_true, Bool.false_eq_true, if_false]
      have hne : (natOfDigits p'.int == 0) = false := by simp; omega
      rw [hne]
      simp only [Bool.false_eq_true, if_false]
      rw [if_pos (by omega)]
    have hc := conv_of_intClass_some env p' hs'.1 _ hic
    refine ⟨.neg (-(natOfDigits p'.int : Int)), .int (-(natOfDigits p'.int : Int)), by rw [parserNumber_eq, hc], ?_⟩
    simp only [visitNumber, FromValue.numberInt, Bool.false_eq_true, if_false, FromValue.visitInt]
    rw [if_pos (inRange_between_neg w _ _ hle hr)]

/-! ## `IntPre` -/

variable {A : Code → Prop} {b : Bytes} {N : Nat} {env : Env}

theorem intPre (hflt : env.flt = false) (hAe : ∀ c, classify c = .eof → A c) (hAn : A .NumberOutOfRange) : IntPre A b N env := by
  intro w
  unfold deNumber
  refine pre_withPeek hflt hAe rfl fun x r p hp => ?_
  split
  · -- the continuation after the scan
    have hfr : (env.cfg.fr && (NumTy.int w == NumTy.f32)) = false := by
      have : (NumTy.int w == NumTy.f32) = false := by
        show decide (NumTy.int w = NumTy.f32) = false
        simp
      rw [this]; simp
    simp only [hfr, Bool.false_eq_true, if_false]
    have hpre := preC_scanNumber (b := b) hflt hAe (x :: r) p (by simp only [List.length_cons]; omega)
    cases hF : scanNumber env ((x :: r) ++ b) p with
    | ok parts rf pf =>
      cases hG : scanNumber env (x :: r) p with
      | ok parts' rg pg =>
        rw [hF, hG] at hpre
        simp only [List.cons_append] at hF
        rw [hF]
        simp only [Res.bind]
        cases hpre with
        | same hp' =>
          split
          · exact pre_ofVisit_fix _ _ _ _ hp'
          · exact .fail (by simp)
        | cut hc =>
          -- the literal is cut short by the end of the prefix
          cases hn : parserNumber env parts with
          | none => simp only; exact .fail (by simp)
          | some n =>
            simp only
            cases hv : visitNumber (.int w) n with
            | error e => exact .fail (by simp [ofVisit, fixPos])
            | ok v =>
              have hs := scanNumber_ok _ _ _ _ _ (by rw [← List.cons_append] at hF; exact hF)
              have hs' := scanNumber_ok _ _ _ _ _ hG
              have hfacts := intFacts_of_visit env w parts hs.1 n v hn hv
              obtain ⟨hneg, hf', he', tl, hint⟩ := hc hfacts.1 hfacts.2.1
              obtain ⟨n', v', hn', hv'⟩ := cut_visit_ok env w parts parts' hfacts hs hs' hneg hf' he' tl hint
              rw [hn']
              simp only [hv']
              exact .cut trivial
        | fail h => exact absurd rfl (h _ _ _)
      | err c i =>
        rw [hF, hG] at hpre
        simp only [List.cons_append] at hF
        rw [hF]
        cases hpre with
        | eof hc => exact Pre.of_atEnd _ (atEnd_err hc)
        | fail h => exact absurd rfl (h _ _ _)
      | data i => rw [hF, hG] at hpre; cases hpre with | fail h => exact absurd rfl (h _ _ _)
      | raw r' p' => rw [hF, hG] at hpre; cases hpre with | fail h => exact absurd rfl (h _ _ _)
      | io => rw [hF, hG] at hpre; cases hpre with | fail h => exact absurd rfl (h _ _ _)
      | fuel => rw [hF, hG] at hpre; cases hpre with | fail h => exact absurd rfl (h _ _ _)
    | _ =>
      simp only [List.cons_append] at hF
      rw [hF]
      exact .fail (by simp [Res.bind])
  · exact pre_peekInvalidType

end SJ.Proofs.Typed
