import SJ.Spec.Recognise
import SJ.Proofs.Number
/-!
# Soundness of the independent recogniser: `recognise ws bs = some t → JsonText bs t`
(so whatever the driver's specification check accepts really is an RFC 8259 text with that tree;
with `ws = false` it is moreover a bare `value`: `recognise_compact_sound`).
-/
namespace SJ.Proofs.Recognise
open SJ SJ.Spec.Grammar SJ.Spec.Recognise SJ.Spec.Number

theorem ws_nil : Ws [] := rfl

theorem skipWs_spec (ws : Bool) (bs : Bytes) : ∃ w, Ws w ∧ bs = w ++ skipWs ws bs ∧ (ws = false → w = []) := by
  cases ws with
  | false => exact ⟨[], ws_nil, by simp [skipWs], fun _ => rfl⟩
  | true =>
    refine ⟨bs.takeWhile isWs, ?_, by simp [skipWs], fun h => by cases h⟩
    unfold Ws
    induction bs with
    | nil => rfl
    | cons b bs ih =>
      by_cases hb : isWs b = true
      · simp [List.takeWhile, hb, ih]
      · simp [List.takeWhile, hb]

theorem literal_sound (lit : Bytes) (t t' : CST) (bs rest : Bytes) (h : literal lit t bs = some (t', rest)) :
    t' = t ∧ bs = lit ++ rest := by
  unfold literal at h
  split at h
  · rename_i hl
    simp only [Option.some.injEq, Prod.mk.injEq] at h
    refine ⟨h.1.symm, ?_⟩
    rw [← h.2]
    have := List.take_append_drop lit.length bs
    rw [beq_iff_eq] at hl
    rw [hl] at this; exact this.symm
  · cases h

theorem strTail_sound : ∀ (bs : Bytes) (items : List StrItem) (rest : Bytes), strTail bs = some (items, rest) →
    StrWF items = true ∧ bs = items.flatMap StrItem.bytes ++ [0x22] ++ rest
  | [], _, _, h => by simp [strTail] at h
  | c :: r, items, rest, h => by
    unfold strTail at h
    by_cases h1 : (c == 0x22) = true
    · simp only [h1, if_true, Option.some.injEq, Prod.mk.injEq] at h
      obtain ⟨rfl, rfl⟩ := h
      rw [beq_iff_eq] at h1; subst h1
      exact ⟨rfl, rfl⟩
    · simp only [h1, Bool.false_eq_true, if_false] at h
      by_cases h2 : (c == 0x5c) = true
      · simp only [h2, if_true] at h
        rw [beq_iff_eq] at h2; subst h2
        cases r with
        | nil => simp at h
        | cons e r' =>
          simp only at h
          by_cases h3 : (e == 0x75) = true
          · simp only [h3, if_true] at h
            rw [beq_iff_eq] at h3; subst h3
            match r', h with
            | a :: b :: c :: d :: r'', h =>
              simp only at h
              by_cases hh : (isHex a && isHex b && isHex c && isHex d) = true
              · simp only [hh, if_true] at h
                cases ht : strTail r'' with
                | none => simp [ht] at h
                | some pr =>
                  obtain ⟨items', rest'⟩ := pr
                  simp only [ht, Option.some.injEq, Prod.mk.injEq] at h
                  obtain ⟨rfl, rfl⟩ := h
                  obtain ⟨hw, hb⟩ := strTail_sound r'' items' rest' ht
                  refine ⟨?_, ?_⟩
                  · simp only [StrWF, List.all_cons, StrItem.WF, hh, Bool.true_and]; exact hw
                  · simp [StrItem.bytes, hb]
              · simp [hh] at h
            | [], h => simp at h
            | [_], h => simp at h
            | [_, _], h => simp at h
            | [_, _, _], h => simp at h
          · simp only [h3, Bool.false_eq_true, if_false] at h
            by_cases h4 : isSimpleEscape e = true
            · simp only [h4, if_true] at h
              cases ht : strTail r' with
              | none => simp [ht] at h
              | some pr =>
                obtain ⟨items', rest'⟩ := pr
                simp only [ht, Option.some.injEq, Prod.mk.injEq] at h
                obtain ⟨rfl, rfl⟩ := h
                obtain ⟨hw, hb⟩ := strTail_sound r' items' rest' ht
                refine ⟨?_, ?_⟩
                · simp only [StrWF, List.all_cons, StrItem.WF, h4, Bool.true_and]; exact hw
                · simp [StrItem.bytes, hb]
            · simp [h4] at h
      · simp only [h2, Bool.false_eq_true, if_false] at h
        by_cases h5 : isUnescaped c = true
        · simp only [h5, if_true] at h
          cases ht : strTail r with
          | none => simp [ht] at h
          | some pr =>
            obtain ⟨items', rest'⟩ := pr
            simp only [ht, Option.some.injEq, Prod.mk.injEq] at h
            obtain ⟨rfl, rfl⟩ := h
            obtain ⟨hw, hb⟩ := strTail_sound r items' rest' ht
            refine ⟨?_, ?_⟩
            · simp only [StrWF, List.all_cons, StrItem.WF, h5, Bool.true_and]; exact hw
            · simp [StrItem.bytes, hb]
        · simp [h5] at h

/-- `"` followed by a recognised tail is a string literal followed by the rest -/
theorem string_sound (r : Bytes) (items : List StrItem) (rest : Bytes) (h : strTail r = some (items, rest)) :
    StrWF items = true ∧ (0x22 :: r) = strBytes items ++ rest := by
  obtain ⟨hw, hb⟩ := strTail_sound r items rest h
  exact ⟨hw, by simp [strBytes, hb]⟩

theorem number_sound (bs : Bytes) (t : CST) (rest : Bytes) (h : number bs = some (t, rest)) :
    ∃ v, bs = v ++ rest ∧ Derives v t := by
  unfold number at h
  simp only at h
  split at h
  · rename_i hn
    simp only [Option.some.injEq, Prod.mk.injEq] at h
    obtain ⟨rfl, rfl⟩ := h
    obtain ⟨hwf, hb⟩ := Number.splitNumber_of_isNumber _ ((Number.isNumber_iff _).1 hn)
    refine ⟨bs.takeWhile isNumByte, by simp, ?_⟩
    have := Derives.num _ hwf
    rwa [hb] at this
  · cases h

theorem elems_ne_nil {body : Bytes} {ts : List CST} (h : Elems body ts) : ts ≠ [] := by
  cases h <;> simp
theorem members_ne_nil {body : Bytes} {ms : List (List StrItem × CST)} (h : Members body ms) : ms ≠ [] := by
  cases h <;> simp

/-- the three statements proved together by induction on the fuel -/
def PValue (ws : Bool) (fuel : Nat) : Prop :=
  ∀ bs t rest, value ws fuel bs = some (t, rest) → ∃ v, bs = v ++ rest ∧ Derives v t
def PElems (ws : Bool) (fuel : Nat) : Prop :=
  ∀ bs ts rest, elems ws fuel bs = some (ts, rest) →
    ∃ body w, bs = body ++ w ++ [0x5d] ++ rest ∧ Ws w ∧ Elems body ts
def PMembers (ws : Bool) (fuel : Nat) : Prop :=
  ∀ bs ms rest, members ws fuel bs = some (ms, rest) →
    ∃ body w, bs = body ++ w ++ [0x7d] ++ rest ∧ Ws w ∧ Members body ms

theorem value_step (ws : Bool) (fuel : Nat) (he : PElems ws fuel) (hm : PMembers ws fuel) : PValue ws (fuel + 1) := by
  intro bs t rest h
  cases bs with
  | nil => simp [value] at h
  | cons c r =>
    simp only [value] at h
    by_cases h1 : (c == 0x6e) = true
    · simp only [h1, if_true] at h
      obtain ⟨rfl, hb⟩ := literal_sound _ _ _ _ _ h
      exact ⟨_, hb, Derives.null⟩
    simp only [h1, Bool.false_eq_true, if_false] at h
    by_cases h2 : (c == 0x74) = true
    · simp only [h2, if_true] at h
      obtain ⟨rfl, hb⟩ := literal_sound _ _ _ _ _ h
      exact ⟨_, hb, Derives.true_⟩
    simp only [h2, Bool.false_eq_true, if_false] at h
    by_cases h3 : (c == 0x66) = true
    · simp only [h3, if_true] at h
      obtain ⟨rfl, hb⟩ := literal_sound _ _ _ _ _ h
      exact ⟨_, hb, Derives.false_⟩
    simp only [h3, Bool.false_eq_true, if_false] at h
    by_cases h4 : (c == 0x22) = true
    · simp only [h4, if_true] at h
      rw [beq_iff_eq] at h4; subst h4
      cases ht : strTail r with
      | none => simp [ht] at h
      | some pr =>
        obtain ⟨items, rest'⟩ := pr
        simp only [ht, Option.some.injEq, Prod.mk.injEq] at h
        obtain ⟨rfl, rfl⟩ := h
        obtain ⟨hw, hb⟩ := string_sound r items rest' ht
        exact ⟨strBytes items, hb, Derives.str items hw⟩
    simp only [h4, Bool.false_eq_true, if_false] at h
    by_cases h5 : (c == 0x5b) = true
    · simp only [h5, if_true] at h
      rw [beq_iff_eq] at h5; subst h5
      obtain ⟨w, hw, hr, _⟩ := skipWs_spec ws r
      cases hs : skipWs ws r with
      | nil => simp [hs] at h
      | cons d r' =>
        rw [hs] at hr
        simp only [hs] at h
        by_cases hd : (d == 0x5d) = true
        · simp only [hd, if_true, Option.some.injEq, Prod.mk.injEq] at h
          obtain ⟨rfl, rfl⟩ := h
          rw [beq_iff_eq] at hd; subst hd
          exact ⟨[0x5b] ++ w ++ [0x5d], by simp [hr], Derives.arrEmpty w hw⟩
        · simp only [hd, Bool.false_eq_true, if_false] at h
          cases hel : elems ws fuel (d :: r') with
          | none => simp [hel] at h
          | some pr =>
            obtain ⟨ts, rest'⟩ := pr
            simp only [hel, Option.some.injEq, Prod.mk.injEq] at h
            obtain ⟨rfl, rfl⟩ := h
            obtain ⟨body, w2, hb, hw2, hE⟩ := he _ _ _ hel
            refine ⟨[0x5b] ++ w ++ body ++ w2 ++ [0x5d], ?_, Derives.arr w body w2 ts hw hw2 (elems_ne_nil hE) hE⟩
            rw [hr, hb]; simp
    simp only [h5, Bool.false_eq_true, if_false] at h
    by_cases h6 : (c == 0x7b) = true
    · simp only [h6, if_true] at h
      rw [beq_iff_eq] at h6; subst h6
      obtain ⟨w, hw, hr, _⟩ := skipWs_spec ws r
      cases hs : skipWs ws r with
      | nil => simp [hs] at h
      | cons d r' =>
        rw [hs] at hr
        simp only [hs] at h
        by_cases hd : (d == 0x7d) = true
        · simp only [hd, if_true, Option.some.injEq, Prod.mk.injEq] at h
          obtain ⟨rfl, rfl⟩ := h
          rw [beq_iff_eq] at hd; subst hd
          exact ⟨[0x7b] ++ w ++ [0x7d], by simp [hr], Derives.objEmpty w hw⟩
        · simp only [hd, Bool.false_eq_true, if_false] at h
          cases hel : members ws fuel (d :: r') with
          | none => simp [hel] at h
          | some pr =>
            obtain ⟨ms, rest'⟩ := pr
            simp only [hel, Option.some.injEq, Prod.mk.injEq] at h
            obtain ⟨rfl, rfl⟩ := h
            obtain ⟨body, w2, hb, hw2, hM⟩ := hm _ _ _ hel
            refine ⟨[0x7b] ++ w ++ body ++ w2 ++ [0x7d], ?_, Derives.obj w body w2 ms hw hw2 (members_ne_nil hM) hM⟩
            rw [hr, hb]; simp
    simp only [h6, Bool.false_eq_true, if_false] at h
    exact number_sound _ _ _ h

theorem elems_step (ws : Bool) (fuel : Nat) (hv : PValue ws fuel) (he : PElems ws fuel) : PElems ws (fuel + 1) := by
  intro bs ts rest h
  simp only [elems] at h
  cases hval : value ws fuel bs with
  | none => simp [hval] at h
  | some pr =>
    obtain ⟨t, r⟩ := pr
    simp only [hval] at h
    obtain ⟨v, hb, hD⟩ := hv _ _ _ hval
    obtain ⟨w, hw, hr, _⟩ := skipWs_spec ws r
    cases hs : skipWs ws r with
    | nil => simp [hs] at h
    | cons c r' =>
      rw [hs] at hr
      simp only [hs] at h
      by_cases hc : (c == 0x5d) = true
      · simp only [hc, if_true, Option.some.injEq, Prod.mk.injEq] at h
        obtain ⟨rfl, rfl⟩ := h
        rw [beq_iff_eq] at hc; subst hc
        exact ⟨v, w, by rw [hb, hr]; simp, hw, Elems.one v t hD⟩
      · simp only [hc, Bool.false_eq_true, if_false] at h
        by_cases hc2 : (c == 0x2c) = true
        · simp only [hc2, if_true] at h
          rw [beq_iff_eq] at hc2; subst hc2
          obtain ⟨w2, hw2, hr2, _⟩ := skipWs_spec ws r'
          cases hel : elems ws fuel (skipWs ws r') with
          | none => simp [hel] at h
          | some pr =>
            obtain ⟨ts', rest'⟩ := pr
            simp only [hel, Option.some.injEq, Prod.mk.injEq] at h
            obtain ⟨rfl, rfl⟩ := h
            obtain ⟨body, w3, hb3, hw3, hE⟩ := he _ _ _ hel
            refine ⟨v ++ w ++ [0x2c] ++ w2 ++ body, w3, ?_, hw3, Elems.cons v w w2 body t ts' hD hw hw2 hE⟩
            rw [hb, hr, hr2, hb3]; simp
        · simp [hc2] at h

theorem members_step (ws : Bool) (fuel : Nat) (hv : PValue ws fuel) (hm : PMembers ws fuel) :
    PMembers ws (fuel + 1) := by
  intro bs ms rest h
  cases bs with
  | nil => simp [members] at h
  | cons q r0 =>
    simp only [members] at h
    by_cases hq : (q == 0x22) = true
    · simp only [hq, if_true] at h
      rw [beq_iff_eq] at hq; subst hq
      cases ht : strTail r0 with
      | none => simp [ht] at h
      | some pr =>
        obtain ⟨k, r1⟩ := pr
        simp only [ht] at h
        obtain ⟨hk, hkb⟩ := string_sound r0 k r1 ht
        obtain ⟨w1, hw1, hr1, _⟩ := skipWs_spec ws r1
        cases hs : skipWs ws r1 with
        | nil => simp [hs] at h
        | cons c r2 =>
          rw [hs] at hr1
          simp only [hs] at h
          by_cases hc : (c == 0x3a) = true
          · simp only [hc, if_true] at h
            rw [beq_iff_eq] at hc; subst hc
            obtain ⟨w2, hw2, hr2, _⟩ := skipWs_spec ws r2
            cases hval : value ws fuel (skipWs ws r2) with
            | none => simp [hval] at h
            | some pr =>
              obtain ⟨t, r3⟩ := pr
              simp only [hval] at h
              obtain ⟨v, hb, hD⟩ := hv _ _ _ hval
              obtain ⟨w3, hw3, hr3, _⟩ := skipWs_spec ws r3
              cases hs3 : skipWs ws r3 with
              | nil => simp [hs3] at h
              | cons c3 r4 =>
                rw [hs3] at hr3
                simp only [hs3] at h
                by_cases hc3 : (c3 == 0x7d) = true
                · simp only [hc3, if_true, Option.some.injEq, Prod.mk.injEq] at h
                  obtain ⟨rfl, rfl⟩ := h
                  rw [beq_iff_eq] at hc3; subst hc3
                  refine ⟨strBytes k ++ w1 ++ [0x3a] ++ w2 ++ v, w3, ?_, hw3, Members.one k hk w1 w2 v t hw1 hw2 hD⟩
                  rw [hkb, hr1, hr2, hb, hr3]; simp
                · simp only [hc3, Bool.false_eq_true, if_false] at h
                  by_cases hc4 : (c3 == 0x2c) = true
                  · simp only [hc4, if_true] at h
                    rw [beq_iff_eq] at hc4; subst hc4
                    obtain ⟨w4, hw4, hr4, _⟩ := skipWs_spec ws r4
                    cases hmem : members ws fuel (skipWs ws r4) with
                    | none => simp [hmem] at h
                    | some pr =>
                      obtain ⟨ms', rest'⟩ := pr
                      simp only [hmem, Option.some.injEq, Prod.mk.injEq] at h
                      obtain ⟨rfl, rfl⟩ := h
                      obtain ⟨body, w5, hb5, hw5, hM⟩ := hm _ _ _ hmem
                      refine ⟨strBytes k ++ w1 ++ [0x3a] ++ w2 ++ v ++ w3 ++ [0x2c] ++ w4 ++ body, w5, ?_, hw5,
                        Members.cons k hk w1 w2 v w3 w4 body t ms' hw1 hw2 hD hw3 hw4 hM⟩
                      rw [hkb, hr1, hr2, hb, hr3, hr4, hb5]; simp
                  · simp [hc4] at h
          · simp [hc] at h
    · simp [hq] at h

theorem all_sound (ws : Bool) : ∀ fuel, PValue ws fuel ∧ PElems ws fuel ∧ PMembers ws fuel
  | 0 => ⟨fun _ _ _ h => by simp [value] at h, fun _ _ _ h => by simp [elems] at h,
          fun _ _ _ h => by simp [members] at h⟩
  | fuel + 1 =>
    have ih := all_sound ws fuel
    ⟨value_step ws fuel ih.2.1 ih.2.2, elems_step ws fuel ih.1 ih.2.1, members_step ws fuel ih.1 ih.2.2⟩

/-- **soundness of the recogniser** -/
theorem recognise_sound (ws : Bool) (bs : Bytes) (t : CST) (h : recognise ws bs = some t) : JsonText bs t := by
  unfold recognise at h
  obtain ⟨w1, hw1, hb1, _⟩ := skipWs_spec ws bs
  cases hv : value ws (2 * bs.length + 2) (skipWs ws bs) with
  | none => simp [hv] at h
  | some pr =>
    obtain ⟨t', rest⟩ := pr
    simp only [hv] at h
    split at h
    · rename_i he
      cases h
      obtain ⟨v, hb, hD⟩ := (all_sound ws _).1 _ _ _ hv
      obtain ⟨w2, hw2, hb2, _⟩ := skipWs_spec ws rest
      simp only [List.isEmpty_iff] at he
      rw [he, List.append_nil] at hb2
      exact ⟨w1, v, w2, by rw [← hb2, List.append_assoc, ← hb]; exact hb1, hw1, hw2, hD⟩
    · cases h

/-- without whitespace skipping the accepted text is exactly one `value` -/
theorem recognise_compact_sound (bs : Bytes) (t : CST) (h : recognise false bs = some t) : Derives bs t := by
  unfold recognise at h
  simp only [skipWs, Bool.false_eq_true, if_false] at h
  cases hv : value false (2 * bs.length + 2) bs with
  | none => simp [hv] at h
  | some pr =>
    obtain ⟨t', rest⟩ := pr
    simp only [hv] at h
    split at h
    · rename_i he
      cases h
      obtain ⟨v, hb, hD⟩ := (all_sound false _).1 _ _ _ hv
      simp only [List.isEmpty_iff] at he
      rw [he, List.append_nil] at hb
      rwa [hb]
    · cases h

end SJ.Proofs.Recognise
