import SJ.Proofs.MapBTree
/-! The computable reference `Spec.AMap.Ref` (association list, first match wins — what the driver
    evaluates on the implementation's observations) satisfies the dictionary contract `Step`. -/
namespace SJ.Proofs.MapRef
open SJ SJ.Proofs.MapOrder
open SJ.Spec.AMap (lookup AMap Entries HasLen Op Ret Step Ref removeRet shiftIndexOk)
open SJ.Proofs.MapBTree (absm)

variable {V : Type}

theorem sem_eq (r : Ref V) : Ref.sem r = absm r := rfl

/-- filtering by a predicate on keys -/
theorem lookup_filter_key (q : Bytes → Bool) (r : Ref V) (k : Bytes) :
    lookup k (r.filter fun kv => q kv.1) = if q k then lookup k r else none := by
  induction r with
  | nil => simp [lookup]
  | cons kv t ih =>
    obtain ⟨k', v⟩ := kv
    simp only [List.filter_cons]
    by_cases hq : q k' = true
    · simp only [hq, if_true, lookup]
      by_cases e : k' = k
      · subst e; simp [hq]
      · simp only [if_neg e]; exact ih
    · simp only [hq, Bool.false_eq_true, if_false, lookup]
      by_cases e : k' = k
      · subst e; simp only [if_true]; rw [ih]; simp [hq]
      · simp only [if_neg e]; exact ih

theorem keys_filter_sub (q : Bytes × V → Bool) (r : Ref V) : (keys (r.filter q)).Sublist (keys r) :=
  List.Sublist.map _ List.filter_sublist

theorem dedup_lookup (r : Ref V) (k : Bytes) : lookup k (Ref.dedup r) = lookup k r := by
  induction r with
  | nil => rfl
  | cons kv t ih =>
    obtain ⟨k', v⟩ := kv
    simp only [Ref.dedup, lookup]
    by_cases e : k' = k
    · simp [e]
    · simp only [if_neg e]
      have := lookup_filter_key (fun x => x != k') (Ref.dedup t) k
      rw [this, ih]
      simp [Ne.symm e]

theorem dedup_nodup (r : Ref V) : (keys (Ref.dedup r)).Nodup := by
  induction r with
  | nil => exact List.nodup_nil
  | cons kv t ih =>
    obtain ⟨k', v⟩ := kv
    simp only [Ref.dedup, keys, List.map_cons]
    refine List.nodup_cons.mpr ⟨?_, List.Nodup.sublist (keys_filter_sub _ _) ih⟩
    intro hm
    obtain ⟨⟨k₂, v₂⟩, hmem, hk⟩ := List.mem_map.mp hm
    have := (List.mem_filter.mp hmem).2
    simp only at hk
    subst hk
    simp at this

theorem dedup_entries (r : Ref V) : Entries (Ref.sem r) (Ref.dedup r) :=
  ⟨dedup_nodup r, fun k => dedup_lookup r k⟩

theorem hasLen (r : Ref V) : HasLen (Ref.sem r) (Ref.len r) := ⟨Ref.dedup r, dedup_entries r, rfl⟩

theorem insert_sem (r : Ref V) (k : Bytes) (v : V) : Ref.sem (Ref.insert r k v) = Spec.AMap.insert (Ref.sem r) k v := by
  funext k₂
  simp only [Ref.sem, Ref.insert, lookup, Spec.AMap.insert]
  by_cases e : k = k₂
  · simp [e]
  · simp [e, Ne.symm e]

theorem remove_sem (r : Ref V) (k : Bytes) : Ref.sem (Ref.remove r k) = Spec.AMap.remove (Ref.sem r) k := by
  funext k₂
  have := lookup_filter_key (fun x => x != k) r k₂
  simp only [Ref.sem, Ref.remove, Spec.AMap.remove]
  rw [this]
  by_cases e : k₂ = k <;> simp [e]

theorem insertMany_sem (o : List (Bytes × V)) (r : Ref V) :
    Ref.sem (Ref.insertMany r o) = Spec.AMap.insertMany (Ref.sem r) o := by
  induction o generalizing r with
  | nil => rfl
  | cons kv t ih => obtain ⟨k, v⟩ := kv; simp only [Ref.insertMany, Spec.AMap.insertMany]; rw [ih, insert_sem]

theorem retain_sem (p : Bytes → V → Bool) (r : Ref V) :
    Ref.sem (r.filter fun kv => match lookup kv.1 r with
      | some v => p kv.1 v
      | none => false) = Spec.AMap.retain p (Ref.sem r) := by
  funext k
  have := lookup_filter_key (fun x => match lookup x r with
      | some v => p x v
      | none => false) r k
  simp only [Ref.sem, Spec.AMap.retain]
  rw [this]
  cases lookup k r with
  | none => simp
  | some v => by_cases hp : p k v = true <;> simp [hp]

/-- **The driver's reference is a dictionary**: every transition and return value of `Ref.step`
    is allowed by the contract `Step` (for the iteration operations it returns *a* listing). -/
theorem step_sound (o : Op V) (r : Ref V) : Step o (Ref.sem r) (Ref.sem (Ref.step o r).1) (Ref.step o r).2 := by
  cases o with
  | insert k v => exact ⟨insert_sem r k v, rfl⟩
  | shiftInsert i k v =>
    refine ⟨Ref.len r, hasLen r, ?_⟩
    simp only [Ref.step, Ref.sem]
    split
    · exact ⟨insert_sem r k v, rfl⟩
    · exact ⟨rfl, rfl⟩
  | remove fl sh via k => exact ⟨remove_sem r k, rfl⟩
  | get k => exact ⟨rfl, rfl⟩
  | contains k => exact ⟨rfl, rfl⟩
  | len => exact ⟨rfl, Ref.len r, hasLen r, rfl⟩
  | isEmpty => exact ⟨rfl, Ref.len r, hasLen r, rfl⟩
  | clear => exact ⟨rfl, rfl⟩
  | append o => exact ⟨insertMany_sem o r, rfl⟩
  | extend o => exact ⟨insertMany_sem o r, rfl⟩
  | retain p => exact ⟨retain_sem p r, rfl⟩
  | sortKeys => exact ⟨rfl, rfl⟩
  | entryOrInsert k v =>
    simp only [Step, Ref.step, Ref.sem]
    cases h : lookup k r with
    | some x => exact ⟨rfl, rfl⟩
    | none => exact ⟨insert_sem r k v, rfl⟩
  | entryInsert k v => exact ⟨insert_sem r k v, rfl⟩
  | entryModify k v w =>
    simp only [Step, Ref.step, Ref.sem]
    cases h : lookup k r with
    | some x => exact ⟨insert_sem r k v, rfl⟩
    | none => exact ⟨insert_sem r k w, rfl⟩
  | setMut k v =>
    simp only [Step, Ref.step, Ref.sem]
    cases h : lookup k r with
    | some x => exact ⟨insert_sem r k v, rfl⟩
    | none => exact ⟨rfl, rfl⟩
  | index k =>
    simp only [Step, Ref.step, Ref.sem]
    cases h : lookup k r with
    | some x => exact ⟨rfl, rfl⟩
    | none => exact ⟨rfl, rfl⟩
  | indexSet k v =>
    simp only [Step, Ref.step, Ref.sem]
    cases h : lookup k r with
    | some x => exact ⟨insert_sem r k v, rfl⟩
    | none => exact ⟨rfl, rfl⟩
  | iter => exact ⟨rfl, Ref.dedup r, dedup_entries r, rfl⟩
  | iterRev => exact ⟨rfl, Ref.dedup r, dedup_entries r, rfl⟩
  | keys => exact ⟨rfl, Ref.dedup r, dedup_entries r, rfl⟩
  | values => exact ⟨rfl, Ref.dedup r, dedup_entries r, rfl⟩

end SJ.Proofs.MapRef
