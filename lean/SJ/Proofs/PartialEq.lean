import SJ.Model.PartialEq
/-!
# `Value == primitive`: helper lemmas for `c18_partial_eq`
-/
namespace SJ.Proofs.PartialEq
open SJ SJ.Model.PartialEq SJ.Spec.PrimEq SJ.Model.TypedInt

theorem wrapI64_id (x : Int) (h1 : -9223372036854775808 ≤ x) (h2 : x ≤ 9223372036854775807) : wrapI64 x = x := by
  unfold wrapI64; omega

theorem wrapU64_id (x : Int) (h1 : 0 ≤ x) (h2 : x ≤ 18446744073709551615) : wrapU64 x = x := by
  unfold wrapU64; omega

/-- `eq_i64` on a comparand that is an `i64` value -/
theorem eqFn_i64 (x : Int) (h1 : -9223372036854775808 ≤ x) (h2 : x ≤ 9223372036854775807) (v : JV) :
    eqFn .eq_i64 (.int x) v = holdsInt x v := by
  simp only [eqFn, Gen.eqFnParam, Gen.eqFnAccessor, castTo, wrapI64_id x h1 h2]
  cases v with
  | num n =>
    cases n with
    | pos k =>
      simp only [accessor, asI64, holdsInt]
      by_cases hk : k ≤ 9223372036854775807
      · simp [hk, castedEq]
      · have : ¬ (k : Int) = x := by omega
        simp [hk, this]
    | neg k => simp [accessor, asI64, holdsInt, castedEq]
    | float b => rfl
    | lit s => rfl
  | null => rfl
  | bool _ => rfl
  | str _ => rfl
  | arr _ => rfl
  | obj _ => rfl

/-- `eq_u64` on a comparand that is a `u64` value (the `NegInt` payload is negative) -/
theorem eqFn_u64 (x : Int) (h1 : 0 ≤ x) (h2 : x ≤ 18446744073709551615) (v : JV) (hv : wfValue v = true) :
    eqFn .eq_u64 (.int x) v = holdsInt x v := by
  simp only [eqFn, Gen.eqFnParam, Gen.eqFnAccessor, castTo, wrapU64_id x h1 h2]
  cases v with
  | num n =>
    cases n with
    | pos k => simp [accessor, asU64, holdsInt, castedEq]
    | neg k =>
      simp only [wfValue, wfNum, Bool.and_eq_true, decide_eq_true_eq] at hv
      have : ¬ k = x := by omega
      simp [accessor, asU64, holdsInt, this]
    | float b => rfl
    | lit s => rfl
  | null => rfl
  | bool _ => rfl
  | str _ => rfl
  | arr _ => rfl
  | obj _ => rfl

end SJ.Proofs.PartialEq
