import SJ.Model.RawStruct
import SJ.Proofs.RawMap
/-!
# C19 helper lemmas for struct fields: the pieces of one `"name" : value` entry

* `parseStr_sound` / `parseStr_complete`: the field identifier (`deserialize_identifier` → `parse_str`) — `keyStr_sound` /
  `keyStr_complete` of `SJ/Proofs/RawKey.lean` without the visitor;
* `ignoreValue_sound` / `ignoreValue_complete`: the value of an unknown field, skipped by `ignore_value` started in front
  of the whitespace (no UTF-8 check of the skipped text);
* `deOptRaw_sound` / `deOptRaw_complete`: `Option<Box<RawValue>>` — `null`, or a captured value that does not start with `n`.
-/
namespace SJ.Proofs.RawStruct
open SJ SJ.Gen SJ.Model.Machine SJ.Model.Stream SJ.Proofs.Machine SJ.Proofs.Complete SJ.Proofs.StreamValues
open SJ.Spec.Grammar (CST StrItem Ws Derives JsonText StrWF strBytes)
open SJ.Model.Typed
open SJ.Model.RawNested SJ.Model.RawStruct SJ.Proofs.RawSpan SJ.Proofs.RawNested SJ.Proofs.RawKey SJ.Proofs.RawMap

/-! ## the field identifier -/

theorem keyStr_eq (env : SJ.Model.Typed.Env) (r0 : Bytes) (pos : Nat) :
    keyStr env (fun s => .ok (.str s)) (0x22 :: r0) pos = (parseStr env r0 (pos + 1)).map TVal.str := by
  unfold keyStr
  simp only [List.drop_succ_cons, List.drop_zero, Res.map]
  cases parseStr env r0 (pos + 1) <;> rfl

theorem parseStr_sound (env : SJ.Model.Typed.Env) (r0 : Bytes) (pos : Nat) (name rest' : Bytes) (e : Nat)
    (h : parseStr env r0 (pos + 1) = .ok name rest' e) :
    ∃ items, 0x22 :: r0 = strBytes items ++ rest' ∧ e = pos + (strBytes items).length ∧ KeyOK env items name := by
  have hk : keyStr env (fun s => .ok (.str s)) (0x22 :: r0) pos = .ok (.str name) rest' e := by
    rw [keyStr_eq, h]; rfl
  obtain ⟨items, s, hs, h1, h2, h3⟩ := keyStr_sound env r0 pos _ rest' e hk
  cases hs
  exact ⟨items, h1, h2, h3⟩

theorem parseStr_complete (env : SJ.Model.Typed.Env) (hflt : env.flt = false) (items : List StrItem) (s : Bytes)
    (hk : KeyOK env items s) (follow : Bytes) (pos : Nat) :
    parseStr env ((strBytes items ++ follow).drop 1) (pos + 1) = .ok s follow (pos + (strBytes items).length) := by
  have h := keyStr_complete env hflt items s hk follow pos
  obtain ⟨kr, hkr⟩ := strBytes_cons items
  rw [hkr] at h ⊢
  simp only [List.cons_append, List.drop_succ_cons, List.drop_zero] at h ⊢
  rw [keyStr_eq] at h
  cases hp : parseStr env (kr ++ follow) (pos + 1) with
  | ok a r p =>
    rw [hp] at h
    simp only [Res.map, Res.bind, Res.ok.injEq, TVal.str.injEq] at h
    obtain ⟨rfl, rfl, rfl⟩ := h
    simp [List.length_cons]
  | _ => rw [hp] at h; simp [Res.map, Res.bind] at h

/-! ## the machine started in front of whitespace -/

theorem runPfx_init_ws (menv : SJ.Model.Machine.Env) (flt : Bool) : ∀ (w r : Bytes) (pos : Nat), Ws w →
    runPfx menv flt 0 init pos (w ++ r) = runPfx menv flt 0 init (pos + w.length) r
  | [], r, pos, _ => by simp
  | b :: w, r, pos, hw => by
    have hb : isWs b = true := ws_head_cases hw b w rfl
    have hstep : step1 menv init b = .next init := by simp [step1, init, hb]
    have hc : completed 0 init = none := by simp [completed_zero, init]
    simp only [List.cons_append, runPfx, hstep, hc]
    rw [runPfx_init_ws menv flt w r (pos + 1) (ws_tail hw)]
    simp only [List.length_cons]
    congr 1; omega

theorem drop_append_ge' {α : Type} (a b : List α) (n : Nat) (h : a.length ≤ n) :
    (a ++ b).drop n = b.drop (n - a.length) := by
  have : n = a.length + (n - a.length) := by omega
  rw [this, ← List.drop_drop, List.drop_left' rfl]
  congr 1; omega

theorem machine_init_ws (menv : SJ.Model.Machine.Env) (flt : Bool) (w r : Bytes) (pos : Nat) (hw : Ws w) :
    machine menv flt 0 init (w ++ r) pos = machine menv flt 0 init r (pos + w.length) := by
  unfold machine
  rw [runPfx_init_ws menv flt w r pos hw]
  cases h : runPfx menv flt 0 init (pos + w.length) r with
  | ok v e =>
    have hge := SJ.Proofs.Typed.runPfx_ge _ _ _ _ _ _ _ _ h
    simp only [Res.ok.injEq, true_and, and_true]
    rw [drop_append_ge' w r (e - pos) (by omega)]
    congr 1; omega
  | err c i => rfl
  | io => rfl

/-! ## an unknown field's value: `ignore_value` -/

theorem ignoreValue_sound (env : SJ.Model.Typed.Env) (rest : Bytes) (pos : Nat) (rest' : Bytes) (e : Nat)
    (h : ignoreValue env rest pos = .ok () rest' e) :
    ∃ w c, rest = w ++ c ++ rest' ∧ Ws w ∧ e = pos + w.length + c.length ∧ ∃ t, Derives c t := by
  obtain ⟨w, hw1, hw2, hw3⟩ := SJ.Props.C19.skipWs_prefix rest pos
  have hhead : ∀ b r', (skipWs rest pos).1 = b :: r' → isWs b = false := by
    intro b r' hr
    exact skipWs_head rest pos b r' (skipWs rest pos).2 (by rw [← hr])
  generalize (skipWs rest pos).1 = r at hw1 hhead
  generalize (skipWs rest pos).2 = p at hw3
  have hw := ws_of_all hw2
  unfold ignoreValue at h
  rw [hw1, machine_init_ws _ _ w r pos hw] at h
  unfold machine at h
  cases hrun : runPfx (ignEnv env) env.flt 0 init (pos + w.length) r with
  | err c i => rw [hrun] at h; simp [Res.map, Res.bind] at h
  | io => rw [hrun] at h; simp [Res.map, Res.bind] at h
  | ok v e' =>
    rw [hrun] at h
    simp only [Res.map, Res.bind, Res.ok.injEq, true_and] at h
    obtain ⟨rfl, rfl⟩ := h
    have hrp := runPfx_ok_runPrefix _ _ _ _ _ _ _ hrun
    obtain ⟨hlt, hle, t, hd⟩ := runPrefix_span (ignEnv env) rfl (pos + w.length) r v e' hhead hrp
    refine ⟨w, r.take (e' - (pos + w.length)), ?_, hw, ?_, ⟨t, hd⟩⟩
    · rw [List.append_assoc, List.take_append_drop]; exact hw1
    · have : (r.take (e' - (pos + w.length))).length = e' - (pos + w.length) := by rw [List.length_take]; omega
      omega

theorem ignoreValue_complete (env : SJ.Model.Typed.Env) (hflt : env.flt = false) (w c follow : Bytes) (t : CST) (pos : Nat)
    (hw : Ws w) (hd : Derives c t)
    (hfollow : (∃ q, t = .num q) → ∀ d r', follow = d :: r' → numCont d = false) :
    ignoreValue env (w ++ c ++ follow) pos = .ok () follow (pos + w.length + c.length) := by
  obtain ⟨val, _, hrun⟩ := runPrefix_complete (ignEnv env) c t hd (ignored_side _ rfl 0 t) follow (pos + w.length) hfollow
  unfold ignoreValue
  rw [List.append_assoc, machine_init_ws _ _ w (c ++ follow) pos hw]
  unfold machine
  rw [hflt, runPfx_false_eq, hrun]
  simp only [Res.map, Res.bind]
  have h1 : pos + w.length + c.length - (pos + w.length) = c.length := by omega
  rw [h1, List.drop_left' rfl]

/-! ## `Option<Box<RawValue>>` -/

/-- the source text of `null` -/
def nullText : Bytes := 0x6e :: Gen.identNull

theorem derives_null : Derives nullText .null := Derives.null

/-- a value that starts with `n` is `null` -/
theorem derives_n {c : Bytes} {t : CST} (h : Derives c t) (r : Bytes) (hc : c = 0x6e :: r) : c = nullText := by
  cases h with
  | null => rfl
  | str items hwf => simp [strBytes] at hc
  | true_ => cases hc
  | false_ => cases hc
  | arrEmpty w _ => simp at hc
  | arr w₁ body w₂ xs _ _ _ _ => simp at hc
  | objEmpty w _ => simp at hc
  | obj w₁ body w₂ ms _ _ _ _ => simp at hc
  | num p hwf =>
    exfalso
    obtain ⟨b, r', hbr, hb⟩ := num_head p hwf
    rw [hbr] at hc
    simp only [List.cons.injEq] at hc
    rcases hb with hb | hb
    · rw [hb] at hc; exact absurd hc.1 (by decide)
    · rw [hc.1] at hb; revert hb; decide

/-- the value an `Option<Box<RawValue>>` field takes from a member whose value text is `c` -/
def optVal (c : Bytes) : TVal := if c = nullText then .none else .some (.str c)

theorem parseIdent_null_ok (env : SJ.Model.Typed.Env) (r : Bytes) (pos : Nat) (r' : Bytes) (p' : Nat)
    (h : parseIdent env Gen.identNull r pos = .ok () r' p') : r = Gen.identNull ++ r' ∧ p' = pos + 3 := by
  have hid : Gen.identNull = [0x75, 0x6c, 0x6c] := rfl
  rw [hid] at h ⊢
  match r, h with
  | b1 :: b2 :: b3 :: r'', h =>
    simp only [parseIdent] at h
    split at h
    · rename_i h1
      split at h
      · rename_i h2
        split at h
        · rename_i h3
          simp only [Res.ok.injEq, true_and] at h
          simp only [beq_iff_eq] at h1 h2 h3
          subst h1 h2 h3
          exact ⟨by simp [h.1], by omega⟩
        · cases h
      · cases h
    · cases h
  | [], h => simp [parseIdent, atEof] at h; split at h <;> cases h
  | [b1], h =>
    simp only [parseIdent] at h
    split at h
    · simp [atEof] at h; split at h <;> cases h
    · cases h
  | [b1, b2], h =>
    simp only [parseIdent] at h
    split at h
    · split at h
      · simp [atEof] at h; split at h <;> cases h
      · cases h
    · cases h

theorem parseIdent_null (env : SJ.Model.Typed.Env) (follow : Bytes) (pos : Nat) :
    parseIdent env Gen.identNull (Gen.identNull ++ follow) pos = .ok () follow (pos + 3) := by
  have hid : Gen.identNull = [0x75, 0x6c, 0x6c] := rfl
  rw [hid]
  simp [parseIdent]

theorem deOptRaw_sound (env : SJ.Model.Typed.Env) (rest : Bytes) (pos : Nat) (x : TVal) (rest' : Bytes) (e : Nat)
    (h : deOptRaw env rest pos = .ok x rest' e) :
    ∃ w c, x = optVal c ∧ rest = w ++ c ++ rest' ∧ Ws w ∧ e = pos + w.length + c.length ∧
      (∃ t, Derives c t) ∧ (env.src ≠ .str → Spec.Utf8.validUtf8 c = true) := by
  unfold deOptRaw at h
  obtain ⟨w, hw1, hw2, hw3⟩ := SJ.Props.C19.skipWs_prefix rest pos
  generalize hsk : skipWs rest pos = sk at h hw1 hw3
  obtain ⟨r, p⟩ := sk
  simp only at h hw1 hw3
  have hw := ws_of_all hw2
  cases r with
  | nil =>
    simp only at h
    split at h
    · cases h
    · obtain ⟨a, ha, _⟩ := SJ.Proofs.Typed.map_ok h
      obtain ⟨w', c, _, hr, _, _, hcne, _⟩ := deRaw_sound env [] p a rest' e ha
      have : c = [] := by
        have := congrArg List.length hr
        simp only [List.length_nil, List.length_append] at this
        exact List.eq_nil_of_length_eq_zero (by omega)
      exact absurd this hcne
  | cons b r' =>
    have hbw := skipWs_head rest pos b r' p hsk
    simp only at h
    split at h
    · rename_i hb
      simp only [beq_iff_eq] at hb; subst hb
      obtain ⟨u, r1, p1, hi, hk⟩ := SJ.Proofs.Typed.bind_ok h
      simp only [Res.ok.injEq] at hk
      obtain ⟨rfl, rfl, rfl⟩ := hk
      obtain ⟨hr, hp⟩ := parseIdent_null_ok env r' (p + 1) _ _ hi
      refine ⟨w, nullText, by simp [optVal], ?_, hw, ?_, ⟨.null, derives_null⟩, fun _ => by decide⟩
      · rw [hw1, hr]; simp [nullText]
      · simp [nullText, Gen.identNull]; omega
    · rename_i hb
      obtain ⟨a, ha, rfl⟩ := SJ.Proofs.Typed.map_ok h
      obtain ⟨w', c, rfl, hr, hw', hp, hcne, ⟨t, hd⟩, hutf⟩ := deRaw_sound env (b :: r') p a rest' e ha
      have hw'nil : w' = [] := by
        cases w' with
        | nil => rfl
        | cons y ys =>
          exfalso
          simp only [List.cons_append, List.cons.injEq] at hr
          have := ws_head_cases hw' y ys rfl
          rw [← hr.1, hbw] at this; cases this
      subst hw'nil
      simp only [List.nil_append, List.length_nil, Nat.add_zero] at hr hp
      have hcn : c ≠ nullText := by
        intro hc
        rw [hc] at hr
        simp only [nullText, List.cons_append, List.cons.injEq] at hr
        exact hb (by simp [hr.1])
      refine ⟨w, c, by simp [optVal, hcn], ?_, hw, by omega, ⟨t, hd⟩, hutf⟩
      rw [hw1, hr]; simp

theorem deOptRaw_complete (env : SJ.Model.Typed.Env) (hflt : env.flt = false) (w c follow : Bytes) (t : CST) (pos : Nat)
    (hw : Ws w) (hd : Derives c t) (hutf : env.src ≠ .str → Spec.Utf8.validUtf8 c = true)
    (hfollow : (∃ q, t = .num q) → ∀ d r', follow = d :: r' → numCont d = false) :
    deOptRaw env (w ++ c ++ follow) pos = .ok (optVal c) follow (pos + w.length + c.length) := by
  obtain ⟨b, cr, hcb, hbw⟩ := derives_head hd
  have hsk : skipWs (w ++ c ++ follow) pos = (b :: (cr ++ follow), pos + w.length) := by
    rw [List.append_assoc, hcb]
    exact skipWs_ws w (b :: cr ++ follow) pos hw (fun b' r' hr => by
      simp only [List.cons_append, List.cons.injEq] at hr; rw [← hr.1]; exact hbw)
  unfold deOptRaw
  rw [hsk]
  simp only
  by_cases hb : b = 0x6e
  · subst hb
    have hc := derives_n hd cr hcb
    have hcr : cr = Gen.identNull := by
      rw [hcb] at hc; simp only [nullText, List.cons.injEq, true_and] at hc; exact hc
    subst hcr
    simp only [beq_self_eq_true, if_true, parseIdent_null, Res.bind]
    rw [hc] at hcb ⊢
    simp [optVal, nullText, Gen.identNull]
  · have hbne : (b == 0x6e) = false := by simpa using hb
    simp only [hbne, Bool.false_eq_true, if_false]
    have hde := deRaw_complete env hflt [] c follow t (pos + w.length) ws_nil hd hutf hfollow
    simp only [List.nil_append, List.length_nil, Nat.add_zero] at hde
    have : b :: (cr ++ follow) = c ++ follow := by rw [hcb]; simp
    rw [this, hde]
    have hcn : c ≠ nullText := by
      intro hc; rw [hc] at hcb; simp only [nullText, List.cons.injEq] at hcb; exact hb hcb.1.symm
    simp [Res.map, Res.bind, optVal, hcn]

end SJ.Proofs.RawStruct
