import SJ.Proofs.TypedFloatLink
/-!
# Default build, typed targets: an `f32` is the `f64` result cast once (float-path literals)

`deserialize_f32` and `deserialize_f64` share `deserialize_number`: the same scan, the same `f64_from_parts`
(`Model.Num.convertDefault`), and only the visitor differs — `visit_f64(v)` for an `f32` target is `v as f32`. So on a
literal that does not end as `ParserNumber::U64/I64` the `f32` result is `F64.toF32` of the `f64` result, and the two
entry points fail alike. (For integer literals within `u64` / `i64` the visitor casts the integer directly: finding
C08-F2.)
-/
set_option linter.unusedSectionVars false
set_option linter.unusedVariables false

namespace SJ.Proofs.TypedF32Default
open SJ SJ.Gen SJ.Model SJ.Model.Typed SJ.Model.Num SJ.Spec.Ieee SJ.Proofs.NumInt
open SJ.Model.FromValue (f64ToF32 numberF32 numberF64)
open SJ.Proofs.NumLink (PartsWF numOfNRes)
open SJ.Proofs.TypedFloat

/-- off the integer classes the default conversion returns a float or `NumberOutOfRange` -/
theorem convertDefault_floatOrRange (p : Parts) (hw : PartsWF p) (hic : intClass p = none) :
    (∃ x, convertDefault p = .f64 x) ∨ convertDefault p = .outOfRange := by
  have hd : IsDigits p.int := SJ.Proofs.NumLinkParser.isDigits_of_all _ hw.intDigits
  have key : NotInt (convertDefault p) := by
    by_cases h : (p.frac.isSome || p.exp.isSome) = true
    · exact SJ.Proofs.ViaValue.convertDefault_notInt p h
    · have hf : p.frac = none := by cases hx : p.frac <;> simp [hx] at h ⊢
      have he : p.exp = none := by cases hx : p.exp <;> simp [hx] at h ⊢
      exact (convertDefault_of_intClass_none p hf he hd hic).notInt
  cases hc : convertDefault p with
  | u64 n => exact absurd hc (key.1 n)
  | i64 k => exact absurd hc (key.2 k)
  | f64 x => exact Or.inl ⟨x, rfl⟩
  | outOfRange => exact Or.inr rfl
  | outOfFuel => exact absurd hc (SJ.Proofs.NumLink.convertDefault_ne_outOfFuel p hw)

/-- **default build, float-path literal: `f32` = `f64` cast once; the same failures** -/
theorem deNumber_f32_default (env : Env) (hfr : env.cfg.fr = false) (b : UInt8) (r : Bytes) (p0 : Nat) (parts : Parts)
    (rest' : Bytes) (pos' : Nat) (hb : isNumStart b = true) (hlen : (b :: r).length + 20 < 2 ^ 29)
    (hsc : scanNumber env (b :: r) p0 = .ok parts rest' pos') (hic : intClass parts = none) :
    (∃ x, convertDefault parts = .f64 x ∧ deNumber env .f64 (b :: r) p0 = .ok (.f64 x) rest' pos' ∧
      deNumber env .f32 (b :: r) p0 = .ok (.f32 (F64.toF32 x)) rest' pos') ∨
    (convertDefault parts = .outOfRange ∧
      deNumber env .f64 (b :: r) p0 = .err .NumberOutOfRange (peekErrorIdx rest' pos') ∧
      deNumber env .f32 (b :: r) p0 = .err .NumberOutOfRange (peekErrorIdx rest' pos')) := by
  have hpw := scanNumber_partsWF env _ _ _ _ _ hsc
  rw [deNumber_of_scan env .f64 b r p0 parts rest' pos' hb hlen hsc,
    deNumber_of_scan env .f32 b r p0 parts rest' pos' hb hlen hsc]
  unfold typedNumber
  simp only [hfr, Bool.false_eq_true, if_false]
  rcases convertDefault_floatOrRange parts hpw hic with ⟨x, hx⟩ | ho
  · left
    refine ⟨x, hx, ?_, ?_⟩
    · rw [hx]
      simp only [numOfNRes, visitNumber, numberF64, Bool.false_eq_true, if_false, ofVisit, fixPos]
    · rw [hx]
      simp only [numOfNRes, visitNumber, numberF32, Bool.false_eq_true, if_false, ofVisit, fixPos, f64ToF32]
  · right
    refine ⟨ho, ?_, ?_⟩ <;> rw [ho] <;> simp only [numOfNRes]

end SJ.Proofs.TypedF32Default
