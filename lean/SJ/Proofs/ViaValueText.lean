import SJ.Proofs.ViaValueConv
import SJ.Proofs.TypedAgree
import SJ.Proofs.NumberAp
/-!
# The typed text path on a number literal: `deserialize_i8 … u64` (`deNumber`), `do_deserialize_i128/u128`
# (`deInt128`), at top level (`deTypedTop`) and as a quoted map key (`MapKey`, `Typed.keyInt`)

Everything is about `Model.Typed` (the transcription of `impl Deserializer for &mut Deserializer<R>`) run on the
bytes of an RFC 8259 number literal `p.bytes` followed by a terminator. Results:

* `deNumber_int_lit` / `deNumber_float_lit`: an 8–64-bit integer target returns `visitClass w (intClass …)` on an
  integer literal and fails on a literal with a fraction or an exponent;
* `deInt128_lit`: the 128-bit scanners take sign and integer digits only and answer `accInt` of those;
* `textInt_lit`, `textKey_lit`: the whole-document and the quoted-key forms are `Spec.NumberAcc.targetInt`.
-/
namespace SJ.Proofs.ViaValue
open SJ SJ.Gen SJ.Model SJ.Model.Typed SJ.Model.Num SJ.Proofs.NumInt SJ.Spec.NumberAcc
open SJ.Model.Stream (skipWs)
open SJ.Proofs.Typed (skipWs_cons withPeek_cons digitsOf_term isDigit_not_ws digit_facts isDigit_iff)
open SJ.Spec.Grammar (NumParts isInt isFrac isExp)
open SJ.Proofs.NumLinkParser (litOf litOf_neg litOf_int)

/-- what may follow the literal: nothing, or a byte that cannot continue a number -/
def Term (rest : Bytes) : Prop :=
  rest = [] ∨ ∃ c tl, rest = c :: tl ∧ Machine.isDigit c = false ∧ (c == 0x2e) = false ∧ (c == 0x65 || c == 0x45) = false

def NotOk {α : Type} (r : Res α) : Prop := ∀ v r' p', r ≠ .ok v r' p'

theorem term_nil : Term [] := .inl rfl
theorem term_quote (tl : Bytes) : Term (0x22 :: tl) := .inr ⟨_, _, rfl, by decide, by decide, by decide⟩

theorem term_digit {rest : Bytes} (h : Term rest) : rest = [] ∨ ∃ c tl, rest = c :: tl ∧ Machine.isDigit c = false := by
  rcases h with rfl | ⟨c, tl, rfl, h1, _, _⟩
  · exact .inl rfl
  · exact .inr ⟨c, tl, rfl, h1⟩

theorem isDigits_of_all (ds : Bytes) (h : ds.all Spec.Grammar.isDigit = true) : IsDigits ds := by
  intro c hc
  have := List.all_eq_true.1 h c hc
  simpa [Spec.Grammar.isDigit] using this

theorem isDigits_int (int : Bytes) (h : isInt int = true) : IsDigits int :=
  isDigits_of_all int (SJ.Proofs.Number.isInt_all int h).1

section
variable {env : Env} (hflt : env.flt = false)
include hflt

theorem scanAfterInt_int (neg : Bool) (int rest : Bytes) (pos : Nat) (hs : Term rest) :
    scanAfterInt env neg int rest pos = .ok (mkParts neg int none none) rest pos := by
  rcases hs with rfl | ⟨c, tl, rfl, _, h1, h2⟩
  · simp [scanAfterInt, hflt]
  · simp [scanAfterInt, h1, h2]

/-- `parse_integer` on an integer literal followed by a terminator -/
theorem scanInteger_int (neg : Bool) (int rest : Bytes) (pos : Nat) (hi : isInt int = true) (hs : Term rest) :
    scanInteger env neg (int ++ rest) pos = .ok (mkParts neg int none none) rest (pos + int.length) := by
  rcases SJ.Proofs.Complete.int_shape int hi with rfl | ⟨d, ds, rfl, hd, hz, hds⟩
  · simp only [List.cons_append, List.nil_append, scanInteger, beq_self_eq_true, if_true]
    rcases term_digit hs with rfl | ⟨c, tl, rfl, hc⟩
    · simp only [scanAfterInt_int hflt neg _ [] (pos + 1) hs, List.length_singleton]
    · simp only [hc, Bool.false_eq_true, if_false, scanAfterInt_int hflt neg _ _ (pos + 1) hs, List.length_singleton]
  · have hd' : Machine.isDigit d = true := hd
    simp only [List.cons_append, scanInteger, hz, Bool.false_eq_true, if_false, hd', if_true]
    rw [digitsOf_term ds rest (isDigits_of_all ds hds) (term_digit hs)]
    simp only [scanAfterInt_int hflt neg (d :: ds) rest _ hs, List.length_cons]
    congr 1; omega

end

/-! ### a literal with a fraction or an exponent: whatever is scanned has one -/

def Floaty (p : Parts) : Prop := (p.frac.isSome || p.exp.isSome) = true

theorem scanExpDigits_floaty (env : Env) (neg : Bool) (int : Bytes) (frac : Option Bytes) (en : Bool) (rest : Bytes) (pos : Nat)
    (parts : Parts) (r : Bytes) (q : Nat) (h : scanExpDigits env neg int frac en rest pos = .ok parts r q) : Floaty parts := by
  unfold scanExpDigits at h
  split at h
  · unfold atEof at h; split at h <;> cases h
  · split at h
    · cases h
    · simp only at h
      split at h
      · split at h
        · cases h
        · split at h
          · cases h
          · cases h; simp [Floaty, mkParts]
      · split at h
        · cases h
        · cases h; simp [Floaty, mkParts]

theorem scanExp_floaty (env : Env) (neg : Bool) (int : Bytes) (frac : Option Bytes) (rest : Bytes) (pos : Nat)
    (parts : Parts) (r : Bytes) (q : Nat) (h : scanExp env neg int frac rest pos = .ok parts r q) : Floaty parts := by
  unfold scanExp at h
  split at h
  · unfold atEof at h; split at h <;> cases h
  · split at h
    · exact scanExpDigits_floaty _ _ _ _ _ _ _ _ _ _ h
    · split at h
      · exact scanExpDigits_floaty _ _ _ _ _ _ _ _ _ _ h
      · exact scanExpDigits_floaty _ _ _ _ _ _ _ _ _ _ h

theorem scanAfterInt_floaty (env : Env) (neg : Bool) (int : Bytes) (c : UInt8) (tl : Bytes) (pos : Nat)
    (hc : (c == 0x2e) = true ∨ (c == 0x65 || c == 0x45) = true)
    (parts : Parts) (r : Bytes) (q : Nat) (h : scanAfterInt env neg int (c :: tl) pos = .ok parts r q) : Floaty parts := by
  unfold scanAfterInt at h
  simp only at h
  split at h
  · split at h
    · split at h
      · unfold atEof at h; split at h <;> cases h
      · split at h
        · cases h
        · cases h; simp [Floaty, mkParts]
    · split at h
      · cases h
      · split at h
        · exact scanExp_floaty _ _ _ _ _ _ _ _ _ h
        · cases h; simp [Floaty, mkParts]
  · split at h
    · exact scanExp_floaty _ _ _ _ _ _ _ _ _ h
    · rename_i h1 h2
      rcases hc with hc | hc
      · exact absurd hc h1
      · exact absurd hc h2

theorem scanInteger_floaty (env : Env) (neg : Bool) (int : Bytes) (c : UInt8) (tl : Bytes) (pos : Nat)
    (hi : isInt int = true) (hc : (c == 0x2e) = true ∨ (c == 0x65 || c == 0x45) = true)
    (parts : Parts) (r : Bytes) (q : Nat) (h : scanInteger env neg (int ++ c :: tl) pos = .ok parts r q) : Floaty parts := by
  have hcd : Machine.isDigit c = false := by
    rcases hc with hc | hc
    · have : c = 0x2e := by simpa using hc
      subst this; decide
    · simp only [Bool.or_eq_true, beq_iff_eq] at hc
      rcases hc with rfl | rfl <;> decide
  rcases SJ.Proofs.Complete.int_shape int hi with rfl | ⟨d, ds, rfl, hd, hz, hds⟩
  · simp only [List.cons_append, List.nil_append, scanInteger, beq_self_eq_true, if_true, hcd, Bool.false_eq_true,
      if_false] at h
    exact scanAfterInt_floaty _ _ _ _ _ _ hc _ _ _ h
  · have hd' : Machine.isDigit d = true := hd
    simp only [List.cons_append, scanInteger, hz, Bool.false_eq_true, if_false, hd', if_true] at h
    rw [digitsOf_term ds (c :: tl) (isDigits_of_all ds hds) (.inr ⟨c, tl, rfl, hcd⟩)] at h
    exact scanAfterInt_floaty _ _ _ _ _ _ hc _ _ _ h

/-! ### `deserialize_number` with an integer visitor -/

theorem isNumStart_not_ws {b : UInt8} (h : isNumStart b = true) : Machine.isWs b = false := by
  unfold isNumStart at h
  simp only [Bool.or_eq_true, beq_iff_eq] at h
  rcases h with rfl | h
  · decide
  · exact isDigit_not_ws h

/-- `deNumber` for an integer target, given what `parse_integer` scanned -/
theorem deNumber_int_of_scan (env : Env) (w : IntTy) (b : UInt8) (tl : Bytes) (pos : Nat) (hb : isNumStart b = true)
    (parts : Parts) (r : Bytes) (q : Nat) (hs : scanNumber env (b :: tl) pos = .ok parts r q) (hd : IsDigits parts.int) :
    (∀ x, visitClass w (intClass parts) = some x → deNumber env (.int w) (b :: tl) pos = .ok (.int x) r q) ∧
    (visitClass w (intClass parts) = none → NotOk (deNumber env (.int w) (b :: tl) pos)) := by
  have hde : deNumber env (.int w) (b :: tl) pos =
      (match parserNumber env parts with
       | some n => fixPos env true (ofVisit (visitNumber (.int w) n) r q)
       | none => .err .NumberOutOfRange (peekErrorIdx r q)) := by
    unfold deNumber
    rw [withPeek_cons env _ (isNumStart_not_ws hb)]
    simp only [hb, if_true, hs, Res.bind]
    have : (NumTy.int w == NumTy.f32) = false := by
      rw [beq_eq_false_iff_ne]; intro h; cases h
    simp only [this, Bool.and_false, Bool.false_eq_true, if_false]
    cases parserNumber env parts <;> rfl
  rw [hde]
  cases hpn : parserNumber env parts with
  | none =>
    constructor
    · intro x hx
      exfalso
      -- an integer classification always converts
      have hc := conv_class env.cfg.fr parts hd
      rcases intClass_cases parts with hi | ⟨k, hi⟩ | ⟨k, hi⟩
      · rw [hi] at hx; cases hx
      · have := hc.1 _ hi
        unfold parserNumber at hpn
        change (match convOf env.cfg.fr parts with
          | .u64 k => some (Num.pos k) | .i64 k => some (Num.neg k) | .f64 b => some (Num.float b)
          | .outOfRange => none | .outOfFuel => none) = none at hpn
        rw [this] at hpn; cases hpn
      · have := hc.1 _ hi
        unfold parserNumber at hpn
        change (match convOf env.cfg.fr parts with
          | .u64 k => some (Num.pos k) | .i64 k => some (Num.neg k) | .f64 b => some (Num.float b)
          | .outOfRange => none | .outOfFuel => none) = none at hpn
        rw [this] at hpn; cases hpn
    · intro _ v r' p' h; cases h
  | some n =>
    have hv := numberInt_parserNumber env w parts hd n hpn
    simp only [visitNumber]
    rw [hv]
    constructor
    · intro x hx
      rw [hx]; rfl
    · intro hx
      rw [hx]
      intro v r' p' h
      simp only [FromValue.fail, ofVisit, fixPos] at h
      cases h

/-- sign and integer digits of a literal, as bytes -/
def signInt (p : NumParts) : Bytes := (if p.minus then [0x2d] else []) ++ p.int

theorem bytes_split (p : NumParts) : p.bytes = signInt p ++ (p.frac ++ p.exp) := by
  simp [NumParts.bytes, signInt, List.append_assoc]

section
variable {env : Env} (hflt : env.flt = false)
include hflt

theorem scanNumber_signInt (p : NumParts) (hi : isInt p.int = true) (rest : Bytes) (pos : Nat) (hs : Term rest) :
    ∃ b tl, signInt p ++ rest = b :: tl ∧ isNumStart b = true ∧
      scanNumber env (b :: tl) pos = .ok (mkParts p.minus p.int none none) rest (pos + (signInt p).length) := by
  obtain ⟨d, ds, hint, hd⟩ := SJ.Proofs.NumberAp.int_head p.int hi
  have hd' : Machine.isDigit d = true := hd
  cases hm : p.minus with
  | true =>
    refine ⟨0x2d, p.int ++ rest, by simp [signInt, hm], by decide, ?_⟩
    simp only [scanNumber, beq_self_eq_true, if_true]
    rw [scanInteger_int hflt true p.int rest (pos + 1) hi hs]
    simp only [signInt, hm, if_true, List.length_append, List.length_singleton]
    congr 1; omega
  | false =>
    refine ⟨d, ds ++ rest, by simp [signInt, hm, hint], by simp [isNumStart, hd'], ?_⟩
    have hne : (d == 0x2d) = false := (digit_facts hd').1
    simp only [scanNumber, hne, Bool.false_eq_true, if_false]
    have := scanInteger_int hflt false p.int rest pos hi hs
    rw [hint] at this
    simp only [List.cons_append] at this
    rw [this]
    simp [signInt, hm, hint]

/-- **8–64-bit integer target on an integer literal** -/
theorem deNumber_int_lit (w : IntTy) (p : NumParts) (hwf : p.WF = true) (hint : isIntLit (litOf p) = true)
    (rest : Bytes) (pos : Nat) (hs : Term rest) :
    (∀ x, visitClass w (intClass (intParts p.minus p.int)) = some x →
        deNumber env (.int w) (p.bytes ++ rest) pos = .ok (.int x) rest (pos + p.bytes.length)) ∧
    (visitClass w (intClass (intParts p.minus p.int)) = none → NotOk (deNumber env (.int w) (p.bytes ++ rest) pos)) := by
  have hwf' := hwf
  simp only [NumParts.WF, Bool.and_eq_true] at hwf'
  obtain ⟨⟨hi, _⟩, _⟩ := hwf'
  rw [SJ.Proofs.NumberAp.isIntLit_litOf p hwf] at hint
  simp only [Bool.and_eq_true, List.isEmpty_iff] at hint
  have hb : p.bytes = signInt p := by rw [bytes_split, hint.1, hint.2]; simp
  obtain ⟨b, tl, hbt, hns, hscan⟩ := scanNumber_signInt hflt p hi rest pos hs
  rw [hb, hbt]
  have hd : IsDigits (mkParts p.minus p.int none none).int := isDigits_int p.int hi
  exact deNumber_int_of_scan env w b tl pos hns _ _ _ hscan hd

end

/-- **8–64-bit integer target on a literal with a fraction or an exponent**: never a value -/
theorem deNumber_float_lit (env : Env) (w : IntTy) (p : NumParts) (hwf : p.WF = true) (hint : isIntLit (litOf p) = false)
    (rest : Bytes) (pos : Nat) : NotOk (deNumber env (.int w) (p.bytes ++ rest) pos) := by
  have hwf' := hwf
  simp only [NumParts.WF, Bool.and_eq_true] at hwf'
  obtain ⟨⟨hi, hf⟩, he⟩ := hwf'
  rw [SJ.Proofs.NumberAp.isIntLit_litOf p hwf] at hint
  -- the byte after the integer digits is `.`, `e` or `E`
  have hnext : ∃ c tl, p.frac ++ p.exp ++ rest = c :: tl ∧ ((c == 0x2e) = true ∨ (c == 0x65 || c == 0x45) = true) := by
    cases hfr : p.frac with
    | cons c ds =>
      rw [hfr] at hf
      simp only [isFrac, Bool.and_eq_true, beq_iff_eq] at hf
      exact ⟨c, ds ++ p.exp ++ rest, by simp, .inl (by simp [hf.1.1])⟩
    | nil =>
      cases hex : p.exp with
      | nil => simp [hfr, hex] at hint
      | cons c r =>
        rw [hex] at he
        simp only [isExp, Bool.and_eq_true] at he
        exact ⟨c, r ++ rest, by simp, .inr he.1⟩
  obtain ⟨c, tl, hct, hc⟩ := hnext
  obtain ⟨d, ds, hdint, hd⟩ := SJ.Proofs.NumberAp.int_head p.int hi
  have hd' : Machine.isDigit d = true := hd
  -- the scan, if it succeeds, yields parts with a fraction or exponent
  have key : ∃ b tl', p.bytes ++ rest = b :: tl' ∧ isNumStart b = true ∧
      ∀ parts r q, scanNumber env (b :: tl') pos = .ok parts r q → Floaty parts ∧ IsDigits parts.int := by
    have hbytes : p.bytes ++ rest = (if p.minus then [0x2d] else []) ++ (p.int ++ c :: tl) := by
      rw [← hct]; simp [NumParts.bytes, List.append_assoc]
    cases hm : p.minus with
    | true =>
      refine ⟨0x2d, p.int ++ c :: tl, by rw [hbytes, hm]; rfl, by decide, ?_⟩
      intro parts r q h
      simp only [scanNumber, beq_self_eq_true, if_true] at h
      exact ⟨scanInteger_floaty _ _ _ _ _ _ hi hc _ _ _ h, (SJ.Proofs.Typed.scanInteger_ok _ _ _ _ _ _ h).1⟩
    | false =>
      refine ⟨d, ds ++ c :: tl, by rw [hbytes, hm, hdint]; rfl, by simp [isNumStart, hd'], ?_⟩
      intro parts r q h
      have hne : (d == 0x2d) = false := (digit_facts hd').1
      simp only [scanNumber, hne, Bool.false_eq_true, if_false] at h
      have h' : scanInteger env false (p.int ++ c :: tl) pos = .ok parts r q := by rw [hdint]; exact h
      exact ⟨scanInteger_floaty _ _ _ _ _ _ hi hc _ _ _ h', (SJ.Proofs.Typed.scanInteger_ok _ _ _ _ _ _ h').1⟩
  obtain ⟨b, tl', hbt, hns, hall⟩ := key
  rw [hbt]
  intro v r' p' hok
  -- unfold deNumber far enough to see the scan
  cases hsc : scanNumber env (b :: tl') pos with
  | ok parts r q =>
    obtain ⟨hfl, hdg⟩ := hall parts r q hsc
    have := (deNumber_int_of_scan env w b tl' pos hns parts r q hsc hdg).2
      (by rw [intClass_float parts hfl]; rfl)
    exact this v r' p' hok
  | err c i => simp [deNumber, withPeek_cons env _ (isNumStart_not_ws hns), hns, hsc, Res.bind] at hok
  | data i => simp [deNumber, withPeek_cons env _ (isNumStart_not_ws hns), hns, hsc, Res.bind] at hok
  | raw a b' => simp [deNumber, withPeek_cons env _ (isNumStart_not_ws hns), hns, hsc, Res.bind] at hok
  | io => simp [deNumber, withPeek_cons env _ (isNumStart_not_ws hns), hns, hsc, Res.bind] at hok
  | fuel => simp [deNumber, withPeek_cons env _ (isNumStart_not_ws hns), hns, hsc, Res.bind] at hok

end SJ.Proofs.ViaValue
