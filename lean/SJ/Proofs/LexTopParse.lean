import SJ.Proofs.LexTopBh
import SJ.Proofs.LexModerateOk
/-!
# C07 top level, part 2: `parse_concise_float` and `parse_truncated_float` are correctly rounded

No hypothesis beyond the shape of the arguments: the moderate-path layer is `LexModerateOk.moderate_ok`, the slow path
`LexTopBh.bhcomp_ok`.
-/
namespace SJ.Proofs.LexTopParse
open SJ SJ.Gen SJ.Model.Lexical SJ.Model.Num SJ.Spec.Ieee
open SJ.Proofs.Ieee SJ.Proofs.LexRound SJ.Proofs.LexBh SJ.Proofs.LexFast SJ.Proofs.LexSplit SJ.Proofs.NumInt
open SJ.Proofs.LexCorrect SJ.Proofs.LexModerateOk SJ.Proofs.LexTopBh

/-- **`parse_concise_float(m, e)` is the correctly rounded `m · 10^e`**, both formats -/
theorem parseConcise_ok (single : Bool) (m : Nat) (e : Int) (hm : m < 2 ^ 64) :
    parseConciseFloat single m e = roundDec (fmtOf single) m e := by
  by_cases h0 : m = 0
  · subst h0
    have hf : fastPath single 0 e = some 0 := by simp [fastPath]
    exact fastPath_exact single 0 e _ (by unfold parseConciseFloat; rw [hf])
  · have hmod := moderate_ok single m 0 0 e e false (by omega) hm (by simp) (by simp) (fun _ => rfl) (Or.inr (Or.inr rfl))
    simp only [Nat.pow_zero, Nat.mul_one, Nat.add_zero, Nat.cast_zero, sub_zero] at hmod
    exact parseConcise_eq single m e hm hmod

/-- the digit loop of `parse_truncated_float`: the mantissa is the value of the digits read before the first `u64`
    overflow, `j` digits (value `r`) are left; a non-empty rest means the mantissa is within a digit of `2^64 / 10` -/
theorem truncatedMantissa_spec (ds : Bytes) (hd : IsDigits ds) (m0 : Nat) (hm0 : m0 < 2 ^ 64) :
    ∃ r, val m0 ds = (truncatedMantissa ds m0).1 * 10 ^ (truncatedMantissa ds m0).2 + r ∧
      r < 10 ^ (truncatedMantissa ds m0).2 ∧ (truncatedMantissa ds m0).1 < 2 ^ 64 ∧
      ((truncatedMantissa ds m0).2 ≠ 0 → 2 ^ 64 ≤ 11 * (truncatedMantissa ds m0).1) ∧
      (truncatedMantissa ds m0).2 ≤ ds.length ∧ m0 ≤ (truncatedMantissa ds m0).1 := by
  induction ds generalizing m0 with
  | nil => exact ⟨0, by simp [truncatedMantissa, val], by simp [truncatedMantissa], by simpa [truncatedMantissa] using hm0,
      by simp [truncatedMantissa], by simp [truncatedMantissa], by simp [truncatedMantissa]⟩
  | cons d ds ih =>
    have hdd := dig_lt_10 d (hd d (List.mem_cons_self ..))
    have hds : IsDigits ds := fun x hx => hd x (List.mem_cons_of_mem _ hx)
    unfold truncatedMantissa
    by_cases hov : m0 * 10 ≥ 2 ^ 64 ∨ m0 * 10 + dig d ≥ 2 ^ 64
    · have hadd : addDigit m0 (dig d) = none := by
        unfold addDigit
        rcases hov with h | h
        · rw [if_pos h]
        · by_cases h' : m0 * 10 ≥ 2 ^ 64
          · rw [if_pos h']
          · rw [if_neg h', if_pos h]
      rw [hadd]
      simp only []
      have hrest := val_lt (dig d) ds hds
      have hval : val m0 (d :: ds) = m0 * 10 ^ (1 + ds.length) + val (dig d) ds := by
        rw [val_cons, val_eq, val_eq (dig d)]
        rw [Nat.pow_add]; ring
      refine ⟨val (dig d) ds, hval, ?_, hm0, fun _ => by omega, by simp only [List.length_cons]; omega, Nat.le_refl _⟩
      calc val (dig d) ds < (dig d + 1) * 10 ^ ds.length := hrest
        _ ≤ 10 * 10 ^ ds.length := Nat.mul_le_mul_right _ (by omega)
        _ = 10 ^ (1 + ds.length) := by rw [Nat.pow_add]
    · have hadd : addDigit m0 (dig d) = some (m0 * 10 + dig d) := by
        unfold addDigit
        rw [if_neg (by omega), if_neg (by omega)]
      rw [hadd]
      simp only []
      obtain ⟨r, h1, h2, h3, h4, h5, h6⟩ := ih hds (m0 * 10 + dig d) (by omega)
      refine ⟨r, by rw [val_cons]; exact h1, h2, h3, h4, by simp only [List.length_cons]; omega, by omega⟩

/-- **`parse_truncated_float(integer, fraction, e)` is the correctly rounded value of the digits**, both formats -/
theorem parseTruncated_ok (single : Bool) (integer fraction : Bytes) (e : Int)
    (hdi : IsDigits integer) (hdf : IsDigits fraction) (hhead : ∀ d r, integer = d :: r → d ≠ 0x30)
    (hpos : 0 < natOfDigits (integer ++ fraction)) (hlen : integer.length + fraction.length < 2 ^ 29)
    (he1 : -(2 ^ 31 : Int) < e) (he2 : e < 2 ^ 31) :
    parseTruncatedFloat single integer fraction e =
      roundDec (fmtOf single) (natOfDigits (integer ++ fraction)) (e - fraction.length) := by
  have h := fcokOf single
  obtain ⟨z, hzs⟩ := trim_spec fraction
  generalize htr : trimTrailingZeros fraction = fr at *
  have hdfr : IsDigits fr := isDigits_of_append_left (hzs ▸ hdf)
  have hfl : fraction.length = fr.length + z := by
    have := congrArg List.length hzs
    simpa using this
  have hN : natOfDigits (integer ++ fraction) = natOfDigits (integer ++ fr) * 10 ^ z := by
    conv_lhs => rw [hzs, ← List.append_assoc, natOfDigits_append, natOfDigits_replicate_zero]
    simp
  have hspec : roundDec (fmtOf single) (natOfDigits (integer ++ fraction)) (e - fraction.length) =
      roundDec (fmtOf single) (natOfDigits (integer ++ fr)) (e - fr.length) := by
    rw [hN, hfl]
    have : e - ((fr.length + z : Nat) : Int) = (e - fr.length) - z := by push_cast; omega
    rw [this, roundDec_shift]
  have hpos' : 0 < natOfDigits (integer ++ fr) := by
    rw [hN] at hpos
    by_contra hc
    have : natOfDigits (integer ++ fr) = 0 := by omega
    rw [this] at hpos; simp at hpos
  rw [hspec]
  unfold parseTruncatedFloat
  rw [htr]
  simp only []
  unfold fallbackPath
  simp only []
  -- the moderate-path layer for this call
  obtain ⟨r, hv, hr, hw, hbig, htle, _⟩ := truncatedMantissa_spec (integer ++ fr) (isDigits_append hdi hdfr) 0 (by norm_num)
  rw [← natOfDigits_eq_val] at hv
  generalize hm : (truncatedMantissa (integer ++ fr) 0).1 = m at *
  generalize ht : (truncatedMantissa (integer ++ fr) 0).2 = t at *
  have hm0 : 0 < m := by
    by_contra hc
    have hmz : m = 0 := by omega
    by_cases ht0 : t = 0
    · subst hmz; subst ht0
      simp at hv hr
      omega
    · have := hbig ht0
      omega
  have hlen' : (integer ++ fr).length < 2 ^ 29 := by simp only [List.length_append]; omega
  have hmod : ModerateOk (fc single) (fmtOf single) m (mantissaExponent e fr.length t) true
      (natOfDigits (integer ++ fr)) (e - fr.length) := by
    have := moderate_ok single m t r (mantissaExponent e fr.length t) (e - fr.length + t) true hm0 hw hr
      (fun hr0 => hbig (by intro ht0; rw [ht0] at hr; simp at hr; exact hr0 hr)) (fun hh => by cases hh)
      (by
        simp only [List.length_append] at hlen' htle
        unfold mantissaExponent
        by_cases hc : fr.length > t
        · rw [if_pos hc, intoI32_id _ (by omega)]
          unfold satI32
          split_ifs <;> omega
        · rw [if_neg hc, intoI32_id _ (by omega)]
          unfold satI32
          split_ifs <;> omega)
    rw [← hv] at this
    have he : e - (fr.length : Int) + (t : Int) - (t : Int) = e - fr.length := by omega
    rw [he] at this
    exact this
  cases hv' : (moderatePath (fc single) m (mantissaExponent e fr.length t) true).2 with
  | true =>
    simp only [if_true]
    exact hmod.sound hv'
  | false =>
    simp only [Bool.false_eq_true, if_false]
    cases hsp : isSpecial (fc single) (intoDownwardFloat (fc single) (moderatePath (fc single) m (mantissaExponent e fr.length t) true).1) with
    | true =>
      simp only [if_true]
      exact hmod.special hv' hsp
    | false =>
      simp only [Bool.false_eq_true, if_false]
      obtain ⟨hb, hnear⟩ := hmod.near hv' hsp
      obtain ⟨hr1, hr2⟩ := moderate_invalid_range _ _ _ _ hv'
      have hebound : -(2 ^ 30 : Int) < e ∧ e < 2 ^ 30 := by
        simp only [List.length_append] at hlen' htle
        exact mantissaExponent_range e fr.length t (by omega) (by omega) hr1 hr2
      exact bhcomp_ok h integer fr hdi hdfr hhead hpos' e hebound.1 hebound.2
        (by simp only [List.length_append] at hlen'; omega) _ hb hnear

end SJ.Proofs.LexTopParse
