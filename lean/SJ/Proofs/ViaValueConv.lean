import SJ.Proofs.ViaValueSpec
import SJ.Model.Typed
/-!
# The number a visitor sees, for every literal: integer classification or "not an integer"

`conv_class`: in both float configurations the conversion of the scanned parts (`convertDefault` /
`convertRoundtrip`) is `intClass` when that says integer, and otherwise not an integer (a float or
`NumberOutOfRange`). `numberInt_parserNumber` / `numberInt_numOf`: serde's integer visitor on the resulting
`ParserNumber` resp. on the `Number` a default-build `Value` holds is `visitClass w (intClass parts)`.
-/
namespace SJ.Proofs.ViaValue
open SJ SJ.Spec.Decimal SJ.Spec.NumberAcc SJ.Model.Num SJ.Proofs.NumInt

def convOf (fr : Bool) (p : Parts) : NRes := if fr then convertRoundtrip p else convertDefault p

theorem ofF_notInt (f : FRes) : NotInt (ofF f) := by
  cases f <;> (unfold NotInt; constructor <;> intro _ h <;> cases h)

theorem exponentOverflow_notInt (a b c : Bool) : NotInt (exponentOverflow a b c) := by
  unfold exponentOverflow; split <;> (unfold NotInt; constructor <;> intro _ h <;> cases h)

theorem parseExponent_notInt (pos : Bool) (sig : Nat) (e : Int) (en : Bool) (ds : Bytes) :
    NotInt (parseExponent pos sig e en ds) := by
  unfold parseExponent
  split
  · (unfold NotInt; constructor <;> intro _ h <;> cases h)
  · split
    · exact exponentOverflow_notInt ..
    · exact ofF_notInt _

theorem parseDecimal_notInt (pos : Bool) (sig : Nat) (e : Int) (fds : Bytes) (ex : Option (Bool × Bytes)) :
    NotInt (parseDecimal pos sig e fds ex) := by
  unfold parseDecimal
  simp only
  split
  · exact parseExponent_notInt ..
  · exact ofF_notInt _

theorem convertDefault_notInt (p : Parts) (h : (p.frac.isSome || p.exp.isSome) = true) :
    NotInt (convertDefault p) := by
  unfold convertDefault
  simp only
  split
  · split
    · exact parseDecimal_notInt ..
    · exact parseExponent_notInt ..
    · rename_i hf he; simp [hf, he] at h
  · split
    · exact parseDecimal_notInt ..
    · exact parseExponent_notInt ..
    · rename_i hf he; simp [hf, he] at h

theorem intClass_cases (p : Parts) :
    intClass p = none ∨ (∃ n, intClass p = some (.u64 n)) ∨ (∃ k, intClass p = some (.i64 k)) := by
  unfold intClass
  split
  · simp only
    split
    · split
      · exact .inr (.inl ⟨_, rfl⟩)
      · exact .inl rfl
    · split
      · exact .inl rfl
      · split
        · exact .inr (.inr ⟨_, rfl⟩)
        · exact .inl rfl
  · exact .inl rfl

theorem intClass_float (p : Parts) (h : (p.frac.isSome || p.exp.isSome) = true) : intClass p = none := by
  unfold intClass
  cases hf : p.frac <;> cases he : p.exp <;> simp_all

/-- the conversion agrees with the integer classification, in both float configurations -/
theorem conv_class (fr : Bool) (p : Parts) (hd : IsDigits p.int) :
    (∀ r, intClass p = some r → convOf fr p = r) ∧ (intClass p = none → NotInt (convOf fr p)) := by
  constructor
  · intro r h
    cases fr
    · exact convertDefault_of_intClass_some p hd r h
    · exact convertRoundtrip_of_intClass_some p r h
  · intro h
    cases fr
    · show NotInt (convertDefault p)
      cases hfe : (p.frac.isSome || p.exp.isSome)
      · have hf : p.frac = none := by cases h' : p.frac <;> simp_all
        have he : p.exp = none := by cases h' : p.exp <;> simp_all
        exact (convertDefault_of_intClass_none p hf he hd h).notInt
      · exact convertDefault_notInt p hfe
    · exact (convertRoundtrip_of_intClass_none p h).notInt

open SJ.Model.FromValue (numberInt visitInt fail) in
/-- serde's integer visitor on the `ParserNumber` of the typed text path -/
theorem numberInt_parserNumber (env : Model.Typed.Env) (w : IntTy) (p : Parts) (hd : IsDigits p.int) (n : Num)
    (h : Model.Typed.parserNumber env p = some n) :
    numberInt {} w n = (match visitClass w (intClass p) with
      | some x => .ok (.int x)
      | none => fail) := by
  have hc := conv_class env.cfg.fr p hd
  unfold Model.Typed.parserNumber at h
  change (match convOf env.cfg.fr p with
    | .u64 k => some (Num.pos k) | .i64 k => some (Num.neg k) | .f64 b => some (Num.float b)
    | .outOfRange => none | .outOfFuel => none) = some n at h
  rcases intClass_cases p with hi | ⟨k, hi⟩ | ⟨k, hi⟩
  · have hn := hc.2 hi
    rw [hi]
    simp only [visitClass]
    cases hcv : convOf env.cfg.fr p with
    | u64 k => exact absurd hcv (hn.1 k)
    | i64 k => exact absurd hcv (hn.2 k)
    | f64 b => rw [hcv] at h; cases h; rfl
    | outOfRange => rw [hcv] at h; cases h
    | outOfFuel => rw [hcv] at h; cases h
  · rw [hc.1 _ hi] at h
    cases h
    rw [hi]
    simp only [visitClass, numberInt, Bool.false_eq_true, if_false, visitInt]
    split <;> rfl
  · rw [hc.1 _ hi] at h
    cases h
    rw [hi]
    simp only [visitClass, numberInt, Bool.false_eq_true, if_false, visitInt]
    split <;> rfl

end SJ.Proofs.ViaValue
