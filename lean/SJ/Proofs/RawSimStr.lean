import SJ.Proofs.RawSim
import SJ.Proofs.RawSources
import SJ.Proofs.TypedSrc
/-!
# `deserialize_raw_value` from a `&str` and from a byte slice, on valid UTF-8 input — failing runs included

The `&str` source skips the `from_utf8` check of the captured text that the byte sources make. On valid UTF-8 input
that check cannot fail: the captured text is one grammar value, which begins and ends with an ASCII byte
(`derives_valid_in_context`). Hence `deRaw`, and through the typed model's sequence / map machinery `rawSeq` and
`rawMap`, give the IDENTICAL outcome — value or error, same index — from both sources (`SU`).
-/
namespace SJ.Proofs.RawSim
open SJ SJ.Gen SJ.Model SJ.Model.Typed SJ.Model.RawNested SJ.Proofs.Typed
open SJ.Model.Machine (St init Src)
open SJ.Model.Stream (skipWs)
open SJ.Spec.Utf8 (validUtf8)

theorem su_deRaw (cfg : Machine.Cfg) (flt : Bool) (rest : Bytes) (pos : Nat) (hv : validUtf8 rest = true) :
    SU (deRaw (eStr cfg flt) rest pos) (deRaw (eSlice cfg flt) rest pos) := by
  have S := sim_str_slice cfg flt
  rw [deRaw_eq, deRaw_eq]
  have hr : validUtf8 (skipWs rest pos).1 = true := sim_skipWs S rest pos hv
  have hm := S.mach .ignored 0 init (skipWs rest pos).1 (skipWs rest pos).2 hr (Or.inl rfl)
  have hhead : ∀ b r', (skipWs rest pos).1 = b :: r' → Machine.isWs b = false := by
    intro b r' h
    exact SJ.Proofs.RawSpan.skipWs_head rest pos b r' (skipWs rest pos).2 (by rw [← h])
  generalize (skipWs rest pos).1 = r at hr hm hhead
  generalize (skipWs rest pos).2 = p at hm
  obtain ⟨heq, hok⟩ := hm
  have heq' : machine (ignEnv (eStr cfg flt)) (eStr cfg flt).flt 0 init r p =
      machine (ignEnv (eSlice cfg flt)) (eSlice cfg flt).flt 0 init r p := heq
  rw [heq']
  cases hmc : machine (ignEnv (eSlice cfg flt)) (eSlice cfg flt).flt 0 init r p with
  | ok v rest' e =>
    have hrest : validUtf8 rest' = true := hok v rest' e (by rw [← hmc]; exact heq)
    have hcap : validUtf8 (r.take (e - p)) = true := by
      unfold machine at hmc
      cases hrun : runPfx (ignEnv (eSlice cfg flt)) (eSlice cfg flt).flt 0 init p r with
      | err c i => rw [hrun] at hmc; cases hmc
      | io => rw [hrun] at hmc; cases hmc
      | ok v' e' =>
        rw [hrun] at hmc
        simp only [Res.ok.injEq] at hmc
        obtain ⟨_, _, rfl⟩ := hmc
        have hrp := SJ.Proofs.RawSpan.runPfx_ok_runPrefix _ _ _ _ _ _ _ hrun
        obtain ⟨_, _, t, hd⟩ := SJ.Proofs.RawSpan.runPrefix_span (ignEnv (eSlice cfg flt)) rfl p r v' e' hhead hrp
        exact SJ.Proofs.RawSources.derives_valid_in_context hd [] (r.drop (e' - p))
          (by simpa [List.take_append_drop] using hr)
    simp only [Res.bind, eStr, eSlice, hcap]
    exact ⟨rfl, fun _ _ _ e => by cases e; exact hrest⟩
  | err c i => exact ⟨rfl, fun _ _ _ e => by cases e⟩
  | data i => exact ⟨rfl, fun _ _ _ e => by cases e⟩
  | raw r' p' => exact ⟨rfl, fun _ _ _ e => by cases e⟩
  | io => exact ⟨rfl, fun _ _ _ e => by cases e⟩
  | fuel => exact ⟨rfl, fun _ _ _ e => by cases e⟩

theorem su_rawSeq (cfg : Machine.Cfg) (flt : Bool) (rest : Bytes) (pos : Nat) (hv : validUtf8 rest = true) :
    rawSeq (eStr cfg flt) rest pos = rawSeq (eSlice cfg flt) rest pos := by
  have S := sim_str_slice cfg flt
  unfold rawSeq
  refine (sim_deSeq S 0 _ _ (fun r p hr => ?_) rest pos hv).1
  exact sim_map S _ (sim_seqLoop S _ _ (fun r' p' hr' => su_deRaw cfg flt r' p' hr') _ _ _ _ _ hr)

theorem su_rawMap (cfg : Machine.Cfg) (flt : Bool) (rest : Bytes) (pos : Nat) (hv : validUtf8 rest = true) :
    rawMap (eStr cfg flt) rest pos = rawMap (eSlice cfg flt) rest pos := by
  have S := sim_str_slice cfg flt
  unfold rawMap
  refine (sim_deMap S 0 _ _ (fun r p hr => ?_) rest pos hv).1
  exact sim_map S _ (sim_mapLoop S .string _ _ (fun r' p' hr' => su_deRaw cfg flt r' p' hr') _ _ _ _ _ hr)

theorem su_deRaw_eq (cfg : Machine.Cfg) (flt : Bool) (rest : Bytes) (pos : Nat) (hv : validUtf8 rest = true) :
    deRaw (eStr cfg flt) rest pos = deRaw (eSlice cfg flt) rest pos := (su_deRaw cfg flt rest pos hv).1

end SJ.Proofs.RawSim
