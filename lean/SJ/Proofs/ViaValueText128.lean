import SJ.Proofs.ViaValueText
import SJ.Model.ViaValue
/-!
# 128-bit targets, the whole-document form and the quoted-key form of the typed text path on a literal
-/
namespace SJ.Proofs.ViaValue
open SJ SJ.Gen SJ.Model SJ.Model.Typed SJ.Model.Num SJ.Proofs.NumInt SJ.Spec.NumberAcc SJ.Model.ViaValue
open SJ.Model.Stream (skipWs)
open SJ.Proofs.Typed (skipWs_cons withPeek_cons digitsOf_term isDigit_not_ws digit_facts isDigit_iff)
open SJ.Spec.Grammar (NumParts isInt isFrac isExp)
open SJ.Proofs.NumLinkParser (litOf litOf_neg litOf_int)

/-- the literal cut after its integer digits -/
def intOnly (p : NumParts) : NumParts := ⟨p.minus, p.int, [], []⟩

theorem intOnly_wf (p : NumParts) (hwf : p.WF = true) : (intOnly p).WF = true := by
  simp only [NumParts.WF, Bool.and_eq_true] at hwf ⊢
  exact ⟨⟨hwf.1.1, rfl⟩, rfl⟩

theorem intOnly_bytes (p : NumParts) : (intOnly p).bytes = signInt p := by
  obtain ⟨m, i, f, e⟩ := p
  cases m <;> simp [intOnly, NumParts.bytes, signInt]

/-- what follows the integer digits of a literal does not start with a digit -/
theorem tail_nodigit (p : NumParts) (hwf : p.WF = true) (rest : Bytes) (hs : Term rest) :
    p.frac ++ p.exp ++ rest = [] ∨ ∃ c tl, p.frac ++ p.exp ++ rest = c :: tl ∧ Machine.isDigit c = false := by
  simp only [NumParts.WF, Bool.and_eq_true] at hwf
  obtain ⟨⟨_, hf⟩, he⟩ := hwf
  cases hfr : p.frac with
  | cons c ds =>
    rw [hfr] at hf
    simp only [isFrac, Bool.and_eq_true, beq_iff_eq] at hf
    exact .inr ⟨c, ds ++ p.exp ++ rest, by simp, by rw [hf.1.1]; decide⟩
  | nil =>
    cases hex : p.exp with
    | cons c r =>
      rw [hex] at he
      simp only [isExp, Bool.and_eq_true, Bool.or_eq_true, beq_iff_eq] at he
      refine .inr ⟨c, r ++ rest, by simp, ?_⟩
      rcases he.1 with rfl | rfl <;> decide
    | nil =>
      simp only [List.nil_append]
      exact term_digit hs

section
variable {env : Env} (hflt : env.flt = false)
include hflt

theorem scanDigits_all (tail : Bytes) (ht : tail = [] ∨ ∃ c tl, tail = c :: tl ∧ Machine.isDigit c = false) :
    ∀ (ds acc : Bytes) (q : Nat), IsDigits ds →
      scanDigits env acc (ds ++ tail) q = .ok (acc.reverse ++ ds) tail (q + ds.length) := by
  intro ds
  induction ds with
  | nil =>
    intro acc q _
    rcases ht with rfl | ⟨d, tl', rfl, hd⟩
    · simp [scanDigits, hflt]
    · simp [scanDigits, hd]
  | cons x xs ih =>
    intro acc q hd
    have hx : Machine.isDigit x = true := (isDigit_iff x).2 (hd x (by simp))
    simp only [List.cons_append, scanDigits, hx, if_true]
    rw [ih (x :: acc) (q + 1) (fun c hc => hd c (by simp [hc]))]
    simp only [List.reverse_cons, List.append_assoc, List.singleton_append, List.length_cons]
    congr 1; omega

/-- `scan_integer128` on the integer digits of a literal -/
theorem scanInteger128_int (int tail : Bytes) (pos : Nat) (hi : isInt int = true)
    (ht : tail = [] ∨ ∃ c tl, tail = c :: tl ∧ Machine.isDigit c = false) :
    scanInteger128 env (int ++ tail) pos = .ok int tail (pos + int.length) := by
  rcases SJ.Proofs.Complete.int_shape int hi with rfl | ⟨d, ds, rfl, hd, hz, hds⟩
  · simp only [List.cons_append, List.nil_append, scanInteger128, beq_self_eq_true, if_true]
    rcases ht with rfl | ⟨c, tl, rfl, hc⟩
    · simp [hflt]
    · simp [hc]
  · have hd' : Machine.isDigit d = true := hd
    simp only [List.cons_append, scanInteger128, hz, Bool.false_eq_true, if_false, hd', if_true]
    rw [scanDigits_all hflt tail ht ds [d] (pos + 1) (isDigits_of_all ds hds)]
    simp only [List.reverse_cons, List.reverse_nil, List.nil_append, List.singleton_append, List.length_cons]
    congr 1; omega

/-- **128-bit targets**: `do_deserialize_i128/u128` read sign and integer digits and answer `str::parse` of those;
    fraction and exponent are left unread -/
theorem deInt128_lit (w : IntTy) (p : NumParts) (hwf : p.WF = true) (rest : Bytes) (pos : Nat) (hs : Term rest) :
    (∀ x, accInt w (litOf (intOnly p)) = some x →
        deInt128 env w (p.bytes ++ rest) pos = .ok (.int x) (p.frac ++ p.exp ++ rest) (pos + (signInt p).length)) ∧
    (accInt w (litOf (intOnly p)) = none → NotOk (deInt128 env w (p.bytes ++ rest) pos)) := by
  have hwf' := hwf
  simp only [NumParts.WF, Bool.and_eq_true] at hwf'
  obtain ⟨⟨hi, _⟩, _⟩ := hwf'
  have hparse := SJ.Proofs.NumberAp.parseInt_bytes w (intOnly p) (intOnly_wf p hwf)
  rw [intOnly_bytes] at hparse
  unfold Model.NumberAp.parseInt at hparse
  have htail := tail_nodigit p hwf rest hs
  obtain ⟨d, ds, hint, hd⟩ := SJ.Proofs.NumberAp.int_head p.int hi
  have hd' : Machine.isDigit d = true := hd
  have hb : p.bytes ++ rest = signInt p ++ (p.frac ++ p.exp ++ rest) := by
    rw [bytes_split]; simp [List.append_assoc]
  rw [hb, ← hparse]
  cases hm : p.minus with
  | true =>
    have hsi : signInt p = 0x2d :: p.int := by simp [signInt, hm]
    rw [hsi]
    simp only [List.cons_append]
    unfold deInt128
    rw [withPeek_cons env _ (by decide : Machine.isWs 0x2d = false)]
    simp only [beq_self_eq_true, if_true]
    cases hsg : w.signed with
    | true =>
      simp only [if_true, scanInteger128_int hflt p.int _ (pos + 1) hi htail, Res.bind]
      constructor
      · intro x hx
        rw [hx]
        simp only [List.length_cons]
        congr 1; omega
      · intro hx
        rw [hx]
        intro v r' p' h; cases h
    | false =>
      simp only [Bool.false_eq_true, if_false]
      constructor
      · intro x hx
        exfalso
        have : FromValue.rustParseInt w (0x2d :: p.int) = none := by
          unfold FromValue.rustParseInt FromValue.signSplit
          simp [hsg, FromValue.parseDigits, show Spec.Grammar.isDigit 0x2d = false by decide]
        rw [this] at hx; cases hx
      · intro _ v r' p' h; cases h
  | false =>
    have hsi : signInt p = p.int := by simp [signInt, hm]
    rw [hsi, hint]
    simp only [List.cons_append]
    unfold deInt128
    rw [withPeek_cons env _ (isDigit_not_ws hd')]
    have hne : (d == 0x2d) = false := (digit_facts hd').1
    simp only [hne, Bool.false_eq_true, if_false]
    have hsc := scanInteger128_int hflt p.int _ pos hi htail
    rw [hint] at hsc
    simp only [List.cons_append] at hsc
    simp only [hsc, Res.bind]
    constructor
    · intro x hx
      rw [hx]
    · intro hx
      rw [hx]
      intro v r' p' h; cases h

end

/-! ## whole document and quoted key -/

theorem bytes_head (p : NumParts) (hwf : p.WF = true) (rest : Bytes) :
    ∃ b tl, p.bytes ++ rest = b :: tl ∧ isNumStart b = true := by
  simp only [NumParts.WF, Bool.and_eq_true] at hwf
  obtain ⟨d, ds, hint, hd⟩ := SJ.Proofs.NumberAp.int_head p.int hwf.1.1
  have hd' : Machine.isDigit d = true := hd
  obtain ⟨m, i, f, e⟩ := p
  simp only at hint
  subst hint
  cases m
  · exact ⟨d, ds ++ f ++ e ++ rest, by simp [NumParts.bytes], by simp [isNumStart, hd']⟩
  · exact ⟨0x2d, d :: ds ++ f ++ e ++ rest, by simp [NumParts.bytes], by decide⟩

theorem is128_iff (w : IntTy) : is128 w = true ↔ ¬ w.bits ≤ 64 := by
  cases w <;> simp [is128, IntTy.bits]

theorem intOnly_eq (p : NumParts) (hf : p.frac = []) (he : p.exp = []) : intOnly p = p := by
  obtain ⟨m, i, f, e⟩ := p
  simp only at hf he
  subst hf he
  rfl

/-- the result of an integer request on the literal followed by a terminator, all widths:
    the verdict, and — on success — what is left unread -/
theorem deInt_lit {env : Env} (hflt : env.flt = false) (w : IntTy) (p : NumParts) (hwf : p.WF = true)
    (rest : Bytes) (pos : Nat) (hs : Term rest) :
    (∀ x, targetInt w (litOf p) = some x →
        deInt env w (p.bytes ++ rest) pos = .ok (.int x) rest (pos + p.bytes.length)) ∧
    (targetInt w (litOf p) = none →
        NotOk (deInt env w (p.bytes ++ rest) pos) ∨
        (is128 w = true ∧ isIntLit (litOf p) = false ∧
          ∃ x c tl q, deInt env w (p.bytes ++ rest) pos = .ok (.int x) (c :: tl ++ rest) q ∧
            ((c == 0x2e) = true ∨ (c == 0x65 || c == 0x45) = true))) := by
  unfold deInt
  cases h128 : is128 w with
  | false =>
    have hw : w.bits ≤ 64 := by
      by_contra hc
      have := (is128_iff w).2 hc
      rw [h128] at this; cases this
    simp only [Bool.false_eq_true, if_false]
    cases hint : isIntLit (litOf p) with
    | true =>
      have hvt := visitClass_target w (litOf p) hint (.inl hw)
      rw [litOf_neg, litOf_int] at hvt
      have := deNumber_int_lit hflt w p hwf hint rest pos hs
      rw [hvt] at this
      exact ⟨this.1, fun h => .inl (this.2 h)⟩
    | false =>
      have hno := deNumber_float_lit env w p hwf hint rest pos
      constructor
      · intro x hx
        rw [target_of_float w _ hint] at hx; cases hx
      · intro _; exact .inl hno
  | true =>
    have hw : ¬ w.bits ≤ 64 := (is128_iff w).1 h128
    simp only [if_true]
    have htgt : targetInt w (litOf p) = accInt w (litOf p) := by
      unfold targetInt
      have : decide (w.bits ≤ 64) = false := by simpa using hw
      simp [this]
    have h := deInt128_lit hflt w p hwf rest pos hs
    have hil := SJ.Proofs.NumberAp.isIntLit_litOf p hwf
    cases hint : isIntLit (litOf p) with
    | true =>
      rw [hint] at hil
      have hfe : p.frac = [] ∧ p.exp = [] := by
        have := hil.symm
        simpa [Bool.and_eq_true, List.isEmpty_iff] using this
      have hio := intOnly_eq p hfe.1 hfe.2
      rw [hio] at h
      have hlen : (signInt p).length = p.bytes.length := by
        rw [bytes_split, hfe.1, hfe.2]; simp
      rw [hfe.1, hfe.2, hlen] at h
      simp only [List.nil_append] at h
      rw [htgt]
      exact ⟨h.1, fun hx => .inl (h.2 hx)⟩
    | false =>
      constructor
      · intro x hx
        rw [target_of_float w _ hint] at hx; cases hx
      · intro _
        cases hacc : accInt w (litOf (intOnly p)) with
        | none => exact .inl (h.2 hacc)
        | some x =>
          right
          refine ⟨trivial, rfl, x, ?_⟩
          rw [hint] at hil
          -- the unread part starts with `.`, `e` or `E`
          have hwf' := hwf
          simp only [NumParts.WF, Bool.and_eq_true] at hwf'
          obtain ⟨⟨_, hf⟩, he⟩ := hwf'
          cases hfr : p.frac with
          | cons c ds =>
            rw [hfr] at hf
            simp only [isFrac, Bool.and_eq_true, beq_iff_eq] at hf
            refine ⟨c, ds ++ p.exp, pos + (signInt p).length, ?_, .inl (by simp [hf.1.1])⟩
            have := h.1 x hacc
            rw [hfr] at this
            simpa [List.append_assoc] using this
          | nil =>
            cases hex : p.exp with
            | nil => simp [hfr, hex] at hil
            | cons c r =>
              rw [hex] at he
              simp only [isExp, Bool.and_eq_true] at he
              refine ⟨c, r, pos + (signInt p).length, ?_, .inr he.1⟩
              have := h.1 x hacc
              rw [hfr, hex] at this
              simpa using this

theorem notOk_top {env : Env} {s : Schema} {bs : Bytes} {f : Nat}
    (h : NotOk (deTyped env f 0 s bs 0)) (hf : f = Schema.size s + 1) : ∀ v, deTypedTop env s bs ≠ .ok v := by
  intro v
  unfold deTypedTop
  rw [← hf]
  cases hr : deTyped env f 0 s bs 0 with
  | ok a r q => exact absurd hr (h a r q)
  | err c i => intro h'; cases h'
  | data i => intro h'; cases h'
  | raw a b => intro h'; cases h'
  | io => intro h'; cases h'
  | fuel => intro h'; cases h'

theorem floatChar_not_ws {c : UInt8} (h : (c == 0x2e) = true ∨ (c == 0x65 || c == 0x45) = true) : Machine.isWs c = false := by
  rcases h with h | h
  · have : c = 0x2e := by simpa using h
    subst this; decide
  · simp only [Bool.or_eq_true, beq_iff_eq] at h
    rcases h with rfl | rfl <;> decide

/-- **text path**: `from_str::<iN/uN>(lit)` is the statement's verdict, every width, every build and source -/
theorem textInt_lit (cfg : Machine.Cfg) (src : Machine.Src) (w : IntTy) (p : NumParts) (hwf : p.WF = true) :
    textInt cfg src w p.bytes = targetInt w (litOf p) := by
  have hflt : ({ cfg := cfg, src := src } : Env).flt = false := rfl
  have h := deInt_lit hflt w p hwf [] 0 term_nil
  simp only [List.append_nil, Nat.zero_add] at h
  unfold textInt deTypedTop
  rw [show Schema.size (.int w) + 1 = Schema.size (.int w) + 1 from rfl, SJ.Proofs.Typed.deTyped_int]
  cases htg : targetInt w (litOf p) with
  | some x =>
    rw [h.1 x htg]
    simp [skipWs]
  | none =>
    rcases h.2 htg with hno | ⟨_, _, x, c, tl, q, hok, hc⟩
    · cases hr : deInt { cfg := cfg, src := src } w p.bytes 0 with
      | ok a r q => exact absurd hr (hno a r q)
      | err c i => rfl
      | data i => rfl
      | raw a b => rfl
      | io => rfl
      | fuel => rfl
    · rw [hok]
      simp only [skipWs_cons (floatChar_not_ws hc)]

/-- **quoted map key, text**: `MapKey::deserialize_iN` on `"lit"` followed by anything -/
theorem textKeyInt_lit (cfg : Machine.Cfg) (src : Machine.Src) (w : IntTy) (p : NumParts) (hwf : p.WF = true)
    (rest : Bytes) (pos : Nat) :
    textKeyInt cfg src w p.bytes rest pos =
      (targetInt w (litOf p)).map fun x => (x, rest, pos + p.bytes.length + 2) := by
  have hflt : ({ cfg := cfg, src := src } : Env).flt = false := rfl
  have h := deInt_lit hflt w p hwf (0x22 :: rest) (pos + 1) (term_quote rest)
  obtain ⟨b, tl, hbt, hns⟩ := bytes_head p hwf (0x22 :: rest)
  unfold textKeyInt keyInt
  simp only [List.drop_succ_cons, List.drop_zero]
  rw [hbt] at h ⊢
  simp only [hns, Bool.not_true, Bool.false_eq_true, if_false]
  cases htg : targetInt w (litOf p) with
  | some x =>
    rw [h.1 x htg]
    simp only [Res.bind, beq_self_eq_true, if_true, Option.map_some]
    have e : pos + 1 + p.bytes.length + 1 = pos + p.bytes.length + 2 := by omega
    rw [e]
  | none =>
    simp only [Option.map_none]
    rcases h.2 htg with hno | ⟨_, _, x, c, tl', q, hok, hc⟩
    · cases hr : deInt { cfg := cfg, src := src } w (b :: tl) (pos + 1) with
      | ok a r q => exact absurd hr (hno a r q)
      | err c i => rfl
      | data i => rfl
      | raw a b => rfl
      | io => rfl
      | fuel => rfl
    · rw [hok]
      have hcq : (c == 0x22) = false := by
        rcases hc with hc | hc
        · have : c = 0x2e := by simpa using hc
          subst this; decide
        · simp only [Bool.or_eq_true, beq_iff_eq] at hc
          rcases hc with rfl | rfl <;> decide
      simp only [Res.bind, List.cons_append, hcq, Bool.false_eq_true, if_false]

end SJ.Proofs.ViaValue
