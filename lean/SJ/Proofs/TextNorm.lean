import SJ.Spec.TextNorm
import SJ.Proofs.Number
import SJ.Proofs.MkObj
import SJ.Proofs.CanonM
/-!
# parse-then-serialise on texts: `stripWs`, `normText` and the parser's canonical value (C20)

* `strip_derives`: for a derivation `Derives bs t` whose strings are spelled canonically, the byte-level
  whitespace stripper returns `normText t`;
* `build_id`: a member list whose keys are distinct (and ascending in the default map) is the map it builds;
* `render_canon`: `render (imageOfValue ext v) = normText t` for `v = canonM cfg t` under `arbitrary_precision`.
-/
namespace SJ.Proofs.TextNorm
open SJ SJ.Spec.Grammar SJ.Spec.Denote SJ.Spec.Image SJ.Spec.TextNorm

/-! ## the stripper on the pieces of a derivation -/

theorem strip_ws : ∀ (w r : Bytes), Ws w → strip .out (w ++ r) = strip .out r
  | [], _, _ => rfl
  | b :: w, r, h => by
    simp only [Ws, List.all_cons, Bool.and_eq_true] at h
    simp only [List.cons_append, strip, h.1, if_true]
    exact strip_ws w r h.2

theorem strip_tok : ∀ (tok r : Bytes), (∀ b ∈ tok, isWs b = false ∧ b ≠ 0x22) →
    strip .out (tok ++ r) = tok ++ strip .out r
  | [], _, _ => rfl
  | b :: tok, r, h => by
    have hb := h b (by simp)
    have hq : (b == 0x22) = false := by simpa using hb.2
    simp only [List.cons_append, strip, hb.1, Bool.false_eq_true, if_false, hq]
    rw [strip_tok tok r (fun x hx => h x (by simp [hx]))]

theorem strip_str_items : ∀ (items : List StrItem) (r : Bytes), StrWF items = true →
    strip .str (items.flatMap StrItem.bytes ++ 0x22 :: r) = items.flatMap StrItem.bytes ++ 0x22 :: strip .out r
  | [], r, _ => by simp [strip]
  | .raw b :: items, r, h => by
    simp only [StrWF, List.all_cons, StrItem.WF, isUnescaped, Bool.and_eq_true, bne_iff_ne, ne_eq] at h
    have h1 : (b == 0x22) = false := by simpa using h.1.1.2
    have h2 : (b == 0x5c) = false := by simpa using h.1.2
    simp only [List.flatMap_cons, StrItem.bytes, List.cons_append, List.nil_append, strip, h1, h2,
      Bool.false_eq_true, if_false]
    rw [strip_str_items items r h.2]
  | .esc c :: items, r, h => by
    simp only [StrWF, List.all_cons, Bool.and_eq_true] at h
    simp only [List.flatMap_cons, StrItem.bytes, List.cons_append, List.nil_append, strip,
      show ((0x5c : UInt8) == 0x22) = false by decide, show ((0x5c : UInt8) == 0x5c) = true by decide,
      Bool.false_eq_true, if_false, if_true]
    rw [strip_str_items items r h.2]
  | .uni a b c d :: items, r, h => by
    simp only [StrWF, List.all_cons, Bool.and_eq_true, StrItem.WF] at h
    obtain ⟨⟨⟨⟨ha, hb⟩, hc⟩, hd⟩, hr⟩ := h
    have hex : ∀ x : UInt8, isHex x = true → (x == 0x22) = false ∧ (x == 0x5c) = false := by
      intro x hx
      simp only [isHex, Bool.or_eq_true, Bool.and_eq_true, decide_eq_true_eq] at hx
      constructor <;> (simp only [beq_eq_false_iff_ne, ne_eq]; intro he; subst he; revert hx; decide)
    simp only [List.flatMap_cons, StrItem.bytes, List.cons_append, List.nil_append, strip,
      show ((0x5c : UInt8) == 0x22) = false by decide, show ((0x5c : UInt8) == 0x5c) = true by decide,
      (hex a ha).1, (hex a ha).2, (hex b hb).1, (hex b hb).2, (hex c hc).1, (hex c hc).2, (hex d hd).1, (hex d hd).2,
      Bool.false_eq_true, if_false, if_true]
    rw [strip_str_items items r hr]

theorem strip_strBytes (items : List StrItem) (r : Bytes) (h : StrWF items = true) :
    strip .out (strBytes items ++ r) = strBytes items ++ strip .out r := by
  simp only [strBytes, List.cons_append, List.nil_append, List.append_assoc, strip,
    show isWs 0x22 = false by decide, Bool.false_eq_true, if_false, show ((0x22 : UInt8) == 0x22) = true by decide, if_true]
  rw [strip_str_items items r h]

theorem quote_of_spelled (items : List StrItem) (h : spelledStr items = true) : quote (contentOf items) = strBytes items := by
  simp only [spelledStr, beq_iff_eq] at h
  rw [quote, ← h]

theorem elems_ne_nil {bs : Bytes} {xs : List CST} (h : Elems bs xs) : xs ≠ [] := by cases h <;> simp
theorem members_ne_nil {bs : Bytes} {ms : List (List StrItem × CST)} (h : Members bs ms) : ms ≠ [] := by cases h <;> simp

theorem strip_one (b : UInt8) (r : Bytes) (h1 : isWs b = false) (h2 : b ≠ 0x22) :
    strip .out (b :: r) = b :: strip .out r := by
  simpa using strip_tok [b] r (by simpa using ⟨h1, h2⟩)

theorem numByte_tok (p : NumParts) (h : p.WF = true) : ∀ b ∈ p.bytes, isWs b = false ∧ b ≠ 0x22 := by
  intro b hb
  have := List.all_eq_true.mp (SJ.Proofs.Number.parts_numBytes p h) b hb
  simp only [Spec.Recognise.isNumByte, isDigit, Bool.or_eq_true, Bool.and_eq_true, decide_eq_true_eq, beq_iff_eq] at this
  constructor
  · simp only [isWs, Bool.or_eq_false_iff, beq_eq_false_iff_ne, ne_eq]
    refine ⟨⟨⟨?_, ?_⟩, ?_⟩, ?_⟩ <;> (intro he; subst he; revert this; decide)
  · intro he; subst he; revert this; decide

/-- **whitespace stripping of a derivation**: the tree's compact spelling, given canonically spelled strings -/
theorem strip_derives {bs : Bytes} {t : CST} (h : Derives bs t) :
    spelledCanonically t = true → ∀ r, strip .out (bs ++ r) = normText t ++ strip .out r := by
  refine Derives.rec
    (motive_1 := fun bs t _ => spelledCanonically t = true → ∀ r, strip .out (bs ++ r) = normText t ++ strip .out r)
    (motive_2 := fun bs xs _ => spelledList xs = true → ∀ r, strip .out (bs ++ r) = normElems xs ++ strip .out r)
    (motive_3 := fun bs ms _ => spelledMembers ms = true → ∀ r, strip .out (bs ++ r) = normMembers ms ++ strip .out r)
    ?_ ?_ ?_ ?_ ?_ ?_ ?_ ?_ ?_ ?_ ?_ ?_ ?_ h
  · intro _ r; exact strip_tok _ r (by decide)
  · intro _ r; exact strip_tok _ r (by decide)
  · intro _ r; exact strip_tok _ r (by decide)
  · intro p hp _ r; exact strip_tok _ r (numByte_tok p hp)
  · intro items hwf hs r
    simp only [spelledCanonically] at hs
    rw [strip_strBytes items r hwf, normText, quote_of_spelled items hs]
  · intro w hw _ r
    simp only [List.append_assoc, List.cons_append, List.nil_append]
    rw [strip_one _ _ (by decide) (by decide), strip_ws w _ hw, strip_one _ _ (by decide) (by decide)]
    simp [normText, normElems]
  · intro w₁ body w₂ xs h₁ h₂ _ _ ih hs r
    simp only [spelledCanonically] at hs
    simp only [List.append_assoc, List.cons_append, List.nil_append]
    rw [strip_one _ _ (by decide) (by decide), strip_ws w₁ _ h₁, ih hs, strip_ws w₂ _ h₂,
      strip_one _ _ (by decide) (by decide)]
    simp [normText]
  · intro w hw _ r
    simp only [List.append_assoc, List.cons_append, List.nil_append]
    rw [strip_one _ _ (by decide) (by decide), strip_ws w _ hw, strip_one _ _ (by decide) (by decide)]
    simp [normText, normMembers]
  · intro w₁ body w₂ ms h₁ h₂ _ _ ih hs r
    simp only [spelledCanonically] at hs
    simp only [List.append_assoc, List.cons_append, List.nil_append]
    rw [strip_one _ _ (by decide) (by decide), strip_ws w₁ _ h₁, ih hs, strip_ws w₂ _ h₂,
      strip_one _ _ (by decide) (by decide)]
    simp [normText]
  · intro bs t _ ih hs r
    simp only [spelledList, Bool.and_true] at hs
    rw [ih hs]; simp [normElems]
  · intro bs w₁ w₂ rest t ts _ h₁ h₂ hr ih1 ih2 hs r
    simp only [spelledList, Bool.and_eq_true] at hs
    simp only [List.append_assoc, List.cons_append, List.nil_append]
    rw [ih1 hs.1, strip_ws w₁ _ h₁, strip_one _ _ (by decide) (by decide), strip_ws w₂ _ h₂, ih2 hs.2]
    have : ts.isEmpty = false := by
      cases ts with
      | nil => exact absurd rfl (elems_ne_nil hr)
      | cons _ _ => rfl
    simp [normElems, this]
  · intro k hk w₁ w₂ vb t h₁ h₂ _ ih hs r
    simp only [spelledMembers, Bool.and_true, Bool.and_eq_true] at hs
    simp only [List.append_assoc, List.cons_append, List.nil_append]
    rw [strip_strBytes k _ hk, strip_ws w₁ _ h₁, strip_one _ _ (by decide) (by decide), strip_ws w₂ _ h₂, ih hs.2]
    simp [normMembers, quote_of_spelled k hs.1]
  · intro k hk w₁ w₂ vb w₃ w₄ rest t ms h₁ h₂ _ h₃ h₄ hr ih1 ih2 hs r
    simp only [spelledMembers, Bool.and_eq_true] at hs
    simp only [List.append_assoc, List.cons_append, List.nil_append]
    rw [strip_strBytes k _ hk, strip_ws w₁ _ h₁, strip_one _ _ (by decide) (by decide), strip_ws w₂ _ h₂, ih1 hs.1.2,
      strip_ws w₃ _ h₃, strip_one _ _ (by decide) (by decide), strip_ws w₄ _ h₄, ih2 hs.2]
    have : ms.isEmpty = false := by
      cases ms with
      | nil => exact absurd rfl (members_ne_nil hr)
      | cons _ _ => rfl
    simp [normMembers, this, quote_of_spelled k hs.1.1]

/-- a whole JSON text: `ws value ws` -/
theorem stripWs_jsonText {bs : Bytes} {t : CST} (h : JsonText bs t) (hs : spelledCanonically t = true) :
    stripWs bs = normText t := by
  obtain ⟨w₁, v, w₂, rfl, h₁, h₂, hd⟩ := h
  unfold stripWs
  rw [List.append_assoc, strip_ws w₁ _ h₁, strip_derives hd hs]
  have := strip_ws w₂ [] h₂
  simp only [List.append_nil] at this
  rw [this]; simp [strip]

/-! ## a member list in map order is the map it builds -/

section build
open SJ.Model.Machine SJ.Proofs.MkObj

theorem btInsert_last (k : Bytes) (v : JV) : ∀ m : List (Bytes × JV), (∀ k' ∈ keys m, bytesLt k' k = true) →
    btInsert k v m = m ++ [(k, v)]
  | [], _ => rfl
  | (k', v') :: r, h => by
    have hk := h k' (by simp [keys])
    have hne : k ≠ k' := fun e => bytesLt_ne hk e.symm
    simp only [btInsert, hne, if_false, bytesLt_asymm hk, Bool.false_eq_true, List.cons_append]
    rw [btInsert_last k v r (fun x hx => h x (by simp only [keys, List.map_cons, List.mem_cons] at hx ⊢; exact .inr hx))]

theorem ixInsert_new (k : Bytes) (v : JV) : ∀ m : List (Bytes × JV), k ∉ keys m → ixInsert k v m = m ++ [(k, v)]
  | [], _ => rfl
  | (k', v') :: r, h => by
    simp only [keys, List.map_cons, List.mem_cons, not_or] at h
    simp only [ixInsert, h.1, if_false, List.cons_append]
    rw [ixInsert_new k v r h.2]

theorem foldl_ins_id (cfg : Cfg) : ∀ (ms acc : List (Bytes × JV)),
    (cfg.po = true → (keys acc ++ keys ms).Nodup) → (cfg.po = false → Sorted (keys acc ++ keys ms)) →
    ms.foldl (ins cfg) acc = acc ++ ms
  | [], acc, _, _ => by simp
  | (k, v) :: r, acc, h1, h2 => by
    have hins : ins cfg acc (k, v) = acc ++ [(k, v)] := by
      unfold ins
      cases hpo : cfg.po with
      | true =>
        simp only [if_true]
        apply ixInsert_new
        have := h1 hpo
        simp only [keys, List.map_cons] at this
        rw [List.nodup_append] at this
        intro hk
        exact this.2.2 k hk k (by simp) rfl
      | false =>
        simp only [Bool.false_eq_true, if_false]
        apply btInsert_last
        intro k' hk'
        have := h2 hpo
        simp only [Sorted, keys, List.map_cons, List.pairwise_append] at this
        exact this.2.2 k' hk' k (by simp)
    simp only [List.foldl_cons, hins]
    rw [foldl_ins_id cfg r (acc ++ [(k, v)])
      (fun hpo => by have := h1 hpo; simpa [keys, List.append_assoc] using this)
      (fun hpo => by have := h2 hpo; simpa [keys, List.append_assoc] using this)]
    simp

theorem sorted_of_keysAsc : ∀ ks : List Bytes, keysAsc ks = true → Sorted ks
  | [], _ => List.Pairwise.nil
  | [a], _ => List.pairwise_singleton _ _
  | a :: b :: r, h => by
    simp only [keysAsc, Bool.and_eq_true] at h
    have ih := sorted_of_keysAsc (b :: r) h.2
    have hab : bytesLt a b = true := by rw [bytesLt_eq]; exact h.1
    refine List.Pairwise.cons ?_ ih
    intro x hx
    rcases List.mem_cons.mp hx with rfl | hx
    · exact hab
    · exact bytesLt_trans hab ((List.pairwise_cons.mp ih).1 x hx)

theorem nodup_of_keysDistinct : ∀ ks : List Bytes, keysDistinct ks = true → ks.Nodup
  | [], _ => List.nodup_nil
  | k :: r, h => by
    simp only [keysDistinct, Bool.and_eq_true, Bool.not_eq_true', List.contains_eq_mem, decide_eq_false_iff_not] at h
    exact List.nodup_cons.mpr ⟨h.1, nodup_of_keysDistinct r h.2⟩

/-- **the map keeps a member list that is already in its order** -/
theorem build_id (cfg : Cfg) (kvs : List (Bytes × JV)) (hd : keysDistinct (keys kvs) = true)
    (ha : cfg.po = true ∨ keysAsc (keys kvs) = true) : mkObj cfg kvs = .obj kvs := by
  rw [mkObj_eq_build]
  unfold build
  rw [foldl_ins_id cfg kvs [] (fun _ => by simpa [keys] using nodup_of_keysDistinct _ hd)
    (fun hpo => by
      rcases ha with h | h
      · rw [h] at hpo; cases hpo
      · simpa [keys] using sorted_of_keysAsc _ h)]
  simp

end build

/-! ## the serializer's compact text of the parser's value is the normal form of the tree -/

section render
open SJ.Model.Machine SJ.Proofs.CanonM SJ.Proofs.MkObj
variable (cfg : Cfg) (hap : cfg.ap = true) (ext : Spec.Program.Ext)
include hap

mutual
theorem render_canon : ∀ (t : CST) (v : JV), canonM cfg t = some v → keysInMapOrder cfg.po t = true →
    ∀ n, layoutWith (fun _ => []) [] n (imageOfValue ext v) = normText t
  | .null, v, h, _, n => by simp only [canonM, Option.some.injEq] at h; subst h; rfl
  | .true_, v, h, _, n => by simp only [canonM, Option.some.injEq] at h; subst h; rfl
  | .false_, v, h, _, n => by simp only [canonM, Option.some.injEq] at h; subst h; rfl
  | .num p, v, h, _, n => by
    have : canonM cfg (.num p) = some (.num (.lit p.bytes)) := by simp [canonM, Spec.Canon.numOf, specCfg, hap]
    rw [this] at h; cases h
    simp only [imageOfValue, Spec.Image.numOf, layoutWith, normText]
    exact SJ.Proofs.Number.splitNumber_bytes _
  | .str items, v, h, _, n => by
    simp only [canonM, Option.map_eq_some_iff] at h
    obtain ⟨s, hs, rfl⟩ := h
    simp only [imageOfValue, layoutWith, normText, contentOf, hs, Option.getD_some]
  | .arr xs, v, h, hk, n => by
    simp only [canonM, Option.map_eq_some_iff] at h
    obtain ⟨vs, hvs, rfl⟩ := h
    simp only [keysInMapOrder] at hk
    have ih := render_canonList xs vs hvs hk (n + 1)
    simp only [imageOfValue, layoutWith, normText]
    cases vs with
    | nil =>
      cases xs with
      | nil => rfl
      | cons x xs => simp only [canonMList] at hvs; split at hvs <;> cases hvs
    | cons v0 vs =>
      simp only [imageOfValues, List.isEmpty_cons, Bool.false_eq_true, if_false] at ih ⊢
      rw [ih]; simp
  | .obj ms, v, h, hk, n => by
    simp only [canonM, Option.map_eq_some_iff] at h
    obtain ⟨kvs, hkvs, rfl⟩ := h
    simp only [keysInMapOrder, Bool.and_eq_true, Bool.or_eq_true] at hk
    obtain ⟨hkeys, ih⟩ := render_canonMembers ms kvs hkvs hk.2
    rw [build_id cfg kvs (by rw [hkeys]; exact hk.1.1) (by rw [hkeys]; exact hk.1.2)]
    simp only [imageOfValue, layoutWith, normText]
    cases kvs with
    | nil =>
      cases ms with
      | nil => rfl
      | cons m ms => obtain ⟨k, x⟩ := m; simp only [canonMMembers] at hkvs; split at hkvs <;> cases hkvs
    | cons kv kvs =>
      obtain ⟨k0, v0⟩ := kv
      have ih' := ih (n + 1)
      simp only [imageOfMembers, List.isEmpty_cons, Bool.false_eq_true, if_false] at ih' ⊢
      rw [ih']; simp
theorem render_canonList : ∀ (xs : List CST) (vs : List JV), canonMList cfg xs = some vs →
    keysInMapOrderList cfg.po xs = true →
    ∀ n, layoutElems (fun _ => []) [] n (imageOfValues ext vs) = normElems xs
  | [], vs, h, _, n => by simp only [canonMList, Option.some.injEq] at h; subst h; rfl
  | x :: xs, vs, h, hk, n => by
    simp only [canonMList] at h
    split at h
    · rename_i v vs' hv hvs
      cases h
      simp only [keysInMapOrderList, Bool.and_eq_true] at hk
      simp only [imageOfValues, layoutElems, normElems, List.nil_append, render_canon x v hv hk.1 n,
        render_canonList xs vs' hvs hk.2 n]
      have : (imageOfValues ext vs').isEmpty = xs.isEmpty := by
        cases xs with
        | nil => simp only [canonMList, Option.some.injEq] at hvs; subst hvs; rfl
        | cons y ys =>
          simp only [canonMList] at hvs
          split at hvs
          · cases hvs; rfl
          · cases hvs
      rw [this]
    · cases h
theorem render_canonMembers : ∀ (ms : List (List StrItem × CST)) (kvs : List (Bytes × JV)),
    canonMMembers cfg ms = some kvs → keysInMapOrderMembers cfg.po ms = true →
    keys kvs = memberKeys ms ∧
    ∀ n, layoutMembers (fun _ => []) [] n (imageOfMembers ext kvs) = normMembers ms
  | [], kvs, h, _ => by simp only [canonMMembers, Option.some.injEq] at h; subst h; exact ⟨rfl, fun _ => rfl⟩
  | (k, x) :: ms, kvs, h, hk => by
    simp only [canonMMembers] at h
    split at h
    · rename_i kb v r hkb hv hr
      cases h
      simp only [keysInMapOrderMembers, Bool.and_eq_true] at hk
      obtain ⟨ihk, ih⟩ := render_canonMembers ms r hr hk.2
      refine ⟨by simp [keys, memberKeys, contentOf, hkb] at ihk ⊢; exact ihk, fun n => ?_⟩
      simp only [imageOfMembers, layoutMembers, normMembers, List.nil_append, List.append_nil,
        render_canon x v hv hk.1 n, ih n, contentOf, hkb, Option.getD_some]
      have : (imageOfMembers ext r).isEmpty = ms.isEmpty := by
        cases ms with
        | nil => simp only [canonMMembers, Option.some.injEq] at hr; subst hr; rfl
        | cons y ys =>
          obtain ⟨yk, yx⟩ := y
          simp only [canonMMembers] at hr
          split at hr
          · cases hr; rfl
          · cases hr
      rw [this]
    · cases h
end

end render

end SJ.Proofs.TextNorm
