import SJ.Spec.NumberAcc
import SJ.Model.Num
import SJ.Proofs.NumInt
/-!
# Integer targets: the parser's integer classification against the literal's value (arithmetic core of `c06_via_value`)

`Model.Num.intClass` is what every build's `parse_integer` / `parse_number` hands to the visitor for a literal
without fraction and exponent (`U64(n)` below 2^64, `I64(-n)` for `0 < n ≤ 2^63` after a minus sign, a float
otherwise — `-0` included). `visitClass w` is serde's integer visitor of width `w` on it. `visitClass_target`:
for the 8- to 64-bit targets — and for the 128-bit ones whenever a default-build `Value` can hold the literal as
an integer — this is `Spec.NumberAcc.targetInt`, the statement's "value iff in range, `-0` never".
-/
namespace SJ.Proofs.ViaValue
open SJ SJ.Spec.Decimal SJ.Spec.NumberAcc SJ.Model.Num SJ.Proofs.NumInt

/-- serde's integer `PrimitiveVisitor` of width `w` on the parser's classification of the literal:
    `visit_u64` / `visit_i64` with a range check, `visit_f64` (and errors) rejected -/
def visitClass (w : IntTy) : Option NRes → Option Int
  | some (.u64 n) => if w.inRange n then some (n : Int) else none
  | some (.i64 k) => if w.inRange k then some k else none
  | _ => none

/-- the parts of an integer literal -/
def intParts (neg : Bool) (int : Bytes) : Parts := { neg := neg, int := int, frac := none, exp := none, raw := [] }

theorem inRange_iff (w : IntTy) (x : Int) : w.inRange x = true ↔ w.lo ≤ x ∧ x ≤ w.hi := by
  unfold IntTy.inRange
  simp only [Bool.and_eq_true, decide_eq_true_eq]

theorem small_bounds (w : IntTy) (h : w.bits ≤ 64) : -9223372036854775808 ≤ w.lo ∧ w.hi ≤ 18446744073709551615 := by
  cases w <;> first
    | (simp [IntTy.bits] at h; done)
    | (constructor <;> decide)

theorem unsigned_lo (w : IntTy) (h : w.signed = false) : w.lo = 0 := by
  unfold IntTy.lo; simp [h]

theorem intClass_intParts (neg : Bool) (int : Bytes) :
    intClass (intParts neg int) =
      if !neg then (if natOfDigits int < 2 ^ 64 then some (.u64 (natOfDigits int)) else none)
      else if natOfDigits int == 0 then none
      else if natOfDigits int ≤ 2 ^ 63 then some (.i64 (-(natOfDigits int : Int))) else none := rfl

theorem natOfDigits_eq (ds : Bytes) : natOfDigits ds = digitsVal ds := rfl

/-- **arithmetic core**: visitor-on-classification = the statement's verdict -/
theorem visitClass_target (w : IntTy) (l : NumLit) (hint : isIntLit l = true)
    (h : w.bits ≤ 64 ∨ representable l = true) :
    visitClass w (intClass (intParts l.neg l.intDigits)) = targetInt w l := by
  rw [intClass_intParts, natOfDigits_eq]
  unfold targetInt accInt isNegZero intVal
  simp only [hint, Bool.not_true, Bool.false_eq_true, if_false, Bool.true_and]
  have hrep : representable l = true →
      ¬ (l.neg = true ∧ digitsVal l.intDigits = 0) ∧ -9223372036854775808 ≤ intVal l ∧ intVal l ≤ 18446744073709551615 := by
    intro hr
    unfold representable isNegZero at hr
    simp only [hint, Bool.true_and, Bool.and_eq_true, Bool.not_eq_true', decide_eq_true_eq, Bool.and_eq_false_iff,
      beq_eq_false_iff_ne, ne_eq] at hr
    refine ⟨?_, hr.1.2, hr.2⟩
    rintro ⟨h1, h2⟩
    rcases hr.1.1 with h | h
    · rw [h1] at h; cases h
    · exact h h2
  generalize hn : digitsVal l.intDigits = n at *
  cases hneg : l.neg with
  | false =>
    simp only [Bool.not_false, if_true, Bool.false_and, Bool.false_eq_true, if_false, Bool.and_false]
    by_cases hlt : n < 2 ^ 64
    · simp only [hlt, if_true, visitClass]
    · simp only [hlt, if_false, visitClass]
      have : w.inRange (n : Int) = false := by
        cases hr : w.inRange (n : Int)
        · rfl
        · exfalso
          have hx := (inRange_iff w _).1 hr
          rcases h with h | h
          · have := (small_bounds w h).2; omega
          · have := (hrep h).2.2; unfold intVal at this; rw [hneg, hn] at this; simp at this; omega
      simp [this]
  | true =>
    simp only [Bool.not_true, Bool.false_eq_true, if_false, Bool.true_and, if_true]
    by_cases hz : n = 0
    · subst hz
      simp only [beq_self_eq_true, if_true, visitClass, Bool.and_true]
      rcases h with h | h
      · simp [h]
      · exact absurd ⟨hneg, rfl⟩ (hrep h).1
    · have hz' : (n == 0) = false := by simpa using hz
      simp only [hz', Bool.false_eq_true, if_false, Bool.and_false]
      by_cases hle : n ≤ 2 ^ 63
      · simp only [hle, if_true, visitClass]
        cases hs : w.signed with
        | true => simp
        | false =>
          have : w.inRange (-(n : Int)) = false := by
            cases hr : w.inRange (-(n : Int))
            · rfl
            · exfalso
              have hx := (inRange_iff w _).1 hr
              rw [unsigned_lo w hs] at hx; omega
          simp [this]
      · simp only [hle, if_false, visitClass]
        cases hs : w.signed with
        | false => simp
        | true =>
          have : w.inRange (-(n : Int)) = false := by
            cases hr : w.inRange (-(n : Int))
            · rfl
            · exfalso
              have hx := (inRange_iff w _).1 hr
              rcases h with h | h
              · have := (small_bounds w h).1; omega
              · have := (hrep h).2.1; unfold intVal at this; rw [hneg, hn] at this; simp at this; omega
          simp [this]

/-- a literal with a fraction or an exponent is no integer for any target -/
theorem target_of_float (w : IntTy) (l : NumLit) (h : isIntLit l = false) : targetInt w l = none := by
  unfold targetInt isNegZero accInt
  simp [h]

/-- when the 128-bit targets are NOT judged through a default-build `Value`: the literal is an integer the
    `Value` stores as a float (`-0`, or beyond `[i64::MIN, u64::MAX]`) -/
theorem visitClass_unrepresentable (w : IntTy) (l : NumLit) (hint : isIntLit l = true) (h : representable l = false) :
    visitClass w (intClass (intParts l.neg l.intDigits)) = none := by
  rw [intClass_intParts, natOfDigits_eq]
  unfold representable isNegZero intVal at h
  simp only [hint, Bool.true_and] at h
  generalize digitsVal l.intDigits = n at *
  cases hneg : l.neg with
  | false =>
    rw [hneg] at h
    simp only [Bool.false_and, Bool.not_false, Bool.true_and, Bool.false_eq_true, if_false, Bool.and_eq_false_iff,
      decide_eq_false_iff_not] at h
    simp only [Bool.not_false, if_true]
    have : ¬ n < 2 ^ 64 := by rcases h with h | h <;> omega
    simp [this, visitClass]
  | true =>
    rw [hneg] at h
    simp only [Bool.true_and, if_true, Bool.and_eq_false_iff, Bool.not_eq_false', beq_iff_eq, decide_eq_false_iff_not] at h
    simp only [Bool.not_true, Bool.false_eq_true, if_false]
    by_cases hz : n = 0
    · simp [hz, visitClass]
    · have hz' : (n == 0) = false := by simpa using hz
      have : ¬ n ≤ 2 ^ 63 := by rcases h with (h | h) | h <;> omega
      simp [hz', this, visitClass]

end SJ.Proofs.ViaValue
