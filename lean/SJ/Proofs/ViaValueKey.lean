import SJ.Proofs.ViaValueValue
set_option linter.unusedSimpArgs false
/-!
# `MapKeyDeserializer` (value/de.rs) on a numeric key that is a number literal

`FromValue.keyInt` is a second, compressed transcription of de.rs's `parse_integer` / `parse_number` /
`scan_integer128` (on the key text, with "nothing may follow"). `valueKeyInt_lit`: on the bytes of a
literal it returns `Spec.NumberAcc.targetInt`, in every build.
-/
namespace SJ.Proofs.ViaValue
open SJ SJ.Gen SJ.Model SJ.Model.Num SJ.Proofs.NumInt SJ.Spec.NumberAcc SJ.Model.ViaValue
open SJ.Spec.Grammar (NumParts isInt isFrac isExp)
open SJ.Proofs.NumLinkParser (litOf litOf_neg litOf_int)
open SJ.Model.FromValue (keyParseNumber keyDigits keyParseInteger PN toI64 wrappingNeg64 visitInt fail rustParseInt)

theorem wneg (n : Nat) (hn : n ≤ 18446744073709551615) :
    wrappingNeg64 (toI64 n) = if n ≤ 9223372036854775808 then -(n : Int) else 18446744073709551616 - (n : Int) := by
  unfold wrappingNeg64 toI64
  simp only [beq_iff_eq]
  repeat' split
  all_goals omega

/-- `parse_number` at the end of the key text -/
theorem keyParseNumber_nil (positive : Bool) (n : Nat) (hn : n ≤ u64Max) :
    keyParseNumber positive n [] =
        if positive then some (.u64 n, [])
        else if n = 0 then none else if n ≤ 9223372036854775808 then some (.i64 (-(n : Int)), []) else none := by
  have hn' : n ≤ 18446744073709551615 := hn
  unfold keyParseNumber
  cases positive with
  | true => simp
  | false =>
    simp only [Bool.false_eq_true, if_false]
    rw [wneg n hn']
    by_cases h0 : n = 0
    · subst h0; simp
    · simp only [h0, if_false]
      by_cases h1 : n ≤ 9223372036854775808
      · simp only [h1, if_true]
        rw [if_neg (by omega)]
      · simp only [h1, if_false]
        rw [if_pos (by omega)]

/-- `parse_number` on `.`, `e`, `E`: a float, which no integer visitor takes -/
theorem keyParseNumber_float (positive : Bool) (n : Nat) (c : UInt8) (tl : Bytes)
    (hc : (c == 0x2e) = true ∨ (c == 0x65 || c == 0x45) = true) : keyParseNumber positive n (c :: tl) = none := by
  unfold keyParseNumber
  have : (c == 0x2e || c == 0x65 || c == 0x45) = true := by
    rcases hc with h | h
    · simp [h]
    · simp only [Bool.or_eq_true] at h ⊢
      rcases h with h | h
      · exact .inl (.inr h)
      · exact .inr h
  simp [this]

theorem dig_lt (c : UInt8) (h : (0x30 : UInt8) ≤ c ∧ c ≤ 0x39) : dig c < 10 := dig_lt_10 c h

/-- the digit loop with the `overflow!` guard -/
theorem keyDigits_spec (positive : Bool) (tail : Bytes)
    (ht : tail = [] ∨ ∃ c tl, tail = c :: tl ∧ Spec.Grammar.isDigit c = false) :
    ∀ (ds : Bytes) (sig : Nat), IsDigits ds → sig ≤ u64Max →
      keyDigits positive sig (ds ++ tail) =
        if val sig ds ≤ u64Max then keyParseNumber positive (val sig ds) tail else none := by
  intro ds
  induction ds with
  | nil =>
    intro sig _ hs
    simp only [List.nil_append, val, List.foldl_nil, hs, if_true]
    rcases ht with rfl | ⟨c, tl, rfl, hc⟩
    · rfl
    · simp [keyDigits, hc]
  | cons x xs ih =>
    intro sig hd hs
    have hx := hd x (by simp)
    have hxd : Spec.Grammar.isDigit x = true := by simp [Spec.Grammar.isDigit, hx.1, hx.2]
    simp only [List.cons_append, keyDigits, hxd, if_true]
    rw [overflowMacro_spec _ _ _ (dig_lt_10 x hx), val_cons]
    by_cases hov : sig * 10 + dig x > u64Max
    · have := le_val (sig * 10 + dig x) xs
      have h2 : ¬ val (sig * 10 + dig x) xs ≤ u64Max := by omega
      simp [hov, h2]
    · simp only [hov, decide_false, Bool.false_eq_true, if_false]
      exact ih _ (fun c hc => hd c (by simp [hc])) (by omega)

theorem digit_ne_sign' (d : UInt8) (h : Spec.Grammar.isDigit d = true) : (d == 0x2d) = false :=
  (SJ.Proofs.NumberAp.digit_ne_sign d h).2

theorem isDigit19_of (d : UInt8) (hd : Spec.Grammar.isDigit d = true) (hz : (d == 0x30) = false) :
    Spec.Grammar.isDigit19 d = true := by
  simp only [Spec.Grammar.isDigit, Spec.Grammar.isDigit19, Bool.and_eq_true, decide_eq_true_eq] at hd ⊢
  have h1 := UInt8.le_iff_toNat_le.1 hd.1
  have hne : d ≠ 0x30 := by simpa using hz
  have : d.toNat ≠ 48 := fun h => hne (UInt8.toNat_inj.1 (by simpa using h))
  refine ⟨UInt8.le_iff_toNat_le.2 ?_, hd.2⟩
  simp at h1 ⊢
  omega

/-- de.rs `parse_integer` on the key text: integer digits, then whatever follows -/
theorem keyParseInteger_int (positive : Bool) (int tail : Bytes) (hi : isInt int = true)
    (ht : tail = [] ∨ ∃ c tl, tail = c :: tl ∧ Spec.Grammar.isDigit c = false) :
    keyParseInteger positive (int ++ tail) =
      if natOfDigits int ≤ u64Max then keyParseNumber positive (natOfDigits int) tail else none := by
  rcases SJ.Proofs.Complete.int_shape int hi with rfl | ⟨d, ds, rfl, hd, hz, hds⟩
  · have h0 : natOfDigits [0x30] = 0 := rfl
    have hle : (0 : Nat) ≤ u64Max := Nat.zero_le _
    simp only [List.cons_append, List.nil_append, keyParseInteger, beq_self_eq_true, if_true, h0, hle]
    rcases ht with rfl | ⟨c, tl, rfl, hc⟩
    · rfl
    · simp [hc]
  · have hd19 := isDigit19_of d hd hz
    simp only [List.cons_append, keyParseInteger, hz, Bool.false_eq_true, if_false, hd19, if_true]
    have hdig : dig d ≤ u64Max := by
      have := dig_lt_10 d ((SJ.Proofs.Typed.isDigit_iff d).1 hd)
      simp only [u64Max]; omega
    rw [keyDigits_spec positive tail ht ds (dig d) (isDigits_of_all ds hds) hdig]
    have : natOfDigits (d :: ds) = val (dig d) ds := by
      rw [natOfDigits_eq_val, val_cons]; simp
    rw [this]

def keySmall (w : IntTy) (key : Bytes) (c : UInt8) (r : Bytes) : FromValue.R :=
  match (if c == 0x2d then keyParseInteger false r else keyParseInteger true key) with
  | none => fail
  | some (pn, rest) =>
    match (match pn with | .u64 n => visitInt w n | .i64 n => visitInt w n) with
    | .error e => .error e
    | .ok t => if rest.isEmpty then .ok t else fail

theorem keyInt_small (w : IntTy) (hw : w.bits ≤ 64) (c : UInt8) (r : Bytes)
    (hc : (Spec.Grammar.isDigit c || c == 0x2d) = true) :
    FromValue.keyInt w (c :: r) = keySmall w (c :: r) c r := by
  cases w <;> first
    | (simp [IntTy.bits] at hw; done)
    | (simp only [FromValue.keyInt, hc, Bool.not_true, Bool.false_eq_true, if_false]; rfl)

/-- the 8–64-bit numeric key: visitor on the classification -/
theorem valueKey_small (w : IntTy) (hw : w.bits ≤ 64) (p : NumParts) (hwf : p.WF = true) :
    valueKeyInt w p.bytes = targetInt w (litOf p) := by
  have hwf' := hwf
  simp only [NumParts.WF, Bool.and_eq_true] at hwf'
  obtain ⟨⟨hi, hf⟩, he⟩ := hwf'
  obtain ⟨d, ds, hint, hd⟩ := SJ.Proofs.NumberAp.int_head p.int hi
  -- what follows the integer digits
  have htail : p.frac ++ p.exp = [] ∨ ∃ c tl, p.frac ++ p.exp = c :: tl ∧ Spec.Grammar.isDigit c = false := by
    rcases tail_nodigit p hwf [] term_nil with h | ⟨c, tl, h1, h2⟩
    · exact .inl (by simpa using h)
    · exact .inr ⟨c, tl, by simpa using h1, h2⟩
  -- the scan of the key text
  have hscan : ∀ positive, keyParseInteger positive (p.int ++ (p.frac ++ p.exp)) =
      if natOfDigits p.int ≤ u64Max then keyParseNumber positive (natOfDigits p.int) (p.frac ++ p.exp) else none :=
    fun positive => keyParseInteger_int positive p.int _ hi htail
  have hkey : FromValue.keyInt w p.bytes = (match keyParseInteger (!p.minus) (p.int ++ (p.frac ++ p.exp)) with
      | none => fail
      | some (pn, rest) =>
        match (match pn with | .u64 n => visitInt w n | .i64 n => visitInt w n) with
        | .error e => .error e
        | .ok t => if rest.isEmpty then .ok t else fail) := by
    cases hm : p.minus with
    | true =>
      have hb : p.bytes = 0x2d :: (p.int ++ (p.frac ++ p.exp)) := by simp [NumParts.bytes, hm, List.append_assoc]
      rw [hb, keyInt_small w hw _ _ (by decide)]
      simp [keySmall]
    | false =>
      have hb : p.bytes = d :: (ds ++ (p.frac ++ p.exp)) := by simp [NumParts.bytes, hm, hint, List.append_assoc]
      have hne : (d == 0x2d) = false := (digit_ne_sign' d hd)
      rw [hb, keyInt_small w hw _ _ (by simp [hd])]
      simp only [keySmall, hne, Bool.false_eq_true, if_false, Bool.not_false]
      rw [show d :: (ds ++ (p.frac ++ p.exp)) = p.int ++ (p.frac ++ p.exp) by rw [hint]; rfl]
  unfold valueKeyInt
  rw [hkey, hscan]
  cases hil : isIntLit (litOf p) with
  | false =>
    rw [target_of_float w _ hil]
    rw [SJ.Proofs.NumberAp.isIntLit_litOf p hwf] at hil
    -- the tail starts with a float character
    have : ∃ c tl, p.frac ++ p.exp = c :: tl ∧ ((c == 0x2e) = true ∨ (c == 0x65 || c == 0x45) = true) := by
      cases hfr : p.frac with
      | cons c ds' =>
        rw [hfr] at hf
        simp only [isFrac, Bool.and_eq_true, beq_iff_eq] at hf
        exact ⟨c, ds' ++ p.exp, by simp, .inl (by simp [hf.1.1])⟩
      | nil =>
        cases hex : p.exp with
        | nil => simp [hfr, hex] at hil
        | cons c r =>
          rw [hex] at he
          simp only [isExp, Bool.and_eq_true] at he
          exact ⟨c, r, by simp, .inr he.1⟩
    obtain ⟨c, tl, hct, hc⟩ := this
    rw [hct, keyParseNumber_float _ _ c tl hc, ite_self]
    rfl
  | true =>
    have hvt := visitClass_target w (litOf p) hil (.inl hw)
    rw [litOf_neg, litOf_int] at hvt
    rw [← hvt, intClass_intParts]
    rw [SJ.Proofs.NumberAp.isIntLit_litOf p hwf] at hil
    simp only [Bool.and_eq_true, List.isEmpty_iff] at hil
    rw [hil.1, hil.2]
    simp only [List.append_nil]
    by_cases hle : natOfDigits p.int ≤ u64Max
    · rw [if_pos hle, keyParseNumber_nil _ _ hle]
      have hlt : natOfDigits p.int < 2 ^ 64 := by simp only [u64Max] at hle; omega
      cases hm : p.minus with
      | false =>
        simp only [Bool.not_false, if_true, hlt, visitClass, visitInt]
        generalize w.inRange (natOfDigits p.int : Int) = b
        cases b <;> rfl
      | true =>
        simp only [Bool.not_true, Bool.false_eq_true, if_false]
        by_cases h0 : natOfDigits p.int = 0
        · simp [h0, visitClass]; rfl
        · have h0' : (natOfDigits p.int == 0) = false := by simpa using h0
          simp only [h0, if_false, h0', Bool.false_eq_true]
          by_cases h1 : natOfDigits p.int ≤ 9223372036854775808
          · have h1' : natOfDigits p.int ≤ 2 ^ 63 := h1
            simp only [h1, if_true, h1', visitClass, visitInt]
            generalize w.inRange (-(natOfDigits p.int : Int)) = b
            cases b <;> rfl
          · have h1' : ¬ natOfDigits p.int ≤ 2 ^ 63 := h1
            simp [h1, h1', visitClass]; rfl
    · rw [if_neg hle]
      have hlt : ¬ natOfDigits p.int < 18446744073709551616 := by simp only [u64Max] at hle; omega
      have hgt : ¬ natOfDigits p.int ≤ 9223372036854775808 := by omega
      have h0 : (natOfDigits p.int == 0) = false := by
        apply beq_false_of_ne; omega
      cases p.minus <;> simp [hlt, hgt, h0, visitClass] <;> rfl


/-! ### 128-bit numeric keys -/

theorem fvScan128_int (int tail : Bytes) (hi : isInt int = true)
    (ht : ∀ c r, tail = c :: r → Spec.Grammar.isDigit c = false) :
    FromValue.scanInteger128 (int ++ tail) = some (int, tail) := by
  rcases SJ.Proofs.Complete.int_shape int hi with rfl | ⟨d, ds, rfl, hd, hz, hds⟩
  · simp only [List.cons_append, List.nil_append, FromValue.scanInteger128, beq_self_eq_true, if_true]
    cases tail with
    | nil => rfl
    | cons c r => simp [ht c r rfl]
  · have hd19 := isDigit19_of d hd hz
    have := SJ.Proofs.Number.span_append Spec.Grammar.isDigit ds tail hds ht
    simp only [List.cons_append, FromValue.scanInteger128, hz, Bool.false_eq_true, if_false, hd19, if_true, this.1, this.2]

theorem valueKey_128 (w : IntTy) (hw : ¬ w.bits ≤ 64) (p : NumParts) (hwf : p.WF = true) :
    valueKeyInt w p.bytes = targetInt w (litOf p) := by
  have hwf' := hwf
  simp only [NumParts.WF, Bool.and_eq_true] at hwf'
  obtain ⟨⟨hi, hf⟩, he⟩ := hwf'
  obtain ⟨d, ds, hint, hd⟩ := SJ.Proofs.NumberAp.int_head p.int hi
  have hne : (d == 0x2d) = false := digit_ne_sign' d hd
  have htail : ∀ c r, p.frac ++ p.exp = c :: r → Spec.Grammar.isDigit c = false := by
    intro c r h
    rcases tail_nodigit p hwf [] term_nil with h' | ⟨c', tl, h1, h2⟩
    · simp only [List.append_nil] at h'; rw [h'] at h; cases h
    · simp only [List.append_nil] at h1; rw [h1] at h; cases h; exact h2
  have hscan := fvScan128_int p.int (p.frac ++ p.exp) hi htail
  have hparse := SJ.Proofs.NumberAp.parseInt_bytes w (intOnly p) (intOnly_wf p hwf)
  rw [intOnly_bytes] at hparse
  unfold Model.NumberAp.parseInt at hparse
  have htgt : targetInt w (litOf p) = accInt w (litOf p) := by
    unfold targetInt
    have : decide (w.bits ≤ 64) = false := by simpa using hw
    simp [this]
  -- the key read: sign + integer digits parsed, then nothing may follow
  have hkey : valueKeyInt w p.bytes =
      (match accInt w (litOf (intOnly p)) with
       | some x => if (p.frac ++ p.exp).isEmpty then some x else none
       | none => none) := by
    rw [← hparse]
    unfold valueKeyInt
    cases hm : p.minus with
    | true =>
      have hb : p.bytes = 0x2d :: (p.int ++ (p.frac ++ p.exp)) := by simp [NumParts.bytes, hm, List.append_assoc]
      have hsi : signInt p = 0x2d :: p.int := by simp [signInt, hm]
      rw [hb, hsi]
      cases w <;> first
        | (simp [IntTy.bits] at hw; done)
        | skip
      · -- i128
        simp only [FromValue.keyInt, show (Spec.Grammar.isDigit 0x2d || (0x2d : UInt8) == 0x2d) = true by decide,
          Bool.not_true, Bool.false_eq_true, if_false, beq_self_eq_true, if_true, hscan]
        cases rustParseInt .i128 (0x2d :: p.int) with
        | none => rfl
        | some x => cases (p.frac ++ p.exp).isEmpty <;> rfl
      · -- u128: `-` is NumberOutOfRange
        have : rustParseInt .u128 (0x2d :: p.int) = none := by
          unfold rustParseInt FromValue.signSplit
          simp [IntTy.signed, FromValue.parseDigits, show Spec.Grammar.isDigit 0x2d = false by decide]
        rw [this]
        simp [FromValue.keyInt, okInt]
        rfl
    | false =>
      have hb : p.bytes = d :: (ds ++ (p.frac ++ p.exp)) := by simp [NumParts.bytes, hm, hint, List.append_assoc]
      have hsi : signInt p = p.int := by simp [signInt, hm]
      have hscan' : FromValue.scanInteger128 (d :: (ds ++ (p.frac ++ p.exp))) = some (p.int, p.frac ++ p.exp) := by
        rw [← hscan, hint]; rfl
      rw [hb, hsi]
      cases w <;> first
        | (simp [IntTy.bits] at hw; done)
        | skip
      · simp only [FromValue.keyInt, hd, Bool.true_or, Bool.not_true, Bool.false_eq_true, if_false, hne, hscan']
        cases rustParseInt .i128 p.int with
        | none => rfl
        | some x => cases (p.frac ++ p.exp).isEmpty <;> rfl
      · simp only [FromValue.keyInt, hd, Bool.true_or, Bool.not_true, Bool.false_eq_true, if_false, hne, hscan']
        cases rustParseInt .u128 p.int with
        | none => rfl
        | some x => cases (p.frac ++ p.exp).isEmpty <;> rfl
  rw [hkey, htgt]
  cases hil : isIntLit (litOf p) with
  | true =>
    rw [SJ.Proofs.NumberAp.isIntLit_litOf p hwf] at hil
    simp only [Bool.and_eq_true, List.isEmpty_iff] at hil
    rw [intOnly_eq p hil.1 hil.2, hil.1, hil.2]
    cases accInt w (litOf p) <;> rfl
  | false =>
    have : accInt w (litOf p) = none := by unfold accInt; simp [hil]
    rw [this]
    rw [SJ.Proofs.NumberAp.isIntLit_litOf p hwf] at hil
    have hne' : (p.frac ++ p.exp).isEmpty = false := by
      cases hfr : p.frac with
      | cons _ _ => rfl
      | nil =>
        cases hex : p.exp with
        | nil => simp [hfr, hex] at hil
        | cons _ _ => rfl
    rw [hne']
    cases accInt w (litOf (intOnly p)) <;> rfl

/-- **key of a `Value` object**: every width, every build -/
theorem valueKeyInt_lit (w : IntTy) (p : NumParts) (hwf : p.WF = true) :
    valueKeyInt w p.bytes = targetInt w (litOf p) := by
  by_cases hw : w.bits ≤ 64
  · exact valueKey_small w hw p hwf
  · exact valueKey_128 w hw p hwf


end SJ.Proofs.ViaValue
