import SJ.Spec.Ieee
import Mathlib.Tactic.Ring
import Mathlib.Tactic.Linarith
/-!
# Correctness of the computable rounding `Spec.Ieee.roundNE64` against `IsNearestEven64`

Layers: `rne` (nearest natural, ties to even) → `roundMag` (format-generic, on naturals) →
`roundNE64`/`roundNE32` on bit patterns.
-/
namespace SJ.Proofs.Ieee
open SJ.Spec.Ieee

/-- `|x − y|` on naturals -/
def adiff (x y : Nat) : Nat := (x - y) + (y - x)

theorem adiff_comm (x y : Nat) : adiff x y = adiff y x := by unfold adiff; omega

/-! ## `rne` -/

theorem rne_cases (a c : Nat) :
    (rne a c = a / c ∧ (2 * (a % c) < c ∨ (2 * (a % c) = c ∧ (a / c) % 2 = 0))) ∨
    (rne a c = a / c + 1 ∧ (c < 2 * (a % c) ∨ (2 * (a % c) = c ∧ (a / c) % 2 = 1))) := by
  unfold rne
  simp only
  split
  · left; exact ⟨rfl, Or.inl ‹_›⟩
  · split
    · right; exact ⟨rfl, Or.inl ‹_›⟩
    · split
      · left; exact ⟨rfl, Or.inr ⟨by omega, ‹_›⟩⟩
      · right; exact ⟨rfl, Or.inr ⟨by omega, by omega⟩⟩

theorem rne_ge_div (a c : Nat) : a / c ≤ rne a c := by
  rcases rne_cases a c with h | h <;> omega

theorem rne_le_div_succ (a c : Nat) : rne a c ≤ a / c + 1 := by
  rcases rne_cases a c with h | h <;> omega

/-- the rounded value is within half a unit: `2·|m·c − a| ≤ c` -/
theorem rne_bracket (a c : Nat) (hc : 0 < c) : 2 * adiff (rne a c * c) a ≤ c := by
  have h := Nat.div_add_mod a c
  have hr := Nat.mod_lt a hc
  have e1 : c * (a / c) = (a / c) * c := Nat.mul_comm _ _
  have e2 : (a / c + 1) * c = (a / c) * c + c := Nat.succ_mul _ _
  unfold adiff
  rcases rne_cases a c with ⟨hm, hh⟩ | ⟨hm, hh⟩ <;> rw [hm] <;> omega

/-- no natural multiple of `c` is closer to `a` than `rne a c · c` -/
theorem rne_nearest (a c j : Nat) (hc : 0 < c) : adiff (rne a c * c) a ≤ adiff (j * c) a := by
  have h := Nat.div_add_mod a c
  have hr := Nat.mod_lt a hc
  have e1 : c * (a / c) = (a / c) * c := Nat.mul_comm _ _
  have e2 : (a / c + 1) * c = (a / c) * c + c := Nat.succ_mul _ _
  unfold adiff
  rcases Nat.lt_or_ge j (a / c + 1) with hj | hj
  · have hj' : j * c ≤ (a / c) * c := Nat.mul_le_mul_right c (by omega)
    rcases rne_cases a c with ⟨hm, hh⟩ | ⟨hm, hh⟩ <;> rw [hm] <;> omega
  · have hj' : (a / c + 1) * c ≤ j * c := Nat.mul_le_mul_right c hj
    rcases rne_cases a c with ⟨hm, hh⟩ | ⟨hm, hh⟩ <;> rw [hm] <;> omega

/-- a different natural at the same distance exists only when `rne a c` is even -/
theorem rne_tie_even (a c j : Nat) (hc : 0 < c) (hj : j ≠ rne a c)
    (hd : adiff (j * c) a = adiff (rne a c * c) a) : rne a c % 2 = 0 := by
  have h := Nat.div_add_mod a c
  have hr := Nat.mod_lt a hc
  have e1 : c * (a / c) = (a / c) * c := Nat.mul_comm _ _
  have e2 : (a / c + 1) * c = (a / c) * c + c := Nat.succ_mul _ _
  unfold adiff at hd
  rcases Nat.lt_trichotomy j (a / c) with hj1 | hj1 | hj1
  · have hj' : (j + 1) * c ≤ (a / c) * c := Nat.mul_le_mul_right c (by omega)
    have e3 : (j + 1) * c = j * c + c := Nat.succ_mul _ _
    rcases rne_cases a c with ⟨hm, hh⟩ | ⟨hm, hh⟩ <;> rw [hm] at hd hj ⊢ <;> omega
  · subst hj1
    rcases rne_cases a c with ⟨hm, hh⟩ | ⟨hm, hh⟩ <;> rw [hm] at hd hj ⊢ <;> omega
  · rcases Nat.lt_or_ge j (a / c + 2) with hj2 | hj2
    · have : j = a / c + 1 := by omega
      subst this
      rcases rne_cases a c with ⟨hm, hh⟩ | ⟨hm, hh⟩ <;> rw [hm] at hd hj ⊢ <;> omega
    · have hj' : (a / c + 2) * c ≤ j * c := Nat.mul_le_mul_right c hj2
      have e3 : (a / c + 2) * c = (a / c) * c + 2 * c := by ring
      rcases rne_cases a c with ⟨hm, hh⟩ | ⟨hm, hh⟩ <;> rw [hm] at hd hj ⊢ <;> omega

theorem rne_mul_exact (j c : Nat) (hc : 0 < c) : rne (j * c) c = j := by
  unfold rne
  simp [Nat.mul_div_cancel _ hc, Nat.mul_mod_left, hc]

theorem div_congr (a c a' c' : Nat) (hc : 0 < c) (hc' : 0 < c') (h : a * c' = a' * c) :
    a / c = a' / c' := by
  apply Nat.le_antisymm
  · rw [Nat.le_div_iff_mul_le hc']
    have h1 : (a / c) * c ≤ a := Nat.div_mul_le_self a c
    have h2 : (a / c) * c * c' ≤ a' * c := by rw [← h]; exact Nat.mul_le_mul_right c' h1
    have h3 : (a / c * c') * c ≤ a' * c := by rw [Nat.mul_right_comm]; exact h2
    exact Nat.le_of_mul_le_mul_right h3 hc
  · rw [Nat.le_div_iff_mul_le hc]
    have h1 : (a' / c') * c' ≤ a' := Nat.div_mul_le_self a' c'
    have h2 : (a' / c') * c' * c ≤ a * c' := by rw [h]; exact Nat.mul_le_mul_right c h1
    have h3 : (a' / c' * c) * c' ≤ a * c' := by rw [Nat.mul_right_comm]; exact h2
    exact Nat.le_of_mul_le_mul_right h3 hc'

/-- `rne` depends only on the rational `a/c` -/
theorem rne_congr (a c a' c' : Nat) (hc : 0 < c) (hc' : 0 < c') (h : a * c' = a' * c) :
    rne a c = rne a' c' := by
  have hq := div_congr a c a' c' hc hc' h
  have h1 := Nat.div_add_mod a c
  have h2 := Nat.div_add_mod a' c'
  -- r * c' = r' * c
  have hr : (a % c) * c' = (a' % c') * c := by
    have e1 : a * c' = c * (a / c) * c' + (a % c) * c' := by rw [← Nat.add_mul, h1]
    have e2 : a' * c = c' * (a' / c') * c + (a' % c') * c := by rw [← Nat.add_mul, h2]
    have e3 : c * (a / c) * c' = c' * (a' / c') * c := by rw [hq]; ring
    omega
  have k1 : 2 * (a % c) < c ↔ 2 * (a' % c') < c' := by
    constructor
    · intro hlt
      have : 2 * (a % c) * c' < c * c' := Nat.mul_lt_mul_of_pos_right hlt hc'
      have : 2 * (a' % c') * c < c' * c := by
        have e : 2 * (a % c) * c' = 2 * (a' % c') * c := by rw [Nat.mul_assoc, hr, Nat.mul_assoc]
        rw [← e, Nat.mul_comm c' c]; exact this
      exact Nat.lt_of_mul_lt_mul_right this
    · intro hlt
      have : 2 * (a' % c') * c < c' * c := Nat.mul_lt_mul_of_pos_right hlt hc
      have : 2 * (a % c) * c' < c * c' := by
        have e : 2 * (a % c) * c' = 2 * (a' % c') * c := by rw [Nat.mul_assoc, hr, Nat.mul_assoc]
        rw [e, Nat.mul_comm c c']; exact this
      exact Nat.lt_of_mul_lt_mul_right this
  have k2 : c < 2 * (a % c) ↔ c' < 2 * (a' % c') := by
    constructor
    · intro hlt
      have : c * c' < 2 * (a % c) * c' := Nat.mul_lt_mul_of_pos_right hlt hc'
      have : c' * c < 2 * (a' % c') * c := by
        have e : 2 * (a % c) * c' = 2 * (a' % c') * c := by rw [Nat.mul_assoc, hr, Nat.mul_assoc]
        rw [← e, Nat.mul_comm c' c]; exact this
      exact Nat.lt_of_mul_lt_mul_right this
    · intro hlt
      have : c' * c < 2 * (a' % c') * c := Nat.mul_lt_mul_of_pos_right hlt hc
      have : c * c' < 2 * (a % c) * c' := by
        have e : 2 * (a % c) * c' = 2 * (a' % c') * c := by rw [Nat.mul_assoc, hr, Nat.mul_assoc]
        rw [e, Nat.mul_comm c c']; exact this
      exact Nat.lt_of_mul_lt_mul_right this
  unfold rne
  simp only [hq, k1, k2]

/-- for even `n ≥ 1`: `rne a c ≥ n ↔ a/c ≥ n − 1/2` -/
theorem rne_ge_iff (a c n : Nat) (hc : 0 < c) (hn : n % 2 = 0) (hn1 : 1 ≤ n) :
    n ≤ rne a c ↔ (2 * n - 1) * c ≤ 2 * a := by
  have h := Nat.div_add_mod a c
  have hr := Nat.mod_lt a hc
  have e1 : c * (a / c) = (a / c) * c := Nat.mul_comm _ _
  have e0 : (2 * n - 1) * c = 2 * (n * c) - c := by
    rw [Nat.sub_mul, Nat.one_mul, Nat.mul_assoc]
  have hnc : c ≤ n * c := Nat.le_mul_of_pos_left c hn1
  rcases Nat.lt_trichotomy (a / c + 1) n with hq | hq | hq
  · -- q ≤ n - 2
    have hj' : (a / c + 2) * c ≤ n * c := Nat.mul_le_mul_right c (by omega)
    have e3 : (a / c + 2) * c = (a / c) * c + 2 * c := by ring
    have := rne_le_div_succ a c
    constructor
    · intro; omega
    · intro; omega
  · -- q = n - 1, odd
    have e3 : n * c = (a / c) * c + c := by rw [← hq]; exact Nat.succ_mul _ _
    rcases rne_cases a c with ⟨hm, hh⟩ | ⟨hm, hh⟩ <;> rw [hm] <;> constructor <;> intro <;> omega
  · -- q ≥ n
    have hj' : n * c ≤ (a / c) * c := Nat.mul_le_mul_right c (by omega)
    have := rne_ge_div a c
    constructor
    · intro; omega
    · intro; omega


/-! ## Bit patterns and magnitudes -/

theorem two_pow_pos' (n : Nat) : 0 < 2 ^ n := Nat.pos_of_ne_zero (by simp)

/-- encoding: `k·P + m` (with `P ≤ m ≤ 2P`, or `k = 0` and `m < P`) has magnitude `m·2^k` -/
theorem magOfBits_enc (F : Fmt) (k m : Nat) (hm : m ≤ 2 * 2 ^ F.mbits)
    (hk : 1 ≤ k → 2 ^ F.mbits ≤ m) : magOfBits F (k * 2 ^ F.mbits + m) = m * 2 ^ k := by
  have hP := two_pow_pos' F.mbits
  unfold magOfBits
  generalize hPdef : 2 ^ F.mbits = P at *
  rcases Nat.lt_or_ge m P with h1 | h1
  · -- m < P, hence k = 0
    have hk0 : k = 0 := by omega
    subst hk0
    simp [Nat.div_eq_of_lt h1, Nat.mod_eq_of_lt h1]
  · rcases Nat.lt_or_ge m (2 * P) with h2 | h2
    · have hd : (k * P + m) / P = k + 1 := by
        have : k * P + m = (m - P) + (k + 1) * P := by rw [Nat.succ_mul]; omega
        rw [this, Nat.add_mul_div_right _ _ hP, Nat.div_eq_of_lt (by omega)]; omega
      have hmod : (k * P + m) % P = m - P := by
        have : k * P + m = (m - P) + (k + 1) * P := by rw [Nat.succ_mul]; omega
        rw [this, Nat.add_mul_mod_self_right, Nat.mod_eq_of_lt (by omega)]
      simp only [hd, hmod]
      have : P + (m - P) = m := by omega
      simp [this]
    · have hm2 : m = 2 * P := by omega
      subst hm2
      have hd : (k * P + 2 * P) / P = k + 2 := by
        have : k * P + 2 * P = 0 + (k + 2) * P := by ring
        rw [this, Nat.add_mul_div_right _ _ hP]; simp
      have hmod : (k * P + 2 * P) % P = 0 := by
        have : k * P + 2 * P = 0 + (k + 2) * P := by ring
        rw [this, Nat.add_mul_mod_self_right]; simp
      simp only [hd, hmod]
      simp [Nat.pow_succ]; ring

/-- a finite magnitude is either below `P·2^k` or a multiple of `2^k` -/
theorem magOfBits_grid (F : Fmt) (u k : Nat) :
    magOfBits F u < 2 ^ F.mbits * 2 ^ k ∨ ∃ j, magOfBits F u = j * 2 ^ k := by
  have hP := two_pow_pos' F.mbits
  unfold magOfBits
  generalize hPdef : 2 ^ F.mbits = P at *
  have hM : u % P < P := Nat.mod_lt _ hP
  by_cases hE : u / P = 0
  · simp only [hE, if_true]
    rcases Nat.eq_zero_or_pos k with hk | hk
    · subst hk; right; exact ⟨u % P, by simp⟩
    · left
      have : P * 1 ≤ P * 2 ^ k := Nat.mul_le_mul_left P (two_pow_pos' k)
      omega
  · simp only [hE, if_false]
    rcases Nat.lt_or_ge (u / P - 1) k with hlt | hge
    · left
      have h1 : (P + u % P) * 2 ^ (u / P - 1) < (2 * P) * 2 ^ (u / P - 1) :=
        Nat.mul_lt_mul_of_pos_right (by omega) (two_pow_pos' _)
      have h2 : (2 * P) * 2 ^ (u / P - 1) = P * 2 ^ (u / P - 1 + 1) := by rw [Nat.pow_succ]; ring
      have h3 : 2 ^ (u / P - 1 + 1) ≤ 2 ^ k := Nat.pow_le_pow_right (by omega) (by omega)
      have h4 : P * 2 ^ (u / P - 1 + 1) ≤ P * 2 ^ k := Nat.mul_le_mul_left P h3
      omega
    · right
      refine ⟨(P + u % P) * 2 ^ (u / P - 1 - k), ?_⟩
      have : 2 ^ (u / P - 1) = 2 ^ (u / P - 1 - k) * 2 ^ k := by
        rw [← Nat.pow_add]; congr 1; omega
      rw [this]; ring

/-! ## `roundMag` -/

/-- the spacing exponent chosen by `roundMag` -/
def kOf (F : Fmt) (a b : Nat) : Nat := Nat.log2 (a / b) - F.mbits

theorem roundMag_eq (F : Fmt) (a b : Nat) :
    roundMag F a b = kOf F a b * 2 ^ F.mbits + rne a (b * 2 ^ kOf F a b) := rfl

theorem kOf_zero (F : Fmt) (a b : Nat) (h : kOf F a b = 0) : a / b < 2 * 2 ^ F.mbits := by
  unfold kOf at h
  have := @Nat.lt_log2_self (a / b)
  have h2 : 2 ^ ((a / b).log2 + 1) ≤ 2 ^ (F.mbits + 1) := Nat.pow_le_pow_right (by omega) (by omega)
  rw [Nat.pow_succ] at h2
  omega

theorem kOf_pos (F : Fmt) (a b : Nat) (h : 1 ≤ kOf F a b) :
    2 ^ F.mbits * 2 ^ kOf F a b ≤ a / b ∧ a / b < 2 * 2 ^ F.mbits * 2 ^ kOf F a b := by
  unfold kOf at h ⊢
  have hne : a / b ≠ 0 := by
    intro h0; rw [h0] at h; simp at h
  have h1 := Nat.log2_self_le hne
  have h2 := @Nat.lt_log2_self (a / b)
  have e : (a / b).log2 = F.mbits + ((a / b).log2 - F.mbits) := by omega
  constructor
  · rw [← Nat.pow_add, ← e]; exact h1
  · have : 2 * 2 ^ F.mbits * 2 ^ ((a / b).log2 - F.mbits) = 2 ^ ((a / b).log2 + 1) := by
      rw [Nat.mul_assoc, ← Nat.pow_add, ← e, Nat.pow_succ]; ring
    rw [this]; exact h2

/-- the rounded significand is at most `2P`, and at least `P` outside the subnormal range -/
theorem sig_bounds (F : Fmt) (a b : Nat) (_hb : 0 < b) :
    rne a (b * 2 ^ kOf F a b) ≤ 2 * 2 ^ F.mbits ∧
    (1 ≤ kOf F a b → 2 ^ F.mbits ≤ rne a (b * 2 ^ kOf F a b)) := by
  have hdd : a / (b * 2 ^ kOf F a b) = a / b / 2 ^ kOf F a b := (Nat.div_div_eq_div_mul a b _).symm
  have hup := rne_le_div_succ a (b * 2 ^ kOf F a b)
  have hlo := rne_ge_div a (b * 2 ^ kOf F a b)
  rcases Nat.eq_zero_or_pos (kOf F a b) with hk | hk
  · have := kOf_zero F a b hk
    rw [hk] at hdd hup hlo ⊢
    simp at hdd hup hlo ⊢
    omega
  · obtain ⟨h1, h2⟩ := kOf_pos F a b hk
    have hq1 : 2 ^ F.mbits ≤ a / b / 2 ^ kOf F a b := by
      rw [Nat.le_div_iff_mul_le (two_pow_pos' _)]; exact h1
    have hq2 : a / b / 2 ^ kOf F a b < 2 * 2 ^ F.mbits := by
      rw [Nat.div_lt_iff_lt_mul (two_pow_pos' _)]; exact h2
    constructor
    · omega
    · intro _; omega

/-- the magnitude of the rounded pattern is `significand · 2^k` -/
theorem mag_roundMag (F : Fmt) (a b : Nat) (hb : 0 < b) :
    magOfBits F (roundMag F a b) = rne a (b * 2 ^ kOf F a b) * 2 ^ kOf F a b := by
  obtain ⟨h1, h2⟩ := sig_bounds F a b hb
  rw [roundMag_eq]
  exact magOfBits_enc F _ _ h1 h2

/-- **Nearest.** No finite magnitude is closer to `a/b` than the rounded one. -/
theorem roundMag_nearest (F : Fmt) (a b u : Nat) (hb : 0 < b) :
    adiff (magOfBits F (roundMag F a b) * b) a ≤ adiff (magOfBits F u * b) a := by
  rw [mag_roundMag F a b hb]
  generalize hk : kOf F a b = k
  have hc : 0 < b * 2 ^ k := Nat.mul_pos hb (two_pow_pos' k)
  have e0 : rne a (b * 2 ^ k) * 2 ^ k * b = rne a (b * 2 ^ k) * (b * 2 ^ k) := by ring
  rw [e0]
  rcases magOfBits_grid F u k with hlt | ⟨j, hj⟩
  · -- below the binade: k ≥ 1 and P·2^k·b ≤ a
    rcases Nat.eq_zero_or_pos k with hk0 | hkpos
    · -- k = 0: every magnitude is on the grid
      subst hk0
      have := rne_nearest a (b * 2 ^ 0) (magOfBits F u) hc
      simpa using this
    · have hkp : 1 ≤ kOf F a b := by omega
      obtain ⟨h1, _⟩ := kOf_pos F a b hkp
      rw [hk] at h1
      have h3 : 2 ^ F.mbits * 2 ^ k * b ≤ a := by
        have := (Nat.le_div_iff_mul_le hb).1 h1
        exact this
      have hn := rne_nearest a (b * 2 ^ k) (2 ^ F.mbits) hc
      have e1 : 2 ^ F.mbits * (b * 2 ^ k) = 2 ^ F.mbits * 2 ^ k * b := by ring
      rw [e1] at hn
      have h4 : magOfBits F u * b < 2 ^ F.mbits * 2 ^ k * b := Nat.mul_lt_mul_of_pos_right hlt hb
      unfold adiff at hn ⊢
      omega
  · rw [hj]
    have e1 : j * 2 ^ k * b = j * (b * 2 ^ k) := by ring
    rw [e1]
    exact rne_nearest a (b * 2 ^ k) j hc

/-- **Ties to even.** Another finite magnitude at the same distance forces an even pattern. -/
theorem roundMag_tie_even (F : Fmt) (a b u : Nat) (hb : 0 < b) (hmb : 1 ≤ F.mbits)
    (hne : magOfBits F u ≠ magOfBits F (roundMag F a b))
    (hd : adiff (magOfBits F u * b) a = adiff (magOfBits F (roundMag F a b) * b) a) :
    roundMag F a b % 2 = 0 := by
  have hPeven : 2 ^ F.mbits % 2 = 0 := by
    obtain ⟨n, hn⟩ : ∃ n, F.mbits = n + 1 := ⟨F.mbits - 1, by omega⟩
    rw [hn, Nat.pow_succ]; omega
  rw [mag_roundMag F a b hb] at hne hd
  rw [roundMag_eq]
  generalize hk : kOf F a b = k at *
  have hc : 0 < b * 2 ^ k := Nat.mul_pos hb (two_pow_pos' k)
  have e0 : rne a (b * 2 ^ k) * 2 ^ k * b = rne a (b * 2 ^ k) * (b * 2 ^ k) := by ring
  rw [e0] at hd
  have hm : rne a (b * 2 ^ k) % 2 = 0 := by
    rcases magOfBits_grid F u k with hlt | ⟨j, hj⟩
    · rcases Nat.eq_zero_or_pos k with hk0 | hkpos
      · subst hk0
        have hj : magOfBits F u ≠ rne a (b * 2 ^ 0) := by simpa using hne
        have := rne_tie_even a (b * 2 ^ 0) (magOfBits F u) hc hj (by simpa using hd)
        exact this
      · exfalso
        have hkp : 1 ≤ kOf F a b := by omega
        obtain ⟨h1, _⟩ := kOf_pos F a b hkp
        rw [hk] at h1
        have h3 : 2 ^ F.mbits * 2 ^ k * b ≤ a := (Nat.le_div_iff_mul_le hb).1 h1
        have hn := rne_nearest a (b * 2 ^ k) (2 ^ F.mbits) hc
        have e1 : 2 ^ F.mbits * (b * 2 ^ k) = 2 ^ F.mbits * 2 ^ k * b := by ring
        rw [e1] at hn
        have h4 : magOfBits F u * b < 2 ^ F.mbits * 2 ^ k * b := Nat.mul_lt_mul_of_pos_right hlt hb
        unfold adiff at hn hd
        omega
    · rw [hj] at hne hd
      have e1 : j * 2 ^ k * b = j * (b * 2 ^ k) := by ring
      rw [e1] at hd
      have hjne : j ≠ rne a (b * 2 ^ k) := by
        intro h; apply hne; rw [h]
      exact rne_tie_even a (b * 2 ^ k) j hc hjne hd
  have : (k * 2 ^ F.mbits) % 2 = 0 := by rw [Nat.mul_mod, hPeven]; simp
  omega

/-- `roundMag` depends only on the rational `a/b` -/
theorem roundMag_congr (F : Fmt) (a b a' b' : Nat) (hb : 0 < b) (hb' : 0 < b') (h : a * b' = a' * b) :
    roundMag F a b = roundMag F a' b' := by
  have hq := div_congr a b a' b' hb hb' h
  have hk : kOf F a b = kOf F a' b' := by unfold kOf; rw [hq]
  rw [roundMag_eq, roundMag_eq, hk]
  congr 1
  apply rne_congr _ _ _ _ (Nat.mul_pos hb (two_pow_pos' _)) (Nat.mul_pos hb' (two_pow_pos' _))
  calc a * (b' * 2 ^ kOf F a' b') = a * b' * 2 ^ kOf F a' b' := by ring
    _ = a' * b * 2 ^ kOf F a' b' := by rw [h]
    _ = a' * (b * 2 ^ kOf F a' b') := by ring


/-- **Overflow.** With `2^ebits = K + 3`, the rounded pattern is not finite exactly when
    `a/b ≥ (2P − 1/2)·2^K`, the midpoint between the largest finite magnitude and `2P·2^K`. -/
theorem roundMag_overflow_iff (F : Fmt) (K a b : Nat) (hb : 0 < b) (hE : 2 ^ F.ebits = K + 3)
    (hK : 1 ≤ K) :
    F.infBits ≤ roundMag F a b ↔ (4 * 2 ^ F.mbits - 1) * 2 ^ K * b ≤ 2 * a := by
  have hP := two_pow_pos' F.mbits
  have hinf : F.infBits = (K + 2) * 2 ^ F.mbits := by unfold Fmt.infBits; rw [hE]; rfl
  obtain ⟨hm1, hm2⟩ := sig_bounds F a b hb
  rw [hinf, roundMag_eq]
  generalize hPdef : 2 ^ F.mbits = P at *
  generalize hk : kOf F a b = k at *
  generalize hm : rne a (b * 2 ^ k) = m at *
  have e4 : (4 * P - 1) * 2 ^ K * b = 4 * (P * 2 ^ K * b) - 2 ^ K * b := by
    rw [Nat.mul_assoc, Nat.sub_mul]; ring_nf
  have hKb : 0 < 2 ^ K * b := Nat.mul_pos (two_pow_pos' K) hb
  have hPKb : 2 ^ K * b ≤ P * 2 ^ K * b := by
    rw [Nat.mul_assoc]; exact Nat.le_mul_of_pos_left _ hP
  rcases Nat.lt_trichotomy k K with hlt | heq | hgt
  · -- k < K: finite, and a/b < P·2^K
    have hu : k * P + m < (K + 2) * P := by
      have : (k + 3) * P ≤ (K + 2) * P := Nat.mul_le_mul_right P (by omega)
      have e : (k + 3) * P = k * P + 3 * P := by ring
      omega
    have ha : a < P * 2 ^ K * b := by
      have hq : a / b < P * 2 ^ K := by
        rcases Nat.eq_zero_or_pos k with hk0 | hkpos
        · have h0 := kOf_zero F a b (by omega)
          rw [hPdef] at h0
          have : 2 * P ≤ P * 2 ^ K := by
            have : 2 ^ 1 ≤ 2 ^ K := Nat.pow_le_pow_right (by omega) hK
            calc 2 * P = P * 2 ^ 1 := by ring
              _ ≤ P * 2 ^ K := Nat.mul_le_mul_left P this
          omega
        · obtain ⟨_, h2⟩ := kOf_pos F a b (by omega)
          rw [hk, hPdef] at h2
          have : 2 ^ (k + 1) ≤ 2 ^ K := Nat.pow_le_pow_right (by omega) (by omega)
          have : 2 * P * 2 ^ k ≤ P * 2 ^ K := by
            calc 2 * P * 2 ^ k = P * 2 ^ (k + 1) := by rw [Nat.pow_succ]; ring
              _ ≤ P * 2 ^ K := Nat.mul_le_mul_left P this
          omega
      exact (Nat.div_lt_iff_lt_mul hb).1 hq
    constructor
    · intro h; omega
    · intro h; omega
  · -- k = K: overflow iff the significand rounds up to 2P
    subst heq
    have hc : 0 < b * 2 ^ k := Nat.mul_pos hb (two_pow_pos' k)
    have hiff := rne_ge_iff a (b * 2 ^ k) (2 * P) hc (by omega) (by omega)
    rw [hm] at hiff
    have e5 : (2 * (2 * P) - 1) * (b * 2 ^ k) = (4 * P - 1) * 2 ^ k * b := by
      have : 2 * (2 * P) = 4 * P := by ring
      rw [this]; ring
    rw [e5] at hiff
    have e6 : (k + 2) * P = k * P + 2 * P := by ring
    rw [e6, ← hiff]
    omega
  · -- k > K: overflow, and a/b ≥ P·2^(K+1)
    obtain ⟨h1, _⟩ := kOf_pos F a b (by omega)
    rw [hk, hPdef] at h1
    have hmP := hm2 (by omega)
    have hu : (K + 2) * P ≤ k * P + m := by
      have : (K + 1) * P ≤ k * P := Nat.mul_le_mul_right P (by omega)
      have e : (K + 2) * P = (K + 1) * P + P := by ring
      omega
    have ha : 2 * (P * 2 ^ K * b) ≤ a := by
      have : 2 ^ (K + 1) ≤ 2 ^ k := Nat.pow_le_pow_right (by omega) (by omega)
      have h3 : P * 2 ^ (K + 1) ≤ a / b := Nat.le_trans (Nat.mul_le_mul_left P this) h1
      have h4 := (Nat.le_div_iff_mul_le hb).1 h3
      have : P * 2 ^ (K + 1) * b = 2 * (P * 2 ^ K * b) := by rw [Nat.pow_succ]; ring
      omega
    constructor
    · intro _; omega
    · intro _; exact hu

/-- a representable rational is returned exactly -/
theorem roundMag_exact (F : Fmt) (a b j : Nat) (hb : 0 < b) (h : a = j * (b * 2 ^ kOf F a b)) :
    magOfBits F (roundMag F a b) * b = a := by
  rw [mag_roundMag F a b hb]
  generalize hk : kOf F a b = k at *
  have hc : 0 < b * 2 ^ k := Nat.mul_pos hb (two_pow_pos' _)
  subst h
  rw [rne_mul_exact j _ hc]
  ring


/-- **Relative error in the normal range.** If `a/b ≥ 2^mbits` (at least the least normal magnitude),
    the rounded magnitude is within a relative `2^-(mbits+1)` of `a/b`. -/
theorem roundMag_rel (F : Fmt) (a b : Nat) (hb : 0 < b) (hn : 2 ^ F.mbits * b ≤ a) :
    2 * 2 ^ F.mbits * adiff (magOfBits F (roundMag F a b) * b) a ≤ a := by
  rw [mag_roundMag F a b hb]
  have hc : 0 < b * 2 ^ kOf F a b := Nat.mul_pos hb (two_pow_pos' _)
  have hbr := rne_bracket a (b * 2 ^ kOf F a b) hc
  have e0 : rne a (b * 2 ^ kOf F a b) * 2 ^ kOf F a b * b
      = rne a (b * 2 ^ kOf F a b) * (b * 2 ^ kOf F a b) := by ring
  rw [e0]
  have hPc : 2 ^ F.mbits * (b * 2 ^ kOf F a b) ≤ a := by
    rcases Nat.eq_zero_or_pos (kOf F a b) with hk | hk
    · rw [hk]; simpa using hn
    · obtain ⟨h1, _⟩ := kOf_pos F a b hk
      have := (Nat.le_div_iff_mul_le hb).1 h1
      calc 2 ^ F.mbits * (b * 2 ^ kOf F a b) = 2 ^ F.mbits * 2 ^ kOf F a b * b := by ring
        _ ≤ a := this
  generalize adiff (rne a (b * 2 ^ kOf F a b) * (b * 2 ^ kOf F a b)) a = d at hbr ⊢
  calc 2 * 2 ^ F.mbits * d = 2 ^ F.mbits * (2 * d) := by ring
    _ ≤ 2 ^ F.mbits * (b * 2 ^ kOf F a b) := Nat.mul_le_mul_left _ hbr
    _ ≤ a := hPc

/-- zero is a finite magnitude, so the rounded magnitude never exceeds twice the exact value -/
theorem roundMag_le_twice (F : Fmt) (a b : Nat) (hb : 0 < b) :
    magOfBits F (roundMag F a b) * b ≤ 2 * a := by
  have h := roundMag_nearest F a b 0 hb
  have h0 : magOfBits F 0 = 0 := by
    unfold magOfBits; simp [Nat.zero_div]
  rw [h0] at h
  unfold adiff at h
  omega

/-- the spacing (ulp) at the rounded pattern dominates `a/b · 2^-(mbits+1)` -/
theorem ulp_lower (F : Fmt) (a b : Nat) (hb : 0 < b) :
    a < 2 * 2 ^ F.mbits * (ulpOfBits F (roundMag F a b) * b) := by
  have hP := two_pow_pos' F.mbits
  obtain ⟨hm1, hm2⟩ := sig_bounds F a b hb
  unfold ulpOfBits
  rw [roundMag_eq]
  generalize hk : kOf F a b = k at *
  generalize hm : rne a (b * 2 ^ k) = m at *
  -- a / b < 2P·2^k in every case
  have hq : a / b < 2 * 2 ^ F.mbits * 2 ^ k := by
    rcases Nat.eq_zero_or_pos k with h0 | hpos
    · have := kOf_zero F a b (by omega)
      subst h0; simpa using this
    · have := (kOf_pos F a b (by omega)).2
      rw [hk] at this; exact this
  have ha : a < 2 * 2 ^ F.mbits * 2 ^ k * b := (Nat.div_lt_iff_lt_mul hb).1 hq
  -- exponent field ≥ k + 1 when k ≥ 1, and the ulp is 2^(E-1) ≥ 2^k
  have hE : k ≤ (k * 2 ^ F.mbits + m) / 2 ^ F.mbits - 1 ∨ k = 0 := by
    rcases Nat.eq_zero_or_pos k with h0 | hpos
    · right; exact h0
    · left
      have hmP := hm2 (by omega)
      have : (k + 1) * 2 ^ F.mbits ≤ k * 2 ^ F.mbits + m := by rw [Nat.succ_mul]; omega
      have := (Nat.le_div_iff_mul_le hP).2 this
      omega
  have hpow : 2 ^ k ≤ 2 ^ ((k * 2 ^ F.mbits + m) / 2 ^ F.mbits - 1) := by
    rcases hE with h | h
    · exact Nat.pow_le_pow_right (by decide) h
    · subst h; exact two_pow_pos' _
  calc a < 2 * 2 ^ F.mbits * 2 ^ k * b := ha
    _ = 2 * 2 ^ F.mbits * (2 ^ k * b) := by ring
    _ ≤ 2 * 2 ^ F.mbits * (2 ^ ((k * 2 ^ F.mbits + m) / 2 ^ F.mbits - 1) * b) :=
        Nat.mul_le_mul_left _ (Nat.mul_le_mul_right b hpow)


/-- **Upper error bound in every range** (normal: relative `2^-(mbits+1)`; subnormal: half a unit):
    `M ≤ (1+ε)·a/b + 1/2` -/
theorem roundMag_upper (F : Fmt) (a b : Nat) (hb : 0 < b) :
    2 * 2 ^ F.mbits * (magOfBits F (roundMag F a b) * b) ≤ (2 * 2 ^ F.mbits + 1) * a + 2 ^ F.mbits * b := by
  rw [mag_roundMag F a b hb]
  have hc : 0 < b * 2 ^ kOf F a b := Nat.mul_pos hb (two_pow_pos' _)
  have hbr := rne_bracket a (b * 2 ^ kOf F a b) hc
  have e0 : rne a (b * 2 ^ kOf F a b) * 2 ^ kOf F a b * b
      = rne a (b * 2 ^ kOf F a b) * (b * 2 ^ kOf F a b) := by ring
  rw [e0]
  unfold adiff at hbr
  generalize hm : rne a (b * 2 ^ kOf F a b) * (b * 2 ^ kOf F a b) = mc at hbr ⊢
  generalize hP : 2 ^ F.mbits = P
  have e1 : (2 * P + 1) * a = 2 * P * a + a := by ring
  rcases Nat.eq_zero_or_pos (kOf F a b) with hk | hk
  · rw [hk] at hbr
    simp only [Nat.pow_zero, Nat.mul_one] at hbr
    -- 2(mc − a) ≤ b
    have h1 : 2 * mc ≤ 2 * a + b := by omega
    calc 2 * P * mc = P * (2 * mc) := by ring
      _ ≤ P * (2 * a + b) := Nat.mul_le_mul_left _ h1
      _ = 2 * P * a + P * b := by ring
      _ ≤ (2 * P + 1) * a + P * b := by omega
  · obtain ⟨h1, _⟩ := kOf_pos F a b hk
    have h2 := (Nat.le_div_iff_mul_le hb).1 h1
    have h3 : P * (b * 2 ^ kOf F a b) ≤ a := by
      rw [← hP]
      calc 2 ^ F.mbits * (b * 2 ^ kOf F a b) = 2 ^ F.mbits * 2 ^ kOf F a b * b := by ring
        _ ≤ a := h2
    generalize b * 2 ^ kOf F a b = c at hbr h3
    have h4 : 2 * mc ≤ 2 * a + c := by omega
    calc 2 * P * mc = P * (2 * mc) := by ring
      _ ≤ P * (2 * a + c) := Nat.mul_le_mul_left _ h4
      _ = 2 * P * a + P * c := by ring
      _ ≤ 2 * P * a + a := by omega
      _ ≤ (2 * P + 1) * a + P * b := by omega

end SJ.Proofs.Ieee
