import SJ.Model.Stream
import SJ.Proofs.EarliestMain
/-!
# Reading one value off the head of a stream

`runPrefix_complete`: for a derivable value `v` (meeting the side conditions) followed by any rest
`r` — whose first byte, if `v` is a number, cannot continue the number — `runPrefix` returns the
denoted value and the index just past `v`.

The bridge between `runPrefix` (which stops as soon as the top-level value is complete) and the
index-free `Feeds` of the completeness development is `runPrefix_feeds`.
-/
namespace SJ.Proofs.StreamValues
open SJ SJ.Gen SJ.Model.Machine SJ.Model.Stream SJ.Proofs.Machine SJ.Proofs.Complete
open SJ.Proofs.Earliest (step1_again feeds_snoc inv_of_feeds)
open SJ.Spec.Grammar (CST StrItem Ws Derives)

/-! ## `done` is absorbing -/

theorem step1_done_next (env : Env) (s : St) (v : JV) (hm : s.mode = .done v) (b : UInt8) (s' : St)
    (h : step1 env s b = .next s') : isWs b = true ∧ s' = s := by
  unfold step1 at h
  simp only [hm] at h
  split at h
  · rename_i hw; simp only [Step.next.injEq] at h; exact ⟨hw, h.symm⟩
  · simp at h

theorem step_done (env : Env) (s : St) (v : JV) (hm : s.mode = .done v) (b : UInt8) (s' : St)
    (h : step env s b = .ok s') : isWs b = true ∧ s' = s := by
  have hs : Settled s := by unfold Settled; rw [hm]; trivial
  rw [step_settled env s hs b] at h
  cases h1 : step1 env s b with
  | next s1 =>
    rw [h1] at h; simp only [Except.ok.injEq] at h; subst h
    exact step1_done_next env s v hm b s1 h1
  | err c a => rw [h1] at h; simp at h
  | again s1 => rw [h1] at h; simp at h

theorem feeds_done (env : Env) (s : St) (v : JV) (hm : s.mode = .done v) (xs : Bytes) (s' : St)
    (h : Feeds env s xs s') : s' = s ∧ ∀ c ∈ xs, isWs c = true := by
  induction xs with
  | nil => simp only [Feeds, feedS, Except.ok.injEq] at h; exact ⟨h.symm, by simp⟩
  | cons b bs ih =>
    unfold Feeds at h
    simp only [feedS] at h
    cases hst : step env s b with
    | ok s1 =>
      rw [hst] at h
      obtain ⟨hw, rfl⟩ := step_done env s v hm b s1 hst
      obtain ⟨h1, h2⟩ := ih h
      refine ⟨h1, ?_⟩
      intro c hc
      simp only [List.mem_cons] at hc
      rcases hc with rfl | hc
      · exact hw
      · exact h2 c hc
    | error e => rw [hst] at h; cases h

theorem getLast?_cons_ne (b : UInt8) (bs : Bytes) (hne : bs ≠ []) : (b :: bs).getLast? = bs.getLast? := by
  cases bs with
  | nil => exact absurd rfl hne
  | cons x xs => simp [List.getLast?_cons_cons]

theorem last_ws_of_all (bs : Bytes) (hne : bs ≠ []) (h : ∀ c ∈ bs, isWs c = true) :
    ∃ c, bs.getLast? = some c ∧ isWs c = true := by
  refine ⟨bs.getLast hne, List.getLast?_eq_some_getLast hne, h _ (List.getLast_mem hne)⟩

/-! ## `runPrefix` along a successful feed -/

theorem mode_cases (m : Mode) : (∃ v, m = .done v) ∨ ∀ v, m ≠ .done v := by
  cases m <;> first | exact Or.inl ⟨_, rfl⟩ | (right; intro v h; cases h)

/-- one successful step, where the value is not complete before the byte is consumed -/
theorem runPrefix_step (env : Env) (s s1 : St) (i : Nat) (b : UInt8) (bs : Bytes)
    (hst : step env s b = .ok s1)
    (hnd : ∀ s0, step1 env s b = .again s0 → ∀ v, s0.mode ≠ .done v) :
    (∀ v, s1.mode = .done v → runPrefix env s i (b :: bs) = .ok v (i + 1)) ∧
    ((∀ v, s1.mode ≠ .done v) → runPrefix env s i (b :: bs) = runPrefix env s1 (i + 1) bs) := by
  have key : ∀ s0 : St, step1 env s0 b = .next s1 →
      (∀ v, s1.mode = .done v →
        (match s1.mode with | .done v => POut.ok v (i + 1) | _ => runPrefix env s1 (i + 1) bs) = .ok v (i + 1)) ∧
      ((∀ v, s1.mode ≠ .done v) →
        (match s1.mode with | .done v => POut.ok v (i + 1) | _ => runPrefix env s1 (i + 1) bs)
          = runPrefix env s1 (i + 1) bs) := by
    intro s0 _
    constructor
    · intro v hm; rw [hm]
    · intro hm
      cases hmode : s1.mode <;> first | rfl | exact absurd hmode (hm _)
  unfold step at hst
  rw [runPrefix]
  split at hst
  · rename_i s' h1
    simp only [Except.ok.injEq] at hst; subst hst
    simp only [h1]
    exact key s h1
  · simp at hst
  · rename_i s0 h1
    have h0 := hnd s0 h1
    simp only [h1]
    have hskip : ∀ (x y : POut), (match s0.mode with | .done v => x | _ => y) = y := by
      intro x y
      cases hmode : s0.mode <;> first | rfl | exact absurd hmode (h0 _)
    split at hst
    · rename_i s'' h2
      simp only [Except.ok.injEq] at hst; subst hst
      have := key s0 h2
      cases hmode : s0.mode with
      | done v => exact absurd hmode (h0 v)
      | _ => simp only [h2]; exact this
    · simp at hst
    · simp at hst

theorem runPrefix_feeds (env : Env) (xs : Bytes) :
    ∀ (s s' : St) (i : Nat) (r : Bytes), Feeds env s xs s' → (∀ v, s.mode ≠ .done v) →
      ((∀ v, s'.mode ≠ .done v) ∨ ∀ c, xs.getLast? = some c → isWs c = false) →
      (∀ v, s'.mode = .done v → runPrefix env s i (xs ++ r) = .ok v (i + xs.length)) ∧
      ((∀ v, s'.mode ≠ .done v) → runPrefix env s i (xs ++ r) = runPrefix env s' (i + xs.length) r) := by
  induction xs with
  | nil =>
    intro s s' i r hf hs _
    simp only [Feeds, feedS, Except.ok.injEq] at hf; subst hf
    exact ⟨fun v hm => absurd hm (hs v), fun _ => rfl⟩
  | cons b bs ih =>
    intro s s' i r hf hs hlast
    unfold Feeds at hf
    simp only [feedS] at hf
    cases hst : step env s b with
    | error e => rw [hst] at hf; cases hf
    | ok s1 =>
      rw [hst] at hf
      have hf' : Feeds env s1 bs s' := hf
      -- if `s1` is done, everything after is whitespace and `s' = s1`
      have hdone : ∀ v, s1.mode = .done v → bs = [] ∧ s' = s1 := by
        intro v hm
        obtain ⟨e1, hall⟩ := feeds_done env s1 v hm bs s' hf'
        refine ⟨?_, e1⟩
        by_cases hne : bs = []
        · exact hne
        · exfalso
          obtain ⟨c, hc, hw⟩ := last_ws_of_all bs hne hall
          rcases hlast with h | h
          · exact h v (e1 ▸ hm)
          · have := h c (by rw [getLast?_cons_ne b bs hne]; exact hc)
            rw [hw] at this; cases this
      have hnd : ∀ s0, step1 env s b = .again s0 → ∀ v, s0.mode ≠ .done v := by
        intro s0 h0 v hm
        -- then `b` is whitespace consumed by the done state, which stays done to the end
        have h1 := hst
        unfold step at h1
        simp only [h0] at h1
        cases h2 : step1 env s0 b with
        | next s'' =>
          simp only [h2, Except.ok.injEq] at h1; subst h1
          obtain ⟨hw, e⟩ := step1_done_next env s0 v hm b _ h2
          have hm1 : s''.mode = .done v := by rw [e]; exact hm
          obtain ⟨hbs, e1⟩ := hdone v hm1
          rcases hlast with h | h
          · exact h v (e1 ▸ hm1)
          · subst hbs
            have := h b (by simp)
            rw [hw] at this; cases this
        | err c a => simp [h2] at h1
        | again _ => simp [h2] at h1
      obtain ⟨hA, hB⟩ := runPrefix_step env s s1 i b (bs ++ r) hst hnd
      rcases mode_cases s1.mode with ⟨v1, hm⟩ | hm'
      · obtain ⟨rfl, rfl⟩ := hdone v1 hm
        refine ⟨fun v hv => ?_, fun hv => absurd hm (hv v1)⟩
        rw [hm] at hv; cases hv
        simpa using hA v1 hm
      · have hlast' : (∀ v, s'.mode ≠ .done v) ∨ ∀ c, bs.getLast? = some c → isWs c = false := by
          rcases hlast with h | h
          · exact Or.inl h
          · refine Or.inr (fun c hc => h c ?_)
            have hne : bs ≠ [] := by rintro rfl; simp at hc
            rw [getLast?_cons_ne b bs hne]; exact hc
        obtain ⟨ihA, ihB⟩ := ih s1 s' (i + 1) r hf' hm' hlast'
        have hidx : i + 1 + bs.length = i + (b :: bs).length := by simp only [List.length_cons]; omega
        rw [List.cons_append, hB hm', ← hidx]
        exact ⟨ihA, ihB⟩

/-! ## first and last byte of a value -/

def isOpener (b : UInt8) : Bool :=
  b == 0x6e || b == 0x74 || b == 0x66 || b == 0x22 || b == 0x5b || b == 0x7b

theorem last_snoc (xs : Bytes) (c : UInt8) : (xs ++ [c]).getLast? = some c := by simp

/-- a value that is not a number starts with `n t f " [ {` and does not end in whitespace -/
theorem derives_shape {v : Bytes} {t : CST} (h : Derives v t) :
    (∃ p, t = .num p) ∨
    (∃ b c, v.head? = some b ∧ isOpener b = true ∧ v.getLast? = some c ∧ isWs c = false) := by
  cases h with
  | num p _ => exact Or.inl ⟨p, rfl⟩
  | null => exact Or.inr ⟨0x6e, 0x6c, rfl, by decide, rfl, by decide⟩
  | true_ => exact Or.inr ⟨0x74, 0x65, rfl, by decide, rfl, by decide⟩
  | false_ => exact Or.inr ⟨0x66, 0x65, rfl, by decide, rfl, by decide⟩
  | str items _ => exact Or.inr ⟨0x22, 0x22, by simp [Spec.Grammar.strBytes], by decide, last_snoc _ _, by decide⟩
  | arrEmpty w _ => exact Or.inr ⟨0x5b, 0x5d, by simp, by decide, last_snoc _ _, by decide⟩
  | arr w₁ body w₂ xs _ _ _ _ => exact Or.inr ⟨0x5b, 0x5d, by simp, by decide, last_snoc _ _, by decide⟩
  | objEmpty w _ => exact Or.inr ⟨0x7b, 0x7d, by simp, by decide, last_snoc _ _, by decide⟩
  | obj w₁ body w₂ ms _ _ _ _ => exact Or.inr ⟨0x7b, 0x7d, by simp, by decide, last_snoc _ _, by decide⟩

/-- a number literal starts with `-` or a digit -/
theorem num_head (p : Spec.Grammar.NumParts) (hwf : p.WF = true) :
    ∃ b r, p.bytes = b :: r ∧ (b = 0x2d ∨ isDigit b = true) := by
  obtain ⟨minus, int, frac, exp⟩ := p
  simp only [Spec.Grammar.NumParts.WF, Bool.and_eq_true] at hwf
  have hi := int_shape int hwf.1.1
  cases minus with
  | true => exact ⟨0x2d, int ++ frac ++ exp, by simp [Spec.Grammar.NumParts.bytes], Or.inl rfl⟩
  | false =>
    rcases hi with rfl | ⟨d, ds, rfl, hd, _, _⟩
    · exact ⟨0x30, frac ++ exp, by simp [Spec.Grammar.NumParts.bytes], Or.inr (by decide)⟩
    · exact ⟨d, ds ++ frac ++ exp, by simp [Spec.Grammar.NumParts.bytes], Or.inr hd⟩

theorem opener_not_ws (b : UInt8) (h : isOpener b = true) : isWs b = false := by
  simp only [isOpener, Bool.or_eq_true, beq_iff_eq] at h
  rcases h with ((((h | h) | h) | h) | h) | h <;> subst h <;> decide

theorem opener_not_num (b : UInt8) (h : isOpener b = true) : b ≠ 0x2d ∧ isDigit b = false := by
  simp only [isOpener, Bool.or_eq_true, beq_iff_eq] at h
  rcases h with ((((h | h) | h) | h) | h) | h <;> subst h <;> decide

theorem minus_not_ws : isWs 0x2d = false := by decide

/-- every value starts with a byte that is not whitespace -/
theorem derives_head {v : Bytes} {t : CST} (h : Derives v t) :
    ∃ b r, v = b :: r ∧ isWs b = false := by
  rcases derives_shape h with ⟨p, rfl⟩ | ⟨b, c, hb, ho, _, _⟩
  · cases h with
    | num p hwf =>
      obtain ⟨b, r, hbr, hb⟩ := num_head p hwf
      refine ⟨b, r, hbr, ?_⟩
      rcases hb with rfl | hb
      · exact minus_not_ws
      · exact digit_not_ws b hb
  · cases v with
    | nil => simp at hb
    | cons x r => simp only [List.head?_cons, Option.some.injEq] at hb; subst hb; exact ⟨x, r, rfl, opener_not_ws x ho⟩

/-! ## a number state at top level was entered by `-` or a digit -/

theorem num_state_head (env : Env) (v : Bytes) (n : NumSt) (hf : Feeds env init v ⟨.num n, []⟩) :
    ∃ b, v.head? = some b ∧ (isWs b = true ∨ b = 0x2d ∨ isDigit b = true) := by
  have hi := inv_of_feeds hf
  cases hi with
  | num _ _ pre _ hp hn hc =>
    have hw := Sound.ValPos.top_inv hp
    cases pre with
    | cons x xs =>
      refine ⟨x, by rw [hc]; rfl, Or.inl ?_⟩
      simp only [Ws, List.all_cons, Bool.and_eq_true] at hw
      rw [isWs_eq]; exact hw.1
    | nil =>
      obtain ⟨ep, hraw, hph⟩ := hn
      rw [hc, List.nil_append, ← hraw]
      simp only [Sound.numParts, Spec.Grammar.NumParts.bytes]
      by_cases hneg : n.neg = true
      · exact ⟨0x2d, by simp [hneg], Or.inr (Or.inl rfl)⟩
      · have hint : ∃ d ds, n.int.reverse = d :: ds ∧ isDigit d = true := by
          unfold Sound.PhaseInv at hph
          cases hphase : n.phase <;> simp only [hphase] at hph
          · exact absurd hph.1 hneg
          · exact ⟨0x30, [], by rw [hph.1]; rfl, by decide⟩
          · obtain ⟨d, ds, e, h19, _⟩ := hph.1
            refine ⟨d, ds, e, ?_⟩
            simp only [Spec.Grammar.isDigit19, Bool.and_eq_true, decide_eq_true_eq] at h19
            simp only [isDigit, Bool.and_eq_true, decide_eq_true_eq]
            exact ⟨UInt8.le_trans (by decide) h19.1, h19.2⟩
          all_goals
            rcases int_shape _ hph.1 with e | ⟨d, ds, e, hd, _, _⟩
            · exact ⟨0x30, [], e, by decide⟩
            · exact ⟨d, ds, e, hd⟩
        obtain ⟨d, ds, e, hd⟩ := hint
        exact ⟨d, by simp [hneg, e], Or.inr (Or.inr hd)⟩

/-! ## a complete number at top level, followed by a byte that cannot continue it -/

theorem complete_done_stack (fs : List Frame) (v val : JV) (h : (complete fs v).mode = .done val) :
    fs = [] ∧ v = val := by
  unfold complete at h
  split at h <;> simp at h
  exact ⟨rfl, h⟩

theorem runPrefix_pending_num (env : Env) (s t : St) (n : NumSt) (val : JV) (i : Nat) (r : Bytes)
    (hm : s.mode = .num n) (hg : GoodPhase n.phase) (he : endNumber env s n = .ok t)
    (ht : t.mode = .done val) (hr : ∀ d r', r = d :: r' → numCont d = false) :
    runPrefix env s i r = .ok val i := by
  cases r with
  | nil =>
    have hsett : Settled t := by unfold Settled; rw [ht]; trivial
    have hp : Pending env t s := Or.inr ⟨n, hm, hg, he⟩
    rw [runPrefix, hp.finish_eq hsett]
    simp [finishMode, ht]
  | cons d r' =>
    have h1 : step1 env s d = .again t := by
      unfold step1; simp only [hm]; exact stepNum_end env s n d t hg (hr d r' rfl) he
    rw [runPrefix]
    simp only [h1, ht]

/-! ## one value off the head of the input -/

/-- **reading one value**: the denoted value and the index just past it -/
theorem runPrefix_complete (env : Env) (v : Bytes) (t : CST) (hd : Derives v t) (hside : Side env 0 t)
    (r : Bytes) (p : Nat)
    (hfollow : (∃ q, t = .num q) → ∀ d r', r = d :: r' → numCont d = false) :
    ∃ val, Res env t val ∧ runPrefix env init p (v ++ r) = .ok val (p + v.length) := by
  have hinit : ∀ x, init.mode ≠ .done x := by intro x h; simp [init] at h
  rcases derives_shape hd with ⟨q, rfl⟩ | ⟨b, c, hb, ho, hc, hcw⟩
  · -- a number: stays pending until the next byte is seen (`scan_num` gives the state explicitly)
    cases hd with
    | num q hwf =>
      have hnum : env.tgt = .value → ∃ x, Spec.Canon.numOf (CanonM.specCfg env.cfg) q = some x := by
        intro hv
        have := (hside hv).2.2.2
        simp only [Spec.Canon.numbersInRange] at this
        exact Option.isSome_iff_exists.mp this
      obtain ⟨n, hf, hg, hparts⟩ := scan_num env .top [] q hwf (by
        intro eds hexp hv hap hz
        obtain ⟨x, hx⟩ := hnum hv
        exact no_eager_overflow (CanonM.specCfg env.cfg) q hwf hap x hx eds hexp hz)
      have hmode : ∀ x, (⟨.num n, []⟩ : St).mode ≠ .done x := by intro x h; cases h
      have hA := (runPrefix_feeds env q.bytes init ⟨.num n, []⟩ p r hf hinit (Or.inl hmode)).2 hmode
      have hend : ∃ val, Res env (.num q) val ∧
          endNumber env ⟨.num n, []⟩ n = .ok (complete [] val) := by
        rcases tgt_cases env with hv | hv
        · obtain ⟨x, hx⟩ := hnum hv
          refine ⟨.num x, ⟨fun _ => by simp [CanonM.canonM, hx], fun h => (tgt_absurd hv h).elim⟩, ?_⟩
          simp [endNumber, hv, numValue_eq env n q hparts x hx]
        · exact ⟨.null, ⟨fun h => (tgt_absurd h hv).elim, fun _ => rfl⟩, by simp [endNumber, hv]⟩
      obtain ⟨val, hres, he⟩ := hend
      refine ⟨val, hres, ?_⟩
      rw [hA]
      exact runPrefix_pending_num env _ _ n val _ r rfl hg he rfl (hfollow ⟨q, rfl⟩)
  · -- not a number: the last byte completes the value
    obtain ⟨val, s', hres, hf, hp⟩ := drive env hd [] .top hside
    rcases hp with rfl | ⟨n, hm, hg, he⟩
    · refine ⟨val, hres, ?_⟩
      have hlast : ∀ c', v.getLast? = some c' → isWs c' = false := by
        intro c' h'; rw [hc] at h'; cases h'; exact hcw
      exact (runPrefix_feeds env v init _ p r hf hinit (Or.inr hlast)).1 val rfl
    · exfalso
      obtain ⟨v', hv'⟩ := endNumber_ok env s' n _ he
      obtain ⟨hst, _⟩ := complete_done_stack s'.stack v' val (by rw [← hv']; rfl)
      obtain ⟨mode, stack⟩ := s'
      simp only at hm hst; subst hm; subst hst
      obtain ⟨b', hb', hcases⟩ := num_state_head env v n hf
      rw [hb] at hb'; cases hb'
      obtain ⟨h1, h2⟩ := opener_not_num b ho
      rcases hcases with h | h | h
      · rw [opener_not_ws b ho] at h; cases h
      · exact h1 h
      · rw [h2] at h; cases h

/-! ## streams: a concatenation of values separated by optional whitespace -/

/-- one value of a stream: its bytes, its syntax tree, the whitespace after it -/
structure Seg where
  v : Bytes
  t : CST
  w : Bytes

def segsBytes : List Seg → Bytes
  | [] => []
  | s :: r => s.v ++ s.w ++ segsBytes r

/-- the delimiter rule of `peek_end_of_value`: a bare scalar (number, `true`, `false`, `null`) is
    followed by the end of input or by one of `Gen.streamDelims`; `[…]`, `{…}`, `"…"` by anything -/
def DelimOK (v follow : Bytes) : Prop :=
  (∃ b r, v = b :: r ∧ isSelfDelineated b = true) ∨ follow = [] ∨
    ∃ d r, follow = d :: r ∧ isStreamDelim d = true

/-- a well-formed stream: every segment derives a value meeting the side conditions (none for
    skipped content), is followed by whitespace, and obeys the delimiter rule -/
def StreamOK (env : Env) : List Seg → Prop
  | [] => True
  | s :: r => Derives s.v s.t ∧ Side env 0 s.t ∧ Ws s.w ∧ DelimOK s.v (s.w ++ segsBytes r) ∧
      StreamOK env r

/-- `vals` are the values the segments denote (`canonM` of the tree; `null` for skipped content) -/
def ResAll (env : Env) : List Seg → List JV → Prop
  | [], [] => True
  | s :: r, v :: vs => Res env s.t v ∧ ResAll env r vs
  | _, _ => False

/-- the expected history: each value with the offset just past it, then `None` forever at the
    offset past the trailing whitespace (`base` = offset where the next segment starts) -/
def expected (base : Nat) : List Seg → List JV → Nat → List (Item × Nat)
  | s :: r, v :: vs, k => (.ok v, base + s.v.length) :: expected (base + s.v.length + s.w.length) r vs k
  | _, _, k => List.replicate k (.none, base)

theorem skipWs_ws (w r : Bytes) (i : Nat) (hw : Ws w)
    (hr : ∀ b r', r = b :: r' → isWs b = false) : skipWs (w ++ r) i = (r, i + w.length) := by
  induction w generalizing i with
  | nil =>
    cases r with
    | nil => rfl
    | cons b r' => simp [skipWs, hr b r' rfl]
  | cons x xs ih =>
    simp only [Ws, List.all_cons, Bool.and_eq_true] at hw
    have hx : isWs x = true := by rw [isWs_eq]; exact hw.1
    simp only [List.cons_append, skipWs, hx, if_true]
    rw [ih (i + 1) hw.2]
    simp only [List.length_cons]; congr 1; omega

theorem selfDelineated_not_num (b : UInt8) (h : isSelfDelineated b = true) :
    b ≠ 0x2d ∧ isDigit b = false := by
  simp only [isSelfDelineated, Gen.selfDelineated, List.contains_cons, List.contains_nil,
    Bool.or_false, Bool.or_eq_true, beq_iff_eq] at h
  rcases h with h | h | h <;> subst h <;> decide

theorem streamDelims_not_numCont : ∀ d ∈ Gen.streamDelims, numCont d = false := by decide

theorem streamDelim_not_numCont (d : UInt8) (h : isStreamDelim d = true) : numCont d = false := by
  simp only [isStreamDelim, List.contains_eq_mem, decide_eq_true_eq] at h
  exact streamDelims_not_numCont d h

/-- what `DelimOK` gives for a number -/
theorem delim_follow {v follow : Bytes} {t : CST} (hd : Derives v t) (hdel : DelimOK v follow) :
    (∃ q, t = .num q) → ∀ d r', follow = d :: r' → numCont d = false := by
  rintro ⟨q, rfl⟩ d r' hf
  cases hd with
  | num q hwf =>
    obtain ⟨b, r0, hbr, hb⟩ := num_head q hwf
    rcases hdel with ⟨b', r1, hb', hs⟩ | hnil | ⟨d', r1, hd', hs⟩
    · rw [hbr] at hb'
      simp only [List.cons.injEq] at hb'
      obtain ⟨rfl, _⟩ := hb'
      obtain ⟨h1, h2⟩ := selfDelineated_not_num b hs
      rcases hb with hb | hb
      · exact absurd hb h1
      · rw [h2] at hb; cases hb
    · rw [hnil] at hf; cases hf
    · rw [hd'] at hf
      simp only [List.cons.injEq] at hf
      obtain ⟨rfl, _⟩ := hf
      exact streamDelim_not_numCont _ hs

/-- one call of `next()` at a value -/
theorem next_value (env : Env) (w v r : Bytes) (t : CST) (P off : Nat) (hw : Ws w)
    (hd : Derives v t) (hside : Side env 0 t) (hdel : DelimOK v r) :
    ∃ val, Res env t val ∧
      next env ⟨w ++ (v ++ r), P, off, false⟩ =
        (.ok val, ⟨r, P + w.length + v.length, P + w.length + v.length, false⟩) := by
  obtain ⟨b, v', rfl, hb⟩ := derives_head hd
  obtain ⟨val, hres, hrun⟩ := runPrefix_complete env (b :: v') t hd hside r (P + w.length)
    (delim_follow hd hdel)
  refine ⟨val, hres, ?_⟩
  have hskip : skipWs (w ++ (b :: v' ++ r)) P = (b :: (v' ++ r), P + w.length) :=
    skipWs_ws w _ P hw (by intro b' r' h; simp only [List.cons_append, List.cons.injEq] at h; rw [← h.1]; exact hb)
  have hrun' : runPrefix env init (P + w.length) (b :: (v' ++ r)) = .ok val (P + w.length + (b :: v').length) := hrun
  have hdrop : (b :: (v' ++ r)).drop (P + w.length + (b :: v').length - (P + w.length)) = r := by
    have : P + w.length + (b :: v').length - (P + w.length) = (b :: v').length := by omega
    rw [this]
    exact List.drop_left' rfl
  unfold next
  simp only [hskip, hrun', hdrop, Bool.false_eq_true, if_false]
  by_cases hs : isSelfDelineated b = true
  · simp only [hs, if_true]
  · simp only [hs]
    rcases hdel with ⟨b', r1, hb', hs'⟩ | hnil | ⟨d', r1, hd', hs'⟩
    · simp only [List.cons.injEq] at hb'; rw [← hb'.1] at hs'; exact absurd hs' hs
    · subst hnil; rfl
    · subst hd'; simp [hs']

/-- `next()` at the end: only whitespace is left -/
theorem next_end (env : Env) (w : Bytes) (P off : Nat) (hw : Ws w) :
    next env ⟨w, P, off, false⟩ = (.none, ⟨[], P + w.length, P + w.length, false⟩) := by
  have hskip : skipWs w P = ([], P + w.length) := by
    have := skipWs_ws w [] P hw (by intro b r' h; cases h)
    simpa using this
  unfold next
  simp only [hskip, Bool.false_eq_true, if_false]

theorem history_end (env : Env) (k : Nat) : ∀ (w : Bytes) (P off : Nat), Ws w →
    history env k ⟨w, P, off, false⟩ = List.replicate k (.none, P + w.length) := by
  induction k with
  | zero => intro w P off _; rfl
  | succ k ih =>
    intro w P off hw
    simp only [history, next_end env w P off hw, List.replicate_succ]
    rw [ih [] (P + w.length) (P + w.length) (by simp [Ws])]
    simp

/-- **the history of a well-formed stream** -/
theorem history_values (env : Env) (k : Nat) : ∀ (segs : List Seg) (w0 : Bytes) (P off : Nat),
    Ws w0 → StreamOK env segs →
    ∃ vals, ResAll env segs vals ∧
      history env (segs.length + k) ⟨w0 ++ segsBytes segs, P, off, false⟩
        = expected (P + w0.length) segs vals k := by
  intro segs
  induction segs with
  | nil =>
    intro w0 P off hw _
    refine ⟨[], trivial, ?_⟩
    simp only [segsBytes, List.append_nil, List.length_nil, Nat.zero_add, expected]
    exact history_end env k w0 P off hw
  | cons s r ih =>
    intro w0 P off hw hok
    obtain ⟨hd, hside, hws, hdel, hrest⟩ := hok
    obtain ⟨val, hres, hnext⟩ := next_value env w0 s.v (s.w ++ segsBytes r) s.t P off hw hd hside hdel
    obtain ⟨vals, hvals, hhist⟩ := ih s.w (P + w0.length + s.v.length) (P + w0.length + s.v.length) hws hrest
    refine ⟨val :: vals, ⟨hres, hvals⟩, ?_⟩
    have hlen : (s :: r).length + k = (r.length + k) + 1 := by simp only [List.length_cons]; omega
    have hbytes : w0 ++ segsBytes (s :: r) = w0 ++ (s.v ++ (s.w ++ segsBytes r)) := by
      simp [segsBytes]
    rw [hlen, hbytes]
    simp only [history, hnext, expected]
    rw [hhist]

end SJ.Proofs.StreamValues
