import SJ.Proofs.EarliestGrammar
import SJ.Model.Stream
/-!
# Stream items: an Eof-classified error means the rest of the input is a proper prefix of a value (C12)

`runPrefix_eof_feeds`: an Eof-classified error of `runPrefix` (one item of a `StreamDeserializer` over `Value` /
`IgnoredAny`) arises exactly like one of `parseTop`: every byte of the rest was consumed and `finish` failed. With
`EarliestGrammar.eof_grammar_core_strong` the rest (minus the unchecked bytes of a `\u` group it ends in) is then a
proper prefix of a JSON text, and — a stream item starts on a non-whitespace byte — of a *value* (`value_prefix`).
Contrapositive: if the rest is not a proper prefix of any value, the item's error is Syntax-classified.
-/
namespace SJ.Proofs.StreamSyntax
open SJ SJ.Gen SJ.Model.Machine SJ.Model.Stream SJ.Proofs.Machine SJ.Proofs.Complete SJ.Proofs.EarliestGrammar
open SJ.Spec.Grammar (JsonText Derives Ws CST)

theorem runPrefix_eof_feeds (env : Env) (bs : Bytes) : ∀ (s : St) (i : Nat) (c : Code) (idx : Nat),
    runPrefix env s i bs = .err c idx → classify c = .eof →
    ∃ s', Feeds env s bs s' ∧ finish env s' = .error c := by
  induction bs with
  | nil =>
    intro s i c idx h hc
    unfold runPrefix at h
    split at h
    · cases h
    · rename_i c' hf; cases h; exact ⟨s, Feeds.nil _ _, hf⟩
  | cons b bs ih =>
    intro s i c idx h hc
    unfold runPrefix at h
    split at h
    · rename_i c' a' hs
      cases h
      have := (step1_err env _ b _ _ hs).2; rw [hc] at this; cases this
    · rename_i s' hs
      have hstep : step env s b = .ok s' := by unfold step; rw [hs]
      split at h
      · cases h
      · obtain ⟨s2, hf2, hfin⟩ := ih _ _ _ _ h hc
        exact ⟨s2, Feeds.cons hstep hf2, hfin⟩
    · rename_i s' hs
      split at h
      · cases h
      · split at h
        · rename_i c' a' hs2
          cases h
          have := (step1_err env _ b _ _ hs2).2; rw [hc] at this; cases this
        · rename_i s'' hs2
          have hstep : step env s b = .ok s'' := by unfold step; rw [hs]; simp only; rw [hs2]
          split at h
          · cases h
          · obtain ⟨s2, hf2, hfin⟩ := ih _ _ _ _ h hc
            exact ⟨s2, Feeds.cons hstep hf2, hfin⟩
        · cases h; cases hc

/-- what `skipWs` leaves starts on a byte that is not whitespace -/
theorem skipWs_head (rest : Bytes) (pos : Nat) (b : UInt8) (r : Bytes) (p : Nat)
    (h : skipWs rest pos = (b :: r, p)) : isWs b = false := by
  induction rest generalizing pos with
  | nil => simp [skipWs] at h
  | cons x xs ih =>
    simp only [skipWs] at h
    split at h
    · exact ih _ h
    · rename_i hx
      simp only [Prod.mk.injEq, List.cons.injEq] at h
      rw [← h.1.1]; simpa using hx

/-- a proper prefix of `value ws` that starts on a non-whitespace byte and is not itself `value ws` is a proper
    prefix of the value -/
theorem value_prefix (q ys : Bytes) (t : CST) (b : UInt8) (r : Bytes) (hq : q = b :: r) (hb : isWs b = false)
    (ht : JsonText (q ++ ys) t) (hnot : ∀ t', ¬ JsonText q t') :
    ∃ ys', ys' ≠ [] ∧ Derives (q ++ ys') t := by
  obtain ⟨w₁, v, w₂, he, hw₁, hw₂, hd⟩ := ht
  have hw1 : w₁ = [] := by
    cases w₁ with
    | nil => rfl
    | cons c w =>
      exfalso
      rw [hq] at he
      simp only [List.cons_append, List.cons.injEq] at he
      have hc : Spec.Grammar.isWs c = true := by
        have := hw₁; simp only [Ws, List.all_cons, Bool.and_eq_true] at this; exact this.1
      rw [← he.1, ← isWs_eq, hb] at hc; cases hc
  subst hw1
  simp only [List.nil_append] at he
  rcases List.append_eq_append_iff.mp he with ⟨a, hv, hys⟩ | ⟨a, hqv, hw⟩
  · -- `v = q ++ a`
    by_cases ha : a = []
    · subst ha
      simp only [List.append_nil] at hv
      exact absurd ⟨[], v, [], by simp [hv], by decide, by decide, hd⟩ (hnot t)
    · exact ⟨a, ha, hv ▸ hd⟩
  · -- `q = v ++ a` with `a` a prefix of the trailing whitespace
    exfalso
    have hwa : Ws a := by
      rw [hw] at hw₂
      simp only [Ws, List.all_append, Bool.and_eq_true] at hw₂
      exact hw₂.1
    exact hnot t ⟨[], v, a, by simp [hqv], by decide, hwa, hd⟩

/-- **an item that fails with an Eof-classified error**: the rest of the input `r` (it starts on a non-whitespace byte),
    minus the `k ≤ 3` unchecked bytes of a `\u` group it ends in, is a proper prefix of a value -/
theorem item_eof_prefix (env : Env) (b : UInt8) (r0 : Bytes) (p : Nat) (c : Code) (idx : Nat) (hb : isWs b = false)
    (h : runPrefix env init p (b :: r0) = .err c idx) (hc : classify c = .eof) :
    ∃ k ys t, (k = 0 ∨ (0 < k ∧ k ≤ 3 ∧ ∃ x, (b :: r0).take ((b :: r0).length - k) = x ++ [0x5c, 0x75])) ∧
      k ≤ (b :: r0).length ∧ ys ≠ [] ∧ Derives ((b :: r0).take ((b :: r0).length - k) ++ ys) t := by
  obtain ⟨s, hf, hfin⟩ := runPrefix_eof_feeds env _ _ _ _ _ h hc
  obtain ⟨k, ys, t, hk, hle, hne, ht, hnot⟩ := eof_grammar_core_strong env (b :: r0) s c hf hfin hc
  have hhead : ∃ r', (b :: r0).take ((b :: r0).length - k) = b :: r' := by
    rcases hk with rfl | ⟨h1, h2, x, hx⟩
    · exact ⟨r0, by simp⟩
    · have hpos : 0 < (b :: r0).length - k := by
        have := congrArg List.length hx
        simp only [List.length_take, List.length_append, List.length_cons, List.length_nil] at this ⊢
        omega
      obtain ⟨n, hn⟩ : ∃ n, (b :: r0).length - k = n + 1 := ⟨_, (Nat.succ_pred_eq_of_pos hpos).symm⟩
      exact ⟨r0.take n, by rw [hn]; rfl⟩
  obtain ⟨r', hr'⟩ := hhead
  obtain ⟨ys', hne', hd⟩ := value_prefix _ ys t b r' hr' hb ht hnot
  exact ⟨k, ys', t, hk, hle, hne', hd⟩

end SJ.Proofs.StreamSyntax
