import SJ.Model.StreamTyped
import SJ.Props.Typed
/-!
# Streams of typed items: the shape of one call, histories, the invariants of a stream state

`nextT_eq`: a call on a live stream is `afterDe` (what `next()` does with the result of `T::deserialize`) of
`deTyped` on the input after `parse_whitespace`. Every two-run argument (sources, fault / clean, cut input) is a
relation between two `deTyped` results pushed through `afterDe`.
-/
namespace SJ.Proofs.StreamTyped
open SJ SJ.Gen SJ.Model SJ.Model.Typed SJ.Model.StreamTyped SJ.Proofs.Typed SJ.Props.Typed
open SJ.Model.Stream (SS skipWs isSelfDelineated isStreamDelim start)

/-- what `next()` makes of the result of `T::deserialize` on an item that starts with byte `b` at `p` (`b :: r` unread) -/
def afterDe (flt : Bool) (b : UInt8) (r : Bytes) (p : Nat) : TOut → TItem × SS
  | .ok v rest' e =>
    if isSelfDelineated b then (.ok v, { rest := rest', pos := e, offset := e, failed := false })
    else
      match rest' with
      | [] => if flt then (.io, { rest := [], pos := e, offset := e, failed := true })
              else (.ok v, { rest := [], pos := e, offset := e, failed := false })
      | d :: tl =>
        if isStreamDelim d then (.ok v, { rest := d :: tl, pos := e, offset := e, failed := false })
        else (.err .TrailingCharacters (e + 1), { rest := d :: tl, pos := e, offset := e, failed := false })
  | .err c i => (.err c i, failAt (b :: r) p)
  | .data i => (.data (some i), failAt (b :: r) p)
  | .raw _ _ => (.data none, failAt (b :: r) p)
  | .io => (.io, failAt (b :: r) p)
  | .fuel => (.fuel, failAt (b :: r) p)

/-- the item deserialisation of one call -/
abbrev deItem (env : Env) (s : Schema) (r : Bytes) (p : Nat) : TOut := deTyped env (Schema.size s + 1) 0 s r p

theorem nextT_failed (env : Env) (s : Schema) (st : SS) (h : st.failed = true) : nextT env s st = (.none, st) := by
  unfold nextT; simp [h]

theorem nextT_ws (env : Env) (s : Schema) (st : SS) (hf : st.failed = false) (p : Nat) (h : skipWs st.rest st.pos = ([], p)) :
    nextT env s st = if env.flt then (.io, { rest := [], pos := p, offset := st.offset, failed := true })
                     else (.none, { rest := [], pos := p, offset := p, failed := false }) := by
  unfold nextT; simp [hf, h]

theorem nextT_item (env : Env) (s : Schema) (st : SS) (hf : st.failed = false) (b : UInt8) (r : Bytes) (p : Nat)
    (h : skipWs st.rest st.pos = (b :: r, p)) : nextT env s st = afterDe env.flt b r p (deItem env s (b :: r) p) := by
  unfold nextT
  simp only [hf, Bool.false_eq_true, if_false, h]
  unfold deItem
  cases deTyped env (Schema.size s + 1) 0 s (b :: r) p with
  | ok v rest' e =>
    simp only [afterDe]
    split
    · rfl
    · cases rest' with
      | nil => simp only
      | cons d tl => simp only
  | _ => rfl

theorem afterDe_ok_sd (flt : Bool) (b : UInt8) (r : Bytes) (p : Nat) (v : TVal) (rest' : Bytes) (e : Nat)
    (h : isSelfDelineated b = true) :
    afterDe flt b r p (.ok v rest' e) = (.ok v, { rest := rest', pos := e, offset := e, failed := false }) := by
  simp [afterDe, h]

theorem afterDe_ok_nil (flt : Bool) (b : UInt8) (r : Bytes) (p : Nat) (v : TVal) (e : Nat) (h : isSelfDelineated b = false) :
    afterDe flt b r p (.ok v [] e) =
      if flt then (.io, { rest := [], pos := e, offset := e, failed := true })
      else (.ok v, { rest := [], pos := e, offset := e, failed := false }) := by
  simp [afterDe, h]

theorem afterDe_ok_cons (flt : Bool) (b : UInt8) (r : Bytes) (p : Nat) (v : TVal) (d : UInt8) (tl : Bytes) (e : Nat)
    (h : isSelfDelineated b = false) :
    afterDe flt b r p (.ok v (d :: tl) e) =
      if isStreamDelim d then (.ok v, { rest := d :: tl, pos := e, offset := e, failed := false })
      else (.err .TrailingCharacters (e + 1), { rest := d :: tl, pos := e, offset := e, failed := false }) := by
  simp [afterDe, h]

/-! ## histories -/

theorem historyT_length (env : Env) (s : Schema) : ∀ (n : Nat) (st : SS), (historyT env s n st).length = n
  | 0, _ => rfl
  | n + 1, st => by simp [historyT, historyT_length env s n]

theorem historyT_add (env : Env) (s : Schema) : ∀ (a b : Nat) (st : SS),
    historyT env s (a + b) st = historyT env s a st ++ historyT env s b (stateAfterT env s a st)
  | 0, b, st => by simp [historyT, stateAfterT]
  | a + 1, b, st => by
    rw [show a + 1 + b = (a + b) + 1 by omega]
    simp only [historyT, stateAfterT, List.cons_append]
    rw [historyT_add env s a b]

theorem historyT_one (env : Env) (s : Schema) (st : SS) :
    historyT env s 1 st = [((nextT env s st).1, (nextT env s st).2.offset)] := by
  simp [historyT]

theorem stateAfterT_succ (env : Env) (s : Schema) : ∀ (j : Nat) (st : SS),
    stateAfterT env s (j + 1) st = (nextT env s (stateAfterT env s j st)).2
  | 0, st => rfl
  | j + 1, st => by
    have := stateAfterT_succ env s j (nextT env s st).2
    simp only [stateAfterT] at this ⊢
    exact this

/-- the `j`-th entry of a history: the item of the call made in the state after `j` calls, and the offset after it -/
theorem historyT_get (env : Env) (s : Schema) (n j : Nat) (st : SS) (hj : j < n) :
    (historyT env s n st)[j]? =
      some ((nextT env s (stateAfterT env s j st)).1, (stateAfterT env s (j + 1) st).offset) := by
  have h1 : n = j + (1 + (n - j - 1)) := by omega
  rw [h1, historyT_add, historyT_add, historyT_one]
  rw [List.getElem?_append_right (by rw [historyT_length]; exact Nat.le_refl _)]
  simp [historyT_length, stateAfterT_succ]

theorem historyT_failed (env : Env) (s : Schema) : ∀ (k : Nat) (st : SS), st.failed = true →
    historyT env s k st = List.replicate k (.none, st.offset)
  | 0, _, _ => rfl
  | k + 1, st, h => by
    simp only [historyT, nextT_failed env s st h, List.replicate_succ]
    rw [historyT_failed env s k st h]

/-! ## the invariant of a stream state reached from `start bs`

`N` = the length of the whole input. A live stream has `byte_offset()` = the index of its unread input, and the unread
input is the tail of the whole input from there. -/

def Live (N : Nat) (st : SS) : Prop := st.failed = false → (st.offset = st.pos ∧ st.pos + st.rest.length = N)

theorem live_start (bs : Bytes) : Live bs.length (start bs) := by
  intro _; simp [start]

/-- facts about one call on a live stream -/
structure CallFacts (N : Nat) (st : SS) (x : TItem × SS) : Prop where
  live : Live N x.2
  /-- `byte_offset()` never decreases, and never exceeds the input -/
  mono : st.offset ≤ x.2.offset
  le : x.2.failed = false → x.2.offset ≤ N
  /-- a value consumes at least one byte and leaves the stream alive -/
  ok : ∀ v, x.1 = .ok v → x.2.failed = false ∧ st.offset < x.2.offset ∧ x.2.rest.length < st.rest.length
  shrink : x.2.failed = false → x.2.rest.length ≤ st.rest.length
  nofuel : x.1 ≠ .fuel

theorem afterDe_facts (env : Env) (s : Schema) (N : Nat) (st : SS) (b : UInt8) (r : Bytes) (p : Nat)
    (hp : p + (b :: r).length = N) (ho : st.offset ≤ p) (hl : (b :: r).length ≤ st.rest.length) :
    CallFacts N st (afterDe env.flt b r p (deItem env s (b :: r) p)) := by
  have hprog := typed_progress env s (Schema.size s + 1) (by omega) 0 (b :: r) p
  have hfuel := typed_fuel_suffices env s (Schema.size s + 1) (by omega) 0 (b :: r) p
  unfold deItem
  cases hd : deTyped env (Schema.size s + 1) 0 s (b :: r) p with
  | ok v rest' e =>
    obtain ⟨h1, h2⟩ := hprog v rest' e hd
    have he : p < e := by omega
    have hN : e + rest'.length = N := by omega
    cases hsd : isSelfDelineated b with
    | true =>
      rw [afterDe_ok_sd _ _ _ _ _ _ _ hsd]
      refine ⟨fun _ => ⟨rfl, hN⟩, by simp only; omega, fun _ => by simp only; omega, ?_, fun _ => by simp only; omega, by simp⟩
      intro _ _; exact ⟨rfl, by simp only; omega, by simp only; omega⟩
    | false =>
      cases rest' with
      | nil =>
        rw [afterDe_ok_nil _ _ _ _ _ _ hsd]
        split
        · exact ⟨fun h => by simp at h, by simp only; omega, fun h => by simp at h, fun _ h => by simp at h, fun h => by simp at h, by simp⟩
        · refine ⟨fun _ => ⟨rfl, hN⟩, by simp only; omega, fun _ => by simp only; omega, ?_, fun _ => by simp only; omega, by simp⟩
          intro _ _; exact ⟨rfl, by simp only; omega, by simp only [List.length_nil]; omega⟩
      | cons d tl =>
        rw [afterDe_ok_cons _ _ _ _ _ _ _ _ hsd]
        split
        · refine ⟨fun _ => ⟨rfl, hN⟩, by simp only; omega, fun _ => by simp only; omega, ?_, fun _ => by simp only; omega, by simp⟩
          intro _ _; exact ⟨rfl, by simp only; omega, by simp only; omega⟩
        · exact ⟨fun _ => ⟨rfl, hN⟩, by simp only; omega, fun _ => by simp only; omega, fun _ h => by simp at h,
            fun _ => by simp only; omega, by simp⟩
  | err c i => exact ⟨fun h => by simp [afterDe, failAt] at h, ho, fun h => by simp [afterDe, failAt] at h, fun _ h => by simp [afterDe] at h,
      fun h => by simp [afterDe, failAt] at h, by simp [afterDe]⟩
  | data i => exact ⟨fun h => by simp [afterDe, failAt] at h, ho, fun h => by simp [afterDe, failAt] at h, fun _ h => by simp [afterDe] at h,
      fun h => by simp [afterDe, failAt] at h, by simp [afterDe]⟩
  | raw _ _ => exact ⟨fun h => by simp [afterDe, failAt] at h, ho, fun h => by simp [afterDe, failAt] at h, fun _ h => by simp [afterDe] at h,
      fun h => by simp [afterDe, failAt] at h, by simp [afterDe]⟩
  | io => exact ⟨fun h => by simp [afterDe, failAt] at h, ho, fun h => by simp [afterDe, failAt] at h, fun _ h => by simp [afterDe] at h,
      fun h => by simp [afterDe, failAt] at h, by simp [afterDe]⟩
  | fuel => exact absurd hd hfuel

theorem nextT_facts (env : Env) (s : Schema) (N : Nat) (st : SS) (hl : Live N st) : CallFacts N st (nextT env s st) := by
  cases hf : st.failed with
  | true =>
    rw [nextT_failed env s st hf]
    exact ⟨hl, Nat.le_refl _, fun h => by simp [hf] at h, fun _ h => by simp at h, fun _ => Nat.le_refl _, by simp⟩
  | false =>
    obtain ⟨h1, h2⟩ := hl hf
    have hs := skipWs_eq (rest := st.rest) (pos := st.pos) (r := (skipWs st.rest st.pos).1) (p := (skipWs st.rest st.pos).2) rfl
    have hge : st.pos ≤ (skipWs st.rest st.pos).2 := by omega
    cases hsk : skipWs st.rest st.pos with
    | mk r p =>
      rw [hsk] at hs hge
      simp only at hs hge
      cases r with
      | nil =>
        rw [nextT_ws env s st hf p hsk]
        simp only [List.length_nil] at hs
        split
        · exact ⟨fun h => by simp at h, Nat.le_refl _, fun h => by simp at h, fun _ h => by simp at h, fun h => by simp at h, by simp⟩
        · exact ⟨fun _ => ⟨rfl, by simp only [List.length_nil]; omega⟩, by simp only; omega, fun _ => by simp only; omega, fun _ h => by simp at h,
            fun _ => by simp, by simp⟩
      | cons b r =>
        rw [nextT_item env s st hf b r p hsk]
        exact afterDe_facts env s N st b r p (by omega) (by omega) hs.1

theorem live_stateAfterT (env : Env) (s : Schema) (N : Nat) : ∀ (j : Nat) (st : SS), Live N st → Live N (stateAfterT env s j st)
  | 0, _, h => h
  | j + 1, st, h => live_stateAfterT env s N j _ (nextT_facts env s N st h).live

/-- number of values in a history -/
def oks (h : List (TItem × Nat)) : Nat := (h.filter fun x => match x.1 with | .ok _ => true | _ => false).length

theorem oks_replicate_none (k o : Nat) : oks (List.replicate k (TItem.none, o)) = 0 := by
  induction k with
  | zero => rfl
  | succ k ih => simp [oks, List.replicate_succ]

theorem oks_le (env : Env) (s : Schema) (N : Nat) : ∀ (k : Nat) (st : SS), Live N st →
    oks (historyT env s k st) ≤ (if st.failed then 0 else st.rest.length)
  | 0, st, _ => by simp [historyT, oks]
  | k + 1, st, hl => by
    have hfacts := nextT_facts env s N st hl
    have ih := oks_le env s N k (nextT env s st).2 hfacts.live
    cases hf : st.failed with
    | true =>
      rw [historyT_failed env s (k + 1) st hf, oks_replicate_none]; simp
    | false =>
      simp only [historyT, Bool.false_eq_true, if_false]
      cases hx : (nextT env s st).1 with
      | ok v =>
        obtain ⟨h1, _, h3⟩ := hfacts.ok v hx
        rw [h1] at ih
        simp only [Bool.false_eq_true, if_false] at ih
        simp only [oks, List.filter_cons, hx, if_true, List.length_cons] at ih ⊢
        omega
      | _ =>
        have : oks (((nextT env s st).1, (nextT env s st).2.offset) :: historyT env s k (nextT env s st).2) =
            oks (historyT env s k (nextT env s st).2) := by simp [oks, List.filter_cons, hx]
        rw [hx] at this
        rw [this]
        cases hf' : (nextT env s st).2.failed with
        | true => rw [hf'] at ih; simp at ih; omega
        | false =>
          rw [hf'] at ih
          simp only [Bool.false_eq_true, if_false] at ih
          have := hfacts.shrink hf'
          omega

/-- a property of the item of every call made on a live stream holds of every item of a history -/
theorem historyT_forall (env : Env) (s : Schema) (N : Nat) (P : TItem → Prop)
    (hP : ∀ st, Live N st → P (nextT env s st).1) : ∀ (n : Nat) (st : SS), Live N st → ∀ x ∈ historyT env s n st, P x.1
  | 0, _, _ => fun _ h => by simp [historyT] at h
  | n + 1, st, hl => by
    intro x hx
    simp only [historyT, List.mem_cons] at hx
    rcases hx with rfl | hx
    · exact hP st hl
    · exact historyT_forall env s N P hP n _ (nextT_facts env s N st hl).live x hx

end SJ.Proofs.StreamTyped
