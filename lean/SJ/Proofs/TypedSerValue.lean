import SJ.Proofs.TypedAgreeAll
import SJ.Proofs.TypedSerImage
/-!
# `from_value(to_value(x)) = x` on the typed universe: `fromValue s (valueOf s v) = ok v` for well-formed `v`
-/
set_option linter.unusedSectionVars false
set_option linter.unusedVariables false

namespace SJ.Proofs.TypedSer
open SJ SJ.Model SJ.Model.TypedSer SJ.Model.Typed SJ.Proofs.Typed
open SJ.Model.FromValue (fromValue)

/-! ## chars -/

theorem utf8Chars_utf8 (c : Nat) (h : isScalar c = true) : FromValue.utf8Chars (Spec.Denote.utf8 c) = [c] := by
  have hc : c < 0x110000 := by
    simp only [isScalar, Bool.or_eq_true, Bool.and_eq_true, decide_eq_true_eq] at h
    omega
  unfold Spec.Denote.utf8
  split
  · rename_i h1
    simp [FromValue.utf8Chars, UInt8.toNat_ofNat']
    omega
  · split
    · rename_i h1 h2
      have e1 : (UInt8.ofNat (0xC0 + c / 64)).toNat = 0xC0 + c / 64 := by simp [UInt8.toNat_ofNat']; omega
      have e2 : (UInt8.ofNat (0x80 + c % 64)).toNat = 0x80 + c % 64 := by simp [UInt8.toNat_ofNat']; omega
      simp only [FromValue.utf8Chars, e1, e2]
      have : ¬ (0xC0 + c / 64 < 0x80) := by omega
      have : 0xC0 + c / 64 < 0xE0 := by omega
      simp [*]
      omega
    · split
      · rename_i h1 h2 h3
        have e1 : (UInt8.ofNat (0xE0 + c / 4096)).toNat = 0xE0 + c / 4096 := by simp [UInt8.toNat_ofNat']; omega
        have e2 : (UInt8.ofNat (0x80 + c / 64 % 64)).toNat = 0x80 + c / 64 % 64 := by simp [UInt8.toNat_ofNat']; omega
        have e3 : (UInt8.ofNat (0x80 + c % 64)).toNat = 0x80 + c % 64 := by simp [UInt8.toNat_ofNat']; omega
        simp only [FromValue.utf8Chars, e1, e2, e3]
        have : ¬ (0xE0 + c / 4096 < 0x80) := by omega
        have : ¬ (0xE0 + c / 4096 < 0xE0) := by omega
        have : 0xE0 + c / 4096 < 0xF0 := by omega
        simp [*]
        omega
      · rename_i h1 h2 h3
        have e1 : (UInt8.ofNat (0xF0 + c / 262144)).toNat = 0xF0 + c / 262144 := by simp [UInt8.toNat_ofNat']; omega
        have e2 : (UInt8.ofNat (0x80 + c / 4096 % 64)).toNat = 0x80 + c / 4096 % 64 := by simp [UInt8.toNat_ofNat']; omega
        have e3 : (UInt8.ofNat (0x80 + c / 64 % 64)).toNat = 0x80 + c / 64 % 64 := by simp [UInt8.toNat_ofNat']; omega
        have e4 : (UInt8.ofNat (0x80 + c % 64)).toNat = 0x80 + c % 64 := by simp [UInt8.toNat_ofNat']; omega
        simp only [FromValue.utf8Chars, e1, e2, e3, e4]
        have : ¬ (0xF0 + c / 262144 < 0x80) := by omega
        have : ¬ (0xF0 + c / 262144 < 0xE0) := by omega
        have : ¬ (0xF0 + c / 262144 < 0xF0) := by omega
        simp [*]
        omega

theorem visitCharStr_utf8 (c : Nat) (h : isScalar c = true) : FromValue.visitCharStr (Spec.Denote.utf8 c) = .ok (.char c) := by
  simp [FromValue.visitCharStr, utf8Chars_utf8 c h]

/-! ## names -/

theorem nameIndex_of_distinct : ∀ (ns : List Bytes) (i : Nat) (k : Bytes), distinctNames ns = true → ns[i]? = some k →
    FromValue.nameIndex ns k = some i
  | [], i, k, _, h => by simp at h
  | n :: r, 0, k, _, h => by simp at h; subst h; simp [FromValue.nameIndex]
  | n :: r, i + 1, k, hd, h => by
    simp only [distinctNames, Bool.and_eq_true, Bool.not_eq_true'] at hd
    simp only [List.getElem?_cons_succ] at h
    have hne : (n == k) = false := by
      cases hnk : n == k with
      | false => rfl
      | true =>
        have : n = k := by simpa using hnk
        subst this
        have := List.mem_of_getElem? h
        have hc : r.contains n = true := by simpa using this
        rw [hd.1] at hc; cases hc
    simp [FromValue.nameIndex, hne, nameIndex_of_distinct r i k hd.2 h]

/-! ## keys -/

theorem keyDe_keyText (k : KeyKind) (a : TVal) (hk : keyFrag k = true) (h : wfKey k a = true) :
    FromValue.keyDe k (Model.TypedSer.keyText k a) = .ok a := by
  cases k with
  | int w =>
    cases a with
    | int n =>
      simp only [wfKey] at h
      simp only [Model.TypedSer.keyText, FromValue.keyDe]
      by_cases hn : n < 0
      · have hshape : KeyShape (Spec.Number.decimal n) true (Spec.Number.natDigits n.natAbs) :=
          ⟨canon_natDigits _, by simp [Spec.Number.decimal, hn]⟩
        rw [keyInt_value_shape w _ _ _ hshape, SJ.Proofs.RoundTripNum.natOfDigits_natDigits]
        have h0 : n.natAbs ≠ 0 := by omega
        have e : (-(n.natAbs : Int)) = n := by omega
        simp [keySpec, h0, e, FromValue.visitInt, h]
      · have hshape : KeyShape (Spec.Number.decimal n) false (Spec.Number.natDigits n.natAbs) :=
          ⟨canon_natDigits _, by simp [Spec.Number.decimal, hn]⟩
        rw [keyInt_value_shape w _ _ _ hshape, SJ.Proofs.RoundTripNum.natOfDigits_natDigits]
        have e : ((n.natAbs : Nat) : Int) = n := by omega
        simp [keySpec, e, FromValue.visitInt, h]
    | _ => simp [wfKey] at h
  | string => cases a <;> simp_all [wfKey, Model.TypedSer.keyText, FromValue.keyDe]
  | bool =>
    cases a <;> simp_all [wfKey, Model.TypedSer.keyText, FromValue.keyDe]
    rename_i b
    cases b <;> simp [FromValue.strTrue, FromValue.strFalse]
  | char =>
    cases a <;> simp_all [wfKey, Model.TypedSer.keyText, FromValue.keyDe]
    exact visitCharStr_utf8 _ h
  | unitEnum names =>
    cases a with
    | variant i p =>
      simp only [wfKey, Bool.and_eq_true, decide_eq_true_eq, namesOK] at h
      obtain ⟨⟨hi, hp⟩, _, hdn⟩ := h
      cases p <;> simp at hp
      simp only [Model.TypedSer.keyText, FromValue.keyDe]
      have hget : names[i]? = some (names.getD i []) := by simp [List.getD, hi]
      rw [nameIndex_of_distinct names i _ hdn hget]
    | _ => simp [wfKey] at h

/-! ## loops -/

theorem seqAll_map (fv : JV → FromValue.R) (val : TVal → JV) : ∀ xs : List TVal, (∀ x ∈ xs, fv (val x) = .ok x) →
    FromValue.seqAll fv (xs.map val) = .ok (xs, [])
  | [], _ => rfl
  | x :: xs, h => by
    simp only [List.map_cons, FromValue.seqAll, h x (by simp)]
    rw [seqAll_map fv val xs fun y hy => h y (by simp [hy])]

theorem mapAll_map (fk : Bytes → FromValue.R) (fv : JV → FromValue.R) (kt : TVal → Bytes) (val : TVal → JV) :
    ∀ kvs : List (TVal × TVal), (∀ kv ∈ kvs, fk (kt kv.1) = .ok kv.1 ∧ fv (val kv.2) = .ok kv.2) →
    FromValue.mapAll fk fv (kvs.map fun kv => (kt kv.1, val kv.2)) = .ok kvs
  | [], _ => rfl
  | (a, b) :: kvs, h => by
    have := h (a, b) (by simp)
    simp only [List.map_cons, FromValue.mapAll, this.1, this.2]
    rw [mapAll_map fk fv kt val kvs fun y hy => h y (by simp [hy])]

theorem bytesOfInts_map : ∀ b : Bytes, FromValue.bytesOfInts (b.map fun x => TVal.int (x.toNat : Int)) = b
  | [] => rfl
  | x :: b => by simp [FromValue.bytesOfInts, bytesOfInts_map b]

/-! ## structs -/

variable (cfg : FromValue.Cfg) (hap : cfg.ap = false) (ext' : FromValue.Ext)

include hap in
theorem seqAll_bytes : ∀ b : Bytes, FromValue.seqAll (FromValue.deInt cfg .u8) (b.map fun x => JV.num (.pos x.toNat)) =
    .ok (b.map fun x => TVal.int (x.toNat : Int), [])
  | [] => rfl
  | x :: b => by
    have hx : IntTy.u8.inRange (x.toNat : Int) = true := by
      have := x.toNat_lt
      simp [IntTy.inRange, IntTy.lo, IntTy.hi, IntTy.signed, IntTy.bits]
      omega
    simp only [List.map_cons, FromValue.seqAll, FromValue.deInt, FromValue.numberInt, hap, Bool.false_eq_true, if_false,
      FromValue.visitInt, hx, if_true]
    rw [seqAll_bytes b]

/-- positionwise: every field value comes back from its `Value` -/
def FieldsRT : List (Bytes × Schema) → List TVal → Prop
  | (_, s) :: fs, x :: xs => fromValue cfg ext' s (valueOf s x) = .ok x ∧ FieldsRT fs xs
  | _, _ => True

theorem finishFields_some : ∀ (fs : List (Bytes × Schema)) (xs : List TVal), fs.length = xs.length →
    FromValue.finishFields fs (xs.map some) = .ok xs
  | [], [], _ => rfl
  | [], _ :: _, h => by simp at h
  | _ :: _, [], h => by simp at h
  | (n, s) :: fs, x :: xs, h => by
    simp only [FromValue.finishFields, List.map_cons, List.headD_cons, List.tail_cons]
    rw [finishFields_some fs xs (by simpa using h)]

theorem wfFields_length : ∀ (fs : List (Bytes × Schema)) (xs : List TVal), Model.TypedSer.wfFields fs xs = true → fs.length = xs.length
  | [], xs, h => by simp [Model.TypedSer.wfFields] at h; simp [h]
  | _ :: _, [], h => by simp [Model.TypedSer.wfFields] at h
  | (n, s) :: fs, x :: xs, h => by
    simp only [Model.TypedSer.wfFields, Bool.and_eq_true] at h
    simp [wfFields_length fs xs h.2]

theorem structLoop_fields (deny : Bool) : ∀ (suf : List (Bytes × Schema)) (pre : List (Bytes × Schema)) (xpre xsuf : List TVal),
    pre.length = xpre.length → suf.length = xsuf.length → FieldsRT cfg ext' suf xsuf →
    distinctNames (fieldNames (pre ++ suf)) = true →
    FromValue.structMapLoop (FromValue.fieldDe cfg ext' (pre ++ suf)) deny (valueFields suf xsuf)
      (xpre.map some ++ suf.map fun _ => none) = .ok ((xpre ++ xsuf).map some)
  | [], pre, xpre, xsuf, _, hl, _, _ => by
    cases xsuf with
    | nil => simp [valueFields, FromValue.structMapLoop]
    | cons _ _ => simp at hl
  | (n, s) :: suf, pre, xpre, [], _, hl, _, _ => by simp at hl
  | (n, s) :: suf, pre, xpre, x :: xsuf, hp, hl, hrt, hd => by
    simp only [valueFields, FromValue.structMapLoop]
    have hget : (fieldNames (pre ++ (n, s) :: suf))[pre.length]? = some n := by
      simp [fieldNames]
    have hni := nameIndex_of_distinct _ _ _ hd hget
    have hspec := fieldDe_spec cfg ext' n (valueOf s x) (pre ++ (n, s) :: suf)
    rw [hni] at hspec
    obtain ⟨n', s', hfi, hfd⟩ := hspec
    have : (pre ++ (n, s) :: suf)[pre.length]? = some (n, s) := by simp
    rw [this] at hfi
    cases hfi
    rw [hfd]
    simp only []
    have hslot : (xpre.map some ++ ((n, s) :: suf).map fun _ => (none : Option TVal)).getD pre.length none = none := by
      rw [hp]
      simp [List.getD]
    rw [hslot]
    simp only [hrt.1]
    have hset : (xpre.map some ++ ((n, s) :: suf).map fun _ => (none : Option TVal)).set pre.length (some x) =
        (xpre ++ [x]).map some ++ suf.map fun _ => none := by
      rw [hp]
      simp [List.set_append]
    rw [hset]
    have := structLoop_fields deny suf (pre ++ [(n, s)]) (xpre ++ [x]) xsuf (by simp [hp]) (by simpa using hl) hrt.2
      (by simpa [List.append_assoc] using hd)
    simp only [List.append_assoc, List.singleton_append] at this
    exact this

theorem structFromMap_fields (fs : List (Bytes × Schema)) (deny : Bool) (xs : List TVal) (hn : namesOK (fs.map (·.1)) = true)
    (hw : Model.TypedSer.wfFields fs xs = true) (hrt : FieldsRT cfg ext' fs xs) :
    FromValue.structFromMap (FromValue.fieldDe cfg ext' fs) fs deny (valueFields fs xs) = .ok (.struct_ xs) := by
  have hlen := wfFields_length fs xs hw
  have hd : distinctNames (fieldNames fs) = true := by
    simp only [namesOK, Bool.and_eq_true] at hn; exact hn.2
  have := structLoop_fields cfg ext' deny fs [] [] xs rfl hlen hrt (by simpa using hd)
  simp only [List.nil_append, List.map_nil] at this
  unfold FromValue.structFromMap
  rw [this]
  simp only [finishFields_some fs xs hlen]
  rfl

/-! ## enums -/

theorem wfVariant_get : ∀ (vs : List (Bytes × VariantShape)) (i : Nat) (p : TVal), wfVariant vs i p = true →
    ∃ n sh, vs[i]? = some (n, sh) ∧ wfShape sh p = true ∧ valueVariant vs i p = valueShape n sh p
  | [], i, p, h => by simp [wfVariant] at h
  | (n, sh) :: vs, 0, p, h => by simp only [wfVariant] at h; exact ⟨n, sh, rfl, h, rfl⟩
  | (n, sh) :: vs, i + 1, p, h => by
    simp only [wfVariant] at h
    obtain ⟨n', sh', h1, h2, h3⟩ := wfVariant_get vs i p h
    exact ⟨n', sh', by simpa using h1, h2, by simpa [valueVariant] using h3⟩

theorem wfTuple_length : ∀ (ss : List Schema) (xs : List TVal), wfTuple ss xs = true → ss.length = xs.length
  | [], xs, h => by simp [wfTuple] at h; simp [h]
  | _ :: _, [], h => by simp [wfTuple] at h
  | s :: ss, x :: xs, h => by
    simp only [wfTuple, Bool.and_eq_true] at h
    simp [wfTuple_length ss xs h.2]

/-- the payload of a variant comes back -/
def ShapeRT : VariantShape → TVal → Prop
  | .unit, _ => True
  | .newtype s, p => fromValue cfg ext' s (valueOf s p) = .ok p
  | .tuple ss, p => ∀ xs, p = .seq xs → FromValue.tupleSeq cfg ext' ss (valueTuple ss xs) = .ok (xs, [])
  | .struct_ fs, p => ∀ xs, p = .struct_ xs → FieldsRT cfg ext' fs xs

theorem valueTuple_ne_nil : ∀ (ss : List Schema) (xs : List TVal), ss ≠ [] → wfTuple ss xs = true → valueTuple ss xs ≠ []
  | [], _, h, _ => absurd rfl h
  | s :: ss, [], _, hw => by simp [wfTuple] at hw
  | s :: ss, x :: xs, _, _ => by simp [valueTuple]

theorem fromValue_variant (vs : List (Bytes × VariantShape)) (i : Nat) (p : TVal) (hn : namesOK (vs.map (·.1)) = true)
    (hw : wfVariant vs i p = true) (hfr : fragPVariants false vs = true)
    (hrt : ∀ n sh, vs[i]? = some (n, sh) → ShapeRT cfg ext' sh p) :
    fromValue cfg ext' (.enum_ vs) (valueVariant vs i p) = .ok (.variant i p) := by
  obtain ⟨n, sh, hget, hws, hval⟩ := wfVariant_get vs i p hw
  have hd : distinctNames (variantNames vs) = true := by
    simp only [namesOK, Bool.and_eq_true] at hn; exact hn.2
  have hni : FromValue.nameIndex (variantNames vs) n = some i :=
    nameIndex_of_distinct _ i n hd (by simp [variantNames, hget])
  have hsf := agreeFrag2_mem_variants vs n sh (List.mem_of_getElem? hget) hfr
  have hr := hrt n sh hget
  rw [hval]
  cases sh with
  | unit =>
    cases p <;> simp [wfShape] at hws
    simp [valueShape, fromValue, variantDe_spec, hni, hget, FromValue.shapeDe, Except.map]
  | newtype s =>
    simp only [ShapeRT] at hr
    simp [valueShape, fromValue, variantDe_spec, hni, hget, FromValue.shapeDe, hr, Except.map]
  | tuple ss =>
    cases p with
    | seq xs =>
      simp only [wfShape] at hws
      have hne : ss ≠ [] := by
        intro h; subst h; simp [fragPShape] at hsf
      have hvn := valueTuple_ne_nil ss xs hne hws
      have hr' := hr xs rfl
      have hemp : (valueTuple ss xs).isEmpty = false := by
        cases h : valueTuple ss xs with
        | nil => exact absurd h hvn
        | cons _ _ => rfl
      simp [valueShape, fromValue, variantDe_spec, hni, hget, FromValue.shapeDe, hemp, hr', FromValue.visitArray, Except.map]
    | _ => simp [wfShape] at hws
  | struct_ fs =>
    cases p with
    | struct_ xs =>
      simp only [wfShape, Bool.and_eq_true] at hws
      have := structFromMap_fields cfg ext' fs false xs hws.1 hws.2 (hr xs rfl)
      simp [valueShape, fromValue, variantDe_spec, hni, hget, FromValue.shapeDe, this, Except.map]
    | _ => simp [wfShape] at hws

/-! ## the main statement -/

include hap in
mutual
theorem fromValue_valueOf : ∀ (s : Schema) (v : TVal), fragP false s = true → wfTV s v = true →
    fromValue cfg ext' s (valueOf s v) = .ok v
  | .bool, v, _, h => by cases v <;> simp_all [wfTV, valueOf, fromValue]
  | .int w, v, _, h => by
    cases v with
    | int n =>
      simp only [wfTV] at h
      simp only [valueOf, intJV]
      split
      · simp [fromValue, FromValue.deInt, FromValue.numberInt, hap, FromValue.visitInt, h]
      · rename_i hn
        have : ((n.toNat : Nat) : Int) = n := by omega
        simp [fromValue, FromValue.deInt, FromValue.numberInt, hap, FromValue.visitInt, this, h]
    | _ => simp [wfTV] at h
  | .f64, v, _, h => by
    cases v <;> simp_all [wfTV, valueOf, fromValue, FromValue.numberF64]
  | .f32, v, hf, _ => by simp [fragP] at hf
  | .char, v, _, h => by
    cases v <;> simp_all [wfTV, valueOf, fromValue]
    exact visitCharStr_utf8 _ h
  | .string, v, _, h => by cases v <;> simp_all [wfTV, valueOf, fromValue]
  | .bytes, v, _, h => by
    cases v with
    | bytes b =>
      simp only [valueOf, fromValue]
      rw [seqAll_bytes cfg hap b]
      simp [FromValue.visitArray, bytesOfInts_map]
    | _ => simp [wfTV] at h
  | .option s, v, hf, h => by
    cases v with
    | none => simp [valueOf, fromValue]
    | some x =>
      simp only [wfTV, Bool.and_eq_true, Bool.not_eq_true'] at h
      have ih := fromValue_valueOf s x (by simpa [fragP] using hf) h.1
      simp only [valueOf]
      have hne : valueOf s x ≠ JV.null := by
        intro e
        have := h.2
        rw [e] at this
        exact absurd this (by decide)
      cases hv : valueOf s x with
      | null => exact absurd hv hne
      | _ => simp only [fromValue]; rw [← hv, ih]; rfl
    | _ => simp [wfTV] at h
  | .unit, v, _, h => by cases v <;> simp_all [wfTV, valueOf, fromValue]
  | .unitStruct, v, _, h => by cases v <;> simp_all [wfTV, valueOf, fromValue]
  | .newtype s, v, hf, h => by
    simp only [wfTV] at h
    simp only [valueOf, fromValue]
    exact fromValue_valueOf s v (by simpa [fragP] using hf) h
  | .seq s, v, hf, h => by
    cases v with
    | seq xs =>
      simp only [wfTV, List.all_eq_true] at h
      simp only [valueOf, fromValue]
      rw [seqAll_map (fromValue cfg ext' s) (valueOf s) xs fun x hx => fromValue_valueOf s x (by simpa [fragP] using hf) (h x hx)]
      simp [FromValue.visitArray]
    | _ => simp [wfTV] at h
  | .tuple ss, v, hf, h => by
    cases v with
    | seq xs =>
      simp only [wfTV] at h
      simp only [valueOf, fromValue]
      rw [rt_tuple ss xs (by simpa [fragP] using hf) h]
      simp [FromValue.visitArray]
    | _ => simp [wfTV] at h
  | .map k s, v, hf, h => by
    cases v with
    | map kvs =>
      simp only [wfTV, List.all_eq_true, Bool.and_eq_true] at h
      have hf' : keyFrag k = true ∧ fragP false s = true := by simpa [fragP] using hf
      simp only [valueOf, fromValue]
      rw [mapAll_map (FromValue.keyDe k) (fromValue cfg ext' s) (Model.TypedSer.keyText k) (valueOf s) kvs fun kv hx =>
        ⟨keyDe_keyText k kv.1 hf'.1 (h kv hx).1, fromValue_valueOf s kv.2 hf'.2 (h kv hx).2⟩]
      rfl
    | _ => simp [wfTV] at h
  | .struct_ fs d, v, hf, h => by
    cases v with
    | struct_ xs =>
      simp only [wfTV, Bool.and_eq_true] at h
      simp only [valueOf, fromValue]
      exact structFromMap_fields cfg ext' fs d xs h.1 h.2 (rt_fields fs xs (by simpa [fragP] using hf) h.2)
    | _ => simp [wfTV] at h
  | .enum_ vs, v, hf, h => by
    cases v with
    | variant i p =>
      simp only [wfTV, Bool.and_eq_true] at h
      simp only [valueOf]
      exact fromValue_variant cfg ext' vs i p h.1 h.2 (by simpa [fragP] using hf)
        (fun n sh hg => rt_variants vs i p n sh hg (by simpa [fragP] using hf) h.2)
    | _ => simp [wfTV] at h
  | .ignored, v, _, h => by simp [wfTV] at h
  | .any, v, hf, _ => by simp [fragP] at hf
theorem rt_tuple : ∀ (ss : List Schema) (xs : List TVal), fragPList false ss = true → wfTuple ss xs = true →
    FromValue.tupleSeq cfg ext' ss (valueTuple ss xs) = .ok (xs, [])
  | [], xs, _, h => by simp [wfTuple] at h; simp [h, valueTuple, FromValue.tupleSeq]
  | s :: ss, [], _, h => by simp [wfTuple] at h
  | s :: ss, x :: xs, hf, h => by
    simp only [wfTuple, Bool.and_eq_true] at h
    simp only [fragPList, Bool.and_eq_true] at hf
    simp only [valueTuple, FromValue.tupleSeq, fromValue_valueOf s x hf.1 h.1, rt_tuple ss xs hf.2 h.2]
theorem rt_fields : ∀ (fs : List (Bytes × Schema)) (xs : List TVal), fragPFields false fs = true →
    Model.TypedSer.wfFields fs xs = true → FieldsRT cfg ext' fs xs
  | [], xs, _, _ => trivial
  | (n, s) :: fs, [], _, _ => trivial
  | (n, s) :: fs, x :: xs, hf, h => by
    simp only [Model.TypedSer.wfFields, Bool.and_eq_true] at h
    simp only [fragPFields, Bool.and_eq_true] at hf
    exact ⟨fromValue_valueOf s x hf.1 h.1, rt_fields fs xs hf.2 h.2⟩
theorem rt_variants : ∀ (vs : List (Bytes × VariantShape)) (i : Nat) (p : TVal) (n : Bytes) (sh : VariantShape),
    vs[i]? = some (n, sh) → fragPVariants false vs = true → wfVariant vs i p = true → ShapeRT cfg ext' sh p
  | [], i, p, n, sh, hg, _, _ => by simp at hg
  | (n', sh') :: vs, 0, p, n, sh, hg, hf, h => by
    simp at hg
    obtain ⟨rfl, rfl⟩ := hg
    simp only [fragPVariants, Bool.and_eq_true] at hf
    simp only [wfVariant] at h
    exact rt_shape sh' p hf.1 h
  | (n', sh') :: vs, i + 1, p, n, sh, hg, hf, h => by
    simp only [fragPVariants, Bool.and_eq_true] at hf
    simp only [wfVariant] at h
    exact rt_variants vs i p n sh (by simpa using hg) hf.2 h
theorem rt_shape : ∀ (sh : VariantShape) (p : TVal), fragPShape false sh = true → wfShape sh p = true → ShapeRT cfg ext' sh p
  | .unit, p, _, _ => trivial
  | .newtype s, p, hf, h => by
    simp only [wfShape] at h
    exact fromValue_valueOf s p (by simpa [fragPShape] using hf) h
  | .tuple ss, p, hf, h => by
    intro xs hp
    subst hp
    simp only [wfShape] at h
    have : (!ss.isEmpty && fragPList false ss) = true := by simpa [fragPShape] using hf
    simp only [Bool.and_eq_true] at this
    exact rt_tuple ss xs this.2 h
  | .struct_ fs, p, hf, h => by
    intro xs hp
    subst hp
    simp only [wfShape, Bool.and_eq_true] at h
    exact rt_fields fs xs (by simpa [fragPShape] using hf) h.2
end

end SJ.Proofs.TypedSer
