import SJ.Proofs.RawMap
/-!
# C19 helper lemmas: every object text is captured member by member; captures versus the parsed `Value`

The converse direction of `derives_of_minner` (`SJ/Proofs/RawMap.lean`) and the object analogue of
`rawSeq_canon` (`SJ/Proofs/RawNestedTop.lean`):

* `minner_of_derives`: every object derivation `Derives v (.obj mts)` is a decomposition
  `v = "{" inner "}"`, `MInner inner ms`, whose members carry the keys' items of `mts`, the value texts
  `cᵢ` with `Derives cᵢ tᵢ`, and as decoded key `decS kᵢ` (= `decodeItems kᵢ` when that is defined);
* `rawMap_canon`: when the same bytes also parse into a `Value` it is the object built (`mkObj`: last
  duplicate wins, `BTreeMap` / `IndexMap` order) from the decoded keys and the values the captures parse to,
  each on its own.
-/
namespace SJ.Proofs.RawMap
open SJ SJ.Gen SJ.Model.Machine SJ.Model.Stream SJ.Proofs.Machine SJ.Proofs.Complete SJ.Proofs.StreamValues
open SJ.Spec.Grammar (CST StrItem Ws Derives JsonText StrWF strBytes Members)
open SJ.Spec.Denote (decodeItems)
open SJ.Model.Typed
open SJ.Model.RawNested SJ.Proofs.RawSpan SJ.Proofs.RawNested SJ.Proofs.RawKey

/-- the decoded key carried by a member built from a grammar tree: `decodeItems`, `[]` where that is undefined
    (an unpaired surrogate escape: such a key is not a `String`, and `KeyOK` then fails) -/
def decS (k : List StrItem) : Bytes := (decodeItems k).getD []

/-- the members singled out of a grammar object: same keys (items), value texts derive the members' trees,
    decoded keys are `decS` -/
structure MemsOf (ms : List Mem) (mts : List (List StrItem × CST)) : Prop where
  keys : ms.map (·.1) = mts.map (·.1)
  vals : AllDerive (ms.map (·.2.2)) (mts.map (·.2))
  wf : ∀ m ∈ ms, StrWF m.1 = true
  dec : ∀ m ∈ ms, m.2.1 = decS m.1

theorem MemsOf.nil : MemsOf [] [] := ⟨rfl, .nil, by simp, by simp⟩

theorem MemsOf.cons {ms : List Mem} {mts : List (List StrItem × CST)} (h : MemsOf ms mts) (k : List StrItem) (c : Bytes)
    (t : CST) (hk : StrWF k = true) (hd : Derives c t) : MemsOf ((k, decS k, c) :: ms) ((k, t) :: mts) :=
  ⟨by simp [h.keys], by simpa using AllDerive.cons hd h.vals,
   by intro m hm; simp only [List.mem_cons] at hm; rcases hm with rfl | hm; exact hk; exact h.wf m hm,
   by intro m hm; simp only [List.mem_cons] at hm; rcases hm with rfl | hm; rfl; exact h.dec m hm⟩

theorem mtail_append_ws {tail : Bytes} {ms : List Mem} (h : MTail tail ms) (w : Bytes) (hw : Ws w) :
    MTail (tail ++ w) ms := by
  induction h with
  | nil w' hw' => exact MTail.nil _ (ws_append hw' hw)
  | cons w₁ w₂ k s w₃ w₄ c rest ms h₁ h₂ h₃ h₄ _ ih =>
    have := MTail.cons w₁ w₂ k s w₃ w₄ c (rest ++ w) ms h₁ h₂ h₃ h₄ ih
    simpa [List.append_assoc] using this

/-- `Members` (no whitespace at either end) as first member + `MTail` -/
theorem mtail_of_members : ∀ (mts : List (List StrItem × CST)) (body : Bytes), Members body mts →
    ∃ (k : List StrItem) (t : CST) (mts' : List (List StrItem × CST)) (w₃ w₄ c tail : Bytes) (ms : List Mem),
      mts = (k, t) :: mts' ∧ StrWF k = true ∧ Ws w₃ ∧ Ws w₄ ∧ Derives c t ∧
      body = strBytes k ++ w₃ ++ [0x3a] ++ w₄ ++ c ++ tail ∧ MTail tail ms ∧ MemsOf ms mts'
  | [], _, h => by cases h
  | (k, t) :: mts, body, h => by
    cases h with
    | one k hk w₁ w₂ vb t h₁ h₂ hd =>
      exact ⟨k, t, [], w₁, w₂, vb, [], [], rfl, hk, h₁, h₂, hd, by simp, MTail.nil [] ws_nil, MemsOf.nil⟩
    | cons k hk w₁ w₂ vb w₃ w₄ rest t ms h₁ h₂ hd h₃ h₄ hr =>
      obtain ⟨k', t', mts', w₃', w₄', c', tail', ms', rfl, hk', h₃', h₄', hd', rfl, ht', hm'⟩ :=
        mtail_of_members mts rest hr
      refine ⟨k, t, (k', t') :: mts', w₁, w₂, vb,
        w₃ ++ [0x2c] ++ w₄ ++ strBytes k' ++ w₃' ++ [0x3a] ++ w₄' ++ c' ++ tail', (k', decS k', c') :: ms',
        rfl, hk, h₁, h₂, hd, by simp, ?_, hm'.cons k' c' t' hk' hd'⟩
      exact MTail.cons w₃ w₄ k' (decS k') w₃' w₄' c' tail' ms' h₃ h₄ h₃' h₄' ht'

/-- every object derivation is such a decomposition -/
theorem minner_of_derives {v : Bytes} {mts : List (List StrItem × CST)} (h : Derives v (.obj mts)) :
    ∃ (inner : Bytes) (ms : List Mem), v = [0x7b] ++ inner ++ [0x7d] ∧ MInner inner ms ∧ MemsOf ms mts := by
  cases h with
  | objEmpty w hw => exact ⟨w, [], rfl, hw, MemsOf.nil⟩
  | obj w₁ body w₂ xs h₁ h₂ hne hm =>
    obtain ⟨k, t, mts', w₃, w₄, c, tail, ms, rfl, hk, h₃, h₄, hd, rfl, ht, hms⟩ := mtail_of_members _ _ hm
    refine ⟨w₁ ++ strBytes k ++ w₃ ++ [0x3a] ++ w₄ ++ c ++ (tail ++ w₂), (k, decS k, c) :: ms, by simp,
      ⟨w₁, w₃, w₄, tail ++ w₂, h₁, h₃, h₄, rfl, mtail_append_ws ht w₂ h₂⟩, hms.cons k c t hk hd⟩

/-! ## captures versus the parsed `Value` -/

/-- `xs` and `ys` have the same length and `R xᵢ yᵢ` for every `i` -/
inductive AllRel {α β : Type} (R : α → β → Prop) : List α → List β → Prop
  | nil : AllRel R [] []
  | cons {x : α} {y : β} {xs : List α} {ys : List β} (h : R x y) (hs : AllRel R xs ys) : AllRel R (x :: xs) (y :: ys)

theorem AllRel.get {α β : Type} {R : α → β → Prop} : ∀ {xs : List α} {ys : List β}, AllRel R xs ys →
    xs.length = ys.length ∧ ∀ (i : Nat) (h1 : i < xs.length) (h2 : i < ys.length), R xs[i] ys[i]
  | [], [], .nil => ⟨rfl, fun i h1 _ => by simp at h1⟩
  | x :: xs, y :: ys, .cons h hs => by
    obtain ⟨hl, hg⟩ := AllRel.get hs
    refine ⟨by simp [hl], fun i h1 h2 => ?_⟩
    cases i with
    | zero => simpa using h
    | succ j => simpa using hg j (by simpa using h1) (by simpa using h2)

theorem map_memVal_eq : ∀ {xs ys : List Mem}, xs.map memVal = ys.map memVal →
    xs.map (·.2.1) = ys.map (·.2.1) ∧ xs.map (·.2.2) = ys.map (·.2.2)
  | [], [], _ => ⟨rfl, rfl⟩
  | [], _ :: _, h => by simp at h
  | _ :: _, [], h => by simp at h
  | x :: xs, y :: ys, h => by
    simp only [List.map_cons, List.cons.injEq, memVal, Prod.mk.injEq, TVal.str.injEq] at h
    obtain ⟨h1, h2⟩ := map_memVal_eq h.2
    simp [h.1.1, h.1.2, h1, h2]

/-- a value whose first byte is `{` is an object -/
theorem derives_brace {c : Bytes} {t : CST} (h : Derives c t) (r : Bytes) (hc : c = 0x7b :: r) :
    ∃ mts, t = .obj mts := by
  cases h with
  | objEmpty w _ => exact ⟨[], rfl⟩
  | obj w₁ body w₂ ms _ _ _ _ => exact ⟨ms, rfl⟩
  | str items hwf => simp [strBytes] at hc
  | null => cases hc
  | true_ => cases hc
  | false_ => cases hc
  | arrEmpty w _ => simp at hc
  | arr w₁ body w₂ xs _ _ _ _ => simp at hc
  | num p hwf =>
    exfalso
    obtain ⟨b, r', hbr, hb⟩ := num_head p hwf
    rw [hbr] at hc
    simp only [List.cons.injEq] at hc
    rcases hb with hb | hb
    · rw [hb] at hc; exact absurd hc.1 (by decide)
    · rw [hc.1] at hb; revert hb; decide

/-- the per-member facts: each value text parses, on its own, to the value the whole parse gave that member, the
    decoded keys are those of the parse, and every key is acceptable to the `&str` capture -/
theorem members_canon (cfg : Cfg) (src : Src) : ∀ (mts : List (List StrItem × CST)) (ms : List Mem) (kvs : List (Bytes × JV)),
    MemsOf ms mts → SJ.Proofs.CanonM.canonMMembers cfg mts = some kvs → SideMembers ⟨cfg, src, .value⟩ 0 mts →
    AllRel (fun (m : Mem) (x : JV) => parseTop ⟨cfg, src, .value⟩ m.2.2 = .ok x) ms (kvs.map (·.2)) ∧
    (ms.map (·.2.1)).zip (kvs.map (·.2)) = kvs ∧
    ∀ m ∈ ms, KeyOK { cfg := cfg, src := .str, flt := false } m.1 m.2.1
  | [], ms, kvs, hm, hc, _ => by
    have : ms = [] := by simpa using hm.keys
    subst this
    simp only [SJ.Proofs.CanonM.canonMMembers, Option.some.injEq] at hc
    subst hc
    exact ⟨.nil, rfl, by simp⟩
  | (k, t) :: mts, ms, kvs, hm, hc, hs => by
    cases ms with
    | nil => have := hm.keys; simp at this
    | cons m ms =>
      obtain ⟨k0, s0, c0⟩ := m
      have hkeys := hm.keys
      simp only [List.map_cons, List.cons.injEq] at hkeys
      obtain ⟨hk0, hkeys'⟩ := hkeys
      subst hk0
      have hvals := hm.vals
      simp only [List.map_cons] at hvals
      cases hvals with
      | cons hd hvals' =>
        have hm' : MemsOf ms mts :=
          ⟨hkeys', hvals', fun m h => hm.wf m (by simp [h]), fun m h => hm.dec m (by simp [h])⟩
        simp only [SJ.Proofs.CanonM.canonMMembers] at hc
        split at hc
        · rename_i kb x r hkb hx hr
          simp only [Option.some.injEq] at hc
          subst hc
          obtain ⟨ih1, ih2, ih3⟩ := members_canon cfg src mts ms r hm' hr hs.tail
          have hs0 : s0 = kb := by
            have := hm.dec (k0, s0, c0) (by simp)
            simp only [decS, hkb, Option.getD_some] at this
            exact this
          subst hs0
          obtain ⟨val, hres, hp⟩ := complete_text ⟨cfg, src, .value⟩ c0 t ⟨[], c0, [], by simp, ws_nil, ws_nil, hd⟩ hs.head
          have hval := hres.1 rfl
          simp only at hval
          rw [hx] at hval
          simp only [Option.some.injEq] at hval
          subst hval
          refine ⟨.cons hp ih1, by simp [ih2], ?_⟩
          intro m hmem
          simp only [List.mem_cons] at hmem
          rcases hmem with rfl | hmem
          · exact ⟨hm.wf _ (by simp), hkb, (hs.key rfl).1, fun h => absurd rfl h⟩
          · exact ih3 m hmem
        · simp at hc

/-- when the bytes that were captured member-wise also parse into a `Value`, that value is the object built by
    inserting, in source order, the decoded keys with the values the captures parse to on their own -/
theorem rawMap_canon (cfg : Cfg) (src : Src) (bs : Bytes) (o : JV) (v : TVal)
    (hval : parseTop ⟨cfg, src, .value⟩ bs = .ok o)
    (hraw : rawMapTop { cfg := cfg, src := src, flt := false } bs = .ok v) :
    ∃ (ms : List Mem) (vals : List JV), v = .map (ms.map memVal) ∧
      AllRel (fun (m : Mem) (x : JV) => parseTop ⟨cfg, src, .value⟩ m.2.2 = .ok x) ms vals ∧
      o = mkObj cfg ((ms.map (·.2.1)).zip vals) := by
  obtain ⟨ms, w₀, inner, w₃, rfl, hbs, h₀, h₃, hin, hcap⟩ := rawMapTop_sound _ bs v hraw
  obtain ⟨t, ⟨w₁, v0, w₂, hbs', hw₁, hw₂, hd⟩, hc, hdep, hsur, hutf, hnum⟩ :=
    SJ.Props.C02.c02_denotes ⟨cfg, src, .value⟩ rfl bs _ hval
  -- the value starts with `{`: the tree is an object
  obtain ⟨b0, r0, hv0, hb0, _⟩ := derives_head' hd
  have hsk1 : skipWs bs 0 = (0x7b :: (inner ++ [0x7d] ++ w₃), 0 + w₀.length) := by
    rw [hbs]
    have := skipWs_ws w₀ (0x7b :: (inner ++ [0x7d] ++ w₃)) 0 h₀ (fun b' r' h => by cases h; decide)
    simpa [List.append_assoc] using this
  have hsk2 : skipWs bs 0 = (b0 :: (r0 ++ w₂), 0 + w₁.length) := by
    rw [hbs', hv0]
    have := skipWs_ws w₁ (b0 :: (r0 ++ w₂)) 0 hw₁ (fun b' r' h => by cases h; exact hb0)
    simpa [List.append_assoc] using this
  rw [hsk1] at hsk2
  simp only [Prod.mk.injEq, List.cons.injEq] at hsk2
  obtain ⟨mts, rfl⟩ := derives_brace hd r0 (by rw [hv0, ← hsk2.1.1])
  simp only [SJ.Proofs.CanonM.canonM, Option.map_eq_some_iff] at hc
  obtain ⟨kvs, hkvs, rfl⟩ := hc
  obtain ⟨inner', ms', hv0', hin', hmems⟩ := minner_of_derives hd
  have hside : Side ⟨cfg, src, .value⟩ 0 (.obj mts) := fun _ => ⟨hdep.imp id (fun h => by omega), hsur, hutf, hnum⟩
  have hsm : SideMembers ⟨cfg, src, .value⟩ 0 mts := by
    intro hv
    obtain ⟨h1, h2, h3, h4⟩ := hside.obj hv
    exact ⟨h1.imp id (fun h => by omega), h2, h3, h4⟩
  obtain ⟨hall, hzip, hkeys⟩ := members_canon cfg src mts ms' kvs hmems hkvs hsm
  -- both decompositions are captured by the `&str` model (no UTF-8 check): the captures coincide
  let env' : SJ.Model.Typed.Env := { cfg := cfg, src := .str, flt := false }
  have hc1 : ∀ m ∈ ms, MemOK env' m := fun m hm =>
    ⟨⟨(hcap m hm).1.wf, (hcap m hm).1.dec, (hcap m hm).1.sur, fun h => absurd rfl h⟩, (hcap m hm).2.1, fun h => absurd rfl h⟩
  have hc2 : ∀ m ∈ ms', MemOK env' m := by
    intro m hm
    refine ⟨hkeys m hm, ?_, fun h => absurd rfl h⟩
    obtain ⟨i, hi, rfl⟩ := List.mem_iff_getElem.mp hm
    obtain ⟨hl, hg⟩ := allDerive_get hmems.vals
    simp only [List.length_map] at hl hg
    have := hg i (by simpa using hi) (by omega)
    simp only [List.getElem_map] at this
    exact ⟨_, this⟩
  have e1 := rawMapTop_complete env' rfl ms w₀ inner w₃ h₀ h₃ hin hc1
  have e2 := rawMapTop_complete env' rfl ms' w₁ inner' w₂ hw₁ hw₂ hin' hc2
  have hbs2 : bs = w₁ ++ [0x7b] ++ inner' ++ [0x7d] ++ w₂ := by rw [hbs', hv0']; simp
  rw [← hbs] at e1
  rw [← hbs2, e1] at e2
  simp only [Top.ok.injEq, TVal.map.injEq] at e2
  exact ⟨ms', kvs.map (·.2), by rw [e2], hall, by rw [hzip]⟩

end SJ.Proofs.RawMap
