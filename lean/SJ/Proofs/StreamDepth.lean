import SJ.Model.StreamDepth
import SJ.Proofs.Machine
import SJ.Proofs.EarliestStep
/-!
# C14 helper lemmas: the explicit `remaining_depth` counter agrees with the stack height

Invariant `DInv`: while `check_recursion!` is active, `remaining_depth + (open containers) = 128`.
Under it the instrumented step `step1D` IS `step1` (the limit test on the counter and the one on the stack
height coincide), every step preserves it, a completed top-level value leaves no container open, and
hence the counter is back at 128 when an item of a stream has been read.
-/
namespace SJ.Proofs.StreamDepth
open SJ SJ.Gen SJ.Model.Machine SJ.Model.Stream SJ.Model.StreamDepth SJ.Proofs.Machine

/-! ## what one step does to the stack -/

/-- the shape of a step result relative to the state before: the stack grows by one only at `[` / `{`
    where a value is expected, otherwise stays or shrinks by one; a `done` state has an empty stack;
    `RecursionLimitExceeded` arises only at such an opening bracket -/
def Good (s : St) (b : UInt8) : Step → Prop
  | .next s' =>
    ((s'.stack.length = s.stack.length + 1 ∧ opensContainer s b = true) ∨ s'.stack.length = s.stack.length ∨
      s'.stack.length + 1 = s.stack.length) ∧
    ((∀ v, s'.mode ≠ .done v) ∨ s'.stack = [] ∨ s' = s)
  | .again s' => s'.stack.length = s.stack.length ∧ ((∀ v, s'.mode ≠ .done v) ∨ s'.stack = [])
  | .err c _ => c = .RecursionLimitExceeded → opensContainer s b = true

theorem complete_len (stack : List Frame) (v : JV) : (complete stack v).stack.length = stack.length := by
  unfold complete; split <;> simp

theorem complete_done (stack : List Frame) (v : JV) :
    (∀ v', (complete stack v).mode ≠ .done v') ∨ (complete stack v).stack = [] := by
  unfold complete
  split
  · exact .inr rfl
  · exact .inl (fun v' h => by cases h)
  · exact .inl (fun v' h => by cases h)

theorem good_same (s : St) (b : UInt8) (m : Mode) (hm : ∀ v, m ≠ .done v) : Good s b (.next { s with mode := m }) :=
  ⟨.inr (.inl rfl), .inl hm⟩

theorem good_complete_same (s : St) (b : UInt8) (v : JV) : Good s b (.next (complete s.stack v)) :=
  ⟨.inr (.inl (complete_len _ _)), (complete_done _ _).elim .inl (fun h => .inr (.inl h))⟩

theorem closeArr_good (env : Env) (s : St) (b : UInt8) : Good s b (closeArr env s) := by
  unfold closeArr
  split
  · rename_i es fs hst
    refine ⟨.inr (.inr ?_), (complete_done _ _).elim .inl (fun h => .inr (.inl h))⟩
    rw [complete_len, hst]; simp
  · intro h; cases h

theorem closeObj_good (env : Env) (s : St) (b : UInt8) : Good s b (closeObj env s) := by
  unfold closeObj
  split
  · rename_i ms k fs hst
    refine ⟨.inr (.inr ?_), (complete_done _ _).elim .inl (fun h => .inr (.inl h))⟩
    rw [complete_len, hst]; simp
  · intro h; cases h

theorem startValue_good (env : Env) (s : St) (b : UInt8) (ctx : ValCtx) (hm : s.mode = .val ctx) :
    Good s b (startValue env s b) := by
  unfold startValue
  repeat' split
  all_goals first
    | exact good_same s b _ (fun v h => by cases h)
    | (intro h; cases h; done)
    | (intro _; simp_all [opensContainer])
    | (refine ⟨.inl ⟨by simp, by simp_all [opensContainer]⟩, .inl (fun v h => by cases h)⟩)

theorem stepNum_good (env : Env) (s : St) (n : NumSt) (b : UInt8) : Good s b (stepNum env s n b) := by
  unfold stepNum
  simp only
  repeat' split
  all_goals first
    | exact good_same s b _ (fun v h => by cases h)
    | (intro h; cases h; done)
    | (rename_i s' hs
       obtain ⟨v, rfl⟩ := endNumber_ok env s n s' hs
       exact ⟨complete_len _ _, complete_done _ _⟩)
    | (rename_i c a hs
       intro h; subst h
       have := (endNumber_err env s n _ _ hs).1
       cases this)

theorem endStr_good (env : Env) (s : St) (st : StrSt) (b : UInt8) : Good s b (endStr env s st) := by
  unfold endStr
  simp only
  repeat' split
  all_goals first
    | exact good_complete_same s b _
    | (intro h; cases h; done)
    | (rename_i ms k fs hst
       exact ⟨.inr (.inl (by rw [hst]; simp)), .inl (fun v h => by cases h)⟩)

theorem stepStr_good (env : Env) (s : St) (st : StrSt) (b : UInt8) : Good s b (stepStr env s st b) := by
  unfold stepStr
  simp only
  repeat' split
  all_goals first
    | exact good_same s b _ (fun v h => by cases h)
    | exact endStr_good env s st b
    | (intro h; cases h; done)

theorem step1_good (env : Env) (s : St) (b : UInt8) : Good s b (step1 env s b) := by
  unfold step1
  split
  · rename_i ctx hm
    repeat' split
    all_goals first
      | exact ⟨.inr (.inl rfl), .inr (.inr rfl)⟩
      | exact closeArr_good env s b
      | exact startValue_good env s b ctx hm
      | (intro h; cases h; done)
  all_goals
    repeat' split
    all_goals first
      | exact ⟨.inr (.inl rfl), .inr (.inr rfl)⟩
      | exact good_same s b _ (fun v h => by cases h)
      | exact good_complete_same s b _
      | exact closeArr_good env s b
      | exact closeObj_good env s b
      | exact stepNum_good env s _ b
      | exact stepStr_good env s _ b
      | (intro h; cases h; done)

/-! ## the counter -/

def DInv (env : Env) (s : St) (d : Nat) : Prop :=
  counting env = true → d + s.stack.length = Gen.remainingDepthInit ∧ 1 ≤ d

theorem counting_iff (env : Env) : counting env = true ↔ env.tgt = .value ∧ env.cfg.limitOff = false := by
  simp [counting]

/-- the body of `check_recursion!` on an opening bracket that passes the test is the plain step -/
theorem step1_body (env : Env) (s : St) (b : UInt8) (hop : opensContainer s b = true)
    (hroom : depthExceeded env s = false) : step1 (bodyEnv env) s b = step1 env s b := by
  unfold opensContainer at hop
  cases hm : s.mode with
  | val ctx =>
    rw [hm] at hop
    simp only [Bool.or_eq_true, beq_iff_eq] at hop
    have hbody : depthExceeded (bodyEnv env) s = false := by simp [depthExceeded, bodyEnv]
    unfold step1
    simp only [hm]
    rcases hop with rfl | rfl
    · simp [isWs, Gen.wsBytes, startValue, isDigit, hroom, hbody]
    · simp [isWs, Gen.wsBytes, startValue, isDigit, hroom, hbody]
  | _ => rw [hm] at hop; cases hop

theorem step1_open_exceeded (env : Env) (s : St) (b : UInt8) (hop : opensContainer s b = true)
    (hex : depthExceeded env s = true) : step1 env s b = .err .RecursionLimitExceeded .incl := by
  unfold opensContainer at hop
  cases hm : s.mode with
  | val ctx =>
    rw [hm] at hop
    simp only [Bool.or_eq_true, beq_iff_eq] at hop
    unfold step1
    simp only [hm]
    rcases hop with rfl | rfl
    · simp [isWs, Gen.wsBytes, startValue, isDigit, hex]
    · simp [isWs, Gen.wsBytes, startValue, isDigit, hex]
  | _ => rw [hm] at hop; cases hop

/-- an opening bracket that passes pushes one frame -/
theorem step1_open_next (env : Env) (s : St) (b : UInt8) (hop : opensContainer s b = true)
    (hroom : depthExceeded env s = false) : ∃ s', step1 env s b = .next s' ∧ s'.stack.length = s.stack.length + 1 ∧
      ∀ v, s'.mode ≠ .done v := by
  unfold opensContainer at hop
  cases hm : s.mode with
  | val ctx =>
    rw [hm] at hop
    simp only [Bool.or_eq_true, beq_iff_eq] at hop
    unfold step1
    simp only [hm]
    rcases hop with rfl | rfl
    · exact ⟨{ mode := .val .arrFirst, stack := .arr [] :: s.stack },
        by simp [isWs, Gen.wsBytes, startValue, isDigit, hroom], by simp, fun v h => by cases h⟩
    · exact ⟨{ mode := .objFirst, stack := .obj [] [] :: s.stack },
        by simp [isWs, Gen.wsBytes, startValue, isDigit, hroom], by simp, fun v h => by cases h⟩
  | _ => rw [hm] at hop; cases hop

theorem h128 : Gen.remainingDepthInit = 128 := rfl

/-- **one instrumented step**: under the invariant it is the plain step, and the invariant is kept -/
theorem step1D_spec (env : Env) (s : St) (d : Nat) (b : UInt8) (hi : DInv env s d) :
    (step1D env s d b).1 = step1 env s b ∧
    (∀ s', step1 env s b = .next s' → DInv env s' (step1D env s d b).2) ∧
    (∀ s', step1 env s b = .again s' → DInv env s' (step1D env s d b).2) ∧
    (∀ c a, step1 env s b = .err c a → counting env = true →
      (c ≠ .RecursionLimitExceeded ∧ unwind env s (step1D env s d b).2 = Gen.remainingDepthInit) ∨
      (c = .RecursionLimitExceeded ∧ unwind env s (step1D env s d b).2 + 1 = Gen.remainingDepthInit)) := by
  have hg := step1_good env s b
  cases hc : counting env with
  | false =>
    have h1 : step1D env s d b = (step1 env s b, d) := by simp [step1D, hc]
    rw [h1]
    exact ⟨rfl, fun _ _ h => (by rw [hc] at h; cases h), fun _ _ h => (by rw [hc] at h; cases h),
      fun _ _ _ h => (by cases h)⟩
  | true =>
    obtain ⟨hd, hd1⟩ := hi hc
    obtain ⟨hv, hl⟩ := (counting_iff env).mp hc
    cases hop : opensContainer s b with
    | true =>
      have hex : depthExceeded env s = decide (s.stack.length + 1 ≥ Gen.remainingDepthInit) := by
        simp [depthExceeded, hv, hl]
      by_cases hfull : s.stack.length + 1 ≥ Gen.remainingDepthInit
      · -- the limit is hit
        have hd0 : (d - 1 == 0) = true := by rw [h128] at hd hfull; simp; omega
        have h1 : step1D env s d b = (.err .RecursionLimitExceeded .incl, d - 1) := by
          simp [step1D, hc, hop, hd0]
        have h2 := step1_open_exceeded env s b hop (by rw [hex]; simpa using hfull)
        rw [h1, h2]
        refine ⟨rfl, fun _ h => (by cases h), fun _ h => (by cases h), fun c a h _ => ?_⟩
        simp only [Step.err.injEq] at h
        refine .inr ⟨h.1.symm, ?_⟩
        simp only [unwind, hc, if_true]
        rw [h128] at hd hfull ⊢
        show d - 1 + s.stack.length + 1 = 128
        omega
      · have hd0 : (d - 1 == 0) = false := by rw [h128] at hd hfull; simp; omega
        have hroom : depthExceeded env s = false := by rw [hex]; simpa using hfull
        have h1 : step1D env s d b = (step1 env s b, d - 1) := by
          simp [step1D, hc, hop, hd0, step1_body env s b hop hroom]
        obtain ⟨s1, hs1, hlen, _⟩ := step1_open_next env s b hop hroom
        rw [h1]
        refine ⟨rfl, fun s' h => ?_, fun s' h => (by rw [hs1] at h; cases h), fun c a h => (by rw [hs1] at h; cases h)⟩
        rw [hs1] at h; cases h
        intro _
        rw [hlen]; rw [h128] at hd hfull ⊢; omega
    | false =>
      have h1 : step1D env s d b = (step1 env s b, if closesContainer s (step1 env s b) then d + 1 else d) := by
        simp [step1D, hc, hop]
      rw [h1]
      refine ⟨rfl, fun s' h => ?_, fun s' h => ?_, fun c a h _ => ?_⟩
      · rw [h] at hg ⊢
        obtain ⟨hlen, _⟩ := hg
        intro _
        simp only [closesContainer]
        rcases hlen with ⟨_, ho⟩ | hlen | hlen
        · rw [hop] at ho; cases ho
        · have : ¬ (s'.stack.length < s.stack.length) := by omega
          simp only [this, decide_false, Bool.false_eq_true, if_false]; omega
        · have : s'.stack.length < s.stack.length := by omega
          simp only [this, decide_true, if_true]; omega
      · rw [h] at hg ⊢
        intro _
        simp only [closesContainer, Bool.false_eq_true, if_false]
        exact ⟨by rw [hg.1]; exact hd, hd1⟩
      · rw [h] at hg ⊢
        refine .inl ⟨fun hr => ?_, ?_⟩
        · have := hg hr; rw [hop] at this; cases this
        · simp only [closesContainer, Bool.false_eq_true, if_false, unwind, hc, if_true]; exact hd

/-- a state whose `done` mode implies an empty stack (true of `init`, kept by every step) -/
def DoneTop (s : St) : Prop := ∀ v, s.mode = .done v → s.stack = []

theorem doneTop_next (env : Env) (s : St) (b : UInt8) (s' : St) (hs : DoneTop s) (h : step1 env s b = .next s') :
    DoneTop s' := by
  have hg := step1_good env s b
  rw [h] at hg
  rcases hg.2 with h1 | h1 | h1
  · intro v hv; exact absurd hv (h1 v)
  · intro _ _; exact h1
  · rw [h1]; exact hs

theorem doneTop_again (env : Env) (s : St) (b : UInt8) (s' : St) (h : step1 env s b = .again s') : DoneTop s' := by
  have hg := step1_good env s b
  rw [h] at hg
  rcases hg.2 with h1 | h1
  · intro v hv; exact absurd hv (h1 v)
  · intro _ _; exact h1

/-- outcome of the instrumented run versus the plain one -/
def Agree (env : Env) : POut → POutD → Prop
  | .ok v e, .ok v' e' d => v' = v ∧ e' = e ∧ (counting env = true → d = Gen.remainingDepthInit)
  | .err c i, .err c' i' d => c' = c ∧ i' = i ∧
      (counting env = true → (c ≠ .RecursionLimitExceeded ∧ d = Gen.remainingDepthInit) ∨
        (c = .RecursionLimitExceeded ∧ d + 1 = Gen.remainingDepthInit))
  | _, _ => False

theorem tgt_cases (env : Env) : env.tgt = .value ∨ env.tgt = .ignored := by cases env.tgt <;> simp

theorem finish_err_not_rle (env : Env) (s : St) (c : Code) (h : finish env s = .error c) :
    c ≠ .RecursionLimitExceeded := by
  rcases tgt_cases env with hv | hv
  · rcases finish_eof_clean_value env hv s c h with h1 | h1
    · intro hc; subst hc; cases h1
    · intro hc; subst hc; cases h1
  · have := finish_eof_clean_ignored env hv s c h
    intro hc; subst hc; cases this

theorem finishMode_ok (env : Env) (s : St) (v : JV) (h : finishMode env s = .ok v) : s.mode = .done v := by
  unfold finishMode at h
  split at h <;> first | (simp only [Except.ok.injEq] at h; subst h; assumption) | (simp at h; done) | (split at h <;> simp at h)

/-- `finish` succeeds only when no container is open -/
theorem finish_ok_stack (env : Env) (s : St) (v : JV) (hdt : DoneTop s) (h : finish env s = .ok v) : s.stack = [] := by
  unfold finish at h
  split at h
  · rename_i n hm
    split at h
    all_goals first
      | (simp at h; done)
      | (split at h
         · rename_i s' hs
           obtain ⟨v', rfl⟩ := endNumber_ok env s n s' hs
           have hmode := finishMode_ok env _ v h
           unfold complete at hmode
           split at hmode
           · assumption
           · cases hmode
           · cases hmode
         · simp at h)
  · exact hdt v (finishMode_ok env s v h)

theorem doneTop_init : DoneTop init := fun _ _ => rfl
theorem dinv_init (env : Env) : DInv env init Gen.remainingDepthInit := fun _ => ⟨rfl, by decide⟩

/-- **the instrumented run is the plain run**, and reports the counter: 128 after a value; after an error
    128 again, except `RecursionLimitExceeded` itself, whose early return leaves one unit behind -/
theorem runPrefixD_spec (env : Env) (bs : Bytes) : ∀ (s : St) (d i : Nat), DInv env s d → DoneTop s →
    Agree env (runPrefix env s i bs) (runPrefixD env s d i bs) := by
  induction bs with
  | nil =>
    intro s d i hi hdt
    unfold runPrefix runPrefixD
    cases hf : finish env s with
    | ok v =>
      refine ⟨rfl, rfl, fun hc => ?_⟩
      have := (hi hc).1
      rw [finish_ok_stack env s v hdt hf] at this
      simpa using this
    | error c =>
      refine ⟨rfl, rfl, fun hc => .inl ⟨finish_err_not_rle env s c hf, ?_⟩⟩
      simp only [unwind, hc, if_true]; exact (hi hc).1
  | cons b bs ih =>
    intro s d i hi hdt
    obtain ⟨h1, hn, ha, he⟩ := step1D_spec env s d b hi
    unfold runPrefix runPrefixD
    generalize hsd : step1D env s d b = sd at h1 hn ha he
    obtain ⟨r, d'⟩ := sd
    simp only at h1 hn ha he
    subst h1
    cases hr : step1 env s b with
    | err c a =>
      simp only
      exact ⟨rfl, rfl, fun hc => he c a hr hc⟩
    | next s' =>
      have hi' := hn s' hr
      have hdt' := doneTop_next env s b s' hdt hr
      simp only
      cases hm : s'.mode with
      | done v =>
        simp only
        refine ⟨rfl, rfl, fun hc => ?_⟩
        have := (hi' hc).1
        rw [hdt' v hm] at this
        simpa using this
      | _ => simp only; exact ih s' d' (i + 1) hi' hdt'
    | again s' =>
      have hi' := ha s' hr
      have hdt' := doneTop_again env s b s' hr
      simp only
      cases hm : s'.mode with
      | done v =>
        simp only
        refine ⟨rfl, rfl, fun hc => ?_⟩
        have := (hi' hc).1
        rw [hdt' v hm] at this
        simpa using this
      | _ =>
        simp only
        all_goals
          obtain ⟨h1', hn', ha', he'⟩ := step1D_spec env s' d' b hi'
          generalize hsd' : step1D env s' d' b = sd' at h1' hn' ha' he'
          obtain ⟨r', d''⟩ := sd'
          simp only at h1' hn' ha' he'
          subst h1'
          cases hr' : step1 env s' b with
          | err c a => simp only; exact ⟨rfl, rfl, fun hc => he' c a hr' hc⟩
          | again s'' =>
            exfalso
            -- a number does not end twice on the same byte
            obtain ⟨v0, rfl⟩ := SJ.Proofs.Earliest.step1_again env s b s' hr
            exact SJ.Proofs.Complete.settled_not_again env _ (SJ.Proofs.Complete.settled_complete _ _) b s'' hr'
          | next s'' =>
            have hi'' := hn' s'' hr'
            have hdt'' := doneTop_next env s' b s'' hdt' hr'
            simp only
            cases hm2 : s''.mode with
            | done v =>
              simp only
              refine ⟨rfl, rfl, fun hc => ?_⟩
              have := (hi'' hc).1
              rw [hdt'' v hm2] at this
              simpa using this
            | _ => simp only; exact ih s'' d'' (i + 1) hi'' hdt''

/-! ## along a stream -/

/-- before a call of `next()`: the stream has failed (nothing will be parsed any more), or the counter is
    at its initial value -/
def Fresh (env : Env) (st : SSD) : Prop :=
  st.ss.failed = true ∨ (counting env = true → st.depth = Gen.remainingDepthInit)

/-- what a call reports about the counter -/
def DepthOK (env : Env) (it : Item) (d : Nat) : Prop :=
  counting env = true →
    match it with
    | .ok _ => d = Gen.remainingDepthInit
    | .err c _ => (c ≠ .RecursionLimitExceeded ∧ d = Gen.remainingDepthInit) ∨
        (c = .RecursionLimitExceeded ∧ d + 1 = Gen.remainingDepthInit)
    | .none => True

/-- one instrumented call of `next()` is the plain call; the counter is restored unless the stream failed -/
theorem nextD_spec (env : Env) (st : SSD) (hf : Fresh env st) :
    ((nextD env st).1, (nextD env st).2.ss) = next env st.ss ∧ Fresh env (nextD env st).2 ∧
      (st.ss.failed = false → DepthOK env (nextD env st).1 (nextD env st).2.depth) := by
  unfold nextD next
  cases hfail : st.ss.failed with
  | true => exact ⟨rfl, .inl hfail, fun h => by cases h⟩
  | false =>
    have hd : counting env = true → st.depth = Gen.remainingDepthInit := by
      rcases hf with h | h
      · rw [hfail] at h; cases h
      · exact h
    simp only [Bool.false_eq_true, if_false]
    generalize skipWs st.ss.rest st.ss.pos = sk
    obtain ⟨r, p⟩ := sk
    simp only
    cases r with
    | nil => exact ⟨by simp [hfail], .inr hd, fun _ _ => trivial⟩
    | cons b r' =>
      simp only
      have hinv : DInv env init st.depth := by
        intro hc; rw [hd hc]; exact ⟨rfl, by decide⟩
      have hag := runPrefixD_spec env (b :: r') init st.depth p hinv doneTop_init
      cases hp : runPrefix env init p (b :: r') with
      | err c idx =>
        cases hpd : runPrefixD env init st.depth p (b :: r') with
        | ok v e d => rw [hp, hpd] at hag; exact hag.elim
        | err c' idx' d =>
          rw [hp, hpd] at hag
          obtain ⟨rfl, rfl, hdd⟩ := hag
          exact ⟨rfl, .inl rfl, fun _ hc => hdd hc⟩
      | ok v e =>
        cases hpd : runPrefixD env init st.depth p (b :: r') with
        | err c' idx' d => rw [hp, hpd] at hag; exact hag.elim
        | ok v' e' d =>
          rw [hp, hpd] at hag
          obtain ⟨rfl, rfl, hdd⟩ := hag
          simp only
          cases hsd : isSelfDelineated b with
          | true => simp only [if_true]; exact ⟨by first | rfl | trivial, .inr hdd, fun _ hc => hdd hc⟩
          | false =>
            simp only [Bool.false_eq_true, if_false]
            cases hrest : List.drop (e' - p) (b :: r') with
            | nil => exact ⟨rfl, .inr hdd, fun _ hc => hdd hc⟩
            | cons c tl =>
              simp only
              cases hdel : isStreamDelim c with
              | true => simp only [if_true]; exact ⟨by first | rfl | trivial, .inr hdd, fun _ hc => hdd hc⟩
              | false =>
                simp only [Bool.false_eq_true, if_false]
                exact ⟨by first | rfl | trivial, .inr hdd, fun _ hc => .inl ⟨fun h => (by cases h), hdd hc⟩⟩

theorem fresh_start (env : Env) (bs : Bytes) : Fresh env (startD bs) := .inr (fun _ => rfl)

/-- **whole histories**: the instrumented stream is the plain stream, every state met is `Fresh` -/
theorem historyD_spec (env : Env) : ∀ (k : Nat) (st : SSD), Fresh env st →
    (historyD env k st).map (fun x => (x.1, x.2.1)) = history env k st.ss ∧
    ∀ x ∈ historyD env k st, x.1 ≠ .none → DepthOK env x.1 x.2.2
  | 0, _, _ => ⟨rfl, fun x hx => by simp [historyD] at hx⟩
  | k + 1, st, hf => by
    obtain ⟨h1, h2, h3⟩ := nextD_spec env st hf
    obtain ⟨ih1, ih2⟩ := historyD_spec env k (nextD env st).2 h2
    simp only [historyD, history, List.map_cons]
    have e1 : (nextD env st).1 = (next env st.ss).1 := congrArg Prod.fst h1
    have e2 : (nextD env st).2.ss = (next env st.ss).2 := congrArg Prod.snd h1
    refine ⟨?_, fun x hx hne => ?_⟩
    · rw [ih1, e1, e2]
    · simp only [List.mem_cons] at hx
      rcases hx with rfl | hx
      · cases hfail : st.ss.failed with
        | false => exact h3 hfail
        | true =>
          exfalso; apply hne
          simp only
          unfold nextD; simp [hfail]
      · exact ih2 x hx hne

/-- the stream state after `k` calls -/
def stateD (env : Env) : Nat → SSD → SSD
  | 0, st => st
  | k + 1, st => stateD env k (nextD env st).2

theorem fresh_stateD (env : Env) : ∀ (k : Nat) (st : SSD), Fresh env st → Fresh env (stateD env k st)
  | 0, _, h => h
  | k + 1, st, h => fresh_stateD env k _ (nextD_spec env st h).2.1

end SJ.Proofs.StreamDepth
