import SJ.Proofs.RoundTripNum
import SJ.Proofs.RoundTripObj
import SJ.Proofs.SerEscape
import SJ.Proofs.SerValue
/-!
# C04 helper lemmas: the syntax tree printed for a well-formed `Value` denotes that value

For `d = imageOfValue ext v` (the image of `impl Serialize for Value`) and `t = cstOf d` (the tree
both serializers print, C03):

* `canonM_image`: `canonM cfg t = some v` — strings: escape-then-decode is the identity; integers: the
  printed digits re-classify to the same `PosInt`/`NegInt`; floats: by the hypothesis `floatsRT`;
  literals (`arbitrary_precision`): kept as they are; objects: re-inserting sorted/distinct keys
  rebuilds the object;
* the side conditions of parser completeness hold of `t`: `depth t = depthJV v`, the only `\u`
  escapes printed are `\u00XX` control escapes (`surrogatesPaired`), decoded strings are the
  original strings (`stringsUtf8`), and every number converts (`numbersInRange`).
-/
namespace SJ.Proofs.RoundTrip
open SJ SJ.Spec.Grammar SJ.Spec.Denote SJ.Spec.Image SJ.Spec.Program SJ.Spec.WF
open SJ.Model.Machine SJ.Proofs.CanonM SJ.Proofs.SerEscape SJ.Proofs.RoundTripNum SJ.Proofs.RoundTripObj

/-! ## strings -/

theorem surrogatesPairedStr_strItems (s : Bytes) : surrogatesPairedStr (strItems s) = true := by
  induction s with
  | nil => rfl
  | cons b s ih =>
    have h := (item_spec b).2
    simp only [strItems, List.map_cons] at ih ⊢
    cases hi : escItem b with
    | raw c => simpa [surrogatesPairedStr] using ih
    | esc c => simpa [surrogatesPairedStr] using ih
    | uni h1 h2 h3 h4 =>
      simp only [hi, itemOK, Bool.and_eq_true, Bool.not_eq_true', beq_iff_eq] at h
      obtain ⟨⟨hh, hl⟩, _⟩ := h
      unfold surrogatesPairedStr
      simp [ih, hh, hl]

/-! ## the value denoted by the printed tree -/

set_option linter.unusedSectionVars false
section
variable (cfg : Cfg) (ext : Ext) (hext : ExtOK ext)
include hext

mutual
theorem canonM_image : ∀ v : JV, shapeOK (specCfg cfg) v = true → floatsRT (specCfg cfg) ext v = true →
    canonM cfg (cstOf (imageOfValue ext v)) = some v
  | .null, _, _ => rfl
  | .bool true, _, _ => rfl
  | .bool false, _, _ => rfl
  | .num (.pos n), h, _ => by
    simp only [shapeOK, wfNum, Bool.and_eq_true, Bool.not_eq_true', decide_eq_true_eq] at h
    simp only [imageOfValue, Spec.Image.numOf, cstOf, canonM, hext.itoa_decimal]
    rw [numOf_decimal_pos (specCfg cfg) h.1 n h.2]; rfl
  | .num (.neg k), h, _ => by
    simp only [shapeOK, wfNum, Bool.and_eq_true, Bool.not_eq_true', decide_eq_true_eq] at h
    simp only [imageOfValue, Spec.Image.numOf, cstOf, canonM, hext.itoa_decimal]
    rw [numOf_decimal_neg (specCfg cfg) h.1.1 k h.1.2 h.2]; rfl
  | .num (.float b), h, hf => by
    simp only [shapeOK, wfNum, Bool.and_eq_true, Bool.not_eq_true'] at h
    simp only [floatsRT, floatRT] at hf
    simp only [imageOfValue, h.2, if_true, Spec.Image.numOf, cstOf, canonM]
    split at hf
    · rename_i b' hb'
      rw [hb']
      simp only [beq_iff_eq] at hf
      rw [hf]; rfl
    · cases hf
  | .num (.lit s), h, _ => by
    simp only [shapeOK, wfNum, Bool.and_eq_true] at h
    simp only [imageOfValue, Spec.Image.numOf, cstOf, canonM]
    rw [numOf_lit (specCfg cfg) h.1 s]; rfl
  | .str s, _, _ => by simp [imageOfValue, cstOf, canonM, decode_strItems]
  | .arr xs, h, hf => by
    simp only [shapeOK] at h
    simp only [floatsRT] at hf
    simp [imageOfValue, cstOf, canonM, canonMList_image xs h hf]
  | .obj kvs, h, hf => by
    simp only [shapeOK, Bool.and_eq_true] at h
    simp only [floatsRT] at hf
    simp only [imageOfValue, cstOf, canonM, canonMMembers_image kvs h.2 hf, Option.map_some]
    rw [mkObj_id cfg kvs h.1]
theorem canonMList_image : ∀ xs : List JV, shapeOKs (specCfg cfg) xs = true → floatsRTs (specCfg cfg) ext xs = true →
    canonMList cfg (cstOfList (imageOfValues ext xs)) = some xs
  | [], _, _ => rfl
  | x :: xs, h, hf => by
    simp only [shapeOKs, Bool.and_eq_true] at h
    simp only [floatsRTs, Bool.and_eq_true] at hf
    simp [imageOfValues, cstOfList, canonMList, canonM_image x h.1 hf.1, canonMList_image xs h.2 hf.2]
theorem canonMMembers_image : ∀ kvs : List (Bytes × JV), shapeOKm (specCfg cfg) kvs = true →
    floatsRTm (specCfg cfg) ext kvs = true →
    canonMMembers cfg (cstOfMembers (imageOfMembers ext kvs)) = some kvs
  | [], _, _ => rfl
  | (k, x) :: kvs, h, hf => by
    simp only [shapeOKm, Bool.and_eq_true] at h
    simp only [floatsRTm, Bool.and_eq_true] at hf
    simp [imageOfMembers, cstOfMembers, canonMMembers, decode_strItems, canonM_image x h.1.2 hf.1,
      canonMMembers_image kvs h.2 hf.2]
end
end

/-! ## a value without floats needs no float hypothesis -/

mutual
theorem floatsRT_of_noFloat (c : Spec.Canon.Cfg) (ext : Ext) : ∀ v : JV, noFloat v = true → floatsRT c ext v = true
  | .null, _ => rfl
  | .bool _, _ => rfl
  | .num (.pos _), _ => rfl
  | .num (.neg _), _ => rfl
  | .num (.float _), h => by simp [noFloat] at h
  | .num (.lit _), _ => rfl
  | .str _, _ => rfl
  | .arr xs, h => by simp only [noFloat] at h; simp only [floatsRT]; exact floatsRTs_of_noFloats c ext xs h
  | .obj kvs, h => by simp only [noFloat] at h; simp only [floatsRT]; exact floatsRTm_of_noFloatm c ext kvs h
theorem floatsRTs_of_noFloats (c : Spec.Canon.Cfg) (ext : Ext) : ∀ xs : List JV, noFloats xs = true → floatsRTs c ext xs = true
  | [], _ => rfl
  | x :: xs, h => by
    simp only [noFloats, Bool.and_eq_true] at h
    simp [floatsRTs, floatsRT_of_noFloat c ext x h.1, floatsRTs_of_noFloats c ext xs h.2]
theorem floatsRTm_of_noFloatm (c : Spec.Canon.Cfg) (ext : Ext) : ∀ kvs : List (Bytes × JV), noFloatm kvs = true → floatsRTm c ext kvs = true
  | [], _ => rfl
  | (_, x) :: kvs, h => by
    simp only [noFloatm, Bool.and_eq_true] at h
    simp [floatsRTm, floatsRT_of_noFloat c ext x h.1, floatsRTm_of_noFloatm c ext kvs h.2]
end

/-! ## side conditions of completeness -/

variable (ext : Ext)

mutual
theorem depth_image : ∀ v : JV, depth (cstOf (imageOfValue ext v)) = depthJV v
  | .null => rfl
  | .bool true => rfl
  | .bool false => rfl
  | .num (.pos _) => rfl
  | .num (.neg _) => rfl
  | .num (.float b) => by simp only [imageOfValue]; split <;> rfl
  | .num (.lit _) => rfl
  | .str _ => rfl
  | .arr xs => by simp [imageOfValue, cstOf, depth, depthJV, depthList_image xs]
  | .obj kvs => by simp [imageOfValue, cstOf, depth, depthJV, depthMembers_image kvs]
theorem depthList_image : ∀ xs : List JV, depthList (cstOfList (imageOfValues ext xs)) = depthJVs xs
  | [] => rfl
  | x :: xs => by simp [imageOfValues, cstOfList, depthList, depthJVs, depth_image x, depthList_image xs]
theorem depthMembers_image : ∀ kvs : List (Bytes × JV), depthMembers (cstOfMembers (imageOfMembers ext kvs)) = depthJVm kvs
  | [] => rfl
  | (_, x) :: kvs => by
    simp [imageOfMembers, cstOfMembers, depthMembers, depthJVm, depth_image x, depthMembers_image kvs]
end

mutual
theorem surrogatesPaired_image : ∀ v : JV, surrogatesPaired (cstOf (imageOfValue ext v)) = true
  | .null => rfl
  | .bool true => rfl
  | .bool false => rfl
  | .num (.pos _) => rfl
  | .num (.neg _) => rfl
  | .num (.float b) => by simp only [imageOfValue]; split <;> rfl
  | .num (.lit _) => rfl
  | .str s => by simp [imageOfValue, cstOf, surrogatesPaired, surrogatesPairedStr_strItems]
  | .arr xs => by simp [imageOfValue, cstOf, surrogatesPaired, surrogatesPairedList_image xs]
  | .obj kvs => by simp [imageOfValue, cstOf, surrogatesPaired, surrogatesPairedMembers_image kvs]
theorem surrogatesPairedList_image : ∀ xs : List JV, surrogatesPairedList (cstOfList (imageOfValues ext xs)) = true
  | [] => rfl
  | x :: xs => by
    simp [imageOfValues, cstOfList, surrogatesPairedList, surrogatesPaired_image x, surrogatesPairedList_image xs]
theorem surrogatesPairedMembers_image : ∀ kvs : List (Bytes × JV),
    surrogatesPairedMembers (cstOfMembers (imageOfMembers ext kvs)) = true
  | [] => rfl
  | (k, x) :: kvs => by
    simp [imageOfMembers, cstOfMembers, surrogatesPairedMembers, surrogatesPairedStr_strItems,
      surrogatesPaired_image x, surrogatesPairedMembers_image kvs]
end

mutual
theorem stringsUtf8_image (c : Spec.Canon.Cfg) : ∀ v : JV, shapeOK c v = true →
    Spec.Canon.stringsUtf8 (cstOf (imageOfValue ext v)) = true
  | .null, _ => rfl
  | .bool true, _ => rfl
  | .bool false, _ => rfl
  | .num (.pos _), _ => rfl
  | .num (.neg _), _ => rfl
  | .num (.float b), _ => by simp only [imageOfValue]; split <;> rfl
  | .num (.lit _), _ => rfl
  | .str s, h => by
    simp only [shapeOK] at h
    simp [imageOfValue, cstOf, Spec.Canon.stringsUtf8, decode_strItems, h]
  | .arr xs, h => by
    simp only [shapeOK] at h
    simp [imageOfValue, cstOf, Spec.Canon.stringsUtf8, stringsUtf8List_image c xs h]
  | .obj kvs, h => by
    simp only [shapeOK, Bool.and_eq_true] at h
    simp [imageOfValue, cstOf, Spec.Canon.stringsUtf8, stringsUtf8Members_image c kvs h.2]
theorem stringsUtf8List_image (c : Spec.Canon.Cfg) : ∀ xs : List JV, shapeOKs c xs = true →
    Spec.Canon.stringsUtf8List (cstOfList (imageOfValues ext xs)) = true
  | [], _ => rfl
  | x :: xs, h => by
    simp only [shapeOKs, Bool.and_eq_true] at h
    simp [imageOfValues, cstOfList, Spec.Canon.stringsUtf8List, stringsUtf8_image c x h.1, stringsUtf8List_image c xs h.2]
theorem stringsUtf8Members_image (c : Spec.Canon.Cfg) : ∀ kvs : List (Bytes × JV), shapeOKm c kvs = true →
    Spec.Canon.stringsUtf8Members (cstOfMembers (imageOfMembers ext kvs)) = true
  | [], _ => rfl
  | (k, x) :: kvs, h => by
    simp only [shapeOKm, Bool.and_eq_true] at h
    simp [imageOfMembers, cstOfMembers, Spec.Canon.stringsUtf8Members, decode_strItems, h.1.1,
      stringsUtf8_image c x h.1.2, stringsUtf8Members_image c kvs h.2]
end

/-! ## whatever has a denotation has its numbers in range -/

mutual
theorem numbersInRange_of_canonM (cfg : Cfg) : ∀ (t : CST) (v : JV), canonM cfg t = some v →
    Spec.Canon.numbersInRange (specCfg cfg) t = true
  | .null, _, _ => rfl
  | .true_, _, _ => rfl
  | .false_, _, _ => rfl
  | .num p, v, h => by
    simp only [canonM, Option.map_eq_some_iff] at h
    obtain ⟨n, hn, _⟩ := h
    simp [Spec.Canon.numbersInRange, hn]
  | .str _, _, _ => rfl
  | .arr xs, v, h => by
    simp only [canonM, Option.map_eq_some_iff] at h
    obtain ⟨vs, hvs, _⟩ := h
    simp only [Spec.Canon.numbersInRange]
    exact numbersInRangeList_of_canonM cfg xs vs hvs
  | .obj ms, v, h => by
    simp only [canonM, Option.map_eq_some_iff] at h
    obtain ⟨kvs, hkvs, _⟩ := h
    simp only [Spec.Canon.numbersInRange]
    exact numbersInRangeMembers_of_canonM cfg ms kvs hkvs
theorem numbersInRangeList_of_canonM (cfg : Cfg) : ∀ (ts : List CST) (vs : List JV), canonMList cfg ts = some vs →
    Spec.Canon.numbersInRangeList (specCfg cfg) ts = true
  | [], _, _ => rfl
  | t :: ts, vs, h => by
    simp only [canonMList] at h
    split at h
    · rename_i v vs' hv hvs
      simp [Spec.Canon.numbersInRangeList, numbersInRange_of_canonM cfg t v hv,
        numbersInRangeList_of_canonM cfg ts vs' hvs]
    · cases h
theorem numbersInRangeMembers_of_canonM (cfg : Cfg) : ∀ (ms : List (List StrItem × CST)) (kvs : List (Bytes × JV)),
    canonMMembers cfg ms = some kvs → Spec.Canon.numbersInRangeMembers (specCfg cfg) ms = true
  | [], _, _ => rfl
  | (k, t) :: ms, kvs, h => by
    simp only [canonMMembers] at h
    split at h
    · rename_i kb v r hk hv hr
      simp [Spec.Canon.numbersInRangeMembers, numbersInRange_of_canonM cfg t v hv,
        numbersInRangeMembers_of_canonM cfg ms r hr]
    · cases h
end

end SJ.Proofs.RoundTrip

/-! ## consequences of the representation invariant used by the composition -/
namespace SJ.Proofs.RoundTrip
open SJ SJ.Spec.Image SJ.Spec.Program SJ.Spec.WF

mutual
theorem valueLitsOK_of_shapeOK (c : Spec.Canon.Cfg) : ∀ v : JV, shapeOK c v = true → valueLitsOK v = true
  | .null, _ => rfl
  | .bool _, _ => rfl
  | .num (.pos _), _ => rfl
  | .num (.neg _), _ => rfl
  | .num (.float _), _ => rfl
  | .num (.lit s), h => by
    simp only [shapeOK, wfNum, Bool.and_eq_true] at h
    simpa [valueLitsOK] using h.2
  | .str _, _ => rfl
  | .arr xs, h => by simp only [shapeOK] at h; simp only [valueLitsOK]; exact valuesLitsOK_of_shapeOKs c xs h
  | .obj kvs, h => by
    simp only [shapeOK, Bool.and_eq_true] at h; simp only [valueLitsOK]; exact membersLitsOK_of_shapeOKm c kvs h.2
theorem valuesLitsOK_of_shapeOKs (c : Spec.Canon.Cfg) : ∀ xs : List JV, shapeOKs c xs = true → valuesLitsOK xs = true
  | [], _ => rfl
  | x :: xs, h => by
    simp only [shapeOKs, Bool.and_eq_true] at h
    simp [valuesLitsOK, valueLitsOK_of_shapeOK c x h.1, valuesLitsOK_of_shapeOKs c xs h.2]
theorem membersLitsOK_of_shapeOKm (c : Spec.Canon.Cfg) : ∀ kvs : List (Bytes × JV), shapeOKm c kvs = true → membersLitsOK kvs = true
  | [], _ => rfl
  | (_, x) :: kvs, h => by
    simp only [shapeOKm, Bool.and_eq_true] at h
    simp [membersLitsOK, valueLitsOK_of_shapeOK c x h.1.2, membersLitsOK_of_shapeOKm c kvs h.2]
end

mutual
/-- if the printer/parser pair returns every finite double, it returns those of a well-formed value -/
theorem floatsRT_of_all (c : Spec.Canon.Cfg) (ext : Ext) (hall : ∀ b, finite64 b = true → floatRT c ext b = true) :
    ∀ v : JV, shapeOK c v = true → floatsRT c ext v = true
  | .null, _ => rfl
  | .bool _, _ => rfl
  | .num (.pos _), _ => rfl
  | .num (.neg _), _ => rfl
  | .num (.float b), h => by
    simp only [shapeOK, wfNum, Bool.and_eq_true] at h
    simp only [floatsRT]; exact hall b h.2
  | .num (.lit _), _ => rfl
  | .str _, _ => rfl
  | .arr xs, h => by simp only [shapeOK] at h; simp only [floatsRT]; exact floatsRTs_of_all c ext hall xs h
  | .obj kvs, h => by
    simp only [shapeOK, Bool.and_eq_true] at h; simp only [floatsRT]; exact floatsRTm_of_all c ext hall kvs h.2
theorem floatsRTs_of_all (c : Spec.Canon.Cfg) (ext : Ext) (hall : ∀ b, finite64 b = true → floatRT c ext b = true) :
    ∀ xs : List JV, shapeOKs c xs = true → floatsRTs c ext xs = true
  | [], _ => rfl
  | x :: xs, h => by
    simp only [shapeOKs, Bool.and_eq_true] at h
    simp [floatsRTs, floatsRT_of_all c ext hall x h.1, floatsRTs_of_all c ext hall xs h.2]
theorem floatsRTm_of_all (c : Spec.Canon.Cfg) (ext : Ext) (hall : ∀ b, finite64 b = true → floatRT c ext b = true) :
    ∀ kvs : List (Bytes × JV), shapeOKm c kvs = true → floatsRTm c ext kvs = true
  | [], _ => rfl
  | (_, x) :: kvs, h => by
    simp only [shapeOKm, Bool.and_eq_true] at h
    simp [floatsRTm, floatsRT_of_all c ext hall x h.1.2, floatsRTm_of_all c ext hall kvs h.2]
end

mutual
/-- under `arbitrary_precision` a well-formed value holds literals only: no `Float` -/
theorem noFloat_of_ap (c : Spec.Canon.Cfg) (hap : c.ap = true) : ∀ v : JV, shapeOK c v = true → noFloat v = true
  | .null, _ => rfl
  | .bool _, _ => rfl
  | .num (.pos _), _ => rfl
  | .num (.neg _), _ => rfl
  | .num (.float b), h => by simp [shapeOK, wfNum, hap] at h
  | .num (.lit _), _ => rfl
  | .str _, _ => rfl
  | .arr xs, h => by simp only [shapeOK] at h; simp only [noFloat]; exact noFloats_of_ap c hap xs h
  | .obj kvs, h => by
    simp only [shapeOK, Bool.and_eq_true] at h; simp only [noFloat]; exact noFloatm_of_ap c hap kvs h.2
theorem noFloats_of_ap (c : Spec.Canon.Cfg) (hap : c.ap = true) : ∀ xs : List JV, shapeOKs c xs = true → noFloats xs = true
  | [], _ => rfl
  | x :: xs, h => by
    simp only [shapeOKs, Bool.and_eq_true] at h
    simp [noFloats, noFloat_of_ap c hap x h.1, noFloats_of_ap c hap xs h.2]
theorem noFloatm_of_ap (c : Spec.Canon.Cfg) (hap : c.ap = true) : ∀ kvs : List (Bytes × JV), shapeOKm c kvs = true → noFloatm kvs = true
  | [], _ => rfl
  | (_, x) :: kvs, h => by
    simp only [shapeOKm, Bool.and_eq_true] at h
    simp [noFloatm, noFloat_of_ap c hap x h.1.2, noFloatm_of_ap c hap kvs h.2]
end

end SJ.Proofs.RoundTrip
