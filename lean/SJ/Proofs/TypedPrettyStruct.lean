import SJ.Proofs.TypedPrettyMap
/-!
# The text leg on a layout of a value: structs from objects (derive's `visit_map`)

(The array form of a struct is not written by `Serialize`; `agree_struct_L` is stated for values that are not arrays.)
-/
set_option linter.unusedSectionVars false
set_option linter.unusedVariables false

namespace SJ.Proofs.TypedPretty
open SJ SJ.Gen SJ.Model SJ.Model.Typed
open SJ.Model.Stream (skipWs)
open SJ.Spec.Image (quote)
open SJ.Proofs.Typed

variable (ext : Spec.Program.Ext) (L : Lay)

section
variable (hext : Spec.Program.ExtOK ext)
variable {env : Env} (hflt : env.flt = false) (cfg' : FromValue.Cfg) (hap : cfg'.ap = false) (ext' : FromValue.Ext)

include hext hflt hap in
/-- derive's struct `visit_map` loop over an object in the layout, against `structMapLoop` with `fieldDe` -/
theorem structLoop_text_L (d f t : Nat) (fs : List (Bytes × Schema)) (deny : Bool) {C : Bytes} (hC : WsB C) :
    ∀ (kvs : List (Bytes × JV)),
      (∀ kv ∈ kvs, Spec.Utf8.validUtf8 kv.1 = true ∧ shapeW kv.2 = true ∧
        ∀ i nm s, FromValue.nameIndex (fieldNames fs) kv.1 = some i → fs[i]? = some (nm, s) →
          Agree1 (deTyped env f t s) (FromValue.fromValue cfg' ext' s kv.2) (TL ext L d kv.2)) →
    (deny = false → ∀ kv ∈ kvs, FromValue.nameIndex (fieldNames fs) kv.1 ≠ none) →
    ∀ (first : Bool) (slots : List (Option TVal)) (n : Nat) (rest : Bytes) (pos : Nat),
      (LM ext L d first kvs ++ (C ++ 0x7d :: rest)).length < n →
      match FromValue.structMapLoop (FromValue.fieldDe cfg' ext' fs) deny kvs slots with
      | .ok slots' => structLoop env (deTyped env f t) fs deny n first slots (LM ext L d first kvs ++ (C ++ 0x7d :: rest)) pos =
          .ok slots' (0x7d :: rest) (pos + (LM ext L d first kvs).length + C.length)
      | .error _ => ∀ a r p,
          structLoop env (deTyped env f t) fs deny n first slots (LM ext L d first kvs ++ (C ++ 0x7d :: rest)) pos ≠ .ok a r p := by
  intro kvs
  induction kvs with
  | nil =>
    intro _ _ first slots n rest pos hn
    cases n with
    | zero => omega
    | succ n =>
      simp only [FromValue.structMapLoop, LM_nil, List.nil_append, List.length_nil, Nat.add_zero]
      unfold structLoop
      rw [hasNextKey_close_pad first hC]
      simp [Res.bind]
  | cons kv kvs ih =>
    intro hx hknown first slots n rest pos hn
    obtain ⟨k, x⟩ := kv
    obtain ⟨hu, hsx, hag⟩ := hx (k, x) (by simp)
    have ih' := ih (fun y hy => hx y (by simp [hy])) (fun hd y hy => hknown hd y (by simp [hy]))
    cases n with
    | zero => omega
    | succ n =>
      have htxt : LM ext L d first ((k, x) :: kvs) ++ (C ++ 0x7d :: rest) =
          (if first then [] else [0x2c]) ++ (L.sep d ++ (quote k ++ 0x3a :: (L.gap ++ (TL ext L d x ++
            (LMtail ext L d kvs ++ (C ++ 0x7d :: rest)))))) := by
        rw [LM_cons]; simp [List.append_assoc]
      have hlen : (LM ext L d first ((k, x) :: kvs)).length =
          (if first then 0 else 1) + (L.sep d).length + (quote k).length + 1 + L.gap.length + (TL ext L d x).length +
            (LMtail ext L d kvs).length := by
        rw [LM_cons]; cases first <;> simp <;> omega
      -- the recursive call on the remaining members, whatever the slots
      have hrec := fun slots' => ih' false slots' n rest
        (pos + (if first then 0 else 1) + (L.sep d).length + (quote k).length + 1 + L.gap.length + (TL ext L d x).length) (by
        rw [htxt] at hn
        simp only [LM, Bool.false_eq_true, if_false]
        simp only [List.length_append, List.length_cons] at hn ⊢
        omega)
      simp only [LM, Bool.false_eq_true, if_false] at hrec
      rw [htxt]
      unfold structLoop
      rw [hasNextKey_member_L]
      simp only [Res.bind, Bool.not_true, Bool.false_eq_true, if_false]
      rw [parseStr_key hflt k _ hu]
      simp only [FromValue.structMapLoop]
      have hspec := fieldDe_spec cfg' ext' k x fs
      cases hni : FromValue.nameIndex (fieldNames fs) k with
      | some i =>
        rw [hni] at hspec
        obtain ⟨nm, s, hfi, hfd⟩ := hspec
        simp only [hfd]
        cases hslot : slots.getD i none with
        | some old => simp [FromValue.fail]
        | none =>
          simp only [Res.bind, parseObjectColon_colon, hfi]
          rw [deTyped_pad f t s L.gap L.hgap]
          have hel := hag i nm s hni hfi (LMtail ext L d kvs ++ (C ++ 0x7d :: rest))
            (pos + (if first then 0 else 1) + (L.sep d).length + (quote k).length + 1 + L.gap.length)
            (sepOK_mtail_L ext L d kvs hC rest)
          cases hfx : FromValue.fromValue cfg' ext' s x with
          | error e =>
            rw [hfx] at hel
            simp only at hel ⊢
            exact bind_not_ok hel
          | ok y =>
            rw [hfx] at hel
            simp only at hel ⊢
            rw [hel]
            simp only [Res.bind]
            have hr := hrec (slots.set i (some y))
            cases hall : FromValue.structMapLoop (FromValue.fieldDe cfg' ext' fs) deny kvs (slots.set i (some y)) with
            | error e =>
              rw [hall] at hr
              exact hr
            | ok sl =>
              rw [hall] at hr
              simp only at hr ⊢
              rw [hr, hlen]
              congr 1
              omega
      | none =>
        rw [hni] at hspec
        simp only [hspec]
        cases deny with
        | true => simp [FromValue.fail]
        | false => exact absurd hni (hknown rfl (k, x) (by simp))

include hext hflt hap in
/-- structs: `deserialize_struct` from an object against `from_value` (every member names a field unless unknown fields are
    denied: an unknown member would be skipped by `ignore_value`, which is not treated for a layout here) -/
theorem agree_struct_L (d : Nat) (fs : List (Bytes × Schema)) (deny : Bool) (f t : Nat) (v : JV) (hv : VOK v) (hd : DepthOK env t v)
    (hna : ∀ xs, v ≠ .arr xs)
    (hknown : deny = false → ∀ kvs, v = .obj kvs → ∀ kv ∈ kvs, FromValue.nameIndex (fieldNames fs) kv.1 ≠ none)
    (iho : ∀ kvs, v = .obj kvs → ∀ kv ∈ kvs, ∀ i nm s, FromValue.nameIndex (fieldNames fs) kv.1 = some i → fs[i]? = some (nm, s) →
      Agree1 (deTyped env f (t + 1) s) (FromValue.fromValue cfg' ext' s kv.2) (TL ext L (d + 1) kv.2)) :
    Agree1 (deTyped env (f + 1) t (.struct_ fs deny)) (FromValue.fromValue cfg' ext' (.struct_ fs deny) v) (TL ext L d v) := by
  intro rest pos hs
  obtain ⟨c, tl, hT, hc⟩ := TL_head ext L hext d v hv
  have hw := (headOf_facts hc).1
  have ht := headOf_tests hc
  rw [deTyped_struct]
  cases v with
  | arr xs => exact absurd rfl (hna xs)
  | obj kvs =>
    have hel : ∀ kv ∈ kvs, Spec.Utf8.validUtf8 kv.1 = true ∧ shapeW kv.2 = true ∧
        ∀ i nm s, FromValue.nameIndex (fieldNames fs) kv.1 = some i → fs[i]? = some (nm, s) →
          Agree1 (deTyped env f (t + 1) s) (FromValue.fromValue cfg' ext' s kv.2) (TL ext L (d + 1) kv.2) :=
      fun kv hx => ⟨(vok_member kvs kv hx hv).1, (vok_member kvs kv hx hv).2, fun i nm s h1 h2 => iho kvs rfl kv hx i nm s h1 h2⟩
    have key : ∃ C, WsB C ∧ TL ext L d (.obj kvs) = 0x7b :: (LM ext L (d + 1) true kvs ++ (C ++ [0x7d])) := by
      cases kvs with
      | nil => exact ⟨[], wsB_nil, by rw [TL_obj_nil]; rfl⟩
      | cons kv kvs => exact ⟨L.sep d, L.hsep d, by rw [TL_obj_cons]; rfl⟩
    obtain ⟨C, hC, hTa⟩ := key
    have hloop := structLoop_text_L ext L hext hflt cfg' hap ext' (d + 1) f (t + 1) fs deny hC kvs hel
      (fun hdn kv hkv => hknown hdn kvs rfl kv hkv) true (fs.map fun _ => none)
      ((LM ext L (d + 1) true kvs ++ (C ++ 0x7d :: rest)).length + 1) rest (pos + 1) (by omega)
    have hde : deStruct env t (deTyped env f) fs deny (0x7b :: (LM ext L (d + 1) true kvs ++ (C ++ 0x7d :: rest))) pos =
        closeWith env (endMap env) (structVisitMap env (deTyped env f (t + 1)) fs deny
          (LM ext L (d + 1) true kvs ++ (C ++ 0x7d :: rest)) (pos + 1)) := by
      unfold deStruct
      rw [withPeek_cons env _ (by decide)]
      simp only [show ((0x7b : UInt8) == 0x5b) = false by decide, beq_self_eq_true, if_true, tooDeep_false_obj t kvs hd, Bool.false_eq_true, if_false]
    have hTo : TL ext L d (.obj kvs) ++ rest = 0x7b :: (LM ext L (d + 1) true kvs ++ (C ++ 0x7d :: rest)) := by rw [hTa]; simp
    have hlenT : (TL ext L d (.obj kvs)).length = 1 + (LM ext L (d + 1) true kvs).length + C.length + 1 := by
      rw [hTa]; simp; omega
    simp only [FromValue.fromValue, FromValue.structFromMap]
    rw [hTo]
    unfold structVisitMap at hde
    cases hall : FromValue.structMapLoop (FromValue.fieldDe cfg' ext' fs) deny kvs (fs.map fun _ => none) with
    | error e =>
      rw [hall] at hloop
      simp only at hloop ⊢
      intro x r p
      rw [hde]
      exact closeWith_not_ok _ (bind_not_ok hloop) x r p
    | ok slots =>
      rw [hall] at hloop
      simp only at hloop ⊢
      rw [hloop] at hde
      simp only [Res.bind] at hde
      cases hfin : FromValue.finishFields fs slots with
      | error e => simp only [Except.map]; intro x r p; rw [hde, hfin]; simp [closeWith]
      | ok vs =>
        simp only [Except.map]
        rw [hde, hfin]
        simp only [closeWith, endMap_close, Res.bind, hlenT]
        congr 1
        omega
  | null | bool _ | num _ | str _ =>
    simp only [FromValue.fromValue, FromValue.fail]
    intro x r p
    rw [hT]
    simp only [List.cons_append]
    unfold deStruct
    rw [withPeek_cons env _ hw]
    simp only [ht.2.2.2.2.2.2.1, ht.2.2.2.2.2.2.2.1, Bool.false_eq_true, if_false]
    exact peekInvalidType_not_ok _ _ _ _ _ _

end

end SJ.Proofs.TypedPretty
