import SJ.Proofs.Earliest
import SJ.Proofs.Sound.Sound
/-!
# What a successful step can produce

Two facts about reachable states that the shape invariant `Inv` does not record:

* a literal in progress always has letters left (`step_lit_ne`);
* a `\u` group with `k > 0` digits read was, one byte earlier, the same group with `k - 1` digits
  (`step_hex_back`) — so the state right after `\u` can be recovered from any later state of the
  group (`feeds_unhex`).
-/
namespace SJ.Proofs.Earliest
open SJ SJ.Gen SJ.Model.Machine SJ.Proofs.Machine SJ.Proofs.Complete

/-- the result of a step that did not come from a string state: a string just opened, a literal
    with letters left -/
def PlainOut (s' : St) : Prop :=
  (∀ st', s'.mode = .str st' → st'.esc = .none) ∧ (∀ rest v, s'.mode = .lit rest v → rest ≠ [])

theorem plain_complete (fs : List Frame) (v : JV) : PlainOut (complete fs v) := by
  unfold complete; split <;> simp [PlainOut]

theorem closeArr_plain (env : Env) (s s' : St) (h : closeArr env s = .next s') : PlainOut s' := by
  unfold closeArr at h; split at h <;> simp at h; subst h; exact plain_complete _ _

theorem closeObj_plain (env : Env) (s s' : St) (h : closeObj env s = .next s') : PlainOut s' := by
  unfold closeObj at h; split at h <;> simp at h; subst h; exact plain_complete _ _

theorem startValue_plain (env : Env) (s : St) (b : UInt8) (s' : St)
    (h : startValue env s b = .next s') : PlainOut s' := by
  unfold startValue at h
  repeat' split at h
  all_goals first
    | (simp at h; done)
    | (simp only [Step.next.injEq] at h; subst h; simp [PlainOut, Gen.identNull, Gen.identTrue, Gen.identFalse])

theorem stepNum_plain (env : Env) (s : St) (n : NumSt) (b : UInt8) (s' : St)
    (h : stepNum env s n b = .next s') : PlainOut s' := by
  unfold stepNum at h
  simp only at h
  repeat' split at h
  all_goals first
    | (simp at h; done)
    | (simp only [Step.next.injEq] at h; subst h; simp [PlainOut])

theorem startValue_not_again (env : Env) (s : St) (b : UInt8) (s' : St) :
    startValue env s b ≠ .again s' := by
  unfold startValue
  repeat' split
  all_goals simp

/-- a re-dispatch happens only when a number ends: the intermediate state is a completed value -/
theorem step1_again (env : Env) (s : St) (b : UInt8) (s0 : St) (h : step1 env s b = .again s0) :
    ∃ v, s0 = complete s.stack v := by
  unfold step1 at h
  split at h
  · repeat' split at h
    all_goals first
      | (simp at h; done)
      | exact absurd h (closeArr_not_again env _ _)
      | exact absurd h (startValue_not_again env _ _ _)
  · repeat' split at h
    all_goals (simp at h)
  · rename_i n _
    obtain ⟨he, _⟩ := Sound.stepNum_again env s n b s0 h
    exact endNumber_ok env s n s0 he
  · exact absurd h (Sound.stepStr_not_again env _ _ _ _)
  all_goals
    repeat' split at h
    all_goals first
      | (simp at h; done)
      | exact absurd h (closeArr_not_again env _ _)
      | exact absurd h (closeObj_not_again env _ _)

/-- steps from a state that is not inside a string -/
theorem step1_plain (env : Env) (s : St) (b : UInt8) (s' : St) (hm : ∀ st, s.mode ≠ .str st)
    (h : step1 env s b = .next s') : PlainOut s' := by
  unfold step1 at h
  split at h
  · rename_i ctx hmode
    repeat' split at h
    all_goals first
      | (simp at h; done)
      | exact closeArr_plain env _ _ h
      | exact startValue_plain env _ _ _ h
      | (simp only [Step.next.injEq] at h; subst h; simp [PlainOut, hmode])
  · rename_i rest v hmode
    repeat' split at h
    all_goals first
      | (simp at h; done)
      | (simp only [Step.next.injEq] at h; subst h; exact plain_complete _ _)
      | (rename_i hne; simp only [Step.next.injEq] at h; subst h; simp [PlainOut]; intro e; subst e; simp at hne)
  · exact stepNum_plain env _ _ _ _ h
  · rename_i st hmode; exact absurd hmode (hm st)
  all_goals
    rename_i hmode
    repeat' split at h
    all_goals first
      | (simp at h; done)
      | exact closeArr_plain env _ _ h
      | exact closeObj_plain env _ _ h
      | (simp only [Step.next.injEq] at h; subst h; simp [PlainOut, hmode])

theorem endStr_plain (env : Env) (s : St) (st : StrSt) (s' : St) (h : endStr env s st = .next s') :
    PlainOut s' := by
  unfold endStr at h
  simp only at h
  repeat' split at h
  all_goals first
    | (simp at h; done)
    | (simp only [Step.next.injEq] at h; subst h; first | exact plain_complete _ _ | simp [PlainOut])

/-- steps inside a string: no literal comes out, and a non-empty hex group comes from the group one
    digit shorter -/
theorem stepStr_out (env : Env) (s : St) (st : StrSt) (b : UInt8) (s' : St)
    (h : stepStr env s st b = .next s') :
    (∀ rest v, s'.mode = .lit rest v → rest ≠ []) ∧
    ∀ st' acc lead, s'.mode = .str st' → st'.esc = .hex acc lead → acc ≠ [] →
      ∃ acc0, st.esc = .hex acc0 lead ∧ acc = acc0 ++ [b] ∧ st' = { st with esc := .hex acc lead } ∧
        s'.stack = s.stack := by
  unfold stepStr at h
  simp only at h
  repeat' split at h
  all_goals first
    | (simp at h; done)
    | (have hp := endStr_plain env s st s' h
       refine ⟨hp.2, fun st' acc lead hm he _ => ?_⟩
       have := hp.1 st' hm; rw [this] at he; cases he)
    | (simp only [Step.next.injEq] at h; subst h
       refine ⟨by simp, fun st' acc lead hm he hne => ?_⟩
       simp only [Mode.str.injEq] at hm; subst hm
       try simp only [EscSt.hex.injEq, reduceCtorEq] at he
       all_goals first
         | (exact he.elim)
         | (simp_all; done)
         | (obtain ⟨rfl, rfl⟩ := he; simp at hne)
         | (rename_i acc0 lead0 _ _; obtain ⟨rfl, rfl⟩ := he
            exact ⟨acc0, by assumption, rfl, rfl, rfl⟩))

/-! ## whole steps -/

theorem complete_not_str (fs : List Frame) (v : JV) (st : StrSt) : (complete fs v).mode ≠ .str st := by
  unfold complete; split <;> simp

/-- what a successful step yields: from outside a string a `PlainOut` state; from inside a string
    the facts of `stepStr_out` -/
theorem step_out (env : Env) (s : St) (b : UInt8) (s' : St) (h : step env s b = .ok s') :
    (∀ rest v, s'.mode = .lit rest v → rest ≠ []) ∧
    ∀ st' acc lead, s'.mode = .str st' → st'.esc = .hex acc lead → acc ≠ [] →
      ∃ st acc0, s = ⟨.str st, s'.stack⟩ ∧ st.esc = .hex acc0 lead ∧ acc = acc0 ++ [b] ∧
        st' = { st with esc := .hex acc lead } := by
  have plain : PlainOut s' → (∀ rest v, s'.mode = .lit rest v → rest ≠ []) ∧
      ∀ st' acc lead, s'.mode = .str st' → st'.esc = .hex acc lead → acc ≠ [] →
        ∃ st acc0, s = ⟨.str st, s'.stack⟩ ∧ st.esc = .hex acc0 lead ∧ acc = acc0 ++ [b] ∧
          st' = { st with esc := .hex acc lead } := by
    intro hp
    refine ⟨hp.2, fun st' acc lead hm he _ => ?_⟩
    have := hp.1 st' hm; rw [this] at he; cases he
  unfold step at h
  split at h
  · rename_i s1 h1
    simp only [Except.ok.injEq] at h; subst h
    by_cases hm : ∃ st, s.mode = .str st
    · obtain ⟨st, hm⟩ := hm
      obtain ⟨mode, fs⟩ := s
      simp only at hm; subst hm
      have h2 : stepStr env ⟨.str st, fs⟩ st b = .next s1 := h1
      obtain ⟨ha, hb⟩ := stepStr_out env _ st b s1 h2
      refine ⟨ha, fun st' acc lead hm he hne => ?_⟩
      obtain ⟨acc0, e1, e2, e3, e4⟩ := hb st' acc lead hm he hne
      exact ⟨st, acc0, by simp only at e4; rw [e4], e1, e2, e3⟩
    · exact plain (step1_plain env s b s1 (fun st hst => hm ⟨st, hst⟩) h1)
  · simp at h
  · rename_i s0 h0
    obtain ⟨v, rfl⟩ := step1_again env s b s0 h0
    split at h
    · rename_i s2 h2
      simp only [Except.ok.injEq] at h; subst h
      exact plain (step1_plain env _ b s2 (fun st => complete_not_str _ _ st) h2)
    · simp at h
    · simp at h

theorem step_lit_ne (env : Env) (s : St) (b : UInt8) (s' : St) (h : step env s b = .ok s')
    (rest : Bytes) (v : JV) (hm : s'.mode = .lit rest v) : rest ≠ [] :=
  (step_out env s b s' h).1 rest v hm

/-- literals in progress have letters left, in every state reached by feeding -/
def LitNE (s : St) : Prop := ∀ rest v, s.mode = .lit rest v → rest ≠ []

theorem feeds_litNE (env : Env) (s s' : St) (xs : Bytes) (h : Feeds env s xs s') (hs : LitNE s) :
    LitNE s' := by
  induction xs generalizing s with
  | nil => simp only [Feeds, feedS, Except.ok.injEq] at h; subst h; exact hs
  | cons b bs ih =>
    unfold Feeds at h
    simp only [feedS] at h
    cases hst : step env s b with
    | ok s1 => rw [hst] at h; exact ih s1 h (fun rest v hm => step_lit_ne env s b s1 hst rest v hm)
    | error e => rw [hst] at h; cases h

theorem litNE_init : LitNE init := by intro rest v hm; simp [init] at hm

/-! ## recovering the state right after `\u` -/

theorem feeds_snoc {env : Env} {s s' : St} {xs : Bytes} {b : UInt8} (h : Feeds env s (xs ++ [b]) s') :
    ∃ s1, Feeds env s xs s1 ∧ step env s1 b = .ok s' := by
  induction xs generalizing s with
  | nil =>
    unfold Feeds at h
    simp only [List.nil_append, feedS] at h
    cases hst : step env s b with
    | ok s1 =>
      rw [hst] at h; simp only [Except.ok.injEq] at h; subst h
      exact ⟨s, Feeds.nil _ _, hst⟩
    | error e => rw [hst] at h; cases h
  | cons x xs ih =>
    unfold Feeds at h
    simp only [List.cons_append, feedS] at h
    cases hst : step env s x with
    | ok s1 =>
      rw [hst] at h
      obtain ⟨s2, h2, h3⟩ := ih h
      exact ⟨s2, Feeds.cons hst h2, h3⟩
    | error e => rw [hst] at h; cases h

/-- a state inside a `\\u` group with digits `acc` read: the input ends with `acc`, and before
    those bytes the machine was in the same string state with no digit read -/
theorem feeds_unhex (env : Env) (s0 : St) (hs0 : ∀ st, s0.mode ≠ .str st) (n : Nat) :
    ∀ (acc : List UInt8) (p : Bytes) (st : StrSt) (fs : List Frame) (lead : Option Nat),
      acc.length = n → Feeds env s0 p ⟨.str st, fs⟩ → st.esc = .hex acc lead →
      ∃ q, p = q ++ acc ∧ Feeds env s0 q ⟨.str { st with esc := .hex [] lead }, fs⟩ := by
  induction n with
  | zero =>
    intro acc p st fs lead hn hf he
    have : acc = [] := List.eq_nil_of_length_eq_zero hn
    subst this
    refine ⟨p, by simp, ?_⟩
    have : ({ st with esc := .hex [] lead } : StrSt) = st := by
      obtain ⟨o, esc, k, e⟩ := st; simp only at he; subst he; rfl
    rw [this]; exact hf
  | succ n ih =>
    intro acc p st fs lead hn hf he
    rcases List.eq_nil_or_concat acc with rfl | ⟨acc0, x, rfl⟩
    · simp at hn
    rw [List.concat_eq_append] at hn he ⊢
    rcases List.eq_nil_or_concat p with rfl | ⟨p0, b, rfl⟩
    · simp only [Feeds, feedS, Except.ok.injEq] at hf
      exact absurd (by rw [hf]) (hs0 st)
    · rw [List.concat_eq_append] at hf ⊢
      obtain ⟨s1, hf1, hst⟩ := feeds_snoc hf
      obtain ⟨st1, acc1, rfl, he1, hacc, hst'⟩ :=
        (step_out env s1 b _ hst).2 st (acc0 ++ [x]) lead rfl he (by simp)
      have hx : acc1 = acc0 ∧ b = x := by
        have := List.append_inj' hacc.symm rfl
        exact ⟨this.1, by simpa using this.2⟩
      obtain ⟨rfl, rfl⟩ := hx
      obtain ⟨q, rfl, hq⟩ := ih acc1 p0 st1 fs lead (by simpa using hn) hf1 he1
      refine ⟨q, by simp, ?_⟩
      have : ({ st with esc := .hex [] lead } : StrSt) = { st1 with esc := .hex [] lead } := by
        rw [hst']
      rw [this]; exact hq

end SJ.Proofs.Earliest
