import SJ.Proofs.TypedAgreePad
import SJ.Proofs.FromValue
/-!
# The text leg of C16 on `Value` targets: `deserialize_any` with `Value`'s visitor (the machine on the padding frames of the
# typed containers around it) on a printed value returns the value — what `from_value::<Value>` returns
-/
set_option linter.unusedSectionVars false
set_option linter.unusedVariables false

namespace SJ.Proofs.Typed
open SJ SJ.Gen SJ.Model SJ.Model.Typed
open SJ.Spec.Image (render imageOfValue cstOf)
open SJ.Proofs.Complete (numCont Side Res)

mutual
theorem shapeOK_congr (c1 c2 : Spec.Canon.Cfg) (hpo : c1.po = c2.po) (hap : c1.ap = c2.ap) :
    ∀ v : JV, Spec.WF.shapeOK c1 v = Spec.WF.shapeOK c2 v
  | .null | .bool _ | .str _ => rfl
  | .num n => by cases n <;> simp [Spec.WF.shapeOK, Spec.WF.wfNum, hap]
  | .arr xs => by simp only [Spec.WF.shapeOK]; exact shapeOKs_congr c1 c2 hpo hap xs
  | .obj kvs => by simp only [Spec.WF.shapeOK, Spec.WF.keysOK, hpo]; rw [shapeOKm_congr c1 c2 hpo hap kvs]
theorem shapeOKs_congr (c1 c2 : Spec.Canon.Cfg) (hpo : c1.po = c2.po) (hap : c1.ap = c2.ap) :
    ∀ xs : List JV, Spec.WF.shapeOKs c1 xs = Spec.WF.shapeOKs c2 xs
  | [] => rfl
  | x :: xs => by simp only [Spec.WF.shapeOKs]; rw [shapeOK_congr c1 c2 hpo hap x, shapeOKs_congr c1 c2 hpo hap xs]
theorem shapeOKm_congr (c1 c2 : Spec.Canon.Cfg) (hpo : c1.po = c2.po) (hap : c1.ap = c2.ap) :
    ∀ kvs : List (Bytes × JV), Spec.WF.shapeOKm c1 kvs = Spec.WF.shapeOKm c2 kvs
  | [] => rfl
  | (k, x) :: kvs => by simp only [Spec.WF.shapeOKm]; rw [shapeOK_congr c1 c2 hpo hap x, shapeOKm_congr c1 c2 hpo hap kvs]
end

mutual
theorem finiteFloats_of_noFloat : ∀ v : JV, Spec.WF.noFloat v = true → FromValue.finiteFloats v = true
  | .null, _ | .bool _, _ | .str _, _ => rfl
  | .num n, h => by cases n <;> simp_all [Spec.WF.noFloat, FromValue.finiteFloats]
  | .arr xs, h => by simp only [Spec.WF.noFloat, FromValue.finiteFloats] at h ⊢; exact finiteFloatsList_of_noFloats xs h
  | .obj kvs, h => by simp only [Spec.WF.noFloat, FromValue.finiteFloats] at h ⊢; exact finiteFloatsMembers_of_noFloatm kvs h
theorem finiteFloatsList_of_noFloats : ∀ xs : List JV, Spec.WF.noFloats xs = true → FromValue.finiteFloatsList xs = true
  | [], _ => rfl
  | x :: xs, h => by
    simp only [Spec.WF.noFloats, FromValue.finiteFloatsList, Bool.and_eq_true] at h ⊢
    exact ⟨finiteFloats_of_noFloat x h.1, finiteFloatsList_of_noFloats xs h.2⟩
theorem finiteFloatsMembers_of_noFloatm : ∀ kvs : List (Bytes × JV), Spec.WF.noFloatm kvs = true →
    FromValue.finiteFloatsMembers kvs = true
  | [], _ => rfl
  | (k, x) :: kvs, h => by
    simp only [Spec.WF.noFloatm, FromValue.finiteFloatsMembers, Bool.and_eq_true] at h ⊢
    exact ⟨finiteFloats_of_noFloat x h.1, finiteFloatsMembers_of_noFloatm kvs h.2⟩
end

variable (ext : Spec.Program.Ext) (hext : Spec.Program.ExtOK ext)
include hext

/-- the side conditions of C01's completeness for the tree printed for a `Value`, at stack height `k` -/
theorem side_image (menv : Machine.Env) (k : Nat) (v : JV)
    (hs : Spec.WF.shapeOK (SJ.Proofs.CanonM.specCfg menv.cfg) v = true) (hnf : Spec.WF.noFloat v = true)
    (hd : menv.cfg.limitOff = true ∨ k + Spec.WF.depthJV v ≤ 127) :
    Side menv k (cstOf (imageOfValue ext v)) := by
  intro _
  have hc := SJ.Proofs.RoundTrip.canonM_image menv.cfg ext hext v hs (SJ.Proofs.RoundTrip.floatsRT_of_noFloat _ ext v hnf)
  refine ⟨?_, SJ.Proofs.RoundTrip.surrogatesPaired_image ext v, fun _ => SJ.Proofs.RoundTrip.stringsUtf8_image ext _ v hs,
    SJ.Proofs.RoundTrip.numbersInRange_of_canonM menv.cfg _ v hc⟩
  rw [SJ.Proofs.RoundTrip.depth_image]
  exact hd

/-- `Value` targets -/
theorem agree_any {env : Env} (hflt : env.flt = false) (cfg' : FromValue.Cfg) (hap : cfg'.ap = false) (ext' : FromValue.Ext)
    (f t : Nat) (v : JV) (hv : VOK v) (hd : DepthOK env t v)
    (hs : Spec.WF.shapeOK (SJ.Proofs.CanonM.specCfg env.cfg) v = true) :
    Agree1 (deTyped env (f + 1) t .any) (FromValue.fromValue cfg' ext' .any v) (T ext v) := by
  intro rest pos hsep
  have hfv : FromValue.fromValue cfg' ext' .any v = .ok (.any v) := by
    simp [FromValue.fromValue, SJ.Proofs.FromValue.rebuild_id cfg' ext' hap v (finiteFloats_of_noFloat v hv.2)]
  rw [hfv]
  simp only
  rw [deTyped_any]
  simp only [hflt]
  have hsU : Spec.WF.shapeOK (SJ.Proofs.CanonM.specCfg (unlim (valEnv env)).cfg) v = true := by
    rw [shapeOK_congr (SJ.Proofs.CanonM.specCfg (unlim (valEnv env)).cfg) (SJ.Proofs.CanonM.specCfg env.cfg) rfl rfl v]; exact hs
  have hside : Side (valEnv env) t (cstOf (imageOfValue ext v)) := side_image ext hext (valEnv env) t v hs hv.2 hd
  have hsideU : Side (unlim (valEnv env)) 0 (cstOf (imageOfValue ext v)) :=
    side_image ext hext (unlim (valEnv env)) 0 v hsU hv.2 (.inl rfl)
  have hfollow : (∃ q, cstOf (imageOfValue ext v) = .num q) → ∀ d r', rest = d :: r' → numCont d = false := by
    intro _ d r' hr
    rcases hsep with rfl | ⟨c, tl, rfl, hc⟩
    · cases hr
    · cases hr
      rcases hc with rfl | rfl | rfl | rfl <;> decide
  obtain ⟨val, hres, hm⟩ := machine_complete_pad (valEnv env) t (T ext v) _ (T_derives ext hext v hv.1) hside hsideU rest pos hfollow
  have hc := SJ.Proofs.RoundTrip.canonM_image (unlim (valEnv env)).cfg ext hext v hsU
    (SJ.Proofs.RoundTrip.floatsRT_of_noFloat _ ext v hv.2)
  have := hres.1 rfl
  rw [hc] at this
  cases this
  rw [hm]
  rfl

end SJ.Proofs.Typed
