import SJ.Proofs.TypedAgreePad
import SJ.Proofs.FromValue
/-!
# The text leg of C16 on `Value` targets: `deserialize_any` with `Value`'s visitor (the machine on the padding frames of the
# typed containers around it) on a printed value returns the value — what `from_value::<Value>` returns
-/
set_option linter.unusedSectionVars false
set_option linter.unusedVariables false

namespace SJ.Proofs.Typed
open SJ SJ.Gen SJ.Model SJ.Model.Typed
open SJ.Spec.Image (render imageOfValue cstOf)
open SJ.Proofs.Complete (numCont Side Res)

mutual
theorem shapeOK_congr (c1 c2 : Spec.Canon.Cfg) (hpo : c1.po = c2.po) (hap : c1.ap = c2.ap) :
    ∀ v : JV, Spec.WF.shapeOK c1 v = Spec.WF.shapeOK c2 v
  | .null | .bool _ | .str _ => rfl
  | .num n => by cases n <;> simp [Spec.WF.shapeOK, Spec.WF.wfNum, hap]
  | .arr xs => by simp only [Spec.WF.shapeOK]; exact shapeOKs_congr c1 c2 hpo hap xs
  | .obj kvs => by simp only [Spec.WF.shapeOK, Spec.WF.keysOK, hpo]; rw [shapeOKm_congr c1 c2 hpo hap kvs]
theorem shapeOKs_congr (c1 c2 : Spec.Canon.Cfg) (hpo : c1.po = c2.po) (hap : c1.ap = c2.ap) :
    ∀ xs : List JV, Spec.WF.shapeOKs c1 xs = Spec.WF.shapeOKs c2 xs
  | [] => rfl
  | x :: xs => by simp only [Spec.WF.shapeOKs]; rw [shapeOK_congr c1 c2 hpo hap x, shapeOKs_congr c1 c2 hpo hap xs]
theorem shapeOKm_congr (c1 c2 : Spec.Canon.Cfg) (hpo : c1.po = c2.po) (hap : c1.ap = c2.ap) :
    ∀ kvs : List (Bytes × JV), Spec.WF.shapeOKm c1 kvs = Spec.WF.shapeOKm c2 kvs
  | [] => rfl
  | (k, x) :: kvs => by simp only [Spec.WF.shapeOKm]; rw [shapeOK_congr c1 c2 hpo hap x, shapeOKm_congr c1 c2 hpo hap kvs]
end

mutual
theorem finiteFloats_of_noFloat : ∀ v : JV, Spec.WF.noFloat v = true → FromValue.finiteFloats v = true
  | .null, _ | .bool _, _ | .str _, _ => rfl
  | .num n, h => by cases n <;> simp_all [Spec.WF.noFloat, FromValue.finiteFloats]
  | .arr xs, h => by simp only [Spec.WF.noFloat, FromValue.finiteFloats] at h ⊢; exact finiteFloatsList_of_noFloats xs h
  | .obj kvs, h => by simp only [Spec.WF.noFloat, FromValue.finiteFloats] at h ⊢; exact finiteFloatsMembers_of_noFloatm kvs h
theorem finiteFloatsList_of_noFloats : ∀ xs : List JV, Spec.WF.noFloats xs = true → FromValue.finiteFloatsList xs = true
  | [], _ => rfl
  | x :: xs, h => by
    simp only [Spec.WF.noFloats, FromValue.finiteFloatsList, Bool.and_eq_true] at h ⊢
    exact ⟨finiteFloats_of_noFloat x h.1, finiteFloatsList_of_noFloats xs h.2⟩
theorem finiteFloatsMembers_of_noFloatm : ∀ kvs : List (Bytes × JV), Spec.WF.noFloatm kvs = true →
    FromValue.finiteFloatsMembers kvs = true
  | [], _ => rfl
  | (k, x) :: kvs, h => by
    simp only [Spec.WF.noFloatm, FromValue.finiteFloatsMembers, Bool.and_eq_true] at h ⊢
    exact ⟨finiteFloats_of_noFloat x h.1, finiteFloatsMembers_of_noFloatm kvs h.2⟩
end

/-- `f64::is_finite` of the serializer model and of the IEEE specification are the same test (as `ParsedFinite.finite64_eq_isFinite`) -/
theorem finite64_isFinite (b : UInt64) : Spec.Program.finite64 b = Spec.Ieee.F64.isFinite b := by
  have h : ((b >>> 52) &&& 0x7ff).toNat = Spec.Ieee.F64.expField b := by
    rw [UInt64.toNat_and, UInt64.toNat_shiftRight]
    show b.toNat >>> 52 &&& 2 ^ 11 - 1 = b.toNat / 2 ^ 52 % 2 ^ 11
    rw [Nat.and_two_pow_sub_one_eq_mod, Nat.shiftRight_eq_div_pow]
  unfold Spec.Program.finite64 Spec.Ieee.F64.isFinite
  rw [← h, Bool.eq_iff_iff, bne_iff_ne, bne_iff_ne, ne_eq, ne_eq, ← UInt64.toNat_inj]
  rfl

mutual
theorem finiteFloats_of_shapeW : ∀ v : JV, shapeW v = true → FromValue.finiteFloats v = true
  | .null, _ | .bool _, _ | .str _, _ => rfl
  | .num n, h => by
    cases n with
    | float b => simp only [shapeW, wfNumW] at h; simp only [FromValue.finiteFloats]; rw [← finite64_isFinite]; exact h
    | _ => rfl
  | .arr xs, h => by simp only [shapeW, FromValue.finiteFloats] at h ⊢; exact finiteFloatsList_of_shapeWs xs h
  | .obj kvs, h => by simp only [shapeW, FromValue.finiteFloats] at h ⊢; exact finiteFloatsMembers_of_shapeWm kvs h
theorem finiteFloatsList_of_shapeWs : ∀ xs : List JV, shapeWs xs = true → FromValue.finiteFloatsList xs = true
  | [], _ => rfl
  | x :: xs, h => by
    simp only [shapeWs, FromValue.finiteFloatsList, Bool.and_eq_true] at h ⊢
    exact ⟨finiteFloats_of_shapeW x h.1, finiteFloatsList_of_shapeWs xs h.2⟩
theorem finiteFloatsMembers_of_shapeWm : ∀ kvs : List (Bytes × JV), shapeWm kvs = true →
    FromValue.finiteFloatsMembers kvs = true
  | [], _ => rfl
  | (k, x) :: kvs, h => by
    simp only [shapeWm, FromValue.finiteFloatsMembers, Bool.and_eq_true] at h ⊢
    exact ⟨finiteFloats_of_shapeW x h.1.2, finiteFloatsMembers_of_shapeWm kvs h.2⟩
end

mutual
/-- the float hypothesis reads the configuration only through `fr` / `ap` -/
theorem floatsRT_congr (c1 c2 : Spec.Canon.Cfg) (hfr : c1.fr = c2.fr) (hap : c1.ap = c2.ap) (ext : Spec.Program.Ext) :
    ∀ v : JV, Spec.WF.floatsRT c1 ext v = Spec.WF.floatsRT c2 ext v
  | .null | .bool _ | .str _ => rfl
  | .num n => by
    cases n with
    | float b => simp only [Spec.WF.floatsRT, Spec.WF.floatRT, Spec.Canon.numOf, Spec.Canon.convert, hfr, hap]
    | _ => rfl
  | .arr xs => by simp only [Spec.WF.floatsRT]; exact floatsRTs_congr c1 c2 hfr hap ext xs
  | .obj kvs => by simp only [Spec.WF.floatsRT]; exact floatsRTm_congr c1 c2 hfr hap ext kvs
theorem floatsRTs_congr (c1 c2 : Spec.Canon.Cfg) (hfr : c1.fr = c2.fr) (hap : c1.ap = c2.ap) (ext : Spec.Program.Ext) :
    ∀ xs : List JV, Spec.WF.floatsRTs c1 ext xs = Spec.WF.floatsRTs c2 ext xs
  | [] => rfl
  | x :: xs => by simp only [Spec.WF.floatsRTs]; rw [floatsRT_congr c1 c2 hfr hap ext x, floatsRTs_congr c1 c2 hfr hap ext xs]
theorem floatsRTm_congr (c1 c2 : Spec.Canon.Cfg) (hfr : c1.fr = c2.fr) (hap : c1.ap = c2.ap) (ext : Spec.Program.Ext) :
    ∀ kvs : List (Bytes × JV), Spec.WF.floatsRTm c1 ext kvs = Spec.WF.floatsRTm c2 ext kvs
  | [] => rfl
  | (k, x) :: kvs => by simp only [Spec.WF.floatsRTm]; rw [floatsRT_congr c1 c2 hfr hap ext x, floatsRTm_congr c1 c2 hfr hap ext kvs]
end

variable (ext : Spec.Program.Ext) (hext : Spec.Program.ExtOK ext)
include hext

/-- the side conditions of C01's completeness for the tree printed for a `Value`, at stack height `k` -/
theorem side_image (menv : Machine.Env) (k : Nat) (v : JV)
    (hs : Spec.WF.shapeOK (SJ.Proofs.CanonM.specCfg menv.cfg) v = true)
    (hnf : Spec.WF.floatsRT (SJ.Proofs.CanonM.specCfg menv.cfg) ext v = true)
    (hd : menv.cfg.limitOff = true ∨ k + Spec.WF.depthJV v ≤ 127) :
    Side menv k (cstOf (imageOfValue ext v)) := by
  intro _
  have hc := SJ.Proofs.RoundTrip.canonM_image menv.cfg ext hext v hs hnf
  refine ⟨?_, SJ.Proofs.RoundTrip.surrogatesPaired_image ext v, fun _ => SJ.Proofs.RoundTrip.stringsUtf8_image ext _ v hs,
    SJ.Proofs.RoundTrip.numbersInRange_of_canonM menv.cfg _ v hc⟩
  rw [SJ.Proofs.RoundTrip.depth_image]
  exact hd

/-- `Value` targets, either build. `hfv`: `Value::deserialize(v)` rebuilds the value itself (without `arbitrary_precision`:
    `rebuild_id`; with it: for the literals `Number::deserialize_any` hands back verbatim); `hF`: the floats of the value
    are read back from `ryu`'s text (`FloatsRoundTrip`; vacuous for a value holding literals) -/
theorem agree_any_g {env : Env} (hflt : env.flt = false) (cfg' : FromValue.Cfg) (ext' : FromValue.Ext)
    (f t : Nat) (v : JV) (hv : VOKg v) (hd : DepthOK env t v)
    (hs : Spec.WF.shapeOK (SJ.Proofs.CanonM.specCfg env.cfg) v = true)
    (hF : Spec.WF.floatsRT (SJ.Proofs.CanonM.specCfg env.cfg) ext v = true)
    (hfv : FromValue.fromValue cfg' ext' .any v = .ok (.any v)) :
    Agree1 (deTyped env (f + 1) t .any) (FromValue.fromValue cfg' ext' .any v) (T ext v) := by
  intro rest pos hsep
  rw [hfv]
  simp only
  rw [deTyped_any]
  simp only [hflt]
  have hsU : Spec.WF.shapeOK (SJ.Proofs.CanonM.specCfg (unlim (valEnv env)).cfg) v = true := by
    rw [shapeOK_congr (SJ.Proofs.CanonM.specCfg (unlim (valEnv env)).cfg) (SJ.Proofs.CanonM.specCfg env.cfg) rfl rfl v]; exact hs
  have hFU : Spec.WF.floatsRT (SJ.Proofs.CanonM.specCfg (unlim (valEnv env)).cfg) ext v = true := by
    rw [floatsRT_congr (SJ.Proofs.CanonM.specCfg (unlim (valEnv env)).cfg) (SJ.Proofs.CanonM.specCfg env.cfg) rfl rfl ext v]; exact hF
  have hside : Side (valEnv env) t (cstOf (imageOfValue ext v)) := side_image ext hext (valEnv env) t v hs hF hd
  have hsideU : Side (unlim (valEnv env)) 0 (cstOf (imageOfValue ext v)) :=
    side_image ext hext (unlim (valEnv env)) 0 v hsU hFU (.inl rfl)
  have hfollow : (∃ q, cstOf (imageOfValue ext v) = .num q) → ∀ d r', rest = d :: r' → numCont d = false := by
    intro _ d r' hr
    rcases hsep with rfl | ⟨c, tl, rfl, hc⟩
    · cases hr
    · cases hr
      rcases hc with rfl | rfl | rfl | rfl | hw
      · decide
      · decide
      · decide
      · decide
      · rcases isWs_cases hw with rfl | rfl | rfl | rfl <;> decide
  obtain ⟨val, hres, hm⟩ := machine_complete_pad (valEnv env) t (T ext v) _ (T_derives_g ext hext v (valueLitsOK_of_vokg hv)) hside hsideU
    rest pos hfollow
  have hc := SJ.Proofs.RoundTrip.canonM_image (unlim (valEnv env)).cfg ext hext v hsU hFU
  have := hres.1 rfl
  rw [hc] at this
  cases this
  rw [hm]
  rfl

/-- `Value` targets without `arbitrary_precision`. `hF`: the floats of the value are read back from `ryu`'s text (`FloatsRoundTrip`) -/
theorem agree_any {env : Env} (hflt : env.flt = false) (cfg' : FromValue.Cfg) (hap : cfg'.ap = false) (ext' : FromValue.Ext)
    (f t : Nat) (v : JV) (hv : VOK v) (hd : DepthOK env t v)
    (hs : Spec.WF.shapeOK (SJ.Proofs.CanonM.specCfg env.cfg) v = true)
    (hF : Spec.WF.floatsRT (SJ.Proofs.CanonM.specCfg env.cfg) ext v = true) :
    Agree1 (deTyped env (f + 1) t .any) (FromValue.fromValue cfg' ext' .any v) (T ext v) :=
  agree_any_g ext hext hflt cfg' ext' f t v hv.g hd hs hF (by
    simp [FromValue.fromValue, SJ.Proofs.FromValue.rebuild_id cfg' ext' hap v (finiteFloats_of_shapeW v hv)])

end SJ.Proofs.Typed
