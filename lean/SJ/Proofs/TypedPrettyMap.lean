import SJ.Proofs.TypedPrettySeq
/-!
# The text leg on a layout of a value: maps (`MapAccess` / `MapKey` on an object written by either formatter)
-/
set_option linter.unusedSectionVars false
set_option linter.unusedVariables false

namespace SJ.Proofs.TypedPretty
open SJ SJ.Gen SJ.Model SJ.Model.Typed
open SJ.Model.Stream (skipWs)
open SJ.Spec.Image (render imageOfValue imageOfValues imageOfMembers layoutWith layoutElems layoutMembers quote)
open SJ.Proofs.Typed

variable (ext : Spec.Program.Ext) (L : Lay)

/-- the members of an object whose contents are at depth `d`: `sep d` before each, `gap` after the `:`, `,` after each but
    the last -/
def LMembers (d : Nat) : List (Bytes × JV) → Bytes
  | [] => []
  | (k, x) :: r => L.sep d ++ quote k ++ [0x3a] ++ L.gap ++ TL ext L d x ++ (if r.isEmpty then [] else [0x2c]) ++ LMembers d r

/-- what follows a member -/
def LMtail (d : Nat) : List (Bytes × JV) → Bytes
  | [] => []
  | kv :: r => 0x2c :: LMembers ext L d (kv :: r)

theorem layoutMembers_values (d : Nat) : ∀ kvs : List (Bytes × JV),
    layoutMembers L.sep L.gap d (imageOfMembers ext kvs) = LMembers ext L d kvs
  | [] => by simp [imageOfMembers, layoutMembers, LMembers]
  | (k, x) :: kvs => by
    simp only [imageOfMembers, layoutMembers, LMembers, TL]
    rw [layoutMembers_values d kvs]
    cases kvs with
    | nil => simp [imageOfMembers]
    | cons kv r => obtain ⟨k', x'⟩ := kv; simp [imageOfMembers]

theorem TL_obj_nil (d : Nat) : TL ext L d (.obj []) = [0x7b, 0x7d] := by
  simp [TL, imageOfValue, imageOfMembers, layoutWith]

theorem TL_obj_cons (d : Nat) (kv : Bytes × JV) (kvs : List (Bytes × JV)) :
    TL ext L d (.obj (kv :: kvs)) = 0x7b :: (LMembers ext L (d + 1) (kv :: kvs) ++ (L.sep d ++ [0x7d])) := by
  obtain ⟨k, x⟩ := kv
  simp only [TL, imageOfValue, layoutWith]
  rw [layoutMembers_values]
  simp [imageOfMembers]

theorem LMembers_cons (d : Nat) (k : Bytes) (x : JV) (r : List (Bytes × JV)) :
    LMembers ext L d ((k, x) :: r) = L.sep d ++ (quote k ++ 0x3a :: (L.gap ++ (TL ext L d x ++ LMtail ext L d r))) := by
  cases r <;> simp [LMembers, LMtail]

/-- the members still to be read: all of them (`first`), or a comma and the rest -/
def LM (d : Nat) (first : Bool) (kvs : List (Bytes × JV)) : Bytes := if first then LMembers ext L d kvs else LMtail ext L d kvs

theorem LM_nil (d : Nat) (first : Bool) : LM ext L d first [] = [] := by cases first <;> rfl

theorem LM_cons (d : Nat) (first : Bool) (k : Bytes) (x : JV) (r : List (Bytes × JV)) :
    LM ext L d first ((k, x) :: r) =
      (if first then [] else [0x2c]) ++ (L.sep d ++ (quote k ++ 0x3a :: (L.gap ++ (TL ext L d x ++ LMtail ext L d r)))) := by
  cases first
  · show LMtail ext L d ((k, x) :: r) = [0x2c] ++ _
    rw [LMtail, LMembers_cons]; rfl
  · show LMembers ext L d ((k, x) :: r) = [] ++ _
    rw [LMembers_cons]; rfl

/-- what follows a member's value is an admissible follower -/
theorem sepOK_mtail_L (d : Nat) (kvs : List (Bytes × JV)) {C : Bytes} (hC : WsB C) (rest : Bytes) :
    SepOK (LMtail ext L d kvs ++ (C ++ 0x7d :: rest)) := by
  cases kvs with
  | nil =>
    cases C with
    | nil => exact .inr ⟨0x7d, rest, rfl, .inr (.inr (.inl rfl))⟩
    | cons w W => exact .inr ⟨w, _, rfl, .inr (.inr (.inr (.inr (hC w (by simp)))))⟩
  | cons x xs => exact .inr ⟨0x2c, _, rfl, .inl rfl⟩

section
variable {env : Env}

/-- `has_next_key` in front of a member -/
theorem hasNextKey_member_L (d : Nat) (first : Bool) (k tl : Bytes) (pos : Nat) :
    hasNextKey env first ((if first then [] else [0x2c]) ++ (L.sep d ++ (quote k ++ tl))) pos =
      .ok true (quote k ++ tl) (pos + (if first then 0 else 1) + (L.sep d).length) := by
  cases first
  · simp only [Bool.false_eq_true, if_false, List.singleton_append]
    exact hasNextKey_comma_pad (L.hsep d) k tl pos
  · simp only [if_true, List.nil_append, Nat.add_zero]
    exact hasNextKey_first_pad (L.hsep d) k tl pos

theorem endMap_close_pad {C : Bytes} (hC : WsB C) (rest : Bytes) (pos : Nat) :
    (endMap env (C ++ 0x7d :: rest) pos).res = .ok () rest (pos + C.length + 1) := by
  unfold endMap
  rw [skipWs_pad hC, skipWs_cons (by decide)]
  simp

/-- `deserialize_map` on the text of an object in the layout -/
theorem deMap_obj_L (d t : Nat) (kvs : List (Bytes × JV)) (hd : DepthOK env t (.obj kvs)) (visit : Nat → Bytes → Nat → TOut)
    (rest : Bytes) (pos : Nat) :
    ∃ C, WsB C ∧ TL ext L d (.obj kvs) = 0x7b :: (LM ext L (d + 1) true kvs ++ (C ++ [0x7d])) ∧
      deMap env t (fun r p => visit (r.length + 1) r p) (TL ext L d (.obj kvs) ++ rest) pos =
        closeWith env (endMap env) (visit ((LM ext L (d + 1) true kvs ++ (C ++ 0x7d :: rest)).length + 1)
          (LM ext L (d + 1) true kvs ++ (C ++ 0x7d :: rest)) (pos + 1)) := by
  have key : ∃ C, WsB C ∧ TL ext L d (.obj kvs) = 0x7b :: (LM ext L (d + 1) true kvs ++ (C ++ [0x7d])) := by
    cases kvs with
    | nil => exact ⟨[], wsB_nil, by rw [TL_obj_nil]; rfl⟩
    | cons kv kvs => exact ⟨L.sep d, L.hsep d, by rw [TL_obj_cons]; rfl⟩
  obtain ⟨C, hC, hT⟩ := key
  refine ⟨C, hC, hT, ?_⟩
  rw [hT]
  simp only [List.cons_append, List.append_assoc, List.nil_append]
  exact deMap_open t _ _ pos (tooDeep_false_obj t kvs hd)

end

section
variable (hext : Spec.Program.ExtOK ext)
variable {env : Env} (hflt : env.flt = false) (cfg' : FromValue.Cfg) (hap : cfg'.ap = false) (ext' : FromValue.Ext)

/-- entries of an object read by `MapAccess` with key parser `deKey kk` and value parser `de`, against `mapAll` -/
theorem mapLoop_text_L (d : Nat) (kk : KeyKind) (hk : KeyAgree (deKey env kk) (FromValue.keyDe kk)) (de : Bytes → Nat → TOut)
    (hpad : PadOK de) (fv : JV → FromValue.R) {C : Bytes} (hC : WsB C) :
    ∀ (kvs : List (Bytes × JV)), (∀ kv ∈ kvs, Spec.Utf8.validUtf8 kv.1 = true ∧ Agree1 de (fv kv.2) (TL ext L d kv.2)) →
    ∀ (first : Bool) (acc : List (TVal × TVal)) (n : Nat) (rest : Bytes) (pos : Nat),
      (LM ext L d first kvs ++ (C ++ 0x7d :: rest)).length < n →
      match FromValue.mapAll (FromValue.keyDe kk) fv kvs with
      | .ok ys => mapLoop env kk de n first acc (LM ext L d first kvs ++ (C ++ 0x7d :: rest)) pos =
          .ok (acc.reverse ++ ys) (0x7d :: rest) (pos + (LM ext L d first kvs).length + C.length)
      | .error _ => ∀ a r p, mapLoop env kk de n first acc (LM ext L d first kvs ++ (C ++ 0x7d :: rest)) pos ≠ .ok a r p := by
  intro kvs
  induction kvs with
  | nil =>
    intro _ first acc n rest pos hn
    cases n with
    | zero => omega
    | succ n =>
      simp only [FromValue.mapAll, LM_nil, List.nil_append, List.length_nil, Nat.add_zero]
      unfold mapLoop
      rw [hasNextKey_close_pad first hC]
      simp [Res.bind]
  | cons kv kvs ih =>
    intro hx first acc n rest pos hn
    obtain ⟨k, x⟩ := kv
    obtain ⟨hu, hag⟩ := hx (k, x) (by simp)
    have ih' := ih (fun y hy => hx y (by simp [hy]))
    cases n with
    | zero => omega
    | succ n =>
      have htxt : LM ext L d first ((k, x) :: kvs) ++ (C ++ 0x7d :: rest) =
          (if first then [] else [0x2c]) ++ (L.sep d ++ (quote k ++ 0x3a :: (L.gap ++ (TL ext L d x ++
            (LMtail ext L d kvs ++ (C ++ 0x7d :: rest)))))) := by
        rw [LM_cons]; simp [List.append_assoc]
      have hlen : (LM ext L d first ((k, x) :: kvs)).length =
          (if first then 0 else 1) + (L.sep d).length + (quote k).length + 1 + L.gap.length + (TL ext L d x).length +
            (LMtail ext L d kvs).length := by
        rw [LM_cons]; cases first <;> simp <;> omega
      rw [htxt]
      unfold mapLoop
      rw [hasNextKey_member_L]
      simp only [Res.bind, Bool.not_true, Bool.false_eq_true, if_false]
      have hkey := hk k hu (L.gap ++ (TL ext L d x ++ (LMtail ext L d kvs ++ (C ++ 0x7d :: rest))))
        (pos + (if first then 0 else 1) + (L.sep d).length)
      simp only [FromValue.mapAll]
      cases hfk : FromValue.keyDe kk k with
      | error e =>
        rw [hfk] at hkey
        simp only at hkey ⊢
        exact bind_not_ok hkey
      | ok a =>
        rw [hfk] at hkey
        simp only at hkey ⊢
        rw [hkey]
        simp only [Res.bind, parseObjectColon_colon]
        rw [hpad L.gap L.hgap]
        have hel := hag (LMtail ext L d kvs ++ (C ++ 0x7d :: rest))
          (pos + (if first then 0 else 1) + (L.sep d).length + (quote k).length + 1 + L.gap.length) (sepOK_mtail_L ext L d kvs hC rest)
        cases hfx : fv x with
        | error e =>
          rw [hfx] at hel
          simp only at hel ⊢
          exact bind_not_ok hel
        | ok y =>
          rw [hfx] at hel
          simp only at hel ⊢
          rw [hel]
          simp only [Res.bind]
          have hrec := ih' false ((a, y) :: acc) n rest
            (pos + (if first then 0 else 1) + (L.sep d).length + (quote k).length + 1 + L.gap.length + (TL ext L d x).length) (by
            rw [htxt] at hn
            simp only [LM, Bool.false_eq_true, if_false]
            simp only [List.length_append, List.length_cons] at hn ⊢
            omega)
          simp only [LM, Bool.false_eq_true, if_false] at hrec
          cases hall : FromValue.mapAll (FromValue.keyDe kk) fv kvs with
          | error e =>
            rw [hall] at hrec
            simp only at hrec ⊢
            exact hrec
          | ok ys =>
            rw [hall] at hrec
            simp only at hrec ⊢
            rw [hrec, hlen]
            simp only [List.reverse_cons, List.append_assoc, List.singleton_append]
            congr 1
            omega

include hext hflt hap in
/-- maps: `deserialize_map` with the key kind's `MapKey` method against `MapDeserializer` + `MapKeyDeserializer` -/
theorem agree_map_L (d : Nat) (kk : KeyKind) (hk : KeyAgree (deKey env kk) (FromValue.keyDe kk)) (s : Schema) (f t : Nat) (v : JV)
    (hv : VOK v) (hd : DepthOK env t v)
    (ih : ∀ kvs, v = .obj kvs → ∀ kv ∈ kvs,
      Agree1 (deTyped env f (t + 1) s) (FromValue.fromValue cfg' ext' s kv.2) (TL ext L (d + 1) kv.2)) :
    Agree1 (deTyped env (f + 1) t (.map kk s)) (FromValue.fromValue cfg' ext' (.map kk s) v) (TL ext L d v) := by
  intro rest pos hs
  obtain ⟨c, tl, hT, hc⟩ := TL_head ext L hext d v hv
  have hw := (headOf_facts hc).1
  have ht := headOf_tests hc
  rw [deTyped_map]
  cases v with
  | obj kvs =>
    have hel : ∀ kv ∈ kvs, Spec.Utf8.validUtf8 kv.1 = true ∧
        Agree1 (deTyped env f (t + 1) s) (FromValue.fromValue cfg' ext' s kv.2) (TL ext L (d + 1) kv.2) :=
      fun kv hx => ⟨(vok_member kvs kv hx hv).1, ih kvs rfl kv hx⟩
    obtain ⟨C, hC, hTa, hde⟩ := deMap_obj_L ext L d t kvs hd
      (fun n r p => Res.map TVal.map (mapLoop env kk (deTyped env f (t + 1) s) n true [] r p)) rest pos
    have hloop := mapLoop_text_L ext L (d + 1) kk hk (deTyped env f (t + 1) s) (deTyped_pad f (t + 1) s)
      (FromValue.fromValue cfg' ext' s) hC kvs hel true []
      ((LM ext L (d + 1) true kvs ++ (C ++ 0x7d :: rest)).length + 1) rest (pos + 1) (by omega)
    have hlenT : (TL ext L d (.obj kvs)).length = 1 + (LM ext L (d + 1) true kvs).length + C.length + 1 := by
      rw [hTa]; simp; omega
    simp only [FromValue.fromValue]
    cases hall : FromValue.mapAll (FromValue.keyDe kk) (FromValue.fromValue cfg' ext' s) kvs with
    | error e =>
      rw [hall] at hloop
      simp only at hloop
      simp only [Except.map]
      intro x r p
      rw [hde]
      exact closeWith_not_ok _ (map_not_ok hloop) x r p
    | ok ys =>
      rw [hall] at hloop
      simp only at hloop
      simp only [Except.map]
      rw [hde, hloop, hlenT]
      simp only [Res.map, Res.bind, closeWith, endMap_close, List.nil_append, List.reverse_nil]
      congr 1
      omega
  | null | bool _ | num _ | str _ | arr _ =>
    simp only [FromValue.fromValue, FromValue.fail]
    intro x r p
    rw [hT]
    simp only [List.cons_append]
    unfold deMap
    rw [withPeek_cons env _ hw]
    simp only [ht.2.2.2.2.2.2.2.1, Bool.false_eq_true, if_false]
    exact peekInvalidType_not_ok _ _ _ _ _ _

end

end SJ.Proofs.TypedPretty
