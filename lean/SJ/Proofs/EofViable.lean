import SJ.Proofs.EarliestSim
/-!
# An Eof-classified error means: a proper prefix of an accepted input (C11, converse of `c11_eof_at_end`)

`finish` is the only place where the machine raises an Eof-classified code. `eof_viable_core`: if the
machine has consumed all of `bs` and `finish` fails — with any code the state's side conditions do not
exclude — then `bs` (minus the unchecked digits of a `\u` group the input ends in) has a NON-EMPTY
accepted continuation. The completions are those of `EarliestMain.viable_prefix`.
-/
namespace SJ.Proofs.EofViable
open SJ SJ.Gen SJ.Model.Machine SJ.Proofs.Machine SJ.Proofs.Complete SJ.Proofs.Earliest

theorem feeds_det {env : Env} {s s1 s2 : St} {xs : Bytes} (h1 : Feeds env s xs s1) (h2 : Feeds env s xs s2) :
    s1 = s2 := by
  unfold Feeds at h1 h2
  rw [h1] at h2
  exact Except.ok.inj h2

/-- a number that fails to convert is `NumberOutOfRange` at end of input, never an Eof code -/
theorem expOK_of_finish_eof (env : Env) (s : St) (c : Code) (h : finish env s = .error c)
    (hc : classify c = .eof) : ExpOK env s := by
  intro n hm hv _ hp _
  cases hnv : numValue env n with
  | ok v => exact ⟨v, rfl⟩
  | error c' =>
    exfalso
    have hc' := numValue_err env n c' hnv
    subst hc'
    have := finish_number_out_of_range env hv s n hm (Or.inr (Or.inr (Or.inr hp))) hnv
    rw [this] at h
    simp only [Except.error.injEq] at h
    subst h
    cases hc

theorem finish_str (env : Env) (st : StrSt) (fs : List Frame) :
    finish env ⟨.str st, fs⟩ = .error .EofWhileParsingString := rfl

/-- **machine level.** All of `bs` consumed, `finish` fails, side conditions of the final state met:
    `bs` minus the `k ≤ 3` unchecked digits of a `\u` group it ends in has a non-empty accepted continuation
    (and is not accepted itself) -/
theorem eof_viable_core_strong (env : Env) (bs : Bytes) (s : St) (c : Code) (hf : Feeds env init bs s)
    (hfin : finish env s = .error c) (hside : SideOK env s) (hexp : ExpOK env s) :
    ∃ k ys v, (k = 0 ∨ (0 < k ∧ k ≤ 3 ∧ c = .EofWhileParsingString ∧
        ∃ x, bs.take (bs.length - k) = x ++ [0x5c, 0x75])) ∧ k ≤ bs.length ∧ ys ≠ [] ∧
      parseTop env (bs.take (bs.length - k) ++ ys) = .ok v ∧
      ∀ v', parseTop env (bs.take (bs.length - k)) ≠ .ok v' := by
  obtain ⟨hle, hbu, s0, hq, hv⟩ := viable_prefix env bs s hf hside hexp
  have h4 := hexPending_lt (inv_of_feeds hf)
  -- the state after the viable prefix fails at end of input, so its completion is not empty
  have hs0 : ∃ c0, finish env s0 = .error c0 ∧ (hexPending s ≠ 0 → c = .EofWhileParsingString) := by
    by_cases h0 : hexPending s = 0
    · rw [h0] at hq
      simp only [Nat.sub_zero, List.take_length] at hq
      rw [feeds_det hq hf]
      exact ⟨c, hfin, fun h => absurd h0 h⟩
    · obtain ⟨st, fs, acc, lead, rfl, he, hk⟩ := hexPending_pos h0
      obtain ⟨q, rfl, hq'⟩ := feeds_unhex env init (by simp [init]) acc.length acc bs st fs lead rfl hf he
      rw [hk] at hq
      have : (q ++ acc).take ((q ++ acc).length - acc.length) = q := by simp
      rw [this] at hq
      rw [feeds_det hq hq']
      refine ⟨_, finish_str env _ _, fun _ => ?_⟩
      rw [finish_str] at hfin
      exact (Except.error.inj hfin).symm
  obtain ⟨c0, hc0, hcs⟩ := hs0
  have hnot : ∀ v', parseTop env (bs.take (bs.length - hexPending s)) ≠ .ok v' := by
    intro v' hv'
    obtain ⟨s1, hf1, hfin1⟩ := (run_ok_iff env init 0 _ v').mp hv'
    rw [feeds_det hf1 hq, hc0] at hfin1
    cases hfin1
  obtain ⟨ys, s', v, hf', hfin'⟩ := hv
  have hne : ys ≠ [] := by
    rintro rfl
    simp only [Feeds, feedS, Except.ok.injEq] at hf'
    subst hf'
    rw [hc0] at hfin'; cases hfin'
  refine ⟨hexPending s, ys, v, ?_, hle, hne, ?_, hnot⟩
  · by_cases h0 : hexPending s = 0
    · exact Or.inl h0
    · exact Or.inr ⟨by omega, by omega, hcs h0, hbu h0⟩
  · exact (run_ok_iff env init 0 _ v).mpr ⟨s', Feeds.append hq hf', hfin'⟩

theorem eof_viable_core (env : Env) (bs : Bytes) (s : St) (c : Code) (hf : Feeds env init bs s)
    (hfin : finish env s = .error c) (hside : SideOK env s) (hexp : ExpOK env s) :
    ∃ k ys v, (k = 0 ∨ (0 < k ∧ k ≤ 3 ∧ c = .EofWhileParsingString ∧
        ∃ x, bs.take (bs.length - k) = x ++ [0x5c, 0x75])) ∧ k ≤ bs.length ∧ ys ≠ [] ∧
      parseTop env (bs.take (bs.length - k) ++ ys) = .ok v := by
  obtain ⟨k, ys, v, h1, h2, h3, h4, _⟩ := eof_viable_core_strong env bs s c hf hfin hside hexp
  exact ⟨k, ys, v, h1, h2, h3, h4⟩

/-- an Eof-classified error of `parseTop` comes from `finish`, after all of the input was consumed -/
theorem parse_eof_split (env : Env) (bs : Bytes) (c : Code) (idx : Nat)
    (h : parseTop env bs = .err c idx) (hc : classify c = .eof) :
    ∃ s, Feeds env init bs s ∧ finish env s = .error c := by
  unfold parseTop at h
  rw [run_eq_feed_finish] at h
  cases hf : feed env init 0 bs with
  | error e =>
    obtain ⟨c', j⟩ := e; rw [hf] at h
    simp only [Outcome.err.injEq] at h
    have := SJ.Proofs.Machine.step_err
    obtain ⟨p, b, rest, s1, a, rfl, hfeed, hst, hj⟩ := feed_err_split env init 0 _ c' j hf
    have := (step_err env s1 b c' a hst).2
    rw [h.1, hc] at this; cases this
  | ok r =>
    obtain ⟨s', j⟩ := r; rw [hf] at h
    cases hfin : finish env s' with
    | ok v => simp [hfin] at h
    | error c' =>
      simp only [hfin, Outcome.err.injEq] at h
      refine ⟨s', ?_, h.1 ▸ hfin⟩
      -- `feed` and `feedS` agree on success
      have key : ∀ (xs : Bytes) (s : St) (i : Nat) (s' : St) (j : Nat), feed env s i xs = .ok (s', j) →
          Feeds env s xs s' := by
        intro xs
        induction xs with
        | nil => intro s i s' j h; simp only [feed, Except.ok.injEq, Prod.mk.injEq] at h; rw [← h.1]; exact Feeds.nil _ _
        | cons b bs ih =>
          intro s i s' j h
          simp only [feed] at h
          cases hs : step env s b with
          | ok s1 => rw [hs] at h; exact Feeds.cons hs (ih _ _ _ _ h)
          | error e => obtain ⟨c, a⟩ := e; rw [hs] at h; cases h
      exact key bs init 0 s' j hf

open SJ.Proofs.EarliestSim in
/-- where a machine stops with an Eof-classified error, the scanner of skipped content (in the related
    state) stops with an error too -/
theorem finish_sim (env envI : Env) (hI : envI.tgt = .ignored) (s t : St) (c : Code) (h : Sim s t)
    (hfin : finish env s = .error c) (hc : classify c = .eof) : ∃ c', finish envI t = .error c' := by
  cases hT : finish envI t with
  | error c' => exact ⟨c', rfl⟩
  | ok w =>
    exfalso
    obtain ⟨hm, hs⟩ := h
    obtain ⟨m, fs⟩ := s; obtain ⟨m', gs⟩ := t
    simp only at hm hs
    cases m <;> cases m' <;> try exact hm.elim
    · rename_i ctx ctx'; cases ctx' <;> simp [finish, finishMode] at hT
    · simp [finish, finishMode] at hT
    · rename_i n n'
      have : n = n' := hm
      subst this
      have hgs : ∀ s', endNumber envI ⟨.num n, gs⟩ n = .ok s' → finishMode envI s' = .ok w → gs = [] := by
        intro s' he hf
        obtain ⟨v, rfl⟩ := endNumber_ok envI _ n s' he
        exact (Sound.finishMode_complete_ok envI _ _ _ hf).1
      have hfs : fs = [] → ∀ c, (match endNumber env ⟨.num n, fs⟩ n with
          | .ok s' => finishMode env s'
          | .error (c, _) => .error c) = .error c → classify c ≠ .eof := by
        rintro rfl c h
        cases he : endNumber env ⟨.num n, []⟩ n with
        | ok s' =>
          obtain ⟨v, rfl⟩ := endNumber_ok env _ n s' he
          rw [he] at h
          simp [complete, finishMode] at h
        | error e =>
          obtain ⟨c', a⟩ := e
          rw [he] at h
          simp only [Except.error.injEq] at h
          subst h
          rw [(endNumber_err env _ n c' a he).1]
          decide
      have hst : gs = [] → fs = [] := by
        rintro rfl
        cases fs with
        | nil => rfl
        | cons f fs => exact hs.elim
      unfold finish at hT hfin
      simp only at hT hfin
      cases hp : n.phase <;> simp only [hp] at hT hfin <;> first
        | (cases hT; done)
        | (split at hT
           · rename_i s' he
             exact hfs (hst (hgs s' he hT)) c hfin hc
           · cases hT)
    · simp [finish, finishMode] at hT
    · simp [finish, finishMode] at hT
    · simp [finish, finishMode] at hT
    · simp [finish, finishMode, hI] at hT
    · simp [finish, finishMode] at hT
    · simp [finish, finishMode] at hT
    · simp [finish, finishMode] at hfin

end SJ.Proofs.EofViable
