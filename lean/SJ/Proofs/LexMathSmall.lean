import SJ.Proofs.LexMath
/-!
# Limb arithmetic: `small::normalize`, `small::isub_impl`, `small::imul`/`mul`
-/
namespace SJ.Proofs.LexMath
open SJ.Model.LexMath

/-! ## `normalize` -/

theorem normalize_append_singleton (xs : Limbs) (a : Nat) :
    small.normalize (xs ++ [a]) = if a = 0 then small.normalize xs else xs ++ [a] := by
  unfold small.normalize
  by_cases h : a = 0
  · subst h; simp
  · simp [h]

@[simp] theorem normalize_nil : small.normalize [] = [] := rfl

theorem normalize_spec_rev (l : Limbs) :
    value (small.normalize l.reverse) = value l.reverse ∧ Normal (small.normalize l.reverse) ∧
    (Valid l.reverse → Valid (small.normalize l.reverse)) ∧ (small.normalize l.reverse).length ≤ l.reverse.length := by
  induction l with
  | nil => simp [normal_nil]
  | cons a xs ih =>
    rw [List.reverse_cons, normalize_append_singleton]
    by_cases h : a = 0
    · subst h
      simp only [if_true]
      refine ⟨by rw [ih.1, value_append]; simp, ih.2.1, fun hv => ih.2.2.1 (valid_append.mp hv).1, ?_⟩
      have := ih.2.2.2; simp at this ⊢; omega
    · rw [if_neg h]
      exact ⟨rfl, normal_append_singleton.mpr h, id, Nat.le_refl _⟩

theorem normalize_spec (x : Limbs) :
    value (small.normalize x) = value x ∧ Normal (small.normalize x) ∧ (Valid x → Valid (small.normalize x)) ∧
    (small.normalize x).length ≤ x.length := by
  have := normalize_spec_rev x.reverse
  rwa [List.reverse_reverse] at this

theorem value_normalize (x : Limbs) : value (small.normalize x) = value x := (normalize_spec x).1
theorem normal_normalize (x : Limbs) : Normal (small.normalize x) := (normalize_spec x).2.1
theorem valid_normalize {x : Limbs} (h : Valid x) : Valid (small.normalize x) := (normalize_spec x).2.2.1 h
theorem normalize_length_le (x : Limbs) : (small.normalize x).length ≤ x.length := (normalize_spec x).2.2.2

theorem normalize_of_normal {x : Limbs} (h : Normal x) : small.normalize x = x := by
  rcases List.eq_nil_or_concat x with e | ⟨r, a, rfl⟩
  · subst e; rfl
  · have : a ≠ 0 := normal_append_singleton.mp (by simpa using h)
    simp [normalize_append_singleton, this]

/-! ## `isub_impl` -/

theorem borrowLoop_length (c : Bool) (xs : Limbs) : (small.borrowLoop c xs).length = xs.length := by
  induction xs generalizing c with
  | nil => cases c <;> rfl
  | cons x xs ih => cases c <;> simp [small.borrowLoop, ih]

theorem borrowLoop_spec (c : Bool) (xs : Limbs) (hv : Valid xs) (hge : (if c then 1 else 0) ≤ value xs) :
    value (small.borrowLoop c xs) + (if c then 1 else 0) = value xs ∧ Valid (small.borrowLoop c xs) := by
  induction xs generalizing c with
  | nil => cases c <;> simp_all [small.borrowLoop]
  | cons x xs ih =>
    have ⟨hx, hxs⟩ := valid_cons.mp hv
    cases c with
    | false => simp [small.borrowLoop, hv]
    | true =>
      simp only [small.borrowLoop, scalar.isub]
      have ⟨h1, h2⟩ := scalar_sub_spec hx (show (1 : Nat) < 2 ^ 64 by norm_num)
      simp only [if_true, value_cons] at hge ⊢
      by_cases hx0 : x < 1
      · have hb : (scalar.sub x 1).2 = true := decide_eq_true hx0
        rw [hb] at h1 ⊢
        have hge' : (if true then 1 else 0) ≤ value xs := by simp only [if_true]; omega
        have ⟨i1, i2⟩ := ih true hxs hge'
        simp only [if_true] at h1 i1
        exact ⟨by omega, valid_cons.mpr ⟨h2, i2⟩⟩
      · have hb : (scalar.sub x 1).2 = false := decide_eq_false hx0
        rw [hb] at h1 ⊢
        simp only [small.borrowLoop, Bool.false_eq_true, if_false] at h1 ⊢
        exact ⟨by omega, valid_cons.mpr ⟨h2, hxs⟩⟩

theorem small_isubImpl_spec (x : Limbs) (y xstart : Nat) (hv : Valid x) (hy : y < 2 ^ 64) (hs : xstart < x.length)
    (hge : y * 2 ^ (64 * xstart) ≤ value x) :
    ∃ z, small.isubImpl x y xstart = some z ∧ value z + y * 2 ^ (64 * xstart) = value x ∧ Valid z ∧ Normal z ∧
      z.length ≤ x.length := by
  unfold small.isubImpl
  cases hd : x.drop xstart with
  | nil => exact absurd (List.drop_eq_nil_iff.mp hd) (by omega)
  | cons xi rest =>
    simp only [scalar.isub]
    have hvd : Valid (xi :: rest) := hd ▸ valid_drop hv xstart
    have ⟨hxi, hrest⟩ := valid_cons.mp hvd
    have ⟨a1, a2⟩ := scalar_sub_spec hxi hy
    have hlen : (x.take xstart).length = xstart := by simp; omega
    have hx := value_take_add_drop x xstart
    rw [hd, hlen, value_cons] at hx
    have hpre : value (x.take xstart) < 2 ^ (64 * xstart) := by
      have := value_lt (valid_take hv xstart); rwa [hlen] at this
    have hP := Nat.two_pow_pos (64 * xstart)
    -- y ≤ xi + 2^64 · value rest
    have hyle : y ≤ xi + 2 ^ 64 * value rest := by
      by_contra hc
      have : (xi + 2 ^ 64 * value rest + 1) * 2 ^ (64 * xstart) ≤ y * 2 ^ (64 * xstart) :=
        Nat.mul_le_mul_right _ (by omega)
      nlinarith
    have hb : (if (scalar.sub xi y).2 then 1 else 0) ≤ value rest := by
      cases hc : (scalar.sub xi y).2
      · simp
      · simp only [hc, if_true] at a1 ⊢
        by_contra h0
        have : value rest = 0 := by omega
        rw [this] at hyle; omega
    have ⟨b1, b2⟩ := borrowLoop_spec (scalar.sub xi y).2 rest hrest hb
    have hvz : Valid (x.take xstart ++ (scalar.sub xi y).1 :: small.borrowLoop (scalar.sub xi y).2 rest) :=
      valid_append.mpr ⟨valid_take hv _, valid_cons.mpr ⟨a2, b2⟩⟩
    refine ⟨_, rfl, ?_, valid_normalize hvz, normal_normalize _, ?_⟩
    · rw [value_normalize, value_append, value_cons, hlen, hx]
      cases hc : (scalar.sub xi y).2 <;> simp only [hc] at a1 b1 <;> simp at a1 b1 ⊢ <;> nlinarith
    · refine Nat.le_trans (normalize_length_le _) ?_
      have : x.length = (x.take xstart).length + (x.drop xstart).length := by simp; omega
      rw [this, hd]; simp [borrowLoop_length]

/-! ## `imul`, `mul` -/

theorem imulLoop_spec (y c : Nat) (xs : Limbs) (hv : Valid xs) (hy : y < 2 ^ 64) (hc : c < 2 ^ 64) :
    value (small.imulLoop y c xs) = value xs * y + c ∧ Valid (small.imulLoop y c xs) := by
  induction xs generalizing c with
  | nil =>
    unfold small.imulLoop
    by_cases h : c = 0
    · subst h; simp
    · simp [h, valid_singleton hc]
  | cons x xs ih =>
    have ⟨hx, hxs⟩ := valid_cons.mp hv
    simp only [small.imulLoop, scalar.imul]
    have ⟨m1, m2, m3⟩ := scalar_mul_spec hx hy hc
    have ⟨i1, i2⟩ := ih (scalar.mul x y c).2 hxs m3
    refine ⟨?_, valid_cons.mpr ⟨m2, i2⟩⟩
    simp only [value_cons, i1]; nlinarith

theorem imulLoop_length_le (y c : Nat) (xs : Limbs) : xs.length ≤ (small.imulLoop y c xs).length := by
  induction xs generalizing c with
  | nil => simp
  | cons x xs ih => simp [small.imulLoop]; exact ih _

theorem imulLoop_length_le' (y c : Nat) (xs : Limbs) : (small.imulLoop y c xs).length ≤ xs.length + 1 := by
  induction xs generalizing c with
  | nil => unfold small.imulLoop; split <;> simp
  | cons x xs ih => simp [small.imulLoop]; exact ih _

theorem imulLoop_normal (y c : Nat) (xs : Limbs) (hv : Valid xs) (hy : y < 2 ^ 64) (hc : c < 2 ^ 64) (hy0 : y ≠ 0)
    (hn : Normal xs) : Normal (small.imulLoop y c xs) := by
  induction xs generalizing c with
  | nil =>
    unfold small.imulLoop
    by_cases h : c = 0
    · subst h; simp [normal_nil]
    · simp [h, Normal]
  | cons x xs ih =>
    have ⟨hx, hxs⟩ := valid_cons.mp hv
    simp only [small.imulLoop, scalar.imul]
    have ⟨m1, m2, m3⟩ := scalar_mul_spec hx hy hc
    by_cases hne : xs = []
    · subst hne
      have hx0 : x ≠ 0 := (normal_iff [x]).mp hn x [] rfl
      unfold small.imulLoop
      by_cases hh : (scalar.mul x y c).2 = 0
      · simp only [hh, bne_self_eq_false, Bool.false_eq_true, if_false, Normal, List.getLast?_singleton, ne_eq,
          Option.some.injEq]
        rw [hh] at m1
        have : 1 ≤ x * y := Nat.mul_pos (Nat.pos_of_ne_zero hx0) (Nat.pos_of_ne_zero hy0)
        omega
      · simp [hh, Normal]
    · have hn' : Normal xs := by
        unfold Normal at *; rwa [List.getLast?_cons_of_ne_nil hne] at hn
      have hne' : small.imulLoop y (scalar.mul x y c).2 xs ≠ [] := by
        intro e
        have := imulLoop_length_le y (scalar.mul x y c).2 xs
        rw [e] at this
        exact hne (List.length_eq_zero_iff.mp (by simpa using this))
      exact normal_cons_of_normal (ih _ hxs m3 hn') hne'

theorem small_imul_spec (x : Limbs) (y : Nat) (hv : Valid x) (hy : y < 2 ^ 64) :
    value (small.imul x y) = value x * y ∧ Valid (small.imul x y) := by
  have := imulLoop_spec y 0 x hv hy (by norm_num)
  simpa [small.imul] using this

theorem small_imul_normal (x : Limbs) (y : Nat) (hv : Valid x) (hy : y < 2 ^ 64) (hy0 : y ≠ 0) (hn : Normal x) :
    Normal (small.imul x y) := imulLoop_normal y 0 x hv hy (by norm_num) hy0 hn

theorem small_imul_length (x : Limbs) (y : Nat) :
    x.length ≤ (small.imul x y).length ∧ (small.imul x y).length ≤ x.length + 1 :=
  ⟨imulLoop_length_le y 0 x, imulLoop_length_le' y 0 x⟩

theorem small_mul_spec (x : Limbs) (y : Nat) (hv : Valid x) (hy : y < 2 ^ 64) :
    value (small.mul x y) = value x * y ∧ Valid (small.mul x y) := small_imul_spec x y hv hy

end SJ.Proofs.LexMath
