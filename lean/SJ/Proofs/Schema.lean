import SJ.Spec.Schema
/-!
# Lawfulness of the structural equalities of `SJ.Spec.Schema` and the `DecidableEq` instances

`deriving DecidableEq` does not cover nested inductives, so `Schema`, `VariantShape`, `JV` and `TVal`
get their instances from the Bool-valued `beq` / `eqv true` of `Spec/Schema.lean`, proved here to be
exactly equality (mutual structural induction). The functions are compiled by structural recursion on
nested inductives; closed instances are decided with `decide +kernel`.
-/
namespace SJ

mutual
theorem Schema.eq_of_beq : ∀ (a b : Schema), Schema.beq a b = true → a = b
  | .bool, b => by cases b <;> simp [Schema.beq]
  | .int w, b => by cases b <;> simp [Schema.beq]
  | .f64, b => by cases b <;> simp [Schema.beq]
  | .f32, b => by cases b <;> simp [Schema.beq]
  | .char, b => by cases b <;> simp [Schema.beq]
  | .string, b => by cases b <;> simp [Schema.beq]
  | .bytes, b => by cases b <;> simp [Schema.beq]
  | .unit, b => by cases b <;> simp [Schema.beq]
  | .unitStruct, b => by cases b <;> simp [Schema.beq]
  | .ignored, b => by cases b <;> simp [Schema.beq]
  | .any, b => by cases b <;> simp [Schema.beq]
  | .option a, b => by
    cases b <;> simp [Schema.beq]
    exact Schema.eq_of_beq a _
  | .newtype a, b => by
    cases b <;> simp [Schema.beq]
    exact Schema.eq_of_beq a _
  | .seq a, b => by
    cases b <;> simp [Schema.beq]
    exact Schema.eq_of_beq a _
  | .tuple a, b => by
    cases b <;> simp [Schema.beq]
    exact Schema.eq_of_beqList a _
  | .map k a, b => by
    cases b <;> simp [Schema.beq]
    intro hk h
    exact ⟨hk, Schema.eq_of_beq a _ h⟩
  | .struct_ f d, b => by
    cases b <;> simp [Schema.beq]
    intro hd h
    exact ⟨Schema.eq_of_beqFields f _ h, hd⟩
  | .enum_ a, b => by
    cases b <;> simp [Schema.beq]
    exact Schema.eq_of_beqVariants a _
theorem Schema.eq_of_beqList : ∀ (a b : List Schema), Schema.beqList a b = true → a = b
  | [], [] => fun _ => rfl
  | [], _ :: _ => by simp [Schema.beqList]
  | _ :: _, [] => by simp [Schema.beqList]
  | a :: as, b :: bs => by
    simp only [Schema.beqList, Bool.and_eq_true]
    intro h
    rw [Schema.eq_of_beq a b h.1, Schema.eq_of_beqList as bs h.2]
theorem Schema.eq_of_beqFields : ∀ (a b : List (Bytes × Schema)), Schema.beqFields a b = true → a = b
  | [], [] => fun _ => rfl
  | [], _ :: _ => by simp [Schema.beqFields]
  | _ :: _, [] => by simp [Schema.beqFields]
  | (k, a) :: as, (l, b) :: bs => by
    simp only [Schema.beqFields, Bool.and_eq_true, beq_iff_eq]
    intro h
    rw [h.1.1, Schema.eq_of_beq a b h.1.2, Schema.eq_of_beqFields as bs h.2]
theorem Schema.eq_of_beqVariants : ∀ (a b : List (Bytes × VariantShape)), Schema.beqVariants a b = true → a = b
  | [], [] => fun _ => rfl
  | [], _ :: _ => by simp [Schema.beqVariants]
  | _ :: _, [] => by simp [Schema.beqVariants]
  | (k, a) :: as, (l, b) :: bs => by
    simp only [Schema.beqVariants, Bool.and_eq_true, beq_iff_eq]
    intro h
    rw [h.1.1, VariantShape.eq_of_beq a b h.1.2, Schema.eq_of_beqVariants as bs h.2]
theorem VariantShape.eq_of_beq : ∀ (a b : VariantShape), VariantShape.beq a b = true → a = b
  | a, b => by
    cases a <;> cases b <;> simp [VariantShape.beq] <;> intro h
    · exact Schema.eq_of_beq _ _ h
    · exact Schema.eq_of_beqList _ _ h
    · exact Schema.eq_of_beqFields _ _ h
end

mutual
theorem Schema.beq_refl : ∀ (a : Schema), Schema.beq a a = true
  | .bool | .f64 | .f32 | .char | .string | .bytes | .unit | .unitStruct | .ignored | .any => by simp [Schema.beq]
  | .int _ => by simp [Schema.beq]
  | .option a | .newtype a | .seq a => by simp [Schema.beq, Schema.beq_refl a]
  | .tuple a => by simp [Schema.beq, Schema.beqList_refl a]
  | .map _ a => by simp [Schema.beq, Schema.beq_refl a]
  | .struct_ f _ => by simp [Schema.beq, Schema.beqFields_refl f]
  | .enum_ a => by simp [Schema.beq, Schema.beqVariants_refl a]
theorem Schema.beqList_refl : ∀ (a : List Schema), Schema.beqList a a = true
  | [] => by simp [Schema.beqList]
  | a :: as => by simp [Schema.beqList, Schema.beq_refl a, Schema.beqList_refl as]
theorem Schema.beqFields_refl : ∀ (a : List (Bytes × Schema)), Schema.beqFields a a = true
  | [] => by simp [Schema.beqFields]
  | (_, a) :: as => by simp [Schema.beqFields, Schema.beq_refl a, Schema.beqFields_refl as]
theorem Schema.beqVariants_refl : ∀ (a : List (Bytes × VariantShape)), Schema.beqVariants a a = true
  | [] => by simp [Schema.beqVariants]
  | (_, a) :: as => by simp [Schema.beqVariants, VariantShape.beq_refl a, Schema.beqVariants_refl as]
theorem VariantShape.beq_refl : ∀ (a : VariantShape), VariantShape.beq a a = true
  | .unit => by simp [VariantShape.beq]
  | .newtype a => by simp [VariantShape.beq, Schema.beq_refl a]
  | .tuple a => by simp [VariantShape.beq, Schema.beqList_refl a]
  | .struct_ a => by simp [VariantShape.beq, Schema.beqFields_refl a]
end

instance : DecidableEq Schema := fun a b =>
  if h : Schema.beq a b = true then isTrue (Schema.eq_of_beq a b h)
  else isFalse (fun e => h (e ▸ Schema.beq_refl a))
instance : DecidableEq VariantShape := fun a b =>
  if h : VariantShape.beq a b = true then isTrue (VariantShape.eq_of_beq a b h)
  else isFalse (fun e => h (e ▸ VariantShape.beq_refl a))


mutual
theorem JV.eq_of_beq : ∀ (a b : JV), JV.beq a b = true → a = b
  | .null, b => by cases b <;> simp [JV.beq]
  | .bool _, b => by cases b <;> simp [JV.beq]
  | .num _, b => by cases b <;> simp [JV.beq]
  | .str _, b => by cases b <;> simp [JV.beq]
  | .arr a, b => by
    cases b <;> simp [JV.beq]
    exact JV.eq_of_beqList a _
  | .obj a, b => by
    cases b <;> simp [JV.beq]
    exact JV.eq_of_beqMembers a _
theorem JV.eq_of_beqList : ∀ (a b : List JV), JV.beqList a b = true → a = b
  | [], [] => fun _ => rfl
  | [], _ :: _ => by simp [JV.beqList]
  | _ :: _, [] => by simp [JV.beqList]
  | a :: as, b :: bs => by
    simp only [JV.beqList, Bool.and_eq_true]
    intro h
    rw [JV.eq_of_beq a b h.1, JV.eq_of_beqList as bs h.2]
theorem JV.eq_of_beqMembers : ∀ (a b : List (Bytes × JV)), JV.beqMembers a b = true → a = b
  | [], [] => fun _ => rfl
  | [], _ :: _ => by simp [JV.beqMembers]
  | _ :: _, [] => by simp [JV.beqMembers]
  | (k, a) :: as, (l, b) :: bs => by
    simp only [JV.beqMembers, Bool.and_eq_true, beq_iff_eq]
    intro h
    rw [h.1.1, JV.eq_of_beq a b h.1.2, JV.eq_of_beqMembers as bs h.2]
end

mutual
theorem JV.beq_refl : ∀ (a : JV), JV.beq a a = true
  | .null => by simp [JV.beq]
  | .bool _ => by simp [JV.beq]
  | .num _ => by simp [JV.beq]
  | .str _ => by simp [JV.beq]
  | .arr a => by simp [JV.beq, JV.beqList_refl a]
  | .obj a => by simp [JV.beq, JV.beqMembers_refl a]
theorem JV.beqList_refl : ∀ (a : List JV), JV.beqList a a = true
  | [] => by simp [JV.beqList]
  | a :: as => by simp [JV.beqList, JV.beq_refl a, JV.beqList_refl as]
theorem JV.beqMembers_refl : ∀ (a : List (Bytes × JV)), JV.beqMembers a a = true
  | [] => by simp [JV.beqMembers]
  | (_, a) :: as => by simp [JV.beqMembers, JV.beq_refl a, JV.beqMembers_refl as]
end

instance : DecidableEq JV := fun a b =>
  if h : JV.beq a b = true then isTrue (JV.eq_of_beq a b h)
  else isFalse (fun e => h (e ▸ JV.beq_refl a))

theorem Num.eqv_true (a b : Num) : Num.eqv true a b = true ↔ a = b := by
  cases a <;> cases b <;> simp [Num.eqv]

mutual
theorem JV.eq_of_eqv : ∀ (a b : JV), JV.eqv true a b = true → a = b
  | .null, b => by cases b <;> simp [JV.eqv]
  | .bool _, b => by cases b <;> simp [JV.eqv]
  | .num _, b => by cases b <;> simp [JV.eqv, Num.eqv_true]
  | .str _, b => by cases b <;> simp [JV.eqv]
  | .arr a, b => by
    cases b <;> simp [JV.eqv]
    exact JV.eq_of_eqvList a _
  | .obj a, b => by
    cases b <;> simp [JV.eqv]
    exact JV.eq_of_eqvMembers a _
theorem JV.eq_of_eqvList : ∀ (a b : List JV), JV.eqvList true a b = true → a = b
  | [], [] => fun _ => rfl
  | [], _ :: _ => by simp [JV.eqvList]
  | _ :: _, [] => by simp [JV.eqvList]
  | a :: as, b :: bs => by
    simp only [JV.eqvList, Bool.and_eq_true]
    intro h
    rw [JV.eq_of_eqv a b h.1, JV.eq_of_eqvList as bs h.2]
theorem JV.eq_of_eqvMembers : ∀ (a b : List (Bytes × JV)), JV.eqvMembers true a b = true → a = b
  | [], [] => fun _ => rfl
  | [], _ :: _ => by simp [JV.eqvMembers]
  | _ :: _, [] => by simp [JV.eqvMembers]
  | (k, a) :: as, (l, b) :: bs => by
    simp only [JV.eqvMembers, Bool.and_eq_true, beq_iff_eq]
    intro h
    rw [h.1.1, JV.eq_of_eqv a b h.1.2, JV.eq_of_eqvMembers as bs h.2]
end

mutual
theorem JV.eqv_refl (f : Bool) : ∀ (a : JV), JV.eqv f a a = true
  | .null => by simp [JV.eqv]
  | .bool _ => by simp [JV.eqv]
  | .num n => by cases n <;> simp [JV.eqv, Num.eqv]
  | .str _ => by simp [JV.eqv]
  | .arr a => by simp [JV.eqv, JV.eqvList_refl f a]
  | .obj a => by simp [JV.eqv, JV.eqvMembers_refl f a]
theorem JV.eqvList_refl (f : Bool) : ∀ (a : List JV), JV.eqvList f a a = true
  | [] => by simp [JV.eqvList]
  | a :: as => by simp [JV.eqvList, JV.eqv_refl f a, JV.eqvList_refl f as]
theorem JV.eqvMembers_refl (f : Bool) : ∀ (a : List (Bytes × JV)), JV.eqvMembers f a a = true
  | [] => by simp [JV.eqvMembers]
  | (_, a) :: as => by simp [JV.eqvMembers, JV.eqv_refl f a, JV.eqvMembers_refl f as]
end

mutual
theorem TVal.eq_of_eqv : ∀ (a b : TVal), TVal.eqv true a b = true → a = b
  | .bool _, b => by cases b <;> simp [TVal.eqv]
  | .int _, b => by cases b <;> simp [TVal.eqv]
  | .f64 _, b => by cases b <;> simp [TVal.eqv]
  | .f32 _, b => by cases b <;> simp [TVal.eqv]
  | .char _, b => by cases b <;> simp [TVal.eqv]
  | .str _, b => by cases b <;> simp [TVal.eqv]
  | .bytes _, b => by cases b <;> simp [TVal.eqv]
  | .none, b => by cases b <;> simp [TVal.eqv]
  | .unit, b => by cases b <;> simp [TVal.eqv]
  | .ignored, b => by cases b <;> simp [TVal.eqv]
  | .some a, b => by
    cases b <;> simp [TVal.eqv]
    exact TVal.eq_of_eqv a _
  | .seq a, b => by
    cases b <;> simp [TVal.eqv]
    exact TVal.eq_of_eqvList a _
  | .struct_ a, b => by
    cases b <;> simp [TVal.eqv]
    exact TVal.eq_of_eqvList a _
  | .map a, b => by
    cases b <;> simp [TVal.eqv]
    exact TVal.eq_of_eqvPairs a _
  | .variant i a, b => by
    cases b <;> simp [TVal.eqv]
    intro hi h
    exact ⟨hi, TVal.eq_of_eqv a _ h⟩
  | .any a, b => by
    cases b <;> simp [TVal.eqv]
    exact JV.eq_of_eqv a _
theorem TVal.eq_of_eqvList : ∀ (a b : List TVal), TVal.eqvList true a b = true → a = b
  | [], [] => fun _ => rfl
  | [], _ :: _ => by simp [TVal.eqvList]
  | _ :: _, [] => by simp [TVal.eqvList]
  | a :: as, b :: bs => by
    simp only [TVal.eqvList, Bool.and_eq_true]
    intro h
    rw [TVal.eq_of_eqv a b h.1, TVal.eq_of_eqvList as bs h.2]
theorem TVal.eq_of_eqvPairs : ∀ (a b : List (TVal × TVal)), TVal.eqvPairs true a b = true → a = b
  | [], [] => fun _ => rfl
  | [], _ :: _ => by simp [TVal.eqvPairs]
  | _ :: _, [] => by simp [TVal.eqvPairs]
  | (k, a) :: as, (l, b) :: bs => by
    simp only [TVal.eqvPairs, Bool.and_eq_true]
    intro h
    rw [TVal.eq_of_eqv k l h.1.1, TVal.eq_of_eqv a b h.1.2, TVal.eq_of_eqvPairs as bs h.2]
end

mutual
theorem TVal.eqv_refl (f : Bool) : ∀ (a : TVal), TVal.eqv f a a = true
  | .bool _ | .int _ | .f32 _ | .char _ | .str _ | .bytes _ | .none | .unit | .ignored => by simp [TVal.eqv]
  | .f64 _ => by simp [TVal.eqv]
  | .some a => by simp [TVal.eqv, TVal.eqv_refl f a]
  | .seq a | .struct_ a => by simp [TVal.eqv, TVal.eqvList_refl f a]
  | .map a => by simp [TVal.eqv, TVal.eqvPairs_refl f a]
  | .variant _ a => by simp [TVal.eqv, TVal.eqv_refl f a]
  | .any a => by simp [TVal.eqv, JV.eqv_refl f a]
theorem TVal.eqvList_refl (f : Bool) : ∀ (a : List TVal), TVal.eqvList f a a = true
  | [] => by simp [TVal.eqvList]
  | a :: as => by simp [TVal.eqvList, TVal.eqv_refl f a, TVal.eqvList_refl f as]
theorem TVal.eqvPairs_refl (f : Bool) : ∀ (a : List (TVal × TVal)), TVal.eqvPairs f a a = true
  | [] => by simp [TVal.eqvPairs]
  | (k, a) :: as => by simp [TVal.eqvPairs, TVal.eqv_refl f k, TVal.eqv_refl f a, TVal.eqvPairs_refl f as]
end

instance : DecidableEq TVal := fun a b =>
  if h : TVal.eqv true a b = true then isTrue (TVal.eq_of_eqv a b h)
  else isFalse (fun e => h (e ▸ TVal.eqv_refl true a))

theorem TVal.eqv_true_iff (a b : TVal) : TVal.eqv true a b = true ↔ a = b :=
  ⟨TVal.eq_of_eqv a b, fun e => e ▸ TVal.eqv_refl true a⟩

example : (Schema.tuple [.bool, .option .f64]) ≠ (Schema.tuple [.bool, .option .f32]) := by decide +kernel
example : (TVal.seq [.int 1, .any (.arr [.null])]) = (TVal.seq [.int 1, .any (.arr [.null])]) := by decide +kernel

end SJ
