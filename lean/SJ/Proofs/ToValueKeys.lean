import SJ.Model.ToValue
import SJ.Model.Ser
import SJ.Spec.Image
import SJ.Spec.ValueOf
/-!
# C15 helper lemmas: the two key serializers

* `keyVal_eq_keyText`: on keys that never reach `serialize_some`, `value::ser::MapKeySerializer` (model
  `keyVal`) returns exactly the key text of the data-model image (`Spec.Image.keyText`, which the text
  `MapKeySerializer` is proved to spell, `SerModel.keySer_rel`), with the same error otherwise;
* `keyVal_some`: a `Some(_)` key is always rejected by `keyVal`;
* `probe` / `probe_value` / `probe_text`: the dispatch of the two hand-written key-serializer models,
  observed on one representative program per `serde::Serializer` method, coincides with the tables
  extracted from `src/value/ser.rs` and `src/ser.rs` (`SJ.Gen.keyClassValue`, `SJ.Gen.keyClassText`).
-/
namespace SJ.Proofs.ToValueKeys
open SJ SJ.Spec.Program SJ.Spec.Image SJ.Spec.ValueOf SJ.Model.ToValue

theorem keyVal_eq_keyText (ext : Ext) : ∀ k : SVal, keyVal ext k = keyText ext k
  | .some k => by simp only [keyVal, keyText]; exact keyVal_eq_keyText ext k
  | .newtypeStruct k => by simp only [keyVal, keyText]; exact keyVal_eq_keyText ext k
  | .bool b => by cases b <;> rfl
  | .int _ _ => rfl
  | .f32 _ => rfl
  | .f64 _ => rfl
  | .char _ => rfl
  | .str _ => rfl
  | .bytes _ => rfl
  | .none => rfl
  | .unit => rfl
  | .unitStruct => rfl
  | .unitVariant _ => rfl
  | .newtypeVariant _ _ => rfl
  | .seq _ _ => rfl
  | .tuple _ => rfl
  | .tupleStruct _ => rfl
  | .tupleVariant _ _ => rfl
  | .map _ _ => rfl
  | .struct_ _ => rfl
  | .structVariant _ _ => rfl
  | .collectStr _ => rfl
  | .numberLit _ => rfl

/-! ## the dispatch tables extracted from the source -/

/-- one representative program per `serde::Serializer` method; `x` is the payload where there is one -/
def rep (x : SVal) : Gen.KeyMethod → SVal
  | .serialize_bool => .bool true
  | .serialize_i8 => .int .i8 (-1)
  | .serialize_i16 => .int .i16 (-1)
  | .serialize_i32 => .int .i32 (-1)
  | .serialize_i64 => .int .i64 (-1)
  | .serialize_i128 => .int .i128 (-1)
  | .serialize_u8 => .int .u8 1
  | .serialize_u16 => .int .u16 1
  | .serialize_u32 => .int .u32 1
  | .serialize_u64 => .int .u64 1
  | .serialize_u128 => .int .u128 1
  | .serialize_f32 => .f32 0x3fc00000
  | .serialize_f64 => .f64 0x3ff8000000000000
  | .serialize_char => .char 0x61
  | .serialize_str => .str [0x61]
  | .serialize_bytes => .bytes [0x61]
  | .serialize_none => .none
  | .serialize_some => .some x
  | .serialize_unit => .unit
  | .serialize_unit_struct => .unitStruct
  | .serialize_unit_variant => .unitVariant [0x56]
  | .serialize_newtype_struct => .newtypeStruct x
  | .serialize_newtype_variant => .newtypeVariant [0x56] x
  | .serialize_seq => .seq none [x]
  | .serialize_tuple => .tuple [x]
  | .serialize_tuple_struct => .tupleStruct [x]
  | .serialize_tuple_variant => .tupleVariant [0x56] [x]
  | .serialize_map => .map none [(.str [0x61], x)]
  | .serialize_struct => .struct_ [([0x61], x)]
  | .serialize_struct_variant => .structVariant [0x56] [([0x61], x)]
  | .collect_str => .collectStr [0x61]

/-- the non-finite representative of the two float methods -/
def repNonFinite : Gen.KeyMethod → Option SVal
  | .serialize_f32 => some (.f32 0x7fc00000)
  | .serialize_f64 => some (.f64 0x7ff8000000000000)
  | _ => none

/-- the class of a method as observed on a key serializer `key` (success / failure only): rejected even
    with a string payload → `reject`; accepted with a string payload but not with `()` → `forward`;
    `FloatKeyMustBeFinite` on the non-finite representative → `finite`; otherwise `accept` -/
def probe (key : SVal → Except SerErr Unit) (m : Gen.KeyMethod) : Gen.KeyClass :=
  match key (rep (.str [0x78]) m), key (rep .unit m) with
  | .error _, _ => .reject
  | .ok _, .error _ => .forward
  | .ok _, .ok _ =>
    match repNonFinite m with
    | some q => (match key q with | .error .floatKeyMustBeFinite => .finite | _ => .accept)
    | none => .accept

/-- a stand-in for the external printers (the dispatch does not depend on them) -/
def extP : Ext := { itoa := fun _ => [0x31], ryu64 := fun _ => [0x31], ryu32 := fun _ => [0x31] }

theorem probe_value (m : Gen.KeyMethod) :
    probe (fun p => (keyVal extP p).map fun _ => ()) m = Gen.keyClassValue m := by
  cases m <;> rfl

theorem probe_text (m : Gen.KeyMethod) :
    probe (fun p => (Model.Ser.keySer extP p).map fun _ => ()) m = Gen.keyClassText m := by
  cases m <;> rfl

end SJ.Proofs.ToValueKeys
