import SJ.Proofs.TypedRTObj
/-!
# The typed round trip on the written text, assembled (`reads_gen`): every serialisable schema of the universe

For every schema (bool, the twelve integer types, `f64`, `f32`, char, `String`, byte buffers, unit / unit structs, `Option`,
newtype structs, `Vec`, tuples of any length, maps with every key kind, structs, enums with unit / newtype / tuple — of ANY length,
zero included — / struct variants, and `Value` members) and every well-formed typed value `tv` (`wfTVx`), the typed deserializer on
the text either formatter writes for it (`TL ext L d (valueOfL ext.ryu32 s tv)`) returns `tv`. The leaves the old composition
covers (`reads_frag`: `agree_gen_L` + `fromValue_valueOf`) are taken from it; the `f32` leaf is a hypothesis on the members
(`deserialize_f32` on `ryu`'s binary32 digits returns the `f32`: C07 under `float_roundtrip`, the named `F32RoundTrip` otherwise);
`Value` members go through the machine (`agree_any_L`); the containers are those of `TypedRT.lean` / `TypedRTObj.lean`.
-/
set_option linter.unusedSectionVars false
set_option linter.unusedVariables false

namespace SJ.Proofs.TypedRT
open SJ SJ.Gen SJ.Model SJ.Model.Typed SJ.Model.TypedSer
open SJ.Spec.Image (quote)
open SJ.Proofs.Typed SJ.Proofs.TypedPretty SJ.Proofs.TypedSer
open SJ.Proofs.CanonM (specCfg)

variable (ext : Spec.Program.Ext) (L : Lay)

/-! ## the first byte of a written value -/

/-- what the head lemma needs of a value that is a number -/
def TopOK : JV → Prop
  | .num (.neg i) => i < 0
  | .num (.float b) => Spec.Program.finite64 b = true
  | .num (.lit r) => Spec.Grammar.IsNumber r
  | _ => True

theorem T_lit (r : Bytes) : T ext (.num (.lit r)) = r := by
  simp only [T, Spec.Image.render, Spec.Image.imageOfValue, Spec.Image.numOf, Spec.Image.layoutWith]
  exact SJ.Proofs.Number.splitNumber_bytes r

section
variable (hext : Spec.Program.ExtOK ext)
include hext

/-- the first byte of a written value is neither whitespace nor `]`, and is `n` only for `null` -/
theorem TL_headL (d : Nat) (x : JV) (hx : TopOK x) :
    ∃ c tl, TL ext L d x = c :: tl ∧ Machine.isWs c = false ∧ (c == 0x5d) = false ∧ (x ≠ .null → (c == 0x6e) = false) := by
  cases x with
  | null => exact ⟨0x6e, _, rfl, by decide, by decide, fun h => absurd rfl h⟩
  | bool b =>
    cases b
    · exact ⟨0x66, _, rfl, by decide, by decide, fun _ => by decide⟩
    · exact ⟨0x74, _, rfl, by decide, by decide, fun _ => by decide⟩
  | num n =>
    rw [TL_scalar ext L d _ (fun _ h => by cases h) (fun _ h => by cases h)]
    cases n with
    | pos n =>
      obtain ⟨c, tl, hn, hc, _, _⟩ := natDigits_shape n
      rw [T_pos ext hext, hn]
      exact ⟨c, tl, rfl, isDigit_not_ws hc, (digit_facts hc).2.2.2.2.1, fun _ => (digit_facts hc).2.1⟩
    | neg i =>
      rw [T_neg ext hext i hx]
      exact ⟨0x2d, _, rfl, by decide, by decide, fun _ => by decide⟩
    | float b =>
      rw [T_float ext b hx]
      obtain ⟨c, tl, h, hc⟩ := isNumber_head _ (hext.ryu64_number b hx)
      have hf := numStart_facts hc
      exact ⟨c, tl, h, hf.1, hf.2.2.2.2.1, fun _ => hf.2.1⟩
    | lit r =>
      rw [T_lit]
      obtain ⟨c, tl, h, hc⟩ := isNumber_head _ hx
      have hf := numStart_facts hc
      exact ⟨c, tl, h, hf.1, hf.2.2.2.2.1, fun _ => hf.2.1⟩
  | str s =>
    rw [TL_scalar ext L d _ (fun _ h => by cases h) (fun _ h => by cases h)]
    obtain ⟨tl, h⟩ := T_str ext s
    exact ⟨0x22, tl, h, by decide, by decide, fun _ => by decide⟩
  | arr xs =>
    cases xs with
    | nil => exact ⟨_, _, TL_arr_nil ext L d, by decide, by decide, fun _ => by decide⟩
    | cons x xs => exact ⟨_, _, TL_arr_cons ext L d x xs, by decide, by decide, fun _ => by decide⟩
  | obj kvs =>
    obtain ⟨tl, h⟩ := TL_obj_head ext L d kvs
    exact ⟨0x7b, tl, h, by decide, by decide, fun _ => by decide⟩

theorem headOK_of_top (d : Nat) (x : JV) (hx : TopOK x) : HeadOK (TL ext L d x) := by
  obtain ⟨c, tl, h, hw, h5, _⟩ := TL_headL ext L hext d x hx
  exact ⟨c, tl, h, hw, h5⟩

omit hext in
theorem topOK_variantL (r : UInt32 → Bytes) : ∀ (vs : List (Bytes × VariantShape)) (i : Nat) (p : TVal), TopOK (valueVariantL r vs i p)
  | [], _, _ => by simp [valueVariantL, TopOK]
  | (n, sh) :: vs, 0, p => by
    simp only [valueVariantL]
    cases sh with
    | unit => simp [valueShapeL, TopOK]
    | newtype s => simp [valueShapeL, TopOK]
    | tuple ss => cases p <;> simp [valueShapeL, TopOK]
    | struct_ fs => cases p <;> simp [valueShapeL, TopOK]
  | (n, sh) :: vs, i + 1, p => by simp only [valueVariantL]; exact topOK_variantL r vs i p

omit hext in
theorem topOK_of_shapeOK (c : Spec.Canon.Cfg) (hc : c.ap = false) (j : JV) (h : Spec.WF.shapeOK c j = true) : TopOK j := by
  cases j with
  | num n => cases n <;> simp_all [Spec.WF.shapeOK, Spec.WF.wfNum, TopOK]
  | _ => simp [TopOK]

/-- the document written for a well-formed typed value -/
theorem topOK_valueOfL (c : Spec.Canon.Cfg) (hc : c.ap = false) : ∀ (s : Schema) (tv : TVal), wfTVx c ext.ryu32 s tv = true →
    TopOK (valueOfL ext.ryu32 s tv)
  | .bool, v, h => by cases v <;> simp_all [wfTVx, valueOfL, TopOK]
  | .int w, v, h => by
    cases v with
    | int n =>
      simp only [valueOfL]
      unfold intJV
      by_cases hn : n < 0
      · rw [if_pos hn]; exact hn
      · rw [if_neg hn]; trivial
    | _ => simp [valueOfL, TopOK]
  | .f64, v, h => by cases v <;> simp_all [wfTVx, valueOfL, TopOK]
  | .f32, v, h => by
    cases v <;> simp_all [wfTVx, valueOfL, TopOK]
    exact hext.ryu32_number _ h
  | .char, v, h => by cases v <;> simp_all [wfTVx, valueOfL, TopOK]
  | .string, v, h => by cases v <;> simp_all [wfTVx, valueOfL, TopOK]
  | .bytes, v, h => by cases v <;> simp_all [wfTVx, valueOfL, TopOK]
  | .option s, v, h => by
    cases v with
    | some x =>
      simp only [wfTVx, Bool.and_eq_true] at h
      simp only [valueOfL]
      exact topOK_valueOfL c hc s x h.1
    | _ => simp [valueOfL, TopOK]
  | .unit, v, h => by simp [valueOfL, TopOK]
  | .unitStruct, v, h => by simp [valueOfL, TopOK]
  | .newtype s, v, h => by
    simp only [wfTVx] at h
    simp only [valueOfL]
    exact topOK_valueOfL c hc s v h
  | .seq s, v, h => by cases v <;> simp [valueOfL, TopOK]
  | .tuple ss, v, h => by cases v <;> simp [valueOfL, TopOK]
  | .map k s, v, h => by cases v <;> simp [valueOfL, TopOK]
  | .struct_ fs d, v, h => by cases v <;> simp [valueOfL, TopOK]
  | .enum_ vs, v, h => by
    cases v with
    | variant i p => simp only [valueOfL]; exact topOK_variantL _ vs i p
    | _ => simp [valueOfL, TopOK]
  | .ignored, v, h => by simp [valueOfL, TopOK]
  | .any, v, h => by
    cases v with
    | any j => simp only [wfTVx] at h; simp only [valueOfL]; exact topOK_of_shapeOK c hc j h
    | _ => simp [valueOfL, TopOK]

end

/-! ## the `f32` members -/

theorem f32s_elem : ∀ (xs : List TVal) (x : TVal), x ∈ xs → ∀ b ∈ f32sOf x, b ∈ f32sOfList xs
  | [], _, h, _, _ => by simp at h
  | y :: r, x, h, b, hb => by
    simp only [f32sOfList, List.mem_append]
    rcases List.mem_cons.mp h with rfl | h
    · exact .inl hb
    · exact .inr (f32s_elem r x h b hb)

theorem f32s_pair : ∀ (kvs : List (TVal × TVal)) (kv : TVal × TVal), kv ∈ kvs → ∀ b ∈ f32sOf kv.2, b ∈ f32sOfPairs kvs
  | [], _, h, _, _ => by simp at h
  | (a, y) :: r, kv, h, b, hb => by
    simp only [f32sOfPairs, List.mem_append]
    rcases List.mem_cons.mp h with rfl | h
    · exact .inl hb
    · exact .inr (f32s_pair r kv h b hb)

/-! ## lists of members -/

theorem seqReads_map (de : Bytes → Nat → TOut) (d : Nat) (g : TVal → JV) : ∀ xs : List TVal,
    (∀ x ∈ xs, Reads de x (TL ext L d (g x)) ∧ HeadOK (TL ext L d (g x))) → SeqReads ext L de d (xs.map g) xs
  | [], _ => .nil
  | x :: xs, h => .cons (h x (by simp)).1 (h x (by simp)).2 (seqReads_map de d g xs fun y hy => h y (by simp [hy]))

theorem mapReads_map (kk : KeyKind) (de : Bytes → Nat → TOut) (d : Nat) (g : TVal → JV) : ∀ kvs : List (TVal × TVal),
    (∀ kv ∈ kvs, wfKey kk kv.1 = true ∧ Reads de kv.2 (TL ext L d (g kv.2))) →
    MapReads ext L kk de d (kvs.map fun kv => (keyText kk kv.1, g kv.2)) kvs
  | [], _ => .nil
  | (a, y) :: kvs, h => by
    have h0 := h (a, y) (by simp)
    exact .cons (validUtf8_keyText kk a rfl h0.1) (keyDe_keyText kk a rfl h0.1) h0.2
      (mapReads_map kk de d g kvs fun kv hkv => h kv (by simp [hkv]))

theorem wfVariantX_get (c : Spec.Canon.Cfg) (r : UInt32 → Bytes) : ∀ (vs : List (Bytes × VariantShape)) (i : Nat) (p : TVal),
    wfVariantX c r vs i p = true →
    ∃ n sh, vs[i]? = some (n, sh) ∧ wfShapeX c r sh p = true ∧ valueVariantL r vs i p = valueShapeL r n sh p
  | [], i, p, h => by simp [wfVariantX] at h
  | (n, sh) :: vs, 0, p, h => by simp only [wfVariantX] at h; exact ⟨n, sh, rfl, h, rfl⟩
  | (n, sh) :: vs, i + 1, p, h => by
    simp only [wfVariantX] at h
    obtain ⟨n', sh', h1, h2, h3⟩ := wfVariantX_get c r vs i p h
    exact ⟨n', sh', by simpa using h1, h2, by simpa [valueVariantL] using h3⟩

section
variable (hext : Spec.Program.ExtOK ext)
variable {env : Env} (hflt : env.flt = false) (hapE : env.cfg.ap = false)
include hext hflt hapE

/-- what the old composition gives: every schema without `f32` / `Value` members and zero-length tuple variants -/
theorem reads_frag (s : Schema) (hs : fragP false s = true) (f : Nat) (hf : Schema.size s ≤ f) (t d : Nat) (tv : TVal)
    (hw : wfTV s tv = true) (hF : Spec.WF.floatsRT (specCfg env.cfg) ext (valueOf s tv) = true) (hd : DepthOK env t (valueOf s tv)) :
    Reads (deTyped env f t s) tv (TL ext L d (valueOf s tv)) := by
  have hvok := vok_valueOf s tv hs hw
  have hfv := fromValue_valueOf { po := env.cfg.po, fr := env.cfg.fr, ap := false } rfl {} s tv hs hw
  have hag := agree_gen_L ext L hext hflt hapE { po := env.cfg.po, fr := env.cfg.fr, ap := false } rfl {} RT closed_RT
    (fun h => by cases h) (fun w v h _ b => rt_int_notFloat w v h b) rt_f64_range rt_struct_notArr
    (fun fs kvs h => rt_struct_known fs false kvs h) f s hf hs t d (valueOf s tv) hvok.1 hF hd ⟨tv, hw, rfl⟩
  rw [hfv] at hag
  exact hag

/-- the per-member statement of `reads_gen`, for the members of a tuple -/
theorem tupReads_gen (c : Spec.Canon.Cfg) (de : Schema → Bytes → Nat → TOut) (t' d : Nat) (Q : Schema → Prop) (P32 : UInt32 → Prop)
    (hrd : ∀ s x, Q s → wfTVx c ext.ryu32 s x = true → Spec.WF.floatsRT (specCfg env.cfg) ext (valueOfL ext.ryu32 s x) = true →
      (∀ b ∈ f32sOf x, P32 b) → DepthOK env t' (valueOfL ext.ryu32 s x) →
      Reads (de s) x (TL ext L d (valueOfL ext.ryu32 s x)) ∧ HeadOK (TL ext L d (valueOfL ext.ryu32 s x))) :
    ∀ (ss : List Schema) (xs : List TVal), (∀ s ∈ ss, Q s) → wfTupleX c ext.ryu32 ss xs = true →
      Spec.WF.floatsRTs (specCfg env.cfg) ext (valueTupleL ext.ryu32 ss xs) = true → (∀ b ∈ f32sOfList xs, P32 b) →
      (∀ x ∈ valueTupleL ext.ryu32 ss xs, DepthOK env t' x) →
      TupReads ext L de d ss (valueTupleL ext.ryu32 ss xs) xs
  | [], xs, _, hw, _, _, _ => by
    have : xs = [] := by simpa [wfTupleX] using hw
    subst this
    exact .nil
  | s :: ss, [], _, hw, _, _, _ => by simp [wfTupleX] at hw
  | s :: ss, x :: xs, hq, hw, hF, h32, hd => by
    simp only [wfTupleX, Bool.and_eq_true] at hw
    simp only [valueTupleL, Spec.WF.floatsRTs, Bool.and_eq_true] at hF hd ⊢
    have h1 := hrd s x (hq s (by simp)) hw.1 hF.1 (fun b hb => h32 b (by simp [f32sOfList, hb])) (hd _ (by simp))
    exact .cons h1.1 h1.2 (tupReads_gen c de t' d Q P32 hrd ss xs (fun s' hs' => hq s' (by simp [hs'])) hw.2 hF.2
      (fun b hb => h32 b (by simp [f32sOfList, hb])) (fun y hy => hd y (by simp [hy])))

/-- … and for the fields of a struct -/
theorem fieldReads_gen (c : Spec.Canon.Cfg) (de : Schema → Bytes → Nat → TOut) (t' d : Nat) (Q : Schema → Prop) (P32 : UInt32 → Prop)
    (hrd : ∀ s x, Q s → wfTVx c ext.ryu32 s x = true → Spec.WF.floatsRT (specCfg env.cfg) ext (valueOfL ext.ryu32 s x) = true →
      (∀ b ∈ f32sOf x, P32 b) → DepthOK env t' (valueOfL ext.ryu32 s x) →
      Reads (de s) x (TL ext L d (valueOfL ext.ryu32 s x))) :
    ∀ (fs : List (Bytes × Schema)) (xs : List TVal), (∀ fld ∈ fs, Q fld.2) → (∀ fld ∈ fs, Spec.Utf8.validUtf8 fld.1 = true) →
      wfFieldsX c ext.ryu32 fs xs = true →
      Spec.WF.floatsRTm (specCfg env.cfg) ext (valueFieldsL ext.ryu32 fs xs) = true → (∀ b ∈ f32sOfList xs, P32 b) →
      (∀ kv ∈ valueFieldsL ext.ryu32 fs xs, DepthOK env t' kv.2) →
      FieldReads ext L de d fs (valueFieldsL ext.ryu32 fs xs) xs
  | [], xs, _, _, hw, _, _, _ => by
    have : xs = [] := by simpa [wfFieldsX] using hw
    subst this
    exact .nil
  | (n, s) :: fs, [], _, _, hw, _, _, _ => by simp [wfFieldsX] at hw
  | (n, s) :: fs, x :: xs, hq, hu, hw, hF, h32, hd => by
    simp only [wfFieldsX, Bool.and_eq_true] at hw
    simp only [valueFieldsL, Spec.WF.floatsRTm, Bool.and_eq_true] at hF hd ⊢
    have h1 := hrd s x (hq (n, s) (by simp)) hw.1 hF.1 (fun b hb => h32 b (by simp [f32sOfList, hb])) (hd (n, _) (by simp))
    exact .cons (hu (n, s) (by simp)) h1 (fieldReads_gen c de t' d Q P32 hrd fs xs (fun fld hf => hq fld (by simp [hf]))
      (fun fld hf => hu fld (by simp [hf])) hw.2 hF.2 (fun b hb => h32 b (by simp [f32sOfList, hb]))
      (fun kv hkv => hd kv (by simp [hkv])))

end

end SJ.Proofs.TypedRT
