import SJ.Proofs.LexModerate
import SJ.Proofs.LexCorrect
/-!
# C07 moderate path, part 5: `moderate_path_sound` — the layer `ModerateOk` holds for every call

`moderate_ok`: for a mantissa `0 < w < 2^64`, `j` cut-off digits `r < 10^j` (`r = 0` unless the call says
`truncated`; a non-zero `r` only after a `u64` overflow, `2^64 ≤ 11·w`), and the mantissa exponent `me` that
`mantissa_exponent` computed for the true exponent `e0` (equal, or both saturated out of the table range):

* accepted by `error_is_accurate` ⇒ rounding the extended product is rounding the exact decimal;
* rejected ⇒ the exact decimal lies in the neighbourhood (`NearBelow`) of the downward-rounded product, which is what
  `bhcomp` assumes; a non-finite downward-rounded product means the exact decimal rounds to infinity as well.
-/
namespace SJ.Proofs.LexModerateOk
open SJ SJ.Gen SJ.Model.Lexical SJ.Spec.Ieee SJ.Proofs.Ieee SJ.Proofs.LexRound SJ.Proofs.LexBh SJ.Proofs.LexFast
open SJ.Proofs.LexCorrect SJ.Proofs.LexModerateRound SJ.Proofs.LexModerateErr SJ.Proofs.LexModerate SJ.Proofs.LexTables

/-- three more closed facts about a format: `2^9 ≤ 2^(63−mbits)` (68 booked units stay below a quarter of the dropped
    bits), `2^64 · 10^-351` is below half the least subnormal, `10^310` is beyond the finite range -/
structure FCx (F : Fmt) : Prop where
  mb52 : F.mbits ≤ 52
  tiny351 : 2 * (2 ^ 64 * 2 ^ F.qexp) < 10 ^ 351
  big310 : 2 ^ (F.mbits + 1) * 2 ^ (2 ^ F.ebits - 3) ≤ 10 ^ 310 * 2 ^ F.qexp

theorem fcx64 : FCx b64 := by constructor <;> decide +kernel
theorem fcx32 : FCx b32 := by constructor <;> decide +kernel
theorem fcxOf (single : Bool) : FCx (fmtOf single) := by
  cases single
  · exact fcx64
  · exact fcx32

/-! ## the two early exits -/

theorem mp_low (c : FC) (w : Nat) (me : Int) (t : Bool) (h : me < -350) :
    moderatePath c w me t = ({ mant := 0, exp := 0 }, true) := by
  have hb : base10Bias = 350 := lengths.2.2.2.2.2.2.1
  unfold moderatePath multiplyExponentExtended
  simp only [hb]
  have : satI32 (me + 350) < 0 := by unfold satI32; split_ifs <;> omega
  rw [if_pos this]

theorem mp_high (c : FC) (w : Nat) (me : Int) (t : Bool) (h : 310 ≤ me) :
    moderatePath c w me t = ({ mant := 1 <<< overflowMantShift, exp := overflowExp }, true) := by
  have hb : base10Bias = 350 := lengths.2.2.2.2.2.2.1
  have hs : base10Step = 10 := lengths.2.2.2.2.2.1
  have hl : base10LargeMantissa.length = 66 := lengths.2.2.2.1
  unfold moderatePath multiplyExponentExtended
  simp only [hb, hs, hl]
  have h660 : 660 ≤ satI32 (me + 350) := by unfold satI32; split_ifs <;> omega
  rw [if_neg (by omega), if_pos]
  have : 66 ≤ Int.tdiv (satI32 (me + 350)) 10 := by
    rw [Int.tdiv_eq_ediv_of_nonneg (by omega)]; omega
  omega

theorem intoFloat_zero (single : Bool) : intoFloat (fc single) { mant := 0, exp := 0 } = 0 := by
  cases single <;> decide +kernel

theorem intoFloat_inf (single : Bool) :
    intoFloat (fc single) { mant := 1 <<< overflowMantShift, exp := overflowExp } = (fmtOf single).infBits := by
  cases single <;> decide +kernel

/-- below `2^64 · 10^-351`: rounds to zero -/
theorem low_zero {c : FC} {F : Fmt} (h : FCok c F) (hx : FCx F) (w j r : Nat) (e0 : Int) (hw : w < 2 ^ 64)
    (hr : r < 10 ^ j) (he : e0 < -350) : roundDec F (w * 10 ^ j + r) (e0 - j) = 0 := by
  unfold roundDec
  have hz : roundMag F (dNum F (w * 10 ^ j + r) (e0 - j)) (dDen (e0 - j)) = 0 := by
    apply roundMag_small
    unfold dNum dDen
    have hEt : (e0 - (j : Int)).toNat = 0 := by omega
    obtain ⟨g, hg⟩ : ∃ g : Nat, (-(e0 - (j : Int))).toNat = 351 + j + g := ⟨(-(e0 - (j : Int))).toNat - 351 - j, by omega⟩
    rw [hEt, hg, Nat.pow_zero, Nat.mul_one]
    have hN : w * 10 ^ j + r < 2 ^ 64 * 10 ^ j := by
      have : (w + 1) * 10 ^ j ≤ 2 ^ 64 * 10 ^ j := Nat.mul_le_mul_right _ (by omega)
      rw [Nat.add_mul, Nat.one_mul] at this
      omega
    have hq := pow_pos' F.qexp
    calc 2 * ((w * 10 ^ j + r) * 2 ^ F.qexp) < 2 * (2 ^ 64 * 10 ^ j * 2 ^ F.qexp) := by
          have := Nat.mul_lt_mul_of_pos_right hN hq
          omega
      _ = 2 * (2 ^ 64 * 2 ^ F.qexp) * 10 ^ j := by ring
      _ ≤ 10 ^ 351 * 10 ^ j := Nat.mul_le_mul_right _ (le_of_lt hx.tiny351)
      _ ≤ 10 ^ 351 * 10 ^ j * 10 ^ g := Nat.le_mul_of_pos_right _ (Nat.pos_of_ne_zero (by simp))
      _ = 10 ^ (351 + j + g) := by rw [Nat.pow_add, Nat.pow_add]
  rw [hz]
  unfold clampInf
  rw [if_pos]
  unfold Fmt.infBits
  have : 4 ≤ 2 ^ F.ebits := by
    have : 2 ^ 2 ≤ 2 ^ F.ebits := Nat.pow_le_pow_right (by decide) h.eb
    omega
  exact Nat.mul_pos (by omega) (pow_pos' _)

/-- at least `10^310`: rounds to infinity -/
theorem high_inf {c : FC} {F : Fmt} (h : FCok c F) (hx : FCx F) (w j r : Nat) (e0 : Int) (hw0 : 0 < w)
    (he : 310 ≤ e0) : roundDec F (w * 10 ^ j + r) (e0 - j) = F.infBits := by
  unfold roundDec
  have hov : F.infBits ≤ roundMag F (dNum F (w * 10 ^ j + r) (e0 - j)) (dDen (e0 - j)) := by
    apply roundMag_overflow_of_ge h _ _ (dDen_pos _)
    unfold dNum dDen
    have hN : 10 ^ j ≤ w * 10 ^ j + r := by
      have : 1 * 10 ^ j ≤ w * 10 ^ j := Nat.mul_le_mul_right _ hw0
      omega
    by_cases hE : 0 ≤ e0 - (j : Int)
    · have h0 : (-(e0 - (j : Int))).toNat = 0 := by omega
      rw [h0, Nat.pow_zero, Nat.mul_one]
      obtain ⟨g, hg⟩ : ∃ g : Nat, j + (e0 - (j : Int)).toNat = 310 + g := ⟨j + (e0 - (j : Int)).toNat - 310, by omega⟩
      have h1 : 10 ^ 310 ≤ (w * 10 ^ j + r) * 10 ^ (e0 - (j : Int)).toNat := by
        calc 10 ^ 310 ≤ 10 ^ 310 * 10 ^ g := Nat.le_mul_of_pos_right _ (Nat.pos_of_ne_zero (by simp))
          _ = 10 ^ j * 10 ^ (e0 - (j : Int)).toNat := by rw [← Nat.pow_add, ← Nat.pow_add, hg]
          _ ≤ (w * 10 ^ j + r) * 10 ^ (e0 - (j : Int)).toNat := Nat.mul_le_mul_right _ hN
      calc 2 ^ (F.mbits + 1) * 2 ^ (2 ^ F.ebits - 3) ≤ 10 ^ 310 * 2 ^ F.qexp := hx.big310
        _ ≤ (w * 10 ^ j + r) * 10 ^ (e0 - (j : Int)).toNat * 2 ^ F.qexp := Nat.mul_le_mul_right _ h1
    · have h0 : (e0 - (j : Int)).toNat = 0 := by omega
      rw [h0, Nat.pow_zero, Nat.mul_one]
      obtain ⟨g, hg⟩ : ∃ g : Nat, j = 310 + (-(e0 - (j : Int))).toNat + g := ⟨j - 310 - (-(e0 - (j : Int))).toNat, by omega⟩
      have h1 : 10 ^ 310 * 10 ^ (-(e0 - (j : Int))).toNat ≤ w * 10 ^ j + r := by
        calc 10 ^ 310 * 10 ^ (-(e0 - (j : Int))).toNat
            ≤ 10 ^ 310 * 10 ^ (-(e0 - (j : Int))).toNat * 10 ^ g := Nat.le_mul_of_pos_right _ (Nat.pos_of_ne_zero (by simp))
          _ = 10 ^ j := by rw [← Nat.pow_add, ← Nat.pow_add, ← hg]
          _ ≤ w * 10 ^ j + r := hN
      calc 2 ^ (F.mbits + 1) * 2 ^ (2 ^ F.ebits - 3) * 10 ^ (-(e0 - (j : Int))).toNat
          ≤ 10 ^ 310 * 2 ^ F.qexp * 10 ^ (-(e0 - (j : Int))).toNat := Nat.mul_le_mul_right _ hx.big310
        _ = 10 ^ 310 * 10 ^ (-(e0 - (j : Int))).toNat * 2 ^ F.qexp := by ring
        _ ≤ (w * 10 ^ j + r) * 2 ^ F.qexp := Nat.mul_le_mul_right _ h1
  unfold clampInf
  rw [if_neg (by omega)]

/-! ## from the rational statement to the cleared form `LexModerateRound` wants -/

theorem bridge (F : Fmt) (N : Nat) (E : Int) (M : Nat) (X : Int) (err : Nat) (herrM : err ≤ M) (t3 : ℚ)
    (hV : (N : ℚ) * 10 ^ E = t3 * 2 ^ X) (h1 : (M : ℚ) - err < t3) (h2 : t3 < M + err) :
    (M - err) * 2 ^ kkOf F X * dDen E < dNum F N E * 2 ^ ebOf F X ∧
    dNum F N E * 2 ^ ebOf F X < (M + err) * 2 ^ kkOf F X * dDen E := by
  have key : ((dNum F N E * 2 ^ ebOf F X : Nat) : ℚ) = t3 * 2 ^ kkOf F X * (dDen E : Nat) := by
    unfold dNum dDen
    push_cast
    have hx := X_eq F X
    have h10 : (0 : ℚ) < 10 ^ (-E).toNat := by positivity
    have hN : (N : ℚ) * 10 ^ E.toNat = t3 * 2 ^ X * 10 ^ (-E).toNat := by
      rw [← hV, zpow_split 10 (by norm_num) E]
      field_simp
    have h2x : (2 : ℚ) ^ X * 2 ^ F.qexp * 2 ^ ebOf F X = 2 ^ kkOf F X := by
      have e1 : (2 : ℚ) ^ F.qexp = 2 ^ (F.qexp : Int) := (zpow_natCast _ _).symm
      have e2 : (2 : ℚ) ^ ebOf F X = 2 ^ (ebOf F X : Int) := (zpow_natCast _ _).symm
      have e3 : (2 : ℚ) ^ kkOf F X = 2 ^ (kkOf F X : Int) := (zpow_natCast _ _).symm
      rw [e1, e2, e3, ← zpow_add₀ (by norm_num : (2 : ℚ) ≠ 0), ← zpow_add₀ (by norm_num : (2 : ℚ) ≠ 0)]
      congr 1; omega
    calc (N : ℚ) * 10 ^ E.toNat * 2 ^ F.qexp * 2 ^ ebOf F X
        = t3 * 2 ^ X * 10 ^ (-E).toNat * 2 ^ F.qexp * 2 ^ ebOf F X := by rw [hN]
      _ = t3 * ((2 : ℚ) ^ X * 2 ^ F.qexp * 2 ^ ebOf F X) * 10 ^ (-E).toNat := by ring
      _ = t3 * 2 ^ kkOf F X * 10 ^ (-E).toNat := by rw [h2x]
  have hpos : (0 : ℚ) < 2 ^ kkOf F X * (dDen E : Nat) := by
    have := dDen_pos E
    have : (0 : ℚ) < (dDen E : Nat) := by exact_mod_cast this
    positivity
  constructor
  · have : (((M - err) * 2 ^ kkOf F X * dDen E : Nat) : ℚ) < ((dNum F N E * 2 ^ ebOf F X : Nat) : ℚ) := by
      rw [key]
      push_cast [Nat.cast_sub herrM]
      nlinarith
    exact_mod_cast this
  · have : ((dNum F N E * 2 ^ ebOf F X : Nat) : ℚ) < (((M + err) * 2 ^ kkOf F X * dDen E : Nat) : ℚ) := by
      rw [key]
      push_cast
      nlinarith
    exact_mod_cast this

/-! ## `into_float` / `into_downward_float` of a normalised extended float -/

theorem intoFloat_norm {c : FC} {F : Fmt} (h : FCok c F) (M : Nat) (X : Int) (hM1 : 2 ^ 63 ≤ M) (hM2 : M < 2 ^ 64) :
    intoFloat c { mant := M, exp := X } = clampInf F (roundMag F (M * 2 ^ kkOf F X) (2 ^ ebOf F X)) := by
  rw [intoFloat_eq_roundMag h _ (by show 0 < M; omega) hM2, roundMag_MX]

theorem intoDown_norm {c : FC} {F : Fmt} (h : FCok c F) (M : Nat) (X : Int) (hM1 : 2 ^ 63 ≤ M) (hM2 : M < 2 ^ 64) :
    intoDownwardFloat c { mant := M, exp := X } = clampInf F (kkOf F X * 2 ^ F.mbits + M / 2 ^ ebOf F X) := by
  unfold intoDownwardFloat roundToNative
  rw [normalize_normalized _ _ hM1 hM2, pack h roundDownward_algOk _ _ hM1 hM2, packSpec_down F M X hM2]

/-- on values `≤ infBits`, `is_special` holds for `infBits` only -/
theorem isSpecial_iff {c : FC} {F : Fmt} (h : FCok c F) (b : Nat) (hb : b ≤ F.infBits) :
    isSpecial c b = decide (b = F.infBits) := by
  have hP := pow_pos' F.mbits
  have hlt := infBits_lt F
  unfold isSpecial
  rw [h.emask]
  have hmask : b &&& F.infBits = b / 2 ^ F.mbits * 2 ^ F.mbits := and_expmask F b (by omega)
  rw [hmask]
  by_cases hbe : b = F.infBits
  · subst hbe
    have h1 : F.infBits / 2 ^ F.mbits * 2 ^ F.mbits = F.infBits := by
      unfold Fmt.infBits; rw [Nat.mul_div_cancel _ hP]
    simp [h1]
  · have hblt : b < F.infBits := by omega
    have hq : b / 2 ^ F.mbits < 2 ^ F.ebits - 1 := by
      rw [Nat.div_lt_iff_lt_mul hP]; exact hblt
    have : ¬ (b / 2 ^ F.mbits * 2 ^ F.mbits = F.infBits) := by
      unfold Fmt.infBits
      intro heq
      have := Nat.eq_of_mul_eq_mul_right hP heq
      omega
    simp [this, hbe]

/-! ## the layer -/

theorem moderate_ok_low (single : Bool) (w j r : Nat) (me e0 : Int) (t : Bool) (hw : w < 2 ^ 64) (hr : r < 10 ^ j)
    (h1 : me < -350) (h2 : e0 < -350) :
    ModerateOk (fc single) (fmtOf single) w me t (w * 10 ^ j + r) (e0 - j) := by
  have hmp := mp_low (fc single) w me t h1
  refine ⟨fun _ => ?_, fun hv => ?_, fun hv => ?_⟩
  · rw [hmp]
    simp only []
    rw [intoFloat_zero, low_zero (fcokOf single) (fcxOf single) w j r e0 hw hr h2]
  · rw [hmp] at hv; simp at hv
  · rw [hmp] at hv; simp at hv

theorem moderate_ok_high (single : Bool) (w j r : Nat) (me e0 : Int) (t : Bool) (hw0 : 0 < w)
    (h1 : 310 ≤ me) (h2 : 310 ≤ e0) :
    ModerateOk (fc single) (fmtOf single) w me t (w * 10 ^ j + r) (e0 - j) := by
  have hmp := mp_high (fc single) w me t h1
  refine ⟨fun _ => ?_, fun hv => ?_, fun hv => ?_⟩
  · rw [hmp]
    simp only []
    rw [intoFloat_inf, high_inf (fcokOf single) (fcxOf single) w j r e0 hw0 h2]
  · rw [hmp] at hv; simp at hv
  · rw [hmp] at hv; simp at hv

/-- **moderate_path_sound**, for one call (see the module doc) -/
theorem moderate_ok (single : Bool) (w j r : Nat) (me e0 : Int) (t : Bool) (hw0 : 0 < w) (hw : w < 2 ^ 64)
    (hr : r < 10 ^ j) (hbig : r ≠ 0 → 2 ^ 64 ≤ 11 * w) (hexact : t = false → r = 0)
    (hme : (me < -350 ∧ e0 < -350) ∨ (310 ≤ me ∧ 310 ≤ e0) ∨ me = e0) :
    ModerateOk (fc single) (fmtOf single) w me t (w * 10 ^ j + r) (e0 - j) := by
  have h := fcokOf single
  have hx := fcxOf single
  rcases hme with ⟨h1, h2⟩ | ⟨h1, h2⟩ | h1
  · exact moderate_ok_low single w j r me e0 t hw hr h1 h2
  · exact moderate_ok_high single w j r me e0 t hw0 h1 h2
  · subst h1
    by_cases hlo350 : me < -350
    · exact moderate_ok_low single w j r me me t hw hr hlo350 hlo350
    by_cases hhi310 : 310 ≤ me
    · exact moderate_ok_high single w j r me me t hw0 hhi310 hhi310
    obtain ⟨x, hxe⟩ : ∃ x : Nat, me + 350 = x := ⟨(me + 350).toNat, by omega⟩
    obtain ⟨M, X, err, hmp, hM1, hM2, herr4, herr68, t3, hV, ht1, ht2⟩ :=
      moderate_main (fc single) w j r x me t hw0 hw hr hbig hexact hxe (by omega)
    have herrM : err ≤ M := by omega
    obtain ⟨hlo, hhi⟩ := bridge (fmtOf single) (w * 10 ^ j + r) (me - j) M X err herrM t3 hV ht1 ht2
    have hmb62 : (fmtOf single).mbits ≤ 62 := by have := hx.mb52; omega
    obtain ⟨hq2, hq1⟩ := q_bounds (fmtOf single) hmb62 M X hM1 hM2
    have heb11 : 11 ≤ ebOf (fmtOf single) X := by
      have := ebOf_ge (fmtOf single) X
      have := hx.mb52
      omega
    have herr : 4 * err ≤ 2 ^ ebOf (fmtOf single) X := by
      have : 2 ^ 11 ≤ 2 ^ ebOf (fmtOf single) X := Nat.pow_le_pow_right (by decide) heb11
      omega
    have hnear := near_core (fmtOf single) (kkOf (fmtOf single) X) (ebOf (fmtOf single) X) M err _ _
      (dDen_pos (me - j)) herr herrM hq2 hq1 hlo hhi
    have hdown := intoDown_norm h M X hM1 hM2
    refine ⟨fun hv => ?_, fun hv hsp => ?_, fun hv hsp => ?_⟩
    · rw [hmp] at hv ⊢
      simp only [] at hv ⊢
      have hacc := accurate_spec h M X err hM2 herr (by omega) hv
      rw [intoFloat_norm h M X hM1 hM2]
      unfold roundDec
      rw [round_same (fmtOf single) h.mb1 _ _ M err _ _ (dDen_pos (me - j)) herr (by omega) herrM (by omega)
        hq2 hq1 hlo hhi hacc]
    · rw [hmp] at hsp ⊢
      simp only [] at hsp ⊢
      rw [hdown] at hsp ⊢
      rw [isSpecial_iff h _ (clampInf_le _ _)] at hsp
      have hne : clampInf (fmtOf single) (kkOf (fmtOf single) X * 2 ^ (fmtOf single).mbits + M / 2 ^ ebOf (fmtOf single) X)
          ≠ (fmtOf single).infBits := by simpa using hsp
      have hlt : kkOf (fmtOf single) X * 2 ^ (fmtOf single).mbits + M / 2 ^ ebOf (fmtOf single) X < (fmtOf single).infBits := by
        by_contra hc
        apply hne
        unfold clampInf; rw [if_neg hc]
      have hcl : clampInf (fmtOf single) (kkOf (fmtOf single) X * 2 ^ (fmtOf single).mbits + M / 2 ^ ebOf (fmtOf single) X) =
          kkOf (fmtOf single) X * 2 ^ (fmtOf single).mbits + M / 2 ^ ebOf (fmtOf single) X := by
        unfold clampInf; rw [if_pos hlt]
      rw [hcl]
      exact ⟨hlt, hnear⟩
    · rw [hmp] at hsp ⊢
      simp only [] at hsp ⊢
      rw [hdown] at hsp ⊢
      rw [isSpecial_iff h _ (clampInf_le _ _)] at hsp
      have heq : clampInf (fmtOf single) (kkOf (fmtOf single) X * 2 ^ (fmtOf single).mbits + M / 2 ^ ebOf (fmtOf single) X)
          = (fmtOf single).infBits := by simpa using hsp
      rw [heq]
      have hge := (clampInf_eq_inf_iff _ _).1 heq
      unfold roundDec
      symm
      rw [clampInf_eq_inf_iff]
      rw [roundMag_of_near (fmtOf single) h.mb1 _ _ _ (dDen_pos (me - j)) hnear.1 hnear.2]
      split
      · exact hge
      · split
        · omega
        · split <;> omega

end SJ.Proofs.LexModerateOk
