import SJ.Proofs.Ieee64
/-!
# Facts about the binary64 operations of `Spec.Ieee` (`roundOrInf`, `mul`, `div`, `ofU64`, `neg`, `toF32`)
-/
namespace SJ.Proofs.Ieee
open SJ.Spec.Ieee

/-- the unsigned pattern `roundNE64` computes -/
def rmag64 (num den : Nat) : Nat := roundMag b64 (num * 2 ^ 1074) den

theorem roundNE64_eq' (neg : Bool) (num den : Nat) :
    roundNE64 neg num den =
      if rmag64 num den < b64.infBits then some (bits64 neg (rmag64 num den)) else none :=
  roundNE64_eq neg num den

/-- `roundNE64` depends only on the rational `num/den` -/
theorem roundNE64_congr (neg : Bool) (num den num' den' : Nat) (hd : 0 < den) (hd' : 0 < den')
    (h : num * den' = num' * den) : roundNE64 neg num den = roundNE64 neg num' den' := by
  have : rmag64 num den = rmag64 num' den' := by
    unfold rmag64
    apply roundMag_congr b64 _ _ _ _ hd hd'
    calc num * 2 ^ 1074 * den' = num * den' * 2 ^ 1074 := by ring
      _ = num' * den * 2 ^ 1074 := by rw [h]
      _ = num' * 2 ^ 1074 * den := by ring
  rw [roundNE64_eq', roundNE64_eq', this]

theorem bits64_finite (neg : Bool) (u : Nat) (hu : u < b64.infBits) :
    F64.isFinite (bits64 neg u) = true := by
  rw [F64.isFinite_iff, bits64_absBits neg u hu]; exact hu

theorem bits64_mag (neg : Bool) (u : Nat) (hu : u < b64.infBits) :
    F64.mag (bits64 neg u) = magOfBits b64 u := by
  unfold F64.mag; rw [bits64_absBits neg u hu]

/-- the pieces of a successful rounding -/
theorem roundNE64_some (neg : Bool) (num den : Nat) (r : UInt64) (h : roundNE64 neg num den = some r) :
    rmag64 num den < b64.infBits ∧ r = bits64 neg (rmag64 num den) := by
  rw [roundNE64_eq'] at h
  by_cases hu : rmag64 num den < b64.infBits
  · rw [if_pos hu] at h; exact ⟨hu, (Option.some.inj h).symm⟩
  · rw [if_neg hu] at h; cases h

theorem roundNE64_none_iff (neg : Bool) (num den : Nat) (hden : 0 < den) :
    roundNE64 neg num den = none ↔ Overflows64 num den := by
  have := roundNE64_correct neg num den hden
  constructor
  · intro h
    by_contra hno
    obtain ⟨r, hr, _⟩ := this.1 hno
    rw [h] at hr; cases hr
  · exact this.2

/-! ## bit-pattern classification -/

theorem F64.finite_not_inf (b : UInt64) (h : F64.isFinite b = true) : F64.isInf b = false := by
  unfold F64.isFinite at h; unfold F64.isInf
  simp only [bne_iff_ne, ne_eq] at h
  simp [h]

theorem F64.finite_not_nan (b : UInt64) (h : F64.isFinite b = true) : F64.isNaN b = false := by
  unfold F64.isFinite at h; unfold F64.isNaN
  simp only [bne_iff_ne, ne_eq] at h
  simp [h]

theorem F64.inf_isInf (neg : Bool) : F64.isInf (F64.inf neg) = true := by
  cases neg <;> decide

theorem F64.inf_not_finite (neg : Bool) : F64.isFinite (F64.inf neg) = false := by
  cases neg <;> decide

theorem F64.zero_finite (neg : Bool) : F64.isFinite (F64.zero neg) = true := by cases neg <;> decide
theorem F64.zero_sign (neg : Bool) : F64.sign (F64.zero neg) = neg := by cases neg <;> decide
theorem F64.zero_mag (neg : Bool) : F64.mag (F64.zero neg) = 0 := by cases neg <;> decide

/-- `neg` flips the sign and keeps everything else -/
theorem F64.neg_toNat (b : UInt64) :
    (F64.neg b).toNat = if b.toNat < 2 ^ 63 then b.toNat + 2 ^ 63 else b.toNat - 2 ^ 63 := by
  unfold F64.neg
  have := b.toNat_lt
  rw [UInt64.toNat_add]
  have : (0x8000000000000000 : UInt64).toNat = 2 ^ 63 := by decide
  rw [this]
  split <;> omega

theorem F64.neg_absBits (b : UInt64) : F64.absBits (F64.neg b) = F64.absBits b := by
  unfold F64.absBits; rw [F64.neg_toNat]; have := b.toNat_lt; split <;> omega

theorem F64.neg_sign (b : UInt64) : F64.sign (F64.neg b) = !F64.sign b := by
  unfold F64.sign; rw [F64.neg_toNat]; have := b.toNat_lt
  split
  · have h1 : (b.toNat + 2 ^ 63) / 2 ^ 63 = 1 := by omega
    have h2 : b.toNat / 2 ^ 63 = 0 := by omega
    rw [h1, h2]; rfl
  · have h1 : (b.toNat - 2 ^ 63) / 2 ^ 63 = 0 := by omega
    have h2 : b.toNat / 2 ^ 63 = 1 := by omega
    rw [h1, h2]; rfl

theorem F64.neg_finite (b : UInt64) : F64.isFinite (F64.neg b) = F64.isFinite b := by
  unfold F64.isFinite; rw [F64.expField_eq, F64.expField_eq, F64.neg_absBits]

theorem F64.neg_mag (b : UInt64) : F64.mag (F64.neg b) = F64.mag b := by
  unfold F64.mag; rw [F64.neg_absBits]

theorem F64.neg_bits64 (neg : Bool) (u : Nat) (hu : u < b64.infBits) :
    F64.neg (bits64 neg u) = bits64 (!neg) u := by
  apply UInt64.toNat_inj.1
  rw [F64.neg_toNat, bits64_toNat neg u hu, bits64_toNat (!neg) u hu]
  rw [b64_infBits] at hu
  cases neg
  · simp only [Bool.false_eq_true, if_false, Bool.not_false, if_true]
    rw [if_pos (by omega)]; omega
  · simp only [if_true, Bool.not_true, Bool.false_eq_true, if_false]
    rw [if_neg (by omega)]; omega

theorem roundNE64_neg (neg : Bool) (num den : Nat) :
    (roundNE64 neg num den).map F64.neg = roundNE64 (!neg) num den := by
  rw [roundNE64_eq', roundNE64_eq']
  by_cases hu : rmag64 num den < b64.infBits
  · rw [if_pos hu, if_pos hu]; simp [F64.neg_bits64 neg _ hu]
  · rw [if_neg hu, if_neg hu]; rfl

/-- every finite magnitude is at most that of `f64::MAX` -/
theorem magOfBits_le_max (u : Nat) (hu : u < b64.infBits) :
    magOfBits b64 u ≤ (2 ^ 53 - 1) * 2 ^ 2045 := by
  rw [b64_infBits] at hu
  unfold magOfBits
  rw [b64_mbits]
  have hM : u % 2 ^ 52 < 2 ^ 52 := Nat.mod_lt _ (by decide)
  have hE : u / 2 ^ 52 < 2047 := by omega
  simp only
  split
  · have : 1 ≤ 2 ^ 2045 := two_pow_pos' _
    calc u % 2 ^ 52 ≤ (2 ^ 53 - 1) * 1 := by omega
      _ ≤ (2 ^ 53 - 1) * 2 ^ 2045 := Nat.mul_le_mul_left _ this
  · have h1 : 2 ^ (u / 2 ^ 52 - 1) ≤ 2 ^ 2045 := Nat.pow_le_pow_right (by decide) (by omega)
    have h2 : 2 ^ 52 + u % 2 ^ 52 ≤ 2 ^ 53 - 1 := by omega
    exact Nat.mul_le_mul h2 h1

theorem F64.mag_le_max (b : UInt64) (h : F64.isFinite b = true) :
    F64.mag b ≤ (2 ^ 53 - 1) * 2 ^ 2045 :=
  magOfBits_le_max _ ((F64.isFinite_iff b).1 h)

/-! ## `roundOrInf` -/

/-- either the rounding is finite with the given sign, or it is the signed infinity -/
theorem roundOrInf_cases (neg : Bool) (num den : Nat) (hden : 0 < den) :
    (¬ Overflows64 num den ∧ roundNE64 neg num den = some (F64.roundOrInf neg num den) ∧
      F64.isFinite (F64.roundOrInf neg num den) = true ∧ F64.sign (F64.roundOrInf neg num den) = neg) ∨
    (Overflows64 num den ∧ F64.roundOrInf neg num den = F64.inf neg) := by
  by_cases hov : Overflows64 num den
  · right
    refine ⟨hov, ?_⟩
    unfold F64.roundOrInf
    rw [(roundNE64_none_iff neg num den hden).2 hov]; rfl
  · left
    obtain ⟨r, hr, hfin, hsign, _⟩ := (roundNE64_correct neg num den hden).1 hov
    have : F64.roundOrInf neg num den = r := by unfold F64.roundOrInf; rw [hr]; rfl
    rw [this]
    exact ⟨hov, hr, hfin, hsign⟩


/-! ## `mul`, `div`, `ofU64` on finite operands -/

theorem magOfBits_pos (F : Fmt) (u : Nat) (hu : u ≠ 0) : 0 < magOfBits F u := by
  unfold magOfBits
  simp only
  have hP := two_pow_pos' F.mbits
  split
  · rename_i hE
    have : u < 2 ^ F.mbits := by
      rcases Nat.lt_or_ge u (2 ^ F.mbits) with h | h
      · exact h
      · have := (Nat.le_div_iff_mul_le hP).2 (by simpa using h : 1 * 2 ^ F.mbits ≤ u)
        omega
    rw [Nat.mod_eq_of_lt this]; omega
  · exact Nat.mul_pos (by omega) (two_pow_pos' _)

theorem F64.isZero_iff (b : UInt64) : F64.isZero b = true ↔ F64.absBits b = 0 := by
  unfold F64.isZero; simp

theorem F64.mag_pos (b : UInt64) (h : F64.isZero b = false) : 0 < F64.mag b := by
  unfold F64.mag
  apply magOfBits_pos
  intro h0
  have := (F64.isZero_iff b).2 h0
  rw [h] at this; cases this

theorem F64.mul_finite (a b : UInt64) (ha : F64.isFinite a = true) (hb : F64.isFinite b = true) :
    F64.mul a b =
      F64.roundOrInf (F64.sign a != F64.sign b) (F64.mag a * F64.mag b) (2 ^ 1074 * 2 ^ 1074) := by
  unfold F64.mul
  simp only [F64.finite_not_nan a ha, F64.finite_not_nan b hb, F64.finite_not_inf a ha,
    F64.finite_not_inf b hb, Bool.or_self, Bool.false_eq_true, if_false]

theorem F64.div_finite (a b : UInt64) (ha : F64.isFinite a = true) (hb : F64.isFinite b = true)
    (hz : F64.isZero b = false) :
    F64.div a b = F64.roundOrInf (F64.sign a != F64.sign b) (F64.mag a) (F64.mag b) := by
  unfold F64.div
  simp only [F64.finite_not_nan a ha, F64.finite_not_nan b hb, F64.finite_not_inf a ha,
    F64.finite_not_inf b hb, hz, Bool.or_self, Bool.false_eq_true, if_false]

theorem not_overflows64_of_lt (num den : Nat) (h : num < 2 ^ 1023 * den) : ¬ Overflows64 num den := by
  unfold Overflows64
  have : 2 ^ 1023 ≤ 2 ^ 1024 - 2 ^ 970 := by decide +kernel
  have := Nat.mul_le_mul_right den this
  omega

/-- `n as f64` for `n < 2^64`: finite, non-negative -/
theorem F64.ofU64_finite (n : Nat) (hn : n < 2 ^ 64) :
    roundNE64 false n 1 = some (F64.ofU64 n) ∧ F64.isFinite (F64.ofU64 n) = true ∧
    F64.sign (F64.ofU64 n) = false := by
  have hno : ¬ Overflows64 n 1 := by
    apply not_overflows64_of_lt
    have : 2 ^ 64 ≤ 2 ^ 1023 * 1 := by decide +kernel
    omega
  rcases roundOrInf_cases false n 1 (by decide) with ⟨_, h1, h2, h3⟩ | ⟨h, _⟩
  · exact ⟨h1, h2, h3⟩
  · exact absurd h hno

/-- a successful rounding of a rational that lies on the grid is exact -/
theorem roundNE64_exact (neg : Bool) (num den : Nat) (r : UInt64) (j : Nat) (hden : 0 < den)
    (h : roundNE64 neg num den = some r)
    (hj : num * 2 ^ 1074 = j * (den * 2 ^ kOf b64 (num * 2 ^ 1074) den)) :
    F64.mag r * den = num * 2 ^ 1074 := by
  obtain ⟨hu, hr⟩ := roundNE64_some neg num den r h
  rw [hr, bits64_mag neg _ hu]
  exact roundMag_exact b64 _ _ j hden hj

/-- integers below `2^53` convert exactly -/
theorem F64.ofU64_exact (n : Nat) (hn : n < 2 ^ 53) : F64.mag (F64.ofU64 n) = n * 2 ^ 1074 := by
  obtain ⟨h1, _, _⟩ := F64.ofU64_finite n (by omega)
  have hk : kOf b64 (n * 2 ^ 1074) 1 ≤ 1074 := by
    unfold kOf
    rw [Nat.div_one, b64_mbits]
    rcases Nat.eq_zero_or_pos n with h0 | hpos
    · subst h0; simp
    · have hne : n * 2 ^ 1074 ≠ 0 := Nat.mul_ne_zero (by omega) (by simp)
      have : (n * 2 ^ 1074).log2 < 1127 := by
        rw [Nat.log2_lt hne]
        calc n * 2 ^ 1074 < 2 ^ 53 * 2 ^ 1074 := Nat.mul_lt_mul_of_pos_right hn (two_pow_pos' _)
          _ = 2 ^ 1127 := by rw [← Nat.pow_add]
      omega
  have := roundNE64_exact false n 1 (F64.ofU64 n) (n * 2 ^ (1074 - kOf b64 (n * 2 ^ 1074) 1)) (by decide) h1
    (by
      generalize kOf b64 (n * 2 ^ 1074) 1 = k at hk ⊢
      have : 2 ^ 1074 = 2 ^ (1074 - k) * 2 ^ k := by rw [← Nat.pow_add]; congr 1; omega
      rw [Nat.one_mul, Nat.mul_assoc, ← this])
  simpa using this


/-! ## binary32 counterparts and `toF32` -/

/-- the unsigned pattern `roundNE32` computes -/
def rmag32 (num den : Nat) : Nat := roundMag b32 (num * 2 ^ 149) den

theorem roundNE32_eq' (neg : Bool) (num den : Nat) :
    roundNE32 neg num den =
      if rmag32 num den < b32.infBits then some (bits32 neg (rmag32 num den)) else none :=
  roundNE32_eq neg num den

/-- `roundNE32` depends only on the rational `num/den` -/
theorem roundNE32_congr (neg : Bool) (num den num' den' : Nat) (hd : 0 < den) (hd' : 0 < den')
    (h : num * den' = num' * den) : roundNE32 neg num den = roundNE32 neg num' den' := by
  have : rmag32 num den = rmag32 num' den' := by
    unfold rmag32
    apply roundMag_congr b32 _ _ _ _ hd hd'
    calc num * 2 ^ 149 * den' = num * den' * 2 ^ 149 := by ring
      _ = num' * den * 2 ^ 149 := by rw [h]
      _ = num' * 2 ^ 149 * den := by ring
  rw [roundNE32_eq', roundNE32_eq', this]

theorem bits32_finite (neg : Bool) (u : Nat) (hu : u < b32.infBits) :
    F32.isFinite (bits32 neg u) = true := by
  rw [F32.isFinite_iff, bits32_absBits neg u hu]; exact hu

theorem bits32_mag (neg : Bool) (u : Nat) (hu : u < b32.infBits) :
    F32.mag (bits32 neg u) = magOfBits b32 u := by
  unfold F32.mag; rw [bits32_absBits neg u hu]

/-- the pieces of a successful rounding -/
theorem roundNE32_some (neg : Bool) (num den : Nat) (r : UInt32) (h : roundNE32 neg num den = some r) :
    rmag32 num den < b32.infBits ∧ r = bits32 neg (rmag32 num den) := by
  rw [roundNE32_eq'] at h
  by_cases hu : rmag32 num den < b32.infBits
  · rw [if_pos hu] at h; exact ⟨hu, (Option.some.inj h).symm⟩
  · rw [if_neg hu] at h; cases h

theorem roundNE32_none_iff (neg : Bool) (num den : Nat) (hden : 0 < den) :
    roundNE32 neg num den = none ↔ Overflows32 num den := by
  have := roundNE32_correct neg num den hden
  constructor
  · intro h
    by_contra hno
    obtain ⟨r, hr, _⟩ := this.1 hno
    rw [h] at hr; cases hr
  · exact this.2

/-- `neg` flips the sign and keeps everything else -/
theorem F32.neg_toNat (b : UInt32) :
    (F32.neg b).toNat = if b.toNat < 2 ^ 31 then b.toNat + 2 ^ 31 else b.toNat - 2 ^ 31 := by
  unfold F32.neg
  have := b.toNat_lt
  rw [UInt32.toNat_add]
  have : (0x80000000 : UInt32).toNat = 2 ^ 31 := by decide
  rw [this]
  split <;> omega

theorem F32.neg_absBits (b : UInt32) : F32.absBits (F32.neg b) = F32.absBits b := by
  unfold F32.absBits; rw [F32.neg_toNat]; have := b.toNat_lt; split <;> omega

theorem F32.neg_sign (b : UInt32) : F32.sign (F32.neg b) = !F32.sign b := by
  unfold F32.sign; rw [F32.neg_toNat]; have := b.toNat_lt
  split
  · have h1 : (b.toNat + 2 ^ 31) / 2 ^ 31 = 1 := by omega
    have h2 : b.toNat / 2 ^ 31 = 0 := by omega
    rw [h1, h2]; rfl
  · have h1 : (b.toNat - 2 ^ 31) / 2 ^ 31 = 0 := by omega
    have h2 : b.toNat / 2 ^ 31 = 1 := by omega
    rw [h1, h2]; rfl

theorem F32.neg_finite (b : UInt32) : F32.isFinite (F32.neg b) = F32.isFinite b := by
  unfold F32.isFinite; rw [F32.expField_eq, F32.expField_eq, F32.neg_absBits]

theorem F32.neg_mag (b : UInt32) : F32.mag (F32.neg b) = F32.mag b := by
  unfold F32.mag; rw [F32.neg_absBits]

theorem F32.neg_bits32 (neg : Bool) (u : Nat) (hu : u < b32.infBits) :
    F32.neg (bits32 neg u) = bits32 (!neg) u := by
  apply UInt32.toNat_inj.1
  rw [F32.neg_toNat, bits32_toNat neg u hu, bits32_toNat (!neg) u hu]
  rw [b32_infBits] at hu
  cases neg
  · simp only [Bool.false_eq_true, if_false, Bool.not_false, if_true]
    rw [if_pos (by omega)]; omega
  · simp only [if_true, Bool.not_true, Bool.false_eq_true, if_false]
    rw [if_neg (by omega)]; omega

theorem roundNE32_neg (neg : Bool) (num den : Nat) :
    (roundNE32 neg num den).map F32.neg = roundNE32 (!neg) num den := by
  rw [roundNE32_eq', roundNE32_eq']
  by_cases hu : rmag32 num den < b32.infBits
  · rw [if_pos hu, if_pos hu]; simp [F32.neg_bits32 neg _ hu]
  · rw [if_neg hu, if_neg hu]; rfl


/-- an integer below `2^53` reaches f32 the same way through f64 as directly -/
theorem toF32_ofU64 (n : Nat) (hn : n < 2 ^ 53) : F64.toF32 (F64.ofU64 n) = F32.ofU64 n := by
  obtain ⟨_, hfin, hsign⟩ := F64.ofU64_finite n (by omega)
  have hmag := F64.ofU64_exact n hn
  unfold F64.toF32
  rw [F64.finite_not_nan _ hfin, F64.finite_not_inf _ hfin, hsign, hmag]
  simp only [Bool.false_eq_true, if_false]
  unfold F32.ofU64 F32.roundOrInf
  rw [roundNE32_congr false (n * 2 ^ 1074) (2 ^ 1074) n 1 (two_pow_pos' _) (by decide) (by ring)]

theorem toF32_neg_ofU64 (n : Nat) (hn : n < 2 ^ 53) :
    F64.toF32 (F64.neg (F64.ofU64 n)) = F32.neg (F32.ofU64 n) := by
  obtain ⟨_, hfin, hsign⟩ := F64.ofU64_finite n (by omega)
  have hmag := F64.ofU64_exact n hn
  have hfin' : F64.isFinite (F64.neg (F64.ofU64 n)) = true := by rw [F64.neg_finite]; exact hfin
  unfold F64.toF32
  rw [F64.finite_not_nan _ hfin', F64.finite_not_inf _ hfin', F64.neg_sign, hsign, F64.neg_mag, hmag]
  simp only [Bool.false_eq_true, if_false, Bool.not_false]
  unfold F32.ofU64 F32.roundOrInf
  rw [roundNE32_congr true (n * 2 ^ 1074) (2 ^ 1074) n 1 (two_pow_pos' _) (by decide) (by ring)]
  have hneg := roundNE32_neg false n 1
  rw [show (!false) = true from rfl] at hneg
  rw [← hneg]
  cases h : roundNE32 false n 1 with
  | some r => rfl
  | none => decide

end SJ.Proofs.Ieee
