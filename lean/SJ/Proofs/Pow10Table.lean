import SJ.Proofs.IeeeOps
import SJ.Model.FloatDefault
/-!
# Facts about the regenerated constants of the default float path (`SJ/Gen/Pow10.lean`)

The `overflow!` macro body, the 309-entry `POW10` table and the `1e308`/`308` constants are
re-extracted from `src/de.rs` on every run; the facts below are re-proved against them (whole-table
facts by kernel evaluation of the exact-integer rounding).
-/
namespace SJ.Proofs.FloatDefault
open SJ SJ.Spec.Ieee SJ.Spec.Decimal SJ.Model.FloatDefault SJ.Proofs.Ieee

/-! ## The `overflow!` macro and the `POW10` table (both regenerated from the source) -/

/-- the macro body, as written in the source, is `a * 10 + b > c` for a digit `b` -/
theorem overflow_eq (a b c : Nat) (hb : b ≤ 9) : overflow a b c = decide (a * 10 + b > c) := by
  unfold overflow Gen.overflowMacro
  rw [Bool.eq_iff_iff]
  simp only [Bool.and_eq_true, Bool.or_eq_true, decide_eq_true_eq]
  omega

/-- entry `i` of `POW10` is the literal `1e<i>`, for all 309 entries -/
theorem pow10Exps_eq : Gen.pow10Exps = List.range 309 := by decide +kernel

theorem pow10_table_length : Gen.pow10Exps.length = 309 ∧ Gen.pow10Declared = 309 := by
  constructor <;> decide +kernel

theorem pow10_table_correct : ∀ i, i < 309 → Gen.pow10Exps[i]? = some i := by
  intro i hi
  rw [pow10Exps_eq]
  simp [hi]

theorem pow10_eq (i : Nat) : pow10 i = if i < 309 then some (litPow10 i) else none := by
  unfold pow10
  rw [pow10Exps_eq]
  by_cases h : i < 309 <;> simp [h]

theorem fromParts_consts : Gen.fromPartsBigExp = 308 ∧ Gen.fromPartsStep = 308 := ⟨rfl, rfl⟩

/-! ## Table facts about the powers of ten (kernel evaluation of the exact-integer rounding) -/

/-- every table entry (and `1e308`) is a finite positive double of value at least 1 -/
theorem litPow10_tbl : (List.range 309).all (fun k =>
    F64.isFinite (litPow10 k) && !F64.sign (litPow10 k) && !F64.isZero (litPow10 k) &&
    decide (2 ^ 1074 ≤ F64.mag (litPow10 k))) = true := by decide +kernel

/-- `10^k` is exactly representable for `k ≤ 22` -/
theorem litPow10_small_tbl : (List.range 23).all (fun k =>
    F64.mag (litPow10 k) == 10 ^ k * 2 ^ 1074) = true := by decide +kernel

theorem litPow10_facts (k : Nat) (hk : k < 309) :
    F64.isFinite (litPow10 k) = true ∧ F64.sign (litPow10 k) = false ∧
    F64.isZero (litPow10 k) = false ∧ 2 ^ 1074 ≤ F64.mag (litPow10 k) := by
  have := List.all_eq_true.1 litPow10_tbl k (List.mem_range.2 hk)
  simp only [Bool.and_eq_true, Bool.not_eq_true', decide_eq_true_eq] at this
  obtain ⟨⟨⟨h1, h2⟩, h3⟩, h4⟩ := this
  exact ⟨h1, h2, h3, h4⟩

theorem litPow10_exact (k : Nat) (hk : k ≤ 22) : F64.mag (litPow10 k) = 10 ^ k * 2 ^ 1074 := by
  have := List.all_eq_true.1 litPow10_small_tbl k (List.mem_range.2 (by omega))
  simpa using this

/-- every `POW10` entry is `10^k·(1 ± ε)` -/
theorem litPow10_rel_tbl : (List.range 309).all (fun k =>
    decide (2 ^ 53 * F64.mag (litPow10 k) ≤ (2 ^ 53 + 1) * (10 ^ k * 2 ^ 1074)) &&
    decide ((2 ^ 53 - 1) * (10 ^ k * 2 ^ 1074) ≤ 2 ^ 53 * F64.mag (litPow10 k))) = true := by
  decide +kernel

theorem litPow10_rel (k : Nat) (hk : k < 309) :
    2 ^ 53 * F64.mag (litPow10 k) ≤ (2 ^ 53 + 1) * (10 ^ k * 2 ^ 1074) ∧
    (2 ^ 53 - 1) * (10 ^ k * 2 ^ 1074) ≤ 2 ^ 53 * F64.mag (litPow10 k) := by
  have := List.all_eq_true.1 litPow10_rel_tbl k (List.mem_range.2 hk)
  simpa using this

end SJ.Proofs.FloatDefault
