import SJ.Model.Lexical
/-!
# Facts about the extracted lexical tables (`SJ.Gen.Lexical`), by kernel evaluation on exact naturals

Every statement quantifies over a whole table; `decide +kernel` evaluates it. A changed entry in
`/repo/src/lexical/*.rs` is re-extracted on the next check and makes exactly these theorems fail.
-/
namespace SJ.Proofs.LexTables
open SJ.Gen

/-- `mant · 2^e ≤ 10^k < (mant + 1) · 2^e` on naturals (denominators cleared) -/
def Brackets (mant : Nat) (e k : Int) : Prop :=
  mant * 2 ^ e.toNat * 10 ^ (-k).toNat ≤ 10 ^ k.toNat * 2 ^ (-e).toNat ∧
  10 ^ k.toNat * 2 ^ (-e).toNat < (mant + 1) * 2 ^ e.toNat * 10 ^ (-k).toNat

instance (m : Nat) (e k : Int) : Decidable (Brackets m e k) := by unfold Brackets; infer_instance

/-- `mant · 2^e = 10^k` exactly -/
def Exactly (mant : Nat) (e k : Int) : Prop :=
  mant * 2 ^ e.toNat * 10 ^ (-k).toNat = 10 ^ k.toNat * 2 ^ (-e).toNat

instance (m : Nat) (e k : Int) : Decidable (Exactly m e k) := by unfold Exactly; infer_instance

theorem lengths :
    base10SmallMantissa.length = 10 ∧ base10SmallExponent.length = 10 ∧ base10SmallIntPowers.length = 10 ∧
    base10LargeMantissa.length = 66 ∧ base10LargeExponent.length = 66 ∧ base10Step = 10 ∧ base10Bias = 350 ∧
    pow10_64.length = 20 ∧ pow5_64.length = 28 ∧ largePow5.length = 14 ∧ f64Pow10.length = 23 ∧ f32Pow10.length = 11 := by
  decide +kernel

/-- the ten small cached powers are exact and normalised: `mant · 2^exp = 10^i`, `2^63 ≤ mant < 2^64` -/
theorem small_powers_exact :
    ∀ i ∈ List.range 10,
      Exactly (base10SmallMantissa.getD i 0) (base10SmallExponent.getD i 0) i ∧
      2 ^ 63 ≤ base10SmallMantissa.getD i 0 ∧ base10SmallMantissa.getD i 0 < 2 ^ 64 ∧
      base10SmallIntPowers.getD i 0 = 10 ^ i := by
  decide +kernel

/-- the 66 large cached powers are the *truncated* (rounded toward zero) normalised 64-bit images of
    `10^(-350 + 10·i)`: `mant · 2^exp ≤ 10^k < (mant + 1) · 2^exp`, `2^63 ≤ mant < 2^64` -/
theorem large_powers_truncated :
    ∀ i ∈ List.range 66,
      Brackets (base10LargeMantissa.getD i 0) (base10LargeExponent.getD i 0) (-350 + 10 * (i : Int)) ∧
      2 ^ 63 ≤ base10LargeMantissa.getD i 0 ∧ base10LargeMantissa.getD i 0 < 2 ^ 64 := by
  decide +kernel

theorem pow10_64_correct : ∀ i ∈ List.range 20, pow10_64.getD i 0 = 10 ^ i := by decide +kernel
theorem pow5_64_correct : ∀ i ∈ List.range 28, pow5_64.getD i 0 = 5 ^ i := by decide +kernel
/-- `large_powers64.rs`: `POW5[i] = 5^(2^i)` (limbs assembled little-endian) -/
theorem large_pow5_correct : ∀ i ∈ List.range 14, largePow5.getD i 0 = 5 ^ (2 ^ i) := by decide +kernel
theorem f64_pow10_correct : ∀ i ∈ List.range 23, f64Pow10.getD i 0 = 10 ^ i := by decide +kernel
theorem f32_pow10_correct : ∀ i ∈ List.range 11, f32Pow10.getD i 0 = 10 ^ i := by decide +kernel

/-- the per-type constants of `num.rs` are those of binary64 / binary32 -/
theorem f64_consts : f64Consts =
    { maxDigits := 769, exponentMask := 0x7FF0000000000000, hiddenBitMask := 0x0010000000000000,
      mantissaMask := 0x000FFFFFFFFFFFFF, infinityBits := 0x7FF0000000000000, mantissaSize := 52,
      exponentBias := 1075, denormalExponent := -1074, maxExponent := 972, defaultShift := 11,
      carryMask := 0x20000000000000, minExp := -22, maxExp := 22, mantissaLimit := 15, bits := 64,
      pow10 := f64Pow10 } := by rfl

theorem f32_consts : f32Consts =
    { maxDigits := 114, exponentMask := 0x7F800000, hiddenBitMask := 0x00800000,
      mantissaMask := 0x007FFFFF, infinityBits := 0x7F800000, mantissaSize := 23,
      exponentBias := 150, denormalExponent := -149, maxExponent := 105, defaultShift := 40,
      carryMask := 0x1000000, minExp := -10, maxExp := 10, mantissaLimit := 7, bits := 32,
      pow10 := f32Pow10 } := by rfl

theorem misc_consts : u64Himask = 0xFFFFFFFF00000000 ∧ u64Lomask = 0xFFFFFFFF ∧ u64Full = 64 ∧ u64Half = 32 ∧
    errorScale = 8 ∧ errorHalfscale = 4 ∧ overflowMantShift = 63 ∧ overflowExp = 0x7FF ∧ errorsShapeAsTranscribed = true := by
  decide

end SJ.Proofs.LexTables
