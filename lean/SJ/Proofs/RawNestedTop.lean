import SJ.Proofs.RawNested
import SJ.Props.C01
/-!
# C19 helper lemmas: `from_*::<Vec<Box<RawValue>>>` as a whole, and its relation to the grammar and to `Value`

* `rawSeqTop_sound`, `rawSeqTop_complete`: the captures are exactly the element texts of an array text
  decomposed as `w₀ "[" inner "]" w₃` with `Inner inner cs`.
* `derives_of_inner`, `inner_of_derives`: those decompositions are the array derivations of the grammar.
* `rawSeq_canon`: when the same bytes also parse into a `Value` array, the `i`-th capture parses, on its own,
  to the `i`-th element of that array.
-/
namespace SJ.Proofs.RawNested
open SJ SJ.Gen SJ.Model.Machine SJ.Model.Stream SJ.Proofs.Machine SJ.Proofs.Complete SJ.Proofs.StreamValues
open SJ.Spec.Grammar (CST Ws Derives Elems JsonText)
open SJ.Model.Typed
open SJ.Model.RawNested SJ.Proofs.RawSpan

/-! ## the whole document -/

theorem skipWs_nil_ws (rest : Bytes) (pos p : Nat) (h : skipWs rest pos = ([], p)) : Ws rest := by
  obtain ⟨w, h1, h2, _⟩ := SJ.Props.C19.skipWs_prefix rest pos
  rw [h] at h1
  simp only [List.append_nil] at h1
  rw [h1]; exact ws_of_all h2

theorem skipWs_all_ws (w : Bytes) (pos : Nat) (hw : Ws w) : skipWs w pos = ([], pos + w.length) := by
  have := skipWs_ws w [] pos hw (fun _ _ h => by cases h)
  simpa using this

theorem tooDeep_zero (env : SJ.Model.Typed.Env) : tooDeep env 0 = false := by
  have : Gen.remainingDepthInit = 128 := rfl
  simp [tooDeep, this]

theorem skipWs_close (r : Bytes) (pos : Nat) : skipWs (0x5d :: r) pos = (0x5d :: r, pos) := by
  have : isWs 0x5d = false := by decide
  simp [skipWs, this]

theorem endSeq_close (env : SJ.Model.Typed.Env) (r : Bytes) (pos : Nat) :
    (endSeq env (0x5d :: r) pos).res = .ok () r (pos + 1) := by
  unfold endSeq
  rw [skipWs_close]
  simp

/-- **`Vec<Box<RawValue>>` (soundness)** -/
theorem rawSeqTop_sound (env : SJ.Model.Typed.Env) (bs : Bytes) (v : TVal) (h : rawSeqTop env bs = .ok v) :
    ∃ cs w₀ inner w₃, v = .seq (cs.map TVal.str) ∧ bs = w₀ ++ [0x5b] ++ inner ++ [0x5d] ++ w₃ ∧ Ws w₀ ∧ Ws w₃ ∧
      Inner inner cs ∧ ∀ c ∈ cs, Captured env c := by
  unfold rawSeqTop finishTop at h
  cases hr : rawSeq env bs 0 with
  | err c i => rw [hr] at h; simp at h
  | data i => rw [hr] at h; simp at h
  | raw r p => rw [hr] at h; simp at h
  | io => rw [hr] at h; simp at h
  | fuel => rw [hr] at h; simp at h
  | ok v' rest pos =>
    rw [hr] at h
    simp only at h
    generalize hsk3 : skipWs rest pos = sk3 at h
    obtain ⟨r3, p3⟩ := sk3
    cases r3 with
    | cons _ _ => simp at h
    | nil =>
      have hw3 := skipWs_nil_ws rest pos p3 hsk3
      simp only at h
      split at h
      · cases h
      · simp only [Top.ok.injEq] at h; subst h
        unfold rawSeq deSeq withPeek at hr
        obtain ⟨w₀, hw1, hw2, hw0p⟩ := SJ.Props.C19.skipWs_prefix bs 0
        generalize hsk : skipWs bs 0 = sk at hr hw1 hw0p
        obtain ⟨r0, p0⟩ := sk
        simp only at hr hw1 hw0p
        cases r0 with
        | nil => simp only [atEof] at hr; split at hr <;> simp at hr
        | cons b r1 =>
          simp only at hr
          split at hr
          · rename_i hb
            simp only [beq_iff_eq] at hb; subst hb
            rw [tooDeep_zero] at hr
            simp only [Bool.false_eq_true, if_false] at hr
            unfold closeWith at hr
            cases hv : (seqLoop env (deRaw env) (r1.length + 1) true [] r1 (p0 + 1)) with
            | err c i => rw [hv] at hr; simp [Res.map, Res.bind] at hr
            | data i => rw [hv] at hr; simp [Res.map, Res.bind] at hr
            | raw r p => rw [hv] at hr; simp [Res.map, Res.bind] at hr
            | io => rw [hv] at hr; simp [Res.map, Res.bind] at hr
            | fuel => rw [hv] at hr; simp [Res.map, Res.bind] at hr
            | ok xs r2 p2 =>
              rw [hv] at hr
              simp only [Res.map, Res.bind] at hr
              obtain ⟨cs, r2', hxs, hcs, hr2, used, hused, _, hinner, _⟩ :=
                seqLoop_sound env _ true [] r1 (p0 + 1) xs r2 p2 hv
              subst hr2
              rw [endSeq_close] at hr
              simp only [Res.ok.injEq] at hr
              obtain ⟨rfl, rfl, rfl⟩ := hr
              refine ⟨cs, w₀, used, r2', by simpa using congrArg TVal.seq hxs, ?_, ws_of_all hw2, hw3, hinner rfl, hcs⟩
              rw [hw1, hused]; simp
          · exact absurd hr (SJ.Proofs.Typed.peekInvalidType_not_ok _ _ _ _ _ _)

theorem tail_length {tail : Bytes} {cs : List Bytes} (h : Tail tail cs) : cs.length ≤ tail.length := by
  induction h with
  | nil w _ => simp
  | cons w₁ w₂ c rest cs _ _ _ ih => simp only [List.length_cons, List.length_append, List.length_nil]; omega

theorem inner_length {inner : Bytes} {cs : List Bytes} (h : Inner inner cs) : cs.length ≤ inner.length + 1 := by
  cases cs with
  | nil => simp
  | cons c cs =>
    obtain ⟨w, tail, _, rfl, ht⟩ := h
    have := tail_length ht
    simp only [List.length_cons, List.length_append]; omega

/-- **`Vec<Box<RawValue>>` (completeness)** -/
theorem rawSeqTop_complete (env : SJ.Model.Typed.Env) (hflt : env.flt = false) (cs : List Bytes)
    (w₀ inner w₃ : Bytes) (h₀ : Ws w₀) (h₃ : Ws w₃) (hin : Inner inner cs) (hcap : ∀ c ∈ cs, Captured env c) :
    rawSeqTop env (w₀ ++ [0x5b] ++ inner ++ [0x5d] ++ w₃) = .ok (.seq (cs.map TVal.str)) := by
  have hbs : w₀ ++ [0x5b] ++ inner ++ [0x5d] ++ w₃ = w₀ ++ 0x5b :: (inner ++ 0x5d :: w₃) := by simp
  unfold rawSeqTop rawSeq deSeq
  rw [hbs, withPeek_ws env _ w₀ 0x5b _ 0 _ h₀ (by decide)]
  simp only [beq_self_eq_true, if_true, tooDeep_zero, Bool.false_eq_true, if_false]
  have hn : cs.length < (inner ++ 0x5d :: w₃).length + 1 := by
    have := inner_length hin
    simp only [List.length_append, List.length_cons]; omega
  rw [seqLoop_inner env hflt inner cs hin hcap _ w₃ _ hn]
  simp only [Res.map, Res.bind, closeWith, endSeq_close]
  simp only [finishTop, skipWs_all_ws w₃ _ h₃, hflt]
  simp

/-! ## the decompositions are the grammar's array texts -/

/-- `cs` and `ts` have the same length and `Derives cᵢ tᵢ` for every `i` -/
inductive AllDerive : List Bytes → List CST → Prop
  | nil : AllDerive [] []
  | cons {c : Bytes} {t : CST} {cs : List Bytes} {ts : List CST} (h : Derives c t) (hs : AllDerive cs ts) :
      AllDerive (c :: cs) (t :: ts)

theorem tail_append_ws {tail : Bytes} {cs : List Bytes} (h : Tail tail cs) (w : Bytes) (hw : Ws w) :
    Tail (tail ++ w) cs := by
  induction h with
  | nil w' hw' => exact Tail.nil _ (ws_append hw' hw)
  | cons w₁ w₂ c rest cs h₁ h₂ _ ih =>
    have := Tail.cons w₁ w₂ c (rest ++ w) cs h₁ h₂ ih
    simpa [List.append_assoc] using this

/-- `Elems` (no whitespace at either end) as first element + `Tail` -/
theorem tail_of_elems : ∀ (ts : List CST) (body : Bytes), Elems body ts →
    ∃ c cs tail t ts', ts = t :: ts' ∧ body = c ++ tail ∧ Derives c t ∧ Tail tail cs ∧ AllDerive cs ts'
  | [], _, h => by cases h
  | t :: ts, body, h => by
    cases h with
    | one bs t hd => exact ⟨body, [], [], t, [], rfl, by simp, hd, Tail.nil [] ws_nil, .nil⟩
    | cons bs w₁ w₂ rest t ts hd h₁ h₂ hr =>
      obtain ⟨c, cs, tail, t', ts', rfl, rfl, hd', ht, hall⟩ := tail_of_elems ts rest hr
      refine ⟨bs, c :: cs, w₁ ++ [0x2c] ++ w₂ ++ c ++ tail, t, t' :: ts', rfl, by simp, hd, ?_, .cons hd' hall⟩
      exact Tail.cons w₁ w₂ c tail cs h₁ h₂ ht

/-- first element + `Tail` as `Elems` followed by whitespace -/
theorem elems_of_tail {tail : Bytes} {cs : List Bytes} (h : Tail tail cs) :
    ∀ (c : Bytes) (t : CST) (ts : List CST), Derives c t → AllDerive cs ts →
      ∃ body w, c ++ tail = body ++ w ∧ Ws w ∧ Elems body (t :: ts) := by
  induction h with
  | nil w hw =>
    intro c t ts hd hall
    cases hall
    exact ⟨c, w, rfl, hw, Elems.one c t hd⟩
  | cons w₁ w₂ c' rest cs h₁ h₂ _ ih =>
    intro c t ts hd hall
    cases hall with
    | cons hd' hall' =>
      rename_i t' ts'
      obtain ⟨body, w, hbw, hw, he⟩ := ih c' t' ts' hd' hall'
      refine ⟨c ++ w₁ ++ [0x2c] ++ w₂ ++ body, w, ?_, hw, Elems.cons c w₁ w₂ body t (t' :: ts') hd h₁ h₂ he⟩
      simp only [List.append_assoc] at hbw ⊢
      rw [hbw]

/-- a decomposition with derivable element texts is an array derivation -/
theorem derives_of_inner (inner : Bytes) (cs : List Bytes) (ts : List CST) (hin : Inner inner cs)
    (hall : AllDerive cs ts) : Derives ([0x5b] ++ inner ++ [0x5d]) (.arr ts) := by
  cases hall with
  | nil => exact Derives.arrEmpty inner hin
  | cons hd hall' =>
    rename_i c t cs' ts'
    obtain ⟨w, tail, hw, rfl, ht⟩ := hin
    obtain ⟨body, w', hbw, hw', he⟩ := elems_of_tail ht c t ts' hd hall'
    have := Derives.arr w body w' (t :: ts') hw hw' (by simp) he
    have heq : [0x5b] ++ (w ++ c ++ tail) ++ [0x5d] = [0x5b] ++ w ++ body ++ w' ++ [0x5d] := by
      have : w ++ c ++ tail = w ++ (body ++ w') := by rw [← hbw]; simp
      rw [this]; simp
    rw [heq]; exact this

/-- every array derivation is such a decomposition -/
theorem inner_of_derives {v : Bytes} {ts : List CST} (h : Derives v (.arr ts)) :
    ∃ inner cs, v = [0x5b] ++ inner ++ [0x5d] ∧ Inner inner cs ∧ AllDerive cs ts := by
  cases h with
  | arrEmpty w hw => exact ⟨w, [], rfl, hw, .nil⟩
  | arr w₁ body w₂ xs h₁ h₂ hne he =>
    obtain ⟨c, cs, tail, t, ts', rfl, rfl, hd, ht, hall⟩ := tail_of_elems _ _ he
    refine ⟨w₁ ++ c ++ (tail ++ w₂), c :: cs, by simp, ⟨w₁, tail ++ w₂, h₁, rfl, tail_append_ws ht w₂ h₂⟩, .cons hd hall⟩

/-! ## captures versus the parsed `Value` -/

theorem side_mono {env : SJ.Model.Machine.Env} {k : Nat} {t : CST} (h : Side env (k + 1) t) : Side env k t := by
  intro hv
  obtain ⟨h1, h2, h3, h4⟩ := h hv
  exact ⟨h1.imp id (fun h => by omega), h2, h3, h4⟩

theorem sideList_get {env : SJ.Model.Machine.Env} {k : Nat} : ∀ {ts : List CST}, SideList env k ts → ∀ (i : Nat) (hi : i < ts.length), Side env k ts[i]
  | [], _, i, hi => by simp at hi
  | t :: ts, h, 0, _ => h.head
  | t :: ts, h, i + 1, hi => by simpa using sideList_get h.tail i (by simpa using hi)

theorem allDerive_get : ∀ {xs : List Bytes} {ys : List CST}, AllDerive xs ys →
    xs.length = ys.length ∧ ∀ (i : Nat) (h1 : i < xs.length) (h2 : i < ys.length), Derives xs[i] ys[i]
  | [], [], .nil => ⟨rfl, fun i h1 _ => by simp at h1⟩
  | x :: xs, y :: ys, .cons h hs => by
    obtain ⟨hl, hg⟩ := allDerive_get hs
    refine ⟨by simp [hl], fun i h1 h2 => ?_⟩
    cases i with
    | zero => simpa using h
    | succ j => simpa using hg j (by simpa using h1) (by simpa using h2)

theorem map_str_inj : ∀ {xs ys : List Bytes}, xs.map TVal.str = ys.map TVal.str → xs = ys
  | [], [], _ => rfl
  | [], _ :: _, h => by simp at h
  | _ :: _, [], h => by simp at h
  | x :: xs, y :: ys, h => by
    simp only [List.map_cons, List.cons.injEq, TVal.str.injEq] at h
    rw [h.1, map_str_inj h.2]

/-- when the bytes that were captured element-wise also parse into a `Value`, it is an array of as many
    elements, and each capture parses — on its own, from the same kind of source — to the corresponding element -/
theorem rawSeq_canon (cfg : Cfg) (src : Src) (bs : Bytes) (vs : List JV) (v : TVal)
    (hval : parseTop ⟨cfg, src, .value⟩ bs = .ok (.arr vs))
    (hraw : rawSeqTop { cfg := cfg, src := src, flt := false } bs = .ok v) :
    ∃ cs : List Bytes, v = .seq (cs.map TVal.str) ∧ cs.length = vs.length ∧
      ∀ (i : Nat) (h1 : i < cs.length) (h2 : i < vs.length), parseTop ⟨cfg, src, .value⟩ cs[i] = .ok vs[i] := by
  obtain ⟨cs, w₀, inner, w₃, rfl, hbs, h₀, h₃, hin, hcap⟩ := rawSeqTop_sound _ bs v hraw
  refine ⟨cs, rfl, ?_⟩
  -- the `Value` side: an array tree with side conditions
  obtain ⟨t, ⟨w₁, v0, w₂, hbs', hw₁, hw₂, hd⟩, hc, hdep, hsur, hutf, hnum⟩ :=
    SJ.Props.C02.c02_denotes ⟨cfg, src, .value⟩ rfl bs _ hval
  have harr : ∃ ts, t = .arr ts ∧ SJ.Proofs.CanonM.canonMList cfg ts = some vs := by
    cases t with
    | arr ts =>
      simp only [SJ.Proofs.CanonM.canonM, Option.map_eq_some_iff, JV.arr.injEq] at hc
      obtain ⟨vs', hl, rfl⟩ := hc
      exact ⟨ts, rfl, hl⟩
    | obj ms => simp [SJ.Proofs.CanonM.canonM, mkObj] at hc
    | null => simp [SJ.Proofs.CanonM.canonM] at hc
    | true_ => simp [SJ.Proofs.CanonM.canonM] at hc
    | false_ => simp [SJ.Proofs.CanonM.canonM] at hc
    | num p => simp [SJ.Proofs.CanonM.canonM] at hc
    | str s => simp [SJ.Proofs.CanonM.canonM] at hc
  obtain ⟨ts, rfl, hlist⟩ := harr
  obtain ⟨inner', cs', hv0, hin', hall'⟩ := inner_of_derives hd
  -- both decompositions are captured by the `&str` model (no UTF-8 check): they coincide
  let env' : SJ.Model.Typed.Env := { cfg := cfg, src := .str, flt := false }
  have hc1 : ∀ c ∈ cs, Captured env' c := fun c hc => ⟨(hcap c hc).1, fun h => absurd rfl h⟩
  have hc2 : ∀ c ∈ cs', Captured env' c := by
    intro c hc
    refine ⟨?_, fun h => absurd rfl h⟩
    obtain ⟨i, hi, rfl⟩ := List.mem_iff_getElem.mp hc
    obtain ⟨hl, hg⟩ := allDerive_get hall'
    exact ⟨ts[i]'(by omega), hg i hi (by omega)⟩
  have e1 := rawSeqTop_complete env' rfl cs w₀ inner w₃ h₀ h₃ hin hc1
  have e2 := rawSeqTop_complete env' rfl cs' w₁ inner' w₂ hw₁ hw₂ hin' hc2
  have hbs2 : bs = w₁ ++ [0x5b] ++ inner' ++ [0x5d] ++ w₂ := by rw [hbs', hv0]; simp
  rw [← hbs] at e1
  rw [← hbs2, e1] at e2
  simp only [Top.ok.injEq, TVal.seq.injEq] at e2
  have hcs : cs = cs' := map_str_inj e2
  subst hcs
  obtain ⟨hl1, hg1⟩ := allDerive_get hall'
  obtain ⟨hl2, hg2⟩ := SJ.Proofs.Sound.canonMList_get cfg ts vs hlist
  refine ⟨by omega, fun i h1 h2 => ?_⟩
  have hside : Side ⟨cfg, src, .value⟩ 0 (.arr ts) := fun _ => ⟨hdep.imp id (fun h => by omega), hsur, hutf, hnum⟩
  have hsi : Side ⟨cfg, src, .value⟩ 0 ts[i] := side_mono (sideList_get hside.arr i (by omega))
  obtain ⟨val, hres, hp⟩ := complete_text ⟨cfg, src, .value⟩ cs[i] ts[i]
    ⟨[], cs[i], [], by simp, ws_nil, ws_nil, hg1 i h1 (by omega)⟩ hsi
  rw [hp]
  have h3 := hres.1 rfl
  have h4 := hg2 i (by omega) h2
  simp only at h3
  rw [h4] at h3
  simp only [Option.some.injEq] at h3
  rw [h3]

end SJ.Proofs.RawNested
