import SJ.Proofs.TypedAgreeAp
import SJ.Proofs.LexTopParser
import SJ.Proofs.ViaValueConv
/-!
# The float hypothesis of C16 under `arbitrary_precision`, discharged under `float_roundtrip` (C07)

`apAccurate true` — "the JSON number conversion of the build returns the binary64 nearest to the literal's exact value" —
holds of every RFC 8259 literal shorter than `2^29 − 20` bytes whose exponent digits pass de.rs's `i32` guard
(`apLitBounded`): on the float path by `deFloat64_nearest` (C07: de.rs + lexical = round-to-nearest-even of the exact
value), for an integer literal within `u64` / `i64` because serde's `f64` visitor casts the parsed integer (`as f64`: one
rounding of the same exact value). (A separate module: C07's proofs use Mathlib tactics.)
-/
set_option linter.unusedSectionVars false
set_option linter.unusedVariables false

namespace SJ.Proofs.Typed
open SJ SJ.Gen SJ.Model SJ.Model.Lexical SJ.Model.Num SJ.Spec.Ieee SJ.Spec.Decimal SJ.Spec.NumberAcc
open SJ.Proofs.LexSplit SJ.Proofs.LexTopFloat SJ.Proofs.LexTopSpec SJ.Proofs.LexTopRoundtrip SJ.Proofs.LexTopParser
open SJ.Proofs.NumLink (PartsWF toNumLit numOfNRes)
open SJ.Proofs.NumLinkParser (litOf)
open SJ.Spec.Grammar (NumParts IsNumber)
open SJ.Spec.Canon (partsOf numOf)
open SJ.Spec.Number (splitNumber)

/-- an integer literal: its exact value is the integer itself -/
theorem exact_int (p : Parts) (hf : p.frac = none) (he : p.exp = none) : (toNumLit p).exact = (natOfDigits p.int * 10 ^ 0, 1) := by
  unfold NumLit.exact NumLit.sigVal NumLit.netExp NumLit.digits NumLit.expVal toNumLit
  simp only [hf, he, Option.getD_none, Option.map_none, List.append_nil, List.length_nil]
  unfold scale10
  simp only [digitsVal, List.foldl_nil, Bool.false_eq_true, if_false]
  rfl

/-- **C07 for the literal of a `Value`**: under `float_roundtrip` the conversion of a bounded literal is the binary64 nearest
    to its exact value, whenever that is finite -/
theorem accurate_fr (p : NumParts) (hwf : p.WF = true) (hlen : p.int.length + p.frac.length + 20 < 2 ^ 29)
    (hfit : ExpFits (partsOf p)) (b : UInt64) (hb : nearestF64 (litOf p) = some b) :
    ∃ n, numOf { fr := true } p = some n ∧ Spec.PrimEq.numAsF64 n = some b := by
  rw [numOf_fr { fr := true } rfl rfl p hwf hlen]
  have hpw := SJ.Proofs.NumLinkParser.partsOf_wf p hwf
  have hfr' : ((partsOf p).frac.getD []) = p.frac.drop 1 := SJ.Proofs.Complete.fracOf_getD p.frac
  have hint : (partsOf p).int = p.int := rfl
  have wf : WF (partsOf p) := wf_of_partsWF _ hpw (by rw [hfr', List.length_drop]; omega)
  have hlen' : ((partsOf p).int ++ (partsOf p).frac.getD []).length + 20 < 2 ^ 29 := by
    rw [hfr', hint, List.length_append, List.length_drop]; omega
  unfold nearestF64 at hb
  rcases SJ.Proofs.ViaValue.intClass_cases (partsOf p) with hic | ⟨n, hic⟩ | ⟨k, hic⟩
  · rw [deFloat64_nearest (partsOf p) wf hlen' hic hfit]
    have e : roundNE64 (partsOf p).neg (toNumLit (partsOf p)).exact.1 (toNumLit (partsOf p)).exact.2 = some b := hb
    rw [e]
    exact ⟨.float b, rfl, rfl⟩
  · rw [deFloat_eq false _ wf hlen', specG_eq, hic]
    refine ⟨.pos n, rfl, ?_⟩
    -- the literal is the integer `n`
    unfold intClass at hic
    cases hf : (partsOf p).frac with
    | some _ => rw [hf] at hic; cases hic
    | none =>
      cases he : (partsOf p).exp with
      | some _ => rw [hf, he] at hic; cases hic
      | none =>
        rw [hf, he] at hic
        simp only at hic
        cases hneg : (partsOf p).neg with
        | true =>
          rw [hneg] at hic
          simp only [Bool.not_true, Bool.false_eq_true, if_false] at hic
          split at hic
          · cases hic
          · split at hic <;> cases hic
        | false =>
          rw [hneg] at hic
          simp only [Bool.not_false, if_true] at hic
          split at hic
          · simp only [Option.some.injEq, NRes.u64.injEq] at hic
            have hex := exact_int (partsOf p) hf he
            have hn : (litOf p).neg = false := hneg
            have hb' : roundNE64 false (toNumLit (partsOf p)).exact.1 (toNumLit (partsOf p)).exact.2 = some b := by
              rw [← hn]; exact hb
            rw [hex] at hb'
            simp only [Nat.pow_zero, Nat.mul_one, hic] at hb'
            simp only [Spec.PrimEq.numAsF64, Spec.PrimEq.intAsF64, F64.roundOrInf, Option.some.injEq]
            have h0 : decide ((n : Int) < 0) = false := by simp
            rw [h0, Int.natAbs_natCast, hb']
            rfl
          · cases hic
  · rw [deFloat_eq false _ wf hlen', specG_eq, hic]
    refine ⟨.neg k, rfl, ?_⟩
    unfold intClass at hic
    cases hf : (partsOf p).frac with
    | some _ => rw [hf] at hic; cases hic
    | none =>
      cases he : (partsOf p).exp with
      | some _ => rw [hf, he] at hic; cases hic
      | none =>
        rw [hf, he] at hic
        simp only at hic
        cases hneg : (partsOf p).neg with
        | false =>
          rw [hneg] at hic
          simp only [Bool.not_false, if_true] at hic
          split at hic <;> cases hic
        | true =>
          rw [hneg] at hic
          simp only [Bool.not_true, Bool.false_eq_true, if_false] at hic
          split at hic
          · cases hic
          · rename_i h0
            split at hic
            · simp only [Option.some.injEq, NRes.i64.injEq] at hic
              have hex := exact_int (partsOf p) hf he
              have hn : (litOf p).neg = true := hneg
              have hb' : roundNE64 true (toNumLit (partsOf p)).exact.1 (toNumLit (partsOf p)).exact.2 = some b := by
                rw [← hn]; exact hb
              rw [hex] at hb'
              simp only [Nat.pow_zero, Nat.mul_one] at hb'
              have hpos : 0 < natOfDigits (partsOf p).int := by
                have : natOfDigits (partsOf p).int ≠ 0 := by simpa using h0
                omega
              simp only [Spec.PrimEq.numAsF64, Spec.PrimEq.intAsF64, F64.roundOrInf, Option.some.injEq]
              have hk : decide (k < 0) = true := by rw [← hic]; simp; omega
              have hka : k.natAbs = natOfDigits (partsOf p).int := by rw [← hic]; simp
              rw [hk, hka, hb']
              rfl
            · cases hic

/-- the float hypothesis at one position -/
theorem apAccurate_of_bounded (s : Schema) (v : JV) (h : apLitBounded s v = true) : apAccurate true s v = true := by
  cases s with
  | f64 =>
    cases v with
    | num n =>
      cases n with
      | lit l =>
        simp only [apLitBounded, Bool.and_eq_true, decide_eq_true_eq] at h
        obtain ⟨⟨hnum, hlen⟩, hexp⟩ := h
        obtain ⟨hwf, hbytes⟩ := SJ.Proofs.Number.splitNumber_of_isNumber l ((SJ.Proofs.Number.isNumber_iff l).1 hnum)
        have hfit : ExpFits (partsOf (splitNumber l)) := by
          intro en eds he
          rw [he] at hexp
          simpa using hexp
        have hl : (splitNumber l).int.length + (splitNumber l).frac.length + 20 < 2 ^ 29 := by
          have := congrArg List.length hbytes
          unfold NumParts.bytes at this
          simp only [List.length_append] at this
          omega
        simp only [apAccurate]
        have hnear : litNearest l = nearestF64 (litOf (splitNumber l)) := by
          have := SJ.Proofs.NumberAp.litNearest_bytes (splitNumber l) hwf
          rw [hbytes] at this
          exact this
        rw [hnear]
        cases hb : nearestF64 (litOf (splitNumber l)) with
        | none => rfl
        | some b =>
          obtain ⟨n, hn, hv⟩ := accurate_fr (splitNumber l) hwf hl hfit b hb
          simp only [accOpt, litConv, hn, hv, beq_self_eq_true]
      | _ => rfl
    | _ => rfl
  | _ => rfl

/-- **the float hypothesis of `c16_text_agrees_ap_partial` under `float_roundtrip`** -/
theorem allPos_accurate_fr (s : Schema) (v : JV) (h : Schema.allPos apLitBounded s v = true) :
    Schema.allPos (apAccurate true) s v = true :=
  allPos_mono apLitBounded (apAccurate true) apAccurate_of_bounded s v h

end SJ.Proofs.Typed
