import SJ.Proofs.LexMathPow
import SJ.Proofs.LexMathHi
import SJ.Model.LexBhLimbs
/-!
# `bhcomp.rs` over limb vectors refines `bhcomp.rs` over naturals

`Model.LexBhLimbs` runs `parse_mantissa`, `large_atof`, `small_atof`, `bhcomp` on `Vec<Limb>` through the trait `Math`;
`Model.Lexical` runs them on `Nat`. Every big-integer step of the former denotes the corresponding step of the latter,
the vectors stay vectors of limbs and stay normalised, and the three observations made of a big integer (`compare`,
`hi64`, `bit_length`) agree — so the two transcriptions return the same float whenever the limb one returns at all.
-/
namespace SJ.Proofs.LexMath
open SJ SJ.Gen SJ.Model.Num SJ.Model.Lexical SJ.Model.LexMath SJ.Model.LexBhLimbs SJ.Proofs.NumInt

/-! ## `parse_mantissa` -/

/-- normalised, or the one unnormalised vector `parse_mantissa` can pass through (`[0]`: zero pushed onto an empty
    vector by `iadd_small`) -/
def WNormal (x : Limbs) : Prop := Normal x ∨ x = [0]

theorem imul_zero_singleton (p : Nat) : small.imul [0] p = [0] := by
  simp [small.imul, small.imulLoop, scalar.imul, scalar.mul, wide, limb]

theorem chunk_step (x : Limbs) (p v : Nat) (hv : Valid x) (hw : WNormal x) (hp : p < 2 ^ 64) (hp0 : p ≠ 0)
    (hvv : v < 2 ^ 64) :
    value (Math.iaddSmall (Math.imulSmall x p) v) = value x * p + v ∧ Valid (Math.iaddSmall (Math.imulSmall x p) v) ∧
    WNormal (Math.iaddSmall (Math.imulSmall x p) v) := by
  unfold Math.iaddSmall Math.imulSmall
  have ⟨m1, m2⟩ := small_imul_spec x p hv hp
  have ⟨a1, a2⟩ := small_iadd_spec _ v m2 hvv
  refine ⟨by rw [a1, m1], a2, ?_⟩
  rcases hw with hn | h0
  · have hn' := small_imul_normal x p hv hp hp0 hn
    by_cases hc : small.imul x p ≠ [] ∨ v ≠ 0
    · exact Or.inl (small_iadd_normal _ v m2 hvv hn' hc)
    · have h1 : small.imul x p = [] := by
        by_contra hh; exact hc (Or.inl hh)
      have h2 : v = 0 := by
        by_contra hh; exact hc (Or.inr hh)
      right; rw [h1, h2]; rfl
  · subst h0
    rw [imul_zero_singleton]
    by_cases h2 : v = 0
    · right; subst h2; simp [small.iadd, small.iaddImpl, scalar.iadd, scalar.add, limb, small.carryLoop]
    · left
      have : small.iadd [0] v = [v] := by
        simp only [small.iadd, small.iaddImpl, List.length_singleton, Nat.le_zero_eq, Nat.add_one_ne_zero, if_false,
          List.drop_zero, scalar.iadd, scalar.add, Nat.zero_add, List.take_zero, List.nil_append, limb_of_lt hvv]
        rw [decide_eq_false (by omega)]; rfl
      rw [this]; simpa [Normal] using h2

theorem pow10_lt_u64 {k : Nat} (hk : k ≤ 18) : (10 : Nat) ^ k < 2 ^ 64 :=
  Nat.lt_of_le_of_lt (Nat.pow_le_pow_right (by norm_num) hk) (by norm_num)

/-- the loop of `parse_mantissa` on limbs tracks the loop on naturals -/
theorem parseMantissaLoopL_refines (maxDigits : Nat) (ds : Bytes) (hd : IsDigits ds) :
    ∀ (counter v i : Nat) (res : Limbs), counter ≤ 18 → v < 10 ^ counter → Valid res → WNormal res →
      let rL := parseMantissaLoopL maxDigits 18 ds counter v i res
      let rN := parseMantissaLoop maxDigits 18 ds counter v i (value res)
      rL.1 = rN.1 ∧ rL.2.1 = rN.2.1 ∧ rL.2.2.1 = rN.2.2.1 ∧ value rL.2.2.2 = rN.2.2.2 ∧ Valid rL.2.2.2 ∧
        WNormal rL.2.2.2 ∧ rL.1 ≤ 18 ∧ rL.2.1 < 10 ^ rL.1 := by
  induction ds with
  | nil => intro counter v i res hc hv hval hw; exact ⟨rfl, rfl, rfl, rfl, hval, hw, hc, hv⟩
  | cons d ds ih =>
    intro counter v i res hc hv hval hw
    have hdd : dig d < 10 := dig_lt_10 d (hd d (by simp))
    have hds : IsDigits ds := fun c hc => hd c (by simp [hc])
    simp only [parseMantissaLoopL, parseMantissaLoop]
    by_cases h18 : counter = 18
    · subst h18
      simp only [beq_self_eq_true, if_true]
      have ⟨e, l⟩ := pow10_64_entry (i := 18) (by norm_num)
      have hvv : v < 2 ^ 64 := Nat.lt_trans hv (pow10_lt_u64 (Nat.le_refl _))
      have ⟨c1, c2, c3⟩ := chunk_step res _ v hval hw l (by rw [e]; norm_num) hvv
      rw [← c1]
      by_cases hlast : (i + 1 == maxDigits) = true
      · simp only [hlast, if_true]
        exact ⟨trivial, trivial, trivial, trivial, c2, c3, by norm_num, by simpa using hdd⟩
      · simp only [hlast, Bool.false_eq_true, if_false]
        exact ih hds (0 + 1) (0 * 10 + dig d) (i + 1) _ (by norm_num) (by simpa using hdd) c2 c3
    · have hb : (counter == 18) = false := by simpa using h18
      simp only [hb, Bool.false_eq_true, if_false]
      have hv' : v * 10 + dig d < 10 ^ (counter + 1) := by rw [Nat.pow_succ]; omega
      by_cases hlast : (i + 1 == maxDigits) = true
      · simp only [hlast, if_true]
        exact ⟨trivial, trivial, trivial, trivial, hval, hw, by omega, hv'⟩
      · simp only [hlast, Bool.false_eq_true, if_false]
        exact ih hds (counter + 1) (v * 10 + dig d) (i + 1) res (by omega) hv' hval hw

/-- **`parse_mantissa` refines**: the limb vector denotes the natural number `Model.Lexical.parseMantissa` computes, it
    consists of limbs, and it is normalised unless it denotes zero. -/
theorem parseMantissaL_refines (c : FC) (integer fraction : Bytes) (hdi : IsDigits integer) (hdf : IsDigits fraction) :
    value (parseMantissaL c integer fraction) = parseMantissa c integer fraction ∧
    Valid (parseMantissaL c integer fraction) ∧
    (parseMantissa c integer fraction ≠ 0 → Normal (parseMantissaL c integer fraction)) := by
  have hlen : pow10_64.length - 2 = 18 := by rw [SJ.Proofs.LexMathTables.consts.2.2.2.2.1]
  have hd : IsDigits (integer ++ fraction) := fun x hx => by
    rcases List.mem_append.mp hx with h | h
    · exact hdi x h
    · exact hdf x h
  have key : value (parseMantissaL c integer fraction) = parseMantissa c integer fraction ∧
      Valid (parseMantissaL c integer fraction) ∧ WNormal (parseMantissaL c integer fraction) := by
    unfold parseMantissaL parseMantissa
    rw [hlen]
    simp only []
    have h := parseMantissaLoopL_refines (c.maxDigits - 1) (integer ++ fraction) hd 0 0 0 [] (by norm_num) (by norm_num)
      valid_nil (Or.inl normal_nil)
    simp only [value_nil] at h
    generalize parseMantissaLoopL (c.maxDigits - 1) 18 (integer ++ fraction) 0 0 0 [] = rL at h
    generalize parseMantissaLoop (c.maxDigits - 1) 18 (integer ++ fraction) 0 0 0 0 = rN at h
    obtain ⟨cL, vL, iL, resL⟩ := rL
    obtain ⟨cN, vN, iN, resN⟩ := rN
    simp only [] at h ⊢
    obtain ⟨rfl, rfl, rfl, hval, hv, hw, hc18, hvlt⟩ := h
    -- the last partial chunk
    obtain ⟨res1, hres1, v1, w1⟩ : ∃ res1 : Limbs,
        res1 = (if (cL != 0) = true then Math.iaddSmall (Math.imulSmall resL (pow10_64.getD cL 0)) vL else resL) ∧
        (value res1 = if (cL != 0) = true then resN * pow10_64.getD cL 0 + vL else resN) ∧ Valid res1 ∧ WNormal res1 := by
      by_cases hc0 : (cL != 0) = true
      · have ⟨e, l⟩ := pow10_64_entry (i := cL) (by omega)
        have hvv : vL < 2 ^ 64 := Nat.lt_trans hvlt (pow10_lt_u64 hc18)
        have ⟨c1, c2, c3⟩ := chunk_step resL _ vL hv hw l
          (by rw [e]; exact Nat.pos_iff_ne_zero.mp (Nat.pow_pos (by norm_num))) hvv
        exact ⟨_, rfl, by simp only [hc0, if_true]; rw [c1, hval], by simp only [hc0, if_true]; exact ⟨c2, c3⟩⟩
      · exact ⟨_, rfl, by simp only [hc0]; exact hval, by simp only [hc0]; exact ⟨hv, hw⟩⟩
    rw [← hres1, ← v1]
    by_cases hmore : iL < integer.length + fraction.length
    · simp only [hmore, if_true]
      have ⟨t1, t2, t3⟩ := chunk_step res1 10 0 w1.1 w1.2 (by norm_num) (by norm_num) (by norm_num)
      -- `imul_small(10)` alone
      have m10 := small_imul_spec res1 10 w1.1 (by norm_num)
      have w10 : WNormal (Math.imulSmall res1 10) := by
        rcases w1.2 with hn | h0
        · exact Or.inl (small_imul_normal res1 10 w1.1 (by norm_num) (by norm_num) hn)
        · right; rw [h0]; exact imul_zero_singleton 10
      by_cases hany : ((integer ++ fraction).drop iL).any (· != 0x30) = true
      · simp only [hany, if_true]
        have ⟨s1, s2, s3⟩ := chunk_step res1 10 1 w1.1 w1.2 (by norm_num) (by norm_num) (by norm_num)
        exact ⟨s1, s2, s3⟩
      · simp only [hany, Bool.false_eq_true, if_false]
        exact ⟨m10.1, m10.2, w10⟩
    · simp only [hmore, if_false]
      exact ⟨trivial, w1.1, w1.2⟩
  refine ⟨key.1, key.2.1, fun hne => ?_⟩
  rcases key.2.2 with hn | h0
  · exact hn
  · exfalso; apply hne; rw [← key.1, h0]; rfl

/-! ## `large_atof`, `small_atof`, `bhcomp` -/

theorem asU32_of_nonneg {e : Int} (h0 : 0 ≤ e) (h1 : e < 2 ^ 32) : asU32 e = e.toNat := by
  unfold asU32; rw [Int.emod_eq_of_lt h0 h1]

/-- **`large_atof` refines.** -/
theorem largeAtofL_refines (c : FC) (m : Limbs) (e : Int) (hv : Valid m) (hn : Normal m) (he0 : 0 ≤ e)
    (he : e < 2 ^ 32) (r : Nat) (h : largeAtofL c m e = some r) : r = largeAtof c (value m) e := by
  unfold largeAtofL at h
  simp only [Option.bind_eq_bind, Option.bind_eq_some_iff, Option.some.injEq] at h
  obtain ⟨big, hbig, ⟨mant, tr⟩, hhi, rfl⟩ := h
  rw [asU32_of_nonneg he0 he] at hbig
  have ⟨b1, b2, b3⟩ := math_imulPow10_some hv hbig
  have hN : value big = value m * 5 ^ e.toNat * 2 ^ e.toNat := by
    rw [b1, Nat.mul_assoc, ← Nat.mul_pow]
  rw [hi64_refines big b2 (b3 hn)] at hhi
  simp only [Option.some.injEq] at hhi
  unfold largeAtof
  simp only []
  rw [← hN, hhi, bitLength_refines big b2 (b3 hn)]

theorem natCompare_eq (a b : Nat) :
    natCompare a b = if a > b then Ordering.gt else if a < b then Ordering.lt else Ordering.eq := rfl

/-- **`small_atof` refines.** -/
theorem smallAtofL_refines (c : FC) (m : Limbs) (e : Int) (f : Nat) (hv : Valid m) (hn : Normal m) (he : e < 0)
    (he2 : -(2 ^ 32 : Int) < e) (hb1 : (bhExtended c f).exp - e < 2 ^ 32) (hb2 : -(2 ^ 32 : Int) < (bhExtended c f).exp - e)
    (r : Nat) (h : smallAtofL c m e f = some r) : r = smallAtof c (value m) e f := by
  unfold smallAtofL at h
  have hm64 : (bhExtended c f).mant < 2 ^ 64 := by
    unfold bhExtended; exact Nat.mod_lt _ (Nat.two_pow_pos 64)
  have ⟨f1, f2, f3, _⟩ := math_fromU64_spec _ hm64
  have hne : (-e != 0) = true := by simp; omega
  simp only [hne, if_true, Option.bind_eq_bind, Option.bind_eq_some_iff] at h
  obtain ⟨th, hth, hres⟩ := h
  -- theor_digits · 5^(-e)
  rw [asU32_of_nonneg (by omega) (by omega)] at hth
  have ⟨p1, p2, p3⟩ := small_imulPow5_some f2 hth
  rw [f1] at p1
  -- the power of two on either side
  obtain ⟨th2, hth2, t1, t2, t3⟩ : ∃ th2, th2 = (if (bhExtended c f).exp - e > 0 then
      Math.imulPow2 th (asU32 ((bhExtended c f).exp - e)) else th) ∧
      value th2 = (if (bhExtended c f).exp - e > 0 then value th * 2 ^ ((bhExtended c f).exp - e).toNat else value th) ∧
      Valid th2 ∧ Normal th2 := by
    by_cases hpos : (bhExtended c f).exp - e > 0
    · have ⟨a, b, d⟩ := math_imulPow2_spec th ((bhExtended c f).exp - e).toNat p2
      refine ⟨_, rfl, ?_, ?_, ?_⟩ <;> simp only [hpos, if_true] <;> rw [asU32_of_nonneg (by omega) hb1]
      · exact a
      · exact b
      · exact d (p3 f3)
    · exact ⟨_, rfl, by simp only [hpos, if_false], by simp only [hpos, if_false]; exact p2,
        by simp only [hpos, if_false]; exact p3 f3⟩
  obtain ⟨re, hre, r1, r2, r3⟩ : ∃ re, re = (if (bhExtended c f).exp - e < 0 then
      Math.imulPow2 m (asU32 (-((bhExtended c f).exp - e))) else m) ∧
      value re = (if (bhExtended c f).exp - e < 0 then value m * 2 ^ (-((bhExtended c f).exp - e)).toNat else value m) ∧
      Valid re ∧ Normal re := by
    by_cases hneg : (bhExtended c f).exp - e < 0
    · have ⟨a, b, d⟩ := math_imulPow2_spec m (-((bhExtended c f).exp - e)).toNat hv
      refine ⟨_, rfl, ?_, ?_, ?_⟩ <;> simp only [hneg, if_true] <;> rw [asU32_of_nonneg (by omega) (by omega)]
      · exact a
      · exact b
      · exact d hn
    · exact ⟨_, rfl, by simp only [hneg, if_false], by simp only [hneg, if_false]; exact hv,
        by simp only [hneg, if_false]; exact hn⟩
  rw [← hth2, ← hre] at hres
  unfold Math.compare at hres
  rw [compare_spec re th2 r2 t2 r3 t3, natCompare_eq] at hres
  unfold smallAtof
  simp only []
  rw [← p1, ← t1, ← r1]
  by_cases h1 : value re > value th2
  · rw [if_pos h1] at hres ⊢; simpa using hres.symm
  · rw [if_neg h1] at hres ⊢
    by_cases h2 : value re < value th2
    · rw [if_pos h2] at hres ⊢; simpa using hres.symm
    · rw [if_neg h2] at hres ⊢; simpa using hres.symm

/-- the mantissa `bhcomp` builds (the digits after the leading fraction zeros when there is no integer part) -/
def bhMantissa (c : FC) (integer fraction : Bytes) : Nat :=
  parseMantissa c integer
    (if integer.length == 0 then fraction.drop ((fraction.takeWhile (· == 0x30)).length) else fraction)

theorem satI32_bounds (x : Int) : -(2 ^ 31 : Int) ≤ satI32 x ∧ satI32 x < 2 ^ 31 := by
  unfold satI32; split <;> [omega; (split <;> omega)]

theorem scientificExponent_bounds (e : Int) (a b : Nat) :
    -(2 ^ 31 : Int) ≤ scientificExponent e a b ∧ scientificExponent e a b < 2 ^ 31 := by
  unfold scientificExponent; split <;> exact satI32_bounds _

theorem bhExtended_exp_bounds (single : Bool) (f : Nat) :
    -(2 ^ 12 : Int) < (bhExtended (fc single) f).exp ∧ (bhExtended (fc single) f).exp < 2 ^ 12 := by
  unfold bhExtended fromFloat exponent
  simp only []
  have hmask : ∀ (k m : Nat), (f &&& m) >>> k ≤ m := fun k m =>
    Nat.le_trans (by rw [Nat.shiftRight_eq_div_pow]; exact Nat.div_le_self _ _) Nat.and_le_right
  cases single
  ·     -- the shifted exponent field is at most 2047
    have h2 : (f &&& 9218868437227405312) >>> 52 ≤ 2047 := by
      rw [Nat.shiftRight_eq_div_pow]
      exact Nat.le_trans (Nat.div_le_div_right Nat.and_le_right) (by norm_num)
    simp only [fc, Bool.false_eq_true, if_false, f64Consts] at *
    have e52 : Int.toNat 52 = 52 := rfl
    rw [e52]
    generalize (f &&& 9218868437227405312) >>> 52 = q at h2 ⊢
    split <;> omega
  · have h2 : (f &&& 2139095040) >>> 23 ≤ 255 := by
      rw [Nat.shiftRight_eq_div_pow]
      exact Nat.le_trans (Nat.div_le_div_right Nat.and_le_right) (by norm_num)
    simp only [fc, if_true, f32Consts] at *
    have e23 : Int.toNat 23 = 23 := rfl
    rw [e23]
    generalize (f &&& 2139095040) >>> 23 = q at h2 ⊢
    split <;> omega

theorem maxDigits_le (single : Bool) : (fc single).maxDigits ≤ 769 := by
  cases single <;> simp [fc, f32Consts, f64Consts]

/-- **`bhcomp` over limbs refines `bhcomp` over naturals**: whenever the limb-level `bhcomp` returns (does not
    panic), it returns the float `Model.Lexical.bhcomp` returns — for every float type, every `b`, all digit strings
    whose big-integer mantissa is not zero, every `i32` exponent. -/
theorem bhcompL_refines (single : Bool) (b : Nat) (integer fraction : Bytes) (exponent : Int) (hdi : IsDigits integer)
    (hdf : IsDigits fraction) (hm : bhMantissa (fc single) integer fraction ≠ 0) (r : Nat)
    (h : bhcompL (fc single) b integer fraction exponent = some r) :
    r = bhcomp (fc single) b integer fraction exponent := by
  unfold bhcompL at h
  unfold bhcomp
  unfold bhMantissa at hm
  simp only [] at h ⊢
  -- the fraction after the leading zeros
  generalize hfr : (if (integer.length == 0) = true then
      ((fraction.takeWhile (· == 0x30)).length, fraction.drop (fraction.takeWhile (· == 0x30)).length)
      else (0, fraction)) = pr at h ⊢
  have hfr2 : pr.2 = (if (integer.length == 0) = true then fraction.drop ((fraction.takeWhile (· == 0x30)).length)
      else fraction) := by
    rw [← hfr]; split <;> rfl
  rw [← hfr2] at hm
  have hdf' : IsDigits pr.2 := by
    rw [hfr2]; split
    · exact fun x hx => hdf x (List.mem_of_mem_drop hx)
    · exact hdf
  have ⟨q1, q2, q3⟩ := parseMantissaL_refines (fc single) integer pr.2 hdi hdf'
  have ⟨s1, s2⟩ := scientificExponent_bounds exponent integer.length pr.1
  have hmd := maxDigits_le single
  have hcnt : ((min (fc single).maxDigits (integer.length + fraction.length - pr.1) : Nat) : Int) ≤ 769 := by
    have : min (fc single).maxDigits (integer.length + fraction.length - pr.1) ≤ 769 :=
      Nat.le_trans (Nat.min_le_left _ _) hmd
    exact_mod_cast this
  have hcnt0 : (0 : Int) ≤ ((min (fc single).maxDigits (integer.length + fraction.length - pr.1) : Nat) : Int) :=
    Int.natCast_nonneg _
  rw [← q1]
  by_cases hse : scientificExponent exponent integer.length pr.1 + 1 -
      ((min (fc single).maxDigits (integer.length + fraction.length - pr.1) : Nat) : Int) ≥ 0
  · rw [if_pos hse] at h ⊢
    exact largeAtofL_refines _ _ _ q2 (q3 hm) hse (by omega) r h
  · rw [if_neg hse] at h ⊢
    have ⟨x1, x2⟩ := bhExtended_exp_bounds single b
    exact smallAtofL_refines _ _ _ b q2 (q3 hm) (by omega) (by omega) (by omega) (by omega) r h

end SJ.Proofs.LexMath
