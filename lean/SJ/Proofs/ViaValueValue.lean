import SJ.Proofs.ViaValueText128
import SJ.Proofs.FromValue
/-!
# The `Value` side on a number literal: `from_value` / `&Value` after parsing, and `MapKeyDeserializer`

* `valueOf_default` / `valueOf_ap`: what `from_str::<Value>(lit)` holds (the parser theorems of C02/C08/C20);
* `viaValue_default`: default build, `from_value::<iN>` of that `Value` = `visitClass w (intClass (partsOf p))`;
* `viaValue_ap`: `arbitrary_precision`, `from_value::<iN>` = `str::parse::<iN>` of the literal = `accInt`;
* `valueKeyInt_lit`: a numeric key of a `Value` object (`deserialize_numeric_key!`: a fresh text deserializer over
  the key, then "nothing may follow") = `targetInt`, every build.
-/
namespace SJ.Proofs.ViaValue
open SJ SJ.Gen SJ.Model SJ.Model.Num SJ.Proofs.NumInt SJ.Spec.NumberAcc SJ.Model.ViaValue
open SJ.Spec.Grammar (NumParts isInt isFrac isExp)
open SJ.Spec.Canon (partsOf numOf)
open SJ.Proofs.NumLinkParser (litOf litOf_neg litOf_int parseTop_num_ok parseTop_num_err)
open SJ.Proofs.CanonM (specCfg)
open SJ.Model.FromValue (numberInt visitInt fail rustParseInt)

/-! ## the `Value` a literal parses to -/

theorem valueOf_eq (cfg : Machine.Cfg) (src : Machine.Src) (p : NumParts) (hwf : p.WF = true) :
    valueOf cfg src p.bytes = (numOf (specCfg cfg) p).map .num := by
  unfold valueOf
  cases hn : numOf (specCfg cfg) p with
  | some x =>
    rw [parseTop_num_ok { cfg := cfg, src := src, tgt := .value } rfl p hwf x hn]
    rfl
  | none =>
    have hap : cfg.ap = false := by
      cases h : cfg.ap
      · rfl
      · simp [numOf, specCfg, h] at hn
    obtain ⟨idx, _, he⟩ := parseTop_num_err { cfg := cfg, src := src, tgt := .value } rfl hap p hwf hn
    rw [he]; rfl

theorem intClass_partsOf_int (p : NumParts) (hf : p.frac = []) (he : p.exp = []) :
    intClass (partsOf p) = intClass (intParts p.minus p.int) := by
  unfold intClass partsOf intParts
  simp [hf, he]

theorem partsOf_floaty (p : NumParts) (hwf : p.WF = true) (h : isIntLit (litOf p) = false) :
    ((partsOf p).frac.isSome || (partsOf p).exp.isSome) = true := by
  rw [SJ.Proofs.NumberAp.isIntLit_litOf p hwf] at h
  unfold partsOf
  cases hfr : p.frac with
  | cons c ds => simp
  | nil =>
    cases hex : p.exp with
    | nil => simp [hfr, hex] at h
    | cons c r =>
      simp only [List.isEmpty_nil, if_true, Option.isSome_none, Bool.false_or]
      cases r with
      | nil => rfl
      | cons s ds => simp only; split <;> [rfl; (split <;> rfl)]

/-- the classification of the scanned parts, in terms of the literal: integer literal or nothing -/
theorem visitClass_partsOf (w : IntTy) (p : NumParts) (hwf : p.WF = true) :
    visitClass w (intClass (partsOf p)) =
      if isIntLit (litOf p) then visitClass w (intClass (intParts p.minus p.int)) else none := by
  cases hint : isIntLit (litOf p) with
  | true =>
    have := hint
    rw [SJ.Proofs.NumberAp.isIntLit_litOf p hwf] at this
    simp only [Bool.and_eq_true, List.isEmpty_iff] at this
    rw [intClass_partsOf_int p this.1 this.2]; rfl
  | false =>
    rw [intClass_float _ (partsOf_floaty p hwf hint)]; rfl

theorem numberInt_noap (cfg : FromValue.Cfg) (hap : cfg.ap = false) (w : IntTy) (n : Num) :
    numberInt cfg w n = numberInt {} w n := by
  unfold numberInt; simp [hap]

/-- **default build, via `Value`** (owned): the integer visitor sees the parser's classification -/
theorem viaValue_default (cfg : Machine.Cfg) (hap : cfg.ap = false) (ext : FromValue.Ext) (w : IntTy) (p : NumParts)
    (hwf : p.WF = true) (x : Num) (hx : numOf (specCfg cfg) p = some x) :
    viaValueInt cfg ext w (.num x) = visitClass w (intClass (partsOf p)) := by
  have hd : IsDigits (partsOf p).int := by
    simp only [NumParts.WF, Bool.and_eq_true] at hwf
    exact isDigits_int p.int hwf.1.1
  have hpn : Model.Typed.parserNumber { cfg := cfg } (partsOf p) = some x := by
    unfold Model.Typed.parserNumber
    unfold numOf Spec.Canon.convert at hx
    simp only [specCfg, hap, Bool.false_eq_true, if_false] at hx
    cases hfr : cfg.fr <;> simp only [hfr, Bool.false_eq_true, if_false, if_true] at hx ⊢
    · cases hc : convertDefault (partsOf p) <;> rw [hc] at hx <;> simp_all
    · cases hc : convertRoundtrip (partsOf p) <;> rw [hc] at hx <;> simp_all
  have := numberInt_parserNumber { cfg := cfg } w (partsOf p) hd x hpn
  unfold viaValueInt
  simp only [FromValue.fromValue, FromValue.deInt]
  rw [numberInt_noap _ (by simp [fvCfg, hap]), this]
  cases visitClass w (intClass (partsOf p)) <;> rfl

/-- **arbitrary_precision, via `Value`**: `self.n.parse::<iN>()` of the literal kept verbatim -/
theorem viaValue_ap (cfg : Machine.Cfg) (hap : cfg.ap = true) (ext : FromValue.Ext) (w : IntTy) (p : NumParts)
    (hwf : p.WF = true) :
    viaValueInt cfg ext w (.num (.lit p.bytes)) = accInt w (litOf p) := by
  have := SJ.Proofs.NumberAp.parseInt_bytes w p hwf
  unfold Model.NumberAp.parseInt at this
  unfold viaValueInt
  simp only [FromValue.fromValue, FromValue.deInt, numberInt, fvCfg, hap, if_true, FromValue.litOf, this]
  cases accInt w (litOf p) <;> rfl

/-- the borrowed side is the same function (C16) -/
theorem viaValueRef_eq (cfg : Machine.Cfg) (ext : FromValue.Ext) (w : IntTy) (v : JV) :
    viaValueRefInt cfg ext w v = viaValueInt cfg ext w v := by
  unfold viaValueRefInt viaValueInt
  rw [SJ.Proofs.FromValue.fromValue_eq_ref]

end SJ.Proofs.ViaValue
