import SJ.Proofs.TypedPrefixInt
import SJ.Proofs.RoundTripNum
import SJ.Spec.Image
import SJ.Spec.WF
/-!
# The typed text deserializer on printed values (C16, text leg): `deTyped s (to_string(v) ++ rest)` against
# `fromValue s v`, for the staged schema fragment (bool, the twelve integer targets, unit, Option, newtype,
# Vec, tuples) and every value without floats
-/
set_option linter.unusedSectionVars false
set_option linter.unusedVariables false

namespace SJ.Proofs.Typed
open SJ SJ.Gen SJ.Model SJ.Model.Typed SJ.Model.Num SJ.Proofs.NumInt
open SJ.Model.Stream (skipWs)
open SJ.Spec.Image (render imageOfValue imageOfValues imageOfMembers layoutWith layoutElems layoutMembers quote)
open SJ.Spec.Number (natDigits decimal)

/-! ## the compact text of a value -/

mutual
theorem layoutWith_depth (d d' : Nat) : ∀ x : Spec.Denote.DV, layoutWith (fun _ => []) [] d x = layoutWith (fun _ => []) [] d' x
  | .null | .bool _ | .num _ | .str _ => by simp [layoutWith]
  | .arr xs => by simp only [layoutWith]; rw [layoutElems_depth (d + 1) (d' + 1) xs]
  | .obj ms => by simp only [layoutWith]; rw [layoutMembers_depth (d + 1) (d' + 1) ms]
theorem layoutElems_depth (d d' : Nat) : ∀ xs : List Spec.Denote.DV, layoutElems (fun _ => []) [] d xs = layoutElems (fun _ => []) [] d' xs
  | [] => by simp [layoutElems]
  | x :: xs => by simp only [layoutElems]; rw [layoutWith_depth d d' x, layoutElems_depth d d' xs]
theorem layoutMembers_depth (d d' : Nat) : ∀ ms : List (Bytes × Spec.Denote.DV),
    layoutMembers (fun _ => []) [] d ms = layoutMembers (fun _ => []) [] d' ms
  | [] => by simp [layoutMembers]
  | (k, x) :: ms => by simp only [layoutMembers]; rw [layoutWith_depth d d' x, layoutMembers_depth d d' ms]
end

variable (ext : Spec.Program.Ext)

/-- what `to_string(v)` writes (`c03_value`: the concatenated buffers of `serCompact ext (ofValue v)`) -/
def T (v : JV) : Bytes := render (imageOfValue ext v)

/-- the elements of an array, comma-separated -/
def Telems : List JV → Bytes
  | [] => []
  | x :: xs => T ext x ++ (if xs.isEmpty then [] else [0x2c]) ++ Telems xs

theorem layoutElems_values (d : Nat) : ∀ xs : List JV, layoutElems (fun _ => []) [] d (imageOfValues ext xs) = Telems ext xs
  | [] => by simp [imageOfValues, layoutElems, Telems]
  | x :: xs => by
    simp only [imageOfValues, layoutElems, Telems, T, render, List.nil_append]
    rw [layoutWith_depth d 0, layoutElems_values d xs]
    cases xs <;> simp [imageOfValues]

theorem T_null : T ext .null = [0x6e, 0x75, 0x6c, 0x6c] := rfl
theorem T_true : T ext (.bool true) = [0x74, 0x72, 0x75, 0x65] := rfl
theorem T_false : T ext (.bool false) = [0x66, 0x61, 0x6c, 0x73, 0x65] := rfl

theorem T_arr (xs : List JV) : T ext (.arr xs) = 0x5b :: (Telems ext xs ++ [0x5d]) := by
  simp only [T, render, imageOfValue, layoutWith]
  rw [layoutElems_values]
  cases xs with
  | nil => simp [imageOfValues, Telems]
  | cons x xs => simp [imageOfValues]

theorem T_str (s : Bytes) : ∃ tl, T ext (.str s) = 0x22 :: tl := by
  simp only [T, render, imageOfValue, layoutWith, quote, Spec.Grammar.strBytes]
  exact ⟨_, rfl⟩

theorem T_obj (kvs : List (Bytes × JV)) : ∃ tl, T ext (.obj kvs) = 0x7b :: tl := by
  simp only [T, render, imageOfValue, layoutWith]
  split <;> exact ⟨_, rfl⟩

variable (hext : Spec.Program.ExtOK ext)
include hext

theorem T_pos (n : Nat) : T ext (.num (.pos n)) = natDigits n := by
  simp only [T, render, imageOfValue, Spec.Image.numOf, layoutWith]
  rw [SJ.Proofs.Number.splitNumber_bytes, hext.itoa_decimal]
  simp [decimal]

theorem T_neg (i : Int) (hi : i < 0) : T ext (.num (.neg i)) = 0x2d :: natDigits i.natAbs := by
  simp only [T, render, imageOfValue, Spec.Image.numOf, layoutWith]
  rw [SJ.Proofs.Number.splitNumber_bytes, hext.itoa_decimal]
  simp [decimal, hi]

omit hext in
/-- the digits of a natural number: a digit first, and a leading `0` stands alone -/
theorem natDigits_shape (n : Nat) : ∃ c tl, natDigits n = c :: tl ∧ Machine.isDigit c = true ∧ IsDigits tl ∧ (c = 0x30 → tl = []) := by
  have hi := SJ.Proofs.Number.natDigits_isInt n
  have hd := SJ.Proofs.RoundTripNum.isDigits_natDigits n
  cases h : natDigits n with
  | nil => rw [h] at hi; simp [Spec.Grammar.isInt] at hi
  | cons c tl =>
    rw [h] at hi hd
    refine ⟨c, tl, rfl, (isDigit_iff c).2 (hd c (by simp)), fun x hx => hd x (by simp [hx]), ?_⟩
    intro hc
    cases tl with
    | nil => rfl
    | cons e es =>
      subst hc
      simp [Spec.Grammar.isInt, Spec.Grammar.isDigit19] at hi

/-! ## reading printed scalars -/

omit hext in
/-- what may follow a value: a separator or closing bracket of the enclosing container, the closing quote of a map key
    holding a number (`MapKey`'s numeric methods), JSON whitespace (the pretty printer's line break before `]` / `}`), or
    nothing (top level) -/
def SepOK (rest : Bytes) : Prop :=
  rest = [] ∨ ∃ c tl, rest = c :: tl ∧ (c = 0x2c ∨ c = 0x5d ∨ c = 0x7d ∨ c = 0x22 ∨ Machine.isWs c = true)

omit hext in
theorem isWs_cases {c : UInt8} (h : Machine.isWs c = true) : c = 0x20 ∨ c = 0x0a ∨ c = 0x09 ∨ c = 0x0d := by
  simpa [Machine.isWs, Gen.wsBytes] using h

omit hext in
theorem skipWs_cons {c : UInt8} (hc : Machine.isWs c = false) (tl : Bytes) (pos : Nat) : skipWs (c :: tl) pos = (c :: tl, pos) := by
  simp [skipWs, hc]

omit hext in
theorem withPeek_cons {α : Type} (env : Env) (code : Code) {c : UInt8} (hc : Machine.isWs c = false) (tl : Bytes) (pos : Nat)
    (k : UInt8 → Bytes → Nat → Res α) : withPeek env code (c :: tl) pos k = k c tl pos := by
  simp [withPeek, skipWs_cons hc]

omit hext in
theorem parseIdent_exact (env : Env) (id rest : Bytes) (pos : Nat) : parseIdent env id (id ++ rest) pos = .ok () rest (pos + id.length) := by
  induction id generalizing pos with
  | nil => simp [parseIdent]
  | cons e es ih =>
    simp only [List.cons_append, parseIdent, beq_self_eq_true, if_true, List.length_cons]
    rw [ih]; congr 1; omega

omit hext in
theorem isDigit_not_ws {c : UInt8} (h : Machine.isDigit c = true) : Machine.isWs c = false := by
  have := (isDigit_iff c).1 h
  have h1 := UInt8.le_iff_toNat_le.1 this.1
  change 48 ≤ c.toNat at h1
  simp only [Machine.isWs, Gen.wsBytes, List.contains_cons, List.contains_nil, Bool.or_false, Bool.or_eq_false_iff, beq_eq_false_iff_ne, ne_eq]
  refine ⟨?_, ?_, ?_, ?_⟩ <;> (intro e; subst e; simp at h1)

omit hext in
theorem digit_facts {c : UInt8} (h : Machine.isDigit c = true) :
    (c == 0x2d) = false ∧ (c == 0x6e) = false ∧ (c == 0x74) = false ∧ (c == 0x66) = false ∧ (c == 0x5d) = false ∧
    (c == 0x2e) = false ∧ (c == 0x65 || c == 0x45) = false ∧ (c == 0x22) = false ∧ (c == 0x5b) = false ∧ (c == 0x7b) = false := by
  have := (isDigit_iff c).1 h
  have h1 := UInt8.le_iff_toNat_le.1 this.1
  have h2 := UInt8.le_iff_toNat_le.1 this.2
  change 48 ≤ c.toNat at h1
  change c.toNat ≤ 57 at h2
  simp only [Bool.or_eq_false_iff, beq_eq_false_iff_ne, ne_eq]
  refine ⟨?_, ?_, ?_, ?_, ?_, ?_, ⟨?_, ?_⟩, ?_, ?_, ?_⟩ <;> (intro e; subst e; simp at h1 h2)

omit hext in
theorem digitsOf_term (ds rest : Bytes) (hd : IsDigits ds) (hr : rest = [] ∨ ∃ c tl, rest = c :: tl ∧ Machine.isDigit c = false) :
    digitsOf (ds ++ rest) = (ds, rest) := by
  induction ds with
  | nil =>
    rcases hr with rfl | ⟨c, tl, rfl, hc⟩
    · simp [digitsOf]
    · simp [digitsOf, hc]
  | cons x xs ih =>
    have hx : Machine.isDigit x = true := (isDigit_iff x).2 (hd x (by simp))
    simp only [List.cons_append, digitsOf, hx, if_true]
    rw [ih (fun c hc => hd c (by simp [hc]))]

omit hext in
theorem sep_facts {rest : Bytes} (h : SepOK rest) :
    (rest = [] ∨ ∃ c tl, rest = c :: tl ∧ Machine.isDigit c = false) ∧
    (rest = [] ∨ ∃ c tl, rest = c :: tl ∧ (c == 0x2e) = false ∧ (c == 0x65 || c == 0x45) = false) := by
  rcases h with rfl | ⟨c, tl, rfl, hc⟩
  · exact ⟨.inl rfl, .inl rfl⟩
  · rcases hc with rfl | rfl | rfl | rfl | hw
    · exact ⟨.inr ⟨_, _, rfl, by decide⟩, .inr ⟨_, _, rfl, by decide, by decide⟩⟩
    · exact ⟨.inr ⟨_, _, rfl, by decide⟩, .inr ⟨_, _, rfl, by decide, by decide⟩⟩
    · exact ⟨.inr ⟨_, _, rfl, by decide⟩, .inr ⟨_, _, rfl, by decide, by decide⟩⟩
    · exact ⟨.inr ⟨_, _, rfl, by decide⟩, .inr ⟨_, _, rfl, by decide, by decide⟩⟩
    · rcases isWs_cases hw with rfl | rfl | rfl | rfl <;>
        exact ⟨.inr ⟨_, _, rfl, by decide⟩, .inr ⟨_, _, rfl, by decide, by decide⟩⟩

section
variable {env : Env} (hflt : env.flt = false)
include hflt

omit hext in
theorem scanAfterInt_term (neg : Bool) (int rest : Bytes) (pos : Nat) (hs : SepOK rest) :
    scanAfterInt env neg int rest pos = .ok (mkParts neg int none none) rest pos := by
  rcases (sep_facts hs).2 with rfl | ⟨c, tl, rfl, h1, h2⟩
  · simp [scanAfterInt, hflt]
  · simp [scanAfterInt, h1, h2]

omit hext in
/-- `parse_integer` on the digits `itoa` prints, followed by a separator -/
theorem scanInteger_natDigits (neg : Bool) (n : Nat) (rest : Bytes) (pos : Nat) (hs : SepOK rest) :
    scanInteger env neg (natDigits n ++ rest) pos = .ok (mkParts neg (natDigits n) none none) rest (pos + (natDigits n).length) := by
  obtain ⟨c, tl, hn, hc, htl, h0⟩ := natDigits_shape n
  rw [hn]
  simp only [List.cons_append, scanInteger]
  by_cases hz : (c == 0x30) = true
  · have : tl = [] := h0 (by simpa using hz)
    subst this
    simp only [if_pos hz, List.nil_append]
    rcases (sep_facts hs).1 with rfl | ⟨d, tl', rfl, hd⟩
    · simp only [scanAfterInt_term hflt neg [c] [] (pos + 1) hs, List.length_singleton]
    · simp only [hd, Bool.false_eq_true, if_false, scanAfterInt_term hflt neg [c] _ (pos + 1) hs, List.length_singleton]
  · simp only [if_neg hz, hc, if_true]
    rw [digitsOf_term tl rest htl (sep_facts hs).1]
    simp only [scanAfterInt_term hflt neg (c :: tl) rest _ hs, List.length_cons]
    congr 1; omega

omit hext in
theorem scanInteger128_natDigits (n : Nat) (rest : Bytes) (pos : Nat) (hs : SepOK rest) :
    scanInteger128 env (natDigits n ++ rest) pos = .ok (natDigits n) rest (pos + (natDigits n).length) := by
  obtain ⟨c, tl, hn, hc, htl, h0⟩ := natDigits_shape n
  rw [hn]
  simp only [List.cons_append, scanInteger128]
  by_cases hz : (c == 0x30) = true
  · have : tl = [] := h0 (by simpa using hz)
    subst this
    simp only [if_pos hz, List.nil_append]
    rcases (sep_facts hs).1 with rfl | ⟨d, tl', rfl, hd⟩
    · simp [hflt]
    · simp [hd]
  · simp only [if_neg hz, hc, if_true]
    have key : ∀ (ds acc : Bytes) (p : Nat), IsDigits ds →
        scanDigits env acc (ds ++ rest) p = .ok (acc.reverse ++ ds) rest (p + ds.length) := by
      intro ds
      induction ds with
      | nil =>
        intro acc p _
        rcases (sep_facts hs).1 with rfl | ⟨d, tl', rfl, hd⟩
        · simp [scanDigits, hflt]
        · simp [scanDigits, hd]
      | cons x xs ih =>
        intro acc p hd
        have hx : Machine.isDigit x = true := (isDigit_iff x).2 (hd x (by simp))
        simp only [List.cons_append, scanDigits, hx, if_true]
        rw [ih (x :: acc) (p + 1) (fun c hc => hd c (by simp [hc]))]
        simp only [List.reverse_cons, List.append_assoc, List.singleton_append, List.length_cons]
        congr 1; omega
    rw [key tl [c] (pos + 1) htl]
    simp only [List.reverse_cons, List.reverse_nil, List.nil_append, List.singleton_append, List.length_cons]
    congr 1; omega

end

/-! ## agreement on printed values, leaf targets -/

/-- numbers of the text leg: an integer of any size (`PosInt` / a negative `NegInt`: the typed integer targets include
    the 128-bit ones, whose values a `Value` cannot hold but a typed value can) or a finite float; no literal
    (`arbitrary_precision`) -/
def wfNumW : Num → Bool
  | .pos _ => true
  | .neg i => decide (i < 0)
  | .float b => Spec.Program.finite64 b
  | .lit _ => false

mutual
/-- `Spec.WF.shapeOK {}` without the condition on the order of the keys (the text leg reads members in the order
    they are written, and so does `from_value`): numbers as `Number` holds them without `arbitrary_precision`,
    strings and keys valid UTF-8 -/
def shapeW : JV → Bool
  | .num n => wfNumW n
  | .str s => Spec.Utf8.validUtf8 s
  | .arr xs => shapeWs xs
  | .obj kvs => shapeWm kvs
  | _ => true
def shapeWs : List JV → Bool
  | [] => true
  | x :: xs => shapeW x && shapeWs xs
def shapeWm : List (Bytes × JV) → Bool
  | [] => true
  | (k, x) :: kvs => Spec.Utf8.validUtf8 k && shapeW x && shapeWm kvs
end

omit hext in
mutual
theorem shapeW_of_shapeOK (c : Spec.Canon.Cfg) (hc : c.ap = false) : ∀ v : JV, Spec.WF.shapeOK c v = true → shapeW v = true
  | .null, _ | .bool _, _ => rfl
  | .num n, h => by
    cases n <;> simp_all [shapeW, wfNumW, Spec.WF.shapeOK, Spec.WF.wfNum]
  | .str s, h => by simpa [shapeW, Spec.WF.shapeOK] using h
  | .arr xs, h => by
    simp only [shapeW, Spec.WF.shapeOK] at h ⊢
    exact shapeWs_of_shapeOKs c hc xs h
  | .obj kvs, h => by
    simp only [shapeW, Spec.WF.shapeOK, Bool.and_eq_true] at h ⊢
    exact shapeWm_of_shapeOKm c hc kvs h.2
theorem shapeWs_of_shapeOKs (c : Spec.Canon.Cfg) (hc : c.ap = false) : ∀ xs : List JV, Spec.WF.shapeOKs c xs = true → shapeWs xs = true
  | [], _ => rfl
  | x :: xs, h => by
    simp only [shapeWs, Spec.WF.shapeOKs, Bool.and_eq_true] at h ⊢
    exact ⟨shapeW_of_shapeOK c hc x h.1, shapeWs_of_shapeOKs c hc xs h.2⟩
theorem shapeWm_of_shapeOKm (c : Spec.Canon.Cfg) (hc : c.ap = false) : ∀ kvs : List (Bytes × JV), Spec.WF.shapeOKm c kvs = true → shapeWm kvs = true
  | [], _ => rfl
  | (k, x) :: kvs, h => by
    simp only [shapeWm, Spec.WF.shapeOKm, Bool.and_eq_true] at h ⊢
    exact ⟨⟨h.1.1, shapeW_of_shapeOK c hc x h.1.2⟩, shapeWm_of_shapeOKm c hc kvs h.2⟩
end

/-- the values of the claim: representable without `arbitrary_precision` (integers of any size, finite floats, no literal),
    strings and keys valid UTF-8. What the text leg needs about the FLOATS of a value (`ryu`'s text is read back as the
    float: `Spec.WF.floatsRT`) is a separate hypothesis of the lemmas that read a number (`agree_int`, `agree_f64`,
    `agree_bytes`, `agree_any`). -/
def VOK (v : JV) : Prop := shapeW v = true

mutual
/-- the values an `arbitrary_precision` build holds: every number is its literal text, an RFC 8259 number
    (`Spec.WF.shapeOK` with `ap = true`, without the condition on the order of the keys) -/
def shapeA : JV → Bool
  | .num (.lit s) => Spec.Number.isNumber s
  | .num _ => false
  | .str s => Spec.Utf8.validUtf8 s
  | .arr xs => shapeAs xs
  | .obj kvs => shapeAm kvs
  | _ => true
def shapeAs : List JV → Bool
  | [] => true
  | x :: xs => shapeA x && shapeAs xs
def shapeAm : List (Bytes × JV) → Bool
  | [] => true
  | (k, x) :: kvs => Spec.Utf8.validUtf8 k && shapeA x && shapeAm kvs
end

/-- the values of an `arbitrary_precision` build -/
def VOKa (v : JV) : Prop := shapeA v = true

/-- the values of either build: what the lemmas that do not read a number need (the first byte of the text tells the kind,
    strings and keys are valid UTF-8, closed under elements and members) -/
def VOKg (v : JV) : Prop := VOK v ∨ VOKa v

omit hext in
mutual
theorem shapeA_of_shapeOK (c : Spec.Canon.Cfg) (hc : c.ap = true) : ∀ v : JV, Spec.WF.shapeOK c v = true → shapeA v = true
  | .null, _ | .bool _, _ => rfl
  | .num n, h => by
    cases n <;> simp_all [shapeA, Spec.WF.shapeOK, Spec.WF.wfNum]
  | .str s, h => by simpa [shapeA, Spec.WF.shapeOK] using h
  | .arr xs, h => by
    simp only [shapeA, Spec.WF.shapeOK] at h ⊢
    exact shapeAs_of_shapeOKs c hc xs h
  | .obj kvs, h => by
    simp only [shapeA, Spec.WF.shapeOK, Bool.and_eq_true] at h ⊢
    exact shapeAm_of_shapeOKm c hc kvs h.2
theorem shapeAs_of_shapeOKs (c : Spec.Canon.Cfg) (hc : c.ap = true) : ∀ xs : List JV, Spec.WF.shapeOKs c xs = true → shapeAs xs = true
  | [], _ => rfl
  | x :: xs, h => by
    simp only [shapeAs, Spec.WF.shapeOKs, Bool.and_eq_true] at h ⊢
    exact ⟨shapeA_of_shapeOK c hc x h.1, shapeAs_of_shapeOKs c hc xs h.2⟩
theorem shapeAm_of_shapeOKm (c : Spec.Canon.Cfg) (hc : c.ap = true) : ∀ kvs : List (Bytes × JV), Spec.WF.shapeOKm c kvs = true → shapeAm kvs = true
  | [], _ => rfl
  | (k, x) :: kvs, h => by
    simp only [shapeAm, Spec.WF.shapeOKm, Bool.and_eq_true] at h ⊢
    exact ⟨⟨h.1.1, shapeA_of_shapeOK c hc x h.1.2⟩, shapeAm_of_shapeOKm c hc kvs h.2⟩
end

/-- a typed parser `de` on the text `txt` (followed by a separator) against the verdict `fv` of the `Value` side -/
def Agree1 (de : Bytes → Nat → TOut) (fv : FromValue.R) (txt : Bytes) : Prop := ∀ rest pos, SepOK rest →
  match fv with
  | .ok tv => de (txt ++ rest) pos = .ok tv rest (pos + txt.length)
  | .error _ => ∀ x r p, de (txt ++ rest) pos ≠ .ok x r p

omit hext in
/-- the unread input starts with the byte that follows the integer part of a number written with a fraction or an
    exponent (`.`, `e`, `E`): what a 128-bit integer target leaves behind on the text of a float (`scan_integer128` stops
    at the first non-digit; the rejection is left to the caller) -/
def BadHead (r : Bytes) : Prop := ∃ c tl, r = c :: tl ∧ (c = 0x2e ∨ c = 0x65 ∨ c = 0x45)

omit hext in
/-- `Agree1` with the failure branch weakened to what the 128-bit integer targets satisfy: when the `Value` side fails the
    typed parser does not return `ok` — or returns it with the unread input at `.` / `e` / `E` inside the number, which every
    caller (the next `,` / `]` / `}` test of a container, `end()` at top level) rejects. Container lemmas take this of their
    elements and still conclude the strong `Agree1`; `Option` and newtype pass it through. -/
def Agree1w (de : Bytes → Nat → TOut) (fv : FromValue.R) (txt : Bytes) : Prop := ∀ rest pos, SepOK rest →
  match fv with
  | .ok tv => de (txt ++ rest) pos = .ok tv rest (pos + txt.length)
  | .error _ => ∀ x r p, de (txt ++ rest) pos = .ok x r p → BadHead r

omit hext in
theorem Agree1.weak {de : Bytes → Nat → TOut} {fv : FromValue.R} {txt : Bytes} (h : Agree1 de fv txt) : Agree1w de fv txt := by
  intro rest pos hs
  have := h rest pos hs
  cases fv with
  | ok tv => exact this
  | error e => exact fun x r p hx => absurd hx (this x r p)

omit hext in
theorem badHead_facts {r : Bytes} (h : BadHead r) : ∃ c tl, r = c :: tl ∧ Machine.isWs c = false ∧ (c == 0x5d) = false ∧
    (c == 0x2c) = false ∧ (c == 0x7d) = false := by
  obtain ⟨c, tl, rfl, rfl | rfl | rfl⟩ := h <;> exact ⟨_, _, rfl, by decide, by decide, by decide, by decide⟩

omit hext in
/-- a continuation that fails on such an input makes the whole `bind` fail -/
theorem bind_bad {α β : Type} {r : Res α} {k : α → Bytes → Nat → Res β}
    (h : ∀ x r' p, r = .ok x r' p → BadHead r') (hk : ∀ x r' p, BadHead r' → ∀ y r'' p', k x r' p ≠ .ok y r'' p') :
    ∀ y r'' p', r.bind k ≠ .ok y r'' p' := by
  intro y r'' p'
  cases hr : r with
  | ok x r' p => simp only [Res.bind]; exact hk x r' p (h x r' p hr) y r'' p'
  | _ => simp [Res.bind]

omit hext in
theorem map_bad {α β : Type} {r : Res α} {f : α → β} (h : ∀ x r' p, r = .ok x r' p → BadHead r') :
    ∀ y r' p, r.map f = .ok y r' p → BadHead r' := by
  intro y r' p e
  cases hr : r with
  | ok x r1 p1 =>
    rw [hr] at e
    simp only [Res.map, Res.bind, Res.ok.injEq] at e
    exact e.2.1 ▸ h x r1 p1 hr
  | _ => rw [hr] at e; simp [Res.map, Res.bind] at e

/-- the first byte of a printed value tells its kind (and is never whitespace or `]`) -/
def HeadOf (v : JV) (c : UInt8) : Prop :=
  match v with
  | .null => c = 0x6e
  | .bool true => c = 0x74
  | .bool false => c = 0x66
  | .num (.pos _) => Machine.isDigit c = true
  | .num (.neg _) => c = 0x2d
  | .num (.float _) => isNumStart c = true
  | .num (.lit _) => isNumStart c = true
  | .str _ => c = 0x22
  | .arr _ => c = 0x5b
  | .obj _ => c = 0x7b

omit hext in
/-- a finite float is printed by `ryu` -/
theorem T_float (b : UInt64) (hb : Spec.Program.finite64 b = true) : T ext (.num (.float b)) = ext.ryu64 b := by
  simp only [T, render, imageOfValue, hb, if_true, Spec.Image.numOf, layoutWith]
  rw [SJ.Proofs.Number.splitNumber_bytes]

omit hext in
/-- an RFC 8259 number starts with `-` or a digit -/
theorem isNumber_head (bs : Bytes) (h : Spec.Grammar.IsNumber bs) : ∃ c tl, bs = c :: tl ∧ isNumStart c = true := by
  obtain ⟨p, hp, rfl⟩ := h
  simp only [Spec.Grammar.NumParts.WF, Bool.and_eq_true] at hp
  have hi := hp.1.1
  cases hm : p.minus with
  | true => exact ⟨0x2d, p.int ++ p.frac ++ p.exp, by simp [Spec.Grammar.NumParts.bytes, hm], by decide⟩
  | false =>
    cases hint : p.int with
    | nil => rw [hint] at hi; simp [Spec.Grammar.isInt] at hi
    | cons d ds =>
      refine ⟨d, ds ++ p.frac ++ p.exp, by simp [Spec.Grammar.NumParts.bytes, hm, hint], ?_⟩
      rw [hint] at hi
      have hd : Machine.isDigit d = true := by
        cases ds with
        | nil =>
          have : Spec.Grammar.isDigit d = true := by simpa [Spec.Grammar.isInt] using hi
          exact this
        | cons e es =>
          simp only [Spec.Grammar.isInt, Bool.and_eq_true] at hi
          have h19 := hi.1
          simp only [Spec.Grammar.isDigit19, Bool.and_eq_true, decide_eq_true_eq] at h19
          simp only [Machine.isDigit, Bool.and_eq_true, decide_eq_true_eq]
          refine ⟨?_, h19.2⟩
          have := UInt8.le_iff_toNat_le.1 h19.1
          apply UInt8.le_iff_toNat_le.2
          change 49 ≤ d.toNat at this
          change 48 ≤ d.toNat
          omega
      simp [isNumStart, hd]

theorem T_head (v : JV) (hv : VOK v) : ∃ c tl, T ext v = c :: tl ∧ HeadOf v c := by
  cases v with
  | null => exact ⟨_, _, T_null ext, rfl⟩
  | bool b => cases b <;> exact ⟨_, _, rfl, rfl⟩
  | num n =>
    cases n with
    | pos n => obtain ⟨c, tl, h, hc, _⟩ := natDigits_shape n; exact ⟨c, tl, by rw [T_pos ext hext, h], hc⟩
    | neg i =>
      have hi : i < 0 := by have := hv; simp [VOK, shapeW, wfNumW] at this; exact this
      exact ⟨_, _, T_neg ext hext i hi, rfl⟩
    | float b =>
      have hb : Spec.Program.finite64 b = true := by have := hv; simpa [VOK, shapeW, wfNumW] using this
      obtain ⟨c, tl, h, hc⟩ := isNumber_head _ (hext.ryu64_number b hb)
      exact ⟨c, tl, by rw [T_float ext b hb, h], hc⟩
    | lit s => have := hv; simp [VOK, shapeW, wfNumW] at this
  | str s => obtain ⟨tl, h⟩ := T_str ext s; exact ⟨_, tl, h, rfl⟩
  | arr xs => exact ⟨_, _, T_arr ext xs, rfl⟩
  | obj kvs => obtain ⟨tl, h⟩ := T_obj ext kvs; exact ⟨_, tl, h, rfl⟩

omit hext in
/-- a literal is printed verbatim -/
theorem T_numLit (r : Bytes) : T ext (.num (.lit r)) = r := by
  simp only [T, render, imageOfValue, Spec.Image.numOf, layoutWith]
  exact SJ.Proofs.Number.splitNumber_bytes r

omit hext in
theorem VOK.g {v : JV} (h : VOK v) : VOKg v := .inl h
omit hext in
theorem VOKa.g {v : JV} (h : VOKa v) : VOKg v := .inr h

omit hext in
/-- the literal of an `arbitrary_precision` value is an RFC 8259 number -/
theorem voka_lit {s : Bytes} (h : VOKa (.num (.lit s))) : Spec.Grammar.IsNumber s :=
  (SJ.Proofs.Number.isNumber_iff s).1 (by simpa [VOKa, shapeA] using h)

omit hext in
theorem vokg_lit {s : Bytes} (h : VOKg (.num (.lit s))) : Spec.Grammar.IsNumber s := by
  rcases h with h | h
  · simp [VOK, shapeW, wfNumW] at h
  · exact voka_lit h

theorem T_head_g (v : JV) (hv : VOKg v) : ∃ c tl, T ext v = c :: tl ∧ HeadOf v c := by
  rcases hv with hv | hv
  · exact T_head ext hext v hv
  · cases v with
    | null => exact ⟨_, _, T_null ext, rfl⟩
    | bool b => cases b <;> exact ⟨_, _, rfl, rfl⟩
    | num n =>
      cases n with
      | lit s =>
        obtain ⟨c, tl, h, hc⟩ := isNumber_head _ (voka_lit hv)
        exact ⟨c, tl, by rw [T_numLit, h], hc⟩
      | pos _ => simp [VOKa, shapeA] at hv
      | neg _ => simp [VOKa, shapeA] at hv
      | float _ => simp [VOKa, shapeA] at hv
    | str s => obtain ⟨tl, h⟩ := T_str ext s; exact ⟨_, tl, h, rfl⟩
    | arr xs => exact ⟨_, _, T_arr ext xs, rfl⟩
    | obj kvs => obtain ⟨tl, h⟩ := T_obj ext kvs; exact ⟨_, tl, h, rfl⟩

omit hext in
/-- strings are valid UTF-8 in either build -/
theorem vokg_str {s : Bytes} (h : VOKg (.str s)) : Spec.Utf8.validUtf8 s = true := by
  rcases h with h | h
  · simpa [VOK, shapeW] using h
  · simpa [VOKa, shapeA] using h

omit hext in
/-- `-` or a digit is none of the bytes the entry points dispatch on -/
theorem numStart_facts {c : UInt8} (h : isNumStart c = true) :
    Machine.isWs c = false ∧ (c == 0x6e) = false ∧ (c == 0x74) = false ∧ (c == 0x66) = false ∧ (c == 0x5d) = false ∧
    (c == 0x2c) = false ∧ (c == 0x22) = false ∧ (c == 0x5b) = false ∧ (c == 0x7b) = false := by
  unfold isNumStart at h
  simp only [Bool.or_eq_true, beq_iff_eq] at h
  rcases h with rfl | h
  · decide
  · have hf := digit_facts h
    refine ⟨isDigit_not_ws h, hf.2.1, hf.2.2.1, hf.2.2.2.1, hf.2.2.2.2.1, ?_, hf.2.2.2.2.2.2.2.1, hf.2.2.2.2.2.2.2.2.1, hf.2.2.2.2.2.2.2.2.2⟩
    have := (isDigit_iff c).1 h
    have h1 := UInt8.le_iff_toNat_le.1 this.1
    change 48 ≤ c.toNat at h1
    simp only [beq_eq_false_iff_ne, ne_eq]
    intro e; subst e; simp at h1

omit hext in
/-- facts about the head byte, for the dispatch of each entry point -/
theorem headOf_facts {v : JV} {c : UInt8} (h : HeadOf v c) : Machine.isWs c = false ∧ (c == 0x5d) = false ∧ (c == 0x2c) = false := by
  cases v with
  | null => cases h; decide
  | bool b => cases b <;> (cases h; decide)
  | num n =>
    cases n with
    | pos n =>
      refine ⟨isDigit_not_ws h, (digit_facts h).2.2.2.2.1, ?_⟩
      have := (isDigit_iff c).1 h
      have h1 := UInt8.le_iff_toNat_le.1 this.1
      change 48 ≤ c.toNat at h1
      simp only [beq_eq_false_iff_ne, ne_eq]
      intro e; subst e; simp at h1
    | neg i => cases h; decide
    | float b => have hf := numStart_facts h; exact ⟨hf.1, hf.2.2.2.2.1, hf.2.2.2.2.2.1⟩
    | lit s => have hf := numStart_facts h; exact ⟨hf.1, hf.2.2.2.2.1, hf.2.2.2.2.2.1⟩
  | str s => cases h; decide
  | arr xs => cases h; decide
  | obj kvs => cases h; decide

omit hext in
theorem headOf_tests {v : JV} {c : UInt8} (h : HeadOf v c) :
    (c == 0x6e) = (match v with | .null => true | _ => false) ∧
    (c == 0x74) = (match v with | .bool true => true | _ => false) ∧
    (c == 0x66) = (match v with | .bool false => true | _ => false) ∧
    isNumStart c = (match v with | .num _ => true | _ => false) ∧
    (c == 0x2d) = (match v with | .num (.neg _) => true | .num (.float _) => c == 0x2d | .num (.lit _) => c == 0x2d | _ => false) ∧
    Machine.isDigit c = (match v with | .num (.pos _) => true | .num (.float _) => Machine.isDigit c | .num (.lit _) => Machine.isDigit c | _ => false) ∧
    (c == 0x5b) = (match v with | .arr _ => true | _ => false) ∧
    (c == 0x7b) = (match v with | .obj _ => true | _ => false) ∧
    (c == 0x22) = (match v with | .str _ => true | _ => false) := by
  cases v with
  | null => cases h; decide
  | bool b => cases b <;> (cases h; decide)
  | num n =>
    cases n with
    | pos n =>
      have hf := digit_facts h
      simp only [HeadOf] at h
      simp [isNumStart, h, hf.1, hf.2.1, hf.2.2.1, hf.2.2.2.1, hf.2.2.2.2.2.2.2.1, hf.2.2.2.2.2.2.2.2.1, hf.2.2.2.2.2.2.2.2.2]
    | neg i => cases h; simp [isNumStart, Machine.isDigit]
    | float b =>
      have hf := numStart_facts h
      simp only [HeadOf] at h
      simp [h, hf.2.1, hf.2.2.1, hf.2.2.2.1, hf.2.2.2.2.2.2.1, hf.2.2.2.2.2.2.2.1, hf.2.2.2.2.2.2.2.2]
    | lit s =>
      have hf := numStart_facts h
      simp only [HeadOf] at h
      simp [h, hf.2.1, hf.2.2.1, hf.2.2.2.1, hf.2.2.2.2.2.2.1, hf.2.2.2.2.2.2.2.1, hf.2.2.2.2.2.2.2.2]
  | str s => cases h; simp [isNumStart, Machine.isDigit]
  | arr xs => cases h; simp [isNumStart, Machine.isDigit]
  | obj kvs => cases h; simp [isNumStart, Machine.isDigit]

omit hext in
theorem visitInt_eq (w : IntTy) (x : Int) : FromValue.visitInt w x = if w.inRange x then .ok (.int x) else FromValue.fail := rfl

omit hext in
/-- the conversion of the digits `itoa` prints for a `PosInt` / `NegInt` -/
theorem parserNumber_pos (env : Env) (n : Nat) (hn : n < 2 ^ 64) : parserNumber env (mkParts false (natDigits n) none none) = some (.pos n) := by
  have hic : intClass (mkParts false (natDigits n) none none) = some (.u64 n) := by
    simp [intClass, mkParts, SJ.Proofs.RoundTripNum.natOfDigits_natDigits, hn]
  have := conv_of_intClass_some env _ (SJ.Proofs.RoundTripNum.isDigits_natDigits n) _ hic
  rw [parserNumber_eq, this]

omit hext in
theorem parserNumber_neg (env : Env) (m : Nat) (h0 : 0 < m) (hm : m ≤ 2 ^ 63) :
    parserNumber env (mkParts true (natDigits m) none none) = some (.neg (-(m : Int))) := by
  have hic : intClass (mkParts true (natDigits m) none none) = some (.i64 (-(m : Int))) := by
    have : (m == 0) = false := by simp; omega
    simp [intClass, mkParts, SJ.Proofs.RoundTripNum.natOfDigits_natDigits, this, hm]
  have := conv_of_intClass_some env _ (SJ.Proofs.RoundTripNum.isDigits_natDigits m) _ hic
  rw [parserNumber_eq, this]

omit hext in
/-- a literal that the parser does not class as `U64` / `I64` never satisfies an integer visitor -/
theorem visit_notInt (env : Env) (w : IntTy) (parts : Parts) (rest' : Bytes) (pos' : Nat) (h : NotInt (conv env parts)) :
    ∀ x r p, (match parserNumber env parts with
      | some n => fixPos env true (ofVisit (visitNumber (.int w) n) rest' pos')
      | none => (.err .NumberOutOfRange (peekErrorIdx rest' pos') : TOut)) ≠ .ok x r p := by
  intro x r p
  rw [parserNumber_eq]
  cases hc : conv env parts with
  | u64 k => exact absurd hc (h.1 k)
  | i64 k => exact absurd hc (h.2 k)
  | f64 b => simp [visitNumber, FromValue.numberInt, ofVisit, fixPos, FromValue.fail]
  | outOfRange => simp
  | outOfFuel => simp

omit hext in
theorem small_of_inRange (w : IntTy) (h128 : ¬ is128 w = true) (x : Int) (hr : w.inRange x = true) :
    -(2 ^ 63 : Int) ≤ x ∧ x < 2 ^ 64 := by
  cases w <;> simp [is128, IntTy.bits] at h128 <;>
    (simp [IntTy.inRange, IntTy.lo, IntTy.hi, IntTy.signed, IntTy.bits] at hr; omega)

section
variable {env : Env} (hflt : env.flt = false) (cfg' : FromValue.Cfg) (hap : cfg'.ap = false) (ext' : FromValue.Ext)
include hflt

theorem agree_bool_g (v : JV) (hv : VOKg v) : Agree1 (deBool env) (FromValue.fromValue cfg' ext' .bool v) (T ext v) := by
  intro rest pos hs
  obtain ⟨c, tl, hT, hc⟩ := T_head_g ext hext v hv
  have hw := (headOf_facts hc).1
  cases v with
  | bool b =>
    cases b with
    | true =>
      simp only [FromValue.fromValue, T_true]
      show deBool env (0x74 :: ([0x72, 0x75, 0x65] ++ rest)) pos = _
      unfold deBool
      rw [withPeek_cons env _ (by decide)]
      simp only [beq_self_eq_true, if_true]
      have := parseIdent_exact env Gen.identTrue rest (pos + 1)
      show (parseIdent env Gen.identTrue (Gen.identTrue ++ rest) (pos + 1)).bind _ = _
      rw [this]
      simp [Res.bind, Gen.identTrue]
    | false =>
      simp only [FromValue.fromValue, T_false]
      show deBool env (0x66 :: ([0x61, 0x6c, 0x73, 0x65] ++ rest)) pos = _
      unfold deBool
      rw [withPeek_cons env _ (by decide)]
      have := parseIdent_exact env Gen.identFalse rest (pos + 1)
      simp only [show ((0x66 : UInt8) == 0x74) = false by decide, Bool.false_eq_true, if_false, beq_self_eq_true, if_true]
      show (parseIdent env Gen.identFalse (Gen.identFalse ++ rest) (pos + 1)).bind _ = _
      rw [this]
      simp [Res.bind, Gen.identFalse]
  | null | str _ | arr _ | obj _ =>
    simp only [FromValue.fromValue, FromValue.fail]
    intro x r p
    rw [hT]
    simp only [List.cons_append]
    unfold deBool
    rw [withPeek_cons env _ hw]
    cases hc
    simp only [show ∀ a b : UInt8, (a == b) = decide (a = b) from fun _ _ => rfl]
    simp
    exact peekInvalidType_not_ok _ _ _ _ _ _
  | num n =>
    simp only [FromValue.fromValue, FromValue.fail]
    intro x r p
    rw [hT]
    simp only [List.cons_append]
    unfold deBool
    rw [withPeek_cons env _ hw]
    cases n with
    | pos n =>
      have hf := digit_facts hc
      simp only [hf.2.2.1, hf.2.2.2.1, Bool.false_eq_true, if_false]
      exact peekInvalidType_not_ok _ _ _ _ _ _
    | neg i =>
      cases hc
      simp only [show ((0x2d : UInt8) == 0x74) = false by decide, show ((0x2d : UInt8) == 0x66) = false by decide, Bool.false_eq_true, if_false]
      exact peekInvalidType_not_ok _ _ _ _ _ _
    | float b =>
      have hf := numStart_facts hc
      simp only [hf.2.2.1, hf.2.2.2.1, Bool.false_eq_true, if_false]
      exact peekInvalidType_not_ok _ _ _ _ _ _
    | lit s =>
      have hf := numStart_facts hc
      simp only [hf.2.2.1, hf.2.2.2.1, Bool.false_eq_true, if_false]
      exact peekInvalidType_not_ok _ _ _ _ _ _

include hap in
theorem agree_bool (v : JV) (hv : VOK v) : Agree1 (deBool env) (FromValue.fromValue cfg' ext' .bool v) (T ext v) :=
  agree_bool_g ext hext hflt cfg' ext' v hv.g

theorem agree_unit_g (v : JV) (hv : VOKg v) : Agree1 (deUnit env) (FromValue.fromValue cfg' ext' .unit v) (T ext v) := by
  intro rest pos hs
  obtain ⟨c, tl, hT, hc⟩ := T_head_g ext hext v hv
  have hw := (headOf_facts hc).1
  have ht := headOf_tests hc
  cases v with
  | null =>
    simp only [FromValue.fromValue, T_null]
    show deUnit env (0x6e :: ([0x75, 0x6c, 0x6c] ++ rest)) pos = _
    unfold deUnit
    rw [withPeek_cons env _ (by decide)]
    simp only [beq_self_eq_true, if_true]
    have := parseIdent_exact env Gen.identNull rest (pos + 1)
    show (parseIdent env Gen.identNull (Gen.identNull ++ rest) (pos + 1)).bind _ = _
    rw [this]
    simp [Res.bind, Gen.identNull]
  | bool _ | str _ | arr _ | obj _ | num _ =>
    simp only [FromValue.fromValue, FromValue.fail]
    intro x r p
    rw [hT]
    simp only [List.cons_append]
    unfold deUnit
    rw [withPeek_cons env _ hw]
    simp only [ht.1, Bool.false_eq_true, if_false]
    exact peekInvalidType_not_ok _ _ _ _ _ _

include hap in
theorem agree_unit (v : JV) (hv : VOK v) : Agree1 (deUnit env) (FromValue.fromValue cfg' ext' .unit v) (T ext v) :=
  agree_unit_g ext hext hflt cfg' ext' v hv.g

include hap in
/-- integer targets. `hfl`: a float is refused by the typed side too — which is the case when `ryu`'s text is read back
    as the float (`Spec.WF.floatRT`) and the target is not a 128-bit one (`SJ.Proofs.TypedFloat.int_float_refused`; the
    128-bit scanners take the integer prefix of `1.5` and leave the rejection to the caller) -/
theorem agree_int (w : IntTy) (v : JV) (hv : VOK v)
    (hfl : ∀ b, v = .num (.float b) → ∀ rest pos, SepOK rest → ∀ x r p, deInt env w (T ext v ++ rest) pos ≠ .ok x r p) :
    Agree1 (deInt env w) (FromValue.fromValue cfg' ext' (.int w) v) (T ext v) := by
  intro rest pos hs
  obtain ⟨c, tl, hT, hc⟩ := T_head ext hext v hv
  have hw := (headOf_facts hc).1
  have ht := headOf_tests hc
  have hfr : (env.cfg.fr && (NumTy.int w == NumTy.f32)) = false := by
    have : (NumTy.int w == NumTy.f32) = false := by show decide (NumTy.int w = NumTy.f32) = false; simp
    rw [this]; simp
  cases v with
  | num n =>
    cases n with
    | pos n =>
      simp only [FromValue.fromValue, FromValue.deInt, FromValue.numberInt, hap, Bool.false_eq_true, if_false, visitInt_eq]
      rw [T_pos ext hext] at hT ⊢
      -- what the typed side computes
      have key : ∃ e : TOut, (∀ x r p, e ≠ .ok x r p) ∧ deInt env w (natDigits n ++ rest) pos =
          if w.inRange (n : Int) then .ok (.int n) rest (pos + (natDigits n).length) else e := by
        unfold deInt
        split
        · rw [hT]
          simp only [List.cons_append]
          unfold deInt128
          rw [withPeek_cons env _ hw]
          simp only [ht.2.2.2.2.1, Bool.false_eq_true, if_false]
          rw [show c :: (tl ++ rest) = natDigits n ++ rest by rw [hT]; rfl]
          rw [scanInteger128_natDigits hflt n rest pos hs]
          simp only [Res.bind]
          have := parse128 w false (fun h => by cases h) (natDigits n) (SJ.Proofs.RoundTripNum.isDigits_natDigits n)
            (by rw [hT]; simp)
          simp only [Bool.false_eq_true, if_false] at this
          rw [this, SJ.Proofs.RoundTripNum.natOfDigits_natDigits, ← hT]
          refine ⟨.err .NumberOutOfRange (errorIdx env rest (pos + (natDigits n).length) true), by simp, ?_⟩
          simp only [FromValue.rangeChecked]
          by_cases hr : w.inRange (n : Int) = true <;> simp [hr]
        · rename_i h128
          rw [hT]
          simp only [List.cons_append]
          unfold deNumber
          rw [withPeek_cons env _ hw]
          simp only [ht.2.2.2.1, if_true]
          unfold scanNumber
          simp only [ht.2.2.2.2.1, Bool.false_eq_true, if_false]
          rw [show c :: (tl ++ rest) = natDigits n ++ rest by rw [hT]; rfl]
          rw [scanInteger_natDigits hflt false n rest pos hs]
          simp only [Res.bind, hfr, Bool.false_eq_true, if_false]
          by_cases hn : n < 2 ^ 64
          · simp only [parserNumber_pos env n hn, visitNumber, FromValue.numberInt, visitInt_eq, ← hT]
            refine ⟨.data (errorIdx env rest (pos + (natDigits n).length) true), by simp, ?_⟩
            by_cases hr : w.inRange (n : Int) = true <;> simp [hr, ofVisit, fixPos, FromValue.fail]
          · have hr : w.inRange (n : Int) = false := by
              cases hr' : w.inRange (n : Int) with
              | false => rfl
              | true => have := (small_of_inRange w h128 _ hr').2; omega
            have hni : NotInt (conv env (mkParts false (natDigits n) none none)) :=
              conv_of_intClass_none env _ rfl rfl (SJ.Proofs.RoundTripNum.isDigits_natDigits n) (by
                simp [intClass, mkParts, SJ.Proofs.RoundTripNum.natOfDigits_natDigits, hn])
            refine ⟨_, visit_notInt env w _ rest (pos + (natDigits n).length) hni, ?_⟩
            simp only [hr, Bool.false_eq_true, if_false]
            rfl
      obtain ⟨e, he, hk⟩ := key
      by_cases hr : w.inRange (n : Int) = true
      · simp only [hr, if_true] at hk ⊢
        exact hk
      · simp only [hr, Bool.false_eq_true, if_false, FromValue.fail] at hk ⊢
        rw [hk]
        exact he
    | neg i =>
      have hi : i < 0 := by have := hv; simpa [VOK, shapeW, wfNumW] using this
      simp only [FromValue.fromValue, FromValue.deInt, FromValue.numberInt, hap, Bool.false_eq_true, if_false, visitInt_eq]
      have hT' := T_neg ext hext i hi
      rw [hT']
      have hmi : (-(i.natAbs : Int)) = i := by omega
      have key : ∃ e : TOut, (∀ x r p, e ≠ .ok x r p) ∧ deInt env w (0x2d :: natDigits i.natAbs ++ rest) pos =
          if w.inRange i then .ok (.int i) rest (pos + (0x2d :: natDigits i.natAbs).length) else e := by
        unfold deInt
        split
        · simp only [List.cons_append]
          unfold deInt128
          rw [withPeek_cons env _ (by decide)]
          simp only [beq_self_eq_true, if_true]
          by_cases hsg : w.signed = true
          · simp only [hsg, if_true]
            rw [scanInteger128_natDigits hflt i.natAbs rest (pos + 1) hs]
            simp only [Res.bind]
            have hnd := natDigits_shape i.natAbs
            have := parse128 w true (fun _ => hsg) (natDigits i.natAbs) (SJ.Proofs.RoundTripNum.isDigits_natDigits _)
              (by obtain ⟨c', tl', h', _⟩ := hnd; rw [h']; simp)
            simp only [if_true] at this
            rw [this, SJ.Proofs.RoundTripNum.natOfDigits_natDigits, hmi]
            refine ⟨.err .NumberOutOfRange (errorIdx env rest (pos + 1 + (natDigits i.natAbs).length) true), by simp, ?_⟩
            simp only [FromValue.rangeChecked, List.length_cons]
            by_cases hr : w.inRange i = true <;> simp [hr] <;> omega
          · simp only [hsg, Bool.false_eq_true, if_false]
            have : w.inRange i = false := by
              have hlo : w.lo = 0 := by simp [IntTy.lo, hsg]
              simp [IntTy.inRange, hlo]; omega
            exact ⟨.err .NumberOutOfRange (pos + 1), by simp, by simp [this]⟩
        · rename_i h128
          simp only [List.cons_append]
          unfold deNumber
          rw [withPeek_cons env _ (by decide)]
          simp only [show isNumStart 0x2d = true by decide, if_true]
          unfold scanNumber
          simp only [beq_self_eq_true, if_true]
          rw [scanInteger_natDigits hflt true i.natAbs rest (pos + 1) hs]
          simp only [Res.bind, hfr, Bool.false_eq_true, if_false]
          by_cases hsm : i.natAbs ≤ 2 ^ 63
          · have hpn := parserNumber_neg env i.natAbs (by omega) hsm
            rw [hmi] at hpn
            simp only [hpn, visitNumber, FromValue.numberInt, visitInt_eq, List.length_cons]
            refine ⟨.data (errorIdx env rest (pos + 1 + (natDigits i.natAbs).length) true), by simp, ?_⟩
            by_cases hr : w.inRange i = true <;> simp [hr, ofVisit, fixPos, FromValue.fail] <;> omega
          · have hr : w.inRange i = false := by
              cases hr' : w.inRange i with
              | false => rfl
              | true => have := (small_of_inRange w h128 _ hr').1; omega
            have hni : NotInt (conv env (mkParts true (natDigits i.natAbs) none none)) :=
              conv_of_intClass_none env _ rfl rfl (SJ.Proofs.RoundTripNum.isDigits_natDigits _) (by
                have h0 : (i.natAbs == 0) = false := by simp; omega
                simp [intClass, mkParts, SJ.Proofs.RoundTripNum.natOfDigits_natDigits, h0, hsm])
            refine ⟨_, visit_notInt env w _ rest (pos + 1 + (natDigits i.natAbs).length) hni, ?_⟩
            simp only [hr, Bool.false_eq_true, if_false]
            rfl
      obtain ⟨e, he, hk⟩ := key
      simp only [List.cons_append] at hk ⊢
      by_cases hr : w.inRange i = true
      · simp only [hr, if_true] at hk ⊢
        exact hk
      · simp only [hr, Bool.false_eq_true, if_false, FromValue.fail] at hk ⊢
        rw [hk]
        exact he
    | float b =>
      simp only [FromValue.fromValue, FromValue.deInt, FromValue.numberInt, hap, Bool.false_eq_true, if_false, FromValue.fail]
      exact hfl b rfl rest pos hs
    | lit s => have := hv; simp [VOK, shapeW, wfNumW] at this
  | null | bool _ | str _ | arr _ | obj _ =>
    simp only [FromValue.fromValue, FromValue.deInt, FromValue.fail]
    intro x r p
    rw [hT]
    simp only [List.cons_append]
    unfold deInt
    split
    · unfold deInt128
      rw [withPeek_cons env _ hw]
      simp only [ht.2.2.2.2.1, Bool.false_eq_true, if_false]
      unfold scanInteger128
      have h0 : (c == 0x30) = false := by
        cases hd : (c == 0x30) with
        | false => rfl
        | true =>
          have : c = 0x30 := by simpa using hd
          subst this
          have := ht.2.2.2.2.2.1
          simp [Machine.isDigit] at this
      simp only [h0, ht.2.2.2.2.2.1, Bool.false_eq_true, if_false, Res.bind]
      simp
    · unfold deNumber
      rw [withPeek_cons env _ hw]
      simp only [ht.2.2.2.1, Bool.false_eq_true, if_false]
      exact peekInvalidType_not_ok _ _ _ _ _ _

/-! ## containers -/

omit hflt hext in
theorem map_not_ok {α β : Type} {r : Res α} {f : α → β} (h : ∀ x r' p, r ≠ .ok x r' p) : ∀ y r' p, r.map f ≠ .ok y r' p :=
  bind_not_ok h

omit hext in
/-- `Option<T>`: `null` is `None`, anything else is `Some` of the inner target -/
theorem agree_option (s : Schema) (f t : Nat) (v : JV) (hv : VOKg v)
    (ih : v ≠ .null → Agree1 (deTyped env f t s) (FromValue.fromValue cfg' ext' s v) (T ext v)) (hT : ∃ c tl, T ext v = c :: tl ∧ HeadOf v c) :
    Agree1 (deTyped env (f + 1) t (.option s)) (FromValue.fromValue cfg' ext' (.option s) v) (T ext v) := by
  intro rest pos hs
  obtain ⟨c, tl, hT, hc⟩ := hT
  have hw := (headOf_facts hc).1
  have ht := headOf_tests hc
  rw [deTyped_option]
  cases v with
  | null =>
    simp only [FromValue.fromValue, T_null, List.cons_append, List.nil_append]
    rw [skipWs_cons (by decide)]
    simp only [beq_self_eq_true, if_true]
    have := parseIdent_exact env Gen.identNull rest (pos + 1)
    show (parseIdent env Gen.identNull (Gen.identNull ++ rest) (pos + 1)).bind _ = _
    rw [this]
    simp [Res.bind, Gen.identNull]
  | bool _ | num _ | str _ | arr _ | obj _ =>
    have ih' := ih (by intro h; cases h) rest pos hs
    simp only [FromValue.fromValue]
    rw [hT] at ih' ⊢
    simp only [List.cons_append] at ih' ⊢
    cases hfv : FromValue.fromValue cfg' ext' s _ with
    | ok tv =>
      rw [hfv] at ih'
      simp only [Except.map] at ih' ⊢
      rw [skipWs_cons hw]
      simp only [ht.1, Bool.false_eq_true, if_false]
      rw [ih']
      simp [Res.map, Res.bind]
    | error e =>
      rw [hfv] at ih'
      simp only [Except.map] at ih' ⊢
      intro x r p
      rw [skipWs_cons hw]
      simp only [ht.1, Bool.false_eq_true, if_false]
      exact map_not_ok ih' x r p

omit hext in
/-- `Option<T>` passes the weak invariant of its content through -/
theorem agree_option_w (s : Schema) (f t : Nat) (v : JV) (hv : VOKg v)
    (ih : v ≠ .null → Agree1w (deTyped env f t s) (FromValue.fromValue cfg' ext' s v) (T ext v)) (hT : ∃ c tl, T ext v = c :: tl ∧ HeadOf v c) :
    Agree1w (deTyped env (f + 1) t (.option s)) (FromValue.fromValue cfg' ext' (.option s) v) (T ext v) := by
  cases v with
  | null => exact (agree_option ext hflt cfg' ext' s f t .null hv (fun h => absurd rfl h) hT).weak
  | bool _ | num _ | str _ | arr _ | obj _ =>
    intro rest pos hs
    obtain ⟨c, tl, hT, hc⟩ := hT
    have hw := (headOf_facts hc).1
    have ht := headOf_tests hc
    rw [deTyped_option]
    have ih' := ih (by intro h; cases h) rest pos hs
    simp only [FromValue.fromValue]
    rw [hT] at ih' ⊢
    simp only [List.cons_append] at ih' ⊢
    cases hfv : FromValue.fromValue cfg' ext' s _ with
    | ok tv =>
      rw [hfv] at ih'
      simp only [Except.map] at ih' ⊢
      rw [skipWs_cons hw]
      simp only [ht.1, Bool.false_eq_true, if_false]
      rw [ih']
      simp [Res.map, Res.bind]
    | error e =>
      rw [hfv] at ih'
      simp only [Except.map] at ih' ⊢
      intro x r p
      rw [skipWs_cons hw]
      simp only [ht.1, Bool.false_eq_true, if_false]
      exact map_bad ih' x r p

/-- the text that follows an element inside an array -/
def Ttail : List JV → Bytes
  | [] => []
  | x :: xs => 0x2c :: Telems ext (x :: xs)

omit hflt hext in
theorem Telems_cons (x : JV) (xs : List JV) : Telems ext (x :: xs) = T ext x ++ Ttail ext xs := by
  cases xs <;> simp [Telems, Ttail]

omit hflt hext in
theorem hasNextElement_close (first : Bool) (rest : Bytes) (pos : Nat) :
    hasNextElement env first (0x5d :: rest) pos = .ok false (0x5d :: rest) pos := by
  unfold hasNextElement
  rw [withPeek_cons env _ (by decide)]
  simp

omit hflt hext in
theorem hasNextElement_first {c : UInt8} (hw : Machine.isWs c = false) (h5 : (c == 0x5d) = false) (tl : Bytes) (pos : Nat) :
    hasNextElement env true (c :: tl) pos = .ok true (c :: tl) pos := by
  unfold hasNextElement
  rw [withPeek_cons env _ hw]
  simp [h5]

omit hflt hext in
theorem hasNextElement_comma {c : UInt8} (hw : Machine.isWs c = false) (h5 : (c == 0x5d) = false) (tl : Bytes) (pos : Nat) :
    hasNextElement env false (0x2c :: c :: tl) pos = .ok true (c :: tl) (pos + 1) := by
  unfold hasNextElement
  rw [withPeek_cons env _ (by decide)]
  simp only [show ((0x2c : UInt8) == 0x5d) = false by decide, Bool.false_eq_true, if_false, beq_self_eq_true, if_true]
  rw [withPeek_cons env _ hw]
  simp [h5]

omit hflt hext in
/-- the separator that follows an element is admissible (`,` or `]`) -/
theorem sepOK_tail (xs : List JV) (rest : Bytes) : SepOK (Ttail ext xs ++ 0x5d :: rest) := by
  cases xs with
  | nil => exact .inr ⟨0x5d, rest, rfl, .inr (.inl rfl)⟩
  | cons x xs => exact .inr ⟨0x2c, _, rfl, .inl rfl⟩

omit hflt hext in
/-- after an element, `.` / `e` / `E` is neither `,` nor `]` -/
theorem hasNextElement_bad {r : Bytes} (h : BadHead r) (pos : Nat) : ∀ b r' p', hasNextElement env false r pos ≠ .ok b r' p' := by
  obtain ⟨c, tl, rfl, hw, h5, h2, _⟩ := badHead_facts h
  intro b r' p'
  unfold hasNextElement
  rw [withPeek_cons env _ hw]
  simp [h5, h2]

omit hflt hext in
theorem seqLoop_bad (de : Bytes → Nat → TOut) {r : Bytes} (h : BadHead r) :
    ∀ (n : Nat) (acc : List TVal) (pos : Nat) a r' p', seqLoop env de n false acc r pos ≠ .ok a r' p' := by
  intro n
  cases n with
  | zero => intro acc pos a r' p'; simp [seqLoop]
  | succ n =>
    intro acc pos
    unfold seqLoop nextElement
    exact bind_not_ok (bind_not_ok (hasNextElement_bad h pos))

omit hflt hext in
/-- a fixed-length visitor that has taken all its elements returns; with elements still to take it fails -/
theorem tupleLoop_bad (de : Schema → Bytes → Nat → TOut) {r : Bytes} (h : BadHead r) :
    ∀ (ss : List Schema) (acc : List TVal) (pos : Nat) a r' p', tupleLoop env de ss false acc r pos = .ok a r' p' → BadHead r' := by
  intro ss
  cases ss with
  | nil =>
    intro acc pos a r' p' e
    simp only [tupleLoop, Res.ok.injEq] at e
    exact e.2.1 ▸ h
  | cons s ss =>
    intro acc pos a r' p' e
    unfold tupleLoop nextElement at e
    exact absurd e (bind_not_ok (bind_not_ok (hasNextElement_bad h pos)) a r' p')

omit hflt hext in
theorem endSeq_bad {r : Bytes} (h : BadHead r) (pos : Nat) : ∀ u r' p', (endSeq env r pos).res ≠ .ok u r' p' := by
  obtain ⟨c, tl, rfl, hw, h5, _, _⟩ := badHead_facts h
  intro u r' p'
  unfold endSeq
  rw [skipWs_cons hw]
  simp only [h5, Bool.false_eq_true, if_false]
  split
  · split <;> simp
  · simp

omit hflt hext in
/-- `end_seq` after a loop that failed, or returned in front of `.` / `e` / `E` -/
theorem closeWith_seq_bad {α : Type} {ret : Res α} (h : ∀ x r p, ret = .ok x r p → BadHead r) :
    ∀ x r p, closeWith env (endSeq env) ret ≠ .ok x r p := by
  intro x r p
  cases hr : ret with
  | ok x' r' p' =>
    simp only [closeWith]
    exact bind_not_ok (endSeq_bad (h x' r' p' hr) p') x r p
  | _ => simp [closeWith]

/-- elements of an array read by the element parser `de`, against `seqAll fv`; `first`: no element has been read yet -/
theorem seqLoop_text (de : Bytes → Nat → TOut) (fv : JV → FromValue.R) :
    ∀ (xs : List JV), (∀ x ∈ xs, Agree1w de (fv x) (T ext x) ∧ ∃ c tl, T ext x = c :: tl ∧ HeadOf x c) →
    ∀ (first : Bool) (acc : List TVal) (n : Nat) (rest : Bytes) (pos : Nat),
      ((if first then Telems ext xs else Ttail ext xs) ++ 0x5d :: rest).length < n →
      match FromValue.seqAll fv xs with
      | .ok (ys, _) => seqLoop env de n first acc ((if first then Telems ext xs else Ttail ext xs) ++ 0x5d :: rest) pos =
          .ok (acc.reverse ++ ys) (0x5d :: rest) (pos + (if first then Telems ext xs else Ttail ext xs).length)
      | .error _ => ∀ a r p, seqLoop env de n first acc ((if first then Telems ext xs else Ttail ext xs) ++ 0x5d :: rest) pos ≠ .ok a r p := by
  intro xs
  induction xs with
  | nil =>
    intro _ first acc n rest pos hn
    cases n with
    | zero => omega
    | succ n =>
      have : (if first then Telems ext [] else Ttail ext []) = [] := by cases first <;> rfl
      simp only [FromValue.seqAll, this, List.nil_append, List.length_nil, Nat.add_zero]
      unfold seqLoop nextElement
      rw [hasNextElement_close]
      simp [Res.bind]
  | cons x xs ih =>
    intro hx first acc n rest pos hn
    obtain ⟨hag, c, tl, hT, hc⟩ := hx x (by simp)
    have hw := (headOf_facts hc).1
    have h5 := (headOf_facts hc).2.1
    have ih' := ih (fun y hy => hx y (by simp [hy]))
    cases n with
    | zero => omega
    | succ n =>
      -- after the separator the text is `T x ++ Ttail xs ++ ]…` at position `q`
      have step : ∃ q, q = pos + (if first then 0 else 1) ∧
          nextElement env de first ((if first then Telems ext (x :: xs) else Ttail ext (x :: xs)) ++ 0x5d :: rest) pos =
            (de (T ext x ++ (Ttail ext xs ++ 0x5d :: rest)) q).map some := by
        cases first with
        | true =>
          refine ⟨pos, by simp, ?_⟩
          simp only [if_true]
          rw [Telems_cons, List.append_assoc]
          unfold nextElement
          rw [hT]
          simp only [List.cons_append]
          rw [hasNextElement_first hw h5]
          simp [Res.bind]
        | false =>
          refine ⟨pos + 1, by simp, ?_⟩
          simp only [Bool.false_eq_true, if_false]
          rw [show Ttail ext (x :: xs) = 0x2c :: Telems ext (x :: xs) from rfl, Telems_cons]
          simp only [List.cons_append, List.append_assoc]
          unfold nextElement
          rw [hT]
          simp only [List.cons_append]
          rw [hasNextElement_comma hw h5]
          simp [Res.bind]
      obtain ⟨q, hq, hstep⟩ := step
      have hel := hag (Ttail ext xs ++ 0x5d :: rest) q (sepOK_tail ext xs rest)
      have hlen : (if first then Telems ext (x :: xs) else Ttail ext (x :: xs)).length =
          (if first then 0 else 1) + (T ext x).length + (Ttail ext xs).length := by
        cases first with
        | true => simp only [if_true]; rw [Telems_cons]; simp
        | false =>
          simp only [Bool.false_eq_true, if_false]
          rw [show Ttail ext (x :: xs) = 0x2c :: Telems ext (x :: xs) from rfl, Telems_cons]
          simp; omega
      unfold seqLoop
      rw [hstep]
      simp only [FromValue.seqAll]
      cases hfx : fv x with
      | error e =>
        rw [hfx] at hel
        simp only at hel ⊢
        intro a r p
        cases hde : de (T ext x ++ (Ttail ext xs ++ 0x5d :: rest)) q with
        | ok v r1 p1 =>
          simp only [Res.map, Res.bind]
          exact seqLoop_bad de (hel v r1 p1 hde) n _ _ a r p
        | _ => simp [Res.map, Res.bind]
      | ok y =>
        rw [hfx] at hel
        simp only at hel ⊢
        rw [hel]
        simp only [Res.map, Res.bind]
        have hrec := ih' false (y :: acc) n rest (q + (T ext x).length) (by
          simp only [Bool.false_eq_true, if_false]
          simp only [List.length_append, List.length_cons] at hn ⊢
          rw [hlen] at hn
          have : 0 < (T ext x).length := by rw [hT]; simp
          omega)
        simp only [Bool.false_eq_true, if_false] at hrec
        cases hall : FromValue.seqAll fv xs with
        | error e =>
          rw [hall] at hrec
          simp only at hrec ⊢
          exact hrec
        | ok p =>
          obtain ⟨ys, rem⟩ := p
          rw [hall] at hrec
          simp only at hrec ⊢
          rw [hrec, hlen, hq]
          simp only [List.reverse_cons, List.append_assoc, List.singleton_append]
          congr 1
          omega

omit hflt hext in
theorem endSeq_close (rest : Bytes) (pos : Nat) : (endSeq env (0x5d :: rest) pos).res = .ok () rest (pos + 1) := by
  unfold endSeq
  rw [skipWs_cons (by decide)]
  simp

omit hflt hext in
/-- anything but `]` after the elements a tuple visitor has taken is an error of `end_seq` -/
theorem endSeq_not_close {c : UInt8} (hw : Machine.isWs c = false) (h5 : (c == 0x5d) = false) (tl : Bytes) (pos : Nat) :
    ∀ u r p, (endSeq env (c :: tl) pos).res ≠ .ok u r p := by
  intro u r p
  unfold endSeq
  rw [skipWs_cons hw]
  simp only [h5, Bool.false_eq_true, if_false]
  split
  · split <;> simp
  · simp

omit hflt hext in
theorem seqAll_rem (fv : JV → FromValue.R) : ∀ (xs : List JV) (ys : List TVal) (rem : List JV),
    FromValue.seqAll fv xs = .ok (ys, rem) → rem = []
  | [], ys, rem, h => by simp [FromValue.seqAll] at h; exact h.2
  | x :: xs, ys, rem, h => by
    simp only [FromValue.seqAll] at h
    split at h
    · simp at h
    · split at h
      · simp at h
      · rename_i ys' rest' hr
        simp at h
        exact h.2 ▸ seqAll_rem fv xs ys' rest' hr

/-- depth budget: the value fits below the `t` typed containers already open -/
def DepthOK (env : Env) (t : Nat) (v : JV) : Prop := env.cfg.limitOff = true ∨ t + Spec.WF.depthJV v ≤ 127

omit hflt hext in
theorem tooDeep_false (t : Nat) (xs : List JV) (h : DepthOK env t (.arr xs)) : tooDeep env t = false := by
  unfold tooDeep
  rcases h with h | h
  · simp [h]
  · simp only [Spec.WF.depthJV] at h
    have : ¬ (t + 1 ≥ Gen.remainingDepthInit) := by simp [Gen.remainingDepthInit]; omega
    simp [this]

omit hflt hext in
theorem depth_mem : ∀ (xs : List JV) (x : JV), x ∈ xs → Spec.WF.depthJV x ≤ Spec.WF.depthJVs xs
  | [], _, h => by simp at h
  | y :: ys, x, h => by
    simp only [Spec.WF.depthJVs]
    rcases List.mem_cons.mp h with rfl | h
    · omega
    · have := depth_mem ys x h; omega

omit hflt hext in
theorem depthOK_elem (t : Nat) (xs : List JV) (x : JV) (hx : x ∈ xs) (h : DepthOK env t (.arr xs)) : DepthOK env (t + 1) x := by
  rcases h with h | h
  · exact .inl h
  · right
    simp only [Spec.WF.depthJV] at h
    have := depth_mem xs x hx
    omega

omit hflt hext in
theorem vok_elem : ∀ (xs : List JV) (x : JV), x ∈ xs → VOK (.arr xs) → VOK x := by
  intro xs x hx hv
  have h1 : shapeWs xs = true := by simpa [VOK, shapeW] using hv
  clear hv
  induction xs with
  | nil => simp at hx
  | cons y ys ih =>
    simp only [shapeWs, Bool.and_eq_true] at h1
    rcases List.mem_cons.mp hx with rfl | hx
    · exact h1.1
    · exact ih hx h1.2

omit hflt hext in
theorem voka_elem : ∀ (xs : List JV) (x : JV), x ∈ xs → VOKa (.arr xs) → VOKa x := by
  intro xs x hx hv
  have h1 : shapeAs xs = true := by simpa [VOKa, shapeA] using hv
  clear hv
  induction xs with
  | nil => simp at hx
  | cons y ys ih =>
    simp only [shapeAs, Bool.and_eq_true] at h1
    rcases List.mem_cons.mp hx with rfl | hx
    · exact h1.1
    · exact ih hx h1.2

omit hflt hext in
theorem vokg_elem (xs : List JV) (x : JV) (hx : x ∈ xs) (hv : VOKg (.arr xs)) : VOKg x :=
  hv.imp (vok_elem xs x hx) (voka_elem xs x hx)

/-- `Vec<T>` -/
theorem agree_seq (s : Schema) (f t : Nat) (v : JV) (hv : VOKg v) (hd : DepthOK env t v)
    (ih : ∀ xs, v = .arr xs → ∀ x ∈ xs, Agree1w (deTyped env f (t + 1) s) (FromValue.fromValue cfg' ext' s x) (T ext x)) :
    Agree1 (deTyped env (f + 1) t (.seq s)) (FromValue.fromValue cfg' ext' (.seq s) v) (T ext v) := by
  intro rest pos hs
  obtain ⟨c, tl, hT, hc⟩ := T_head_g ext hext v hv
  have hw := (headOf_facts hc).1
  have ht := headOf_tests hc
  rw [deTyped_seq]
  cases v with
  | arr xs =>
    have hel : ∀ x ∈ xs, Agree1w (deTyped env f (t + 1) s) (FromValue.fromValue cfg' ext' s x) (T ext x) ∧
        ∃ c tl, T ext x = c :: tl ∧ HeadOf x c :=
      fun x hx => ⟨ih xs rfl x hx, T_head_g ext hext x (vokg_elem xs x hx hv)⟩
    have hloop := seqLoop_text ext hext hflt (deTyped env f (t + 1) s) (FromValue.fromValue cfg' ext' s) xs hel true []
      ((Telems ext xs ++ 0x5d :: rest).length + 1) rest (pos + 1) (by simp)
    simp only [if_true] at hloop
    have hde : deSeq env t (fun r p => (seqLoop env (deTyped env f (t + 1) s) (r.length + 1) true [] r p).map .seq)
        (0x5b :: (Telems ext xs ++ 0x5d :: rest)) pos =
        closeWith env (endSeq env) ((seqLoop env (deTyped env f (t + 1) s) ((Telems ext xs ++ 0x5d :: rest).length + 1) true []
          (Telems ext xs ++ 0x5d :: rest) (pos + 1)).map .seq) := by
      unfold deSeq
      rw [withPeek_cons env _ (by decide)]
      simp only [beq_self_eq_true, if_true, tooDeep_false t xs hd, Bool.false_eq_true, if_false]
    simp only [FromValue.fromValue]
    rw [T_arr]
    simp only [List.cons_append, List.append_assoc, List.nil_append]
    cases hall : FromValue.seqAll (FromValue.fromValue cfg' ext' s) xs with
    | error e =>
      rw [hall] at hloop
      simp only at hloop
      simp only [FromValue.visitArray]
      intro x r p
      rw [hde]
      exact closeWith_not_ok _ (map_not_ok hloop) x r p
    | ok pr =>
      obtain ⟨ys, rem⟩ := pr
      rw [hall] at hloop
      simp only at hloop
      have hrem := seqAll_rem _ _ _ _ hall
      subst hrem
      simp only [FromValue.visitArray, List.isEmpty_nil, if_true]
      rw [hde, hloop]
      simp only [Res.map, Res.bind, closeWith, endSeq_close, List.nil_append, List.reverse_nil, List.length_cons, List.length_append,
        List.length_nil]
      congr 1
      omega
  | null | bool _ | num _ | str _ | obj _ =>
    simp only [FromValue.fromValue, FromValue.fail]
    intro x r p
    rw [hT]
    simp only [List.cons_append]
    unfold deSeq
    rw [withPeek_cons env _ hw]
    simp only [ht.2.2.2.2.2.2.1, Bool.false_eq_true, if_false]
    exact peekInvalidType_not_ok _ _ _ _ _ _

omit hflt hext in
/-- positionwise agreement of the element parsers of a fixed-length visitor (tuple, struct fields in order) with the
    elements of an array: the i-th schema on the i-th element -/
def TupAgree (de : Schema → Bytes → Nat → TOut) (fv : Schema → JV → FromValue.R) : List Schema → List JV → Prop
  | s :: ss, x :: xs => Agree1w (de s) (fv s x) (T ext x) ∧ TupAgree de fv ss xs
  | _, _ => True

omit hflt hext in
theorem tupAgree_of_all (de : Schema → Bytes → Nat → TOut) (fv : Schema → JV → FromValue.R) : ∀ (ss : List Schema) (xs : List JV),
    (∀ s ∈ ss, ∀ x ∈ xs, Agree1w (de s) (fv s x) (T ext x)) → TupAgree ext de fv ss xs
  | [], _, _ => trivial
  | _ :: _, [], _ => trivial
  | s :: ss, x :: xs, h => ⟨h s (by simp) x (by simp),
      tupAgree_of_all de fv ss xs fun s' hs' x' hx' => h s' (by simp [hs']) x' (by simp [hx'])⟩

/-- a fixed-length tuple visitor on the elements of an array, against `tupleSeq`: the elements it leaves are left in the text -/
theorem tupleLoop_text (f t : Nat) : ∀ (ss : List Schema) (xs : List JV),
    TupAgree ext (deTyped env f t) (FromValue.fromValue cfg' ext') ss xs →
    (∀ x ∈ xs, ∃ c tl, T ext x = c :: tl ∧ HeadOf x c) →
    ∀ (first : Bool) (acc : List TVal) (rest : Bytes) (pos : Nat),
      match FromValue.tupleSeq cfg' ext' ss xs with
      | .ok (ys, rem) =>
        tupleLoop env (deTyped env f t) ss first acc ((if first then Telems ext xs else Ttail ext xs) ++ 0x5d :: rest) pos =
          .ok (acc.reverse ++ ys) ((if first && ss.isEmpty then Telems ext rem else Ttail ext rem) ++ 0x5d :: rest)
            (pos + (if first then Telems ext xs else Ttail ext xs).length -
              (if first && ss.isEmpty then Telems ext rem else Ttail ext rem).length)
      | .error _ => ∀ a r p,
        tupleLoop env (deTyped env f t) ss first acc ((if first then Telems ext xs else Ttail ext xs) ++ 0x5d :: rest) pos = .ok a r p →
          BadHead r := by
  intro ss
  induction ss with
  | nil =>
    intro xs _ _ first acc rest pos
    simp only [FromValue.tupleSeq, tupleLoop, List.isEmpty_nil, Bool.and_true, List.append_nil]
    congr 1
    omega
  | cons s ss ih =>
    intro xs hag hhd first acc rest pos
    cases xs with
    | nil =>
      have : (if first then Telems ext [] else Ttail ext []) = [] := by cases first <;> rfl
      simp only [FromValue.tupleSeq, FromValue.fail, this, List.nil_append]
      intro a r p
      unfold tupleLoop nextElement
      rw [hasNextElement_close]
      simp [Res.bind]
    | cons x xs =>
      obtain ⟨c, tl, hT, hc⟩ := hhd x (by simp)
      have hw := (headOf_facts hc).1
      have h5 := (headOf_facts hc).2.1
      have step : ∃ q, q = pos + (if first then 0 else 1) ∧
          nextElement env (deTyped env f t s) first ((if first then Telems ext (x :: xs) else Ttail ext (x :: xs)) ++ 0x5d :: rest) pos =
            (deTyped env f t s (T ext x ++ (Ttail ext xs ++ 0x5d :: rest)) q).map some := by
        cases first with
        | true =>
          refine ⟨pos, by simp, ?_⟩
          simp only [if_true]
          rw [Telems_cons, List.append_assoc]
          unfold nextElement
          rw [hT]
          simp only [List.cons_append]
          rw [hasNextElement_first hw h5]
          simp [Res.bind]
        | false =>
          refine ⟨pos + 1, by simp, ?_⟩
          simp only [Bool.false_eq_true, if_false]
          rw [show Ttail ext (x :: xs) = 0x2c :: Telems ext (x :: xs) from rfl, Telems_cons]
          simp only [List.cons_append, List.append_assoc]
          unfold nextElement
          rw [hT]
          simp only [List.cons_append]
          rw [hasNextElement_comma hw h5]
          simp [Res.bind]
      obtain ⟨q, hq, hstep⟩ := step
      have hel := hag.1 (Ttail ext xs ++ 0x5d :: rest) q (sepOK_tail ext xs rest)
      have hlen : (if first then Telems ext (x :: xs) else Ttail ext (x :: xs)).length =
          (if first then 0 else 1) + (T ext x).length + (Ttail ext xs).length := by
        cases first with
        | true => simp only [if_true]; rw [Telems_cons]; simp
        | false =>
          simp only [Bool.false_eq_true, if_false]
          rw [show Ttail ext (x :: xs) = 0x2c :: Telems ext (x :: xs) from rfl, Telems_cons]
          simp; omega
      unfold tupleLoop
      rw [hstep]
      simp only [FromValue.tupleSeq]
      cases hfx : FromValue.fromValue cfg' ext' s x with
      | error e =>
        rw [hfx] at hel
        simp only at hel ⊢
        intro a r p
        cases hde : deTyped env f t s (T ext x ++ (Ttail ext xs ++ 0x5d :: rest)) q with
        | ok v r1 p1 =>
          simp only [Res.map, Res.bind]
          exact tupleLoop_bad _ (hel v r1 p1 hde) ss _ _ a r p
        | _ => simp [Res.map, Res.bind]
      | ok y =>
        rw [hfx] at hel
        simp only at hel ⊢
        rw [hel]
        simp only [Res.map, Res.bind]
        have hrec := ih xs hag.2 (fun x' hx' => hhd x' (by simp [hx']))
          false (y :: acc) rest (q + (T ext x).length)
        simp only [Bool.false_eq_true, if_false, Bool.false_and] at hrec
        cases hall : FromValue.tupleSeq cfg' ext' ss xs with
        | error e =>
          rw [hall] at hrec
          simp only at hrec ⊢
          exact hrec
        | ok pr =>
          obtain ⟨ys, rem⟩ := pr
          rw [hall] at hrec
          simp only at hrec ⊢
          rw [hrec, hlen, hq]
          simp only [List.isEmpty_cons, Bool.and_false, Bool.false_eq_true, if_false, List.reverse_cons, List.append_assoc, List.singleton_append]
          congr 1
          omega

omit hflt hext in
theorem tupleSeq_rem_len (cfg : FromValue.Cfg) (e : FromValue.Ext) : ∀ (ss : List Schema) (xs : List JV) (ys : List TVal) (rem : List JV),
    FromValue.tupleSeq cfg e ss xs = .ok (ys, rem) → rem.length ≤ xs.length
  | [], xs, ys, rem, h => by simp [FromValue.tupleSeq] at h; rw [h.2]; exact Nat.le_refl _
  | _ :: _, [], ys, rem, h => by simp [FromValue.tupleSeq, FromValue.fail] at h
  | s :: ss, x :: xs, ys, rem, h => by
    simp only [FromValue.tupleSeq] at h
    split at h
    · simp at h
    · split at h
      · simp at h
      · rename_i ys' rest' hr
        simp at h
        have := tupleSeq_rem_len cfg e ss xs ys' rest' hr
        rw [← h.2]; simp only [List.length_cons]; omega

omit hflt hext in
theorem tupleSeq_rem_mem (cfg : FromValue.Cfg) (e : FromValue.Ext) : ∀ (ss : List Schema) (xs : List JV) (ys : List TVal) (rem : List JV),
    FromValue.tupleSeq cfg e ss xs = .ok (ys, rem) → ∀ x ∈ rem, x ∈ xs
  | [], xs, ys, rem, h => by simp [FromValue.tupleSeq] at h; rw [h.2]; exact fun _ h => h
  | _ :: _, [], ys, rem, h => by simp [FromValue.tupleSeq, FromValue.fail] at h
  | s :: ss, x :: xs, ys, rem, h => by
    simp only [FromValue.tupleSeq] at h
    split at h
    · simp at h
    · split at h
      · simp at h
      · rename_i ys' rest' hr
        simp at h
        intro z hz
        rw [← h.2] at hz
        exact List.mem_cons_of_mem _ (tupleSeq_rem_mem cfg e ss xs ys' rest' hr z hz)

/-- fixed-length tuples -/
theorem agree_tuple (ss : List Schema) (f t : Nat) (v : JV) (hv : VOKg v) (hd : DepthOK env t v)
    (ih : ∀ xs, v = .arr xs → TupAgree ext (deTyped env f (t + 1)) (FromValue.fromValue cfg' ext') ss xs) :
    Agree1 (deTyped env (f + 1) t (.tuple ss)) (FromValue.fromValue cfg' ext' (.tuple ss) v) (T ext v) := by
  intro rest pos hs
  obtain ⟨c, tl, hT, hc⟩ := T_head_g ext hext v hv
  have hw := (headOf_facts hc).1
  have ht := headOf_tests hc
  rw [deTyped_tuple]
  cases v with
  | arr xs =>
    have hhd : ∀ x ∈ xs, ∃ c tl, T ext x = c :: tl ∧ HeadOf x c := fun x hx => T_head_g ext hext x (vokg_elem xs x hx hv)
    have hloop := tupleLoop_text ext hext hflt cfg' ext' f (t + 1) ss xs (ih xs rfl) hhd true [] rest (pos + 1)
    simp only [if_true, Bool.true_and] at hloop
    have hde : deSeq env t (fun r p => (tupleLoop env (deTyped env f (t + 1)) ss true [] r p).map .seq)
        (0x5b :: (Telems ext xs ++ 0x5d :: rest)) pos =
        closeWith env (endSeq env) ((tupleLoop env (deTyped env f (t + 1)) ss true [] (Telems ext xs ++ 0x5d :: rest) (pos + 1)).map .seq) := by
      unfold deSeq
      rw [withPeek_cons env _ (by decide)]
      simp only [beq_self_eq_true, if_true, tooDeep_false t xs hd, Bool.false_eq_true, if_false]
    simp only [FromValue.fromValue]
    rw [T_arr]
    simp only [List.cons_append, List.append_assoc, List.nil_append]
    cases hall : FromValue.tupleSeq cfg' ext' ss xs with
    | error e =>
      rw [hall] at hloop
      simp only at hloop
      simp only [FromValue.visitArray]
      intro x r p
      rw [hde]
      exact closeWith_seq_bad (map_bad hloop) x r p
    | ok pr =>
      obtain ⟨ys, rem⟩ := pr
      rw [hall] at hloop
      simp only at hloop
      simp only [FromValue.visitArray]
      cases rem with
      | nil =>
        have hR : (if ss.isEmpty then Telems ext ([] : List JV) else Ttail ext []) = [] := by split <;> rfl
        rw [hR] at hloop
        simp only [List.isEmpty_nil, if_true]
        rw [hde, hloop]
        simp only [Res.map, Res.bind, closeWith, endSeq_close, List.nil_append, List.reverse_nil, List.length_cons, List.length_append,
          List.length_nil]
        congr 1
        omega
      | cons z zs =>
        simp only [List.isEmpty_cons, Bool.false_eq_true, if_false, FromValue.fail]
        intro x r p
        rw [hde, hloop]
        simp only [Res.map, Res.bind, closeWith]
        -- the text goes on with `,` or with the first unread element: `end_seq` rejects both
        have hne : ∀ u r' p', (endSeq env ((if ss.isEmpty then Telems ext (z :: zs) else Ttail ext (z :: zs)) ++ 0x5d :: rest)
            (pos + 1 + (Telems ext xs).length - (if ss.isEmpty then Telems ext (z :: zs) else Ttail ext (z :: zs)).length)).res ≠ .ok u r' p' := by
          split
          · obtain ⟨c', tl', hT', hc'⟩ := hhd z (tupleSeq_rem_mem _ _ _ _ _ _ hall z (by simp))
            rw [Telems_cons, hT']
            simp only [List.cons_append]
            exact endSeq_not_close (headOf_facts hc').1 (headOf_facts hc').2.1 _ _
          · show ∀ u r' p', (endSeq env (0x2c :: _) _).res ≠ _
            exact endSeq_not_close (by decide) (by decide) _ _
        cases hE : (endSeq env ((if ss.isEmpty then Telems ext (z :: zs) else Ttail ext (z :: zs)) ++ 0x5d :: rest)
            (pos + 1 + (Telems ext xs).length - (if ss.isEmpty then Telems ext (z :: zs) else Ttail ext (z :: zs)).length)).res with
        | ok u r' p' => exact absurd hE (hne u r' p')
        | _ => simp
  | null | bool _ | num _ | str _ | obj _ =>
    simp only [FromValue.fromValue, FromValue.fail]
    intro x r p
    rw [hT]
    simp only [List.cons_append]
    unfold deSeq
    rw [withPeek_cons env _ hw]
    simp only [ht.2.2.2.2.2.2.1, Bool.false_eq_true, if_false]
    exact peekInvalidType_not_ok _ _ _ _ _ _

end

/-! ## the staged fragment -/

mutual
/-- the schema fragment of `c16_text_agrees_partial`: bool, the twelve integer targets, unit / unit struct, `Option`,
    newtype structs, `Vec`, fixed-length tuples -/
def agreeFrag : Schema → Bool
  | .bool | .int _ | .unit | .unitStruct => true
  | .option s | .newtype s | .seq s => agreeFrag s
  | .tuple ss => agreeFragList ss
  | _ => false
def agreeFragList : List Schema → Bool
  | [] => true
  | s :: r => agreeFrag s && agreeFragList r
end

omit hext in
theorem agreeFrag_mem : ∀ (ss : List Schema) (s : Schema), s ∈ ss → agreeFragList ss = true → agreeFrag s = true
  | [], _, h, _ => by simp at h
  | x :: r, s, h, hf => by
    simp only [agreeFragList, Bool.and_eq_true] at hf
    rcases List.mem_cons.mp h with rfl | h
    · exact hf.1
    · exact agreeFrag_mem r s h hf.2

omit hext in
theorem noFloat_elem : ∀ (xs : List JV) (x : JV), x ∈ xs → Spec.WF.noFloats xs = true → Spec.WF.noFloat x = true
  | [], _, h, _ => by simp at h
  | y :: ys, x, h, hf => by
    simp only [Spec.WF.noFloats, Bool.and_eq_true] at hf
    rcases List.mem_cons.mp h with rfl | h
    · exact hf.1
    · exact noFloat_elem ys x h hf.2

/-- **the text leg on printed values** (the first stage; superseded by `agree_gen` in `TypedAgreeAll`): for every schema of
    the fragment, every float-free value representable without `arbitrary_precision` and within the depth budget, the
    typed deserializer on the text `to_string` writes for the value (followed by a separator or nothing) returns exactly
    what `from_value` returns — and fails when it fails -/
theorem agree_deTyped {env : Env} (hflt : env.flt = false) (cfg' : FromValue.Cfg) (hap : cfg'.ap = false) (ext' : FromValue.Ext) :
    ∀ (f : Nat) (s : Schema), Schema.size s ≤ f → agreeFrag s = true → ∀ (t : Nat) (v : JV), VOK v → Spec.WF.noFloat v = true →
      DepthOK env t v → Agree1 (deTyped env f t s) (FromValue.fromValue cfg' ext' s v) (T ext v) := by
  intro f
  induction f with
  | zero => intro s hs; have := size_pos s; omega
  | succ f ih =>
    intro s hs hfr t v hv hnf hd
    cases s with
    | bool => rw [deTyped_bool]; exact agree_bool ext hext hflt cfg' hap ext' v hv
    | int w =>
      rw [deTyped_int]
      exact agree_int ext hext hflt cfg' hap ext' w v hv (fun b hb => by subst hb; simp [Spec.WF.noFloat] at hnf)
    | unit => rw [deTyped_unit]; exact agree_unit ext hext hflt cfg' hap ext' v hv
    | unitStruct =>
      rw [deTyped_unitStruct]
      have := agree_unit ext hext hflt cfg' hap ext' v hv
      simpa [FromValue.fromValue] using this
    | newtype s' =>
      rw [deTyped_newtype]
      have := ih s' (by simp only [Schema.size] at hs; omega) (by simpa [agreeFrag] using hfr) t v hv hnf hd
      simpa [FromValue.fromValue] using this
    | option s' =>
      exact agree_option ext hflt cfg' ext' s' f t v hv.g
        (fun _ => ih s' (by simp only [Schema.size] at hs; omega) (by simpa [agreeFrag] using hfr) t v hv hnf hd) (T_head ext hext v hv)
    | seq s' =>
      refine agree_seq ext hext hflt cfg' ext' s' f t v hv.g hd fun xs hxs x hx => ?_
      subst hxs
      exact (ih s' (by simp only [Schema.size] at hs; omega) (by simpa [agreeFrag] using hfr) (t + 1) x (vok_elem xs x hx hv)
        (noFloat_elem xs x hx (by simpa [Spec.WF.noFloat] using hnf)) (depthOK_elem t xs x hx hd)).weak
    | tuple ss =>
      refine agree_tuple ext hext hflt cfg' ext' ss f t v hv.g hd fun xs hxs => tupAgree_of_all ext _ _ ss xs fun s' hs' x hx => ?_
      subst hxs
      have hsz := size_mem_list ss s' hs'
      exact (ih s' (by simp only [Schema.size] at hs; omega) (agreeFrag_mem ss s' hs' (by simpa [agreeFrag] using hfr)) (t + 1) x
        (vok_elem xs x hx hv) (noFloat_elem xs x hx (by simpa [Spec.WF.noFloat] using hnf)) (depthOK_elem t xs x hx hd)).weak
    | _ => simp [agreeFrag] at hfr

end SJ.Proofs.Typed
