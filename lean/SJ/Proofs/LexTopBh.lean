import SJ.Proofs.LexCorrect
/-!
# C07 top level, part 1: `bhcomp` without the zero-tail hypothesis

After the repair of C07-zero-tail (`1024dba`), `parse_mantissa` appends the sticky `1` only when a dropped digit is
non-zero. `LexBh.bhcomp_eq` covers the case "a dropped digit is non-zero" (its hypothesis `hz`). Here the other case:
all dropped digits are `0`, the mantissa is `D · 10` at `scaled_exponent = E + j − 1` — the *same rational* as the
literal, so `large_atof`/`small_atof` are exact for it. `bhcomp_ok` combines the two.
-/
namespace SJ.Proofs.LexTopBh
open SJ SJ.Gen SJ.Model.Lexical SJ.Spec.Ieee SJ.Proofs.Ieee SJ.Proofs.LexRound SJ.Proofs.LexBh
open SJ.Model.Num SJ.Proofs.NumInt SJ.Proofs.LexSplit SJ.Proofs.LexCorrect

theorem any_nonzero_false (l : Bytes) (hd : IsDigits l) (h : natOfDigits l = 0) : l.any (· != 0x30) = false := by
  have hall := all_zero_iff l hd
  rw [h] at hall
  have hall' : l.all (· == 0x30) = true := by rw [hall]; rfl
  rw [List.all_eq_true] at hall'
  rw [Bool.eq_false_iff]
  intro hany
  rw [List.any_eq_true] at hany
  obtain ⟨x, hx, hne⟩ := hany
  have := hall' x hx
  simp at this hne
  exact hne this

/-- `parse_mantissa` when every dropped digit is `0`: the first `MAX_DIGITS − 1` digits times ten, no sticky digit -/
theorem parseMantissa_zero (c : FC) (hmax : 2 ≤ c.maxDigits) (integer fraction : Bytes)
    (hd : IsDigits (integer ++ fraction)) (hlt : c.maxDigits - 1 < (integer ++ fraction).length)
    (hzero : natOfDigits ((integer ++ fraction).drop (c.maxDigits - 1)) = 0) :
    parseMantissa c integer fraction = natOfDigits ((integer ++ fraction).take (c.maxDigits - 1)) * 10 := by
  have hlen : pow10_64.length - 2 = 18 := by rw [SJ.Proofs.LexTables.lengths.2.2.2.2.2.2.2.1]
  unfold parseMantissa
  rw [hlen]
  simp only []
  obtain ⟨e1, e2, e3, e4⟩ := parseMantissaLoop_spec (c.maxDigits - 1) (integer ++ fraction) 0 0 0 0 (by omega) (by omega) (fun _ => rfl)
  generalize parseMantissaLoop (c.maxDigits - 1) 18 (integer ++ fraction) 0 0 0 0 = r at *
  obtain ⟨counter, value, i, result⟩ := r
  simp only [] at e1 e2 e3 e4 ⊢
  simp only [Nat.zero_mul, Nat.zero_add, Nat.sub_zero, Nat.add_zero] at e1 e2
  have hres : (if (counter != 0) = true then result * pow10_64.getD counter 0 + value else result) =
      natOfDigits ((integer ++ fraction).take (c.maxDigits - 1)) := by
    by_cases hc0 : counter = 0
    · have hv := e4 hc0
      subst hc0
      simp only [bne_self_eq_false, Bool.false_eq_true, if_false]
      rw [← e1, hv]; simp
    · have : (counter != 0) = true := by simpa using hc0
      rw [if_pos this, pow10_64_get counter (by omega), e1]
  rw [hres, e2, ← List.length_append]
  rw [if_pos (by omega)]
  have hmin : min (integer ++ fraction).length (c.maxDigits - 1) = c.maxDigits - 1 := by omega
  rw [hmin, any_nonzero_false _ (isDigits_drop hd _) hzero]
  rfl

/-- `NearBelow` depends only on the rational `a/bb` -/
theorem nearBelow_congr (F : Fmt) (b a bb a' bb' : Nat) (_hbb : 0 < bb) (hbb' : 0 < bb') (h : a * bb' = a' * bb)
    (hn : NearBelow F b a bb) : NearBelow F b a' bb' := by
  obtain ⟨h1, h2⟩ := hn
  constructor
  · rcases h1 with h0 | h1
    · left; exact h0
    · right
      apply Nat.lt_of_mul_lt_mul_right (a := bb)
      have := Nat.mul_lt_mul_of_pos_right h1 hbb'
      calc (magOfBits F (b - 1) + magOfBits F b) * bb' * bb = (magOfBits F (b - 1) + magOfBits F b) * bb * bb' := by ring
        _ < 2 * a * bb' := this
        _ = 2 * (a * bb') := by ring
        _ = 2 * (a' * bb) := by rw [h]
        _ = 2 * a' * bb := by ring
  · apply Nat.lt_of_mul_lt_mul_right (a := bb)
    have := Nat.mul_lt_mul_of_pos_right h2 hbb'
    calc 2 * a' * bb = 2 * (a' * bb) := by ring
      _ = 2 * (a * bb') := by rw [h]
      _ = 2 * a * bb' := by ring
      _ < (magOfBits F (b + 1) + magOfBits F (b + 2)) * bb * bb' := this
      _ = (magOfBits F (b + 1) + magOfBits F (b + 2)) * bb' * bb := by ring

/-- the core of `bhcomp` when every dropped digit is zero -/
theorem atof_core_zero {c : FC} {F : Fmt} (h : FCok c F) (sig : Bytes) (hsd : IsDigits sig)
    (hhead : ∀ d r, sig = d :: r → d ≠ 0x30) (hne : sig ≠ []) (E : Int) (b : Nat) (hb : b < F.infBits)
    (hlen : c.maxDigits - 1 < sig.length) (hzero : natOfDigits (sig.drop (c.maxDigits - 1)) = 0)
    (hnear : NearBelow F b (dNum F (natOfDigits sig) E) (dDen E)) :
    (if E + (sig.length : Int) - (min c.maxDigits sig.length : Nat) ≥ 0 then
        largeAtof c (natOfDigits (sig.take (c.maxDigits - 1)) * 10) (E + (sig.length : Int) - (min c.maxDigits sig.length : Nat))
      else smallAtof c (natOfDigits (sig.take (c.maxDigits - 1)) * 10) (E + (sig.length : Int) - (min c.maxDigits sig.length : Nat)) b) =
      roundDec F (natOfDigits sig) E := by
  have hmaxd := h.maxd
  have hmb1 := h.mb1
  obtain ⟨K, hK⟩ : ∃ K, K = c.maxDigits - 1 := ⟨_, rfl⟩
  have hK1 : 1 ≤ K := by omega
  have hmaxK : c.maxDigits = K + 1 := by omega
  rw [← hK] at hlen hzero ⊢
  rw [hmaxK]
  obtain ⟨d0, r0, hsig⟩ : ∃ d r, sig = d :: r := by
    cases sig with
    | nil => exact absurd rfl hne
    | cons d r => exact ⟨d, r, rfl⟩
  obtain ⟨j, hj⟩ : ∃ j, sig.length = K + j ∧ 1 ≤ j := ⟨sig.length - K, by omega, by omega⟩
  have hdr : (sig.drop K).length = j := by rw [List.length_drop]; omega
  have hsplit : natOfDigits sig = natOfDigits (sig.take K) * 10 ^ j := by
    conv_lhs => rw [← List.take_append_drop K sig]
    rw [natOfDigits_append, hdr, hzero, Nat.add_zero]
  have hDpos : 0 < natOfDigits (sig.take K) := by
    obtain ⟨K', hK'⟩ : ∃ K', K = K' + 1 := ⟨K - 1, by omega⟩
    have htake : sig.take K = d0 :: r0.take K' := by rw [hsig, hK', List.take_succ_cons]
    have := natOfDigits_ge d0 (r0.take K') (htake ▸ isDigits_take hsd K) (hhead d0 r0 hsig)
    rw [htake]
    exact Nat.lt_of_lt_of_le (Nat.pos_of_ne_zero (by simp)) this
  rw [hsplit] at hnear ⊢
  generalize natOfDigits (sig.take K) = D at *
  have hmin : min (K + 1) sig.length = K + 1 := by omega
  rw [hmin]
  have hsc : E + (sig.length : Int) - ((K + 1 : Nat) : Int) = E + j - 1 := by rw [hj.1]; push_cast; omega
  rw [hsc]
  unfold roundDec
  by_cases hsg : E + (j : Int) - 1 ≥ 0
  · rw [if_pos hsg, largeAtof_eq h _ _ (by omega) hsg]
    congr 1
    apply roundMag_congr F _ _ _ _ Nat.one_pos (dDen_pos E)
    unfold dNum dDen
    have key : (E + (j : Int) - 1).toNat + 1 + (-E).toNat = j + E.toNat := by omega
    calc D * 10 * 10 ^ (E + (j : Int) - 1).toNat * 2 ^ F.qexp * 10 ^ (-E).toNat
        = D * 2 ^ F.qexp * 10 ^ ((E + (j : Int) - 1).toNat + 1 + (-E).toNat) := by rw [Nat.pow_add, Nat.pow_add]; ring
      _ = D * 2 ^ F.qexp * 10 ^ (j + E.toNat) := by rw [key]
      _ = D * 10 ^ j * 10 ^ E.toNat * 2 ^ F.qexp * 1 := by rw [Nat.pow_add]; ring
  · rw [if_neg hsg]
    have hEt : E.toNat = 0 := by omega
    have hcong : D * 10 ^ j * 2 ^ F.qexp * 10 ^ (-(E + (j : Int) - 1)).toNat = D * 10 * 2 ^ F.qexp * 10 ^ (-E).toNat := by
      have key : j + (-(E + (j : Int) - 1)).toNat = 1 + (-E).toNat := by omega
      calc D * 10 ^ j * 2 ^ F.qexp * 10 ^ (-(E + (j : Int) - 1)).toNat
          = D * 2 ^ F.qexp * 10 ^ (j + (-(E + (j : Int) - 1)).toNat) := by rw [Nat.pow_add]; ring
        _ = D * 2 ^ F.qexp * 10 ^ (1 + (-E).toNat) := by rw [key]
        _ = D * 10 * 2 ^ F.qexp * 10 ^ (-E).toNat := by rw [Nat.pow_add]; ring
    have hd0 : dNum F (D * 10 ^ j) E = D * 10 ^ j * 2 ^ F.qexp := by unfold dNum; rw [hEt]; simp
    rw [hd0] at hnear ⊢
    unfold dDen at hnear ⊢
    have near' : NearBelow F b (D * 10 * 2 ^ F.qexp) (10 ^ (-(E + (j : Int) - 1)).toNat) :=
      nearBelow_congr F b _ _ _ _ (Nat.pos_of_ne_zero (by simp)) (Nat.pos_of_ne_zero (by simp)) hcong hnear
    rw [smallAtof_eq h _ _ b (by omega) hb near'.1 near'.2,
      clampInf_of_le _ _ (by have := near_le F hmb1 _ _ b (Nat.pos_of_ne_zero (by simp)) hnear; omega)]
    exact roundMag_congr F _ _ _ _ (Nat.pos_of_ne_zero (by simp)) (Nat.pos_of_ne_zero (by simp)) hcong.symm

/-- **bhcomp, no side condition on the dropped digits** -/
theorem bhcomp_ok {c : FC} {F : Fmt} (h : FCok c F) (integer fraction : Bytes) (hdi : IsDigits integer)
    (hdf : IsDigits fraction) (hhead : ∀ d r, integer = d :: r → d ≠ 0x30)
    (hpos : 0 < natOfDigits (integer ++ fraction)) (exponent : Int)
    (hexp1 : -(2 ^ 30 : Int) < exponent) (hexp2 : exponent < 2 ^ 30)
    (hlen : integer.length + fraction.length < 2 ^ 30) (b : Nat) (hb : b < F.infBits)
    (hnear : NearBelow F b (dNum F (natOfDigits (integer ++ fraction)) (exponent - fraction.length))
      (dDen (exponent - fraction.length))) :
    bhcomp c b integer fraction exponent =
      roundDec F (natOfDigits (integer ++ fraction)) (exponent - fraction.length) := by
  by_cases hz : c.maxDigits - 1 < (sigDigits integer fraction).length →
      0 < natOfDigits ((sigDigits integer fraction).drop (c.maxDigits - 1))
  · exact bhcomp_eq h integer fraction hdi hdf hhead hpos exponent hexp1 hexp2 hlen b hb hz hnear
  · have hlt : c.maxDigits - 1 < (sigDigits integer fraction).length := by
      by_contra hc; exact hz (fun h' => absurd h' hc)
    have hzero : natOfDigits ((sigDigits integer fraction).drop (c.maxDigits - 1)) = 0 := by
      by_contra hc; exact hz (fun _ => Nat.pos_of_ne_zero hc)
    unfold bhcomp
    by_cases hint : integer = []
    · subst hint
      simp only [List.length_nil, beq_self_eq_true, if_true, List.nil_append, Nat.zero_add] at hpos hnear ⊢
      have hsigdef : sigDigits [] fraction = fraction.dropWhile (· == 0x30) := by
        unfold sigDigits; simp [drop_takeWhile_eq]
      rw [hsigdef] at hlt hzero
      rw [drop_takeWhile_eq]
      obtain ⟨start, hstart⟩ : ∃ s, s = (fraction.takeWhile (· == 0x30)).length := ⟨_, rfl⟩
      rw [← hstart]
      have hsl : start ≤ fraction.length := by rw [hstart]; exact (List.takeWhile_prefix _).length_le
      generalize hsig : fraction.dropWhile (· == 0x30) = sig at *
      have hsiglen : sig.length = fraction.length - start := by
        rw [← hsig, ← drop_takeWhile_eq, List.length_drop, hstart]
      have hNsig : natOfDigits sig = natOfDigits fraction := by rw [← hsig]; exact natOfDigits_dropWhile_zero _
      have hsd : IsDigits sig := by
        rw [← hsig, ← drop_takeWhile_eq]; exact isDigits_drop hdf _
      have hne : sig ≠ [] := by
        intro h0; rw [h0] at hNsig; rw [← hNsig] at hpos; simp [natOfDigits] at hpos
      have hh : ∀ d r, sig = d :: r → d ≠ 0x30 := by
        intro d r hdr
        have := dropWhile_head (· == 0x30) fraction d r (by rw [hsig]; exact hdr)
        simpa using this
      have hsci : scientificExponent exponent 0 start = exponent - start - 1 := by
        unfold scientificExponent intoI32
        simp only [beq_self_eq_true, if_true]
        rw [if_neg (by omega), satI32_id' (exponent - (start : Int)) (by omega) (by omega), satI32_id' _ (by omega) (by omega)]
      rw [hsci, parseMantissa_zero c (by have := h.maxd; omega) [] sig (by simpa using hsd) (by simpa using hlt)
        (by simpa using hzero)]
      simp only [List.nil_append]
      have hcount : fraction.length - start = sig.length := hsiglen.symm
      rw [hcount]
      have hsc : exponent - (start : Int) - 1 + 1 - ((min c.maxDigits sig.length : Nat) : Int) =
          (exponent - fraction.length) + (sig.length : Int) - ((min c.maxDigits sig.length : Nat) : Int) := by
        rw [hsiglen]; omega
      rw [hsc, ← hNsig]
      rw [← hNsig] at hnear
      exact atof_core_zero h sig hsd hh hne _ b hb hlt hzero hnear
    · have hil : (integer.length == 0) = false := by
        cases integer with
        | nil => exact absurd rfl hint
        | cons a l => simp
      have hsigdef : sigDigits integer fraction = integer ++ fraction := by unfold sigDigits; rw [hil]; rfl
      rw [hsigdef] at hlt hzero
      simp only [hil, Bool.false_eq_true, if_false, Nat.sub_zero]
      have hilpos : 1 ≤ integer.length := by
        cases integer with
        | nil => exact absurd rfl hint
        | cons a l => simp
      have hsci : scientificExponent exponent integer.length 0 = exponent + integer.length - 1 := by
        unfold scientificExponent intoI32
        rw [hil]
        simp only [Bool.false_eq_true, if_false]
        rw [if_neg (by omega), satI32_id' _ (by omega) (by omega)]
        omega
      rw [hsci, parseMantissa_zero c (by have := h.maxd; omega) integer fraction (isDigits_append hdi hdf) hlt hzero,
        ← List.length_append]
      have hsc : exponent + (integer.length : Int) - 1 + 1 - ((min c.maxDigits (integer ++ fraction).length : Nat) : Int) =
          (exponent - fraction.length) + ((integer ++ fraction).length : Int) - ((min c.maxDigits (integer ++ fraction).length : Nat) : Int) := by
        rw [List.length_append]; push_cast; omega
      rw [hsc]
      have hh : ∀ d r, integer ++ fraction = d :: r → d ≠ 0x30 := by
        intro d r hdr
        cases integer with
        | nil => exact absurd rfl hint
        | cons a l => simp at hdr; rw [← hdr.1]; exact hhead a l rfl
      exact atof_core_zero h (integer ++ fraction) (isDigits_append hdi hdf) hh (by
        intro h0; cases integer with
        | nil => exact hint rfl
        | cons a l => simp at h0) _ b hb hlt hzero hnear

end SJ.Proofs.LexTopBh
