import SJ.Spec.Grammar
import SJ.Spec.Denote
import SJ.Spec.Canon
import SJ.Model.Machine
/-!
Auxiliary equation/induction lemmas that Lean generates on demand (`fun_induction`, `split`,
`rw [f.eq_def]`) are generated HERE once, in a module that both the completeness and the soundness
developments import — otherwise each generates its own copy and the two cannot be imported together.
-/
namespace SJ.Proofs.SharedAux
open SJ SJ.Spec.Grammar

theorem surrogatesPairedStr_touch (items : List StrItem) :
    surrogatesPairedStr items = surrogatesPairedStr items := by
  fun_induction surrogatesPairedStr items <;> rfl

theorem surrogatesPairedStr_touch2 (a b c d : UInt8) (rest : List StrItem) :
    surrogatesPairedStr (.uni a b c d :: rest) = surrogatesPairedStr (.uni a b c d :: rest) := by
  rw [surrogatesPairedStr.eq_def]

theorem surrogatesPairedStr_touch3 (items : List StrItem) (h : surrogatesPairedStr items = true) : True := by
  unfold surrogatesPairedStr at h
  split at h <;> trivial

end SJ.Proofs.SharedAux
