import SJ.Proofs.TypedSerClosed
import SJ.Proofs.RoundTrip
/-!
# The document of a well-formed typed value (`valueOfL`, whole universe): its floats

A printer / parser pair that returns every finite double returns the `f64` members of a well-formed typed value and the floats
inside its `Value` members (`floatsRT_valueOfL`); a value without `f64` / `Value` members has no float at all.
-/
set_option linter.unusedSectionVars false
set_option linter.unusedVariables false

namespace SJ.Proofs.TypedSer
open SJ SJ.Model SJ.Model.TypedSer

variable (c : Spec.Canon.Cfg) (ext : Spec.Program.Ext)

theorem frts_map {α : Type} (f : α → JV) : ∀ xs : List α, (∀ x ∈ xs, Spec.WF.floatsRT c ext (f x) = true) →
    Spec.WF.floatsRTs c ext (xs.map f) = true
  | [], _ => rfl
  | x :: xs, h => by
    simp only [List.map_cons, Spec.WF.floatsRTs, Bool.and_eq_true]
    exact ⟨h x (by simp), frts_map f xs fun y hy => h y (by simp [hy])⟩

theorem frtm_map {α : Type} (k : α → Bytes) (f : α → JV) : ∀ xs : List α, (∀ x ∈ xs, Spec.WF.floatsRT c ext (f x) = true) →
    Spec.WF.floatsRTm c ext (xs.map fun x => (k x, f x)) = true
  | [], _ => rfl
  | x :: xs, h => by
    simp only [List.map_cons, Spec.WF.floatsRTm, Bool.and_eq_true]
    exact ⟨h x (by simp), frtm_map k f xs fun y hy => h y (by simp [hy])⟩

theorem frt_intJV (n : Int) : Spec.WF.floatsRT c ext (intJV n) = true := by
  unfold intJV
  split <;> rfl

variable (hall : ∀ b, Spec.Program.finite64 b = true → Spec.WF.floatRT c ext b = true) (r : UInt32 → Bytes)
include hall

mutual
theorem floatsRT_valueOfL : ∀ (s : Schema) (v : TVal), wfTVx c r s v = true → Spec.WF.floatsRT c ext (valueOfL r s v) = true
  | .bool, v, h => by cases v <;> simp_all [wfTVx, valueOfL, Spec.WF.floatsRT]
  | .int w, v, h => by
    cases v with
    | int n => simp only [valueOfL]; exact frt_intJV c ext n
    | _ => simp [wfTVx] at h
  | .f64, v, h => by
    cases v with
    | f64 b => simp only [wfTVx] at h; simp only [valueOfL, Spec.WF.floatsRT]; exact hall b h
    | _ => simp [wfTVx] at h
  | .f32, v, h => by cases v <;> simp_all [wfTVx, valueOfL, Spec.WF.floatsRT]
  | .char, v, h => by cases v <;> simp_all [wfTVx, valueOfL, Spec.WF.floatsRT]
  | .string, v, h => by cases v <;> simp_all [wfTVx, valueOfL, Spec.WF.floatsRT]
  | .bytes, v, h => by
    cases v with
    | bytes b =>
      simp only [valueOfL, Spec.WF.floatsRT]
      exact frts_map c ext _ b fun _ _ => rfl
    | _ => simp [wfTVx] at h
  | .option s, v, h => by
    cases v with
    | none => simp [valueOfL, Spec.WF.floatsRT]
    | some x =>
      simp only [wfTVx, Bool.and_eq_true] at h
      simp only [valueOfL]
      exact floatsRT_valueOfL s x h.1
    | _ => simp [wfTVx] at h
  | .unit, v, h => by simp [valueOfL, Spec.WF.floatsRT]
  | .unitStruct, v, h => by simp [valueOfL, Spec.WF.floatsRT]
  | .newtype s, v, h => by
    simp only [wfTVx] at h
    simp only [valueOfL]
    exact floatsRT_valueOfL s v h
  | .seq s, v, h => by
    cases v with
    | seq xs =>
      simp only [wfTVx, List.all_eq_true] at h
      simp only [valueOfL, Spec.WF.floatsRT]
      exact frts_map c ext _ xs fun x hx => floatsRT_valueOfL s x (h x hx)
    | _ => simp [wfTVx] at h
  | .tuple ss, v, h => by
    cases v with
    | seq xs =>
      simp only [wfTVx] at h
      simp only [valueOfL, Spec.WF.floatsRT]
      exact floatsRT_tupleL ss xs h
    | _ => simp [wfTVx] at h
  | .map k s, v, h => by
    cases v with
    | map kvs =>
      simp only [wfTVx, List.all_eq_true, Bool.and_eq_true] at h
      simp only [valueOfL, Spec.WF.floatsRT]
      exact frtm_map c ext _ _ kvs fun kv hx => floatsRT_valueOfL s kv.2 (h kv hx).2
    | _ => simp [wfTVx] at h
  | .struct_ fs d, v, h => by
    cases v with
    | struct_ xs =>
      simp only [wfTVx, Bool.and_eq_true] at h
      simp only [valueOfL, Spec.WF.floatsRT]
      exact floatsRT_fieldsL fs xs h.2
    | _ => simp [wfTVx] at h
  | .enum_ vs, v, h => by
    cases v with
    | variant i p =>
      simp only [wfTVx, Bool.and_eq_true] at h
      simp only [valueOfL]
      exact floatsRT_variantL vs i p h.2
    | _ => simp [wfTVx] at h
  | .ignored, v, h => by simp [wfTVx] at h
  | .any, v, h => by
    cases v with
    | any j => simp only [wfTVx] at h; simp only [valueOfL]; exact SJ.Proofs.RoundTrip.floatsRT_of_all c ext hall j h
    | _ => simp [wfTVx] at h
theorem floatsRT_tupleL : ∀ (ss : List Schema) (xs : List TVal), wfTupleX c r ss xs = true →
    Spec.WF.floatsRTs c ext (valueTupleL r ss xs) = true
  | [], xs, _ => by simp [valueTupleL, Spec.WF.floatsRTs]
  | s :: ss, [], h => by simp [wfTupleX] at h
  | s :: ss, x :: xs, h => by
    simp only [wfTupleX, Bool.and_eq_true] at h
    simp only [valueTupleL, Spec.WF.floatsRTs, Bool.and_eq_true]
    exact ⟨floatsRT_valueOfL s x h.1, floatsRT_tupleL ss xs h.2⟩
theorem floatsRT_fieldsL : ∀ (fs : List (Bytes × Schema)) (xs : List TVal), wfFieldsX c r fs xs = true →
    Spec.WF.floatsRTm c ext (valueFieldsL r fs xs) = true
  | [], xs, _ => by simp [valueFieldsL, Spec.WF.floatsRTm]
  | (n, s) :: fs, [], h => by simp [wfFieldsX] at h
  | (n, s) :: fs, x :: xs, h => by
    simp only [wfFieldsX, Bool.and_eq_true] at h
    simp only [valueFieldsL, Spec.WF.floatsRTm, Bool.and_eq_true]
    exact ⟨floatsRT_valueOfL s x h.1, floatsRT_fieldsL fs xs h.2⟩
theorem floatsRT_variantL : ∀ (vs : List (Bytes × VariantShape)) (i : Nat) (p : TVal), wfVariantX c r vs i p = true →
    Spec.WF.floatsRT c ext (valueVariantL r vs i p) = true
  | [], i, p, h => by simp [wfVariantX] at h
  | (n, sh) :: vs, 0, p, h => by
    simp only [wfVariantX] at h
    simp only [valueVariantL]
    exact floatsRT_shapeL n sh p h
  | (n, sh) :: vs, i + 1, p, h => by
    simp only [wfVariantX] at h
    simp only [valueVariantL]
    exact floatsRT_variantL vs i p h
theorem floatsRT_shapeL : ∀ (n : Bytes) (sh : VariantShape) (p : TVal), wfShapeX c r sh p = true →
    Spec.WF.floatsRT c ext (valueShapeL r n sh p) = true
  | n, .unit, p, _ => by simp [valueShapeL, Spec.WF.floatsRT]
  | n, .newtype s, p, h => by
    simp only [wfShapeX] at h
    simp [valueShapeL, Spec.WF.floatsRT, Spec.WF.floatsRTm, floatsRT_valueOfL s p h]
  | n, .tuple ss, p, h => by
    cases p with
    | seq xs =>
      simp only [wfShapeX] at h
      simp [valueShapeL, Spec.WF.floatsRT, Spec.WF.floatsRTm, floatsRT_tupleL ss xs h]
    | _ => simp [wfShapeX] at h
  | n, .struct_ fs, p, h => by
    cases p with
    | struct_ xs =>
      simp only [wfShapeX, Bool.and_eq_true] at h
      simp [valueShapeL, Spec.WF.floatsRT, Spec.WF.floatsRTm, floatsRT_fieldsL fs xs h.2]
    | _ => simp [wfShapeX] at h
end

end SJ.Proofs.TypedSer
