import SJ.Proofs.NumInt
import SJ.Proofs.Number
import SJ.Spec.Canon
/-!
# C04 helper lemmas, numbers: printed integers are read back as the same `PosInt` / `NegInt`

`numOf cfg (splitNumber (decimal n))` — the number the configured conversion makes of the decimal
digits `itoa` prints — is `PosInt n` for `0 ≤ n < 2^64` and `NegInt n` for `-2^63 ≤ n < 0`, in the
default and in the `float_roundtrip` build; under `arbitrary_precision` every literal is kept.
-/
namespace SJ.Proofs.RoundTripNum
open SJ SJ.Spec.Grammar SJ.Spec.Number SJ.Model.Num SJ.Proofs.NumInt SJ.Proofs.Number
open SJ.Spec.Canon (Cfg partsOf convert numOf)

/-! ## the digits of `n` have value `n` -/

theorem dig_ofNat (k : Nat) (h : k < 10) : dig (UInt8.ofNat (0x30 + k)) = k := by
  have : ∀ k, k < 10 → dig (UInt8.ofNat (0x30 + k)) = k := by decide
  exact this k h

theorem val_eq (sig : Nat) (ds : Bytes) : val sig ds = sig * 10 ^ ds.length + val 0 ds := by
  induction ds generalizing sig with
  | nil => simp [val]
  | cons c cs ih =>
    rw [val_cons, val_cons, ih, ih (0 * 10 + dig c)]
    simp only [List.length_cons, Nat.pow_succ, Nat.zero_mul, Nat.zero_add, Nat.add_mul]
    rw [Nat.mul_assoc, Nat.mul_comm 10, Nat.add_assoc]

theorem natOfDigits_cons (c : UInt8) (cs : Bytes) :
    natOfDigits (c :: cs) = dig c * 10 ^ cs.length + natOfDigits cs := by
  rw [natOfDigits_eq_val, val_cons, val_eq]; simp [natOfDigits_eq_val]

theorem natOfDigits_digitsAux (fuel n : Nat) (acc : Bytes) (hf : n < fuel) :
    natOfDigits (digitsAux fuel n acc) = n * 10 ^ acc.length + natOfDigits acc := by
  induction fuel generalizing n acc with
  | zero => omega
  | succ fuel ih =>
    simp only [digitsAux]
    split
    · rename_i h10
      rw [natOfDigits_cons, dig_ofNat _ (Nat.mod_lt _ (by omega)), Nat.mod_eq_of_lt h10]
    · rename_i h10
      rw [ih (n / 10) _ (by omega), natOfDigits_cons, dig_ofNat _ (Nat.mod_lt _ (by omega))]
      simp only [List.length_cons, Nat.pow_succ]
      have h := Nat.div_add_mod n 10
      generalize 10 ^ acc.length = P
      have e : n / 10 * (P * 10) + n % 10 * P = (10 * (n / 10) + n % 10) * P := by
        rw [Nat.add_mul, Nat.mul_comm 10 (n / 10), Nat.mul_assoc, Nat.mul_comm P 10]
      rw [← Nat.add_assoc, e, h]

theorem natOfDigits_natDigits (n : Nat) : natOfDigits (natDigits n) = n := by
  unfold natDigits
  rw [natOfDigits_digitsAux _ _ _ (by omega)]
  simp [natOfDigits]

theorem isDigits_of_all (ds : Bytes) (h : ds.all isDigit = true) : IsDigits ds := by
  intro c hc
  have := List.all_eq_true.1 h c hc
  simpa [isDigit] using this

theorem isDigits_natDigits (n : Nat) : IsDigits (natDigits n) :=
  isDigits_of_all _ (isInt_all _ (natDigits_isInt n)).1

/-! ## the parts of a printed integer -/

theorem splitNumber_decimal (n : Int) : splitNumber (decimal n) = decimalParts n := by
  rw [← decimalParts_bytes, splitNumber_parts _ (decimalParts_wf n)]

theorem partsOf_decimalParts (n : Int) :
    partsOf (decimalParts n) =
      { neg := decide (n < 0), int := natDigits n.natAbs, frac := none, exp := none, raw := (decimalParts n).bytes } := by
  simp [partsOf, decimalParts]

theorem intClass_decimal_pos (n : Nat) (h : n < 2 ^ 64) :
    intClass (partsOf (decimalParts (n : Int))) = some (.u64 n) := by
  rw [partsOf_decimalParts]
  have h0 : ¬ ((n : Int) < 0) := by omega
  simp [intClass, h0, natOfDigits_natDigits, h]

theorem intClass_decimal_neg (k : Int) (h1 : -(2 ^ 63 : Int) ≤ k) (h2 : k < 0) :
    intClass (partsOf (decimalParts k)) = some (.i64 k) := by
  rw [partsOf_decimalParts]
  have h3 : k.natAbs ≠ 0 := by omega
  have h4 : k.natAbs ≤ 2 ^ 63 := by omega
  have h5 : -(k.natAbs : Int) = k := by omega
  simp [intClass, h2, natOfDigits_natDigits, h3, h4, h5]

theorem convert_of_intClass (cfg : Cfg) (p : NumParts) (r : NRes) (hd : IsDigits (partsOf p).int)
    (h : intClass (partsOf p) = some r) : convert cfg p = r := by
  unfold convert
  split
  · exact convertRoundtrip_of_intClass_some _ _ h
  · exact convertDefault_of_intClass_some _ hd _ h

/-- **a printed `u64` is read back as `PosInt`** (default and `float_roundtrip`) -/
theorem numOf_decimal_pos (cfg : Cfg) (hap : cfg.ap = false) (n : Nat) (h : n < 2 ^ 64) :
    numOf cfg (splitNumber (decimal (n : Int))) = some (.pos n) := by
  rw [splitNumber_decimal]
  have hc := convert_of_intClass cfg (decimalParts n) _
    (by rw [partsOf_decimalParts]; exact isDigits_natDigits _) (intClass_decimal_pos n h)
  simp [numOf, hap, hc]

/-- **a printed negative `i64` is read back as `NegInt`** (default and `float_roundtrip`) -/
theorem numOf_decimal_neg (cfg : Cfg) (hap : cfg.ap = false) (k : Int) (h1 : -(2 ^ 63 : Int) ≤ k) (h2 : k < 0) :
    numOf cfg (splitNumber (decimal k)) = some (.neg k) := by
  rw [splitNumber_decimal]
  have hc := convert_of_intClass cfg (decimalParts k) _
    (by rw [partsOf_decimalParts]; exact isDigits_natDigits _) (intClass_decimal_neg k h1 h2)
  simp [numOf, hap, hc]

/-- **`arbitrary_precision`: any text is kept as it is** -/
theorem numOf_lit (cfg : Cfg) (hap : cfg.ap = true) (s : Bytes) :
    numOf cfg (splitNumber s) = some (.lit s) := by
  simp [numOf, hap, splitNumber_bytes]

end SJ.Proofs.RoundTripNum
