import SJ.Model.Swar
import SJ.Proofs.SwarWord
/-! Helper lemmas for `c05_swar_first_escape`: the per-chunk facts (from `Proofs.SwarWord`: byte-wise
    ripple of the three subtractions, 256-case byte lemmas — kernel-checked, no `bv_decide`), lifted
    over `chunks_exact`, the slow tail and the `memchr2` branch. -/
namespace SJ.Proofs.Swar
open SJ SJ.Model.Swar
open SJ.Spec.Str (stopsScan runLength)

/-- the extracted constants the chunk lemmas are proved for (a changed constant breaks this `rfl`
    or `SwarWord.masked_eq_mW`; the byte constants are checked in `SwarWord.byteOk_all`) -/
theorem consts : Gen.swarChunkBits = 64 ∧ Gen.swarStep = 8 ∧ Gen.swarTzDiv = 8 ∧ Gen.slowStep = 1 ∧
    Gen.slowInclCtrl = true := ⟨rfl, rfl, rfl, rfl, rfl⟩

theorem isEscape_eq (b : UInt8) (f : Bool) : isEscape b f = stopsScan b f := rfl

/-- `masked` with the extracted constants substituted -/
theorem masked_lit (c : BitVec 64) : masked c =
  (((c - 0x0101010101010101#64 * 0x20#64) &&& ~~~c) |||
   (((c ^^^ (0x0101010101010101#64 * 0x22#64)) - 0x0101010101010101#64) &&& ~~~(c ^^^ (0x0101010101010101#64 * 0x22#64))) |||
   (((c ^^^ (0x0101010101010101#64 * 0x5c#64)) - 0x0101010101010101#64) &&& ~~~(c ^^^ (0x0101010101010101#64 * 0x5c#64))))
   &&& (0x0101010101010101#64 <<< 7) := rfl

/-- "must the scan stop at this byte" (control characters forbidden) -/
abbrev e (b : UInt8) : Bool := stopsScan b true

/-- index of the first escape byte of an 8-byte chunk, 8 if there is none -/
def firstIdx (b0 b1 b2 b3 b4 b5 b6 b7 : UInt8) : BitVec 64 :=
  if e b0 then 0#64 else if e b1 then 1#64 else if e b2 then 2#64 else if e b3 then 3#64
  else if e b4 then 4#64 else if e b5 then 5#64 else if e b6 then 6#64 else if e b7 then 7#64 else 8#64

/-! ### list-level facts about `runLength` -/

theorem runLength_nil (f : Bool) : runLength [] f = 0 := rfl

theorem runLength_cons (b : UInt8) (l : Bytes) (f : Bool) :
    runLength (b :: l) f = if stopsScan b f then 0 else 1 + runLength l f := by
  unfold runLength
  cases h : stopsScan b f <;> simp [h, Nat.add_comm]

theorem runLength_le (l : Bytes) (f : Bool) : runLength l f ≤ l.length := by
  induction l with
  | nil => simp [runLength_nil]
  | cons b l ih => rw [runLength_cons]; split <;> simp <;> omega

theorem runLength_append (l1 l2 : Bytes) (f : Bool) :
    runLength (l1 ++ l2) f = if runLength l1 f < l1.length then runLength l1 f else l1.length + runLength l2 f := by
  induction l1 with
  | nil => simp [runLength_nil]
  | cons b l ih =>
    simp only [List.cons_append, runLength_cons, List.length_cons]
    cases h : stopsScan b f
    · simp only [Bool.false_eq_true, if_false, ih]
      split <;> rename_i h1
      · have : 1 + runLength l f < l.length + 1 := by omega
        simp [this]
      · have : ¬ (1 + runLength l f < l.length + 1) := by omega
        simp [this]; omega
    · simp

theorem runLength_drop (l : Bytes) (f : Bool) (k : Nat) (h : k ≤ runLength l f) :
    runLength l f = k + runLength (l.drop k) f := by
  induction k generalizing l with
  | zero => simp
  | succ k ih =>
    cases l with
    | nil => simp [runLength_nil] at h
    | cons b l =>
      rw [runLength_cons] at h ⊢
      cases hb : stopsScan b f
      · simp only [hb, Bool.false_eq_true, if_false] at h ⊢
        rw [List.drop_succ_cons, ih l (by omega)]; omega
      · simp [hb] at h

theorem runLength_lt_stops (l : Bytes) (f : Bool) (h : runLength l f < l.length) :
    stopsScan (l.getD (runLength l f) 0) f = true := by
  induction l with
  | nil => simp at h
  | cons b l ih =>
    rw [runLength_cons] at h ⊢
    cases hb : stopsScan b f
    · simp only [hb, Bool.false_eq_true, if_false, List.length_cons] at h ⊢
      rw [Nat.add_comm, List.getD_cons_succ]
      exact ih (by omega)
    · simp [hb]

theorem runLength_before (l : Bytes) (f : Bool) (j : Nat) (h : j < runLength l f) :
    stopsScan (l.getD j 0) f = false := by
  induction l generalizing j with
  | nil => simp [runLength_nil] at h
  | cons b l ih =>
    rw [runLength_cons] at h
    cases hb : stopsScan b f
    · simp only [hb, Bool.false_eq_true, if_false] at h
      cases j with
      | zero => simpa using hb
      | succ j => rw [List.getD_cons_succ]; exact ih j (by omega)
    · simp [hb] at h

theorem eight (l : Bytes) (h : l.length = 8) :
    ∃ b0 b1 b2 b3 b4 b5 b6 b7, l = [b0, b1, b2, b3, b4, b5, b6, b7] := by
  match l, h with
  | [b0, b1, b2, b3, b4, b5, b6, b7], _ => exact ⟨b0, b1, b2, b3, b4, b5, b6, b7, rfl⟩

theorem firstIdx_aux : ∀ s0 s1 s2 s3 s4 s5 s6 s7 : Bool,
    (if s0 then 0#64 else if s1 then 1#64 else if s2 then 2#64 else if s3 then 3#64
      else if s4 then 4#64 else if s5 then 5#64 else if s6 then 6#64 else if s7 then 7#64 else 8#64).toNat =
    (if s0 then 0 else 1 + if s1 then 0 else 1 + if s2 then 0 else 1 + if s3 then 0 else 1 +
      if s4 then 0 else 1 + if s5 then 0 else 1 + if s6 then 0 else 1 + if s7 then 0 else 1 + 0) := by
  decide

/-- `firstIdx` is `runLength` of the chunk -/
theorem firstIdx_toNat (b0 b1 b2 b3 b4 b5 b6 b7 : UInt8) :
    (firstIdx b0 b1 b2 b3 b4 b5 b6 b7).toNat = runLength [b0, b1, b2, b3, b4, b5, b6, b7] true := by
  simp only [runLength_cons, runLength_nil, firstIdx, e]
  exact firstIdx_aux _ _ _ _ _ _ _ _

/-- per-chunk fact 1: the mask is zero iff no byte of the chunk is an escape byte -/
theorem chunk_zero (b0 b1 b2 b3 b4 b5 b6 b7 : UInt8) :
    masked (fromLeBytes [b0, b1, b2, b3, b4, b5, b6, b7]) = 0#64 ↔ firstIdx b0 b1 b2 b3 b4 b5 b6 b7 = 8#64 := by
  rw [(SwarWord.chunk_run [b0, b1, b2, b3, b4, b5, b6, b7] rfl).1, ← firstIdx_toNat]
  constructor
  · intro h; exact BitVec.eq_of_toNat_eq (by simpa using h)
  · intro h; rw [h]; rfl

/-- per-chunk fact 2: if the mask is non-zero, `trailing_zeros / 8` is the index of the first
    escape byte (borrow propagation can only set spurious bits *above* the first true one) -/
theorem chunk_ctz (b0 b1 b2 b3 b4 b5 b6 b7 : UInt8)
    (h : masked (fromLeBytes [b0, b1, b2, b3, b4, b5, b6, b7]) ≠ 0#64) :
    (masked (fromLeBytes [b0, b1, b2, b3, b4, b5, b6, b7])).ctz / 8#64 = firstIdx b0 b1 b2 b3 b4 b5 b6 b7 := by
  apply BitVec.eq_of_toNat_eq
  rw [BitVec.toNat_udiv, firstIdx_toNat]
  exact (SwarWord.chunk_run [b0, b1, b2, b3, b4, b5, b6, b7] rfl).2 h

/-- what one loop iteration learns from a chunk of 8 bytes -/
theorem chunk_fact (chunk : Bytes) (h : chunk.length = 8) :
    (masked (fromLeBytes chunk) = 0#64 → runLength chunk true = 8) ∧
    (masked (fromLeBytes chunk) ≠ 0#64 →
      (masked (fromLeBytes chunk)).ctz.toNat / 8 = runLength chunk true ∧ runLength chunk true < 8) := by
  obtain ⟨b0, b1, b2, b3, b4, b5, b6, b7, rfl⟩ := eight chunk h
  rw [← firstIdx_toNat]
  constructor
  · intro hz
    rw [(chunk_zero b0 b1 b2 b3 b4 b5 b6 b7).mp hz]; rfl
  · intro hnz
    have h1 := chunk_ctz b0 b1 b2 b3 b4 b5 b6 b7 hnz
    have h2 : firstIdx b0 b1 b2 b3 b4 b5 b6 b7 ≠ 8#64 := fun hc => hnz ((chunk_zero b0 b1 b2 b3 b4 b5 b6 b7).mpr hc)
    have h3 : (firstIdx b0 b1 b2 b3 b4 b5 b6 b7).toNat ≤ 8 := by
      rw [firstIdx_toNat]; exact runLength_le _ _
    have h4 : (firstIdx b0 b1 b2 b3 b4 b5 b6 b7).toNat ≠ 8 := fun hc => h2 (BitVec.eq_of_toNat_eq (by simpa using hc))
    refine ⟨?_, by omega⟩
    rw [← h1, BitVec.toNat_udiv]; rfl

/-- the `chunks_exact` loop: either it returns the first escape index (which lies in the part
    covered by chunks), or it completes and all `8 * n` bytes are escape-free -/
theorem chunkScan_spec (n : Nat) (rest : Bytes) (off : Nat) (hlen : 8 * n ≤ rest.length) :
    match chunkScan rest off n with
    | some r => r = off + runLength rest true ∧ runLength rest true < 8 * n
    | none => 8 * n ≤ runLength rest true := by
  induction n generalizing rest off with
  | zero => simp [chunkScan]
  | succ n ih =>
    have hsplit : rest = rest.take 8 ++ rest.drop 8 := (List.take_append_drop 8 rest).symm
    have htake : (rest.take 8).length = 8 := by simp; omega
    obtain ⟨hz, hnz⟩ := chunk_fact (rest.take 8) htake
    have hrl := runLength_append (rest.take 8) (rest.drop 8) true
    rw [← hsplit, htake] at hrl
    simp only [chunkScan, consts.2.1, consts.2.2.1]
    by_cases hm : masked (fromLeBytes (rest.take 8)) = 0#64
    · have h8 := hz hm
      have hb : (masked (fromLeBytes (rest.take 8)) != (0 : BitVec 64)) = false := by simp [hm]
      simp only [hb, Bool.false_eq_true, if_false]
      have ih' := ih (rest.drop 8) (off + 8) (by simp; omega)
      rw [h8] at hrl
      simp only [Nat.lt_irrefl, if_false] at hrl
      cases hr : chunkScan (rest.drop 8) (off + 8) n with
      | some r =>
        rw [hr] at ih'
        simp only at ih' ⊢
        exact ⟨by omega, by omega⟩
      | none =>
        rw [hr] at ih'
        simp only at ih' ⊢
        omega
    · obtain ⟨hc, hlt⟩ := hnz hm
      have hb : (masked (fromLeBytes (rest.take 8)) != (0 : BitVec 64)) = true := by simpa using hm
      simp only [hb, if_true]
      simp only [hlt, if_true] at hrl
      exact ⟨by omega, by omega⟩

/-- the slow tail is the naive scan -/
theorem slowLoop_eq (slice : Bytes) (fuel index : Nat) (hf : slice.length - index ≤ fuel) (hi : index ≤ slice.length) :
    slowLoop slice index fuel = index + runLength (slice.drop index) true := by
  induction fuel generalizing index with
  | zero =>
    have : index = slice.length := by omega
    simp [slowLoop, this, runLength_nil]
  | succ fuel ih =>
    simp only [slowLoop, consts.2.2.2.1, consts.2.2.2.2, isEscape_eq]
    by_cases hlt : index < slice.length
    · have hd : slice.drop index = slice[index] :: slice.drop (index + 1) := List.drop_eq_getElem_cons hlt
      have hg : slice.getD index 0 = slice[index] := by simp [List.getD_eq_getElem?_getD, hlt]
      rw [hd, runLength_cons, hg]
      cases hs : stopsScan slice[index] true
      · simp only [hlt, decide_true, Bool.not_false, Bool.and_self, if_true, Bool.false_eq_true, if_false]
        rw [ih (index + 1) (by omega) (by omega)]; omega
      · simp
    · have : index = slice.length := by omega
      simp [this, runLength_nil]

theorem skipToEscapeSlow_eq (slice : Bytes) (index : Nat) (hi : index ≤ slice.length) :
    skipToEscapeSlow slice index = index + runLength (slice.drop index) true :=
  slowLoop_eq slice _ index (Nat.le_refl _) hi

/-- `memchr2(b'"', b'\\', rest).unwrap_or(rest.len())` is the naive scan without control characters -/
theorem memchr2_eq (rest : Bytes) :
    (memchr2 Gen.memchr2A Gen.memchr2B rest).getD rest.length = runLength rest false := by
  unfold memchr2
  induction rest with
  | nil => simp [runLength_nil]
  | cons b l ih =>
    rw [runLength_cons, List.findIdx?_cons]
    have hb : stopsScan b false = (b == Gen.memchr2A || b == Gen.memchr2B) := by
      simp [stopsScan, Gen.memchr2A, Gen.memchr2B]
    rw [hb]
    cases hc : (b == Gen.memchr2A || b == Gen.memchr2B)
    · simp only [Bool.false_eq_true, if_false]
      cases hf : List.findIdx? (fun b => b == Gen.memchr2A || b == Gen.memchr2B) l with
      | none => simp [hf] at ih ⊢; omega
      | some k => simp [hf] at ih ⊢; omega
    · simp

theorem skipToEscape_eq (slice : Bytes) (index : Nat) (forbid : Bool) (hi : index ≤ slice.length) :
    skipToEscape slice index forbid = Spec.Str.firstEscape slice index forbid := by
  unfold skipToEscape Spec.Str.firstEscape
  by_cases hlen : index = slice.length
  · subst hlen; simp [runLength_nil]
  · have hlt : index < slice.length := by omega
    have hd : slice.drop index = slice[index] :: slice.drop (index + 1) := List.drop_eq_getElem_cons hlt
    have hg : slice.getD index 0 = slice[index] := by simp [List.getD_eq_getElem?_getD, hlt]
    have hne : (index == slice.length) = false := by simpa using hlen
    rw [hd, runLength_cons, hg, isEscape_eq, hne]
    cases hs : stopsScan slice[index] forbid
    · simp only [Bool.false_or, Bool.false_eq_true, if_false]
      cases forbid with
      | false =>
        simp only [Bool.not_false, if_true]
        rw [memchr2_eq]; omega
      | true =>
        simp only [Bool.not_true, Bool.false_eq_true, if_false, consts.2.1]
        have hspec := chunkScan_spec ((slice.drop (index + 1)).length / 8) (slice.drop (index + 1)) (index + 1) (by omega)
        split <;> rename_i r hr
        · rw [hr] at hspec; omega
        · rw [hr] at hspec
          simp only at hspec
          rw [skipToEscapeSlow_eq _ _ (by simp; omega)]
          rw [runLength_drop (slice.drop (index + 1)) true _ hspec, List.drop_drop]
          have : index + 1 + (slice.drop (index + 1)).length / 8 * 8 =
              index + 1 + 8 * ((slice.drop (index + 1)).length / 8) := by omega
          rw [this]; omega
    · simp

theorem firstEscape_le (slice : Bytes) (index : Nat) (forbid : Bool) (hi : index ≤ slice.length) :
    Spec.Str.firstEscape slice index forbid ≤ slice.length := by
  unfold Spec.Str.firstEscape
  have := runLength_le (slice.drop index) forbid
  simp at this; omega

end SJ.Proofs.Swar
