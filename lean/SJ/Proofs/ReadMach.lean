import SJ.Proofs.Machine
import SJ.Proofs.Hex
/-!
# The byte-step machine's string handling, isolated

`strRun env stk st i xs` iterates the machine's `stepStr` over `xs` from string state `st` (the opening quote
has been consumed; `i` is the index of the first byte of `xs`) until the closing quote, the first error, or the
end of the input. `run_strRun` is the link with the machine proper: a `run` that stands in a string state is
`strRun`, then `endStr` at the closing quote, then the `run` of whatever follows.

The big-step lemmas below (`strRun_plain`, `strRun_simple`, `strRun_hex…`) say what `strRun` does across one
unescaped byte, one simple escape, one `\uXXXX` group …: the granularity at which the two readers of
`src/read.rs` work (`Proofs/ReadEscape.lean`, `Proofs/ReadSlice.lean`, `Proofs/ReadIo.lean`).
-/
namespace SJ.Proofs.ReadMach
open SJ SJ.Gen SJ.Model.Machine SJ.Proofs.Machine

/-- where the iterated `stepStr` stops -/
inductive StrRes where
  /-- the closing quote (the byte before index `j`) was met outside an escape in string state `st`; the
      machine's step on it is `endStr env _ st`; `rest` is the unread input -/
  | closed (st : StrSt) (j : Nat) (rest : Bytes)
  /-- `stepStr` failed, or the input ended inside the literal (`finish`: `EofWhileParsingString`) -/
  | err (c : Code) (j : Nat)
deriving Repr

/-- is this byte the closing quote in string state `st`? -/
def isClose (st : StrSt) (b : UInt8) : Bool :=
  (match st.esc with | .none => true | _ => false) && b == 0x22

def strRun (env : Env) (stk : List Frame) : StrSt → Nat → Bytes → StrRes
  | _, i, [] => .err .EofWhileParsingString i
  | st, i, b :: bs =>
    if isClose st b then .closed st (i + 1) bs
    else
      match stepStr env { mode := .str st, stack := stk } st b with
      | .next s' =>
        match s'.mode with
        | .str st' => strRun env stk st' (i + 1) bs
        | _ => .err .ExpectedSomeValue (i + 1)          -- unreachable (`stepStr_open`)
      | .again _ => .err .ExpectedSomeValue (i + 1)      -- unreachable
      | .err c a => .err c (errIdx env a i)

/-- the byte is the closing quote: the machine's step is `endStr` -/
theorem stepStr_close (env : Env) (s : St) (st : StrSt) (b : UInt8) (h : isClose st b = true) :
    stepStr env s st b = endStr env s st := by
  obtain ⟨out, esc, isKey, escaped⟩ := st
  cases esc <;> simp [isClose] at h
  subst h
  simp [stepStr]

/-- any other byte keeps the machine in a string state on the same stack, or fails -/
theorem stepStr_open (env : Env) (stk : List Frame) (st : StrSt) (b : UInt8) (h : isClose st b = false) :
    (∃ st', stepStr env { mode := .str st, stack := stk } st b = .next { mode := .str st', stack := stk }) ∨
    (∃ c, stepStr env { mode := .str st, stack := stk } st b = .err c .incl) := by
  obtain ⟨out, esc, isKey, escaped⟩ := st
  cases esc with
  | none =>
    simp [isClose] at h
    simp only [stepStr, beq_iff_eq, h, if_false]
    repeat' split
    all_goals first | exact .inl ⟨_, rfl⟩ | exact .inr ⟨_, rfl⟩
  | bs =>
    simp only [stepStr]
    repeat' split
    all_goals first | exact .inl ⟨_, rfl⟩ | exact .inr ⟨_, rfl⟩
  | hex acc lead =>
    simp only [stepStr]
    repeat' split
    all_goals first | exact .inl ⟨_, rfl⟩ | exact .inr ⟨_, rfl⟩
  | lead1 n1 =>
    simp only [stepStr]
    repeat' split
    all_goals first | exact .inl ⟨_, rfl⟩ | exact .inr ⟨_, rfl⟩
  | lead2 n1 =>
    simp only [stepStr]
    repeat' split
    all_goals first | exact .inl ⟨_, rfl⟩ | exact .inr ⟨_, rfl⟩

/-- what the machine does after `strRun`: `endStr` at the closing quote, then on with the rest -/
def afterStr (env : Env) (stk : List Frame) : StrRes → Outcome
  | .closed st j rest =>
    match endStr env { mode := .str st, stack := stk } st with
    | .next s' => run env s' j rest
    | .err c a => .err c (errIdx env a (j - 1))
    | .again _ => .err .ExpectedSomeValue j             -- `endStr` never answers `again`
  | .err c j => .err c j

/-- **the link**: a run of the machine that stands inside a string literal is the iterated `stepStr`
    (`strRun`), `endStr` at the closing quote, and the run of what follows -/
theorem run_strRun (env : Env) (stk : List Frame) (st : StrSt) (i : Nat) (xs : Bytes) :
    run env { mode := .str st, stack := stk } i xs = afterStr env stk (strRun env stk st i xs) := by
  induction xs generalizing st i with
  | nil => simp [run, strRun, afterStr, finish, finishMode]
  | cons b bs ih =>
    simp only [run, strRun, step, step1]
    cases hc : isClose st b with
    | true =>
      simp only [if_true, afterStr, Nat.add_sub_cancel]
      rw [stepStr_close env _ st b hc]
      have hne : ∀ s', endStr env { mode := .str st, stack := stk } st ≠ .again s' := by
        intro s'; unfold endStr; simp only; repeat' split
        all_goals simp
      cases he : endStr env { mode := .str st, stack := stk } st with
      | next s' => rfl
      | err c a => rfl
      | again s' => exact absurd he (hne s')
    | false =>
      simp only [Bool.false_eq_true, if_false]
      rcases stepStr_open env stk st b hc with ⟨st', h⟩ | ⟨c, h⟩
      · rw [h]; simp only; exact ih st' (i + 1)
      · rw [h]; simp only [afterStr]

/-! ## the sources: `strRun` never looks at `env.src`, nor at anything of `env.cfg` -/

theorem stepStr_open_src (env env' : Env) (htgt : env.tgt = env'.tgt) (s : St) (st : StrSt) (b : UInt8)
    (h : isClose st b = false) : stepStr env s st b = stepStr env' s st b := by
  obtain ⟨out, esc, isKey, escaped⟩ := st
  cases esc with
  | none =>
    simp [isClose] at h
    simp only [stepStr, beq_iff_eq, h, if_false]
  | bs => simp only [stepStr]
  | hex acc lead => simp only [stepStr, htgt]
  | lead1 n1 => simp only [stepStr]
  | lead2 n1 => simp only [stepStr]

theorem errIdx_incl (env : Env) (i : Nat) : errIdx env .incl i = i + 1 := by
  unfold errIdx; cases env.src <;> rfl

theorem strRun_src (env env' : Env) (htgt : env.tgt = env'.tgt) (stk : List Frame) (st : StrSt) (i : Nat) (xs : Bytes) :
    strRun env stk st i xs = strRun env' stk st i xs := by
  induction xs generalizing st i with
  | nil => rfl
  | cons b bs ih =>
    simp only [strRun]
    cases hc : isClose st b with
    | true => rfl
    | false =>
      simp only [Bool.false_eq_true, if_false]
      rw [← stepStr_open_src env env' htgt _ st b hc]
      rcases stepStr_open env stk st b hc with ⟨st', h⟩ | ⟨c, h⟩
      · rw [h]; simp only; exact ih st' (i + 1)
      · rw [h]; simp only [errIdx_incl]

/-! ## big steps -/

section big
variable (env : Env) (stk : List Frame)

theorem strRun_nil (st : StrSt) (i : Nat) : strRun env stk st i [] = .err .EofWhileParsingString i := rfl

/-- the closing quote -/
theorem strRun_quote (st : StrSt) (h : st.esc = .none) (i : Nat) (bs : Bytes) :
    strRun env stk st i (0x22 :: bs) = .closed st (i + 1) bs := by
  obtain ⟨out, esc, isKey, escaped⟩ := st
  simp only at h; subst h
  simp [strRun, isClose]

/-- one unescaped byte is copied -/
theorem strRun_plain (st : StrSt) (h : st.esc = .none) (i : Nat) (b : UInt8) (bs : Bytes)
    (hq : b ≠ 0x22) (hb : b ≠ 0x5c) (hc : ¬ b < 0x20) :
    strRun env stk st i (b :: bs) = strRun env stk { st with out := b :: st.out } (i + 1) bs := by
  obtain ⟨out, esc, isKey, escaped⟩ := st
  simp only at h; subst h
  simp [strRun, isClose, stepStr, hq, hb, hc]

/-- a control character -/
theorem strRun_ctrl (st : StrSt) (h : st.esc = .none) (i : Nat) (b : UInt8) (bs : Bytes)
    (hq : b ≠ 0x22) (hb : b ≠ 0x5c) (hc : b < 0x20) :
    strRun env stk st i (b :: bs) = .err .ControlCharacterWhileParsingString (i + 1) := by
  obtain ⟨out, esc, isKey, escaped⟩ := st
  simp only at h; subst h
  simp [strRun, isClose, stepStr, hq, hb, hc, errIdx_incl]

/-- the backslash -/
theorem strRun_backslash (st : StrSt) (h : st.esc = .none) (i : Nat) (bs : Bytes) :
    strRun env stk st i (0x5c :: bs) = strRun env stk { st with esc := .bs, escaped := true } (i + 1) bs := by
  obtain ⟨out, esc, isKey, escaped⟩ := st
  simp only at h; subst h
  simp [strRun, isClose, stepStr]

/-- a run of unescaped bytes is copied -/
theorem strRun_run (st : StrSt) (h : st.esc = .none) (i : Nat) (ys bs : Bytes)
    (hys : ∀ b ∈ ys, b ≠ 0x22 ∧ b ≠ 0x5c ∧ ¬ b < 0x20) :
    strRun env stk st i (ys ++ bs) = strRun env stk { st with out := ys.reverse ++ st.out } (i + ys.length) bs := by
  induction ys generalizing st i with
  | nil => simp
  | cons y ys ih =>
    have hy := hys y (by simp)
    rw [List.cons_append, strRun_plain env stk st h i y _ hy.1 hy.2.1 hy.2.2]
    rw [ih _ (by simpa using h) _ (fun b hb => hys b (by simp [hb]))]
    simp only [List.reverse_cons, List.append_assoc, List.singleton_append, List.length_cons]
    congr 1; omega

/-- after `\`: a simple escape -/
theorem strRun_simple (st : StrSt) (h : st.esc = .bs) (i : Nat) (b : UInt8) (bs : Bytes)
    (hs : Spec.Grammar.isSimpleEscape b = true) :
    strRun env stk st i (b :: bs) =
      strRun env stk { st with out := Spec.Denote.simpleEscape b :: st.out, esc := .none } (i + 1) bs := by
  obtain ⟨out, esc, isKey, escaped⟩ := st
  simp only at h; subst h
  have hu : b ≠ 0x75 := by rintro rfl; simp [Spec.Grammar.isSimpleEscape] at hs
  simp [strRun, isClose, stepStr, hu, hs]

/-- after `\`: `u` -/
theorem strRun_u (st : StrSt) (h : st.esc = .bs) (i : Nat) (bs : Bytes) :
    strRun env stk st i (0x75 :: bs) = strRun env stk { st with esc := .hex [] none } (i + 1) bs := by
  obtain ⟨out, esc, isKey, escaped⟩ := st
  simp only at h; subst h
  simp [strRun, isClose, stepStr]

/-- after `\`: anything else -/
theorem strRun_badEscape (st : StrSt) (h : st.esc = .bs) (i : Nat) (b : UInt8) (bs : Bytes)
    (hs : Spec.Grammar.isSimpleEscape b = false) (hu : b ≠ 0x75) :
    strRun env stk st i (b :: bs) = .err .InvalidEscape (i + 1) := by
  obtain ⟨out, esc, isKey, escaped⟩ := st
  simp only at h; subst h
  simp [strRun, isClose, stepStr, hu, hs, errIdx_incl]

/-- fewer than four bytes after `\u`: the input ends inside the group, whatever the bytes are -/
theorem strRun_hex_short (st : StrSt) (lead : Option Nat) (h : st.esc = .hex [] lead) (i : Nat) (xs : Bytes)
    (hl : xs.length < 4) : strRun env stk st i xs = .err .EofWhileParsingString (i + xs.length) := by
  obtain ⟨out, esc, isKey, escaped⟩ := st
  simp only at h; subst h
  match xs, hl with
  | [], _ => rfl
  | [a], _ => simp [strRun, isClose, stepStr]
  | [a, b], _ => simp [strRun, isClose, stepStr]
  | [a, b, c], _ => simp [strRun, isClose, stepStr]

/-- four bytes after `\u`: the machine is where `stepStr` on the fourth leaves it -/
theorem strRun_hex4 (st : StrSt) (lead : Option Nat) (h : st.esc = .hex [] lead) (i : Nat) (a b c d : UInt8) (xs : Bytes) :
    strRun env stk st i (a :: b :: c :: d :: xs) =
      strRun env stk { st with esc := .hex [a, b, c] lead } (i + 3) (d :: xs) := by
  obtain ⟨out, esc, isKey, escaped⟩ := st
  simp only at h; subst h
  simp [strRun, isClose, stepStr]

/-- the fourth byte of a group that is not four hex digits -/
theorem strRun_hex_bad (st : StrSt) (lead : Option Nat) (a b c d : UInt8) (h : st.esc = .hex [a, b, c] lead)
    (i : Nat) (xs : Bytes) (hn : hex4 [a, b, c, d] = none) :
    strRun env stk st i (d :: xs) = .err .InvalidEscape (i + 1) := by
  obtain ⟨out, esc, isKey, escaped⟩ := st
  simp only at h; subst h
  simp [strRun, isClose, stepStr, hn, errIdx_incl]

/-- skipped content: a complete group is consumed, whatever its value (`ignore_escape`) -/
theorem strRun_hex_ignored (henv : env.tgt = .ignored) (st : StrSt) (lead : Option Nat) (a b c d : UInt8)
    (h : st.esc = .hex [a, b, c] lead) (i : Nat) (xs : Bytes) (n : Nat) (hn : hex4 [a, b, c, d] = some n) :
    strRun env stk st i (d :: xs) = strRun env stk { st with esc := .none } (i + 1) xs := by
  obtain ⟨out, esc, isKey, escaped⟩ := st
  simp only at h; subst h
  simp [strRun, isClose, stepStr, hn, henv]

/-- a first group that is a trailing surrogate -/
theorem strRun_hex_trail (henv : env.tgt = .value) (st : StrSt) (a b c d : UInt8)
    (h : st.esc = .hex [a, b, c] none) (i : Nat) (xs : Bytes) (n : Nat) (hn : hex4 [a, b, c, d] = some n)
    (h1 : 0xDC00 ≤ n) (h2 : n ≤ 0xDFFF) :
    strRun env stk st i (d :: xs) = .err .LoneLeadingSurrogateInHexEscape (i + 1) := by
  obtain ⟨out, esc, isKey, escaped⟩ := st
  simp only at h; subst h
  simp [strRun, isClose, stepStr, hn, henv, h1, h2, errIdx_incl]

/-- a first group that is a leading surrogate -/
theorem strRun_hex_lead (henv : env.tgt = .value) (st : StrSt) (a b c d : UInt8)
    (h : st.esc = .hex [a, b, c] none) (i : Nat) (xs : Bytes) (n : Nat) (hn : hex4 [a, b, c, d] = some n)
    (h1 : 0xD800 ≤ n) (h2 : n ≤ 0xDBFF) :
    strRun env stk st i (d :: xs) = strRun env stk { st with esc := .lead1 n } (i + 1) xs := by
  obtain ⟨out, esc, isKey, escaped⟩ := st
  simp only at h; subst h
  have h3 : ¬ (0xDC00 ≤ n ∧ n ≤ 0xDFFF) := by omega
  simp [strRun, isClose, stepStr, hn, henv, h1, h2, h3]

/-- a first group that is no surrogate: the scalar value is pushed -/
theorem strRun_hex_scalar (henv : env.tgt = .value) (st : StrSt) (a b c d : UInt8)
    (h : st.esc = .hex [a, b, c] none) (i : Nat) (xs : Bytes) (n : Nat) (hn : hex4 [a, b, c, d] = some n)
    (h1 : n < 0xD800 ∨ 0xDFFF < n) :
    strRun env stk st i (d :: xs) =
      strRun env stk { st with out := (Spec.Denote.utf8 n).reverse ++ st.out, esc := .none } (i + 1) xs := by
  obtain ⟨out, esc, isKey, escaped⟩ := st
  simp only at h; subst h
  have h3 : ¬ (0xDC00 ≤ n ∧ n ≤ 0xDFFF) := by omega
  have h4 : ¬ (0xD800 ≤ n ∧ n ≤ 0xDBFF) := by omega
  simp [strRun, isClose, stepStr, hn, henv, h3, h4]

/-- after a leading surrogate: `\` -/
theorem strRun_lead1 (st : StrSt) (n1 : Nat) (h : st.esc = .lead1 n1) (i : Nat) (xs : Bytes) :
    strRun env stk st i (0x5c :: xs) = strRun env stk { st with esc := .lead2 n1 } (i + 1) xs := by
  obtain ⟨out, esc, isKey, escaped⟩ := st
  simp only at h; subst h
  simp [strRun, isClose, stepStr]

theorem strRun_lead1_bad (st : StrSt) (n1 : Nat) (h : st.esc = .lead1 n1) (i : Nat) (b : UInt8) (xs : Bytes)
    (hb : b ≠ 0x5c) : strRun env stk st i (b :: xs) = .err .UnexpectedEndOfHexEscape (i + 1) := by
  obtain ⟨out, esc, isKey, escaped⟩ := st
  simp only at h; subst h
  simp [strRun, isClose, stepStr, hb, errIdx_incl]

/-- … then `u` -/
theorem strRun_lead2 (st : StrSt) (n1 : Nat) (h : st.esc = .lead2 n1) (i : Nat) (xs : Bytes) :
    strRun env stk st i (0x75 :: xs) = strRun env stk { st with esc := .hex [] (some n1) } (i + 1) xs := by
  obtain ⟨out, esc, isKey, escaped⟩ := st
  simp only at h; subst h
  simp [strRun, isClose, stepStr]

theorem strRun_lead2_bad (st : StrSt) (n1 : Nat) (h : st.esc = .lead2 n1) (i : Nat) (b : UInt8) (xs : Bytes)
    (hb : b ≠ 0x75) : strRun env stk st i (b :: xs) = .err .UnexpectedEndOfHexEscape (i + 1) := by
  obtain ⟨out, esc, isKey, escaped⟩ := st
  simp only at h; subst h
  simp [strRun, isClose, stepStr, hb, errIdx_incl]

/-- the second group is no trailing surrogate -/
theorem strRun_hex2_bad (henv : env.tgt = .value) (st : StrSt) (n1 : Nat) (a b c d : UInt8)
    (h : st.esc = .hex [a, b, c] (some n1)) (i : Nat) (xs : Bytes) (n : Nat) (hn : hex4 [a, b, c, d] = some n)
    (h1 : n < 0xDC00 ∨ 0xDFFF < n) :
    strRun env stk st i (d :: xs) = .err .LoneLeadingSurrogateInHexEscape (i + 1) := by
  obtain ⟨out, esc, isKey, escaped⟩ := st
  simp only at h; subst h
  simp [strRun, isClose, stepStr, hn, henv, h1, errIdx_incl]

/-- the pair is merged -/
theorem strRun_hex2_pair (henv : env.tgt = .value) (st : StrSt) (n1 : Nat) (a b c d : UInt8)
    (h : st.esc = .hex [a, b, c] (some n1)) (i : Nat) (xs : Bytes) (n : Nat) (hn : hex4 [a, b, c, d] = some n)
    (h1 : 0xDC00 ≤ n) (h2 : n ≤ 0xDFFF) :
    strRun env stk st i (d :: xs) =
      strRun env stk { st with out := (Spec.Denote.utf8 (0x10000 + (n1 - 0xD800) * 0x400 + (n - 0xDC00))).reverse ++ st.out,
                               esc := .none } (i + 1) xs := by
  obtain ⟨out, esc, isKey, escaped⟩ := st
  simp only at h; subst h
  have h3 : ¬ (n < 0xDC00 ∨ 0xDFFF < n) := by omega
  simp [strRun, isClose, stepStr, hn, henv, h3]

end big

/-! ## `decode_four_hex_digits` is the machine's `hex4` -/

theorem hexDigitVal_eq (b : UInt8) : hexDigitVal b = Spec.Str.hexDigitVal b := by
  have : ∀ n : Nat, n < 256 → hexDigitVal (UInt8.ofNat n) = Spec.Str.hexDigitVal (UInt8.ofNat n) := by
    decide +kernel
  simpa using this b.toNat b.toNat_lt

theorem hex4_eq (a b c d : UInt8) : hex4 [a, b, c, d] = Model.Hex.decodeFourHex a b c d := by
  rw [Proofs.Hex.decodeFourHex_eq]
  simp only [hex4, hexDigitVal_eq, Spec.Str.hex4Val]
  cases Spec.Str.hexDigitVal a <;> cases Spec.Str.hexDigitVal b <;> cases Spec.Str.hexDigitVal c <;>
    cases Spec.Str.hexDigitVal d <;> rfl

end SJ.Proofs.ReadMach
