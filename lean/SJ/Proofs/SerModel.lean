import SJ.Proofs.SerFmt
import SJ.Proofs.SerEscape
import SJ.Proofs.Number
/-!
# C03 helper lemmas, part 3: the serializer model refines the structural printer

Main result `ser_rel` (with `serElems_rel`, `serEntries_rel`, `serFields_rel`), by mutual structural
induction on programs: running a program either fails exactly when its image is undefined, with the
same error, or — for well-formed hints — writes buffers that concatenate to
`layoutWith (sepOf f) (gapOf f) depth (image p)` and leaves the formatter at the same depth.
-/
namespace SJ.Proofs.SerModel
open SJ SJ.Model.Ser SJ.Model.EscapeLocal SJ.Spec.Image SJ.Spec.Program SJ.Spec.Denote SJ.Proofs.SerFmt
  SJ.Proofs.SerEscape

abbrev lay (f : Fmt) := layoutWith (sepOf f) (gapOf f)
abbrev layElems (f : Fmt) := layoutElems (sepOf f) (gapOf f)
abbrev layMembers (f : Fmt) := layoutMembers (sepOf f) (gapOf f)

/-- elements the way the serializer writes them: the separator *before* every element but the first -/
def elemsFrom (f : Fmt) (n : Nat) : Bool → List DV → Bytes
  | _, [] => []
  | first, d :: ds => (if first then [] else [0x2c]) ++ sepOf f n ++ lay f n d ++ elemsFrom f n false ds

def membersFrom (f : Fmt) (n : Nat) : Bool → List (Bytes × DV) → Bytes
  | _, [] => []
  | first, (k, d) :: ms =>
    (if first then [] else [0x2c]) ++ sepOf f n ++ quote k ++ [0x3a] ++ gapOf f ++ lay f n d
      ++ membersFrom f n false ms

theorem elemsFrom_false (f : Fmt) (n : Nat) (ds : List DV) :
    elemsFrom f n false ds = (if ds.isEmpty then [] else [0x2c]) ++ layElems f n ds := by
  induction ds with
  | nil => simp [elemsFrom, layoutElems]
  | cons d ds ih => simp [elemsFrom, layoutElems, ih]

theorem elemsFrom_true (f : Fmt) (n : Nat) (ds : List DV) : elemsFrom f n true ds = layElems f n ds := by
  cases ds with
  | nil => simp [elemsFrom, layoutElems]
  | cons d ds => simp [elemsFrom, layoutElems, elemsFrom_false]

theorem membersFrom_false (f : Fmt) (n : Nat) (ms : List (Bytes × DV)) :
    membersFrom f n false ms = (if ms.isEmpty then [] else [0x2c]) ++ layMembers f n ms := by
  induction ms with
  | nil => simp [membersFrom, layoutMembers]
  | cons m ms ih => obtain ⟨k, d⟩ := m; simp [membersFrom, layoutMembers, ih]

theorem membersFrom_true (f : Fmt) (n : Nat) (ms : List (Bytes × DV)) :
    membersFrom f n true ms = layMembers f n ms := by
  cases ms with
  | nil => simp [membersFrom, layoutMembers]
  | cons m ms => obtain ⟨k, d⟩ := m; simp [membersFrom, layoutMembers, membersFrom_false]

theorem lay_arr_cons (f : Fmt) (n : Nat) (d : DV) (ds : List DV) :
    lay f n (.arr (d :: ds)) = [0x5b] ++ elemsFrom f (n + 1) true (d :: ds) ++ sepOf f n ++ [0x5d] := by
  rw [elemsFrom_true]; simp [layoutWith]

theorem lay_obj_cons (f : Fmt) (n : Nat) (m : Bytes × DV) (ms : List (Bytes × DV)) :
    lay f n (.obj (m :: ms)) = [0x7b] ++ membersFrom f (n + 1) true (m :: ms) ++ sepOf f n ++ [0x7d] := by
  rw [membersFrom_true]; simp [layoutWith]

theorem lay_arr_nil (f : Fmt) (n : Nat) : lay f n (.arr []) = [0x5b, 0x5d] := by simp [layoutWith]
theorem lay_obj_nil (f : Fmt) (n : Nat) : lay f n (.obj []) = [0x7b, 0x7d] := by simp [layoutWith]

theorem lay_tagged (f : Fmt) (n : Nat) (v : Bytes) (d : DV) :
    lay f n (tagged v d) =
      [0x7b] ++ sepOf f (n + 1) ++ quote v ++ [0x3a] ++ gapOf f ++ lay f (n + 1) d ++ sepOf f n ++ [0x7d] := by
  simp [tagged, layoutWith, layoutMembers]

/-! ## keys -/

theorem escItem_numByte : ∀ n : Nat, n < 256 → Spec.Recognise.isNumByte (UInt8.ofNat n) = true →
    escItem (UInt8.ofNat n) = .raw (UInt8.ofNat n) := by decide +kernel

theorem quote_plain (s : Bytes) (h : s.all Spec.Recognise.isNumByte = true) : quote s = [0x22] ++ s ++ [0x22] := by
  have : (strItems s).flatMap Spec.Grammar.StrItem.bytes = s := by
    induction s with
    | nil => rfl
    | cons b s ih =>
      simp only [List.all_cons, Bool.and_eq_true] at h
      have hb := escItem_numByte b.toNat b.toNat_lt (by simpa using h.1)
      simp only [UInt8.ofNat_toNat] at hb
      simp only [strItems, List.map_cons, List.flatMap_cons, hb, Spec.Grammar.StrItem.bytes] at ih ⊢
      rw [ih h.2]; rfl
  simp [quote, Spec.Grammar.strBytes, this]

theorem quote_number (s : Bytes) (h : Spec.Grammar.IsNumber s) : quote s = [0x22] ++ s ++ [0x22] :=
  quote_plain s (Number.isNumber_numBytes s h)

theorem quoted_flatten (t : Bytes) : (quoted t).flatten = [0x22] ++ t ++ [0x22] := by
  simp [quoted, gen_lits]

/-- key serializer vs key text: same failures, and the buffers spell the quoted text -/
def KeyRel (res : Except SerErr (List Bytes)) (txt : Except SerErr Bytes) : Prop :=
  match res, txt with
  | .ok kb, .ok kt => kb.flatten = quote kt
  | .error e, .error e' => e = e'
  | _, _ => False

theorem keySer_rel (ext : Ext) (hext : ExtOK ext) : ∀ k : SVal, KeyRel (keySer ext k) (keyText ext k)
  | .str s => by simp [keySer, keyText, KeyRel, escapeStr_spec]
  | .unitVariant v => by simp [keySer, keyText, KeyRel, escapeStr_spec]
  | .newtypeStruct k => by simpa [keySer, keyText] using keySer_rel ext hext k
  | .some k => by simpa [keySer, keyText] using keySer_rel ext hext k
  | .bool b => by
    cases b
    · simp only [keySer, keyText, KeyRel, quoted_flatten, writeBool, gen_lits]; decide
    · simp only [keySer, keyText, KeyRel, quoted_flatten, writeBool, gen_lits]; decide
  | .int _ n => by
    simp only [keySer, keyText, KeyRel, quoted_flatten]
    rw [quote_number]; rw [hext.itoa_decimal]; exact Number.decimal_isNumber n
  | .f32 b => by
    by_cases hb : finite32 b = true
    · simp only [keySer, keyText, KeyRel, hb, quoted_flatten, Bool.not_true, Bool.false_eq_true, if_false, if_true]
      rw [quote_number _ (hext.ryu32_number b hb)]
    · simp [keySer, keyText, KeyRel, hb]
  | .f64 b => by
    by_cases hb : finite64 b = true
    · simp only [keySer, keyText, KeyRel, hb, quoted_flatten, Bool.not_true, Bool.false_eq_true, if_false, if_true]
      rw [quote_number _ (hext.ryu64_number b hb)]
    · simp [keySer, keyText, KeyRel, hb]
  | .char cp => by simp [keySer, keyText, KeyRel, escapeStr_spec, encodeUtf8]
  | .collectStr s => by simp only [keySer, keyText, KeyRel, collectStr]; exact collectStr_spec s
  | .bytes _ => by simp [keySer, keyText, KeyRel]
  | .unit => by simp [keySer, keyText, KeyRel]
  | .unitStruct => by simp [keySer, keyText, KeyRel]
  | .newtypeVariant _ _ => by simp [keySer, keyText, KeyRel]
  | .none => by simp [keySer, keyText, KeyRel]
  | .seq _ _ => by simp [keySer, keyText, KeyRel]
  | .tuple _ => by simp [keySer, keyText, KeyRel]
  | .tupleStruct _ => by simp [keySer, keyText, KeyRel]
  | .tupleVariant _ _ => by simp [keySer, keyText, KeyRel]
  | .map _ _ => by simp [keySer, keyText, KeyRel]
  | .struct_ _ => by simp [keySer, keyText, KeyRel]
  | .structVariant _ _ => by simp [keySer, keyText, KeyRel]
  | .numberLit _ => by simp [keySer, keyText, KeyRel]

/-! ## composite formatter steps -/

@[simp] theorem andThen_bufs (a : W) (k : FState → W) : (a.andThen k).bufs = a.bufs ++ (k a.st).bufs := rfl
@[simp] theorem andThen_st (a : W) (k : FState → W) : (a.andThen k).st = (k a.st).st := rfl
@[simp] theorem write_bufs (b : List Bytes) (st : FState) : (write b st).bufs = b := rfl
@[simp] theorem write_st (b : List Bytes) (st : FState) : (write b st).st = st := rfl

theorem lay_numOf (f : Fmt) (n : Nat) (t : Bytes) : lay f n (numOf t) = t := by
  simp [numOf, layoutWith, Number.splitNumber_bytes]

theorem variantOpen_spec (f : Fmt) (v : Bytes) (st : FState) (n : Nat) (hd : Dep f st n) :
    (variantOpen f v st).bufs.flatten = [0x7b] ++ sepOf f (n + 1) ++ quote v ++ [0x3a] ++ gapOf f ∧
    Dep f (variantOpen f v st).st (n + 1) := by
  have h1 := beginObject_dep f st n hd
  simp only [variantOpen, andThen_bufs, andThen_st, write_bufs, write_st, List.flatten_append,
    beginObject_bufs, beginObjectKey_bufs f true _ _ h1, beginObjectKey_st, endObjectKey_bufs, endObjectKey_st,
    beginObjectValue_bufs, beginObjectValue_st, escapeStr_spec]
  exact ⟨by simp, h1⟩

/-- `end_object_value` then `end_object` after the payload of a variant -/
theorem variantClose_spec (f : Fmt) (w : W) (n : Nat) (hd : Dep f w.st (n + 1)) :
    ((w.andThen (endObjectValue f)).andThen (endObject f)).bufs.flatten = w.bufs.flatten ++ sepOf f n ++ [0x7d] ∧
    Dep f ((w.andThen (endObjectValue f)).andThen (endObject f)).st n := by
  have h1 := endObjectValue_dep f w.st _ hd
  have h2 := endObjectValue_hasv f w.st
  simp only [andThen_bufs, andThen_st, List.flatten_append, endObjectValue_bufs, endObject_hasv f _ n h1 h2]
  exact ⟨by simp, endObject_dep f _ n h1⟩

/-! ## bytes -/

theorem byteArrayLoop_spec (ext : Ext) (f : Fmt) : ∀ (bs : Bytes) (first : Bool) (st : FState) (n : Nat),
    Dep f st n →
    (byteArrayLoop ext f bs first st).bufs.flatten
        = elemsFrom f n first (bs.map fun b => numOf (ext.itoa b.toNat)) ∧
    (bs = [] → (byteArrayLoop ext f bs first st).st = st) ∧
    (bs ≠ [] → HasV f (byteArrayLoop ext f bs first st).st ∧ Dep f (byteArrayLoop ext f bs first st).st n)
  | [], first, st, n, hd => by simp [byteArrayLoop, elemsFrom]
  | b :: bs, first, st, n, hd => by
    have hd1 : Dep f (endArrayValue f st).st n := endArrayValue_dep f st n hd
    obtain ⟨ih1, ih2, ih3⟩ := byteArrayLoop_spec ext f bs false (endArrayValue f st).st n hd1
    simp only [byteArrayLoop, andThen_bufs, andThen_st, write_bufs, write_st, beginArrayValue_st,
      List.flatten_append, beginArrayValue_bufs f first st n hd, endArrayValue_bufs, ih1, List.map_cons,
      elemsFrom, lay_numOf]
    refine ⟨by simp, by simp, fun _ => ?_⟩
    by_cases hbs : bs = []
    · rw [ih2 hbs]; exact ⟨endArrayValue_hasv f st, hd1⟩
    · exact ih3 hbs

theorem writeByteArray_spec (ext : Ext) (f : Fmt) (bs : Bytes) (st : FState) (n : Nat) (hd : Dep f st n) :
    Dep f (writeByteArray ext f bs st).st n ∧
    (writeByteArray ext f bs st).bufs.flatten = lay f n (.arr (bs.map fun b => numOf (ext.itoa b.toNat))) := by
  have h1 := beginArray_dep f st n hd
  obtain ⟨l1, l2, l3⟩ := byteArrayLoop_spec ext f bs true (beginArray f st).st (n + 1) h1
  simp only [writeByteArray, andThen_bufs, andThen_st, List.flatten_append, beginArray_bufs, l1]
  cases bs with
  | nil =>
    simp only [l2 rfl, List.map_nil, elemsFrom, lay_arr_nil]
    exact ⟨endArray_dep f _ n h1, by rw [endArray_nov f _ (beginArray_nov f st)]; rfl⟩
  | cons b bs =>
    obtain ⟨hv, hd2⟩ := l3 (by simp)
    rw [List.map_cons, lay_arr_cons, endArray_hasv f _ n hd2 hv]
    exact ⟨endArray_dep f _ n hd2, by simp⟩

/-! ## the relations proved by induction -/

/-- a run of the model against the image: same failure, or (for well-formed hints, at any depth the
    formatter may be at) the layout of the image and the depth restored -/
def Rel (f : Fmt) (st : FState) (good : Prop) (res : Except SerErr W) (img : Except SerErr DV) : Prop :=
  match res, img with
  | .ok r, .ok d => good → ∀ n, Dep f st n → Dep f r.st n ∧ r.bufs.flatten = lay f n d
  | .error e, .error e' => e = e'
  | _, _ => False

/-- what running the elements / members of a container leaves behind -/
structure PostL (f : Fmt) (s : State) (st : FState) (n : Nat) (r : WS) (body : Bytes) (empty : Bool) : Prop where
  bufs : r.bufs.flatten = body
  ifEmpty : empty = true → r.state = s ∧ r.st = st
  ifNonempty : empty = false → r.state = .rest ∧ HasV f r.st ∧ Dep f r.st n

def RelL {α : Type} (f : Fmt) (s : State) (st : FState) (good : Prop) (empty : Bool) (body : Nat → α → Bytes)
    (res : Except SerErr WS) (img : Except SerErr α) : Prop :=
  match res, img with
  | .ok r, .ok ds => good → ∀ n, (empty = false → Dep f st n) → PostL f s st n r (body n ds) empty
  | .error e, .error e' => e = e'
  | _, _ => False

theorem imageList_length (ext : Ext) : ∀ (xs : List SVal) (ds : List DV), imageList ext xs = .ok ds → ds.length = xs.length
  | [], ds, h => by simp [imageList] at h; subst h; rfl
  | x :: xs, ds, h => by
    simp only [imageList] at h
    split at h
    · cases h
    · split at h
      · cases h
      · rename_i ds' h2
        cases h
        simp [imageList_length ext xs ds' h2]

theorem imageEntries_length (ext : Ext) : ∀ (xs : List (SVal × SVal)) (ds : List (Bytes × DV)),
    imageEntries ext xs = .ok ds → ds.length = xs.length
  | [], ds, h => by simp [imageEntries] at h; subst h; rfl
  | (k, v) :: xs, ds, h => by
    simp only [imageEntries] at h
    split at h
    · cases h
    · split at h
      · cases h
      · split at h
        · cases h
        · rename_i ds' h2
          cases h
          simp [imageEntries_length ext xs ds' h2]

theorem imageFields_length (ext : Ext) : ∀ (xs : List (Bytes × SVal)) (ds : List (Bytes × DV)),
    imageFields ext xs = .ok ds → ds.length = xs.length
  | [], ds, h => by simp [imageFields] at h; subst h; rfl
  | (k, v) :: xs, ds, h => by
    simp only [imageFields] at h
    split at h
    · cases h
    · split at h
      · cases h
      · rename_i ds' h2
        cases h
        simp [imageFields_length ext xs ds' h2]

/-! ## opening and closing arrays and objects around a body -/

theorem hint_zero (hint : Option Nat) (len : Nat) (hh : hintOK hint len = true) (h0 : len ≠ 0) :
    (hint == some 0) = false := by
  cases hint with
  | none => rfl
  | some k =>
    simp only [hintOK, beq_iff_eq] at hh
    subst hh
    simp [h0]

theorem serializeSeq_slow (f : Fmt) (hint : Option Nat) (st : FState) (h : (hint == some 0) = false) :
    serializeSeq f hint st = ⟨(beginArray f st).bufs, .first, (beginArray f st).st⟩ := by
  simp [serializeSeq, h]

theorem serializeMap_slow (f : Fmt) (hint : Option Nat) (st : FState) (h : (hint == some 0) = false) :
    serializeMap f hint st = ⟨(beginObject f st).bufs, .first, (beginObject f st).st⟩ := by
  simp [serializeMap, h]

theorem seq_open_dep (f : Fmt) (hint : Option Nat) (len : Nat) (st : FState) (n : Nat) (hd : Dep f st n)
    (hh : hintOK hint len = true) (h0 : len ≠ 0) :
    (serializeSeq f hint st).state = .first ∧ Dep f (serializeSeq f hint st).st (n + 1) := by
  rw [serializeSeq_slow f hint st (hint_zero hint len hh h0)]
  exact ⟨rfl, beginArray_dep f st n hd⟩

theorem map_open_dep (f : Fmt) (hint : Option Nat) (len : Nat) (st : FState) (n : Nat) (hd : Dep f st n)
    (hh : hintOK hint len = true) (h0 : len ≠ 0) :
    (serializeMap f hint st).state = .first ∧ Dep f (serializeMap f hint st).st (n + 1) := by
  rw [serializeMap_slow f hint st (hint_zero hint len hh h0)]
  exact ⟨rfl, beginObject_dep f st n hd⟩

/-- `serialize_seq(hint)`, a body of `len` elements, `SerializeSeq::end` -/
theorem seq_close (f : Fmt) (hint : Option Nat) (len : Nat) (st : FState) (n : Nat) (hd : Dep f st n)
    (hh : hintOK hint len = true) (r : WS) (body : Bytes) (empty : Bool) (hemp : empty = decide (len = 0))
    (hp : PostL f (serializeSeq f hint st).state (serializeSeq f hint st).st (n + 1) r body empty)
    (hbody : empty = true → body = []) :
    Dep f ((W.mk ((serializeSeq f hint st).bufs ++ r.bufs) r.st).andThen (seqEnd f r.state)).st n ∧
    ((W.mk ((serializeSeq f hint st).bufs ++ r.bufs) r.st).andThen (seqEnd f r.state)).bufs.flatten
      = [0x5b] ++ body ++ (if empty then [] else sepOf f n) ++ [0x5d] := by
  have hb1 := beginArray_dep f st n hd
  cases empty with
  | true =>
    obtain ⟨hs, hst⟩ := hp.ifEmpty rfl
    have hbufs := hp.bufs
    have hb0 := hbody rfl
    subst hb0
    have hnov := endArray_nov f _ (beginArray_nov f st)
    have hdep := endArray_dep f _ n hb1
    by_cases h0 : (hint == some 0) = true
    · simp only [serializeSeq, h0, if_true, andThen_bufs, andThen_st] at hs hst ⊢
      simp only [hs, hst, seqEnd, write_bufs, write_st, List.flatten_append, hbufs, beginArray_bufs, hnov]
      exact ⟨hdep, by simp⟩
    · have h0' : (hint == some 0) = false := by simpa using h0
      rw [serializeSeq_slow f hint st h0'] at hs hst ⊢
      simp only at hs hst
      simp only [andThen_bufs, andThen_st, hs, hst, seqEnd, List.flatten_append, hbufs, beginArray_bufs, hnov]
      exact ⟨hdep, by simp⟩
  | false =>
    have h0 : len ≠ 0 := by simpa using hemp.symm
    obtain ⟨hs, hv, hd2⟩ := hp.ifNonempty rfl
    rw [serializeSeq_slow f hint st (hint_zero hint len hh h0)]
    simp only [andThen_bufs, andThen_st, hs, seqEnd, List.flatten_append, hp.bufs, beginArray_bufs,
      endArray_hasv f _ n hd2 hv]
    exact ⟨endArray_dep f _ n hd2, by simp⟩

/-- `serialize_map(hint)`, a body of `len` members, `SerializeMap::end` -/
theorem map_close (f : Fmt) (hint : Option Nat) (len : Nat) (st : FState) (n : Nat) (hd : Dep f st n)
    (hh : hintOK hint len = true) (r : WS) (body : Bytes) (empty : Bool) (hemp : empty = decide (len = 0))
    (hp : PostL f (serializeMap f hint st).state (serializeMap f hint st).st (n + 1) r body empty)
    (hbody : empty = true → body = []) :
    Dep f ((W.mk ((serializeMap f hint st).bufs ++ r.bufs) r.st).andThen (mapEnd f r.state)).st n ∧
    ((W.mk ((serializeMap f hint st).bufs ++ r.bufs) r.st).andThen (mapEnd f r.state)).bufs.flatten
      = [0x7b] ++ body ++ (if empty then [] else sepOf f n) ++ [0x7d] := by
  have hb1 := beginObject_dep f st n hd
  cases empty with
  | true =>
    obtain ⟨hs, hst⟩ := hp.ifEmpty rfl
    have hbufs := hp.bufs
    have hb0 := hbody rfl
    subst hb0
    have hnov := endObject_nov f _ (beginObject_nov f st)
    have hdep := endObject_dep f _ n hb1
    by_cases h0 : (hint == some 0) = true
    · simp only [serializeMap, h0, if_true, andThen_bufs, andThen_st] at hs hst ⊢
      simp only [hs, hst, mapEnd, write_bufs, write_st, List.flatten_append, hbufs, beginObject_bufs, hnov]
      exact ⟨hdep, by simp⟩
    · have h0' : (hint == some 0) = false := by simpa using h0
      rw [serializeMap_slow f hint st h0'] at hs hst ⊢
      simp only at hs hst
      simp only [andThen_bufs, andThen_st, hs, hst, mapEnd, List.flatten_append, hbufs, beginObject_bufs, hnov]
      exact ⟨hdep, by simp⟩
  | false =>
    have h0 : len ≠ 0 := by simpa using hemp.symm
    obtain ⟨hs, hv, hd2⟩ := hp.ifNonempty rfl
    rw [serializeMap_slow f hint st (hint_zero hint len hh h0)]
    simp only [andThen_bufs, andThen_st, hs, mapEnd, List.flatten_append, hp.bufs, beginObject_bufs,
      endObject_hasv f _ n hd2 hv]
    exact ⟨endObject_dep f _ n hd2, by simp⟩

theorem isEmpty_eq_decide {α : Type} (xs : List α) : xs.isEmpty = decide (xs.length = 0) := by
  cases xs <;> simp

theorem isEmpty_of_length {α β : Type} (xs : List α) (ys : List β) (h : ys.length = xs.length) :
    ys.isEmpty = xs.isEmpty := by
  cases xs <;> cases ys <;> simp_all

/-- array: from the relation for the elements to the relation for the whole `[ … ]` -/
theorem seqBody_rel (f : Fmt) (hint : Option Nat) (len : Nat) (st : FState) (good goodL : Prop) (empty : Bool)
    (res : Except SerErr WS) (img : Except SerErr (List DV))
    (hg : good → hintOK hint len = true ∧ goodL) (hemp : empty = decide (len = 0))
    (hlen : ∀ ds, img = .ok ds → ds.length = len)
    (hl : RelL f (serializeSeq f hint st).state (serializeSeq f hint st).st goodL empty
            (fun n ds => elemsFrom f n ((serializeSeq f hint st).state == .first) ds) res img) :
    Rel f st good (finishSeq f (serializeSeq f hint st) res) (img.map .arr) := by
  cases res with
  | error e => cases img with
    | error e' => simpa [RelL, Rel, finishSeq, Except.map] using hl
    | ok ds => simp [RelL] at hl
  | ok r => cases img with
    | error e' => simp [RelL] at hl
    | ok ds =>
      simp only [RelL] at hl
      simp only [Rel, finishSeq, Except.map]
      intro hgood n hd
      obtain ⟨hh, hw⟩ := hg hgood
      have hlen' := hlen ds rfl
      have hde : ds.isEmpty = empty := by
        rw [hemp]; cases ds with
        | nil => simp at hlen'; simp [← hlen']
        | cons d ds => simp at hlen'; simp; omega
      have hdep : empty = false → Dep f (serializeSeq f hint st).st (n + 1) := by
        intro he
        exact (seq_open_dep f hint len st n hd hh (by simpa [he] using hemp.symm)).2
      have hp := hl hw (n + 1) hdep
      have hc := seq_close f hint len st n hd hh r _ empty hemp hp
        (by intro he; rw [he] at hde; simp only [List.isEmpty_iff] at hde; subst hde; rfl)
      refine ⟨hc.1, ?_⟩
      rw [hc.2]
      cases ds with
      | nil =>
        have : empty = true := by simpa using hde.symm
        subst this
        simp [elemsFrom, lay_arr_nil]
      | cons d ds =>
        have he : empty = false := by simpa using hde.symm
        subst he
        have hs := (seq_open_dep f hint len st n hd hh (by simpa using hemp.symm)).1
        rw [lay_arr_cons, hs]
        simp

/-- object: likewise -/
theorem mapBody_rel (f : Fmt) (hint : Option Nat) (len : Nat) (st : FState) (good goodL : Prop) (empty : Bool)
    (res : Except SerErr WS) (img : Except SerErr (List (Bytes × DV)))
    (hg : good → hintOK hint len = true ∧ goodL) (hemp : empty = decide (len = 0))
    (hlen : ∀ ds, img = .ok ds → ds.length = len)
    (hl : RelL f (serializeMap f hint st).state (serializeMap f hint st).st goodL empty
            (fun n ds => membersFrom f n ((serializeMap f hint st).state == .first) ds) res img) :
    Rel f st good (finishMap f (serializeMap f hint st) res) (img.map .obj) := by
  cases res with
  | error e => cases img with
    | error e' => simpa [RelL, Rel, finishMap, Except.map] using hl
    | ok ds => simp [RelL] at hl
  | ok r => cases img with
    | error e' => simp [RelL] at hl
    | ok ds =>
      simp only [RelL] at hl
      simp only [Rel, finishMap, Except.map]
      intro hgood n hd
      obtain ⟨hh, hw⟩ := hg hgood
      have hlen' := hlen ds rfl
      have hde : ds.isEmpty = empty := by
        rw [hemp]; cases ds with
        | nil => simp at hlen'; simp [← hlen']
        | cons d ds => simp at hlen'; simp; omega
      have hdep : empty = false → Dep f (serializeMap f hint st).st (n + 1) := by
        intro he
        exact (map_open_dep f hint len st n hd hh (by simpa [he] using hemp.symm)).2
      have hp := hl hw (n + 1) hdep
      have hc := map_close f hint len st n hd hh r _ empty hemp hp
        (by intro he; rw [he] at hde; simp only [List.isEmpty_iff] at hde; subst hde; rfl)
      refine ⟨hc.1, ?_⟩
      rw [hc.2]
      cases ds with
      | nil =>
        have : empty = true := by simpa using hde.symm
        subst this
        simp [membersFrom, lay_obj_nil]
      | cons d ds =>
        have he : empty = false := by simpa using hde.symm
        subst he
        have hs := (map_open_dep f hint len st n hd hh (by simpa using hemp.symm)).1
        rw [lay_obj_cons, hs]
        simp

/-- `SerializeTupleVariant::end` / `SerializeStructVariant::end` after the inner container -/
theorem tupleVariantEnd_eq (f : Fmt) (pre : List Bytes) (s : State) (st : FState) :
    (W.mk pre st).andThen (tupleVariantEnd f s)
      = (((W.mk pre st).andThen (seqEnd f s)).andThen (endObjectValue f)).andThen (endObject f) := by
  simp [W.andThen, tupleVariantEnd, List.append_assoc]

theorem structVariantEnd_eq (f : Fmt) (pre : List Bytes) (s : State) (st : FState) :
    (W.mk pre st).andThen (structVariantEnd f s)
      = (((W.mk pre st).andThen (mapEnd f s)).andThen (endObjectValue f)).andThen (endObject f) := by
  simp [W.andThen, structVariantEnd, List.append_assoc]

/-- wrapping a payload relation into `{"variant": payload}` -/
theorem variant_rel (f : Fmt) (v : Bytes) (st : FState) (good : Prop)
    (res : Except SerErr W) (img : Except SerErr DV)
    (h : Rel f (variantOpen f v st).st good res img) :
    Rel f st good (finishNewtypeVariant f (variantOpen f v st) res) (img.map (tagged v)) := by
  cases res with
  | error e => cases img with
    | error e' => simpa [Rel, finishNewtypeVariant, Except.map] using h
    | ok d => simp [Rel] at h
  | ok r => cases img with
    | error e' => simp [Rel] at h
    | ok d =>
      simp only [Rel, finishNewtypeVariant, Except.map] at h ⊢
      intro hg n hd
      obtain ⟨ho1, ho2⟩ := variantOpen_spec f v st n hd
      obtain ⟨h1, h2⟩ := h hg (n + 1) ho2
      obtain ⟨c1, c2⟩ := variantClose_spec f (W.mk ((variantOpen f v st).bufs ++ r.bufs) r.st) n h1
      refine ⟨c2, ?_⟩
      rw [c1, lay_tagged]
      simp [ho1, h2]

/-- split on a model result and an image result, then close the goal with `h` -/
macro "close_rel " h:ident " with " r:term ", " i:term : tactic =>
  `(tactic| (cases hr : $r <;> cases hi : $i <;> simp only [hr, hi] at $h:ident ⊢ <;> exact $h))

set_option linter.unusedSectionVars false
section main
variable (ext : Ext) (hext : ExtOK ext) (f : Fmt)
include hext

mutual
theorem ser_rel : ∀ (p : SVal) (st : FState), Rel f st (p.wf = true) (ser ext f p st) (image ext p)
  | .bool b, st => by
    cases b <;> simp [ser, image, Rel, writeBool, layoutWith, gen_lits]
  | .int _ n, st => by simp [ser, image, Rel, lay_numOf]
  | .f32 b, st => by
    by_cases hb : finite32 b = true <;> simp [ser, image, Rel, hb, lay_numOf, writeNull, layoutWith, gen_lits]
  | .f64 b, st => by
    by_cases hb : finite64 b = true <;> simp [ser, image, Rel, hb, lay_numOf, writeNull, layoutWith, gen_lits]
  | .char cp, st => by simp [ser, image, Rel, escapeStr_spec, layoutWith, encodeUtf8]
  | .str s, st => by simp [ser, image, Rel, escapeStr_spec, layoutWith]
  | .bytes bs, st => by
    simp only [ser, image, Rel]
    intro _ n hd
    exact writeByteArray_spec ext f bs st n hd
  | .none, st => by simp [ser, image, Rel, writeNull, layoutWith, gen_lits]
  | .some p, st => by simpa [ser, image, SVal.wf] using ser_rel p st
  | .unit, st => by simp [ser, image, Rel, writeNull, layoutWith, gen_lits]
  | .unitStruct, st => by simp [ser, image, Rel, writeNull, layoutWith, gen_lits]
  | .unitVariant v, st => by simp [ser, image, Rel, escapeStr_spec, layoutWith]
  | .newtypeStruct p, st => by simpa [ser, image, SVal.wf] using ser_rel p st
  | .newtypeVariant v p, st => by
    have h := variant_rel f v st (p.wf = true) _ _ (ser_rel p (variantOpen f v st).st)
    simpa only [ser, image, SVal.wf] using h
  | .seq hint xs, st => by
    have h := seqBody_rel f hint xs.length st ((SVal.seq hint xs).wf = true) (wfList xs = true) xs.isEmpty _ _
      (by simp [SVal.wf]) (isEmpty_eq_decide xs) (imageList_length ext xs)
      (serElems_rel xs (serializeSeq f hint st).state (serializeSeq f hint st).st)
    simpa only [ser, image] using h
  | .tuple xs, st => by
    have h := seqBody_rel f (some xs.length) xs.length st ((SVal.tuple xs).wf = true) (wfList xs = true) xs.isEmpty _ _
      (by simp [SVal.wf, hintOK]) (isEmpty_eq_decide xs) (imageList_length ext xs)
      (serElems_rel xs (serializeSeq f (some xs.length) st).state (serializeSeq f (some xs.length) st).st)
    simpa only [ser, image] using h
  | .tupleStruct xs, st => by
    have h := seqBody_rel f (some xs.length) xs.length st ((SVal.tupleStruct xs).wf = true) (wfList xs = true) xs.isEmpty _ _
      (by simp [SVal.wf, hintOK]) (isEmpty_eq_decide xs) (imageList_length ext xs)
      (serElems_rel xs (serializeSeq f (some xs.length) st).state (serializeSeq f (some xs.length) st).st)
    simpa only [ser, image] using h
  | .tupleVariant v xs, st => by
    have h1 := seqBody_rel f (some xs.length) xs.length (variantOpen f v st).st ((SVal.tupleVariant v xs).wf = true)
      (wfList xs = true) xs.isEmpty _ _
      (by simp [SVal.wf, hintOK]) (isEmpty_eq_decide xs) (imageList_length ext xs)
      (serElems_rel xs (serializeSeq f (some xs.length) (variantOpen f v st).st).state
        (serializeSeq f (some xs.length) (variantOpen f v st).st).st)
    have h := variant_rel f v st _ _ _ h1
    simp only [ser, image]
    cases hr : serElems ext f xs (serializeSeq f (some xs.length) (variantOpen f v st).st).state
        (serializeSeq f (some xs.length) (variantOpen f v st).st).st <;>
      cases hi : imageList ext xs <;>
      simp only [hr, hi, finishSeq, finishNewtypeVariant, finishTupleVariant, Except.map] at h ⊢
    · exact h
    · exact h
    · exact h
    · rw [tupleVariantEnd_eq]
      simpa [W.andThen, List.append_assoc] using h
  | .map hint es, st => by
    have h := mapBody_rel f hint es.length st ((SVal.map hint es).wf = true) (wfEntries es = true) es.isEmpty _ _
      (by simp [SVal.wf]) (isEmpty_eq_decide es) (imageEntries_length ext es)
      (serEntries_rel es (serializeMap f hint st).state (serializeMap f hint st).st)
    simpa only [ser, image] using h
  | .struct_ fs, st => by
    have h := mapBody_rel f (some fs.length) fs.length st ((SVal.struct_ fs).wf = true) (wfFields fs = true) fs.isEmpty _ _
      (by simp [SVal.wf, hintOK]) (isEmpty_eq_decide fs) (imageFields_length ext fs)
      (serFields_rel fs (serializeMap f (some fs.length) st).state (serializeMap f (some fs.length) st).st)
    simpa only [ser, image] using h
  | .structVariant v fs, st => by
    have h1 := mapBody_rel f (some fs.length) fs.length (variantOpen f v st).st ((SVal.structVariant v fs).wf = true)
      (wfFields fs = true) fs.isEmpty _ _
      (by simp [SVal.wf, hintOK]) (isEmpty_eq_decide fs) (imageFields_length ext fs)
      (serFields_rel fs (serializeMap f (some fs.length) (variantOpen f v st).st).state
        (serializeMap f (some fs.length) (variantOpen f v st).st).st)
    have h := variant_rel f v st _ _ _ h1
    simp only [ser, image]
    cases hr : serFields ext f fs (serializeMap f (some fs.length) (variantOpen f v st).st).state
        (serializeMap f (some fs.length) (variantOpen f v st).st).st <;>
      cases hi : imageFields ext fs <;>
      simp only [hr, hi, finishMap, finishNewtypeVariant, finishStructVariant, Except.map] at h ⊢
    · exact h
    · exact h
    · exact h
    · rw [structVariantEnd_eq]
      simpa [W.andThen, List.append_assoc] using h
  | .collectStr s, st => by
    simp only [ser, image, Rel, write_bufs, write_st, collectStr]
    intro _ n hd
    exact ⟨hd, by rw [collectStr_spec]; simp [layoutWith]⟩
  | .numberLit s, st => by simp [ser, image, Rel, lay_numOf]

theorem serElems_rel : ∀ (xs : List SVal) (s : State) (st : FState),
    RelL f s st (wfList xs = true) xs.isEmpty (fun n ds => elemsFrom f n (s == .first) ds)
      (serElems ext f xs s st) (imageList ext xs)
  | [], s, st => by
    simp only [serElems, imageList, RelL]
    intro _ n _
    exact ⟨rfl, fun _ => ⟨rfl, rfl⟩, fun h => by simp at h⟩
  | x :: xs, s, st => by
    have hx := ser_rel x (beginArrayValue f (s == .first) st).st
    simp only [serElems, imageList]
    cases h1 : ser ext f x (beginArrayValue f (s == .first) st).st with
    | error e => cases h2 : image ext x with
      | error e' => simpa [h1, h2, Rel, RelL] using hx
      | ok d => simp [h1, h2, Rel] at hx
    | ok r => cases h2 : image ext x with
      | error e' => simp [h1, h2, Rel] at hx
      | ok d =>
        simp only [h1, h2, Rel] at hx
        have hxs := serElems_rel xs .rest (endArrayValue f r.st).st
        cases h3 : serElems ext f xs .rest (endArrayValue f r.st).st with
        | error e => cases h4 : imageList ext xs with
          | error e' => simpa [h3, h4, RelL] using hxs
          | ok ds => simp [h3, h4, RelL] at hxs
        | ok t => cases h4 : imageList ext xs with
          | error e' => simp [h3, h4, RelL] at hxs
          | ok ds =>
            simp only [h3, h4, RelL] at hxs ⊢
            intro hw n hdep
            simp only [wfList, Bool.and_eq_true] at hw
            have hd : Dep f st n := hdep (by simp)
            obtain ⟨hr1, hr2⟩ := hx hw.1 n (by rw [beginArrayValue_st]; exact hd)
            have hc1 := endArrayValue_dep f r.st n hr1
            have hc2 := endArrayValue_hasv f r.st
            have hp := hxs hw.2 n (fun _ => hc1)
            rw [show (State.rest == State.first) = false from rfl] at hp
            refine ⟨?_, fun h => by simp at h, fun _ => ?_⟩
            · simp only [List.flatten_append, beginArrayValue_bufs f _ st n hd, hr2, endArrayValue_bufs, hp.bufs,
                elemsFrom]
              simp
            · cases hxe : xs.isEmpty with
              | true =>
                obtain ⟨e1, e2⟩ := hp.ifEmpty hxe
                exact ⟨e1, by simpa only [e2] using hc2, by simpa only [e2] using hc1⟩
              | false => exact hp.ifNonempty hxe

theorem serEntries_rel : ∀ (es : List (SVal × SVal)) (s : State) (st : FState),
    RelL f s st (wfEntries es = true) es.isEmpty (fun n ms => membersFrom f n (s == .first) ms)
      (serEntries ext f es s st) (imageEntries ext es)
  | [], s, st => by
    simp only [serEntries, imageEntries, RelL]
    intro _ n _
    exact ⟨rfl, fun _ => ⟨rfl, rfl⟩, fun h => by simp at h⟩
  | (k, v) :: es, s, st => by
    have hk := keySer_rel ext hext k
    simp only [serEntries, imageEntries]
    cases h0 : keySer ext k with
    | error e => cases h0' : keyText ext k with
      | error e' => simpa [h0, h0', KeyRel, RelL] using hk
      | ok kt => simp [h0, h0', KeyRel] at hk
    | ok kb => cases h0' : keyText ext k with
      | error e' => simp [h0, h0', KeyRel] at hk
      | ok kt =>
        simp only [h0, h0', KeyRel] at hk
        simp only [andThen_st, endObjectKey_st, beginObjectValue_st, beginObjectKey_st]
        have hx := ser_rel v st
        cases h1 : ser ext f v st with
        | error e => cases h2 : image ext v with
          | error e' => simpa [h1, h2, Rel, RelL] using hx
          | ok d => simp [h1, h2, Rel] at hx
        | ok r => cases h2 : image ext v with
          | error e' => simp [h1, h2, Rel] at hx
          | ok d =>
            simp only [h1, h2, Rel] at hx
            have hxs := serEntries_rel es .rest (endObjectValue f r.st).st
            cases h3 : serEntries ext f es .rest (endObjectValue f r.st).st with
            | error e => cases h4 : imageEntries ext es with
              | error e' => simpa [h3, h4, RelL] using hxs
              | ok ds => simp [h3, h4, RelL] at hxs
            | ok t => cases h4 : imageEntries ext es with
              | error e' => simp [h3, h4, RelL] at hxs
              | ok ds =>
                simp only [h3, h4, RelL] at hxs ⊢
                intro hw n hdep
                simp only [wfEntries, Bool.and_eq_true] at hw
                have hd : Dep f st n := hdep (by simp)
                obtain ⟨hr1, hr2⟩ := hx hw.1.2 n hd
                have hc1 := endObjectValue_dep f r.st n hr1
                have hc2 := endObjectValue_hasv f r.st
                have hp := hxs hw.2 n (fun _ => hc1)
                rw [show (State.rest == State.first) = false from rfl] at hp
                refine ⟨?_, fun h => by simp at h, fun _ => ?_⟩
                · simp only [andThen_bufs, List.flatten_append, beginObjectKey_bufs f _ st n hd, hk, hr2,
                    endObjectKey_bufs, beginObjectValue_bufs, endObjectValue_bufs, hp.bufs, membersFrom]
                  simp
                · cases hxe : es.isEmpty with
                  | true =>
                    obtain ⟨e1, e2⟩ := hp.ifEmpty hxe
                    exact ⟨e1, by simpa only [e2] using hc2, by simpa only [e2] using hc1⟩
                  | false => exact hp.ifNonempty hxe

theorem serFields_rel : ∀ (fs : List (Bytes × SVal)) (s : State) (st : FState),
    RelL f s st (wfFields fs = true) fs.isEmpty (fun n ms => membersFrom f n (s == .first) ms)
      (serFields ext f fs s st) (imageFields ext fs)
  | [], s, st => by
    simp only [serFields, imageFields, RelL]
    intro _ n _
    exact ⟨rfl, fun _ => ⟨rfl, rfl⟩, fun h => by simp at h⟩
  | (k, v) :: fs, s, st => by
    simp only [serFields, imageFields]
    simp only [andThen_st, endObjectKey_st, beginObjectValue_st, beginObjectKey_st]
    have hx := ser_rel v st
    cases h1 : ser ext f v st with
    | error e => cases h2 : image ext v with
      | error e' => simpa [h1, h2, Rel, RelL] using hx
      | ok d => simp [h1, h2, Rel] at hx
    | ok r => cases h2 : image ext v with
      | error e' => simp [h1, h2, Rel] at hx
      | ok d =>
        simp only [h1, h2, Rel] at hx
        have hxs := serFields_rel fs .rest (endObjectValue f r.st).st
        cases h3 : serFields ext f fs .rest (endObjectValue f r.st).st with
        | error e => cases h4 : imageFields ext fs with
          | error e' => simpa [h3, h4, RelL] using hxs
          | ok ds => simp [h3, h4, RelL] at hxs
        | ok t => cases h4 : imageFields ext fs with
          | error e' => simp [h3, h4, RelL] at hxs
          | ok ds =>
            simp only [h3, h4, RelL] at hxs ⊢
            intro hw n hdep
            simp only [wfFields, Bool.and_eq_true] at hw
            have hd : Dep f st n := hdep (by simp)
            obtain ⟨hr1, hr2⟩ := hx hw.1 n hd
            have hc1 := endObjectValue_dep f r.st n hr1
            have hc2 := endObjectValue_hasv f r.st
            have hp := hxs hw.2 n (fun _ => hc1)
            rw [show (State.rest == State.first) = false from rfl] at hp
            refine ⟨?_, fun h => by simp at h, fun _ => ?_⟩
            · simp only [andThen_bufs, List.flatten_append, beginObjectKey_bufs f _ st n hd, escapeStr_spec, hr2,
                endObjectKey_bufs, beginObjectValue_bufs, endObjectValue_bufs, hp.bufs, membersFrom]
              simp
            · cases hxe : fs.isEmpty with
              | true =>
                obtain ⟨e1, e2⟩ := hp.ifEmpty hxe
                exact ⟨e1, by simpa only [e2] using hc2, by simpa only [e2] using hc1⟩
              | false => exact hp.ifNonempty hxe
end
end main

end SJ.Proofs.SerModel
