import SJ.Proofs.Utf8
import SJ.Proofs.RawNestedTop
/-!
# C19 helper lemmas: a captured value text of a well-formed UTF-8 input is well-formed UTF-8

A capture `c` is one grammar value: it starts with an ASCII byte (`-`, a digit, `n t f " [ {`) and, inside an
array text, is followed by whitespace, `,` or `]` — ASCII bytes as well — or, at top level, by whitespace or the
end of the input. No multi-byte UTF-8 sequence contains a byte below 0x80 (`Proofs.Utf8.validUtf8_ascii_split_eq`),
so both cuts are at character boundaries:

* `validUtf8_mid`: `validUtf8 (a ++ c ++ b)`, `c` starting with an ASCII byte, `b` empty or starting with an ASCII
  byte ⟹ `validUtf8 c`;
* `derives_sa`: a grammar value starts with an ASCII byte;
* `inner_valid`: every element text of `w₀ "[" inner "]" w₃` (`Inner inner cs`, every `cᵢ` a grammar value) is
  well-formed when the whole text is.
-/
namespace SJ.Proofs.C19Utf8
open SJ SJ.Spec.Utf8 SJ.Proofs.Utf8 SJ.Proofs.RawNested SJ.Proofs.StreamValues
open SJ.Spec.Grammar (CST Ws Derives isWs isDigit)

/-- starts with an ASCII byte -/
def SA (b : Bytes) : Prop := ∃ x r, b = x :: r ∧ x < 0x80

theorem SA.append {b : Bytes} (h : SA b) (r : Bytes) : SA (b ++ r) := by
  obtain ⟨x, r', rfl, hx⟩ := h
  exact ⟨x, r' ++ r, rfl, hx⟩

theorem ws_lt {b : UInt8} (h : isWs b = true) : b < 0x80 := by
  simp only [isWs, Bool.or_eq_true, beq_iff_eq] at h
  rcases h with ((rfl | rfl) | rfl) | rfl <;> decide

theorem digit_lt {b : UInt8} (h : isDigit b = true) : b < 0x80 := by
  simp only [isDigit, Bool.and_eq_true, decide_eq_true_eq, UInt8.le_iff_toNat_le, UInt8.lt_iff_toNat_lt] at *
  simp at *; omega

theorem opener_lt {b : UInt8} (h : isOpener b = true) : b < 0x80 := by
  simp only [isOpener, Bool.or_eq_true, beq_iff_eq] at h
  rcases h with ((((rfl | rfl) | rfl) | rfl) | rfl) | rfl <;> decide

/-- whitespace is ASCII -/
theorem ws_all_lt {w : Bytes} (h : Ws w) : ∀ x ∈ w, x < 0x80 := by
  intro x hx
  have := List.all_eq_true.mp h x hx
  exact ws_lt this

/-- whitespace before something that starts with an ASCII byte -/
theorem SA.ws_append {w b : Bytes} (hw : Ws w) (hb : SA b) : SA (w ++ b) := by
  cases w with
  | nil => simpa using hb
  | cons x w' => exact ⟨x, w' ++ b, rfl, ws_all_lt hw x (by simp)⟩

/-- **a grammar value starts with an ASCII byte** -/
theorem derives_sa {v : Bytes} {t : CST} (h : Derives v t) : SA v := by
  rcases derives_shape h with ⟨p, rfl⟩ | ⟨b, c, hb, ho, _, _⟩
  · cases h with
    | num p hwf =>
      obtain ⟨b, r, hbr, hb⟩ := num_head p hwf
      refine ⟨b, r, hbr, ?_⟩
      rcases hb with rfl | hb
      · decide
      · exact digit_lt hb
  · cases v with
    | nil => simp at hb
    | cons x r =>
      simp only [List.head?_cons, Option.some.injEq] at hb
      subst hb
      exact ⟨x, r, rfl, opener_lt ho⟩

/-- **the middle segment**: `c` starts with an ASCII byte and is followed by nothing or by an ASCII byte -/
theorem validUtf8_mid (a c b : Bytes) (hc : SA c) (hb : b = [] ∨ SA b) (h : validUtf8 (a ++ c ++ b) = true) :
    validUtf8 c = true := by
  obtain ⟨x, r, rfl, hx⟩ := hc
  have h1 : validUtf8 (x :: (r ++ b)) = true := by
    have : a ++ x :: r ++ b = a ++ x :: (r ++ b) := by simp
    rw [this] at h
    exact (validUtf8_cut_before hx h).2
  rcases hb with rfl | ⟨y, r', rfl, hy⟩
  · simpa using h1
  · have : x :: (r ++ y :: r') = (x :: r) ++ y :: r' := by simp
    rw [this] at h1
    exact (validUtf8_cut_before hy h1).1

/-- `( ws "," ws c )* ws` followed by an ASCII byte starts with an ASCII byte -/
theorem tail_sa {tail : Bytes} {cs : List Bytes} (h : Tail tail cs) {post : Bytes} (hp : SA post) : SA (tail ++ post) := by
  cases h with
  | nil w hw => exact SA.ws_append hw hp
  | cons w₁ w₂ c rest cs h₁ h₂ h =>
    have : w₁ ++ [0x2c] ++ w₂ ++ c ++ rest ++ post = w₁ ++ ([0x2c] ++ (w₂ ++ c ++ rest ++ post)) := by simp
    rw [this]
    exact SA.ws_append h₁ ⟨0x2c, _, rfl, by decide⟩

/-- the element texts of a tail -/
theorem tail_valid {tail : Bytes} {cs : List Bytes} (h : Tail tail cs) :
    ∀ (pre post : Bytes), SA post → (∀ c ∈ cs, ∃ t, Derives c t) → validUtf8 (pre ++ tail ++ post) = true →
      ∀ c ∈ cs, validUtf8 c = true := by
  induction h with
  | nil w hw => intro _ _ _ _ _ c hc; cases hc
  | cons w₁ w₂ c rest cs h₁ h₂ h ih =>
    intro pre post hp hd hv c' hc'
    rcases List.mem_cons.mp hc' with rfl | hc'
    · obtain ⟨t, ht⟩ := hd c' (by simp)
      have e : pre ++ (w₁ ++ [0x2c] ++ w₂ ++ c' ++ rest) ++ post = (pre ++ w₁ ++ [0x2c] ++ w₂) ++ c' ++ (rest ++ post) := by
        simp
      rw [e] at hv
      exact validUtf8_mid _ c' _ (derives_sa ht) (Or.inr (tail_sa h hp)) hv
    · have e : pre ++ (w₁ ++ [0x2c] ++ w₂ ++ c ++ rest) ++ post = (pre ++ w₁ ++ [0x2c] ++ w₂ ++ c) ++ rest ++ post := by
        simp
      rw [e] at hv
      exact ih _ post hp (fun c'' h'' => hd c'' (by simp [h''])) hv c' hc'

/-- **array texts**: every element text of a well-formed array text is well-formed -/
theorem inner_valid (cs : List Bytes) (w₀ inner w₃ : Bytes) (hin : Inner inner cs) (hd : ∀ c ∈ cs, ∃ t, Derives c t)
    (hv : validUtf8 (w₀ ++ [0x5b] ++ inner ++ [0x5d] ++ w₃) = true) : ∀ c ∈ cs, validUtf8 c = true := by
  cases cs with
  | nil => intro c hc; cases hc
  | cons c cs =>
    obtain ⟨w, tail, hw, rfl, ht⟩ := hin
    have hp : SA ([0x5d] ++ w₃) := ⟨0x5d, w₃, rfl, by decide⟩
    intro c' hc'
    rcases List.mem_cons.mp hc' with rfl | hc'
    · obtain ⟨t, hdt⟩ := hd c' (by simp)
      have e : w₀ ++ [0x5b] ++ (w ++ c' ++ tail) ++ [0x5d] ++ w₃ = (w₀ ++ [0x5b] ++ w) ++ c' ++ (tail ++ ([0x5d] ++ w₃)) := by
        simp
      rw [e] at hv
      exact validUtf8_mid _ c' _ (derives_sa hdt) (Or.inr (tail_sa ht hp)) hv
    · have e : w₀ ++ [0x5b] ++ (w ++ c ++ tail) ++ [0x5d] ++ w₃ = (w₀ ++ [0x5b] ++ w ++ c) ++ tail ++ ([0x5d] ++ w₃) := by
        simp
      rw [e] at hv
      exact tail_valid ht _ _ hp (fun c'' h'' => hd c'' (by simp [h''])) hv c' hc'

/-- **top level**: the value text of `ws v ws` is well-formed when the whole text is -/
theorem top_valid (w₁ v w₂ : Bytes) (t : CST) (h₂ : Ws w₂) (hd : Derives v t)
    (hv : validUtf8 (w₁ ++ v ++ w₂) = true) : validUtf8 v = true := by
  refine validUtf8_mid w₁ v w₂ (derives_sa hd) ?_ hv
  cases w₂ with
  | nil => exact Or.inl rfl
  | cons x r => exact Or.inr ⟨x, r, rfl, ws_all_lt h₂ x (by simp)⟩

end SJ.Proofs.C19Utf8
